(* Layer (d): the command loop of the Reader (Brotli/Impl.v cmd_label, lit_loop, read_commands)
   against one command of the RFC decoder (Brotli/Spec.v command, split in Brotli/ImplCopy.v):
   the invariant [cinv] between the Reader's state and the RFC decoder's command state, the literal
   loop, and one lemma per label of the goto chain of readCommands. *)
From V Require Import Base.Prelude Base.Prog Base.ProgThms Base.FuelThms Base.DepthThms
  Flate.Spec Flate.Canon Bzip2.Common Bzip2.MtfRle2 Prefix.Code
  Prefix.ReaderImpl Prefix.ReaderSpec Prefix.ReaderThms
  Prefix.DecTable Prefix.DecTableSpec Prefix.DecTableThms
  Brotli.BitReaderImpl Brotli.BitReaderSpec Brotli.BitReaderThms
  Brotli.PrefixDecoderImpl
  Brotli.Tables Brotli.Spec Brotli.Fuel Brotli.Safe
  Brotli.Impl Brotli.ImplBits Brotli.ImplSym Brotli.ImplFixed Brotli.ImplHdr Brotli.ImplNoPut
  Brotli.ImplCode Brotli.ImplCodeX Brotli.ImplCtx Brotli.ImplPfx Brotli.ImplDist Brotli.ImplCopy
  Brotli.ImplWin Brotli.ImplKeep.
From V Require Import Window.Dict Window.DictSpec Window.DictThms Window.DictBr Window.DictBrSpec
  Window.DictBrThms.
From Coq Require Import ZifyBool ZifyN ZifyNat.

Local Open Scope N_scope.
Local Ltac Zify.zify_post_hook ::= idtac.

(* ---- the literal context is an index into 64 entries ------------------------------------------------------ *)
Lemma lor_lt_pow2 a b k : a < 2 ^ k -> b < 2 ^ k -> N.lor a b < 2 ^ k.
Proof.
  intros Ha Hb. destruct (N.eq_dec (N.lor a b) 0) as [E|E]; [rewrite E; pose proof (N.pow_nonzero 2 k); lia|].
  apply N.log2_lt_pow2; [lia|]. rewrite N.log2_lor.
  apply N.max_lub_lt.
  - destruct (N.eq_dec a 0) as [->|Ha0]; [|apply N.log2_lt_pow2; lia].
    cbn. destruct (N.eq_dec k 0) as [->|Hk]; [|lia]. cbn in Hb. assert (b = 0) by lia. subst b. cbn in E. lia.
  - destruct (N.eq_dec b 0) as [->|Hb0]; [|apply N.log2_lt_pow2; lia].
    cbn. destruct (N.eq_dec k 0) as [->|Hk]; [|lia]. cbn in Ha. assert (a = 0) by lia. subst a. cbn in E. lia.
Qed.

Lemma nthN_forall (P : N -> Prop) l i : P 0 -> Forall P l -> P (nthN l i).
Proof.
  intros H0 H. unfold nthN. destruct (Nat.lt_ge_cases (N.to_nat i) (length l)) as [Hl|Hl].
  - rewrite Forall_forall in H. apply H. apply nth_In. exact Hl.
  - rewrite nth_overflow by exact Hl. exact H0.
Qed.

Lemma ctx_luts_small :
  forallb (fun x => x <? 64) ctx_lut0 && forallb (fun x => x <? 64) ctx_lut1 &&
  forallb (fun x => x <? 8) ctx_lut2 = true.
Proof. vm_compute. reflexivity. Qed.

Lemma forallb_ltb_Forall k l : forallb (fun x => x <? k) l = true -> Forall (fun x => x < k) l.
Proof.
  intros H. rewrite Forall_forall. rewrite forallb_forall in H. intros x Hx. apply N.ltb_lt, H, Hx.
Qed.

Lemma lit_context_lt mode p1 p2 : p1 < 256 -> lit_context mode p1 p2 < 64.
Proof.
  intros Hp. pose proof ctx_luts_small as H. apply andb_true_iff in H as [H H2].
  apply andb_true_iff in H as [H0 H1].
  apply forallb_ltb_Forall in H0, H1, H2.
  unfold lit_context. destruct (mode =? 0); [apply N.mod_lt; lia|].
  destruct (mode =? 1); [apply N.div_lt_upper_bound; lia|].
  destruct (mode =? 2).
  - change 64 with (2 ^ 6). apply lor_lt_pow2; change (2 ^ 6) with 64;
      (apply (nthN_forall (fun x => x < 64)); [cbv beta; lia | assumption]).
  - change 64 with (2 ^ 6). apply lor_lt_pow2; change (2 ^ 6) with 64.
    + pose proof (nthN_forall (fun x => x < 8) ctx_lut2 p1 ltac:(cbv beta; lia) H2). cbv beta in H. lia.
    + pose proof (nthN_forall (fun x => x < 8) ctx_lut2 p2 ltac:(cbv beta; lia) H2). cbv beta in H. lia.
Qed.

(* ---- the window with the literals of a running readLiterals pass ------------------------------------------------ *)
Definition Wokp (st : rst) (out : list byte) : Prop :=
  exists out0, out = zr_pend st ++ out0 /\ Wok (set_dict st (zr_dict st) []) out0 /\
               (zlen (zr_pend st) <= avail_size (zr_dict st))%Z.

Lemma set_dict_same st : set_dict st (zr_dict st) (zr_pend st) = st.
Proof. destruct st; reflexivity. Qed.

Lemma Wok_Wokp st out : Wok st out -> Wokp st out.
Proof.
  intros H. pose proof (wk_pend _ _ H) as Hp. exists out. rewrite Hp. split; [reflexivity|].
  split.
  - rewrite <- Hp. rewrite set_dict_same. exact H.
  - destruct H as [_ (I0 & _) _ _]. unfold zlen. cbn [length]. unfold avail_size.
    pose proof (i_wr _ _ I0). lia.
Qed.

Lemma Wokp_Wok st out : Wokp st out -> zr_pend st = [] -> Wok st out.
Proof.
  intros (out0 & -> & H & _) Hp. rewrite Hp. cbn [app]. rewrite <- Hp in H. rewrite set_dict_same in H. exact H.
Qed.

Lemma Wok_ext st st' out : zr_pend st' = zr_pend st -> zr_dict st' = zr_dict st ->
  zr_outOff st' = zr_outOff st -> zr_toRead st' = zr_toRead st -> Wok st out -> Wok st' out.
Proof. intros H1 H2 H3 H4 [A B C D]. split; rewrite ?H1, ?H2, ?H3, ?H4; assumption. Qed.

Lemma Wokp_ext st st' out : zr_pend st' = zr_pend st -> zr_dict st' = zr_dict st ->
  zr_outOff st' = zr_outOff st -> zr_toRead st' = zr_toRead st -> Wokp st out -> Wokp st' out.
Proof.
  intros H1 H2 H3 H4 (out0 & E & HW & Hr). exists out0. rewrite H1, H2. split; [exact E|]. split; [|exact Hr].
  apply (Wok_ext (set_dict st (zr_dict st) [])); try reflexivity; try assumption.
Qed.

(* the pending literals go to the window *)
Lemma commit_pend_ok st out : Wokp st out ->
  exists d', commit_pend st = SOk tt (set_dict st d' []) /\ Wok (set_dict st d' []) out /\
             d_size d' = d_size (zr_dict st) /\
             avail_size d' = (avail_size (zr_dict st) - zlen (zr_pend st))%Z.
Proof.
  intros (out0 & -> & H & Hroom). unfold commit_pend.
  destruct (zr_pend st) as [|b r] eqn:Ep.
  - exists (zr_dict st). split; [f_equal; rewrite <- Ep; symmetry; apply set_dict_same|].
    split; [exact H|]. split; [reflexivity|]. unfold zlen. cbn [length]. lia.
  - rewrite <- Ep in *. rewrite fast_rev_eq.
    destruct (m_write_ok _ _ (rev (zr_pend st)) H) as (d' & Ew & HW & _ & Hs & Hav).
    { cbn [zr_dict set_dict]. unfold zlen in *. rewrite rev_length. exact Hroom. }
    unfold m_write in Ew. cbn [zr_dict set_dict] in Ew.
    destruct (write_raw (zr_dict st) (rev (zr_pend st))) as [[n d1]| | |] eqn:E; try discriminate.
    assert (Ed : d1 = d') by (inversion Ew; reflexivity). clear Ew. subst d1.
    exists d'. split; [reflexivity|].
    cbn [zr_dict set_dict zr_pend] in HW, Hs, Hav. rewrite rev_involutive in HW.
    split.
    + replace (set_dict st d' []) with (set_dict (set_dict st (zr_dict st) []) d' []); [exact HW|].
      destruct st; reflexivity.
    + split; [exact Hs|]. rewrite Hav. unfold zlen. rewrite rev_length. reflexivity.
Qed.

Section Cmd.
Variable data : list byte.
Hypothesis Hd : forall b, In b data -> b < 256.
Variable bsz : nat.
Hypothesis Hbsz : (16 <= bsz)%nat.
Variable dict_len : N.
Variable dict_byte : N -> N.
Hypothesis Hdb : forall k, dict_byte k < 256.
Hypothesis Hdl : 122784 <= dict_len.

Notation BInv' := (BitReaderThms.BInv data).
Notation sast' := (sast data).

(* ---- the invariant of the command loop ------------------------------------------------------------------------------ *)
(* [s]: the command state of the RFC decoder (the block states may be those in the middle of a
   command); [out]: the output so far, newest first, including pending literals *)
Record cinv (st : rst) (R : nat) (out : list byte) (m : mbp) (s : cst) : Prop := mkCinv {
  ci_rd : BInv' R (zr_rd st);
  ci_win : Wokp st out;
  ci_outb : OutB out;
  ci_toRead : zr_toRead st = [];
  ci_rel : cmd_rel st m (c_bl s) (c_bi s) (c_bd s);
  ci_size : d_size (zr_dict st) = Z.of_N (m_window m) /\ 1 <= m_window m <= 2 ^ 24;
  ci_ring : zr_dists st = zring (c_ring s) /\ ring_pos (c_ring s);
  ci_rem : zr_blkLen st = Z.of_N (c_rem s) /\ c_rem s <= 2 ^ 24;
  ci_lit : zr_litMapOff st = 64 * b_cur (c_bl s) /\
           zr_litTypeLen st = zr_litMapLen st - zr_litMapOff st /\
           zr_cmode st = nthN (m_cmodes m) (b_cur (c_bl s));
  ci_dmap : zr_distMapOff st = 4 * b_cur (c_bd s) /\
            zr_distTypeLen st = zr_distMapLen st - zr_distMapOff st;
  ci_mtf : MtfInv (zr_mtf st) (zr_mtfTail st)
}.

Ltac bits_core HI nb Hnew v p1 E Hv Hle :=
  match goal with
  | |- context [run (rbits nb) (sast data ?R0 ?o)] =>
    let Hx := fresh "Hx" in
    pose proof (m_try_read_bits_ok data Hd bsz Hbsz _ R0 o nb HI ltac:(lia)) as Hx;
    let e := fresh "e" in let s1 := fresh "s1" in
    destruct (run (rbits nb) (sast data R0 o)) as [v s1|e s1];
      [ destruct Hx as (p1 & E & -> & Hnew & Hv & Hle)
      | destruct Hx as (He & Ho & pf & Ef); subst e ]
  end.

(* ---- shapes of the RFC decoder's block switch ------------------------------------------------------------------------ *)
Lemma block_switch_shape b a b' a' : run (block_switch b) a = Done b' a' ->
  b_n b' = b_n b /\ b_tt b' = b_tt b /\ b_lt b' = b_lt b /\ b_prev b' = b_cur b.
Proof.
  unfold block_switch. rewrite run_bind. destruct (run (sym_or_corrupt (b_tt b)) a) as [t a1|e a1]; [|discriminate].
  cbv zeta. rewrite run_bind. destruct (run (read_block_count (b_lt b)) a1) as [c a2|e a2]; [|discriminate].
  cbn [run]. intros H. inversion H; subst. repeat split.
Qed.

Lemma trees_rel_same bd bd' asize ts : k_store bd' = k_store bd -> k_len bd' = k_len bd ->
  trees_rel bd asize ts -> trees_rel bd' asize ts.
Proof. intros Hs Hl [H1 H2 H3]. split; rewrite ?Hs, ?Hl; assumption. Qed.

Lemma nthN_skipn l k i : nthN (skipn (N.to_nat k) l) i = nthN l (k + i).
Proof. unfold nthN. rewrite nth_skipn_add. f_equal. lia. Qed.

(* ---- the literal loop ---------------------------------------------------------------------------------------------------- *)
Fixpoint lit_iter (m : mbp) (k : nat) (ls : lst) (a : ast) : result lst :=
  match k with
  | O => Done ls a
  | S k' =>
    match run (lit_body m ls) a with
    | Done (inl ls') a' => lit_iter m k' ls' a'
    | Done (inr ls') a' => Done ls' a'
    | Fail e a' => Fail e a'
    end
  end.

(* the literal-decoding part of the state *)
Record lrel (st : rst) (m : mbp) (ls : lst) : Prop := mkLrel {
  lr_blk : blk_rel (zr_lit st) (l_b ls);
  lr_trees : trees_rel (zr_lit st) 256 (m_ltrees m);
  lr_cmodes : zr_cmodes st = m_cmodes m /\ length (m_cmodes m) = N.to_nat (b_n (l_b ls)) /\
              Forall (fun x => x < 4) (m_cmodes m);
  lr_map : zr_litMapLen st = 64 * b_n (l_b ls) /\
           map_rel (zr_litMap st) (64 * b_n (l_b ls)) (m_cmapl m) (N.of_nat (length (m_ltrees m)));
  lr_slice : zr_litMapOff st = 64 * b_cur (l_b ls) /\
             zr_litTypeLen st = zr_litMapLen st - zr_litMapOff st /\ zr_cmode st = l_mode ls;
  lr_mode : l_mode ls = nthN (m_cmodes m) (b_cur (l_b ls)) /\ l_map ls = lit_slice m (b_cur (l_b ls));
  lr_cnt : 2 <= b_n (l_b ls) -> b_cnt (l_b ls) = 0 \/ 1 <= b_cnt (l_b ls)
}.

(* what the literal loop may change *)
Definition lframe (st st' : rst) : Prop :=
  exists p bd off tl cm pend,
    st' = set_dict (set_lit (set_blks (set_rd st p) (zr_iac st) bd (zr_dst st))
                            (zr_litMap st) (zr_litMapLen st) off tl cm (zr_cmodes st))
                   (zr_dict st) pend.

Lemma lframe_refl st : lframe st st.
Proof.
  exists (zr_rd st), (zr_lit st), (zr_litMapOff st), (zr_litTypeLen st), (zr_cmode st), (zr_pend st).
  destruct st; reflexivity.
Qed.

Lemma lframe_trans a b c : lframe a b -> lframe b c -> lframe a c.
Proof.
  intros (p1 & bd1 & o1 & t1 & c1 & pe1 & ->) (p2 & bd2 & o2 & t2 & c2 & pe2 & ->).
  exists p2, bd2, o2, t2, c2, pe2. reflexivity.
Qed.

Definition lit_switch (s0 : rst) : M unit :=
  (if (k_typeLen (zr_lit s0) =? 0)%Z then
     read_block_switch bsz BLit ;;~
     s1 <~ get ;;
     let t0 := k_t0 (zr_lit s1) in
     let off := 64 * t0 in
     if zr_litMapLen s1 <? off then crash else
     modify (fun s => set_lit s (zr_litMap s) (zr_litMapLen s) off (zr_litMapLen s - off)
                              (zr_cmode s) (zr_cmodes s)) ;;~
     match nth_error (zr_cmodes s1) (N.to_nat t0) with
     | None => crash
     | Some cm =>
       modify (fun s => set_lit s (zr_litMap s) (zr_litMapLen s) (zr_litMapOff s) (zr_litTypeLen s)
                                cm (zr_cmodes s))
     end
   else ret tt)%brm.

Lemma noput_block_switch b : noput (block_switch b).
Proof. unfold block_switch, read_block_count. np. Qed.

Lemma lit_switch_ok st R out m ls : BInv' R (zr_rd st) -> lrel st m ls ->
  if (2 <=? b_n (l_b ls)) && (b_cnt (l_b ls) =? 0) then
    match run (block_switch (l_b ls)) (sast' R out) with
    | Done b' a' =>
      exists st1 R1, lit_switch st st = SOk tt st1 /\ lframe st st1 /\ zr_pend st1 = zr_pend st /\
        a' = sast' R1 out /\ BInv' R1 (zr_rd st1) /\ 1 <= b_cnt b' /\
        lrel st1 m (mkLst (l_n ls) b' (nthN (m_cmodes m) (b_cur b')) (lit_slice m (b_cur b'))
                          (l_p1 ls) (l_p2 ls))
    | Fail e a' =>
      e = EUEOF /\ a_out a' = out /\
      exists st', lit_switch st st = SErr EUEOF st' /\ same_out st st'
    end
  else lit_switch st st = SOk tt st.
Proof.
  intros HI [Lb Lt Lc Lm Ls Lmo Lcn]. unfold lit_switch.
  rewrite (blk_rel_zero bsz Hbsz _ _ Lb).
  destruct ((2 <=? b_n (l_b ls)) && (b_cnt (l_b ls) =? 0)) eqn:Ec; [|reflexivity].
  apply andb_true_iff in Ec as [H2 _]. apply N.leb_le in H2.
  pose proof (read_block_switch_refines data Hd bsz Hbsz BLit st R out (l_b ls) HI Lb H2) as Hs.
  pose proof (noput_run _ (noput_block_switch (l_b ls)) (sast' R out)) as [Hno _].
  destruct (run (block_switch (l_b ls)) (sast' R out)) as [b' a'|e a'] eqn:Er.
  2:{ destruct Hs as (-> & st' & E & Hso). split; [reflexivity|].
      split; [exact Hno|]. exists st'. rewrite (mbind_err _ _ _ _ _ E). split; [reflexivity | exact Hso]. }
  destruct Hs as (p & bd' & R' & E & -> & HI' & Hb' & Hc1 & Hst & Hlen).
  destruct (block_switch_shape _ _ _ _ Er) as (Hn' & Htt' & Hlt' & Hprev').
  rewrite (mbind_ok _ _ _ _ _ E). cbv beta. rewrite mbind_get. cbv zeta.
  set (s1 := put_blk BLit (set_rd st p) bd').
  assert (Es1 : zr_lit s1 = bd') by reflexivity.
  assert (El1 : zr_litMapLen s1 = zr_litMapLen st) by reflexivity.
  assert (Ec1 : zr_cmodes s1 = zr_cmodes st) by reflexivity.
  rewrite Es1, El1, Ec1.
  destruct Hb' as [Bn Bnb Bcur Bprev Bcl Bpl Blen Btt Blt].
  destruct Lm as [Lm1 Lm2]. destruct Lc as (Lc1 & Lc2 & Lc3).
  destruct (N.ltb_spec (zr_litMapLen st) (64 * k_t0 bd')) as [Hlt|_]; [exfalso; lia|].
  rewrite mbind_modify.
  destruct (nth_error (zr_cmodes st) (N.to_nat (k_t0 bd'))) as [cm|] eqn:Ecm.
  2:{ apply nth_error_None in Ecm. rewrite Lc1, Lc2 in Ecm. lia. }
  assert (Ecm' : cm = nthN (m_cmodes m) (b_cur b')).
  { unfold nthN. rewrite <- Bcur, <- Lc1. symmetry. apply nth_error_nth. exact Ecm. }
  unfold modify. eexists _, R'. split; [reflexivity|].
  split.
  { exists p, bd', (64 * k_t0 bd'), (zr_litMapLen st - 64 * k_t0 bd'), cm, (zr_pend st).
    unfold s1. destruct st; reflexivity. }
  split; [reflexivity|]. split; [reflexivity|]. split; [exact HI'|]. split; [exact Hc1|].
  constructor; cbn [l_b l_mode l_map l_n l_p1 l_p2]; unfold s1;
    cbn [put_blk set_lit set_blks set_rd zr_lit zr_cmodes zr_litMapLen zr_litMap zr_litMapOff zr_litTypeLen zr_cmode].
  - constructor; assumption.
  - apply (trees_rel_same (zr_lit st)); assumption.
  - rewrite Hn'. repeat split; assumption.
  - rewrite Hn'. split; assumption.
  - rewrite Bcur. repeat split. exact Ecm'.
  - split; reflexivity.
  - intros _. right. exact Hc1.
Qed.

Definition lit_tail (p1 p2 : N) (kont : N -> M unit) : M unit :=
  (modify (fun s => set_blks s (zr_iac s) (bdk_dec (zr_lit s)) (zr_dst s)) ;;~
   s2 <~ get ;;
   if 3 <? zr_cmode s2 then crash else
   let cid := Brotli.Spec.lit_context (zr_cmode s2) p1 p2 in
   if zr_litTypeLen s2 <=? cid then crash else
   match nm_get (zr_litMap s2) (zr_litMapOff s2 + cid) with
   | None => crash
   | Some ti =>
     match bdk_prefix (zr_lit s2) ti with
     | None => crash
     | Some tree =>
       litSym <~ m_try_read_symbol bsz tree ;;
       let b := litSym mod 256 in
       modify (fun s => set_dict s (zr_dict s) (b :: zr_pend s)) ;;~
       kont b
     end
   end)%brm.

Lemma lit_loop_S k p1 p2 :
  lit_loop bsz (S k) p1 p2 =
  (s0 <~ get ;; lit_switch s0 ;;~ lit_tail p1 p2 (fun b => lit_loop bsz k b p1))%brm.
Proof. reflexivity. Qed.

Lemma lit_tail_ok (kont : N -> M unit) st R out m ls : BInv' R (zr_rd st) -> lrel st m ls ->
  (2 <= b_n (l_b ls) -> 1 <= b_cnt (l_b ls)) -> l_p1 ls < 256 ->
  match run (sym_or_corrupt (nth_tree (m_ltrees m)
               (nthN (l_map ls) (lit_context (l_mode ls) (l_p1 ls) (l_p2 ls))))) (sast' R out) with
  | Done lit a' =>
    exists st2 R2, lit < 256 /\ a' = sast' R2 out /\ BInv' R2 (zr_rd st2) /\ lframe st st2 /\
      zr_pend st2 = lit :: zr_pend st /\
      lrel st2 m (mkLst (l_n ls - 1) (blk_dec (l_b ls)) (l_mode ls) (l_map ls) lit (l_p1 ls)) /\
      lit_tail (l_p1 ls) (l_p2 ls) kont st = kont lit st2
  | Fail e a' =>
    e = EUEOF /\ a_out a' = out /\
    exists st', lit_tail (l_p1 ls) (l_p2 ls) kont st = SErr EUEOF st' /\ same_out st st'
  end.
Proof.
  intros HI [Lb Lt Lc Lm Ls Lmo Lcn] Hc Hp1. unfold lit_tail.
  rewrite mbind_modify, mbind_get.
  set (s2 := set_blks st (zr_iac st) (bdk_dec (zr_lit st)) (zr_dst st)).
  change (zr_cmode s2) with (zr_cmode st). change (zr_litTypeLen s2) with (zr_litTypeLen st).
  change (zr_litMap s2) with (zr_litMap st). change (zr_litMapOff s2) with (zr_litMapOff st).
  change (zr_lit s2) with (bdk_dec (zr_lit st)).
  destruct Ls as (Ls1 & Ls2 & Ls3). destruct Lmo as (Lmo1 & Lmo2). destruct Lc as (Lc1 & Lc2 & Lc3).
  destruct Lm as (Lm1 & Lm2).
  pose proof Lb as [Bn Bnb Bcur Bprev Bcl Bpl Blen Btt Blt].
  assert (Hmode : l_mode ls < 4).
  { rewrite Lmo1. apply (nthN_forall (fun x => x < 4)); [cbv beta; lia | exact Lc3]. }
  rewrite Ls3. destruct (N.ltb_spec 3 (l_mode ls)) as [Hbad|_]; [exfalso; lia|].
  cbv zeta. set (cid := lit_context (l_mode ls) (l_p1 ls) (l_p2 ls)).
  assert (Hcid : cid < 64) by (apply lit_context_lt; exact Hp1).
  destruct (N.leb_spec (zr_litTypeLen st) cid) as [Hbad|_]; [exfalso; lia|].
  destruct (Lm2 (zr_litMapOff st + cid) ltac:(lia)) as (ti & Eti & Hti & Htilt).
  rewrite Eti.
  assert (Eti' : ti = nthN (l_map ls) cid).
  { rewrite Hti, Lmo2. unfold lit_slice. rewrite nthN_skipn. rewrite Ls1. reflexivity. }
  destruct Lt as [T1 T2 T3].
  destruct (T3 (N.to_nat ti) ltac:(lia)) as (d & Ed & Hdt).
  assert (Epre : bdk_prefix (bdk_dec (zr_lit st)) ti = Some d).
  { unfold bdk_prefix, bdk_dec. cbn [k_len k_store]. rewrite T1.
    destruct (Nat.ltb_spec (N.to_nat ti) (length (m_ltrees m))) as [_|Hbad]; [exact Ed | lia]. }
  rewrite Epre.
  assert (HI2 : BInv' R (zr_rd s2)) by exact HI.
  pose proof (m_try_read_symbol_tree data Hd bsz Hbsz _ s2 R out d _ Hdt HI2) as Hs.
  unfold nth_tree. rewrite <- Eti'.
  destruct (run (sym_or_corrupt (nth (N.to_nat ti) (m_ltrees m) HEmpty)) (sast' R out)) as [lit a'|e a'].
  - destruct Hs as (p' & R' & E & -> & HI' & Hlit). cbv beta in Hlit.
    rewrite (mbind_ok _ _ _ _ _ E). cbv beta zeta. rewrite mbind_modify.
    rewrite N.mod_small by exact Hlit.
    exists (set_dict (set_rd s2 p') (zr_dict st) (lit :: zr_pend st)), R'.
    split; [exact Hlit|]. split; [reflexivity|]. split; [exact HI'|].
    split.
    { exists p', (bdk_dec (zr_lit st)), (zr_litMapOff st), (zr_litTypeLen st), (zr_cmode st), (lit :: zr_pend st).
      unfold s2. destruct st; reflexivity. }
    split; [reflexivity|]. split; [|reflexivity].
    constructor; cbn [l_b l_mode l_map l_n l_p1 l_p2]; unfold s2;
      cbn [set_dict set_blks set_rd zr_lit zr_cmodes zr_litMapLen zr_litMap zr_litMapOff zr_litTypeLen zr_cmode b_n b_cur blk_dec b_cnt].
    + apply (blk_rel_dec bsz Hbsz); assumption.
    + apply (trees_rel_same (zr_lit st)); [reflexivity | reflexivity | split; assumption].
    + repeat split; assumption.
    + split; assumption.
    + repeat split; assumption.
    + split; assumption.
    + intros H2. specialize (Hc H2). lia.
  - destruct Hs as (-> & Ho & p' & E). split; [reflexivity|]. split; [exact Ho|].
    rewrite (mbind_err _ _ _ _ _ E). eexists. split; [reflexivity|]. repeat split.
Qed.

Lemma same_out_lframe_fields st st' : lframe st st' ->
  zr_dict st' = zr_dict st /\ zr_toRead st' = zr_toRead st /\ zr_outOff st' = zr_outOff st.
Proof. intros (p & bd & o & t & c & pe & ->). repeat split. Qed.

Lemma lframe_lens st st' : lframe st st' ->
  zr_insLen st' = zr_insLen st /\ zr_blkLen st' = zr_blkLen st /\ zr_cpyLen st' = zr_cpyLen st /\
  zr_word st' = zr_word st /\ zr_distZero st' = zr_distZero st /\ zr_dist st' = zr_dist st.
Proof. intros (p & bd & o & t & c & pe & ->). repeat split. Qed.

(* the last two bytes of the output *)
Definition lpo (ls : lst) (out : list byte) : Prop := l_p1 ls = nth 0 out 0 /\ l_p2 ls = nth 1 out 0.

(* k literals: lit_loop against k iterations of lit_body. [out]: what is in the window *)
Lemma lit_loop_ok m : forall k st R out ls,
  BInv' R (zr_rd st) -> lrel st m ls -> N.of_nat k <= l_n ls -> l_p1 ls < 256 ->
  lpo ls (zr_pend st ++ out) ->
  match lit_iter m k ls (sast' R (zr_pend st ++ out)) with
  | Done ls' a' =>
    exists st' R' lits, lit_loop bsz k (l_p1 ls) (l_p2 ls) st = SOk tt st' /\ lframe st st' /\
      zr_pend st' = lits ++ zr_pend st /\ length lits = k /\ OutB lits /\
      a' = sast' R' (zr_pend st' ++ out) /\ BInv' R' (zr_rd st') /\ lrel st' m ls' /\
      l_n ls' = l_n ls - N.of_nat k /\ l_p1 ls' < 256 /\ lpo ls' (zr_pend st' ++ out)
  | Fail e a' =>
    exists e' st' lits, lit_loop bsz k (l_p1 ls) (l_p2 ls) st = SErr e' st' /\
      (e' = EUEOF \/ e' = ECorrupted) /\
      zr_dict st' = zr_dict st /\ zr_toRead st' = zr_toRead st /\ zr_outOff st' = zr_outOff st /\
      zr_pend st' = lits ++ zr_pend st /\ (length lits <= k)%nat /\ OutB lits /\
      a_out a' = zr_pend st' ++ out
  end.
Proof.
  induction k as [|k IH]; intros st R out ls HI HL Hk Hp1 Hlpo.
  - cbn [lit_iter lit_loop]. exists st, R, []. split; [reflexivity|]. split; [apply lframe_refl|].
    split; [reflexivity|]. split; [reflexivity|]. split; [constructor|]. split; [reflexivity|].
    split; [exact HI|]. split; [exact HL|]. split; [lia|]. split; [exact Hp1 | exact Hlpo].
  - rewrite lit_loop_S. rewrite mbind_get. cbn [lit_iter]. unfold lit_body.
    destruct (N.eqb_spec (l_n ls) 0) as [H0|_]; [exfalso; lia|].
    rewrite run_bind. unfold blk_next.
    pose proof (lit_switch_ok st R (zr_pend st ++ out) m ls HI HL) as Hsw.
    (* the state after the optional block switch *)
    assert (Hmid :
      match run (if (2 <=? b_n (l_b ls)) && (b_cnt (l_b ls) =? 0)
                 then b' <- block_switch (l_b ls) ;; Ret (blk_dec b', true)
                 else Ret (blk_dec (l_b ls), false)) (sast' R (zr_pend st ++ out)) with
      | Done (b, sw) a1 =>
        exists st1 R1 b0, lit_switch st st = SOk tt st1 /\ lframe st st1 /\ zr_pend st1 = zr_pend st /\
          a1 = sast' R1 (zr_pend st ++ out) /\ BInv' R1 (zr_rd st1) /\ b = blk_dec b0 /\
          (2 <= b_n b0 -> 1 <= b_cnt b0) /\
          lrel st1 m (mkLst (l_n ls) b0
                            (if sw then nthN (m_cmodes m) (b_cur b) else l_mode ls)
                            (if sw then lit_slice m (b_cur b) else l_map ls) (l_p1 ls) (l_p2 ls))
      | Fail e a1 =>
        e = EUEOF /\ a_out a1 = zr_pend st ++ out /\
        exists st', lit_switch st st = SErr EUEOF st' /\ same_out st st'
      end).
    { destruct ((2 <=? b_n (l_b ls)) && (b_cnt (l_b ls) =? 0)) eqn:Ec.
      - rewrite run_bind.
        destruct (run (block_switch (l_b ls)) (sast' R (zr_pend st ++ out))) as [b' a1|e a1].
        + cbn [run]. destruct Hsw as (st1 & R1 & E1 & Hf1 & Hp & -> & HI1 & Hc1 & HL1).
          exists st1, R1, b'. split; [exact E1|]. split; [exact Hf1|]. split; [exact Hp|].
          split; [reflexivity|]. split; [exact HI1|]. split; [reflexivity|]. split; [intros _; exact Hc1|].
          exact HL1.
        + exact Hsw.
      - cbn [run]. exists st, R, (l_b ls). split; [exact Hsw|]. split; [apply lframe_refl|].
        split; [reflexivity|]. split; [reflexivity|]. split; [exact HI|]. split; [reflexivity|].
        split.
        { intros H2. apply andb_false_iff in Ec. destruct (lr_cnt _ _ _ HL H2) as [Hz|Hp]; [|exact Hp].
          destruct Ec as [Ec|Ec]; [apply N.leb_gt in Ec; lia | apply N.eqb_neq in Ec; lia]. }
        destruct ls; exact HL. }
    destruct (run (if (2 <=? b_n (l_b ls)) && (b_cnt (l_b ls) =? 0)
                   then b' <- block_switch (l_b ls) ;; Ret (blk_dec b', true)
                   else Ret (blk_dec (l_b ls), false)) (sast' R (zr_pend st ++ out))) as [[b sw] a1|e a1].
    2:{ destruct Hmid as (-> & Ho & st' & E & (S1 & S2 & S3 & S4)).
        exists EUEOF, st', []. rewrite (mbind_err _ _ _ _ _ E). split; [reflexivity|].
        split; [left; reflexivity|]. split; [exact S1|]. split; [exact S3|]. split; [exact S4|].
        split; [exact S2|]. split; [cbn [length]; lia|]. split; [constructor|]. rewrite S2. exact Ho. }
    destruct Hmid as (st1 & R1 & b0 & E1 & Hf1 & Hp & -> & HI1 & -> & Hc0 & HL1).
    rewrite (mbind_ok _ _ _ _ _ E1). cbv beta zeta iota.
    set (ls1 := mkLst (l_n ls) b0 (if sw then nthN (m_cmodes m) (b_cur (blk_dec b0)) else l_mode ls)
                      (if sw then lit_slice m (b_cur (blk_dec b0)) else l_map ls) (l_p1 ls) (l_p2 ls)) in *.
    rewrite run_bind.
    pose proof (lit_tail_ok (fun b => lit_loop bsz k b (l_p1 ls)) st1 R1 (zr_pend st ++ out) m ls1 HI1 HL1 Hc0 Hp1) as Ht.
    change (l_map ls1) with (if sw then lit_slice m (b_cur (blk_dec b0)) else l_map ls) in Ht.
    change (l_mode ls1) with (if sw then nthN (m_cmodes m) (b_cur (blk_dec b0)) else l_mode ls) in Ht.
    change (l_p1 ls1) with (l_p1 ls) in Ht. change (l_p2 ls1) with (l_p2 ls) in Ht.
    match goal with |- context [run (sym_or_corrupt ?t) ?a] =>
      match type of Ht with context [run (sym_or_corrupt ?t') ?a'] => change t' with t in Ht end;
      destruct (run (sym_or_corrupt t) a) as [lit a2|e a2] end.
    2:{ destruct Ht as (-> & Ho & st' & E & (S1 & S2 & S3 & S4)).
        destruct (same_out_lframe_fields _ _ Hf1) as (F1 & F2 & F3).
        exists EUEOF, st', []. rewrite E. split; [reflexivity|].
        split; [left; reflexivity|]. split; [congruence|]. split; [congruence|]. split; [congruence|].
        split; [cbn [app]; congruence|]. split; [cbn [length]; lia|]. split; [constructor|].
        rewrite S2, Hp. exact Ho. }
    destruct Ht as (st2 & R2 & Hlit & -> & HI2 & Hf2 & Hp2 & HL2 & Et).
    rewrite Et. cbn [run].
    set (ls2 := mkLst (l_n ls - 1) (blk_dec b0) (l_mode ls1) (l_map ls1) lit (l_p1 ls)) in *.
    assert (Hlpo2 : lpo ls2 (zr_pend st2 ++ out)).
    { rewrite Hp2, Hp. unfold lpo, ls2. cbn [l_p1 l_p2 app nth]. split; [reflexivity | apply Hlpo]. }
    specialize (IH st2 R2 out ls2 HI2 HL2 ltac:(unfold ls2; cbn [l_n]; lia) Hlit Hlpo2).
    change (l_p1 ls2) with lit in IH. change (l_p2 ls2) with (l_p1 ls) in IH.
    match goal with |- match lit_iter m k ?l ?a with _ => _ end =>
      replace a with (sast' R2 (zr_pend st2 ++ out)); [change l with ls2|] end.
    2:{ unfold sast. rewrite Hp2, Hp. cbn [app length a_in a_pos a_out Prog.a_len]. f_equal. lia. }
    destruct (lit_iter m k ls2 (sast' R2 (zr_pend st2 ++ out))) as [ls' a'|e a'].
    + destruct IH as (st' & R' & lits & El & Hf' & Hp' & Hl' & Hob & -> & HI' & HL' & Hn' & Hp1' & Hlpo').
      exists st', R', (lits ++ [lit]). split; [exact El|].
      split; [eapply lframe_trans; [exact Hf1|]; eapply lframe_trans; [exact Hf2 | exact Hf']|].
      split; [rewrite Hp', Hp2, Hp, <- app_assoc; reflexivity|].
      split; [rewrite app_length; cbn [length]; lia|].
      split; [apply OutB_app; [exact Hob | constructor; [exact Hlit | constructor]]|].
      split; [reflexivity|]. split; [exact HI'|]. split; [exact HL'|].
      split; [unfold ls2 in Hn'; cbn [l_n] in Hn'; lia|]. split; [exact Hp1' | exact Hlpo'].
    + destruct IH as (e' & st' & lits & El & He & D1 & D2 & D3 & Hp' & Hl' & Hob & Ho).
      destruct (same_out_lframe_fields _ _ Hf1) as (F1 & F2 & F3).
      destruct (same_out_lframe_fields _ _ Hf2) as (G1 & G2 & G3).
      exists e', st', (lits ++ [lit]). split; [exact El|]. split; [exact He|].
      split; [congruence|]. split; [congruence|]. split; [congruence|].
      split; [rewrite Hp', Hp2, Hp, <- app_assoc; reflexivity|].
      split; [rewrite app_length; cbn [length]; lia|].
      split; [apply OutB_app; [exact Hob | constructor; [exact Hlit | constructor]]|]. exact Ho.
Qed.

(* ---- the RFC decoder's literal loop, cut after k literals --------------------------------------------------------------- *)
Lemma lit_body_shape m st :
  post (fun r => match r with
                 | inl st' => l_n st' = l_n st - 1 /\ l_n st <> 0
                 | inr x => l_n st = 0 /\ x = st
                 end) (lit_body m st).
Proof.
  unfold lit_body. destruct (l_n st =? 0) eqn:E.
  - apply post_ret. apply N.eqb_eq in E. split; [exact E | reflexivity].
  - apply N.eqb_neq in E. apply post_bind_any. intros [b sw]. cbv zeta.
    apply post_bind_any. intros lit. apply post_put. apply post_ret. cbn [l_n]. split; [reflexivity | exact E].
Qed.

Lemma lit_loop_run m ls a :
  loops (lit_body m) ls a (run (loop (loop_depth (l_n ls)) (lit_body m) ls) a).
Proof.
  apply loop_loops.
  pose proof (nofuel_elim (S (ilen a)) _ a (bnf_lit_loop (S (ilen a)) m (l_n ls) ls eq_refl) ltac:(lia)) as H.
  destruct (run (loop (loop_depth (l_n ls)) (lit_body m) ls) a) as [x a'|e a']; cbn [is_efuel]; [tauto|].
  destruct e; try tauto; congruence.
Qed.

Lemma lit_iter_split m k : forall ls a, N.of_nat k <= l_n ls ->
  match lit_iter m k ls a with
  | Done ls' a' =>
    run (loop (loop_depth (l_n ls)) (lit_body m) ls) a =
    run (loop (loop_depth (l_n ls')) (lit_body m) ls') a'
  | Fail e a' => run (loop (loop_depth (l_n ls)) (lit_body m) ls) a = Fail e a'
  end.
Proof.
  induction k as [|k IH]; intros ls a Hk; cbn [lit_iter]; [reflexivity|].
  destruct (run (lit_body m ls) a) as [[ls1|x] a1|e a1] eqn:E.
  - pose proof (post_elim _ _ _ _ _ (lit_body_shape m ls) E) as [H1 H2]. cbv beta iota in H1, H2.
    assert (Estep : run (loop (loop_depth (l_n ls)) (lit_body m) ls) a =
                    run (loop (loop_depth (l_n ls1)) (lit_body m) ls1) a1).
    { eapply loops_det; [apply lit_loop_run|]. eapply loops_step; [exact E | apply lit_loop_run]. }
    specialize (IH ls1 a1 ltac:(lia)).
    destruct (lit_iter m k ls1 a1) as [ls' a'|e a']; rewrite Estep; exact IH.
  - pose proof (post_elim _ _ _ _ _ (lit_body_shape m ls) E) as [H1 H2]. lia.
  - eapply loops_det; [apply lit_loop_run | apply loops_fail; exact E].
Qed.

Lemma lit_loop_zero m ls a : l_n ls = 0 ->
  run (loop (loop_depth (l_n ls)) (lit_body m) ls) a = Done ls a.
Proof.
  intros H. eapply loops_det; [apply lit_loop_run|]. apply loops_done.
  unfold lit_body. rewrite H. reflexivity.
Qed.

(* ---- where the Reader stands in a command, and what the RFC decoder still has to do for it --------------------- *)
Inductive cfg :=
| CStart (s : cst)                              (* startCommand *)
| CLits (s : cst) (sym clen : N) (ls : lst)     (* readLiterals, l_n ls literals to go *)
| CDist (s : cst) (sym clen : N)                (* readDistance *)
| CDyn (s : cst) (clen dist : N)                (* copyDynamicDict, clen bytes to go *)
| CStat0 (s : cst) (clen dist : N)              (* copyStaticDict, the word not yet made *)
| CStat (s : cst) (w : list byte)               (* copyStaticDict, w still to be written *)
| CFin (s : cst).                               (* finishCommand *)

(* the rest of the command once the literals are in; [rem]: MLEN bytes left after them *)
Definition cmd_tail2 (m : mbp) (s : cst) (sym clen rem : N) (bl : blk) : prog (cst + cst) :=
  if rem =? 0 then Ret (inr (mkCst 0 bl (c_bi s) (c_bd s) (c_ring s)))
  else
    dz <- cmd_dist m s sym clen ;;
    cmd_copy dict_byte m s rem clen bl (c_bi s) dz.

Definition cmd_done (s : cst) : prog (cst + cst) :=
  Ret (cmd_next (c_rem s) (c_bl s) (c_bi s) (c_bd s) (c_ring s)).

Definition cfg_prog (m : mbp) (c : cfg) : prog (cst + cst) :=
  match c with
  | CStart s => command dict_byte m s
  | CLits s sym clen ls =>
    ls' <- loop (loop_depth (l_n ls)) (lit_body m) ls ;;
    cmd_tail2 m s sym clen (c_rem s - l_n ls) (l_b ls')
  | CDist s sym clen => cmd_tail2 m s sym clen (c_rem s) (c_bl s)
  | CDyn s clen dist =>
    assert_p (clen <=? c_rem s) ECorrupted ;;;
    Copy dist clen (Ret (cmd_next (c_rem s - clen) (c_bl s) (c_bi s) (c_bd s) (c_ring s)))
  | CStat0 s clen dist =>
    Hist (fun pos =>
      match dict_ref dict_byte clen (dist - N.min (m_window m) pos - 1) with
      | None => Throw ECorrupted
      | Some w =>
        let n := N.of_nat (length w) in
        assert_p (n <=? c_rem s) ECorrupted ;;;
        put_all w ;;;
        Ret (cmd_next (c_rem s - n) (c_bl s) (c_bi s) (c_bd s) (c_ring s))
      end)
  | CStat s w =>
    put_all w ;;;
    Ret (cmd_next (c_rem s - N.of_nat (length w)) (c_bl s) (c_bi s) (c_bd s) (c_ring s))
  | CFin s => cmd_done s
  end.

Definition with_bi (s : cst) (bi : blk) : cst := mkCst (c_rem s) (c_bl s) bi (c_bd s) (c_ring s).
Definition with_bl (s : cst) (rem : N) (bl : blk) : cst := mkCst rem bl (c_bi s) (c_bd s) (c_ring s).

(* the command in the form used below *)
Lemma command_split2 m s a :
  run (command dict_byte m s) a =
  run (h <- cmd_head m s ;;
       let '(bi, sym, ilen, clen) := h in
       bl <- cmd_lits m (c_bl s) ilen ;;
       cmd_tail2 m (with_bi s bi) sym clen (c_rem s - ilen) bl) a.
Proof.
  rewrite command_split. rewrite !run_bind.
  destruct (run (cmd_head m s) a) as [[[[bi sym] ilen] clen] a1|e a1] eqn:Eh; [|reflexivity].
  cbn [fst snd]. rewrite !run_bind.
  destruct (run (cmd_lits m (c_bl s) ilen) a1) as [bl a2|e a2]; [|reflexivity].
  unfold cmd_tail, cmd_tail2, with_bi. cbn [c_bi c_bd c_ring c_rem].
  (* the head has checked ilen <= c_rem s *)
  assert (Hle : ilen <= c_rem s).
  { unfold cmd_head in Eh. apply run_bind_done in Eh. destruct Eh as (bis & a3 & _ & Eh). cbv zeta in Eh.
    apply run_bind_done in Eh. destruct Eh as (sy & a4 & _ & Eh).
    destruct (iac_codes sy) as [ic cc]. destruct (nth_range ins_ranges ic) as [ib inb].
    destruct (nth_range cpy_ranges cc) as [cb cnb].
    apply run_bind_done in Eh. destruct Eh as (ix & a5 & _ & Eh).
    apply run_bind_done in Eh. destruct Eh as (cx & a6 & _ & Eh).
    apply run_assert_bind_done in Eh. destruct Eh as [Hc Eh]. cbn [run] in Eh. inversion Eh; subst.
    apply N.leb_le in Hc. exact Hc. }
  destruct (N.eqb_spec (c_rem s) ilen) as [E1|E1]; destruct (N.eqb_spec (c_rem s - ilen) 0) as [E2|E2];
    try lia; reflexivity.
Qed.

(* ---- ranges ------------------------------------------------------------------------------------------------------------ *)
Lemma ranges_bound_check :
  forallb (fun r : N * N => (snd r <=? 24) && (fst r + 2 ^ snd r <=? 2 ^ 25)) ins_ranges &&
  forallb (fun r : N * N => (snd r <=? 24) && (fst r + 2 ^ snd r <=? 2 ^ 25)) cpy_ranges = true.
Proof. vm_compute. reflexivity. Qed.

Lemma nth_range_bound rs i :
  forallb (fun r : N * N => (snd r <=? 24) && (fst r + 2 ^ snd r <=? 2 ^ 25)) rs = true ->
  snd (nth_range rs i) <= 24 /\ fst (nth_range rs i) + 2 ^ snd (nth_range rs i) <= 2 ^ 25.
Proof.
  intros H. unfold nth_range. destruct (Nat.lt_ge_cases (N.to_nat i) (length rs)) as [Hl|Hl].
  - rewrite forallb_forall in H. specialize (H _ (nth_In rs (0, 0) Hl)).
    apply andb_true_iff in H as [H1 H2]. apply N.leb_le in H1, H2. split; assumption.
  - rewrite nth_overflow by exact Hl. cbn [fst snd]. split; [lia|]. change (2 ^ 0) with 1. change (2 ^ 25) with 33554432. lia.
Qed.

Lemma ins_range_bound i : snd (nth_range ins_ranges i) <= 24 /\
  fst (nth_range ins_ranges i) + 2 ^ snd (nth_range ins_ranges i) <= 2 ^ 25.
Proof. apply nth_range_bound. pose proof ranges_bound_check as H. apply andb_true_iff in H. apply H. Qed.

Lemma cpy_range_bound i : snd (nth_range cpy_ranges i) <= 24 /\
  fst (nth_range cpy_ranges i) + 2 ^ snd (nth_range cpy_ranges i) <= 2 ^ 25.
Proof. apply nth_range_bound. pose proof ranges_bound_check as H. apply andb_true_iff in H. apply H. Qed.

(* ---- a block switch if the count is exhausted, for any of the three categories ---------------------------------------- *)
Definition sw_prog (b : blk) : prog blk :=
  if (2 <=? b_n b) && (b_cnt b =? 0) then block_switch b else Ret b.

Lemma blk_next_alt b a :
  run (blk_next b) a = run (b' <- sw_prog b ;; Ret (blk_dec b', (2 <=? b_n b) && (b_cnt b =? 0))) a.
Proof. unfold blk_next, sw_prog. destruct (_ && _); [reflexivity|]. cbn [bind run]. reflexivity. Qed.

Lemma put_blk_same sel st : put_blk sel (set_rd st (zr_rd st)) (get_blk sel st) = st.
Proof. destruct st, sel; reflexivity. Qed.

Lemma sw_ok sel st R out b : BInv' R (zr_rd st) -> blk_rel (get_blk sel st) b ->
  match run (sw_prog b) (sast' R out) with
  | Done b' a' =>
    exists p bd' R1,
      (if (k_typeLen (get_blk sel st) =? 0)%Z then read_block_switch bsz sel else ret tt) st =
      SOk tt (put_blk sel (set_rd st p) bd') /\
      blk_rel bd' b' /\ k_store bd' = k_store (get_blk sel st) /\ k_len bd' = k_len (get_blk sel st) /\
      a' = sast' R1 out /\ BInv' R1 p /\ (2 <= b_n b' -> 1 <= b_cnt b') /\ b_n b' = b_n b /\
      ((2 <=? b_n b) && (b_cnt b =? 0) = false -> b' = b)
  | Fail e a' =>
    e = EUEOF /\ a_out a' = out /\
    exists st', (if (k_typeLen (get_blk sel st) =? 0)%Z then read_block_switch bsz sel else ret tt) st =
                SErr EUEOF st' /\ same_out st st'
  end.
Proof.
  intros HI Hb. unfold sw_prog. rewrite (blk_rel_zero bsz Hbsz _ _ Hb).
  destruct ((2 <=? b_n b) && (b_cnt b =? 0)) eqn:Ec.
  - apply andb_true_iff in Ec as [H2 _]. apply N.leb_le in H2.
    pose proof (read_block_switch_refines data Hd bsz Hbsz sel st R out b HI Hb H2) as Hs.
    pose proof (noput_run _ (noput_block_switch b) (sast' R out)) as [Hno _].
    destruct (run (block_switch b) (sast' R out)) as [b' a'|e a'] eqn:Er.
    + destruct Hs as (p & bd' & R' & E & -> & HI' & Hb' & Hc1 & Hst & Hlen).
      destruct (block_switch_shape _ _ _ _ Er) as (Hn' & _).
      exists p, bd', R'. split; [exact E|]. split; [exact Hb'|]. split; [exact Hst|]. split; [exact Hlen|].
      split; [reflexivity|]. split; [exact HI'|]. split; [intros _; exact Hc1|]. split; [exact Hn'|].
      intros Hf; discriminate Hf.
    + destruct Hs as (-> & st' & E & Hso). split; [reflexivity|]. split; [exact Hno|].
      exists st'. split; assumption.
  - cbn [run]. exists (zr_rd st), (get_blk sel st), R. rewrite put_blk_same.
    split; [reflexivity|]. split; [exact Hb|]. split; [reflexivity|]. split; [reflexivity|].
    split; [reflexivity|]. split; [exact HI|]. split.
    { intros H2. apply andb_false_iff in Ec. destruct Ec as [Ec|Ec]; [apply N.leb_gt in Ec; lia|].
      apply N.eqb_neq in Ec. lia. }
    split; reflexivity.
Qed.

(* ---- the state of the Reader at each label ---------------------------------------------------------------------------------- *)
Definition cbase (m : mbp) (s : cst) (st : rst) (R : nat) (out : list byte) : Prop :=
  cinv st R out m s /\ zr_pend st = [].

Definition crel (m : mbp) (c : cfg) (st : rst) (R : nat) (out : list byte) : Prop :=
  match c with
  | CStart s => cbase m s st R out /\ zr_word st = [] /\ 1 <= c_rem s
  | CLits s sym clen ls =>
    cbase m s st R out /\ zr_word st = [] /\
    zr_insLen st = Z.of_N (l_n ls) /\ 1 <= l_n ls <= c_rem s /\ l_b ls = c_bl s /\
    l_mode ls = nthN (m_cmodes m) (b_cur (l_b ls)) /\ l_map ls = lit_slice m (b_cur (l_b ls)) /\
    lpo ls out /\ zr_cpyLen st = Z.of_N clen /\ 2 <= clen < 2 ^ 25 /\
    zr_distZero st = (sym <? 128) /\ sym < 704
  | CDist s sym clen =>
    cbase m s st R out /\ zr_word st = [] /\ 1 <= c_rem s /\
    zr_cpyLen st = Z.of_N clen /\ 2 <= clen < 2 ^ 25 /\ zr_distZero st = (sym <? 128) /\ sym < 704
  | CDyn s clen dist =>
    cbase m s st R out /\ zr_word st = [] /\
    zr_cpyLen st = Z.of_N clen /\ 1 <= clen < 2 ^ 25 /\ zr_dist st = Z.of_N dist /\
    0 < dist <= N.min (m_window m) (N.of_nat (length out))
  | CStat0 s clen dist =>
    cbase m s st R out /\ zr_word st = [] /\
    zr_cpyLen st = Z.of_N clen /\ zr_dist st = Z.of_N dist /\
    N.min (m_window m) (N.of_nat (length out)) < dist
  | CStat s w =>
    cbase m s st R out /\ zr_word st = w /\ w <> [] /\ N.of_nat (length w) <= c_rem s /\ OutB w
  | CFin s => cbase m s st R out /\ zr_word st = []
  end.

Lemma nth_range_eta rs i : nth_range rs i = (fst (nth_range rs i), snd (nth_range rs i)).
Proof. destruct (nth_range rs i); reflexivity. Qed.

(* ---- startCommand ------------------------------------------------------------------------------------------------------------- *)
Lemma lstart_ok m s st R out : crel m (CStart s) st R out ->
  match run (cmd_head m s) (sast' R out) with
  | Done (bi, sym, ilen, clen) a' =>
    exists st' R',
      cmd_label bsz dict_len dict_byte LStart st =
      SOk (inl (if 0 <? ilen then LLiterals else LDistance)) st' /\
      a' = sast' R' out /\
      (if 0 <? ilen
       then forall p1 p2, p1 = nth 0 out 0 -> p2 = nth 1 out 0 ->
                          crel m (CLits (with_bi s bi) sym clen (lit_init m (c_bl s) ilen p1 p2)) st' R' out
       else crel m (CDist (with_bi s bi) sym clen) st' R' out)
  | Fail e a' =>
    a_out a' = out /\
    exists e' st', cmd_label bsz dict_len dict_byte LStart st = SErr e' st' /\
                   (e' = EUEOF \/ e' = ECorrupted) /\ same_out st st'
  end.
Proof.
  intros ((HC & Hpend) & Hword & Hrem).
  destruct HC as [HI HW HO HT Hrel Hsize Hring Hremz Hlit Hdm Hmtf].
  cbn [cmd_label]. rewrite mbind_get. unfold cmd_head.
  rewrite run_bind, blk_next_alt, run_bind.
  pose proof (sw_ok BIac st R out (c_bi s) HI (cr_iac _ _ _ _ _ Hrel)) as Hs.
  cbn [get_blk] in Hs.
  destruct (run (sw_prog (c_bi s)) (sast' R out)) as [b' a1|e a1].
  2:{ destruct Hs as (-> & Ho & st' & E & Hso). split; [exact Ho|].
      exists EUEOF, st'. rewrite (mbind_err _ _ _ _ _ E). split; [reflexivity|].
      split; [left; reflexivity | exact Hso]. }
  destruct Hs as (p & bd' & R1 & E & Hb' & Hst & Hlen & -> & HI1 & Hc1 & Hn' & _).
  rewrite (mbind_ok _ _ _ _ _ E). cbv beta. cbn [run fst]. rewrite mbind_modify, mbind_get.
  set (st1 := set_blks (put_blk BIac (set_rd st p) bd') _ _ _).
  assert (Ei1 : zr_iac st1 = bdk_dec bd') by reflexivity. rewrite Ei1.
  pose proof (blk_rel_dec bsz Hbsz _ _ Hb' Hc1) as Hbd.
  destruct (cr_itrees _ _ _ _ _ Hrel) as [[T1 T2 T3] Tlen].
  pose proof (bl_cur _ _ Hbd) as Hcur. pose proof (bl_curlt _ _ Hbd) as Hcl.
  cbn [blk_dec b_cur b_n] in Hcl.
  destruct (T3 (N.to_nat (b_cur b')) ltac:(lia)) as (d & Ed & Hdt).
  assert (Epre : bdk_prefix (bdk_dec bd') (k_t0 (bdk_dec bd')) = Some d).
  { unfold bdk_prefix. rewrite Hcur. cbn [bdk_dec k_len k_store blk_dec b_cur]. rewrite Hlen, Hst, T1.
    destruct (Nat.ltb_spec (N.to_nat (b_cur b')) (length (m_itrees m))) as [_|Hbad]; [exact Ed | lia]. }
  rewrite Epre. rewrite run_bind.
  assert (HI1' : BInv' R1 (zr_rd st1)) by exact HI1.
  pose proof (m_try_read_symbol_tree data Hd bsz Hbsz _ st1 R1 out d _ Hdt HI1') as Hsy.
  unfold nth_tree. cbn [blk_dec b_cur].
  destruct (run (sym_or_corrupt (nth (N.to_nat (b_cur b')) (m_itrees m) HEmpty)) (sast' R1 out)) as [sym a2|e a2].
  2:{ destruct Hsy as (-> & Ho & p' & E2). split; [exact Ho|].
      rewrite (mbind_err _ _ _ _ _ E2). eexists EUEOF, _. split; [reflexivity|].
      split; [left; reflexivity | repeat split]. }
  destruct Hsy as (p2 & R2 & E2 & -> & HI2 & Hsym). cbv beta in Hsym.
  rewrite (mbind_ok _ _ _ _ _ E2). cbv beta.
  destruct (N.leb_spec 704 sym) as [Hbad|_]; [exfalso; lia|].
  destruct (iac_codes sym) as [icode ccode] eqn:Eiac.
  pose proof (ins_range_bound icode) as [Hib1 Hib2]. pose proof (cpy_range_bound ccode) as [Hcb1 Hcb2].
  pose proof (cpy_base_ge2 sym) as Hc2. rewrite Eiac in Hc2. cbn [snd] in Hc2.
  rewrite (nth_range_eta ins_ranges icode), (nth_range_eta cpy_ranges ccode).
  set (ibase := fst (nth_range ins_ranges icode)) in *. set (inb := snd (nth_range ins_ranges icode)) in *.
  set (cbase0 := fst (nth_range cpy_ranges ccode)) in *. set (cnb := snd (nth_range cpy_ranges ccode)) in *.
  cbn [fst] in Hc2.
  set (st2 := set_rd st1 p2). assert (HI2' : BInv' R2 (zr_rd st2)) by exact HI2.
  rewrite run_bind. bits_core HI2' inb Hn3 ix p3 E3 Hv3 Hle3.
  2:{ split; [exact Ho|]. rewrite (mbind_err _ _ _ _ _ Ef). eexists EUEOF, _. split; [reflexivity|].
      split; [left; reflexivity | repeat split]. }
  rewrite (mbind_ok _ _ _ _ _ E3). cbv beta.
  set (st3 := set_rd st2 p3). assert (HI3' : BInv' (R2 + N.to_nat inb) (zr_rd st3)) by exact Hn3.
  assert (Hix : ix < 2 ^ inb).
  { rewrite Hv3. pose proof (bits_at_bound bsz Hbsz (bstream data) R2 (N.to_nat inb)) as Hb.
    rewrite N2Nat.id in Hb. exact Hb. }
  rewrite run_bind. bits_core HI3' cnb Hn4 cx p4 E4 Hv4 Hle4.
  2:{ split; [exact Ho|]. rewrite (mbind_err _ _ _ _ _ Ef). eexists EUEOF, _. split; [reflexivity|].
      split; [left; reflexivity | repeat split]. }
  rewrite (mbind_ok _ _ _ _ _ E4). cbv beta zeta.
  assert (Hcx : cx < 2 ^ cnb).
  { rewrite Hv4. pose proof (bits_at_bound bsz Hbsz (bstream data) (R2 + N.to_nat inb) (N.to_nat cnb)) as Hb.
    rewrite N2Nat.id in Hb. exact Hb. }
  rewrite mbind_modify, mbind_get.
  set (st4 := set_dist _ _ _ _).
  assert (Eb4 : zr_blkLen st4 = zr_blkLen st) by reflexivity. rewrite Eb4.
  destruct Hremz as [Hremz Hrem24]. rewrite Hremz.
  unfold assert_p.
  destruct (N.leb_spec (ibase + ix) (c_rem s)) as [Hle|Hgt].
  2:{ cbn [bind run]. split; [reflexivity|].
      destruct (Z.ltb_spec (Z.of_N (c_rem s)) (Z.of_N (ibase + ix))) as [_|Hbad]; [|exfalso; lia].
      eexists ECorrupted, _. split; [reflexivity|]. split; [right; reflexivity | repeat split]. }
  cbn [bind run].
  destruct (Z.ltb_spec (Z.of_N (c_rem s)) (Z.of_N (ibase + ix))) as [Hbad|_]; [exfalso; lia|].
  assert (Hbase : cbase m (with_bi s (blk_dec b')) st4 (R2 + N.to_nat inb + N.to_nat cnb) out).
  { split; [|exact Hpend].
    destruct Hrel as [Rl Ri Rd Rnp Rnd Rcm Rlm Rdm Rlt Rit Rdt].
    constructor; unfold with_bi; cbn [c_rem c_bl c_bi c_bd c_ring].
    - exact Hn4.
    - apply (Wokp_ext st); try reflexivity. exact HW.
    - exact HO.
    - exact HT.
    - constructor; try assumption.
      split; [|cbn [blk_dec b_n]; lia].
      apply (trees_rel_same (zr_iac st)); [exact Hst | exact Hlen | split; assumption].
    - exact Hsize.
    - exact Hring.
    - split; assumption.
    - exact Hlit.
    - exact Hdm.
    - exact Hmtf. }
  exists st4, (R2 + N.to_nat inb + N.to_nat cnb)%nat.
  destruct (N.ltb_spec 0 (ibase + ix)) as [Hpos|Hzero].
  - destruct (Z.ltb_spec 0 (Z.of_N (ibase + ix))) as [_|Hbad]; [|exfalso; lia].
    split; [reflexivity|]. split; [reflexivity|].
    intros q1 q2 Hq1 Hq2. cbn [crel]. split; [exact Hbase|]. split; [exact Hword|].
    unfold lit_init. cbn [l_n l_b l_mode l_map]. unfold with_bi. cbn [c_rem c_bl].
    split; [reflexivity|]. split; [lia|]. split; [reflexivity|]. split; [reflexivity|]. split; [reflexivity|].
    split; [split; cbn [l_p1 l_p2]; assumption|].
    split; [reflexivity|]. split; [lia|]. split; [reflexivity | exact Hsym].
  - destruct (Z.ltb_spec 0 (Z.of_N (ibase + ix))) as [Hbad|_]; [exfalso; lia|].
    split; [reflexivity|]. split; [reflexivity|].
    cbn [crel]. split; [exact Hbase|]. split; [exact Hword|]. unfold with_bi. cbn [c_rem].
    split; [exact Hrem|]. split; [reflexivity|]. split; [lia|]. split; [reflexivity | exact Hsym].
Qed.

(* ---- moving the invariant along ---------------------------------------------------------------------------------------------- *)
(* the parts of the state that only parsing changes *)
Definition ctl_eq (a b : rst) : Prop :=
  zr_rd b = zr_rd a /\ zr_iac b = zr_iac a /\ zr_lit b = zr_lit a /\ zr_dst b = zr_dst a /\
  zr_litMap b = zr_litMap a /\ zr_litMapLen b = zr_litMapLen a /\ zr_litMapOff b = zr_litMapOff a /\
  zr_litTypeLen b = zr_litTypeLen a /\ zr_cmode b = zr_cmode a /\ zr_cmodes b = zr_cmodes a /\
  zr_distMap b = zr_distMap a /\ zr_distMapLen b = zr_distMapLen a /\ zr_distMapOff b = zr_distMapOff a /\
  zr_distTypeLen b = zr_distTypeLen a /\ zr_dists b = zr_dists a /\
  zr_npostfix b = zr_npostfix a /\ zr_ndirect b = zr_ndirect a /\
  zr_mtf b = zr_mtf a /\ zr_mtfTail b = zr_mtfTail a.

Lemma cmd_rel_ctl a b m bl bi bd : ctl_eq a b -> cmd_rel a m bl bi bd -> cmd_rel b m bl bi bd.
Proof.
  intros (E1 & E2 & E3 & E4 & E5 & E6 & E7 & E8 & E9 & E10 & E11 & E12 & E13 & E14 & E15 & E16 & E17 & E18 & E19)
         [Rl Ri Rd Rnp Rnd Rcm Rlm Rdm Rlt Rit Rdt].
  constructor; rewrite ?E2, ?E3, ?E4, ?E5, ?E6, ?E10, ?E11, ?E12, ?E16, ?E17; assumption.
Qed.

Lemma cinv_transfer st R out m s st' out' rem' :
  cinv st R out m s -> ctl_eq st st' -> Wokp st' out' -> OutB out' -> zr_toRead st' = [] ->
  d_size (zr_dict st') = d_size (zr_dict st) -> zr_blkLen st' = Z.of_N rem' -> rem' <= c_rem s ->
  cinv st' R out' m (with_bl s rem' (c_bl s)).
Proof.
  intros [HI HW HO HT Hrel Hsize Hring Hremz Hlit Hdm Hmtf] Hc HW' HO' HT' Hsz Hb Hr.
  pose proof (cmd_rel_ctl _ _ _ _ _ _ Hc Hrel) as Hrel'.
  destruct Hc as (E1 & E2 & E3 & E4 & E5 & E6 & E7 & E8 & E9 & E10 & E11 & E12 & E13 & E14 & E15 & E16 & E17 & E18 & E19).
  constructor; unfold with_bl; cbn [c_rem c_bl c_bi c_bd c_ring];
    rewrite ?E1, ?E6, ?E7, ?E8, ?E9, ?E12, ?E13, ?E14, ?E15, ?E18, ?E19, ?Hsz; try assumption.
  split; [exact Hb | lia].
Qed.

Lemma cinv_lits st R out m s st1 ls' R' out1 :
  cinv st R out m s -> lframe st st1 -> lrel st1 m ls' -> BInv' R' (zr_rd st1) ->
  Wokp st1 out1 -> OutB out1 ->
  cinv st1 R' out1 m (with_bl s (c_rem s) (l_b ls')).
Proof.
  intros [HI HW HO HT Hrel Hsize Hring Hremz Hlit Hdm Hmtf] (pf & bdf & offf & tlf & cmf & pendf & ->)
         [Lb Lt Lc Lm Ls Lmo Lcn] HI' HW' HO'.
  destruct Hrel as [Rl Ri Rd Rnp Rnd Rcm Rlm Rdm Rlt Rit Rdt].
  cbn [set_dict set_lit set_blks set_rd zr_lit zr_cmodes zr_litMapLen zr_litMap zr_litMapOff zr_litTypeLen zr_cmode] in *.
  constructor; unfold with_bl; cbn [c_rem c_bl c_bi c_bd c_ring]; try assumption.
  - constructor; try assumption.
  - destruct Ls as (L1 & L2 & L3). destruct Lmo as (M1 & M2).
    cbn [set_dict set_lit set_blks set_rd zr_lit zr_cmodes zr_litMapLen zr_litMap zr_litMapOff zr_litTypeLen zr_cmode].
    repeat split; try assumption. rewrite L3. exact M1.
Qed.

(* ---- suspension: ReadFlush has handed out bytes; after their delivery the step resumes ---------------------------------- *)
Definition delivered (st : rst) : rst :=
  set_io st (zr_inOff st) (zr_outOff st + zlen (zr_toRead st))%Z [] (zr_err st).

Lemma Wok_delivered st out : Wok st out -> Wok (delivered st) out.
Proof.
  intros [A B C D]. unfold delivered. split; cbn [zr_pend zr_dict zr_outOff zr_toRead set_io].
  - exact A.
  - change (zlen (@nil byte)) with 0%Z. rewrite Z.add_0_r. exact B.
  - reflexivity.
  - pose proof (zlen_nonneg (zr_toRead st)). lia.
Qed.

Definition srel (m : mbp) (c : cfg) (st : rst) (R : nat) (out : list byte) : Prop :=
  crel m c (delivered st) R out /\ zr_toRead st = zskipn (zr_outOff st) (rev out).

(* what is known when a step has failed *)
Definition frel (st : rst) (out : list byte) : Prop :=
  Wokp st out /\ zr_toRead st = [] /\ OutB out.

Lemma frel_same_out st st' R out m s : cinv st R out m s -> same_out st st' -> frel st' out.
Proof.
  intros HC (S1 & S2 & S3 & S4). split; [|split].
  - apply (Wokp_ext st); try assumption. exact (ci_win _ _ _ _ _ HC).
  - rewrite S3. exact (ci_toRead _ _ _ _ _ HC).
  - exact (ci_outb _ _ _ _ _ HC).
Qed.

Lemma last_byte_rev out k : (1 <= k)%Z -> last_byte (rev out) k = nth (Z.to_nat k - 1) out 0.
Proof.
  intros Hk. unfold last_byte, znth. rewrite zlen_rev. unfold zlen.
  destruct (Z.leb_spec k (Z.of_nat (length out))) as [Hle|Hgt].
  - rewrite rev_nth by lia. f_equal. lia.
  - rewrite nth_overflow by lia. reflexivity.
Qed.

(* ---- readLiterals ------------------------------------------------------------------------------------------------------------------ *)
Lemma llits_ok m s sym clen ls st R out : crel m (CLits s sym clen ls) st R out ->
  let kn := Z.to_nat (Z.min (avail_size (zr_dict st)) (Z.of_N (l_n ls))) in
  match lit_iter m kn ls (sast' R out) with
  | Done ls' a' =>
    exists st' R' lits,
      a' = sast' R' (lits ++ out) /\ length lits = kn /\ l_n ls' = l_n ls - N.of_nat kn /\
      let s' := with_bl s (c_rem s - N.of_nat kn) (l_b ls') in
      if 0 <? l_n ls' then
        cmd_label bsz dict_len dict_byte LLiterals st = SOk (inr true) st' /\
        zr_step st' = KCommands /\ zr_stepState st' = stateLiterals /\
        srel m (CLits s' sym clen ls') st' R' (lits ++ out)
      else if 0 <? c_rem s' then
        cmd_label bsz dict_len dict_byte LLiterals st = SOk (inl LDistance) st' /\
        crel m (CDist s' sym clen) st' R' (lits ++ out)
      else
        cmd_label bsz dict_len dict_byte LLiterals st = SOk (inl LFinish) st' /\
        crel m (CFin s') st' R' (lits ++ out)
  | Fail e a' =>
    exists e' st', cmd_label bsz dict_len dict_byte LLiterals st = SErr e' st' /\
                   (e' = EUEOF \/ e' = ECorrupted) /\ frel st' (a_out a')
  end.
Proof.
  intros ((HC & Hpend) & Hword & Hins & Hln & Hlb & Hlm & Hlmap & Hlpo & Hcpy & Hclen & Hdz & Hsym) kn.
  pose proof HC as [HI HW HO HT Hrel Hsize Hring Hremz Hlit Hdm Hmtf].
  pose proof (Wokp_Wok _ _ HW Hpend) as HWok.
  pose proof (wk_inv _ _ HWok) as (I0 & ZT & H2).
  cbn [cmd_label]. rewrite mbind_get.
  assert (Hsl : slice_ok (d_len (zr_dict st)) (d_wr (zr_dict st)) (d_len (zr_dict st)) = true).
  { unfold slice_ok. pose proof (i_wr _ _ I0). pose proof (i_rd _ _ I0). lia. }
  rewrite Hsl. cbn [negb].
  set (avail := avail_size (zr_dict st)) in *.
  assert (Hav0 : (0 <= avail)%Z) by (unfold avail, avail_size; pose proof (i_wr _ _ I0); lia).
  rewrite Hins.
  destruct ((Z.of_N (l_n ls) <? avail)%Z && (Z.of_N (l_n ls) <? 0)%Z) eqn:Ebad.
  { exfalso. apply andb_true_iff in Ebad as [_ Eb]. lia. }
  rewrite (last_bytes_ok _ _ I0 ZT H2). cbn [of_dres s_out fst snd].
  rewrite !last_byte_rev by lia. change (Z.to_nat 1 - 1)%nat with 0%nat. change (Z.to_nat 2 - 1)%nat with 1%nat.
  destruct Hlpo as [Hp1 Hp2]. rewrite <- Hp1, <- Hp2.
  fold kn.
  (* the literal part of the state *)
  assert (HL : lrel st m ls).
  { destruct Hrel as [Rl Ri Rd Rnp Rnd Rcm Rlm Rdm Rlt Rit Rdt]. destruct Hlit as (L1 & L2 & L3).
    constructor; rewrite ?Hlb; try assumption.
    - repeat split; try assumption. rewrite L3, Hlm, Hlb. reflexivity.
    - split; [rewrite Hlm, Hlb; reflexivity | rewrite Hlmap, Hlb; reflexivity].
    - intros _. lia. }
  assert (Hkn : N.of_nat kn <= l_n ls) by (unfold kn; lia).
  assert (Hp1b : l_p1 ls < 256) by (rewrite Hp1; apply OutB_nth; exact HO).
  pose proof (lit_loop_ok m kn st R out ls HI HL Hkn Hp1b) as Hloop.
  rewrite Hpend in Hloop. cbn [app] in Hloop. specialize (Hloop (conj Hp1 Hp2)).
  destruct (lit_iter m kn ls (sast' R out)) as [ls' a'|e a'].
  2:{ destruct Hloop as (e' & st' & lits & El & He & D1 & D2 & D3 & Hp' & Hl' & Hob & Ho).
      exists e', st'. rewrite (mbind_err _ _ _ _ _ El). split; [reflexivity|]. split; [exact He|].
      rewrite app_nil_r in Hp'. split; [|split].
      - exists out. rewrite Ho, Hp'. split; [reflexivity|]. split.
        + apply (Wok_ext st); cbn [set_dict zr_pend zr_dict zr_outOff zr_toRead]; try assumption; try reflexivity.
          symmetry; exact Hpend.
        + rewrite D1. fold avail. unfold zlen. unfold kn in Hl'. lia.
      - rewrite D2. exact HT.
      - rewrite Ho, Hp'. apply OutB_app; assumption. }
  destruct Hloop as (st1 & R' & lits & El & Hf & Hp' & Hl' & Hob & -> & HI' & HL' & Hn' & Hp1' & Hlpo').
  rewrite app_nil_r in Hp'. rewrite Hp' in *.
  rewrite (mbind_ok _ _ _ _ _ El). cbv beta.
  destruct (same_out_lframe_fields _ _ Hf) as (F1 & F2 & F3).
  (* commit the literals *)
  assert (HWp1 : Wokp st1 (lits ++ out)).
  { exists out. rewrite Hp'. split; [reflexivity|]. split.
    - apply (Wok_ext st); cbn [set_dict zr_pend zr_dict zr_outOff zr_toRead]; try assumption; try reflexivity.
      symmetry; exact Hpend.
    - rewrite F1. fold avail. unfold zlen. unfold kn in Hl'. lia. }
  destruct (commit_pend_ok _ _ HWp1) as (d2 & Ec & HW2 & Hs2 & Hav2).
  change (mbind (fun s0 => commit_pend s0) ?f st1) with (mbind commit_pend f st1).
  rewrite (mbind_ok _ _ _ _ _ Ec). cbv beta. rewrite mbind_modify, mbind_get.
  set (st2 := set_dict st1 d2 []) in *.
  set (kz := Z.min avail (Z.of_N (l_n ls))) in *.
  set (st3 := set_lens st2 (zr_blkLen st2 - kz)%Z (zr_insLen st2 - kz)%Z (zr_cpyLen st2)).
  assert (Hkz : kz = Z.of_nat kn) by (unfold kn; lia).
  destruct (lframe_lens _ _ Hf) as (G1 & G2 & G3 & G4 & G5 & G6).
  assert (Eins3 : zr_insLen st3 = Z.of_N (l_n ls')).
  { unfold st3, st2. cbn [set_lens set_dict zr_insLen]. rewrite G1, Hins, Hn'. lia. }
  assert (Eblk3 : zr_blkLen st3 = Z.of_N (c_rem s - N.of_nat kn)).
  { unfold st3, st2. cbn [set_lens set_dict zr_blkLen]. rewrite G2, (proj1 Hremz). lia. }
  rewrite Eins3.
  pose proof (cinv_lits st R out m s st1 ls' R' (lits ++ out) HC Hf HL' HI' HWp1 (OutB_app _ _ Hob HO)) as HC1.
  assert (HW3 : Wok st3 (lits ++ out)) by (apply (Wok_ext st2); try reflexivity; exact HW2).
  assert (HT3 : zr_toRead st3 = []) by (unfold st3, st2; cbn [set_lens set_dict zr_toRead]; rewrite F2; exact HT).
  assert (Hsz3 : d_size (zr_dict st3) = d_size (zr_dict st1)) by exact Hs2.
  assert (Hc13 : ctl_eq st1 st3) by (unfold st3, st2; repeat split).
  pose proof (cinv_transfer st1 R' (lits ++ out) m _ st3 (lits ++ out) (c_rem s - N.of_nat kn)
                HC1 Hc13 (Wok_Wokp _ _ HW3) (OutB_app _ _ Hob HO) HT3 Hsz3 Eblk3
                ltac:(unfold with_bl; cbn [c_rem]; lia)) as HC3.
  change (with_bl (with_bl s (c_rem s) (l_b ls')) (c_rem s - N.of_nat kn) (c_bl (with_bl s (c_rem s) (l_b ls'))))
    with (with_bl s (c_rem s - N.of_nat kn) (l_b ls')) in HC3.
  destruct (N.ltb_spec 0 (l_n ls')) as [Hmore|Hdone].
  - (* suspended *)
    destruct (Z.ltb_spec 0 (Z.of_N (l_n ls'))) as [_|Hbad]; [|exfalso; lia].
    destruct (m_read_flush_ok st3 (lits ++ out) HW3 HT3) as (d4 & bs & Ef & HW4 & Hbs & Hs4 & Hav4).
    rewrite (mbind_ok _ _ _ _ _ Ef), mbind_modify.
    set (st5 := set_step (set_toRead (set_dict st3 d4 (zr_pend st3)) bs) KCommands stateLiterals).
    exists st5, R', lits. split; [reflexivity|]. split; [exact Hl'|]. split; [exact Hn'|]. cbv zeta.
    split; [reflexivity|]. split; [reflexivity|]. split; [reflexivity|].
    assert (HW5 : Wok (delivered st5) (lits ++ out)).
    { apply Wok_delivered. apply (Wok_ext (set_toRead (set_dict st3 d4 (zr_pend st3)) bs)); try reflexivity. exact HW4. }
    split.
    + cbn [crel]. split; [split|].
      * apply (cinv_transfer st3 R' (lits ++ out) m _ (delivered st5) (lits ++ out) (c_rem s - N.of_nat kn) HC3).
        -- unfold delivered, st5; repeat split.
        -- apply Wok_Wokp. exact HW5.
        -- apply OutB_app; assumption.
        -- reflexivity.
        -- exact Hs4.
        -- exact Eblk3.
        -- unfold with_bl. cbn [c_rem]. lia.
      * reflexivity.
      * unfold with_bl. cbn [c_rem c_bl].
        split; [unfold delivered, st5, st3, st2; cbn [set_io set_step set_toRead set_dict set_lens zr_word]; rewrite G4; exact Hword|].
        split; [exact Eins3|]. split; [lia|]. split; [reflexivity|].
        split; [exact (proj1 (lr_mode _ _ _ HL'))|]. split; [exact (proj2 (lr_mode _ _ _ HL'))|].
        split; [exact Hlpo'|].
        split; [unfold delivered, st5, st3, st2; cbn [set_io set_step set_toRead set_dict set_lens zr_cpyLen]; rewrite G3; exact Hcpy|].
        split; [exact Hclen|].
        split; [unfold delivered, st5, st3, st2; cbn [set_io set_step set_toRead set_dict set_lens zr_distZero]; rewrite G5; exact Hdz | exact Hsym].
    + exact Hbs.
  - destruct (Z.ltb_spec 0 (Z.of_N (l_n ls'))) as [Hbad|_]; [exfalso; lia|].
    rewrite Eblk3.
    exists st3, R', lits. split; [reflexivity|]. split; [exact Hl'|]. split; [exact Hn'|]. cbv zeta.
    assert (Hw3 : zr_word st3 = []) by (unfold st3, st2; cbn [set_dict set_lens zr_word]; rewrite G4; exact Hword).
    unfold with_bl at 1. cbn [c_rem].
    destruct (N.ltb_spec 0 (c_rem s - N.of_nat kn)) as [Hrem|Hrem0].
    + destruct (Z.ltb_spec 0 (Z.of_N (c_rem s - N.of_nat kn))) as [_|Hbad]; [|exfalso; lia].
      split; [reflexivity|]. cbn [crel]. split; [split; [exact HC3 | reflexivity]|].
      split; [exact Hw3|]. unfold with_bl. cbn [c_rem]. split; [lia|].
      split; [unfold st3, st2; cbn [set_dict set_lens zr_cpyLen]; rewrite G3; exact Hcpy|].
      split; [exact Hclen|].
      split; [unfold st3, st2; cbn [set_dict set_lens zr_distZero]; rewrite G5; exact Hdz | exact Hsym].
    + destruct (Z.ltb_spec 0 (Z.of_N (c_rem s - N.of_nat kn))) as [Hbad|_]; [exfalso; lia|].
      split; [reflexivity|]. cbn [crel]. split; [split; [exact HC3 | reflexivity] | exact Hw3].
Qed.

(* ---- readDistance ------------------------------------------------------------------------------------------------------------------ *)
Definition dist_m (s2 : rst) (distSym : N) : M Z :=
  (if distSym <? 16 then
     let '(idx, delta) := dist_short_rec distSym in
     match ring_get (zr_dists s2) idx with
     | None => crash
     | Some v => ret (v + delta)%Z
     end
   else if distSym <? 16 + zr_ndirect s2 then ret (Z.of_N (distSym - 15))
   else
     match dist_long_rec (zr_npostfix s2) (distSym - (16 + zr_ndirect s2)) with
     | None => crash
     | Some (base, nb) =>
       extra <~ m_try_read_bits bsz nb ;;
       ret (Z.of_N (zr_ndirect s2) + Z.of_N base + Z.of_N (N.shiftl extra (zr_npostfix s2)))%Z
     end)%brm.

Lemma dist_m_ok s2 st R out r dcode : BInv' R (zr_rd st) ->
  zr_dists s2 = zring r -> ring_pos r -> zr_npostfix s2 < 4 ->
  dcode < 16 + zr_ndirect s2 + 48 * 2 ^ zr_npostfix s2 ->
  match run (decode_distance (zr_npostfix s2) (zr_ndirect s2) dcode r) (sast' R out) with
  | Done d a' =>
    exists p R', dist_m s2 dcode st = SOk (Z.of_N d) (set_rd st p) /\ a' = sast' R' out /\
                 BInv' R' p /\ 0 < d
  | Fail e a' =>
    a_out a' = out /\
    ((e = ECorrupted /\ exists v, dist_m s2 dcode st = SOk v st /\ (v <= 0)%Z) \/
     (e = EUEOF /\ exists p, dist_m s2 dcode st = SErr EUEOF (set_rd st p)))
  end.
Proof.
  intros HI Hds Hpos Hnp Hdc. unfold decode_distance, dist_m.
  destruct (N.ltb_spec dcode 16) as [H16|H16].
  - destruct (dist_short_ok dcode r H16 Hpos) as (v & Ev & Hv).
    destruct (dist_short_rec dcode) as [idx delta]. cbn [fst snd] in Ev, Hv. rewrite Hds, Ev.
    destruct (short_dist dcode r) as [d|].
    + destruct Hv as [Hv Hd0]. cbn [run]. exists (zr_rd st), R. rewrite Hv.
      split; [unfold ret; f_equal; destruct st; reflexivity|]. split; [reflexivity|]. split; [exact HI | exact Hd0].
    + cbn [run]. split; [reflexivity|]. left. split; [reflexivity|]. eexists. split; [reflexivity | exact Hv].
  - destruct (N.ltb_spec dcode (16 + zr_ndirect s2)) as [Hlt|Hge].
    + cbn [run]. exists (zr_rd st), R. split; [unfold ret; f_equal; destruct st; reflexivity|].
      split; [reflexivity|]. split; [exact HI | lia].
    + set (np := zr_npostfix s2) in *. set (nd := zr_ndirect s2) in *.
      replace (dcode - nd - 16) with (dcode - (16 + nd)) by lia.
      set (x := dcode - (16 + nd)).
      assert (Hx : x < 48 * 2 ^ np) by (unfold x; lia).
      destruct (dist_long_ok np x Hnp Hx) as [El Hnb]. cbv zeta in El, Hnb. rewrite El.
      cbv zeta. set (nb := 1 + x / 2 ^ (np + 1)) in *.
      rewrite run_bind. bits_core HI nb Hn3 extra p3 E3 Hv3 Hle3.
      * rewrite (mbind_ok _ _ _ _ _ E3). cbv beta. cbn [run].
        exists p3, (R + N.to_nat nb)%nat.
        split.
        { unfold ret. f_equal. rewrite N.shiftl_mul_pow2.
          assert (H4 : 4 <= (2 + x / 2 ^ np mod 2) * 2 ^ nb).
          { assert (2 <= 2 ^ nb) by (change 2 with (2 ^ 1) at 1; apply N.pow_le_mono_r; unfold nb; lia). nia. }
          lia. }
        split; [reflexivity|]. split; [exact Hn3 |]. rewrite N.add_1_r. apply N.lt_0_succ.
      * split; [exact Ho|]. right. split; [reflexivity|]. exists pf. rewrite (mbind_err _ _ _ _ _ Ef). reflexivity.
Qed.

Definition dist_pre (s0 : rst) : M unit :=
  (if zr_distZero s0 then
     let '(d0, _, _, _) := zr_dists s0 in
     modify (fun s => set_dist s d0 (zr_dists s) (zr_distZero s))
   else
     (if (k_typeLen (zr_dst s0) =? 0)%Z then
        read_block_switch bsz BDst ;;~
        s1 <~ get ;;
        let off := 4 * k_t0 (zr_dst s1) in
        if zr_distMapLen s1 <? off then crash else
        modify (fun s => set_dmap s (zr_distMap s) (zr_distMapLen s) off (zr_distMapLen s - off))
      else ret tt) ;;~
     modify (fun s => set_blks s (zr_iac s) (zr_lit s) (bdk_dec (zr_dst s))) ;;~
     s2 <~ get ;;
     let cid := if (4 <? zr_cpyLen s2)%Z then 3 else Z.to_N ((zr_cpyLen s2 - 2) mod 256) in
     if zr_distTypeLen s2 <=? cid then crash else
     match nm_get (zr_distMap s2) (zr_distMapOff s2 + cid) with
     | None => crash
     | Some ti =>
       match bdk_prefix (zr_dst s2) ti with
       | None => crash
       | Some tree =>
         distSym <~ m_try_read_symbol bsz tree ;;
         dist <~ dist_m s2 distSym ;;
         modify (fun s => set_dist s dist (zr_dists s) (distSym =? 0)) ;;~
         when (dist <=? 0)%Z corrupted
       end
     end)%brm.

Definition dist_fin : M (label + bool) :=
  (s3 <~ get ;;
   if (zr_dist s3 <=? Window.Dict.hist_size (zr_dict s3))%Z then
     (if negb (zr_distZero s3) then
        let '(a, b, c, _) := zr_dists s3 in
        modify (fun s => set_dist s (zr_dist s) (zr_dist s3, a, b, c) (zr_distZero s))
      else ret tt) ;;~
     ret (inl LDynamic)
   else ret (inl LStatic))%brm.

Lemma ldistance_unfold :
  cmd_label bsz dict_len dict_byte LDistance = (s0 <~ get ;; dist_pre s0 ;;~ dist_fin)%brm.
Proof. reflexivity. Qed.

Definition with_bd (s : cst) (bd : blk) (r : ring) : cst := mkCst (c_rem s) (c_bl s) (c_bi s) bd r.

Lemma dist_fin_ok m s clen dist st R out :
  cbase m s st R out -> zr_word st = [] -> zr_cpyLen st = Z.of_N clen -> 2 <= clen < 2 ^ 25 ->
  zr_dist st = Z.of_N dist -> 0 < dist ->
  exists st',
    if dist <=? N.min (m_window m) (N.of_nat (length out)) then
      dist_fin st = SOk (inl LDynamic) st' /\
      crel m (CDyn (with_bd s (c_bd s) (if zr_distZero st then c_ring s else ring_push (c_ring s) dist))
                   clen dist) st' R out
    else
      dist_fin st = SOk (inl LStatic) st' /\ crel m (CStat0 s clen dist) st' R out.
Proof.
  intros (HC & Hpend) Hword Hcpy Hclen Hdist Hd0.
  pose proof HC as [HI HW HO HT Hrel Hsize Hring Hremz Hlit Hdm Hmtf].
  pose proof (Wokp_Wok _ _ HW Hpend) as HWok.
  unfold dist_fin. rewrite mbind_get. rewrite (hist_size_ok _ _ HWok). rewrite (proj1 Hsize), Hdist.
  set (maxd := N.min (m_window m) (N.of_nat (length out))).
  assert (Emax : Z.min (Z.of_N (m_window m)) (zlen out) = Z.of_N maxd) by (unfold maxd, zlen; lia).
  rewrite Emax.
  destruct (N.leb_spec dist maxd) as [Hle|Hgt].
  - destruct (Z.leb_spec (Z.of_N dist) (Z.of_N maxd)) as [_|Hbad]; [|exfalso; lia].
    destruct (zr_distZero st) eqn:Ez; cbn [negb].
    + rewrite mbind_ret. exists st. split; [reflexivity|]. cbn [crel].
      split; [split; [|exact Hpend]|].
      * destruct s; exact HC.
      * split; [exact Hword|]. split; [exact Hcpy|]. split; [lia|]. split; [exact Hdist|]. fold maxd. lia.
    + destruct Hring as [Hr1 Hr2]. destruct (c_ring s) as [[[d1 d2] d3] d4] eqn:Er.
      rewrite Hr1. cbn [zring]. rewrite mbind_modify.
      eexists. split; [reflexivity|]. cbn [crel].
      split; [split; [|exact Hpend]|].
      * destruct Hrel as [Rl Ri Rd Rnp Rnd Rcm Rlm Rdm Rlt Rit Rdt].
        constructor; unfold with_bd; cbn [c_rem c_bl c_bi c_bd c_ring]; try assumption.
        -- apply (Wokp_ext st); try reflexivity. exact HW.
        -- constructor; assumption.
        -- cbn [set_dist zr_dists ring_push zring]. split; [reflexivity|].
           apply (ring_push_pos (d1, d2, d3, d4)); assumption.
      * split; [exact Hword|]. split; [exact Hcpy|]. split; [lia|]. split; [exact Hdist|]. fold maxd. lia.
  - destruct (Z.leb_spec (Z.of_N dist) (Z.of_N maxd)) as [Hbad|_]; [exfalso; lia|].
    exists st. split; [reflexivity|]. cbn [crel]. split; [split; assumption|].
    split; [exact Hword|]. split; [exact Hcpy|]. split; [exact Hdist|]. fold maxd. exact Hgt.
Qed.

Definition dist_switch (s0 : rst) : M unit :=
  (if (k_typeLen (zr_dst s0) =? 0)%Z then
     read_block_switch bsz BDst ;;~
     s1 <~ get ;;
     let off := 4 * k_t0 (zr_dst s1) in
     if zr_distMapLen s1 <? off then crash else
     modify (fun s => set_dmap s (zr_distMap s) (zr_distMapLen s) off (zr_distMapLen s - off))
   else ret tt)%brm.

Lemma dist_switch_ok m s st R out : cinv st R out m s ->
  match run (sw_prog (c_bd s)) (sast' R out) with
  | Done b' a' =>
    exists p bd' off R1,
      dist_switch st st = SOk tt (set_dmap (put_blk BDst (set_rd st p) bd') (zr_distMap st) (zr_distMapLen st)
                                           off (zr_distMapLen st - off)) /\
      blk_rel bd' b' /\ k_store bd' = k_store (zr_dst st) /\ k_len bd' = k_len (zr_dst st) /\
      a' = sast' R1 out /\ BInv' R1 p /\ (2 <= b_n b' -> 1 <= b_cnt b') /\ b_n b' = b_n (c_bd s) /\
      off = 4 * b_cur b'
  | Fail e a' =>
    e = EUEOF /\ a_out a' = out /\ exists st', dist_switch st st = SErr EUEOF st' /\ same_out st st'
  end.
Proof.
  intros [HI HW HO HT Hrel Hsize Hring Hremz Hlit Hdm Hmtf].
  pose proof (sw_ok BDst st R out (c_bd s) HI (cr_dst _ _ _ _ _ Hrel)) as Hs. cbn [get_blk] in Hs.
  unfold dist_switch.
  destruct (run (sw_prog (c_bd s)) (sast' R out)) as [b' a'|e a'].
  2:{ destruct Hs as (-> & Ho & st' & E & Hso). split; [reflexivity|]. split; [exact Ho|]. exists st'.
      destruct (k_typeLen (zr_dst st) =? 0)%Z.
      - rewrite (mbind_err _ _ _ _ _ E). split; [reflexivity | exact Hso].
      - unfold ret in E. discriminate E. }
  destruct Hs as (p & bd' & R1 & E & Hb' & Hst & Hlen & -> & HI1 & Hc1 & Hn' & Hsame).
  destruct (cr_distmap _ _ _ _ _ Hrel) as [Dl Dm]. destruct Hdm as [Dm1 Dm2].
  rewrite (blk_rel_zero bsz Hbsz _ _ (cr_dst _ _ _ _ _ Hrel)) in *.
  destruct ((2 <=? b_n (c_bd s)) && (b_cnt (c_bd s) =? 0)) eqn:Ec.
  - rewrite (mbind_ok _ _ _ _ _ E). cbv beta. rewrite mbind_get. cbv zeta.
    change (zr_dst (put_blk BDst (set_rd st p) bd')) with bd'.
    change (zr_distMapLen (put_blk BDst (set_rd st p) bd')) with (zr_distMapLen st).
    pose proof (bl_cur _ _ Hb') as Hcur. pose proof (bl_curlt _ _ Hb') as Hcl.
    destruct (N.ltb_spec (zr_distMapLen st) (4 * k_t0 bd')) as [Hbad|_]; [exfalso; lia|].
    exists p, bd', (4 * k_t0 bd'), R1. split; [reflexivity|].
    repeat (split; [assumption|]). split; [reflexivity|]. repeat (split; [assumption|]). rewrite Hcur. reflexivity.
  - specialize (Hsame eq_refl). subst b'.
    assert (E' : put_blk BDst (set_rd st p) bd' = st) by (unfold ret in E; injection E as E0; symmetry; exact E0).
    exists p, bd', (zr_distMapOff st), R1.
    split.
    { unfold ret. f_equal. rewrite E'. rewrite <- Dm2. destruct st; reflexivity. }
    repeat (split; [assumption|]). split; [reflexivity|]. repeat (split; [assumption|]). exact Dm1.
Qed.

Lemma dist_pre_unfold s0 :
  dist_pre s0 =
  (if zr_distZero s0 then
     let '(d0, _, _, _) := zr_dists s0 in
     modify (fun s => set_dist s d0 (zr_dists s) (zr_distZero s))
   else
     dist_switch s0 ;;~
     modify (fun s => set_blks s (zr_iac s) (zr_lit s) (bdk_dec (zr_dst s))) ;;~
     s2 <~ get ;;
     let cid := if (4 <? zr_cpyLen s2)%Z then 3 else Z.to_N ((zr_cpyLen s2 - 2) mod 256) in
     if zr_distTypeLen s2 <=? cid then crash else
     match nm_get (zr_distMap s2) (zr_distMapOff s2 + cid) with
     | None => crash
     | Some ti =>
       match bdk_prefix (zr_dst s2) ti with
       | None => crash
       | Some tree =>
         distSym <~ m_try_read_symbol bsz tree ;;
         dist <~ dist_m s2 distSym ;;
         modify (fun s => set_dist s dist (zr_dists s) (distSym =? 0)) ;;~
         when (dist <=? 0)%Z corrupted
       end
     end)%brm.
Proof. reflexivity. Qed.

Lemma dist_pre_ok m s sym clen st R out : crel m (CDist s sym clen) st R out ->
  match run (cmd_dist m s sym clen) (sast' R out) with
  | Done (dist, zero, bd) a' =>
    exists st1 R1, dist_pre st st = SOk tt st1 /\ a' = sast' R1 out /\
      cbase m (with_bd s bd (c_ring s)) st1 R1 out /\ zr_word st1 = [] /\
      zr_cpyLen st1 = Z.of_N clen /\ zr_dist st1 = Z.of_N dist /\ 0 < dist /\ zr_distZero st1 = zero
  | Fail e a' =>
    a_out a' = out /\
    exists e' st', dist_pre st st = SErr e' st' /\ (e' = EUEOF \/ e' = ECorrupted) /\ same_out st st'
  end.
Proof.
  intros ((HC & Hpend) & Hword & Hrem & Hcpy & Hclen & Hdz & Hsym).
  pose proof HC as [HI HW HO HT Hrel Hsize Hring Hremz Hlit Hdm Hmtf].
  rewrite dist_pre_unfold. unfold cmd_dist. rewrite Hdz.
  destruct (sym <? 128).
  - cbn [run]. destruct Hring as [Hr1 Hr2]. destruct (c_ring s) as [[[d1 d2] d3] d4] eqn:Er.
    rewrite Hr1. cbn [zring ring_last]. unfold modify.
    eexists _, R. split; [reflexivity|]. split; [reflexivity|].
    split; [split; [|exact Hpend]|].
    + pose proof (cinv_transfer st R out m s (set_dist st (Z.of_N d1) (zr_dists st) (zr_distZero st)) out (c_rem s) HC) as Ht.
      unfold with_bd. rewrite <- Er.
      replace (mkCst (c_rem s) (c_bl s) (c_bi s) (c_bd s) (c_ring s)) with (with_bl s (c_rem s) (c_bl s))
        by (destruct s; reflexivity).
      apply Ht; try reflexivity; try assumption; try (repeat split); try lia.
      * apply (Wokp_ext st); try reflexivity. exact HW.
      * exact (proj1 Hremz).
    + split; [exact Hword|]. split; [exact Hcpy|]. split; [reflexivity|]. split; [apply Hr2 | exact Hdz].
  - rewrite run_bind, blk_next_alt, run_bind.
    pose proof (dist_switch_ok m s st R out HC) as Hs.
    destruct (run (sw_prog (c_bd s)) (sast' R out)) as [b' a1|e a1].
    2:{ destruct Hs as (-> & Ho & st' & E & Hso). split; [exact Ho|].
        exists EUEOF, st'. rewrite (mbind_err _ _ _ _ _ E). split; [reflexivity|].
        split; [left; reflexivity | exact Hso]. }
    destruct Hs as (p & bd' & off & R1 & E & Hb' & Hst & Hlen & -> & HI1 & Hc1 & Hn' & Eoff).
    rewrite (mbind_ok _ _ _ _ _ E). cbv beta. cbn [run fst]. rewrite mbind_modify, mbind_get.
    set (sA := set_dmap (put_blk BDst (set_rd st p) bd') (zr_distMap st) (zr_distMapLen st) off (zr_distMapLen st - off)).
    set (s2 := set_blks sA (zr_iac sA) (zr_lit sA) (bdk_dec (zr_dst sA))).
    change (zr_cpyLen s2) with (zr_cpyLen st). change (zr_distTypeLen s2) with (zr_distMapLen st - off).
    change (zr_distMap s2) with (zr_distMap st). change (zr_distMapOff s2) with off.
    change (zr_dst s2) with (bdk_dec bd').
    rewrite Hcpy. cbv zeta.
    set (cid := if (4 <? Z.of_N clen)%Z then 3 else Z.to_N ((Z.of_N clen - 2) mod 256)).
    assert (Ecid : cid = dist_context clen).
    { unfold cid, dist_context. destruct (Z.ltb_spec 4 (Z.of_N clen)); destruct (N.ltb_spec clen 5); try lia;
        rewrite Z.mod_small by lia; lia. }
    assert (Hcid : cid < 4) by (rewrite Ecid; unfold dist_context; destruct (N.ltb_spec clen 5); lia).
    destruct (cr_distmap _ _ _ _ _ Hrel) as [Dl Dm].
    pose proof (bl_curlt _ _ Hb') as Hcl.
    destruct (N.leb_spec (zr_distMapLen st - off) cid) as [Hbad|_]; [exfalso; lia|].
    destruct (Dm (off + cid) ltac:(lia)) as (ti & Eti & Hti & Htilt). rewrite Eti.
    destruct (cr_dtrees _ _ _ _ _ Hrel) as [T1 T2 T3].
    destruct (T3 (N.to_nat ti) ltac:(lia)) as (d & Ed & Hdt).
    assert (Epre : bdk_prefix (bdk_dec bd') ti = Some d).
    { unfold bdk_prefix. cbn [bdk_dec k_len k_store]. rewrite Hlen, Hst, T1.
      destruct (Nat.ltb_spec (N.to_nat ti) (length (m_dtrees m))) as [_|Hbad]; [exact Ed | lia]. }
    rewrite Epre. rewrite run_bind.
    assert (HI2 : BInv' R1 (zr_rd s2)) by exact HI1.
    pose proof (m_try_read_symbol_tree data Hd bsz Hbsz _ s2 R1 out d _ Hdt HI2) as Hsy.
    unfold nth_tree. cbn [blk_dec b_cur]. rewrite <- Ecid, <- Eoff, <- Hti.
    destruct (run (sym_or_corrupt (nth (N.to_nat ti) (m_dtrees m) HEmpty)) (sast' R1 out)) as [dcode a2|e a2].
    2:{ destruct Hsy as (-> & Ho & p' & E2). split; [exact Ho|].
        rewrite (mbind_err _ _ _ _ _ E2). eexists EUEOF, _. split; [reflexivity|].
        split; [left; reflexivity | repeat split]. }
    destruct Hsy as (p2 & R2 & E2 & -> & HI2' & Hdc). cbv beta in Hdc.
    rewrite (mbind_ok _ _ _ _ _ E2). cbv beta.
    destruct Hring as [Hr1 Hr2]. destruct (cr_np _ _ _ _ _ Hrel) as [Np1 Np2].
    destruct (cr_nd _ _ _ _ _ Hrel) as [Nd1 Nd2].
    set (s3 := set_rd s2 p2).
    assert (HI3 : BInv' R2 (zr_rd s3)) by exact HI2'.
    pose proof (dist_m_ok s2 s3 R2 out (c_ring s) dcode HI3 Hr1 Hr2) as Hdm2.
    change (zr_npostfix s2) with (zr_npostfix st) in Hdm2. change (zr_ndirect s2) with (zr_ndirect st) in Hdm2.
    rewrite Np1, Nd1 in Hdm2. specialize (Hdm2 Np2 Hdc).
    rewrite run_bind.
    destruct (run (decode_distance (m_npostfix m) (m_ndirect m) dcode (c_ring s)) (sast' R2 out)) as [dv a3|e a3].
    + destruct Hdm2 as (p3 & R3 & E3 & -> & HI4 & Hdv).
      rewrite (mbind_ok _ _ _ _ _ E3). cbv beta. rewrite mbind_modify. cbn [run].
      destruct (Z.leb_spec (Z.of_N dv) 0) as [Hbad|_]; [exfalso; lia|]. cbn [when].
      eexists _, R3. split; [reflexivity|]. split; [reflexivity|].
      split; [split; [|exact Hpend]|].
      * destruct Hrel as [Rl Ri Rd Rnp Rnd Rcm Rlm Rdm Rlt Rit Rdt].
        constructor; unfold with_bd; cbn [c_rem c_bl c_bi c_bd c_ring]; try assumption.
        -- apply (Wokp_ext st); try reflexivity. exact HW.
        -- constructor; try assumption.
           ++ apply (blk_rel_dec bsz Hbsz); assumption.
           ++ cbn [blk_dec b_n]. rewrite Hn'. exact Rdm.
           ++ apply (trees_rel_same (zr_dst st)); [exact Hst | exact Hlen | split; assumption].
        -- split; assumption.
        -- cbn [blk_dec b_cur]. split; [exact Eoff | reflexivity].
      * split; [exact Hword|]. split; [exact Hcpy|]. split; [reflexivity|]. split; [exact Hdv | reflexivity].
    + destruct Hdm2 as (Ho & [(-> & v & E3 & Hv)|(-> & p3 & E3)]).
      * split; [exact Ho|]. rewrite (mbind_ok _ _ _ _ _ E3). cbv beta. rewrite mbind_modify.
        destruct (Z.leb_spec v 0) as [_|Hbad]; [|exfalso; lia]. cbn [when]. unfold corrupted, throw.
        eexists ECorrupted, _. split; [reflexivity|]. split; [right; reflexivity | repeat split].
      * split; [exact Ho|]. rewrite (mbind_err _ _ _ _ _ E3).
        eexists EUEOF, _. split; [reflexivity|]. split; [left; reflexivity | repeat split].
Qed.

(* readDistance as a whole *)
Lemma ldist_ok m s sym clen st R out : crel m (CDist s sym clen) st R out ->
  match run (cmd_dist m s sym clen) (sast' R out) with
  | Done (dist, zero, bd) a' =>
    exists st' R', a' = sast' R' out /\
      if dist <=? N.min (m_window m) (N.of_nat (length out)) then
        cmd_label bsz dict_len dict_byte LDistance st = SOk (inl LDynamic) st' /\
        crel m (CDyn (with_bd s bd (if zero then c_ring s else ring_push (c_ring s) dist)) clen dist) st' R' out
      else
        cmd_label bsz dict_len dict_byte LDistance st = SOk (inl LStatic) st' /\
        crel m (CStat0 (with_bd s bd (c_ring s)) clen dist) st' R' out
  | Fail e a' =>
    a_out a' = out /\
    exists e' st', cmd_label bsz dict_len dict_byte LDistance st = SErr e' st' /\
                   (e' = EUEOF \/ e' = ECorrupted) /\ same_out st st'
  end.
Proof.
  intros Hc. pose proof (dist_pre_ok m s sym clen st R out Hc) as Hp.
  destruct Hc as (_ & _ & _ & _ & Hclen & _).
  rewrite ldistance_unfold, mbind_get.
  destruct (run (cmd_dist m s sym clen) (sast' R out)) as [[[dist zero] bd] a'|e a'].
  - destruct Hp as (st1 & R1 & E1 & -> & Hb1 & Hw1 & Hc1 & Hd1 & Hd0 & Hz1).
    rewrite (mbind_ok _ _ _ _ _ E1). cbv beta.
    destruct (dist_fin_ok m _ clen dist st1 R1 out Hb1 Hw1 Hc1 Hclen Hd1 Hd0) as (st' & Hfin).
    exists st', R1. split; [reflexivity|].
    rewrite Hz1 in Hfin. exact Hfin.
  - destruct Hp as (Ho & e' & st' & E & He & Hso). split; [exact Ho|].
    exists e', st'. rewrite (mbind_err _ _ _ _ _ E). split; [reflexivity|]. split; assumption.
Qed.

(* ---- copyDynamicDict ---------------------------------------------------------------------------------------------------------------- *)
Lemma copy_hist_length n d out : length (copy_hist n d out) = (n + length out)%nat.
Proof. destruct (copy_hist_app n d out) as (o & -> & Hl). rewrite app_length. lia. Qed.

Lemma write_copy_wok st out dist len : Wok st out -> zr_toRead st = [] ->
  0 < dist -> (N.to_nat dist <= length out)%nat -> (Z.of_N dist <= hist_size (zr_dict st))%Z ->
  (0 <= len)%Z -> (d_size (zr_dict st) + len < 2 ^ 63)%Z ->
  let cnt := Z.min len (avail_size (zr_dict st)) in
  exists d', write_copy (zr_dict st) (Z.of_N dist) len = Ok (cnt, d') /\
    Wok (set_dict st d' (zr_pend st)) (copy_hist (Z.to_nat cnt) (N.to_nat dist) out) /\
    d_size d' = d_size (zr_dict st).
Proof.
  intros [Hp (I0 & ZT & H2) Ht Ho] Hnil Hd0 Hdle Hdh Hl Hov cnt.
  assert (Hpre : copy_pre (zr_dict st) (Z.of_N dist) len) by (unfold copy_pre; lia).
  destruct (write_copy_ok _ _ _ _ I0 Hpre) as (d' & Ew & I1 & Hlen & Hsz & _).
  exists d'. split; [exact Ew|]. split; [|exact Hsz].
  constructor; cbn [set_dict zr_pend zr_dict zr_outOff zr_toRead].
  - exact Hp.
  - split; [|split].
    + unfold set_out in I1. cbn [s_size s_out s_flushed] in I1. rewrite Hsz.
      rewrite copy_hist_lz by lia. replace (Z.of_nat (N.to_nat dist)) with (Z.of_N dist) by lia. exact I1.
    + apply (zt_write_copy _ _ _ _ _ ZT Ew).
    + lia.
  - rewrite Hnil. reflexivity.
  - exact Ho.
Qed.

Lemma ldyn_ok m s clen dist st R out : crel m (CDyn s clen dist) st R out ->
  if clen <=? c_rem s then
    let cnt := Z.to_nat (Z.min (Z.of_N clen) (avail_size (zr_dict st))) in
    let out' := copy_hist cnt (N.to_nat dist) out in
    let s' := with_bl s (c_rem s - N.of_nat cnt) (c_bl s) in
    exists st',
      if N.of_nat cnt <? clen then
        cmd_label bsz dict_len dict_byte LDynamic st = SOk (inr true) st' /\
        zr_step st' = KCommands /\ zr_stepState st' = stateDynamicDict /\
        srel m (CDyn s' (clen - N.of_nat cnt) dist) st' R out'
      else
        cmd_label bsz dict_len dict_byte LDynamic st = SOk (inl LFinish) st' /\
        crel m (CFin s') st' R out'
  else
    exists st', cmd_label bsz dict_len dict_byte LDynamic st = SErr ECorrupted st' /\ same_out st st'.
Proof.
  intros ((HC & Hpend) & Hword & Hcpy & Hclen & Hdist & Hdr).
  pose proof HC as [HI HW HO HT Hrel Hsize Hring Hremz Hlit Hdm Hmtf].
  pose proof (Wokp_Wok _ _ HW Hpend) as HWok.
  pose proof (wk_inv _ _ HWok) as (I0 & ZT & H2).
  cbn [cmd_label]. rewrite mbind_get. rewrite (proj1 Hremz), Hcpy.
  destruct (N.leb_spec clen (c_rem s)) as [Hle|Hgt].
  2:{ destruct (Z.ltb_spec (Z.of_N (c_rem s)) (Z.of_N clen)) as [_|Hbad]; [|exfalso; lia].
      exists st. split; [reflexivity | repeat split]. }
  destruct (Z.ltb_spec (Z.of_N (c_rem s)) (Z.of_N clen)) as [Hbad|_]; [exfalso; lia|].
  cbv zeta.
  assert (Hav0 : (0 <= avail_size (zr_dict st))%Z) by (unfold avail_size; pose proof (i_wr _ _ I0); lia).
  assert (Hhist : (Z.of_N dist <= hist_size (zr_dict st))%Z).
  { rewrite (hist_size_ok _ _ HWok), (proj1 Hsize). unfold zlen. lia. }
  rewrite Hdist.
  destruct (write_copy_wok st out dist (Z.of_N clen) HWok HT ltac:(lia) ltac:(lia) Hhist ltac:(lia))
    as (d' & Ew & HW' & Hsz').
  { rewrite (proj1 Hsize). change (2 ^ 63)%Z with 9223372036854775808%Z.
    assert (m_window m <= 16777216) by (change 16777216 with (2 ^ 24); lia).
    assert (clen < 33554432) by (change 33554432 with (2 ^ 25); lia). lia. }
  rewrite Ew. cbn [of_dres fst snd]. rewrite mbind_modify, mbind_get.
  set (cz := Z.min (Z.of_N clen) (avail_size (zr_dict st))) in *.
  set (cnt := Z.to_nat cz). set (out' := copy_hist cnt (N.to_nat dist) out) in *.
  set (st1 := set_lens (set_dict st d' (zr_pend st)) (zr_blkLen st - cz)%Z (zr_insLen st) (zr_cpyLen st - cz)%Z).
  assert (Ecz : cz = Z.of_nat cnt) by (unfold cnt; lia).
  assert (Hcnt : N.of_nat cnt <= clen) by (unfold cnt, cz; lia).
  assert (Ecpy1 : zr_cpyLen st1 = Z.of_N (clen - N.of_nat cnt)).
  { unfold st1. cbn [set_lens zr_cpyLen]. rewrite Hcpy. lia. }
  assert (Eblk1 : zr_blkLen st1 = Z.of_N (c_rem s - N.of_nat cnt)).
  { unfold st1. cbn [set_lens zr_blkLen]. rewrite (proj1 Hremz). lia. }
  rewrite Ecpy1.
  assert (HW1 : Wok st1 out') by (apply (Wok_ext (set_dict st d' (zr_pend st))); try reflexivity; exact HW').
  assert (HT1 : zr_toRead st1 = []) by exact HT.
  assert (HO' : OutB out') by (apply OutB_copy_hist; exact HO).
  pose proof (cinv_transfer st R out m s st1 out' (c_rem s - N.of_nat cnt) HC ltac:(unfold st1; repeat split)
                (Wok_Wokp _ _ HW1) HO' HT1 Hsz' Eblk1 ltac:(lia)) as HC1.
  assert (Hlen' : (length out <= length out')%nat) by (unfold out'; rewrite copy_hist_length; lia).
  destruct (N.ltb_spec (N.of_nat cnt) clen) as [Hmore|Hdone].
  - destruct (Z.ltb_spec 0 (Z.of_N (clen - N.of_nat cnt))) as [_|Hbad]; [|exfalso; lia].
    destruct (m_read_flush_ok st1 out' HW1 HT1) as (d4 & bs & Ef & HW4 & Hbs & Hs4 & Hav4).
    rewrite (mbind_ok _ _ _ _ _ Ef), mbind_modify.
    set (st5 := set_step (set_toRead (set_dict st1 d4 (zr_pend st1)) bs) KCommands stateDynamicDict).
    exists st5. split; [reflexivity|]. split; [reflexivity|]. split; [reflexivity|].
    assert (HW5 : Wok (delivered st5) out').
    { apply Wok_delivered. apply (Wok_ext (set_toRead (set_dict st1 d4 (zr_pend st1)) bs)); try reflexivity. exact HW4. }
    split; [|exact Hbs].
    cbn [crel]. split; [split|].
    + pose proof (cinv_transfer st1 R out' m _ (delivered st5) out' (c_rem s - N.of_nat cnt) HC1
                    ltac:(unfold delivered, st5; repeat split) (Wok_Wokp _ _ HW5) HO' eq_refl Hs4 Eblk1
                    ltac:(unfold with_bl; cbn [c_rem]; lia)) as HC5.
      exact HC5.
    + exact Hpend.
    + split; [exact Hword|]. split; [exact Ecpy1|]. split; [lia|]. split; [exact Hdist|].
      unfold out' in Hlen' |- *. lia.
  - destruct (Z.ltb_spec 0 (Z.of_N (clen - N.of_nat cnt))) as [Hbad|_]; [exfalso; lia|].
    exists st1. split; [reflexivity|]. cbn [crel]. split; [split; [exact HC1 | exact Hpend] | exact Hword].
Qed.

(* the same on the side of the RFC decoder: a copy done in two pieces *)
Lemma sast_copy R out d l : 0 < d -> (N.to_nat d <= length out)%nat ->
  mkAst (a_in (sast' R out)) (a_pos (sast' R out))
        (copy_chunks (S (N.to_nat l)) (N.to_nat l) (N.to_nat d) (a_out (sast' R out)))
        (Prog.a_len (sast' R out) + l) =
  sast' R (copy_hist (N.to_nat l) (N.to_nat d) out).
Proof.
  intros H0 Hdo. unfold sast. cbn [a_in a_pos a_out Prog.a_len]. rewrite copy_chunks_hist by lia.
  f_equal. rewrite copy_hist_length. lia.
Qed.

Lemma cdyn_run m s clen dist R out : clen <= c_rem s -> 0 < dist -> (N.to_nat dist <= length out)%nat ->
  run (cfg_prog m (CDyn s clen dist)) (sast' R out) =
  Done (cmd_next (c_rem s - clen) (c_bl s) (c_bi s) (c_bd s) (c_ring s))
       (sast' R (copy_hist (N.to_nat clen) (N.to_nat dist) out)).
Proof.
  intros Hle H0 Hdo. cbn [cfg_prog]. unfold assert_p.
  destruct (N.leb_spec clen (c_rem s)) as [_|Hbad]; [|exfalso; lia]. cbn [bind run].
  replace ((0 <? dist) && (dist <=? Prog.a_len (sast' R out))) with true.
  2:{ symmetry. apply andb_true_iff. split; [apply N.ltb_lt; exact H0|]. apply N.leb_le.
      unfold sast. cbn [Prog.a_len]. lia. }
  rewrite sast_copy by assumption. reflexivity.
Qed.

Lemma cdyn_split m s clen dist R out cnt : clen <= c_rem s -> 0 < dist -> (N.to_nat dist <= length out)%nat ->
  N.of_nat cnt <= clen ->
  run (cfg_prog m (CDyn s clen dist)) (sast' R out) =
  run (cfg_prog m (CDyn (with_bl s (c_rem s - N.of_nat cnt) (c_bl s)) (clen - N.of_nat cnt) dist))
      (sast' R (copy_hist cnt (N.to_nat dist) out)).
Proof.
  intros Hle H0 Hdo Hc. rewrite (cdyn_run m s clen dist R out Hle H0 Hdo).
  rewrite cdyn_run.
  - unfold with_bl. cbn [c_rem c_bl c_bi c_bd c_ring].
    replace (c_rem s - N.of_nat cnt - (clen - N.of_nat cnt)) with (c_rem s - clen) by lia.
    f_equal. f_equal. rewrite <- copy_hist_plus. f_equal. lia.
  - unfold with_bl. cbn [c_rem]. lia.
  - exact H0.
  - rewrite copy_hist_length. lia.
Qed.

Lemma cdyn_fin m s clen dist R out : clen <= c_rem s -> 0 < dist -> (N.to_nat dist <= length out)%nat ->
  run (cfg_prog m (CDyn s clen dist)) (sast' R out) =
  run (cfg_prog m (CFin (with_bl s (c_rem s - clen) (c_bl s))))
      (sast' R (copy_hist (N.to_nat clen) (N.to_nat dist) out)).
Proof. intros Hle H0 Hdo. rewrite cdyn_run by assumption. reflexivity. Qed.

(* ---- copyStaticDict ------------------------------------------------------------------------------------------------------------------ *)
Definition stat_pre (s0 : rst) : M unit :=
  (match zr_word s0 with
   | [] =>
     let cl := zr_cpyLen s0 in
     if (cl <? 4)%Z || (24 <? cl)%Z then corrupted else
     let cpy := Z.to_N cl in
     let wordIdx := (zr_dist s0 - (Window.Dict.hist_size (zr_dict s0) + 1))%Z in
     if (wordIdx <? 0)%Z then crash else
     let widx := Z.to_N wordIdx in
     let nbits := Brotli.Spec.nthN Brotli.Tables.dict_ndbits cpy in
     let index := widx mod 2 ^ nbits in
     let offset := Brotli.Spec.nthN Brotli.Spec.dict_offsets cpy + index * cpy in
     if dict_len <? offset + cpy then crash else
     let baseWord := map (fun k => dict_byte (offset + k)) (iota cpy) in
     let tid := N.shiftr widx nbits in
     if 121 <=? tid then corrupted else
     match Brotli.Impl.transform_word baseWord tid with
     | None => crash
     | Some w =>
       modify (fun s => set_word s w) ;;~
       s1 <~ get ;;
       when (zr_blkLen s1 <? Window.Dict.zlen w)%Z corrupted
     end
   | _ => ret tt
   end)%brm.

Definition stat_write : M (label + bool) :=
  (s2 <~ get ;;
   let d := zr_dict s2 in
   if negb (Window.Dict.slice_ok (Window.Dict.d_len d) (Window.Dict.d_wr d) (Window.Dict.d_len d)) then crash else
   let cnt := Z.min (Window.Dict.avail_size d) (Window.Dict.zlen (zr_word s2)) in
   m_write (Window.Dict.zfirstn cnt (zr_word s2)) ;;~
   modify (fun s => set_word (set_blkLen s (zr_blkLen s - cnt)%Z) (Window.Dict.zskipn cnt (zr_word s))) ;;~
   s3 <~ get ;;
   (match zr_word s3 with
    | [] => ret (inl LFinish)
    | _ => m_read_flush ;;~ modify (fun s => set_step s KCommands stateStaticDict) ;;~ ret (inr true)
    end))%brm.

Lemma lstatic_unfold :
  cmd_label bsz dict_len dict_byte LStatic = (s0 <~ get ;; stat_pre s0 ;;~ stat_write)%brm.
Proof. reflexivity. Qed.

Lemma dict_extent_check :
  forallb (fun l => nthN dict_offsets l + 2 ^ nthN dict_ndbits l * l <=? 122784) (map N.of_nat (seq 4 21)) = true.
Proof. vm_compute. reflexivity. Qed.

Lemma dict_extent l : 4 <= l <= 24 -> nthN dict_offsets l + 2 ^ nthN dict_ndbits l * l <= 122784.
Proof.
  intros H. pose proof dict_extent_check as T. rewrite forallb_forall in T.
  apply N.leb_le. apply T. apply in_map_iff. exists (N.to_nat l). split; [lia|]. apply in_seq. lia.
Qed.

Lemma stat_pre_ok m s clen dist st R out : crel m (CStat0 s clen dist) st R out ->
  match dict_ref dict_byte clen (dist - N.min (m_window m) (N.of_nat (length out)) - 1) with
  | None => exists st', stat_pre st st = SErr ECorrupted st' /\ same_out st st'
  | Some w =>
    OutB w /\
    if N.of_nat (length w) <=? c_rem s then stat_pre st st = SOk tt (set_word st w)
    else exists st', stat_pre st st = SErr ECorrupted st' /\ same_out st st'
  end.
Proof.
  intros ((HC & Hpend) & Hword & Hcpy & Hdist & Hgt).
  pose proof HC as [HI HW HO HT Hrel Hsize Hring Hremz Hlit Hdm Hmtf].
  pose proof (Wokp_Wok _ _ HW Hpend) as HWok.
  set (maxd := N.min (m_window m) (N.of_nat (length out))) in *.
  unfold stat_pre. rewrite Hword. rewrite Hcpy, Hdist. cbv zeta.
  rewrite (hist_size_ok _ _ HWok), (proj1 Hsize).
  assert (Emax : Z.min (Z.of_N (m_window m)) (zlen out) = Z.of_N maxd) by (unfold maxd, zlen; lia).
  rewrite Emax.
  pose proof (OutB_dict_ref dict_byte Hdb clen (dist - maxd - 1)) as Hob.
  unfold dict_ref in *.
  assert (Ecl : ((Z.of_N clen <? 4)%Z || (24 <? Z.of_N clen)%Z) = ((clen <? 4) || (24 <? clen))).
  { destruct (Z.ltb_spec (Z.of_N clen) 4); destruct (N.ltb_spec clen 4); try lia;
      destruct (Z.ltb_spec 24 (Z.of_N clen)); destruct (N.ltb_spec 24 clen); try lia; reflexivity. }
  rewrite Ecl.
  destruct ((clen <? 4) || (24 <? clen)) eqn:Erange.
  { exists st. split; [reflexivity | repeat split]. }
  apply orb_false_iff in Erange as [Er1 Er2]. apply N.ltb_ge in Er1, Er2.
  destruct (Z.ltb_spec (Z.of_N dist - (Z.of_N maxd + 1)) 0) as [Hbad|_]; [exfalso; lia|].
  rewrite N2Z.id.
  replace (Z.to_N (Z.of_N dist - (Z.of_N maxd + 1))) with (dist - maxd - 1) by lia.
  set (addr := dist - maxd - 1) in *. set (nb := nthN dict_ndbits clen) in *.
  pose proof (dict_extent clen ltac:(lia)) as Hext. fold nb in Hext.
  assert (Hidx : addr mod 2 ^ nb < 2 ^ nb) by (apply N.mod_lt; apply N.pow_nonzero; lia).
  destruct (N.ltb_spec dict_len (nthN dict_offsets clen + addr mod 2 ^ nb * clen + clen)) as [Hbad|_].
  { exfalso. nia. }
  rewrite N.shiftr_div_pow2. unfold num_transforms in *.
  destruct (121 <=? addr / 2 ^ nb) eqn:Etid.
  { exists st. split; [reflexivity | repeat split]. }
  apply N.leb_gt in Etid.
  assert (Ebase : map (fun k => dict_byte (nthN dict_offsets clen + addr mod 2 ^ nb * clen + k)) (iota clen) =
                  dict_word dict_byte clen (addr mod 2 ^ nb)).
  { unfold dict_word. rewrite iota_eq, map_map. reflexivity. }
  rewrite Ebase.
  rewrite transform_word_eq by (try exact Etid; rewrite dict_word_length; lia).
  set (w := Brotli.Spec.transform_word (addr / 2 ^ nb) (dict_word dict_byte clen (addr mod 2 ^ nb))) in *.
  split; [apply Hob; reflexivity|].
  rewrite mbind_modify, mbind_get. cbn [set_word zr_blkLen]. rewrite (proj1 Hremz). unfold zlen.
  destruct (N.leb_spec (N.of_nat (length w)) (c_rem s)) as [Hle|Hgt2].
  - destruct (Z.ltb_spec (Z.of_N (c_rem s)) (Z.of_nat (length w))) as [Hbad|_]; [exfalso; lia|]. reflexivity.
  - destruct (Z.ltb_spec (Z.of_N (c_rem s)) (Z.of_nat (length w))) as [_|Hbad]; [|exfalso; lia].
    eexists. split; [reflexivity | repeat split].
Qed.

Lemma stat_write_ok m s w st R out : cbase m s st R out -> zr_word st = w ->
  N.of_nat (length w) <= c_rem s -> OutB w ->
  let cnt := Z.to_nat (Z.min (avail_size (zr_dict st)) (zlen w)) in
  let out' := rev (firstn cnt w) ++ out in
  let s' := with_bl s (c_rem s - N.of_nat cnt) (c_bl s) in
  exists st',
    if Nat.ltb cnt (length w) then
      stat_write st = SOk (inr true) st' /\
      zr_step st' = KCommands /\ zr_stepState st' = stateStaticDict /\
      srel m (CStat s' (skipn cnt w)) st' R out'
    else
      stat_write st = SOk (inl LFinish) st' /\ crel m (CFin s') st' R out'.
Proof.
  intros (HC & Hpend) Hword Hwl Hwb. cbv zeta.
  pose proof HC as [HI HW HO HT Hrel Hsize Hring Hremz Hlit Hdm Hmtf].
  pose proof (Wokp_Wok _ _ HW Hpend) as HWok.
  pose proof (wk_inv _ _ HWok) as (I0 & ZT & H2).
  unfold stat_write. rewrite mbind_get. cbv zeta.
  assert (Hsl : slice_ok (d_len (zr_dict st)) (d_wr (zr_dict st)) (d_len (zr_dict st)) = true).
  { unfold slice_ok. pose proof (i_wr _ _ I0). pose proof (i_rd _ _ I0). lia. }
  rewrite Hsl. cbn [negb]. rewrite Hword.
  assert (Hav0 : (0 <= avail_size (zr_dict st))%Z) by (unfold avail_size; pose proof (i_wr _ _ I0); lia).
  set (cz := Z.min (avail_size (zr_dict st)) (zlen w)) in *. set (cnt := Z.to_nat cz).
  assert (Ecz : cz = Z.of_nat cnt) by (unfold cnt, cz, zlen; lia).
  assert (Hcl : (cnt <= length w)%nat) by (unfold cnt, cz, zlen; lia).
  unfold zfirstn, zskipn. fold cnt.
  destruct (m_write_ok st out (firstn cnt w) HWok) as (d1 & Ew & HW1 & _ & Hs1 & _).
  { unfold zlen. rewrite firstn_length. unfold cnt, cz, zlen. lia. }
  rewrite (mbind_ok _ _ _ _ _ Ew). cbv beta. rewrite mbind_modify, mbind_get.
  set (st1 := set_dict st d1 (zr_pend st)) in *.
  set (st2 := set_word (set_blkLen st1 (zr_blkLen st1 - cz)%Z) (skipn cnt (zr_word st1))).
  change (zr_word st2) with (skipn cnt (zr_word st)). rewrite Hword.
  set (out' := rev (firstn cnt w) ++ out) in *.
  assert (Eblk2 : zr_blkLen st2 = Z.of_N (c_rem s - N.of_nat cnt)).
  { unfold st2, st1. cbn [set_word set_blkLen set_lens set_dict zr_blkLen]. rewrite (proj1 Hremz). lia. }
  assert (HW2 : Wok st2 out') by (apply (Wok_ext st1); try reflexivity; exact HW1).
  assert (HT2 : zr_toRead st2 = []) by exact HT.
  assert (HO' : OutB out') by (apply OutB_app; [apply OutB_rev, OutB_firstn; exact Hwb | exact HO]).
  pose proof (cinv_transfer st R out m s st2 out' (c_rem s - N.of_nat cnt) HC ltac:(unfold st2, st1; repeat split)
                (Wok_Wokp _ _ HW2) HO' HT2 Hs1 Eblk2 ltac:(lia)) as HC2.
  destruct (Nat.ltb_spec cnt (length w)) as [Hmore|Hdone].
  - destruct (skipn cnt w) as [|x rest] eqn:Esk.
    { exfalso. pose proof (skipn_length cnt w) as Hl. rewrite Esk in Hl. cbn [length] in Hl. lia. }
    rewrite <- Esk.
    destruct (m_read_flush_ok st2 out' HW2 HT2) as (d4 & bs & Ef & HW4 & Hbs & Hs4 & Hav4).
    rewrite (mbind_ok _ _ _ _ _ Ef), mbind_modify.
    set (st5 := set_step (set_toRead (set_dict st2 d4 (zr_pend st2)) bs) KCommands stateStaticDict).
    exists st5. split; [reflexivity|]. split; [reflexivity|]. split; [reflexivity|].
    assert (HW5 : Wok (delivered st5) out').
    { apply Wok_delivered. apply (Wok_ext (set_toRead (set_dict st2 d4 (zr_pend st2)) bs)); try reflexivity. exact HW4. }
    split; [|exact Hbs].
    cbn [crel]. split; [split|].
    + exact (cinv_transfer st2 R out' m _ (delivered st5) out' (c_rem s - N.of_nat cnt) HC2
               ltac:(unfold delivered, st5; repeat split) (Wok_Wokp _ _ HW5) HO' eq_refl Hs4 Eblk2
               ltac:(unfold with_bl; cbn [c_rem]; lia)).
    + exact Hpend.
    + split; [unfold delivered, st5, st2, st1; cbn; rewrite Hword; reflexivity|].
      split; [rewrite Esk; discriminate|]. split.
      * unfold with_bl. cbn [c_rem]. rewrite skipn_length. lia.
      * apply OutB_skipn. exact Hwb.
  - rewrite skipn_all2 by lia.
    exists st2. split; [reflexivity|]. cbn [crel]. split; [split; [exact HC2 | exact Hpend]|].
    unfold st2, st1. cbn. rewrite Hword. apply skipn_all2. lia.
Qed.

(* the RFC decoder's side: a word written in two pieces *)
Lemma run_put_all {A} (w : list byte) (k : prog A) R out :
  run (put_all w ;;; k) (sast' R out) = run k (sast' R (rev w ++ out)).
Proof.
  revert out; induction w as [|b w IH]; intros out; cbn [put_all fold_right bind]; [reflexivity|].
  cbn [run]. fold (put_all w).
  replace (mkAst (a_in (sast' R out)) (a_pos (sast' R out)) (b :: a_out (sast' R out)) (Prog.a_len (sast' R out) + 1))
    with (sast' R (b :: out)).
  2:{ unfold sast. cbn [a_in a_pos a_out Prog.a_len length]. f_equal. lia. }
  change (bind (fold_right (fun b0 k0 => Put b0 k0) (Ret tt) w) (fun _ => k)) with (put_all w ;;; k).
  rewrite IH. cbn [rev]. rewrite <- app_assoc. reflexivity.
Qed.

Lemma cstat_run m s w R out :
  run (cfg_prog m (CStat s w)) (sast' R out) =
  Done (cmd_next (c_rem s - N.of_nat (length w)) (c_bl s) (c_bi s) (c_bd s) (c_ring s)) (sast' R (rev w ++ out)).
Proof. cbn [cfg_prog]. rewrite run_put_all. reflexivity. Qed.

Lemma cstat_split m s w R out cnt : (cnt <= length w)%nat -> N.of_nat (length w) <= c_rem s ->
  run (cfg_prog m (CStat s w)) (sast' R out) =
  run (cfg_prog m (CStat (with_bl s (c_rem s - N.of_nat cnt) (c_bl s)) (skipn cnt w)))
      (sast' R (rev (firstn cnt w) ++ out)).
Proof.
  intros Hc Hl. rewrite !cstat_run. unfold with_bl. cbn [c_rem c_bl c_bi c_bd c_ring].
  rewrite skipn_length.
  replace (c_rem s - N.of_nat cnt - N.of_nat (length w - cnt)) with (c_rem s - N.of_nat (length w)) by lia.
  f_equal. f_equal. rewrite app_assoc, <- rev_app_distr, firstn_skipn. reflexivity.
Qed.

Lemma cstat_fin m s w R out : 
  run (cfg_prog m (CStat s w)) (sast' R out) =
  run (cfg_prog m (CFin (with_bl s (c_rem s - N.of_nat (length w)) (c_bl s)))) (sast' R (rev w ++ out)).
Proof. rewrite cstat_run. reflexivity. Qed.

Lemma cstat0_run m s clen dist R out :
  run (cfg_prog m (CStat0 s clen dist)) (sast' R out) =
  match dict_ref dict_byte clen (dist - N.min (m_window m) (N.of_nat (length out)) - 1) with
  | None => Fail ECorrupted (sast' R out)
  | Some w =>
    if N.of_nat (length w) <=? c_rem s then run (cfg_prog m (CStat s w)) (sast' R out)
    else Fail ECorrupted (sast' R out)
  end.
Proof.
  cbn [cfg_prog run]. unfold sast at 1. cbn [Prog.a_len].
  destruct (dict_ref dict_byte clen _) as [w|]; [|reflexivity].
  cbv zeta. unfold assert_p. destruct (N.of_nat (length w) <=? c_rem s); reflexivity.
Qed.

(* ---- finishCommand ------------------------------------------------------------------------------------------------------------------- *)
(* between meta-blocks: what the next header step needs *)
Record tinv (st : rst) (R : nat) (out : list byte) (window : N) (r : ring) : Prop := mkTinv {
  ti_rd : BInv' R (zr_rd st);
  ti_win : Wok st out;
  ti_outb : OutB out;
  ti_size : d_size (zr_dict st) = Z.of_N window /\ 1 <= window <= 2 ^ 24;
  ti_ring : zr_dists st = zring r /\ ring_pos r;
  ti_word : zr_word st = [];
  ti_mtf : MtfInv (zr_mtf st) (zr_mtfTail st)
}.

Lemma lfin_ok m s st R out : crel m (CFin s) st R out ->
  if 0 <? c_rem s then
    cmd_label bsz dict_len dict_byte LFinish st = SOk (inl LStart) st /\ crel m (CStart s) st R out
  else
    exists st', cmd_label bsz dict_len dict_byte LFinish st = SOk (inr false) st' /\
      (zr_step st' = KBlockHeader /\ zr_stepState st' = stateInit) /\ tinv (delivered st') R out (m_window m) (c_ring s) /\
      zr_toRead st' = zskipn (zr_outOff st') (rev out) /\
      zr_last st' = zr_last st /\ zr_err st' = zr_err st.
Proof.
  intros ((HC & Hpend) & Hword).
  pose proof HC as [HI HW HO HT Hrel Hsize Hring Hremz Hlit Hdm Hmtf].
  pose proof (Wokp_Wok _ _ HW Hpend) as HWok.
  cbn [cmd_label]. rewrite mbind_get. rewrite (proj1 Hremz).
  destruct (Z.ltb_spec (Z.of_N (c_rem s)) 0) as [Hbad|_]; [exfalso; lia|].
  destruct (N.ltb_spec 0 (c_rem s)) as [Hpos|Hzero].
  - destruct (Z.ltb_spec 0 (Z.of_N (c_rem s))) as [_|Hbad]; [|exfalso; lia].
    split; [reflexivity|]. cbn [crel]. split; [split; assumption|]. split; [exact Hword | lia].
  - destruct (Z.ltb_spec 0 (Z.of_N (c_rem s))) as [Hbad|_]; [exfalso; lia|].
    destruct (m_read_flush_ok st out HWok HT) as (d4 & bs & Ef & HW4 & Hbs & Hs4 & Hav4).
    rewrite (mbind_ok _ _ _ _ _ Ef), mbind_modify.
    set (st5 := set_step (set_toRead (set_dict st d4 (zr_pend st)) bs) KBlockHeader stateInit).
    exists st5. split; [reflexivity|]. split; [split; reflexivity|].
    split; [|split; [exact Hbs | split; reflexivity]].
    constructor.
    + exact HI.
    + apply Wok_delivered. apply (Wok_ext (set_toRead (set_dict st d4 (zr_pend st)) bs)); try reflexivity. exact HW4.
    + exact HO.
    + unfold delivered, st5. cbn [set_io set_step set_toRead set_dict zr_dict]. rewrite Hs4. exact Hsize.
    + exact Hring.
    + exact Hword.
    + exact Hmtf.
Qed.

Lemma cfin_run m s a : run (cfg_prog m (CFin s)) a = Done (if c_rem s =? 0 then inr s else inl s) a.
Proof. cbn [cfg_prog]. unfold cmd_done, cmd_next. destruct s as [rem bl bi bd r]. cbn [Spec.c_rem Spec.c_bl Spec.c_bi Spec.c_bd Spec.c_ring run]. destruct (rem =? 0); reflexivity. Qed.

(* ---- one pass through a label ----------------------------------------------------------------------------------------------------- *)
Definition lab (c : cfg) : label :=
  match c with
  | CStart _ => LStart
  | CLits _ _ _ _ => LLiterals
  | CDist _ _ _ => LDistance
  | CDyn _ _ _ => LDynamic
  | CStat0 _ _ _ | CStat _ _ => LStatic
  | CFin _ => LFinish
  end.

Definition sstate (c : cfg) : N :=
  match c with
  | CLits _ _ _ _ => stateLiterals
  | CDyn _ _ _ => stateDynamicDict
  | CStat _ _ => stateStaticDict
  | _ => stateInit
  end.

Definition susp_cfg (c : cfg) : Prop :=
  match c with CLits _ _ _ _ | CDyn _ _ _ | CStat _ _ => True | _ => False end.

Definition step_res (m : mbp) (c : cfg) (st : rst) (R : nat) (out : list byte)
  (r : sres (label + bool)) : Prop :=
  match r with
  | SOk (inl l') st' =>
    exists c' R' out', l' = lab c' /\ crel m c' st' R' out' /\ (exists ext, out' = ext ++ out) /\
      run (cfg_prog m c) (sast' R out) = run (cfg_prog m c') (sast' R' out')
  | SOk (inr true) st' =>
    exists c' R' out', susp_cfg c' /\ srel m c' st' R' out' /\ (exists ext, out' = ext ++ out) /\
      zr_step st' = KCommands /\ zr_stepState st' = sstate c' /\
      run (cfg_prog m c) (sast' R out) = run (cfg_prog m c') (sast' R' out')
  | SOk (inr false) st' =>
    exists s, run (cfg_prog m c) (sast' R out) = Done (inr s) (sast' R out) /\
      (zr_step st' = KBlockHeader /\ zr_stepState st' = stateInit) /\ tinv (delivered st') R out (m_window m) (c_ring s) /\
      zr_toRead st' = zskipn (zr_outOff st') (rev out)
  | SErr e st' =>
    (e = EUEOF \/ e = ECorrupted) /\
    exists e0 a', run (cfg_prog m c) (sast' R out) = Fail e0 a' /\ frel st' (a_out a')
  | SCrash | SHang => False
  end.

Lemma sast_len R out : Prog.a_len (sast' R out) = N.of_nat (length out).
Proof. reflexivity. Qed.

Lemma histb_nth d R out : 1 <= d ->
  (if (0 <? d) && (d <=? Prog.a_len (sast' R out)) then nth (N.to_nat d - 1) (a_out (sast' R out)) 0 else 0) =
  nth (N.to_nat d - 1) out 0.
Proof.
  intros Hd1. rewrite sast_len. cbn [a_out sast].
  destruct (N.ltb_spec 0 d); [|lia]. destruct (N.leb_spec d (N.of_nat (length out))); cbn [andb]; [reflexivity|].
  rewrite nth_overflow by lia. reflexivity.
Qed.

Lemma cstart_ok m s st R out : crel m (CStart s) st R out ->
  step_res m (CStart s) st R out (cmd_label bsz dict_len dict_byte LStart st).
Proof.
  intros Hc. pose proof (lstart_ok m s st R out Hc) as H.
  assert (Hsplit := command_split2 m s (sast' R out)). rewrite run_bind in Hsplit.
  destruct Hc as ((HC & _) & _ & _).
  destruct (run (cmd_head m s) (sast' R out)) as [[[[bi sym] ilen] clen] a'|e a'].
  - destruct H as (st' & R' & E & -> & Hnext). rewrite E. cbn [step_res].
    destruct (N.ltb_spec 0 ilen) as [Hpos|Hz].
    + exists (CLits (with_bi s bi) sym clen (lit_init m (c_bl s) ilen (nth 0 out 0) (nth 1 out 0))), R', out.
      split; [reflexivity|]. split; [apply Hnext; reflexivity|]. split; [exists []; reflexivity|]. 
      cbn [cfg_prog]. rewrite Hsplit. unfold cmd_lits.
      destruct (N.eqb_spec ilen 0) as [H0|_]; [lia|].
      rewrite !run_bind. cbn [run].
      rewrite (histb_nth 1 R' out ltac:(lia)), (histb_nth 2 R' out ltac:(lia)).
      change (N.to_nat 1 - 1)%nat with 0%nat. change (N.to_nat 2 - 1)%nat with 1%nat.
      rewrite run_bind. unfold lit_init at 2. cbn [l_n].
      destruct (run (loop (loop_depth ilen) (lit_body m) (lit_init m (c_bl s) ilen (nth 0 out 0) (nth 1 out 0)))
                    (sast' R' out)) as [ls a2|e a2]; reflexivity.
    + assert (ilen = 0) by lia. subst ilen.
      exists (CDist (with_bi s bi) sym clen), R', out.
      split; [reflexivity|]. split; [exact Hnext|]. split; [exists []; reflexivity|]. 
      cbn [cfg_prog]. rewrite Hsplit. unfold cmd_lits. cbn [N.eqb bind run]. rewrite N.sub_0_r. reflexivity.
  - destruct H as (Ho & e' & st' & E & He & Hso). rewrite E. cbn [step_res]. split; [exact He|].
    exists e, a'. split; [exact Hsplit|]. rewrite Ho. exact (frel_same_out _ _ _ _ _ _ HC Hso).
Qed.

Lemma clits_ok m s sym clen ls st R out : crel m (CLits s sym clen ls) st R out ->
  step_res m (CLits s sym clen ls) st R out (cmd_label bsz dict_len dict_byte LLiterals st).
Proof.
  intros Hc. pose proof (llits_ok m s sym clen ls st R out Hc) as H. cbv zeta in H.
  destruct Hc as ((HC & Hpend) & _ & _ & Hln & _).
  pose proof (Wokp_Wok _ _ (ci_win _ _ _ _ _ HC) Hpend) as HWok.
  pose proof (wk_inv _ _ HWok) as (I0 & _ & _).
  assert (Hav0 : (0 <= avail_size (zr_dict st))%Z) by (unfold avail_size; pose proof (i_wr _ _ I0); lia).
  set (kn := Z.to_nat (Z.min (avail_size (zr_dict st)) (Z.of_N (l_n ls)))) in *.
  assert (Hkn : N.of_nat kn <= l_n ls) by (unfold kn; lia).
  pose proof (lit_iter_split m kn ls (sast' R out) Hkn) as Hsp.
  destruct (lit_iter m kn ls (sast' R out)) as [ls' a'|e a'].
  - destruct H as (st' & R' & lits & -> & Hl & Hn' & Hnext).
    destruct (N.ltb_spec 0 (l_n ls')) as [Hmore|Hdone].
    + destruct Hnext as (E & Hstep & Hss & Hsr). rewrite E. cbn [step_res].
      exists (CLits (with_bl s (c_rem s - N.of_nat kn) (l_b ls')) sym clen ls'), R', (lits ++ out).
      split; [exact I|]. split; [exact Hsr|]. split; [exists lits; reflexivity|]. split; [exact Hstep|]. split; [exact Hss|].
      cbn [cfg_prog]. rewrite !run_bind, Hsp.
      assert (El : c_rem s - l_n ls = c_rem (with_bl s (c_rem s - N.of_nat kn) (l_b ls')) - l_n ls').
      { unfold with_bl. cbn [c_rem]. lia. }
      rewrite <- El. reflexivity.
    + assert (Hz : l_n ls' = 0) by lia. assert (Ekn : N.of_nat kn = l_n ls) by lia.
      assert (Erun : run (cfg_prog m (CLits s sym clen ls)) (sast' R out) =
                     run (cmd_tail2 m s sym clen (c_rem s - l_n ls) (l_b ls')) (sast' R' (lits ++ out))).
      { cbn [cfg_prog]. rewrite run_bind, Hsp. rewrite (lit_loop_zero m ls' _ Hz). reflexivity. }
      rewrite Ekn in *.
      unfold with_bl at 1 in Hnext. cbn [c_rem] in Hnext.
      destruct (N.ltb_spec 0 (c_rem s - l_n ls)) as [Hrem|Hrem0].
      * destruct Hnext as (E & Hcr). rewrite E. cbn [step_res].
        exists (CDist (with_bl s (c_rem s - l_n ls) (l_b ls')) sym clen), R', (lits ++ out).
        split; [reflexivity|]. split; [exact Hcr|]. split; [exists lits; reflexivity|]. rewrite Erun. reflexivity.
      * destruct Hnext as (E & Hcr). rewrite E. cbn [step_res].
        exists (CFin (with_bl s (c_rem s - l_n ls) (l_b ls'))), R', (lits ++ out).
        split; [reflexivity|]. split; [exact Hcr|]. split; [exists lits; reflexivity|]. rewrite Erun.
        unfold cmd_tail2. assert (E0 : c_rem s - l_n ls = 0) by lia. rewrite E0. cbn [N.eqb cfg_prog].
        unfold cmd_done, cmd_next, with_bl. cbn [c_rem c_bl c_bi c_bd c_ring N.eqb]. reflexivity.
  - destruct H as (e' & st' & E & He & Hfr). rewrite E. cbn [step_res]. split; [exact He|].
    exists e, a'. split; [|exact Hfr]. cbn [cfg_prog]. rewrite run_bind, Hsp. reflexivity.
Qed.

Lemma cdist_ok m s sym clen st R out : crel m (CDist s sym clen) st R out ->
  step_res m (CDist s sym clen) st R out (cmd_label bsz dict_len dict_byte LDistance st).
Proof.
  intros Hc. pose proof (ldist_ok m s sym clen st R out Hc) as H.
  destruct Hc as ((HC & _) & _ & Hrem & _).
  assert (Erun : run (cfg_prog m (CDist s sym clen)) (sast' R out) =
                 run (dz <- cmd_dist m s sym clen ;; cmd_copy dict_byte m s (c_rem s) clen (c_bl s) (c_bi s) dz)
                     (sast' R out)).
  { cbn [cfg_prog]. unfold cmd_tail2. destruct (N.eqb_spec (c_rem s) 0); [lia | reflexivity]. }
  rewrite run_bind in Erun.
  destruct (run (cmd_dist m s sym clen) (sast' R out)) as [[[dist zero] bd] a'|e a'].
  - destruct H as (st' & R' & -> & Hnext).
    unfold cmd_copy in Erun. cbn [run] in Erun. rewrite sast_len in Erun.
    destruct (dist <=? N.min (m_window m) (N.of_nat (length out))).
    + destruct Hnext as (E & Hcr). rewrite E. cbn [step_res].
      exists (CDyn (with_bd s bd (if zero then c_ring s else ring_push (c_ring s) dist)) clen dist), R', out.
      split; [reflexivity|]. split; [exact Hcr|]. split; [exists []; reflexivity|]. rewrite Erun. reflexivity.
    + destruct Hnext as (E & Hcr). rewrite E. cbn [step_res].
      exists (CStat0 (with_bd s bd (c_ring s)) clen dist), R', out.
      split; [reflexivity|]. split; [exact Hcr|]. split; [exists []; reflexivity|]. rewrite Erun.
      cbn [cfg_prog run]. rewrite sast_len. reflexivity.
  - destruct H as (Ho & e' & st' & E & He & Hso). rewrite E. cbn [step_res]. split; [exact He|].
    exists e, a'. split; [exact Erun|]. rewrite Ho. exact (frel_same_out _ _ _ _ _ _ HC Hso).
Qed.

Lemma cdyn_ok m s clen dist st R out : crel m (CDyn s clen dist) st R out ->
  step_res m (CDyn s clen dist) st R out (cmd_label bsz dict_len dict_byte LDynamic st).
Proof.
  intros Hc. pose proof (ldyn_ok m s clen dist st R out Hc) as H.
  destruct Hc as ((HC & _) & _ & _ & Hclen & _ & Hdr).
  assert (Hdo : (N.to_nat dist <= length out)%nat) by lia.
  destruct (N.leb_spec clen (c_rem s)) as [Hle|Hgt].
  - cbv zeta in H. destruct H as (st' & Hnext).
    set (cnt := Z.to_nat (Z.min (Z.of_N clen) (avail_size (zr_dict st)))) in *.
    assert (Hcnt : N.of_nat cnt <= clen) by (unfold cnt; lia).
    destruct (N.ltb_spec (N.of_nat cnt) clen) as [Hmore|Hdone].
    + destruct Hnext as (E & Hstep & Hss & Hsr). rewrite E. cbn [step_res].
      exists (CDyn (with_bl s (c_rem s - N.of_nat cnt) (c_bl s)) (clen - N.of_nat cnt) dist), R,
             (copy_hist cnt (N.to_nat dist) out).
      split; [exact I|]. split; [exact Hsr|]. split; [destruct (copy_hist_app cnt (N.to_nat dist) out) as (o & Eo & _); exists o; exact Eo|]. split; [exact Hstep|]. split; [exact Hss|].
      apply cdyn_split; try assumption; lia.
    + destruct Hnext as (E & Hcr). rewrite E. cbn [step_res].
      exists (CFin (with_bl s (c_rem s - N.of_nat cnt) (c_bl s))), R, (copy_hist cnt (N.to_nat dist) out).
      split; [reflexivity|]. split; [exact Hcr|]. split; [destruct (copy_hist_app cnt (N.to_nat dist) out) as (o & Eo & _); exists o; exact Eo|]. 
      assert (Ec : N.of_nat cnt = clen) by lia.
      rewrite (cdyn_fin m s clen dist R out Hle ltac:(lia) Hdo). rewrite <- Ec. rewrite Nat2N.id. reflexivity.
  - destruct H as (st' & E & Hso). rewrite E. cbn [step_res]. split; [right; reflexivity|].
    exists ECorrupted, (sast' R out). split.
    + cbn [cfg_prog]. unfold assert_p. destruct (N.leb_spec clen (c_rem s)); [lia | reflexivity].
    + exact (frel_same_out _ _ _ _ _ _ HC Hso).
Qed.

Lemma cbase_set_word m s st R out w : cbase m s st R out -> cbase m s (set_word st w) R out.
Proof.
  intros (HC & Hpend). split; [|exact Hpend].
  pose proof (cinv_transfer st R out m s (set_word st w) out (c_rem s) HC ltac:(repeat split)) as H.
  replace (with_bl s (c_rem s) (c_bl s)) with s in H by (destruct s; reflexivity).
  apply H.
  - apply (Wokp_ext st); try reflexivity. exact (ci_win _ _ _ _ _ HC).
  - exact (ci_outb _ _ _ _ _ HC).
  - exact (ci_toRead _ _ _ _ _ HC).
  - reflexivity.
  - exact (proj1 (ci_rem _ _ _ _ _ HC)).
  - lia.
Qed.

Lemma stat_res m s w c st st0 R out :
  cbase m s st R out -> zr_word st = w -> N.of_nat (length w) <= c_rem s -> OutB w ->
  run (cfg_prog m c) (sast' R out) = run (cfg_prog m (CStat s w)) (sast' R out) ->
  step_res m c st0 R out (stat_write st).
Proof.
  intros Hb Hw Hl Hob Erun.
  destruct (stat_write_ok m s w st R out Hb Hw Hl Hob) as (st' & Hnext). cbv zeta in Hnext.
  set (cnt := Z.to_nat (Z.min (avail_size (zr_dict st)) (zlen w))) in *.
  assert (Hcl : (cnt <= length w)%nat) by (unfold cnt, zlen; lia).
  destruct (Nat.ltb_spec cnt (length w)) as [Hmore|Hdone].
  - destruct Hnext as (E & Hstep & Hss & Hsr). rewrite E. cbn [step_res].
    exists (CStat (with_bl s (c_rem s - N.of_nat cnt) (c_bl s)) (skipn cnt w)), R, (rev (firstn cnt w) ++ out).
    split; [exact I|]. split; [exact Hsr|]. split; [exists (rev (firstn cnt w)); reflexivity|]. split; [exact Hstep|]. split; [exact Hss|].
    rewrite Erun. apply cstat_split; assumption.
  - destruct Hnext as (E & Hcr). rewrite E. cbn [step_res].
    exists (CFin (with_bl s (c_rem s - N.of_nat cnt) (c_bl s))), R, (rev (firstn cnt w) ++ out).
    split; [reflexivity|]. split; [exact Hcr|]. split; [exists (rev (firstn cnt w)); reflexivity|]. 
    rewrite Erun, cstat_fin. assert (Ec : cnt = length w) by lia. rewrite Ec, firstn_all. reflexivity.
Qed.

Lemma cstat0_ok m s clen dist st R out : crel m (CStat0 s clen dist) st R out ->
  step_res m (CStat0 s clen dist) st R out (cmd_label bsz dict_len dict_byte LStatic st).
Proof.
  intros Hc. pose proof (stat_pre_ok m s clen dist st R out Hc) as H.
  destruct Hc as (Hb & _). pose proof Hb as (HC & _).
  rewrite lstatic_unfold, mbind_get. pose proof (cstat0_run m s clen dist R out) as Erun.
  destruct (dict_ref dict_byte clen _) as [w|].
  - destruct H as (Hob & H). destruct (N.leb_spec (N.of_nat (length w)) (c_rem s)) as [Hle|Hgt].
    + rewrite (mbind_ok _ _ _ _ _ H). cbv beta.
      apply (stat_res m s w _ (set_word st w) st R out); try assumption; try reflexivity.
      apply cbase_set_word. exact Hb.
    + destruct H as (st' & E & Hso). rewrite (mbind_err _ _ _ _ _ E). cbn [step_res].
      split; [right; reflexivity|]. exists ECorrupted, (sast' R out). split; [exact Erun|].
      exact (frel_same_out _ _ _ _ _ _ HC Hso).
  - destruct H as (st' & E & Hso). rewrite (mbind_err _ _ _ _ _ E). cbn [step_res].
    split; [right; reflexivity|]. exists ECorrupted, (sast' R out). split; [exact Erun|].
    exact (frel_same_out _ _ _ _ _ _ HC Hso).
Qed.

Lemma cstat_ok m s w st R out : crel m (CStat s w) st R out ->
  step_res m (CStat s w) st R out (cmd_label bsz dict_len dict_byte LStatic st).
Proof.
  intros (Hb & Hw & Hne & Hl & Hob).
  rewrite lstatic_unfold, mbind_get. unfold stat_pre. rewrite Hw.
  destruct w as [|x w']; [congruence|]. rewrite mbind_ret.
  apply (stat_res m s (x :: w') _ st st R out); try assumption; reflexivity.
Qed.

(* ---- the future of the command loop ------------------------------------------------------------------------------------------------ *)
(* [rc]: how the command loop of the RFC decoder ends, from configuration c at machine state a *)
Definition cfut (m : mbp) (c : cfg) (a : ast) (rc : result cst) : Prop :=
  match run (cfg_prog m c) a with
  | Done (inl s') a' => loops (command dict_byte m) s' a' rc
  | Done (inr fin) a' => rc = Done fin a'
  | Fail e a' => rc = Fail e a'
  end.

Lemma cfut_eq m c a c' a' : run (cfg_prog m c) a = run (cfg_prog m c') a' ->
  forall rc, cfut m c a rc -> cfut m c' a' rc.
Proof. unfold cfut. intros ->. auto. Qed.

Lemma cfut_start m s a rc : loops (command dict_byte m) s a rc <-> cfut m (CStart s) a rc.
Proof.
  unfold cfut. cbn [cfg_prog]. split.
  - intros H. inversion H as [st0 s0 e s' E|st0 s0 x s' E|st0 s0 st1 s1 r E Hr]; subst; rewrite E; auto.
  - destruct (run (command dict_byte m s) a) as [[s'|fin] a'|e a'] eqn:E.
    + intros H. eapply loops_step; eauto.
    + intros ->. apply loops_done. exact E.
    + intros ->. apply loops_fail. exact E.
Qed.

Definition step_fut (m : mbp) (c : cfg) (st : rst) (R : nat) (out : list byte)
  (r : sres (label + bool)) : Prop :=
  match r with
  | SOk (inl l') st' =>
    exists c' R' out', l' = lab c' /\ crel m c' st' R' out' /\ (exists ext, out' = ext ++ out) /\
      forall rc, cfut m c (sast' R out) rc -> cfut m c' (sast' R' out') rc
  | SOk (inr true) st' =>
    exists c' R' out', susp_cfg c' /\ srel m c' st' R' out' /\ (exists ext, out' = ext ++ out) /\
      zr_step st' = KCommands /\ zr_stepState st' = sstate c' /\
      forall rc, cfut m c (sast' R out) rc -> cfut m c' (sast' R' out') rc
  | SOk (inr false) st' =>
    exists s, (forall rc, cfut m c (sast' R out) rc -> rc = Done s (sast' R out)) /\
      (zr_step st' = KBlockHeader /\ zr_stepState st' = stateInit) /\ tinv (delivered st') R out (m_window m) (c_ring s) /\
      zr_toRead st' = zskipn (zr_outOff st') (rev out)
  | SErr e st' =>
    (e = EUEOF \/ e = ECorrupted) /\
    exists out', frel st' out' /\ (exists ext, out' = ext ++ out) /\
      forall rc, cfut m c (sast' R out) rc -> exists e0 a', rc = Fail e0 a' /\ a_out a' = out'
  | SCrash | SHang => False
  end.

Lemma step_res_fut m c st R out r : step_res m c st R out r -> step_fut m c st R out r.
Proof.
  destruct r as [[l'|[|]] st'|e st'| |]; cbn [step_res step_fut]; try tauto.
  - intros (c' & R' & out' & H1 & H2 & Hx & H3). exists c', R', out'. split; [exact H1|]. split; [exact H2|].
    split; [exact Hx|]. apply cfut_eq. exact H3.
  - intros (c' & R' & out' & H1 & H2 & Hx & H3 & H4 & H5). exists c', R', out'.
    repeat (split; [assumption|]). apply cfut_eq. exact H5.
  - intros (s & H1 & H2 & H3 & H4). exists s. split; [|split; [exact H2 | split; [exact H3 | exact H4]]].
    intros rc. unfold cfut. rewrite H1. auto.
  - intros (He & e0 & a' & H1 & H2). split; [exact He|]. exists (a_out a'). split; [exact H2|].
    split.
    { destruct (run_mono (cfg_prog m c) (sast' R out)) as (o & cc & Ho & _). rewrite H1 in Ho.
      exists o. exact Ho. }
    intros rc. unfold cfut. rewrite H1. intros ->. exists e0, a'. split; reflexivity.
Qed.

Lemma cfin_ok m s st R out : crel m (CFin s) st R out ->
  step_fut m (CFin s) st R out (cmd_label bsz dict_len dict_byte LFinish st).
Proof.
  intros Hc. pose proof (lfin_ok m s st R out Hc) as H.
  destruct (N.ltb_spec 0 (c_rem s)) as [Hpos|Hz].
  - destruct H as (E & Hcr). rewrite E. cbn [step_fut].
    exists (CStart s), R, out. split; [reflexivity|]. split; [exact Hcr|]. split; [exists []; reflexivity|].
    intros rc. unfold cfut at 1. rewrite cfin_run. destruct (N.eqb_spec (c_rem s) 0); [lia|].
    apply cfut_start.
  - destruct H as (st' & E & Hstep & Ht & Htr & _). rewrite E. cbn [step_fut].
    exists s. split; [|split; [exact Hstep | split; [exact Ht | exact Htr]]].
    intros rc. unfold cfut. rewrite cfin_run. destruct (N.eqb_spec (c_rem s) 0); [auto | lia].
Qed.

(* THEOREM (d), one label: every pass through a label of readCommands, from a state related to a
   configuration of the RFC decoder's command, goes to a related state with the same future, suspends
   in such a state, finishes the meta-block, or fails where the RFC decoder fails; it never panics *)
Theorem cmd_label_ok m c st R out : crel m c st R out ->
  step_fut m c st R out (cmd_label bsz dict_len dict_byte (lab c) st).
Proof.
  intros Hc. destruct c; cbn [lab].
  - apply step_res_fut, cstart_ok, Hc.
  - apply step_res_fut, clits_ok, Hc.
  - apply step_res_fut, cdist_ok, Hc.
  - apply step_res_fut, cdyn_ok, Hc.
  - apply step_res_fut, cstat0_ok, Hc.
  - apply step_res_fut, cstat_ok, Hc.
  - apply cfin_ok, Hc.
Qed.




(* ---- the loop over the labels, one call of readCommands --------------------------------------------------------------------------- *)
Definition loop_res (m : mbp) (c : cfg) (st : rst) (R : nat) (out : list byte) (r : sres unit) : Prop :=
  match r with
  | SOk _ st' =>
    kframe st st' /\
    ((exists c' R' out', susp_cfg c' /\ srel m c' st' R' out' /\ (exists ext, out' = ext ++ out) /\
        zr_step st' = KCommands /\ zr_stepState st' = sstate c' /\
        forall rc, cfut m c (sast' R out) rc -> cfut m c' (sast' R' out') rc) \/
     (exists s R' out', (forall rc, cfut m c (sast' R out) rc -> rc = Done s (sast' R' out')) /\
        (exists ext, out' = ext ++ out) /\
        (zr_step st' = KBlockHeader /\ zr_stepState st' = stateInit) /\ tinv (delivered st') R' out' (m_window m) (c_ring s) /\
        zr_toRead st' = zskipn (zr_outOff st') (rev out')))
  | SErr e st' =>
    exists out', frel st' out' /\ zr_outOff st' = zr_outOff st /\ (exists ext, out' = ext ++ out) /\
      (e = EFuel \/
       ((e = EUEOF \/ e = ECorrupted) /\
        forall rc, cfut m c (sast' R out) rc -> exists e0 a', rc = Fail e0 a' /\ a_out a' = out'))
  | SCrash | SHang => False
  end.

Lemma crel_frel m c st R out : crel m c st R out -> frel st out.
Proof.
  intros H.
  assert (HC : exists s, cinv st R out m s).
  { destruct c; cbn [crel] in H; destruct H as ((HC & _) & _); eexists; eassumption. }
  destruct HC as (s & HC). split; [exact (ci_win _ _ _ _ _ HC)|].
  split; [exact (ci_toRead _ _ _ _ _ HC) | exact (ci_outb _ _ _ _ _ HC)].
Qed.

Lemma ext_trans (a b c : list byte) : (exists x, b = x ++ a) -> (exists y, c = y ++ b) -> exists z, c = z ++ a.
Proof. intros (x & ->) (y & ->). exists (y ++ x). rewrite app_assoc. reflexivity. Qed.

Theorem cmd_loop_ok m : forall f c st R out, crel m c st R out ->
  loop_res m c st R out (cmd_loop bsz dict_len dict_byte f (lab c) st).
Proof.
  induction f as [|f IH]; intros c st R out Hc.
  - cbn [cmd_loop loop_res]. exists out. split; [exact (crel_frel _ _ _ _ _ Hc)|]. split; [reflexivity|].
    split; [exists []; reflexivity | left; reflexivity].
  - cbn [cmd_loop]. unfold mbind.
    pose proof (cmd_label_ok m c st R out Hc) as Hs.
    pose proof (keeps_cmd_label bsz dict_len dict_byte (lab c) st) as Hk.
    destruct (cmd_label bsz dict_len dict_byte (lab c) st) as [[l'|b] st1|e st1| |]; cbn [step_fut] in Hs; try contradiction.
    + destruct Hs as (c' & R' & out' & -> & Hcr & Hx & Hf).
      specialize (IH c' st1 R' out' Hcr).
      destruct (cmd_loop bsz dict_len dict_byte f (lab c') st1) as [u st2|e st2| |]; cbn [loop_res] in IH |- *;
        try contradiction.
      * destruct IH as (Hk2 & IH). split; [eapply kframe_trans; eauto|].
        destruct IH as [(c2 & R2 & out2 & H1 & H2 & Hx2 & H3 & H4 & H5)|(s2 & R2 & out2 & H1 & Hx2 & H2 & H3 & H4)].
        -- left. exists c2, R2, out2. split; [exact H1|]. split; [exact H2|].
           split; [exact (ext_trans _ _ _ Hx Hx2)|]. split; [exact H3|]. split; [exact H4|].
           intros rc Hrc. apply H5, Hf, Hrc.
        -- right. exists s2, R2, out2. split; [|split; [exact (ext_trans _ _ _ Hx Hx2) | split; [exact H2 | split; [exact H3 | exact H4]]]].
           intros rc Hrc. apply H1, Hf, Hrc.
      * destruct IH as (out2 & Hfr & Ho2 & Hx2 & Hv). exists out2. split; [exact Hfr|].
        split; [destruct Hk as (_ & _ & Hk3); congruence|].
        split; [exact (ext_trans _ _ _ Hx Hx2)|].
        destruct Hv as [->|(He & Hfl)]; [left; reflexivity|]. right. split; [exact He|].
        intros rc Hrc. apply Hfl, Hf, Hrc.
    + unfold ret. cbn [loop_res]. split; [exact Hk|]. destruct b.
      * left. exact Hs.
      * right. destruct Hs as (s & H1 & H2 & H3 & H4). exists s, R, out.
        split; [exact H1|]. split; [exists []; reflexivity|]. split; [exact H2|]. split; [exact H3 | exact H4].
    + cbn [loop_res]. destruct Hs as (He & out' & Hfr & Hx & Hfl). exists out'. split; [exact Hfr|].
      split; [exact (proj2 (proj2 Hk))|].
      split; [exact Hx|]. right. split; [exact He | exact Hfl].
Qed.

(* THEOREM (d): one call of readCommands, entered at the start of the command loop or resumed after a
   suspension *)
Theorem read_commands_ok m c st R out : crel m c st R out ->
  zr_stepState st = sstate c -> (susp_cfg c \/ exists s, c = CStart s) ->
  loop_res m c st R out (read_commands bsz dict_len dict_byte st).
Proof.
  intros Hc Hss Hk. unfold read_commands. rewrite mbind_get. rewrite Hss.
  assert (E : (if sstate c =? stateInit then Some LStart
               else if sstate c =? stateLiterals then Some LLiterals
               else if sstate c =? stateDynamicDict then Some LDynamic
               else if sstate c =? stateStaticDict then Some LStatic else None) = Some (lab c)).
  { destruct Hk as [Hk|(s & ->)]; [|reflexivity]. destruct c; cbn [susp_cfg] in Hk; try contradiction; reflexivity. }
  rewrite E. apply cmd_loop_ok. exact Hc.
Qed.

(* ---- FlushOffset between steps: the bit reader is realigned, InputOffset set ------------------------------------------------ *)
Definition rd_io (st : rst) (p : prd) (io : Z) : rst :=
  set_io (set_rd st p) io (zr_outOff st) (zr_toRead st) (zr_err st).

Lemma cinv_rd st R out m s p io : cinv st R out m s -> BInv' R p -> cinv (rd_io st p io) R out m s.
Proof.
  intros [HI HW HO HT Hrel Hsize Hring Hremz Hlit Hdm Hmtf] Hp.
  destruct Hrel as [Rl Ri Rd Rnp Rnd Rcm Rlm Rdm Rlt Rit Rdt].
  constructor; try assumption.
  - apply (Wokp_ext st); try reflexivity. exact HW.
  - constructor; assumption.
Qed.

Lemma crel_rd m c st R out p io : crel m c st R out -> BInv' R p -> crel m c (rd_io st p io) R out.
Proof.
  intros H Hp. destruct c; cbn [crel] in *; destruct H as ((HC & Hpe) & Hrest);
    (split; [split; [apply cinv_rd; assumption | exact Hpe] | exact Hrest]).
Qed.

Lemma tinv_rd st R out w r p io : tinv st R out w r -> BInv' R p -> tinv (rd_io st p io) R out w r.
Proof.
  intros [HI HW HO Hsz Hring Hword Hmtf] Hp. constructor; try assumption.
  apply (Wok_ext st); try reflexivity. exact HW.
Qed.

End Cmd.

Print Assumptions read_commands_ok.
Print Assumptions cmd_label_ok.
