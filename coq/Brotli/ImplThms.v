(* C02, implementation level: the model of brotli.Reader (Brotli/Impl.v, extracted and run against
   the real Reader call by call by the WBRIMPL correspondence test) against the RFC 7932 decoder
   (Brotli/Spec.v). The named theorems, layer by layer (the proofs are in Brotli/Impl*.v), and the
   full statement about histories of Read calls. *)
From V Require Import Base.Prelude Base.Prog Base.ProgThms Base.FuelThms Base.DepthThms
  Flate.Spec Bzip2.Common Prefix.ReaderImpl
  Brotli.BitReaderImpl Brotli.BitReaderThms
  Brotli.Tables Brotli.Spec Brotli.Fuel Brotli.Safe
  Brotli.Impl Brotli.ImplBits Brotli.ImplHdr Brotli.ImplCode Brotli.ImplCodeX Brotli.ImplCtx Brotli.ImplPfx
  Brotli.ImplDist Brotli.ImplCopy Brotli.ImplWin Brotli.ImplKeep Brotli.ImplCmd Brotli.ImplTop.

Local Open Scope N_scope.

(* ---- (a) stream and meta-block headers -------------------------------------------------------------------------------------- *)
Definition brotli_impl_stream_header := read_stream_header_ok.
Definition brotli_impl_metablock_header := read_mb_header_ok.
Definition brotli_impl_metadata := read_meta_data_ok.
Definition brotli_impl_raw_data := read_raw_data_ok.
Definition brotli_impl_final_padding := @finish_stream_ok.
(* ---- (b) ReadPrefixCode ----------------------------------------------------------------------------------------------------------- *)
Definition brotli_impl_read_prefix_code := read_prefix_code_refines.
(* ---- (c) context maps, block types and counts, block switches, the whole of readPrefixCodes ---------------------- *)
Definition brotli_impl_context_map := read_context_map_refines.
Definition brotli_impl_block_types := read_blk_types_refines.
Definition brotli_impl_block_switch := read_block_switch_refines.
Definition brotli_impl_prefix_codes := read_prefix_codes_refines.
(* ---- (d) the command loop: tables, transforms, one label, one call of readCommands (with resumption) --------- *)
Definition brotli_impl_transform_word := transform_word_eq.
Definition brotli_impl_dist_short := dist_short_ok.
Definition brotli_impl_dist_long := dist_long_ok.
Definition brotli_impl_cmd_label := cmd_label_ok.
Definition brotli_impl_read_commands := read_commands_ok.
(* ---- (e) one step of the Reader against the whole RFC decoder ------------------------------------------------------------ *)
Definition brotli_impl_run_step := run_step_ok.

(* ---- (e) the statement about whole histories of Read calls: OPEN (see NOTES.md) ----------------------------------- *)
Definition is_prefix (a b : list byte) : Prop := exists c, b = a ++ c.

Definition last_obs (l : list robs) : option robs := last (map Some l) None.

Fixpoint obs_bytes (l : list robs) : list byte :=
  match l with
  | [] => []
  | ORead bs _ _ _ :: r => bs ++ obs_bytes r
  | _ :: r => obs_bytes r
  end.

(* every call returns (no run-time panic, no endless loop) at most as many bytes as asked for; the
   first error ends the history and comes without bytes *)
Fixpoint calls_ok (l : list robs) (sched : list nat) : Prop :=
  match l, sched with
  | [], [] => True
  | ORead bs None _ _ :: r, n :: sr => (length bs <= n)%nat /\ calls_ok r sr
  | [ORead bs (Some _) _ _], _ :: _ => bs = []
  | _, _ => False
  end.

(* THE FULL STATEMENT: for every dictionary of the real length with byte entries, every input,
   either source path, every script of the source's Read sizes, every bufio size >= 16 and every
   schedule of Read calls on a fresh Reader: no panic; the bytes handed out are the beginning of the
   RFC decoder's output; a call that reports an error does so after everything has been handed
   out, with io.EOF exactly when RFC 7932 accepts the stream (InputOffset = the bytes the RFC
   decoder has touched) and UnexpectedEOF or Corrupted when it rejects it. (The error CLASS on
   rejected streams is deliberately not claimed equal: it is not, see the finding in NOTES.md.) *)
Definition brotli_impl_refines_rfc7932_statement : Prop :=
  forall dict_len dict_byte data buffered reads bsz sched,
    (forall b, In b data -> b < 256) -> (16 <= bsz)%nat -> (forall k, dict_byte k < 256) ->
    122784 <= dict_len ->
    let r := brotli_decode dict_byte data in
    exists obs fin,
      br_reads bsz dict_len dict_byte (br_new data buffered reads) sched = (obs, Some fin) /\
      calls_ok obs sched /\
      is_prefix (obs_bytes obs) (br_out r) /\
      forall bs e io oo, last_obs obs = Some (ORead bs (Some e) io oo) ->
        obs_bytes obs = br_out r /\ oo = Z.of_nat (length (br_out r)) /\
        match br_err r with
        | None => e = EEOF /\ io = Z.of_N (br_used r)
        | Some _ => e = EUEOF \/ e = ECorrupted
        end.

(* non-vacuity of the step theorem's hypotheses: a fresh Reader satisfies the bit reader invariant
   and the move-to-front invariant it starts from *)
Example fresh_reader_invariants data buffered reads :
  BitReaderThms.BInv data 0 (zr_rd (br_new data buffered reads)) /\
  MtfInv (zr_mtf (br_new data buffered reads)) (zr_mtfTail (br_new data buffered reads)).
Proof. split; [apply BInv_init | exact mtf_inv_fresh]. Qed.

Print Assumptions brotli_impl_run_step.
Print Assumptions brotli_impl_read_commands.
Print Assumptions brotli_impl_cmd_label.
Print Assumptions brotli_impl_prefix_codes.
Print Assumptions brotli_impl_read_prefix_code.
