(* Layer (b), second half: readComplexPrefixCode (model Brotli/Impl.v read_complex_prefix_code)
   against read_complex_code of Brotli/Spec.v, and the two halves together: ReadPrefixCode. *)
From V Require Import Base.Prelude Base.Prog Base.ProgThms Base.FuelThms Base.DepthThms
  Flate.Spec Flate.Canon Flate.CanonLink Bzip2.Common Prefix.Code Prefix.GenPrefixesThms
  Prefix.ReaderImpl Prefix.ReaderSpec Prefix.ReaderThms
  Prefix.DecTable Prefix.DecTableSpec Prefix.DecTableThms Prefix.DecReadThms Prefix.DecCanonThms
  Brotli.BitReaderImpl Brotli.BitReaderSpec Brotli.BitReaderThms
  Brotli.PrefixDecoderImpl Brotli.PrefixDecoderThms Brotli.ReadSymbolThms
  Brotli.Tables Brotli.Spec Brotli.Fuel
  Brotli.Impl Brotli.ImplBits Brotli.ImplSym Brotli.ImplFixed Brotli.ImplHdr Brotli.ImplSort
  Brotli.ImplNoPut Brotli.ImplCode.
From Coq Require Import ZifyBool ZifyN ZifyNat Sorting.Sorted Sorting.Permutation.

Local Open Scope N_scope.
Local Ltac Zify.zify_post_hook ::= idtac.

Lemma clens_syms c : In c clens_codes -> c_sym c <= 5.
Proof.
  intros H. vm_compute in H.
  repeat (destruct H as [<-|H]; [vm_compute; discriminate|]). destruct H.
Qed.

Lemma shiftr32 v : 1 <= v <= 5 -> N.shiftr 32 v = 2 ^ (5 - v).
Proof.
  intros H. assert (Hc : v = 1 \/ v = 2 \/ v = 3 \/ v = 4 \/ v = 5) by lia.
  destruct Hc as [Hc|[Hc|[Hc|[Hc|Hc]]]]; subst v; reflexivity.
Qed.

Lemma NoDup_app_one {A} (l : list A) x : NoDup l -> ~ In x l -> NoDup (l ++ [x]).
Proof.
  induction l as [|y r IH]; intros Hn Hx; cbn [app]; [constructor; [intros []|constructor]|].
  inversion Hn; subst. constructor.
  - intros Hin. apply in_app_or in Hin. destruct Hin as [Hin|[Hin|[]]]; [contradiction|].
    apply Hx. left. symmetry. exact Hin.
  - apply IH; [assumption|]. intros Hin. apply Hx. right. exact Hin.
Qed.

Section CodeX.
Variable data : list byte.
Hypothesis Hd : forall b, In b data -> b < 256.
Variable bsz : nat.
Hypothesis Hbsz : (16 <= bsz)%nat.

Notation BInv' := (BInv data).
Notation sast' := (sast data).

Ltac bits_core HI nb Hnew v p1 E Hv Hle :=
  match goal with
  | |- context [run (rbits nb) (sast data ?R0 ?o)] =>
    match goal with
    | |- context [mbind (m_read_bits bsz nb) _ ?st] =>
      let Hx := fresh "Hx" in
      pose proof (m_read_bits_ok data Hd bsz Hbsz st R0 o nb HI ltac:(lia)) as Hx;
      let s1 := fresh "s1" in let e := fresh "e" in
      destruct (run (rbits nb) (sast data R0 o)) as [v s1|e s1];
      [ destruct Hx as (p1 & E & -> & Hnew & Hv & Hle); rewrite (mbind_ok _ _ _ _ _ E); cbv beta
      | let He := fresh "He" in
        destruct Hx as (He & Ho & pf & Ef); rewrite (mbind_err _ _ _ _ _ Ef); subst e ]
    end
  end.
Ltac bits_step HI nb Hnew v p1 E Hv Hle := rewrite run_bind; bits_core HI nb Hnew v p1 E Hv Hle.

(* ---- the code length code lengths --------------------------------------------------------------- *)
(* what the loop over complexLens[hskip:] has collected *)
Definition clcl_new (order : list N) (acc cls : list (N * N)) : Prop :=
  exists new, cls = new ++ acc /\
    (forall s l, In (s, l) new -> In s order /\ 1 <= l <= 5) /\
    (NoDup order -> NoDup (map fst new)).

Lemma kraft_app m a b : kraft m (a ++ b) = kraft m a + kraft m b.
Proof. unfold kraft. induction a as [|x r IH]; cbn [app fold_right]; [reflexivity|]. rewrite IH. lia. Qed.

Lemma clcl_ok order : forall space num acc st R out, BInv' R (zr_rd st) -> 1 <= space <= 32 ->
  match run (read_clcl order space num acc) (sast' R out) with
  | Done (sp, nm, cls) s' =>
    exists p' R', read_clens_loop bsz order (Z.of_N space) acc st = SOk cls (set_rd st p') /\
                  s' = sast' R' out /\ BInv' R' p' /\ clcl_new order acc cls /\
                  kraft 5 cls + sp = kraft 5 acc + space
  | Fail e s' =>
    (e = EUEOF /\ exists p', read_clens_loop bsz order (Z.of_N space) acc st = SErr EUEOF (set_rd st p')) \/
    (e = ECorrupted /\ exists p' R' cls,
        read_clens_loop bsz order (Z.of_N space) acc st = SOk cls (set_rd st p') /\
        BInv' R' p' /\ clcl_new order acc cls /\ kraft 5 acc + space < kraft 5 cls)
  end.
Proof.
  induction order as [|sym r IH]; intros space num acc st R out HI Hsp.
  - cbn [read_clcl run read_clens_loop]. exists (zr_rd st), R.
    split; [unfold ret; f_equal; destruct st; reflexivity|]. split; [reflexivity|]. split; [exact HI|].
    split; [|lia]. exists []. split; [reflexivity|]. split; [intros s l []|intros _; constructor].
  - cbn [read_clcl read_clens_loop]. rewrite run_bind.
    pose proof (m_read_symbol_ok data Hd bsz Hbsz decCLens clens_codes decCLens_codes clcl_tree
                  clcl_tree_codes clens_zero_min st R out HI) as Hs.
    destruct (run (sym_or_corrupt clcl_tree) (sast' R out)) as [v s1|e s1].
    2:{ destruct Hs as (-> & _ & p' & E). rewrite (mbind_err _ _ _ _ _ E). left. split; [reflexivity|].
        exists p'. reflexivity. }
    destruct Hs as (p' & n & E & -> & HI' & c & Hc & -> & _).
    rewrite (mbind_ok _ _ _ _ _ E). cbv beta.
    pose proof (clens_syms c Hc) as Hv5. set (v := c_sym c) in *.
    set (st1 := set_rd st p').
    assert (HI1 : BInv' (R + n) (zr_rd st1)) by exact HI'.
    destruct (v =? 0) eqn:Ev0.
    + apply N.eqb_eq in Ev0. rewrite Ev0. cbn [N.ltb N.compare].
      specialize (IH space num acc st1 (R + n)%nat out HI1 Hsp).
      destruct (run (read_clcl r space num acc) (sast' (R + n) out)) as [[[sp nm] cls] s2|e s2].
      * destruct IH as (p2 & R2 & E2 & -> & HI2 & (new & En & Hnew & Hnd) & Hk).
        exists p2, R2. split; [exact E2|]. split; [reflexivity|]. split; [exact HI2|]. split; [|exact Hk].
        exists new. split; [exact En|]. split.
        -- intros s l Hin. destruct (Hnew s l Hin). split; [right; assumption | assumption].
        -- intros Hn. inversion Hn; subst. apply Hnd. assumption.
      * destruct IH as [(-> & p2 & E2)|(-> & p2 & R2 & cls & E2 & HI2 & (new & En & Hnew & Hnd) & Hk)].
        -- left. split; [reflexivity|]. exists p2. exact E2.
        -- right. split; [reflexivity|]. exists p2, R2, cls. split; [exact E2|]. split; [exact HI2|].
           split; [|exact Hk]. exists new. split; [exact En|]. split.
           ++ intros s l Hin. destruct (Hnew s l Hin). split; [right; assumption | assumption].
           ++ intros Hn. inversion Hn; subst. apply Hnd. assumption.
    + apply N.eqb_neq in Ev0. replace (0 <? v) with true by (symmetry; apply N.ltb_lt; lia).
      assert (Hw : N.shiftr 32 v = 2 ^ (5 - v)) by (apply shiftr32; lia).
      rewrite Hw. set (w := 2 ^ (5 - v)) in *.
      assert (Hw1 : 1 <= w <= 16).
      { unfold w. assert (Hc5 : v = 1 \/ v = 2 \/ v = 3 \/ v = 4 \/ v = 5) by lia.
        destruct Hc5 as [Hc5|[Hc5|[Hc5|[Hc5|Hc5]]]]; rewrite Hc5; cbn; lia. }
      assert (Hk1 : kraft 5 ((sym, v) :: acc) = w + kraft 5 acc) by reflexivity.
      assert (Hnew1 : clcl_new (sym :: r) acc ((sym, v) :: acc)).
      { exists [(sym, v)]. split; [reflexivity|]. split.
        - intros s l [Hin|[]]. inversion Hin; subst. split; [left; reflexivity | lia].
        - intros _. repeat constructor. intros []. }
      destruct (space <? w) eqn:Elt.
      * (* over-subscribed: the RFC model rejects, the Reader stops reading *)
        apply N.ltb_lt in Elt. cbn [run].
        replace ((Z.of_N space - Z.of_N w <=? 0)%Z) with true by (symmetry; apply Z.leb_le; lia).
        right. split; [reflexivity|]. exists p', (R + n)%nat, ((sym, v) :: acc).
        split; [reflexivity|]. split; [exact HI'|]. split; [exact Hnew1 | lia].
      * apply N.ltb_ge in Elt. destruct (space =? w) eqn:Eeq.
        -- apply N.eqb_eq in Eeq. cbn [run].
           replace ((Z.of_N space - Z.of_N w <=? 0)%Z) with true by (symmetry; apply Z.leb_le; lia).
           exists p', (R + n)%nat. split; [reflexivity|]. split; [reflexivity|]. split; [exact HI'|].
           split; [exact Hnew1 | lia].
        -- apply N.eqb_neq in Eeq.
           replace ((Z.of_N space - Z.of_N w <=? 0)%Z) with false by (symmetry; apply Z.leb_gt; lia).
           replace (Z.of_N space - Z.of_N w)%Z with (Z.of_N (space - w)) by lia.
           specialize (IH (space - w) (num + 1) ((sym, v) :: acc) st1 (R + n)%nat out HI1 ltac:(lia)).
           destruct (run (read_clcl r (space - w) (num + 1) ((sym, v) :: acc)) (sast' (R + n) out))
             as [[[sp nm] cls] s2|e s2].
           ++ destruct IH as (p2 & R2 & E2 & -> & HI2 & (new & En & Hnew & Hnd) & Hk).
              exists p2, R2. split; [exact E2|]. split; [reflexivity|]. split; [exact HI2|].
              split; [|lia]. exists (new ++ [(sym, v)]). split; [rewrite <- app_assoc; exact En|]. split.
              ** intros s l Hin. apply in_app_or in Hin. destruct Hin as [Hin|[Hin|[]]].
                 --- destruct (Hnew s l Hin). split; [right; assumption | assumption].
                 --- inversion Hin; subst. split; [left; reflexivity | lia].
              ** intros Hn. inversion Hn as [|? ? Hni Hn']; subst. rewrite map_app. cbn [map fst].
                 apply NoDup_app_one; [apply Hnd; exact Hn'|].
                 intros Hin. apply in_map_iff in Hin. destruct Hin as ([s l] & <- & Hin).
                 apply Hni. apply (Hnew s l Hin).
           ++ destruct IH as [(-> & p2 & E2)|(-> & p2 & R2 & cls & E2 & HI2 & (new & En & Hnew & Hnd) & Hk)].
              ** left. split; [reflexivity|]. exists p2. exact E2.
              ** right. split; [reflexivity|]. exists p2, R2, cls. split; [exact E2|]. split; [exact HI2|].
                 split; [|lia]. exists (new ++ [(sym, v)]). split; [rewrite <- app_assoc; exact En|]. split.
                 --- intros s l Hin. apply in_app_or in Hin. destruct Hin as [Hin|[Hin|[]]].
                     +++ destruct (Hnew s l Hin). split; [right; assumption | assumption].
                     +++ inversion Hin; subst. split; [left; reflexivity | lia].
                 --- intros Hn. inversion Hn as [|? ? Hni Hn']; subst. rewrite map_app. cbn [map fst].
                     apply NoDup_app_one; [apply Hnd; exact Hn'|].
                     intros Hin. apply in_map_iff in Hin. destruct Hin as ([s l] & <- & Hin).
                     apply Hni. apply (Hnew s l Hin).
Qed.

(* ---- the symbol code lengths ----------------------------------------------------------------------- *)
Lemma rep_syms_desc n : forall sym len acc,
  desc_below sym acc -> desc_below (sym + N.of_nat n) (rep_syms n sym len acc).
Proof.
  induction n as [|n IH]; intros sym len acc H; cbn [rep_syms].
  - rewrite N.add_0_r. exact H.
  - replace (sym + N.of_nat (S n)) with (sym + 1 + N.of_nat n) by lia.
    apply IH. cbn. split; [lia | exact H].
Qed.

Lemma rep_syms_lens n : forall sym len acc s l,
  In (s, l) (rep_syms n sym len acc) -> In (s, l) acc \/ l = len.
Proof.
  induction n as [|n IH]; intros sym len acc s l H; cbn [rep_syms] in H; [left; exact H|].
  apply IH in H. destruct H as [[H|H]|H]; [right; inversion H; reflexivity | left; exact H | right; exact H].
Qed.

Lemma rep_syms_kraft m n : forall sym len acc,
  kraft m (rep_syms n sym len acc) = N.of_nat n * 2 ^ (m - len) + kraft m acc.
Proof.
  induction n as [|n IH]; intros sym len acc; cbn [rep_syms]; [lia|].
  rewrite IH. cbn [kraft fold_right snd]. fold (kraft m acc). lia.
Qed.

Lemma rep_codes_of n : forall sym len acc, sym + N.of_nat n < 2 ^ 32 -> len < 2 ^ 32 ->
  rep_codes n sym len (codes_of acc) = codes_of (rep_syms n sym len acc).
Proof.
  induction n as [|n IH]; intros sym len acc Hs Hl; cbn [rep_codes rep_syms]; [reflexivity|].
  unfold w32. rewrite !N.mod_small by lia.
  change ((sym, len, 0) :: codes_of acc) with (codes_of ((sym, len) :: acc)).
  apply IH; lia.
Qed.

Lemma shiftr32768 cl : 1 <= cl <= 15 -> N.shiftr 32768 cl = 2 ^ (15 - cl).
Proof.
  intros H. rewrite N.shiftr_div_pow2. change 32768 with (2 ^ 15).
  replace 15 with (15 - cl + cl) at 1 by lia. rewrite N.pow_add_r.
  apply N.div_mul. apply N.pow_nonzero. lia.
Qed.

(* the state of the RFC model's loop and the state of the Reader's loop, before the space is
   over-subscribed *)
Record Rel (asize : N) (s : clst) (x : cxst) : Prop := mkRel {
  r_sym : x_sym x = k_sym s;
  r_sum : x_sum x = k_space s;
  r_prev : x_clenLast x = k_prev s;
  r_codes : x_codes x = codes_of (k_acc s);
  r_rep : (x_repSymLast x = 0 /\ k_rep s = 0) \/
          (x_repSymLast x = 16 /\ k_rep s = x_repCntLast x /\ k_replen s = k_prev s /\ 3 <= k_rep s) \/
          (x_repSymLast x = 17 /\ k_rep s = x_repCntLast x /\ k_replen s = 0 /\ 3 <= k_rep s);
  r_prevb : 1 <= k_prev s <= 15;
  r_desc : desc_below (k_sym s) (k_acc s);
  r_lens : forall s0 l, In (s0, l) (k_acc s) -> 1 <= l <= 15;
  r_kraft : k_space s = (32768 - Z.of_N (kraft 15 (k_acc s)))%Z;
  r_symle : k_sym s <= asize
}.

(* the Reader's loop has ended in a state from which it reports Corrupted *)
Definition BadX (asize : N) (x : cxst) : Prop :=
  ((x_sym x <? asize) && (0 <? x_sum x)%Z = false) /\
  (asize < x_sym x \/
   exists acc, x_codes x = codes_of acc /\ desc_below asize acc /\
               (forall s0 l, In (s0, l) acc -> 1 <= l <= 15) /\ 32768 < kraft 15 acc).

(* one pass of the body of the Reader's loop *)
Definition syms_iter (cl : dec) (x : cxst) : M cxst :=
  (clen <~ m_read_symbol bsz cl ;;
   if clen <? 16 then
     ret (if 0 <? clen then
            mkCx (x_sym x + 1) (x_sum x - Z.of_N (N.shiftr 32768 clen))%Z 0 (x_repCntLast x) clen
                 ((w32 (x_sym x), w32 clen, 0) :: x_codes x)
          else mkCx (x_sym x + 1) (x_sum x) 0 (x_repCntLast x) (x_clenLast x) (x_codes x))
   else
     let repSym := clen in
     let repCntLast0 := if negb (repSym =? x_repSymLast x) then 0 else x_repCntLast x in
     let nb := repSym - 14 in
     v <~ m_read_bits bsz nb ;;
     let rep0 := v + 3 in
     let rep := if 0 <? repCntLast0 then rep0 + N.shiftl (repCntLast0 - 2) nb else rep0 in
     let repDiff := rep - repCntLast0 in
     ret (if repSym =? 16 then
            mkCx (x_sym x + repDiff)
                 (x_sum x - Z.of_N repDiff * Z.of_N (N.shiftr 32768 (x_clenLast x)))%Z
                 repSym rep (x_clenLast x)
                 (rep_codes (N.to_nat repDiff) (x_sym x) (x_clenLast x) (x_codes x))
          else mkCx (x_sym x + repDiff) (x_sum x) repSym rep (x_clenLast x) (x_codes x)))%brm.

Lemma read_syms_loop_unfold f cl maxSyms x st :
  read_syms_loop bsz (S f) cl maxSyms x st =
  if (x_sym x <? maxSyms) && (0 <? x_sum x)%Z
  then mbind (syms_iter cl x) (read_syms_loop bsz f cl maxSyms) st
  else SOk x st.
Proof.
  cbn [read_syms_loop]. destruct ((x_sym x <? maxSyms) && (0 <? x_sum x)%Z); [|reflexivity].
  unfold syms_iter. unfold mbind.
  destruct (m_read_symbol bsz cl st) as [clen st1| | |]; try reflexivity.
  destruct (clen <? 16); [reflexivity|]. cbv zeta.
  destruct (m_read_bits bsz (clen - 14) st1) as [v st2| | |]; try reflexivity.
Qed.

Lemma desc_below_bounds : forall acc b, desc_below b acc -> forall s0 l, In (s0, l) acc -> s0 < b.
Proof.
  induction acc as [|[s x] r IH]; intros b H s0 l Hin; [destruct Hin|].
  cbn in H. destruct H as [H1 H2]. destruct Hin as [Hin|Hin].
  - inversion Hin; subst. exact H1.
  - pose proof (IH s H2 s0 l Hin). lia.
Qed.

Lemma syms_iter_ok asize cltree cl s x st R out :
  asize < 2 ^ 27 -> Rel asize s x -> (0 <= k_space s)%Z -> k_sym s < asize -> k_space s <> 0%Z ->
  dec_treeP (fun v => v <= 17) cl cltree -> BInv' R (zr_rd st) ->
  match run (clen_sym_body cltree asize s) (sast' R out) with
  | Done (inl s') a' =>
    exists p' R' x', syms_iter cl x st = SOk x' (set_rd st p') /\ a' = sast' R' out /\ BInv' R' p' /\
      k_sym s < k_sym s' /\
      (((0 <= k_space s')%Z /\ Rel asize s' x') \/ ((k_space s' < 0)%Z /\ BadX asize x'))
  | Done (inr _) _ => False
  | Fail e a' =>
    (e = EUEOF /\ exists p', syms_iter cl x st = SErr EUEOF (set_rd st p')) \/
    (e = ECorrupted /\ exists p' R' x', syms_iter cl x st = SOk x' (set_rd st p') /\ BInv' R' p' /\
                                       BadX asize x')
  end.
Proof.
  intros Ha [Rsym Rsum Rprev Rcodes Rrep Rpb Rdesc Rlens Rkraft Rle] Hsp Hlt Hne HT HI.
  unfold clen_sym_body, syms_iter.
  replace (asize <=? k_sym s) with false by (symmetry; apply N.leb_gt; exact Hlt).
  replace (k_space s =? 0)%Z with false by (symmetry; apply Z.eqb_neq; exact Hne).
  cbn [orb]. rewrite run_bind.
  pose proof (m_read_symbol_tree data Hd bsz Hbsz (fun v => v <= 17) st R out cl cltree HT HI) as Hs.
  destruct (run (sym_or_corrupt cltree) (sast' R out)) as [clen s1|e s1].
  2:{ destruct Hs as (-> & _ & p' & E). rewrite (mbind_err _ _ _ _ _ E). left. split; [reflexivity|].
      exists p'. reflexivity. }
  destruct Hs as (p' & R1 & E & -> & HI1 & Hc17).
  rewrite (mbind_ok _ _ _ _ _ E). cbv beta.
  assert (H32 : 2 ^ 27 < 2 ^ 32) by (apply N.pow_lt_mono_r; lia).
  assert (Hwsym : w32 (x_sym x) = k_sym s) by (unfold w32; rewrite Rsym; apply N.mod_small; lia).
  destruct (clen <? 16) eqn:E16.
  - (* a code length *)
    apply N.ltb_lt in E16. destruct (clen =? 0) eqn:E0.
    + apply N.eqb_eq in E0. subst clen. cbn [N.ltb N.compare run ret].
      eexists p', R1, _. split; [reflexivity|]. split; [reflexivity|]. split; [exact HI1|].
      cbn [k_sym k_space]. split; [lia|]. left. split; [exact Hsp|].
      split; cbn [x_sym x_sum x_clenLast x_codes x_repSymLast x_repCntLast k_sym k_space k_prev k_acc k_rep k_replen];
        try assumption; try lia.
      eapply desc_below_weaken; [|exact Rdesc]. lia.
    + apply N.eqb_neq in E0. replace (0 <? clen) with true by (symmetry; apply N.ltb_lt; lia).
      cbn [run ret].
      assert (Hsh : N.shiftr 32768 clen = 2 ^ (15 - clen)) by (apply shiftr32768; lia).
      assert (Hwc : w32 clen = clen) by (unfold w32; apply N.mod_small; lia).
      rewrite Hwsym, Hwc.
      eexists p', R1, _. split; [reflexivity|]. split; [reflexivity|]. split; [exact HI1|].
      cbn [k_sym k_space]. split; [lia|].
      assert (Hk : kraft 15 ((k_sym s, clen) :: k_acc s) = 2 ^ (15 - clen) + kraft 15 (k_acc s)) by reflexivity.
      assert (Hp15 : 1 <= 2 ^ (15 - clen)) by (pose proof (N.pow_nonzero 2 (15 - clen)); lia).
      destruct (Z.ltb_spec (k_space s - Z.of_N (N.shiftr 32768 clen)) 0) as [Hneg|Hpos].
      * right. split; [exact Hneg|]. split.
        -- cbn [x_sum x_sym]. rewrite Rsum. replace (0 <? k_space s - Z.of_N (N.shiftr 32768 clen))%Z with false
             by (symmetry; apply Z.ltb_ge; lia). apply andb_false_r.
        -- right. exists ((k_sym s, clen) :: k_acc s). cbn [x_codes]. rewrite Rcodes.
           split; [reflexivity|]. split; [cbn; split; [lia | exact Rdesc]|]. split.
           ++ intros s0 l [Hin|Hin]; [inversion Hin; subst; lia | apply (Rlens s0 l Hin)].
           ++ rewrite Hk. rewrite Hsh in Hneg. lia.
      * left. split; [exact Hpos|].
        split; cbn [x_sym x_sum x_clenLast x_codes x_repSymLast x_repCntLast k_sym k_space k_prev k_acc k_rep k_replen];
          try lia.
        all: try (rewrite Rsum; reflexivity).
        all: try (rewrite Rcodes; reflexivity).
        all: try (left; split; reflexivity).
        all: try (cbn; split; [lia | exact Rdesc]).
        all: try (intros s0 l [Hin|Hin]; [inversion Hin; subst; lia | apply (Rlens s0 l Hin)]).
        all: try (rewrite Hk, Hsh; lia).
  - (* a repeat code *)
    apply N.ltb_ge in E16. cbv zeta.
    assert (Hcl : clen = 16 \/ clen = 17) by lia.
    set (extra := if clen =? 16 then 2 else 3).
    set (newlen := if clen =? 16 then k_prev s else 0).
    assert (Hnb : clen - 14 = extra) by (unfold extra; destruct Hcl as [Hcl|Hcl]; rewrite Hcl; reflexivity).
    rewrite Hnb.
    set (st1 := set_rd st p').
    assert (HI1' : BInv' R1 (zr_rd st1)) by exact HI1.
    assert (Hex : extra <= 57) by (unfold extra; destruct (clen =? 16); lia).
    bits_step HI1' extra HI2 v p2 E2 Hv Hle.
    2:{ left. split; [reflexivity|]. exists pf. reflexivity. }
    (* the running repeat count *)
    set (old := if k_replen s =? newlen then k_rep s else 0).
    assert (Hold : (if negb (clen =? x_repSymLast x) then 0 else x_repCntLast x) = old /\ (old = 0 \/ 3 <= old)).
    { unfold old, newlen.
      destruct Rrep as [(A1 & A2)|[(A1 & A2 & A3 & A4)|(A1 & A2 & A3 & A4)]]; rewrite A1.
      - replace (clen =? 0) with false by (symmetry; apply N.eqb_neq; lia). cbn [negb].
        rewrite A2. destruct (k_replen s =? _); split; try reflexivity; left; reflexivity.
      - destruct Hcl as [Hcl|Hcl]; rewrite Hcl; cbn [N.eqb Pos.eqb negb].
        + rewrite A3, N.eqb_refl. split; [symmetry; exact A2 | right; exact A4].
        + rewrite A3. replace (k_prev s =? 0) with false by (symmetry; apply N.eqb_neq; lia).
          split; [reflexivity | left; reflexivity].
      - destruct Hcl as [Hcl|Hcl]; rewrite Hcl; cbn [N.eqb Pos.eqb negb].
        + rewrite A3. replace (0 =? k_prev s) with false by (symmetry; apply N.eqb_neq; lia).
          split; [reflexivity | left; reflexivity].
        + rewrite A3. cbn [N.eqb]. split; [symmetry; exact A2 | right; exact A4]. }
    destruct Hold as (Hold & Hold3). rewrite Hold.
    set (rep := (if 0 <? old then (old - 2) * 2 ^ extra else 0) + v + 3).
    assert (Hrep : (if 0 <? old then v + 3 + N.shiftl (old - 2) extra else v + 3) = rep).
    { unfold rep. rewrite N.shiftl_mul_pow2. destruct (0 <? old); lia. }
    rewrite Hrep.
    assert (Hx4 : 4 <= 2 ^ extra).
    { unfold extra. destruct (clen =? 16); [change (2 ^ 2) with 4 | change (2 ^ 3) with 8]; lia. }
    assert (Hdelta : 1 <= rep - old /\ 3 <= rep).
    { unfold rep. destruct (0 <? old) eqn:E0; [|apply N.ltb_ge in E0; lia].
      apply N.ltb_lt in E0. split; nia. }
    set (delta := rep - old) in *.
    rewrite run_bind.
    destruct (k_sym s + delta <=? asize) eqn:Efit.
    2:{ (* the repeat runs past the alphabet *)
      apply N.leb_gt in Efit. cbn [assert_p run]. unfold ret.
      right. split; [reflexivity|]. eexists p2, _, _. split; [reflexivity|]. split; [exact HI2|].
      assert (Hbig : asize < x_sym x + delta) by (rewrite Rsym; exact Efit).
      destruct (clen =? 16); (split; [cbn [x_sym]; replace (x_sym x + delta <? asize) with false
        by (symmetry; apply N.ltb_ge; lia); reflexivity | left; cbn [x_sym]; exact Hbig]). }
    apply N.leb_le in Efit. cbn [assert_p run]. unfold ret.
    destruct Hcl as [Hcl|Hcl].
    + (* 16: repeat the previous non-zero length *)
      assert (Enl : newlen = k_prev s) by (unfold newlen; rewrite Hcl; reflexivity).
      rewrite Enl. replace (k_prev s =? 0) with false by (symmetry; apply N.eqb_neq; lia).
      replace (clen =? 16) with true by (symmetry; apply N.eqb_eq; exact Hcl).
      cbn [run ret].
      assert (Hsh : N.shiftr 32768 (k_prev s) = 2 ^ (15 - k_prev s)) by (apply shiftr32768; lia).
      rewrite Rprev, Rsym, Rcodes, Rsum.
      rewrite rep_codes_of by lia.
      eexists p2, _, _. split; [reflexivity|]. split; [reflexivity|]. split; [exact HI2|].
      cbn [k_sym k_space]. split; [lia|].
      assert (Hk : kraft 15 (rep_syms (N.to_nat delta) (k_sym s) (k_prev s) (k_acc s)) =
                   delta * 2 ^ (15 - k_prev s) + kraft 15 (k_acc s)).
      { rewrite rep_syms_kraft, N2Nat.id. reflexivity. }
      assert (Hdesc : desc_below (k_sym s + delta) (rep_syms (N.to_nat delta) (k_sym s) (k_prev s) (k_acc s))).
      { replace (k_sym s + delta) with (k_sym s + N.of_nat (N.to_nat delta)) by lia.
        apply rep_syms_desc. exact Rdesc. }
      assert (Hlens : forall s0 l, In (s0, l) (rep_syms (N.to_nat delta) (k_sym s) (k_prev s) (k_acc s)) ->
                                   1 <= l <= 15).
      { intros s0 l Hin. apply rep_syms_lens in Hin. destruct Hin as [Hin| ->]; [apply (Rlens s0 l Hin) | lia]. }
      replace (Z.of_N delta * Z.of_N (N.shiftr 32768 (k_prev s)))%Z
        with (Z.of_N (delta * N.shiftr 32768 (k_prev s))) by lia.
      destruct (Z.ltb_spec (k_space s - Z.of_N (delta * N.shiftr 32768 (k_prev s))) 0) as [Hneg|Hpos].
      * right. split; [exact Hneg|]. split.
        -- cbn [x_sum x_sym]. replace (0 <? k_space s - Z.of_N (delta * N.shiftr 32768 (k_prev s)))%Z with false
             by (symmetry; apply Z.ltb_ge; lia). apply andb_false_r.
        -- right. eexists. cbn [x_codes]. split; [reflexivity|].
           split; [eapply desc_below_weaken; [|exact Hdesc]; lia|]. split; [exact Hlens|].
           rewrite Hk. rewrite Hsh in Hneg. lia.
      * left. split; [exact Hpos|].
        split; cbn [x_sym x_sum x_clenLast x_codes x_repSymLast x_repCntLast k_sym k_space k_prev k_acc k_rep k_replen];
          try lia; try reflexivity; try assumption.
        all: try (right; left; split; [exact Hcl|]; split; [reflexivity|]; split; [reflexivity | lia]).
        all: try (rewrite Hk, Hsh; lia).
    + (* 17: a run of zeros *)
      assert (Enl : newlen = 0) by (unfold newlen; rewrite Hcl; reflexivity).
      rewrite Enl. cbn [N.eqb].
      replace (clen =? 16) with false by (symmetry; apply N.eqb_neq; lia).
      cbn [run ret].
      eexists p2, _, _. split; [reflexivity|]. split; [reflexivity|]. split; [exact HI2|].
      cbn [k_sym k_space]. split; [lia|]. left. split; [exact Hsp|].
      split; cbn [x_sym x_sum x_clenLast x_codes x_repSymLast x_repCntLast k_sym k_space k_prev k_acc k_rep k_replen];
        try lia; try reflexivity; try assumption.
      all: try (rewrite Rsym; reflexivity).
      all: try (right; right; split; [exact Hcl|]; split; [reflexivity|]; split; [reflexivity | lia]).
      all: try (eapply desc_below_weaken; [|exact Rdesc]; lia).
Qed.

(* the space of the RFC model never grows: once negative, the loop cannot end well *)
Lemma clen_sym_body_space t asize st :
  post (fun r => match r with
                 | inl st' => (k_space st' <= k_space st)%Z
                 | inr st' => st' = st
                 end)
       (clen_sym_body t asize st).
Proof.
  unfold clen_sym_body.
  destruct ((asize <=? k_sym st) || (k_space st =? 0)%Z); [apply post_ret; reflexivity|].
  apply post_bind_any. intros cl.
  destruct (cl <? 16).
  { destruct (cl =? 0); apply post_ret; cbn [k_space]; lia. }
  cbv zeta. apply post_bind_any. intros x. apply post_assert_bind. intros _.
  destruct (_ =? 0); apply post_ret; cbn [k_space]; [lia|].
  match goal with |- (_ - Z.of_N ?t <= _)%Z => pose proof (N2Z.is_nonneg t) end. lia.
Qed.

Lemma loops_doomed t asize : forall s a res,
  loops (clen_sym_body t asize) s a res -> (k_space s < 0)%Z ->
  match res with Done fin _ => (k_space fin < 0)%Z | Fail _ _ => True end.
Proof.
  induction 1 as [st a e a' E|st a x a' E|st a st1 a1 r E Hl IH]; intros Hneg.
  - exact I.
  - pose proof (clen_sym_body_space t asize st a (inr x) a' E) as H. cbv beta iota in H. subst. exact Hneg.
  - pose proof (clen_sym_body_space t asize st a (inl st1) a1 E) as H. cbv beta iota in H.
    apply IH. lia.
Qed.

Lemma syms_loop_ok asize cltree cl out : asize < 2 ^ 27 ->
  dec_treeP (fun v => v <= 17) cl cltree ->
  forall s a res, loops (clen_sym_body cltree asize) s a res ->
  forall x st R fuel, a = sast' R out -> Rel asize s x -> (0 <= k_space s)%Z -> BInv' R (zr_rd st) ->
    asize < k_sym s + N.of_nat fuel ->
    match res with
    | Done fin a' =>
      (exists p' R' x', read_syms_loop bsz fuel cl asize x st = SOk x' (set_rd st p') /\
         a' = sast' R' out /\ BInv' R' p' /\
         (0 <= k_space fin)%Z /\ Rel asize fin x' /\ (asize <= k_sym fin \/ k_space fin = 0%Z)) \/
      ((k_space fin < 0)%Z /\
       exists p' R' x', read_syms_loop bsz fuel cl asize x st = SOk x' (set_rd st p') /\
                        BInv' R' p' /\ BadX asize x')
    | Fail e a' =>
      (exists p', read_syms_loop bsz fuel cl asize x st = SErr EUEOF (set_rd st p')) \/
      (exists p' R' x', read_syms_loop bsz fuel cl asize x st = SOk x' (set_rd st p') /\
                        BInv' R' p' /\ BadX asize x')
    end.
Proof.
  intros Ha HT.
  assert (Hexit : forall s x st fuel, Rel asize s x -> (0 <= k_space s)%Z ->
            (asize <= k_sym s \/ k_space s = 0%Z) -> read_syms_loop bsz fuel cl asize x st = SOk x st).
  { intros s x st fuel HR Hsp Hex.
    assert (Hc : (x_sym x <? asize) && (0 <? x_sum x)%Z = false).
    { rewrite (r_sym _ _ _ HR), (r_sum _ _ _ HR). destruct Hex as [Hex|Hex].
      - replace (k_sym s <? asize) with false by (symmetry; apply N.ltb_ge; exact Hex). reflexivity.
      - rewrite Hex. apply andb_false_r. }
    destruct fuel; cbn [read_syms_loop]; rewrite Hc; reflexivity. }
  assert (Hbad : forall x st fuel, BadX asize x -> read_syms_loop bsz fuel cl asize x st = SOk x st).
  { intros x st fuel [Hc _]. destruct fuel; cbn [read_syms_loop]; rewrite Hc; reflexivity. }
  assert (Hset : forall st, st = set_rd st (zr_rd st)) by (intros st; destruct st; reflexivity).
  induction 1 as [s a e a' E|s a fin a' E|s a s1 a1 r E Hl IH]; intros x st R fuel -> HR Hsp HI Hf.
  - (* the body fails *)
    destruct (N.ltb_spec (k_sym s) asize) as [Hlt|Hge].
    2:{ unfold clen_sym_body in E. replace (asize <=? k_sym s) with true in E by (symmetry; apply N.leb_le; exact Hge).
        cbn [orb run] in E. discriminate. }
    destruct (Z.eq_dec (k_space s) 0) as [H0|Hne].
    { unfold clen_sym_body in E. rewrite H0 in E. rewrite orb_true_r in E. cbn [run] in E. discriminate. }
    destruct fuel as [|f]; [lia|].
    rewrite read_syms_loop_unfold.
    replace ((x_sym x <? asize) && (0 <? x_sum x)%Z) with true.
    2:{ symmetry. rewrite (r_sym _ _ _ HR), (r_sum _ _ _ HR). apply andb_true_iff.
        split; [apply N.ltb_lt; exact Hlt | apply Z.ltb_lt; lia]. }
    pose proof (syms_iter_ok asize cltree cl s x st R out Ha HR Hsp Hlt Hne HT HI) as Hi.
    rewrite E in Hi. destruct Hi as [(_ & p' & Ei)|(_ & p' & R' & x' & Ei & HI' & HB)].
    + left. exists p'. rewrite (mbind_err _ _ _ _ _ Ei). reflexivity.
    + right. exists p', R', x'. rewrite (mbind_ok _ _ _ _ _ Ei). split; [apply Hbad; exact HB|].
      split; assumption.
  - (* the loop ends *)
    assert (Hfin : fin = s /\ (asize <= k_sym s \/ k_space s = 0%Z)).
    { unfold clen_sym_body in E.
      destruct ((asize <=? k_sym s) || (k_space s =? 0)%Z) eqn:Ec.
      - cbn [run] in E. inversion E; subst. split; [reflexivity|].
        apply orb_true_iff in Ec. destruct Ec as [Ec|Ec]; [left; apply N.leb_le; exact Ec | right; apply Z.eqb_eq; exact Ec].
      - exfalso. apply orb_false_iff in Ec. destruct Ec as [Ec1 Ec2].
        apply N.leb_gt in Ec1. apply Z.eqb_neq in Ec2.
        pose proof (syms_iter_ok asize cltree cl s x st R out Ha HR Hsp Ec1 Ec2 HT HI) as Hi.
        unfold clen_sym_body in Hi. rewrite (proj2 (orb_false_iff _ _) (conj (proj2 (N.leb_gt _ _) Ec1) (proj2 (Z.eqb_neq _ _) Ec2))) in Hi.
        rewrite E in Hi. exact Hi. }
    destruct Hfin as (-> & Hex).
    assert (Ea : a' = sast' R out).
    { unfold clen_sym_body in E. destruct ((asize <=? k_sym s) || (k_space s =? 0)%Z) eqn:Ec.
      - cbn [run] in E. inversion E. reflexivity.
      - exfalso. apply orb_false_iff in Ec. destruct Ec as [Ec1 Ec2].
        apply N.leb_gt in Ec1. apply Z.eqb_neq in Ec2. destruct Hex; [lia | contradiction]. }
    left. exists (zr_rd st), R, x. rewrite <- Hset. split; [apply (Hexit s x st fuel HR Hsp Hex)|].
    split; [exact Ea|]. split; [exact HI|]. split; [exact Hsp|]. split; [exact HR | exact Hex].
  - (* one more pass *)
    destruct (N.ltb_spec (k_sym s) asize) as [Hlt|Hge].
    2:{ unfold clen_sym_body in E. replace (asize <=? k_sym s) with true in E by (symmetry; apply N.leb_le; exact Hge).
        cbn [orb run] in E. discriminate. }
    destruct (Z.eq_dec (k_space s) 0) as [H0|Hne].
    { unfold clen_sym_body in E. rewrite H0 in E. rewrite orb_true_r in E. cbn [run] in E. discriminate. }
    destruct fuel as [|f]; [lia|].
    rewrite read_syms_loop_unfold.
    replace ((x_sym x <? asize) && (0 <? x_sum x)%Z) with true.
    2:{ symmetry. rewrite (r_sym _ _ _ HR), (r_sum _ _ _ HR). apply andb_true_iff.
        split; [apply N.ltb_lt; exact Hlt | apply Z.ltb_lt; lia]. }
    pose proof (syms_iter_ok asize cltree cl s x st R out Ha HR Hsp Hlt Hne HT HI) as Hi.
    rewrite E in Hi. destruct Hi as (p1 & R1 & x1 & Ei & -> & HI1 & Hadv & Hcase).
    rewrite (mbind_ok _ _ _ _ _ Ei).
    destruct Hcase as [(Hsp1 & HR1)|(Hneg & HB)].
    + specialize (IH x1 (set_rd st p1) R1 f eq_refl HR1 Hsp1 HI1 ltac:(lia)).
      destruct r as [fin a'|e a'].
      * destruct IH as [(p' & R' & x' & El & -> & HI' & Hc)|(Hneg & p' & R' & x' & El & HI' & HB)].
        -- left. exists p', R', x'. split; [exact El|]. split; [reflexivity|]. split; [exact HI' | exact Hc].
        -- right. split; [exact Hneg|]. exists p', R', x'. split; [exact El|]. split; assumption.
      * destruct IH as [(p' & El)|(p' & R' & x' & El & HI' & HB)].
        -- left. exists p'. exact El.
        -- right. exists p', R', x'. split; [exact El|]. split; assumption.
    + (* over-subscribed: the Reader stops here; the RFC model cannot succeed any more *)
      pose proof (loops_doomed cltree asize s1 _ r Hl Hneg) as Hdoom.
      rewrite (Hbad x1 (set_rd st p1) f HB).
      destruct r as [fin a'|e a'].
      * right. split; [exact Hdoom|]. exists p1, R1, x1. split; [reflexivity|]. split; assumption.
      * right. exists p1, R1, x1. split; [reflexivity|]. split; assumption.
Qed.

(* ---- after the loop: the checks and Init ---------------------------------------------------------------- *)
Lemma SS_app_last l x : StronglySorted N.lt l -> Forall (fun y => y < x) l -> StronglySorted N.lt (l ++ [x]).
Proof.
  induction l as [|y r IH]; intros HS HF; cbn [app]; [constructor; constructor|].
  inversion HS as [|? ? HS1 HF1]; subst. inversion HF as [|? ? Hy HFr]; subst.
  constructor; [apply IH; assumption|]. apply Forall_app. split; [exact HF1 | constructor; [exact Hy | constructor]].
Qed.

Lemma desc_below_sorted : forall acc b, desc_below b acc ->
  StronglySorted N.lt (map fst (rev acc)) /\ Forall (fun y => y < b) (map fst (rev acc)).
Proof.
  induction acc as [|[s x] r IH]; intros b H; cbn [rev map]; [split; constructor|].
  cbn in H. destruct H as [H1 H2]. destruct (IH s H2) as [S1 F1].
  rewrite map_app. cbn [map fst]. split.
  - apply SS_app_last; assumption.
  - apply Forall_app. split; [|constructor; [exact H1 | constructor]].
    eapply Forall_impl; [|exact F1]. intros y Hy. cbn beta in Hy. lia.
Qed.

Lemma kraft_le_len acc : (forall s0 l, In (s0, l) acc -> 1 <= l <= 15) ->
  kraft 15 acc <= N.of_nat (length acc) * 16384.
Proof.
  induction acc as [|[s l] r IH]; intros H; cbn [kraft fold_right length snd]; [lia|].
  fold (kraft 15 r). assert (IH' := IH (fun s0 l0 Hin => H s0 l0 (or_intror Hin))).
  pose proof (H s l (or_introl eq_refl)) as Hl.
  assert (2 ^ (15 - l) <= 2 ^ 14) by (apply N.pow_le_mono_r; lia). change (2 ^ 14) with 16384 in *. lia.
Qed.

Definition cx_fin (tgt : option dec) (asize : N) (x : cxst) : M dec :=
  (when (Nat.ltb (length (x_codes x)) 2 || (asize <? x_sym x)) corrupted ;;~
   init_target tgt (fast_rev (x_codes x)))%brm.

Lemma fast_rev_codes_of acc : fast_rev (codes_of acc) = codes_of (rev acc).
Proof. rewrite fast_rev_eq. unfold codes_of. rewrite map_rev. reflexivity. Qed.

Lemma codes_of_length acc : length (codes_of acc) = length acc.
Proof. unfold codes_of. apply map_length. Qed.

Lemma cx_fin_reject tgt asize x acc st : asize <= 2 ^ 27 ->
  x_codes x = codes_of acc -> desc_below asize acc ->
  (forall s0 l, In (s0, l) acc -> 1 <= l <= 15) -> kraft 15 acc <> 32768 ->
  cx_fin tgt asize x st = SErr ECorrupted st.
Proof.
  intros Ha Ec Hdesc Hl Hk. unfold cx_fin.
  destruct (Nat.ltb (length (x_codes x)) 2 || (asize <? x_sym x)) eqn:Ew.
  - cbn [when]. unfold corrupted. apply mbind_throw.
  - cbn [when]. rewrite mbind_ret, init_target_eq, Ec, fast_rev_codes_of.
    apply orb_false_iff in Ew. destruct Ew as [Ew _]. apply Nat.ltb_ge in Ew.
    rewrite Ec, codes_of_length in Ew.
    rewrite init_assign_rejects; [reflexivity | rewrite rev_length; exact Ew | |].
    + intros s0 l Hin. apply in_rev in Hin. split; [|apply (Hl s0 l Hin)].
      pose proof (desc_below_bounds acc asize Hdesc s0 l Hin). lia.
    + intros (_ & _ & Hc). apply Hk.
      assert (Hml : max_len (rev acc) <= 15).
      { apply max_len_le15. intros s0 l Hin. apply in_rev in Hin. apply (Hl s0 l Hin). }
      pose proof (kraft_of_complete 15 (rev acc) Hml Hc) as Hkk.
      rewrite <- (kraft_perm 15 acc (rev acc) (Permutation_rev acc)) in Hkk. exact Hkk.
Qed.

Lemma cx_fin_bad tgt asize x st : asize <= 2 ^ 27 -> BadX asize x ->
  cx_fin tgt asize x st = SErr ECorrupted st.
Proof.
  intros Ha (_ & [Hbig|(acc & Ec & Hdesc & Hl & Hk)]).
  - unfold cx_fin. replace (asize <? x_sym x) with true by (symmetry; apply N.ltb_lt; exact Hbig).
    rewrite orb_true_r. cbn [when]. unfold corrupted. apply mbind_throw.
  - apply (cx_fin_reject tgt asize x acc st Ha Ec Hdesc Hl). lia.
Qed.

Lemma cx_fin_ok tgt asize fin x st : asize <= 2 ^ 27 -> Rel asize fin x -> k_space fin = 0%Z ->
  exists d, cx_fin tgt asize x st = SOk d st /\
            dec_treeP (fun s => s < asize) d (tree_of (fast_rev (k_acc fin))).
Proof.
  intros Ha [Rsym Rsum Rprev Rcodes Rrep Rpb Rdesc Rlens Rkraft Rle] H0.
  assert (Hk : kraft 15 (k_acc fin) = 32768) by lia.
  assert (Hlen : (2 <= length (k_acc fin))%nat).
  { pose proof (kraft_le_len (k_acc fin) Rlens). lia. }
  unfold cx_fin. rewrite Rcodes, codes_of_length, Rsym.
  replace (Nat.ltb (length (k_acc fin)) 2) with false by (symmetry; apply Nat.ltb_ge; exact Hlen).
  replace (asize <? k_sym fin) with false by (symmetry; apply N.ltb_ge; exact Rle).
  cbn [orb when]. rewrite mbind_ret, init_target_eq, fast_rev_codes_of.
  destruct (desc_below_sorted (k_acc fin) (k_sym fin) Rdesc) as (HS & HF).
  destruct (init_assign_ok (rev (k_acc fin))
              (dec_oldC (match tgt with Some d => d | None => zr_scratch st end))
              (dec_oldL (match tgt with Some d => d | None => zr_scratch st end)))
    as (d & cs & E & HT).
  - rewrite rev_length. exact Hlen.
  - exact HS.
  - intros s0 l Hin. apply in_rev in Hin. split; [|apply (Rlens s0 l Hin)].
    pose proof (desc_below_bounds _ _ Rdesc s0 l Hin). lia.
  - apply (complete_of_kraft 15).
    + apply max_len_le15. intros s0 l Hin. apply in_rev in Hin. apply (Rlens s0 l Hin).
    + rewrite <- (kraft_perm 15 (k_acc fin) (rev (k_acc fin)) (Permutation_rev _)). exact Hk.
  - rewrite E. exists d. split; [reflexivity|]. rewrite fast_rev_eq.
    apply (dec_treeP_weaken (fun s => In s (map fst (rev (k_acc fin))))); [|exact HT].
    intros s0 Hin. rewrite Forall_forall in HF. specialize (HF s0 Hin). cbn beta in HF. lia.
Qed.

(* ---- readComplexPrefixCode --------------------------------------------------------------------------------- *)
(* what a step of the bit-level parsers may change of the Reader: rd and rd.prefix *)
Definition bframe (st st' : rst) : Prop := exists p sc, st' = set_rd (set_scratch st sc) p.

Lemma bframe_rd st p : bframe st (set_rd st p).
Proof. exists p, (zr_scratch st). reflexivity. Qed.

Lemma clen_order_le17 s : In s clen_order -> s <= 17.
Proof. intros H. vm_compute in H. repeat (destruct H as [<-|H]; [vm_compute; discriminate|]). destruct H. Qed.

Lemma clen_order_nodup : NoDup clen_order.
Proof.
  apply (NoDup_map_inv N.to_nat). vm_compute.
  repeat (constructor; [cbn [In]; intuition discriminate|]). constructor.
Qed.

Lemma NoDup_skipn {A} n (l : list A) : NoDup l -> NoDup (skipn n l).
Proof.
  revert l; induction n as [|n IH]; intros l H; [exact H|]. destruct l as [|x r]; [constructor|].
  cbn [skipn]. inversion H; subst. apply IH. assumption.
Qed.

Lemma In_skipn {A} n (l : list A) x : In x (skipn n l) -> In x l.
Proof.
  revert l; induction n as [|n IH]; intros l H; [exact H|]. destruct l as [|y r]; [destruct H|].
  cbn [skipn] in H. right. apply IH. exact H.
Qed.

Lemma map_w32_codes_of l : (forall s0 l0, In (s0, l0) l -> s0 < 2 ^ 32 /\ l0 < 2 ^ 32) ->
  map (fun x : N * N => (w32 (fst x), w32 (snd x), 0)) l = codes_of l.
Proof.
  intros H. unfold codes_of. apply map_ext_in. intros [s0 l0] Hin. destruct (H s0 l0 Hin).
  unfold w32. cbn [fst snd]. rewrite !N.mod_small by assumption. reflexivity.
Qed.

Lemma rel_init asize : Rel asize (mkClst 0 8 0 0 32768 []) (mkCx 0 32768 0 0 8 []).
Proof.
  split; cbn [x_sym x_sum x_clenLast x_codes x_repSymLast x_repCntLast k_sym k_space k_prev k_acc k_rep k_replen];
    try reflexivity; try lia.
  all: try exact I.
  all: try (intros s0 l []).
  all: try (left; split; reflexivity).
Qed.

Theorem read_complex_ok tgt asize hskip st R out : BInv' R (zr_rd st) -> 2 <= asize < 1024 ->
  match run (read_complex_code asize hskip) (sast' R out) with
  | Done t s' =>
    exists st' R' d, read_complex_prefix_code bsz tgt asize hskip st = SOk d st' /\ bframe st st' /\
                     s' = sast' R' out /\ BInv' R' (zr_rd st') /\ dec_treeP (fun s => s < asize) d t
  | Fail e s' =>
    exists e' st', read_complex_prefix_code bsz tgt asize hskip st = SErr e' st' /\ bframe st st' /\
                   (e' = EUEOF \/ e' = ECorrupted)
  end.
Proof.
  intros HI Ha. unfold read_complex_code, read_complex_prefix_code.
  change complexLens with clen_order.
  set (order := skipn (N.to_nat hskip) clen_order).
  assert (Hnd : NoDup order) by (apply NoDup_skipn, clen_order_nodup).
  assert (H17 : forall s0, In s0 order -> s0 <= 17) by (intros s0 Hin; apply clen_order_le17, (In_skipn _ _ _ Hin)).
  assert (Ha27 : asize < 2 ^ 27) by (assert (1024 < 2 ^ 27) by (vm_compute; reflexivity); lia).
  rewrite run_bind.
  pose proof (clcl_ok order 32 0 [] st R out HI ltac:(lia)) as Hc.
  change (Z.of_N 32) with 32%Z in Hc.
  (* the part after the code length code: from a decoder for it *)
  assert (Hmain : forall cl cltree st1 R1, BInv' R1 (zr_rd st1) -> bframe st st1 ->
            dec_treeP (fun v => v <= 17) cl cltree ->
            match run (fin <- loop 10 (clen_sym_body cltree asize) (mkClst 0 8 0 0 32768 []) ;;
                       assert_p (k_space fin =? 0)%Z ECorrupted ;;;
                       Ret (tree_of (fast_rev (k_acc fin)))) (sast' R1 out) with
            | Done t s' =>
              exists st' R' d,
                (x <~ read_syms_loop bsz (S (N.to_nat asize)) cl asize (mkCx 0 32768 0 0 8 []) ;;
                 cx_fin tgt asize x)%brm st1 = SOk d st' /\ bframe st st' /\
                s' = sast' R' out /\ BInv' R' (zr_rd st') /\ dec_treeP (fun s => s < asize) d t
            | Fail e s' =>
              exists e' st',
                (x <~ read_syms_loop bsz (S (N.to_nat asize)) cl asize (mkCx 0 32768 0 0 8 []) ;;
                 cx_fin tgt asize x)%brm st1 = SErr e' st' /\ bframe st st' /\
                (e' = EUEOF \/ e' = ECorrupted)
            end).
  { intros cl cltree st1 R1 HI1 (p1 & sc1 & Est1) HT.
    assert (Hfr : forall p, bframe st (set_rd st1 p)) by (intros p; exists p, sc1; rewrite Est1; reflexivity).
    rewrite run_bind.
    assert (Hnef : ~ is_efuel (run (loop 10 (clen_sym_body cltree asize) (mkClst 0 8 0 0 32768 [])) (sast' R1 out))).
    { intros Hef. pose proof (bnf_clen_loop (S (ilen (sast' R1 out))) cltree asize ltac:(lia) (sast' R1 out)
                                ltac:(lia)) as Hn.
      destruct (run (loop 10 (clen_sym_body cltree asize) (mkClst 0 8 0 0 32768 [])) (sast' R1 out)) as [? ?|e ?];
        [exact Hef|]. destruct e; try exact Hef. apply Hn. reflexivity. }
    pose proof (loop_loops 10 _ _ _ Hnef) as Hl.
    pose proof (syms_loop_ok asize cltree cl out Ha27 HT _ _ _ Hl (mkCx 0 32768 0 0 8 []) st1 R1
                  (S (N.to_nat asize)) eq_refl (rel_init asize) ltac:(cbn [k_space]; lia) HI1
                  ltac:(cbn [k_sym]; lia)) as Hs.
    destruct (run (loop 10 (clen_sym_body cltree asize) (mkClst 0 8 0 0 32768 [])) (sast' R1 out)) as [fin a'|e a'].
    - destruct Hs as [(p' & R' & x' & El & -> & HI' & Hsp & HR & Hex)|(Hneg & p' & R' & x' & El & HI' & HB)].
      + rewrite (mbind_ok _ _ _ _ _ El). cbv beta. rewrite run_bind.
        destruct (Z.eq_dec (k_space fin) 0) as [H0|H0].
        * rewrite H0. cbn [Z.eqb assert_p run].
          destruct (cx_fin_ok tgt asize fin x' (set_rd st1 p') ltac:(lia) HR H0) as (d & Ef & HTd).
          exists (set_rd st1 p'), R', d. split; [exact Ef|]. split; [apply Hfr|].
          split; [reflexivity|]. split; [exact HI' | exact HTd].
        * replace (k_space fin =? 0)%Z with false by (symmetry; apply Z.eqb_neq; exact H0).
          cbn [assert_p run]. exists ECorrupted, (set_rd st1 p'). split; [|split; [apply Hfr | right; reflexivity]].
          destruct HR as [Rsym Rsum Rprev Rcodes Rrep Rpb Rdesc Rlens Rkraft Rle].
          apply (cx_fin_reject tgt asize x' (k_acc fin)); try assumption; try lia.
          eapply desc_below_weaken; [|exact Rdesc]. exact Rle.
      + rewrite (mbind_ok _ _ _ _ _ El). cbv beta. rewrite run_bind.
        replace (k_space fin =? 0)%Z with false by (symmetry; apply Z.eqb_neq; lia).
        cbn [assert_p run]. exists ECorrupted, (set_rd st1 p').
        split; [apply cx_fin_bad; [lia | exact HB]|]. split; [apply Hfr | right; reflexivity].
    - destruct Hs as [(p' & El)|(p' & R' & x' & El & HI' & HB)].
      + rewrite (mbind_err _ _ _ _ _ El). exists EUEOF, (set_rd st1 p').
        split; [reflexivity|]. split; [apply Hfr | left; reflexivity].
      + rewrite (mbind_ok _ _ _ _ _ El). cbv beta. exists ECorrupted, (set_rd st1 p').
        split; [apply cx_fin_bad; [lia | exact HB]|]. split; [apply Hfr | right; reflexivity]. }
  (* the code length code *)
  destruct (run (read_clcl order 32 0 []) (sast' R out)) as [[[sp nm] cls] s1|e s1].
  2:{ destruct Hc as [(-> & p' & E)|(-> & p' & R' & cls & E & HI' & (new & En & Hnew & Hndn) & Hk)].
      - rewrite (mbind_err _ _ _ _ _ E). exists EUEOF, (set_rd st p').
        split; [reflexivity|]. split; [apply bframe_rd | left; reflexivity].
      - (* over-subscribed *)
        rewrite (mbind_ok _ _ _ _ _ E). cbv zeta beta.
        rewrite app_nil_r in En. subst new. cbn [kraft fold_right] in Hk.
        assert (Hb : forall s0 l0, In (s0, l0) cls -> s0 <= 17 /\ 1 <= l0 <= 5).
        { intros s0 l0 Hin. destruct (Hnew s0 l0 Hin). split; [apply H17; assumption | assumption]. }
        assert (H232 : 2 ^ 5 < 2 ^ 32) by (apply N.pow_lt_mono_r; lia).
        rewrite map_w32_codes_of.
        2:{ intros s0 l0 Hin. apply (proj1 (sort_by_sym_in _ _)) in Hin. destruct (Hb s0 l0 Hin). change (2 ^ 5) with 32 in *. lia. }
        rewrite codes_of_length, sort_by_sym_length.
        assert (Hlen : (3 <= length cls)%nat).
        { assert (kraft 5 cls <= N.of_nat (length cls) * 16).
          { clear -Hb. induction cls as [|[s0 l0] r IH]; cbn [kraft fold_right length snd]; [lia|].
            fold (kraft 5 r). assert (IH' := IH (fun a b Hin => Hb a b (or_intror Hin))).
            destruct (Hb s0 l0 (or_introl eq_refl)) as (_ & Hl).
            assert (2 ^ (5 - l0) <= 2 ^ 4) by (apply N.pow_le_mono_r; lia). change (2 ^ 4) with 16 in *. lia. }
          lia. }
        replace (Nat.ltb (length cls) 1) with false by (symmetry; apply Nat.ltb_ge; lia).
        cbn [when]. rewrite mbind_ret, mbind_get. unfold m_dec_init.
        rewrite init_assign_rejects.
        + exists ECorrupted, (set_rd st p'). split; [reflexivity|]. split; [apply bframe_rd | right; reflexivity].
        + rewrite sort_by_sym_length. lia.
        + intros s0 l0 Hin. apply (proj1 (sort_by_sym_in _ _)) in Hin. destruct (Hb s0 l0 Hin).
          assert (17 < 2 ^ 27) by (vm_compute; reflexivity). split; lia.
        + intros (_ & _ & Hcm).
          assert (Hml : max_len (sort_by_sym cls) <= 5).
          { apply max_len_le15. intros s0 l0 Hin. apply (proj1 (sort_by_sym_in _ _)) in Hin. apply (Hb s0 l0 Hin). }
          pose proof (kraft_of_complete 5 _ Hml Hcm) as Hkk.
          rewrite <- (kraft_perm 5 cls _ (sort_by_sym_perm cls)) in Hkk. change (2 ^ 5) with 32 in Hkk. lia. }
  destruct Hc as (p' & R' & E & -> & HI' & (new & En & Hnew & Hndn) & Hk).
  rewrite (mbind_ok _ _ _ _ _ E). cbv zeta beta.
  rewrite app_nil_r in En. subst new. cbn [kraft fold_right] in Hk.
  assert (Hb : forall s0 l0, In (s0, l0) cls -> s0 <= 17 /\ 1 <= l0 <= 5).
  { intros s0 l0 Hin. destruct (Hnew s0 l0 Hin). split; [apply H17; assumption | assumption]. }
  rewrite map_w32_codes_of.
  2:{ intros s0 l0 Hin. apply (proj1 (sort_by_sym_in _ _)) in Hin. destruct (Hb s0 l0 Hin).
      assert (32 < 2 ^ 32) by (vm_compute; reflexivity). lia. }
  rewrite codes_of_length, sort_by_sym_length.
  set (st1 := set_rd st p').
  rewrite run_bind.
  destruct cls as [|[s0 v0] [|c2 cls']].
  - (* no code length at all *)
    cbn [kraft fold_right] in Hk.
    cbn [length Nat.ltb Nat.leb when]. unfold corrupted. rewrite mbind_throw.
    replace (sp =? 0) with false by (symmetry; apply N.eqb_neq; lia). cbn [run].
    exists ECorrupted, st1. split; [reflexivity|]. split; [apply bframe_rd | right; reflexivity].
  - (* one: read with zero bits *)
    cbn [length Nat.ltb Nat.leb when run]. rewrite mbind_ret, mbind_get.
    cbn [sort_by_sym fold_right insert_sorted codes_of map fst snd]. unfold m_dec_init.
    cbn [br_dec_init]. rewrite mbind_ret, mbind_modify.
    destruct (Hb s0 v0 (or_introl eq_refl)) as (Hs17 & _).
    assert (HT : dec_treeP (fun v => v <= 17)
                   (mkDec (mkArr 1 (nm_set nm_empty 0 (mk_chunk (c_sym (s0, v0, 0)) 0)) (dec_oldC (zr_scratch st1)))
                          empty_arr 0 0 0 0 0 0 1) (HLeaf s0)).
    { left. exists s0. split; [|split; [reflexivity | exact Hs17]].
      unfold dec_single, c_sym. cbn [d_chunks d_chunkMask d_chunkBits d_minBits a_len fst].
      split; [reflexivity|]. split; [reflexivity|]. split; [reflexivity|]. split; [reflexivity|].
      split; [reflexivity|]. assert (17 < 2 ^ 27) by (vm_compute; reflexivity). lia. }
    apply (Hmain _ _ (set_scratch st1 _) R' HI' ltac:(eexists p', _; reflexivity) HT).
  - (* two or more *)
    set (cls := (s0, v0) :: c2 :: cls') in *.
    replace (Nat.ltb (length cls) 1) with false by (symmetry; apply Nat.ltb_ge; unfold cls; cbn [length]; lia).
    cbn [when]. rewrite mbind_ret, mbind_get. unfold m_dec_init.
    assert (Hsl : (2 <= length (sort_by_sym cls))%nat) by (rewrite sort_by_sym_length; unfold cls; cbn [length]; lia).
    assert (Hbs : forall s1 l1, In (s1, l1) (sort_by_sym cls) -> s1 < 2 ^ 27 /\ 1 <= l1 <= 15).
    { intros s1 l1 Hin. apply (proj1 (sort_by_sym_in _ _)) in Hin. destruct (Hb s1 l1 Hin).
      assert (17 < 2 ^ 27) by (vm_compute; reflexivity). split; lia. }
    assert (Hml : max_len (sort_by_sym cls) <= 5).
    { apply max_len_le15. intros s1 l1 Hin. apply (proj1 (sort_by_sym_in _ _)) in Hin. apply (Hb s1 l1 Hin). }
    assert (Hkp : kraft 5 (sort_by_sym cls) = kraft 5 cls)
      by (symmetry; apply kraft_perm, sort_by_sym_perm).
    destruct (sp =? 0) eqn:Esp.
    + apply N.eqb_eq in Esp. cbn [run].
      destruct (init_assign_ok (sort_by_sym cls) (dec_oldC (zr_scratch st1)) (dec_oldL (zr_scratch st1)) Hsl)
        as (d & cs & Ei & HT).
      * apply sort_by_sym_sorted. apply Hndn. exact Hnd.
      * exact Hbs.
      * apply (complete_of_kraft 5 _ Hml). rewrite Hkp. change (2 ^ 5) with 32. lia.
      * rewrite Ei. rewrite mbind_ret, mbind_modify.
        apply (Hmain d _ (set_scratch st1 d) R' HI' ltac:(eexists p', _; reflexivity)).
        apply (dec_treeP_weaken (fun s => In s (map fst (sort_by_sym cls)))); [|exact HT].
        intros s1 Hin. apply in_map_iff in Hin. destruct Hin as ([s2 l2] & <- & Hin).
        apply (proj1 (sort_by_sym_in _ _)) in Hin. apply (Hb s2 l2 Hin).
    + apply N.eqb_neq in Esp. cbn [run].
      rewrite init_assign_rejects; [|exact Hsl | |].
      * exists ECorrupted, st1. split; [reflexivity|]. split; [apply bframe_rd | right; reflexivity].
      * intros s1 l1 Hin. destruct (Hbs s1 l1 Hin). split; lia.
      * intros (_ & _ & Hcm). pose proof (kraft_of_complete 5 _ Hml Hcm) as Hkk.
        rewrite Hkp in Hkk. change (2 ^ 5) with 32 in Hkk. lia.
Qed.

(* ---- THEOREM (b): ReadPrefixCode ------------------------------------------------------------------------------ *)
(* For every input, position, decoder being overwritten (its storage is recycled) and alphabet
   size 2..1023 (brotli's alphabets have at most 704 symbols): if the RFC model reads a prefix
   code here, the Reader has read the same bits and built a decoder for exactly that code, all
   of whose symbols are below the alphabet size, changing nothing but rd and rd.prefix; if the
   RFC model rejects or runs out of input, the Reader reports UnexpectedEOF or Corrupted (no
   run-time panic, no exhausted budget), the output untouched. *)
Theorem read_prefix_code_refines tgt asize st R out : BInv' R (zr_rd st) -> 2 <= asize < 1024 ->
  match run (Brotli.Spec.read_prefix_code asize) (sast' R out) with
  | Done t s' =>
    exists st' R' d, Brotli.Impl.read_prefix_code bsz tgt asize st = SOk d st' /\ bframe st st' /\
                     s' = sast' R' out /\ BInv' R' (zr_rd st') /\ dec_treeP (fun s => s < asize) d t
  | Fail e s' =>
    a_out s' = out /\
    exists e' st', Brotli.Impl.read_prefix_code bsz tgt asize st = SErr e' st' /\ bframe st st' /\
                   (e' = EUEOF \/ e' = ECorrupted)
  end.
Proof.
  intros HI Ha.
  assert (Hout : forall e s', run (Brotli.Spec.read_prefix_code asize) (sast' R out) = Fail e s' -> a_out s' = out).
  { intros e s' E. pose proof (noput_run _ (noput_read_prefix_code asize) (sast' R out)) as [Ho _].
    rewrite E in Ho. exact Ho. }
  assert (Ha27 : asize < 2 ^ 27) by (assert (1024 < 2 ^ 27) by (vm_compute; reflexivity); lia).
  destruct (run (Brotli.Spec.read_prefix_code asize) (sast' R out)) as [t s'|e s'] eqn:Erun.
  - unfold Brotli.Spec.read_prefix_code, Brotli.Impl.read_prefix_code in *.
    revert Erun. bits_step HI 2 HI1 h p E Hv Hle; [|discriminate].
    set (st1 := set_rd st p).
    assert (HI1' : BInv' (R + N.to_nat 2) (zr_rd st1)) by exact HI1.
    destruct (h =? 1).
    + intros Erun. pose proof (read_simple_ok data Hd bsz Hbsz tgt asize st1 _ out HI1' ltac:(lia)) as Hs.
      rewrite Erun in Hs. destruct Hs as (p' & R' & d & Es & -> & HI' & HT).
      exists (set_rd st1 p'), R', d. split; [exact Es|]. split; [exists p', (zr_scratch st); reflexivity|].
      split; [reflexivity|]. split; [exact HI' | exact HT].
    + intros Erun. pose proof (read_complex_ok tgt asize h st1 _ out HI1' Ha) as Hs.
      rewrite Erun in Hs. destruct Hs as (st' & R' & d & Es & (p2 & sc2 & ->) & -> & HI' & HT).
      eexists _, R', d. split; [exact Es|]. split; [exists p2, sc2; reflexivity|].
      split; [reflexivity|]. split; [exact HI' | exact HT].
  - split; [apply (Hout e s' eq_refl)|].
    unfold Brotli.Spec.read_prefix_code, Brotli.Impl.read_prefix_code in *.
    revert Erun. bits_step HI 2 HI1 h p E Hv Hle.
    2:{ intros _. exists EUEOF, (set_rd st pf). split; [reflexivity|]. split; [apply bframe_rd | left; reflexivity]. }
    set (st1 := set_rd st p).
    assert (HI1' : BInv' (R + N.to_nat 2) (zr_rd st1)) by exact HI1.
    destruct (h =? 1).
    + intros Erun. pose proof (read_simple_ok data Hd bsz Hbsz tgt asize st1 _ out HI1' ltac:(lia)) as Hs.
      rewrite Erun in Hs. destruct Hs as (_ & e' & p' & Es & He).
      exists e', (set_rd st1 p'). split; [exact Es|]. split; [exists p', (zr_scratch st); reflexivity | exact He].
    + intros Erun. pose proof (read_complex_ok tgt asize h st1 _ out HI1' Ha) as Hs.
      rewrite Erun in Hs. destruct Hs as (e' & st' & Es & (p2 & sc2 & ->) & He).
      exists e'. eexists. split; [exact Es|]. split; [exists p2, sc2; reflexivity | exact He].
Qed.

End CodeX.

Print Assumptions read_prefix_code_refines.
