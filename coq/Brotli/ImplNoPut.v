(* Programs of the RFC decoder model that produce no output: their runs leave the output of
   the abstract machine alone, whether they succeed or fail. Used for everything that only
   parses (headers, prefix code definitions, context maps). *)
From V Require Import Base.Prelude Base.Prog Base.ProgThms Flate.Spec Brotli.Tables Brotli.Spec.

Local Open Scope N_scope.

Inductive noput {A} : prog A -> Prop :=
| np_ret a : noput (Ret a)
| np_throw e : noput (Throw e)
| np_bit k : (forall b, noput (k b)) -> noput (Bit k)
| np_align k : (forall v, noput (k v)) -> noput (AlignP k)
| np_iseof k : (forall b, noput (k b)) -> noput (IsEof k)
| np_pos k : (forall n, noput (k n)) -> noput (Pos k)
| np_hist k : (forall n, noput (k n)) -> noput (Hist k)
| np_histb d k : (forall b, noput (k b)) -> noput (HistB d k)
| np_yield k : noput k -> noput (Yield k).

Lemma noput_run {A} (p : prog A) : noput p ->
  forall s, a_out (res_state (run p s)) = a_out s /\ a_len (res_state (run p s)) = a_len s.
Proof.
  induction 1 as [a|e|k Hk IH|k Hk IH|k Hk IH|k Hk IH|k Hk IH|d k Hk IH|k Hk IH]; intros s; cbn [run].
  - split; reflexivity.
  - split; reflexivity.
  - destruct (a_in s) as [|b r]; [split; reflexivity|].
    match goal with |- context [run (k b) ?s1] => exact (IH b s1) end.
  - destruct (Nat.leb _ _); [|split; reflexivity].
    match goal with |- context [run (k ?v) ?s1] => exact (IH v s1) end.
  - apply IH.
  - apply IH.
  - apply IH.
  - apply IH.
  - apply IH.
Qed.

Lemma noput_bind {A B} (p : prog A) (f : A -> prog B) :
  noput p -> (forall a, noput (f a)) -> noput (bind p f).
Proof.
  intros Hp Hf. induction Hp; cbn [bind]; try (constructor; auto).
  - apply Hf.
Qed.

Lemma noput_assert c e : noput (assert_p c e).
Proof. unfold assert_p. destruct c; constructor. Qed.

Lemma noput_bits_lsbf n : noput (bits_lsbf n).
Proof.
  induction n as [|n IH]; cbn [bits_lsbf]; [constructor|].
  constructor. intros b. apply noput_bind; [exact IH|]. intros v. constructor.
Qed.

Lemma noput_rbits n : noput (rbits n).
Proof. apply noput_bits_lsbf. Qed.

Lemma noput_sym_tree t : noput (sym_tree t).
Proof.
  induction t as [| s | l IHl r IHr]; cbn [sym_tree]; try constructor.
  intros b. destruct b; assumption.
Qed.

Lemma noput_sym_or_corrupt t : noput (sym_or_corrupt t).
Proof.
  unfold sym_or_corrupt. apply noput_bind; [apply noput_sym_tree|]. intros [s|]; constructor.
Qed.

Lemma noput_iter2 {St R} d (body : St -> prog (St + R)) :
  (forall st, noput (body st)) -> forall st, noput (iter2 d body st).
Proof.
  intros Hb. induction d as [|d IH]; intros st; cbn [iter2]; [apply Hb|].
  apply noput_bind; [apply IH|]. intros [st1|x]; [apply IH | constructor].
Qed.

Lemma noput_loop {St R} d (body : St -> prog (St + R)) st :
  (forall st, noput (body st)) -> noput (loop d body st).
Proof.
  intros Hb. unfold loop. apply noput_bind; [apply noput_iter2; exact Hb|].
  intros [st1|x]; constructor.
Qed.

Ltac np := repeat first
  [ apply noput_rbits | apply noput_sym_or_corrupt | apply noput_assert
  | apply np_ret | apply np_throw
  | apply noput_bind; [|intros ?]
  | match goal with |- noput (if ?c then _ else _) => destruct c end
  | match goal with |- noput (match ?x with _ => _ end) => destruct x end ].

(* ---- the parsers of the brotli model -------------------------------------------------------- *)
Lemma noput_read_count : noput read_count.
Proof. unfold read_count. np. Qed.

Lemma noput_read_simple_syms n abits asize : noput (read_simple_syms n abits asize).
Proof. induction n as [|n IH]; cbn [read_simple_syms]; [constructor|]. np. exact IH. Qed.

Lemma noput_read_simple_code asize : noput (read_simple_code asize).
Proof.
  unfold read_simple_code. apply noput_bind; [np|]. intros nsym1.
  apply noput_bind; [apply noput_read_simple_syms|]. intros syms.
  apply noput_bind; [np|]. intros _.
  destruct syms as [|a [|b [|c [|d [|? ?]]]]]; np.
Qed.

Lemma noput_read_clcl order : forall space num acc, noput (read_clcl order space num acc).
Proof.
  induction order as [|s r IH]; intros space num acc; cbn [read_clcl]; [constructor|].
  apply noput_bind; [np|]. intros v. destruct (v =? 0); [apply IH|].
  destruct (_ <? _); [constructor|]. destruct (_ =? _); [constructor | apply IH].
Qed.

Lemma noput_clen_sym_body t asize s : noput (clen_sym_body t asize s).
Proof. unfold clen_sym_body. np. Qed.

Lemma noput_read_complex_code asize hskip : noput (read_complex_code asize hskip).
Proof.
  unfold read_complex_code. apply noput_bind; [apply noput_read_clcl|]. intros [[space num] cls].
  apply noput_bind.
  { destruct cls as [|[s l] [|c2 cls]]; np. }
  intros cltree. apply noput_bind; [apply noput_loop; intros st; apply noput_clen_sym_body|].
  intros fin. np.
Qed.

Lemma noput_read_prefix_code asize : noput (read_prefix_code asize).
Proof.
  unfold read_prefix_code. apply noput_bind; [np|]. intros h.
  destruct (h =? 1); [apply noput_read_simple_code | apply noput_read_complex_code].
Qed.
