(* What brotli's bitReader must do, stated on the abstract LSB-first bit stream of
   Prefix/ReaderSpec.v ([stream_bits false data], [bits_at]), and the refinement statement
   for its implementation-level model (Brotli/BitReaderImpl.v).

   The abstract state is one number: R, the bits consumed so far. An observation of the
   model carries the whole implementation state; the specification constrains
   - the value returned,
   - the number of bits read computed from the fields (8*offset + discardBits + fedBits -
     numBits on the bufio path, 8*offset - numBits on the ReadByte path) = R,
   - after FlushOffset: the offset field and the position of the source are exactly
     ceil(R/8) (no over-consumption), and on the bufio path also after a raw Read. *)
From V Require Import Base.Prelude Prefix.ReaderImpl Prefix.ReaderSpec Brotli.BitReaderImpl.

Local Open Scope N_scope.

Definition bstream (data : list byte) : list bool := stream_bits false data.

(* [bspec_obs data R o ob R']: [ob] is a correct outcome of operation [o] at abstract
   position R, leaving the position at R'. Freedoms: how many bytes a raw Read returns (at
   least one when any is left and k > 0), and whether TryReadBits succeeds (it may fail
   whenever it likes: it looks at the bit buffer only; it MUST fail beyond the end). *)
Inductive bspec_obs (data : list byte) : nat -> bop -> bobs -> nat -> Prop :=
| BSBits R nb p :
    (R + N.to_nat nb <= 8 * length data)%nat ->
    bits_read p = Z.of_nat (R + N.to_nat nb) ->
    bspec_obs data R (BBits nb) (VBits (bits_at (bstream data) R (N.to_nat nb)), p) (R + N.to_nat nb)
| BSTryNo R nb p :
    bits_read p = Z.of_nat R ->
    bspec_obs data R (BTry nb) (VTry None, p) R
| BSTry R nb p :
    (R + N.to_nat nb <= 8 * length data)%nat ->
    bits_read p = Z.of_nat (R + N.to_nat nb) ->
    bspec_obs data R (BTry nb) (VTry (Some (bits_at (bstream data) R (N.to_nat nb))), p) (R + N.to_nat nb)
| BSFeed R nb p :
    (R + N.to_nat nb <= 8 * length data)%nat ->
    bits_read p = Z.of_nat R -> nb <= p_numBits p ->
    bspec_obs data R (BFeed nb) (VFeed, p) R
| BSPads R p :
    let n := ((8 - R mod 8) mod 8)%nat in
    bits_read p = Z.of_nat (R + n) ->
    bspec_obs data R BPads (VPads (bits_at (bstream data) R n), p) (R + n)
| BSRawUnaligned R k p :
    (R mod 8 <> 0)%nat ->
    bits_read p = Z.of_nat R ->
    bspec_obs data R (BRaw k) (VRaw [] 2, p) R
| BSRaw R k bs e p :
    (R mod 8 = 0)%nat ->
    (length bs <= k)%nat ->
    bs = firstn (length bs) (skipn (R / 8) data) ->
    (e = 1 -> bs = [] /\ (length data <= R / 8)%nat) ->
    (e = 0 -> bs = [] -> k = O) ->
    (e = 0 \/ e = 1) ->
    (k <> O -> (length data <= R / 8)%nat -> e = 1) ->
    bits_read p = Z.of_nat (R + 8 * length bs) ->
    bspec_obs data R (BRaw k) (VRaw bs e, p) (R + 8 * length bs)
| BSFlush R p :
    (* after FlushOffset the source has been advanced over exactly the bytes that hold the
       bits read: no over-consumption *)
    bits_read p = Z.of_nat R ->
    p_offset p = Z.of_nat ((R + 7) / 8) ->
    s_pos (p_src p) = ((R + 7) / 8)%nat ->
    bspec_obs data R BFlush (VFlush (Z.of_nat ((R + 7) / 8)), p) R.

(* a history; it ends at the first panic, which must be an io.ErrUnexpectedEOF of a
   ReadBits / FeedBits that asks for more bits than the stream has left: a run-time panic
   (VCrash) or an exhausted loop budget (VFuel) never satisfy the specification *)
Inductive bspec_run (data : list byte) : nat -> list bop -> list bobs -> Prop :=
| BRnil R : bspec_run data R [] []
| BRstopBits R nb p rest :
    (8 * length data < R + N.to_nat nb)%nat ->
    bspec_run data R (BBits nb :: rest) [(VEof, p)]
| BRstopFeed R nb p rest :
    (8 * length data < R + N.to_nat nb)%nat ->
    bspec_run data R (BFeed nb :: rest) [(VEof, p)]
| BRcons R o ob R' ops obs :
    bspec_obs data R o ob R' ->
    bval_stops (o_val ob) = false ->
    bspec_run data R' ops obs ->
    bspec_run data R (o :: ops) (ob :: obs).

(* bit fields of at most 57 bits (the most FeedBits guarantees on the bufio path: the loop
   stops as soon as numBits > 56, and ReadBits then subtracts nb from numBits unchecked) *)
Definition bops_ok (ops : list bop) : Prop :=
  Forall (fun o => match o with BBits nb | BFeed nb => nb <= 57 | _ => True end) ops.

(* THE STATEMENT: for every data, every script of the underlying reader, every size of the
   bufio buffer that bufio allows, and every operation sequence, the model behaves as the
   abstract bit stream says, on both source paths. *)
Definition bitreader_refines_bufio : Prop :=
  forall data bsz reads ops,
    (forall b, In b data -> b < 256) -> (16 <= bsz)%nat -> bops_ok ops ->
    bspec_run data 0 ops (brun bsz (binit data true reads) ops).

(* On the ReadByte path an explicit FeedBits(nb) consumes whole bytes from the source that no
   later operation can give back (ReadByte cannot be undone), so "no over-consumption" is
   claimed there for histories without explicit FeedBits only. ([bsz] is not used on this
   path.) *)
Definition nofeed (ops : list bop) : Prop :=
  Forall (fun o => match o with BFeed _ => False | _ => True end) ops.

Definition bitreader_refines_bytereader : Prop :=
  forall data bsz reads ops,
    (forall b, In b data -> b < 256) -> (16 <= bsz)%nat -> bops_ok ops -> nofeed ops ->
    bspec_run data 0 ops (brun bsz (binit data false reads) ops).

(* ---- the same as a decision procedure (used to test the statement on recorded runs) ---- *)
Definition bcheck_obs (data : list byte) (R : nat) (o : bop) (ob : bobs) : option nat :=
  let '(v, p) := ob in
  let br := bits_read p in
  match o, v with
  | BBits nb, VBits x =>
    if Nat.leb (R + N.to_nat nb) (8 * length data)
       && (x =? bits_at (bstream data) R (N.to_nat nb))
       && (br =? Z.of_nat (R + N.to_nat nb))%Z
    then Some (R + N.to_nat nb)%nat else None
  | BTry nb, VTry None => if (br =? Z.of_nat R)%Z then Some R else None
  | BTry nb, VTry (Some x) =>
    if Nat.leb (R + N.to_nat nb) (8 * length data)
       && (x =? bits_at (bstream data) R (N.to_nat nb))
       && (br =? Z.of_nat (R + N.to_nat nb))%Z
    then Some (R + N.to_nat nb)%nat else None
  | BFeed nb, VFeed =>
    if Nat.leb (R + N.to_nat nb) (8 * length data) && (br =? Z.of_nat R)%Z && (nb <=? p_numBits p)
    then Some R else None
  | BPads, VPads x =>
    let n := ((8 - R mod 8) mod 8)%nat in
    if (x =? bits_at (bstream data) R n) && (br =? Z.of_nat (R + n))%Z then Some (R + n)%nat else None
  | BRaw k, VRaw bs e =>
    if negb (Nat.eqb (R mod 8) 0) then
      if (Nat.eqb (length bs) 0) && (e =? 2) && (br =? Z.of_nat R)%Z then Some R else None
    else
      let exhausted := Nat.leb (length data) (R / 8) in
      if Nat.leb (length bs) k
         && list_eqbN bs (firstn (length bs) (skipn (R / 8) data))
         && (br =? Z.of_nat (R + 8 * length bs))%Z
         && ((e =? 0) || (e =? 1))
         && (negb (e =? 1) || (Nat.eqb (length bs) 0 && exhausted))
         && (negb (e =? 0) || negb (Nat.eqb (length bs) 0) || Nat.eqb k 0)
         && (Nat.eqb k 0 || negb exhausted || (e =? 1))
      then Some (R + 8 * length bs)%nat else None
  | BFlush, VFlush off =>
    if (off =? Z.of_nat ((R + 7) / 8))%Z && (br =? Z.of_nat R)%Z
       && (p_offset p =? Z.of_nat ((R + 7) / 8))%Z && Nat.eqb (s_pos (p_src p)) ((R + 7) / 8)
    then Some R else None
  | _, _ => None
  end.

Fixpoint bcheck_run (data : list byte) (R : nat) (ops : list bop) (obs : list bobs) : bool :=
  match ops, obs with
  | [], [] => true
  | BBits nb :: _, [(VEof, _)] => Nat.ltb (8 * length data) (R + N.to_nat nb)
  | BFeed nb :: _, [(VEof, _)] => Nat.ltb (8 * length data) (R + N.to_nat nb)
  | o :: ops', ob :: obs' =>
    if bval_stops (o_val ob) then false else
    match bcheck_obs data R o ob with
    | Some R' => bcheck_run data R' ops' obs'
    | None => false
    end
  | _, _ => false
  end.

Definition bcheck_model (data : list byte) (buffered : bool) (bsz : nat) (reads : list nat)
                        (ops : list bop) : bool :=
  bcheck_run data 0 ops (brun bsz (binit data buffered reads) ops).
