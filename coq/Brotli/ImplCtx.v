(* Layer (c) of the refinement of brotli.Reader to RFC 7932: context maps (readContextMap with
   its run lengths and the inverse move-to-front transform of internal.MoveToFront, whose
   state persists in the Reader), block types and counts (the blockDecoder fields, the
   typeLen = -1 convention, readBlockSwitch), and the whole of readPrefixCodes against the part
   of compressed_metablock before the command loop. *)
From V Require Import Base.Prelude Base.Prog Base.ProgThms Base.FuelThms Base.DepthThms
  Flate.Spec Flate.Canon Bzip2.Common Prefix.Code
  Prefix.ReaderImpl Prefix.ReaderSpec Prefix.ReaderThms
  Prefix.DecTable Prefix.DecTableSpec Prefix.DecTableThms
  Brotli.BitReaderImpl Brotli.BitReaderSpec Brotli.BitReaderThms
  Brotli.PrefixDecoderImpl
  Brotli.Tables Brotli.Spec Brotli.Fuel
  Brotli.Impl Brotli.ImplBits Brotli.ImplSym Brotli.ImplFixed Brotli.ImplHdr Brotli.ImplNoPut
  Brotli.ImplCode Brotli.ImplCodeX.
From Coq Require Import ZifyBool ZifyN ZifyNat.

Local Open Scope N_scope.
Local Ltac Zify.zify_post_hook ::= idtac.

(* ---- internal.MoveToFront.Decode ------------------------------------------------------------------- *)
Lemma identity_lut_eq : identity_lut = map N.of_nat (seq 0 256).
Proof. vm_compute. reflexivity. Qed.

(* the state of the move-to-front decoder between calls: the entries from 256 - tail on are
   still the identity *)
Definition MtfInv (dict : list N) (tail : Z) : Prop :=
  (0 <= tail <= 256)%Z /\ length dict = 256%nat /\
  skipn (Z.to_nat (256 - tail)) dict = skipn (Z.to_nat (256 - tail)) identity_lut.

Lemma mtf_inv_fresh : MtfInv (repeat 0 256) 0.
Proof.
  split; [lia|]. split; [apply repeat_length|].
  change (Z.to_nat (256 - 0)) with 256%nat.
  rewrite !skipn_all2; [reflexivity | vm_compute; lia | rewrite repeat_length; lia].
Qed.

Lemma lor_lt_256 a b : a < 256 -> b < 256 -> N.lor a b < 256.
Proof.
  intros Ha Hb. change 256 with (2 ^ 8). destruct (N.eq_dec (N.lor a b) 0) as [E|E]; [rewrite E; reflexivity|].
  apply N.log2_lt_pow2; [lia|]. rewrite N.log2_lor.
  assert (N.log2 a < 8) by (destruct (N.eq_dec a 0) as [->|?]; [cbn; lia | apply N.log2_lt_pow2; lia]).
  assert (N.log2 b < 8) by (destruct (N.eq_dec b 0) as [->|?]; [cbn; lia | apply N.log2_lt_pow2; lia]).
  lia.
Qed.

Lemma lor_ge_l a b : a <= N.lor a b.
Proof.
  destruct (N.eq_dec a 0) as [->|Ha]; [lia|].
  apply N.ldiff_le. apply N.bits_inj. intros i. rewrite N.ldiff_spec, N.lor_spec, N.bits_0.
  destruct (N.testbit a i); reflexivity.
Qed.
Lemma lor_ge_r a b : b <= N.lor a b.
Proof. rewrite N.lor_comm. apply lor_ge_l. Qed.

(* moving the entry at position i to the front leaves the entries after i alone *)
Lemma mtf_move_length (dict : list N) i : (i < length dict)%nat ->
  length (nth i dict 0 :: firstn i dict ++ skipn (S i) dict) = length dict.
Proof.
  intros H. cbn [length]. rewrite app_length, firstn_length, skipn_length. lia.
Qed.

Lemma mtf_move_tail (dict : list N) i j : (i < length dict)%nat -> (i < j)%nat ->
  skipn j (nth i dict 0 :: firstn i dict ++ skipn (S i) dict) = skipn j dict.
Proof.
  intros Hi Hj. destruct j as [|j]; [lia|]. rewrite skipn_cons.
  rewrite skipn_app, firstn_length.
  replace (j - Nat.min i (length dict))%nat with (j - i)%nat by lia.
  rewrite (skipn_all2 (firstn i dict)) by (rewrite firstn_length; lia). cbn [app].
  rewrite skipn_skipn'. f_equal. lia.
Qed.

Lemma mtf_loop_ok : forall idxs dict mx acc, Forall (fun x => x < 256) idxs -> length dict = 256%nat ->
  mx < 256 ->
  exists dict' mx', mtf_loop dict idxs mx acc = (dict', mx', rev acc ++ imtf dict idxs) /\
    length dict' = 256%nat /\ mx <= mx' < 256 /\
    skipn (N.to_nat mx' + 1) dict' = skipn (N.to_nat mx' + 1) dict.
Proof.
  induction idxs as [|idx r IH]; intros dict mx acc Hall Hlen Hmx.
  - exists dict, mx. cbn [mtf_loop imtf]. rewrite fast_rev_eq, app_nil_r.
    split; [reflexivity|]. split; [exact Hlen|]. split; [lia | reflexivity].
  - inversion Hall as [|? ? Hi Hr]; subst. cbn [mtf_loop imtf].
    set (i := N.to_nat idx). set (v := nth i dict 0).
    set (dict1 := v :: firstn i dict ++ skipn (S i) dict).
    assert (Hil : (i < length dict)%nat) by (unfold i; lia).
    assert (Hl1 : length dict1 = 256%nat) by (unfold dict1, v; rewrite mtf_move_length; assumption).
    destruct (IH dict1 (N.lor mx idx) (v :: acc) Hr Hl1 (lor_lt_256 _ _ Hmx Hi))
      as (dict' & mx' & E & Hl' & Hm' & Hs').
    exists dict', mx'. rewrite E. cbn [rev]. rewrite <- app_assoc. cbn [app].
    split; [reflexivity|]. split; [exact Hl'|].
    pose proof (lor_ge_l mx idx). pose proof (lor_ge_r mx idx).
    split; [lia|]. rewrite Hs'. unfold dict1, v. apply mtf_move_tail; [exact Hil | unfold i; lia].
Qed.

Lemma mtf_decode_ok dict tail cm : MtfInv dict tail -> Forall (fun x => x < 256) cm ->
  exists d' t', mtf_decode dict tail cm = Some (d', t', inverse_mtf cm) /\ MtfInv d' t'.
Proof.
  intros ((Ht1 & Ht2) & Hlen & Hid) Hall. unfold mtf_decode.
  replace ((0 <=? 256 - tail)%Z && (256 - tail <=? 256)%Z) with true
    by (symmetry; apply andb_true_iff; split; apply Z.leb_le; lia).
  set (k := Z.to_nat (256 - tail)) in *.
  assert (Hd0 : firstn k identity_lut ++ skipn k dict = identity_lut).
  { rewrite Hid. apply firstn_skipn. }
  rewrite Hd0.
  destruct (mtf_loop_ok cm identity_lut 0 [] Hall ltac:(vm_compute; reflexivity) ltac:(lia))
    as (d' & mx' & E & Hl' & Hm' & Hs').
  rewrite E. cbn [rev app]. exists d', (256 - Z.of_N mx' - 1)%Z.
  unfold inverse_mtf. rewrite <- identity_lut_eq. split; [reflexivity|].
  split; [lia|]. split; [exact Hl'|].
  replace (Z.to_nat (256 - (256 - Z.of_N mx' - 1))) with (N.to_nat mx' + 1)%nat by lia.
  exact Hs'.
Qed.

(* indices below k only ever bring values below k to the front *)
Lemma imtf_bound (k : nat) : forall idxs dict,
  Forall (fun x => x < N.of_nat k) idxs -> (k <= length dict)%nat ->
  Forall (fun v => v < N.of_nat k) (firstn k dict) ->
  Forall (fun v => v < N.of_nat k) (imtf dict idxs).
Proof.
  induction idxs as [|idx r IH]; intros dict Hall Hlen Hpre; cbn [imtf]; [constructor|].
  inversion Hall as [|? ? Hi Hr]; subst.
  set (i := N.to_nat idx). assert (Hik : (i < k)%nat) by (unfold i; lia).
  assert (Hv : nth i dict 0 < N.of_nat k).
  { rewrite Forall_forall in Hpre. apply Hpre.
    assert (En : nth i (firstn k dict) 0 = nth i dict 0).
    { rewrite nth_firstn'. replace (Nat.ltb i k) with true by (symmetry; apply Nat.ltb_lt; exact Hik). reflexivity. }
    rewrite <- En. apply nth_In. rewrite firstn_length. lia. }
  constructor; [exact Hv|].
  apply IH; [exact Hr | cbn [length]; rewrite app_length, firstn_length, skipn_length; lia|].
  (* the first k entries of the new list are entries of the first k of the old one *)
  apply Forall_forall. intros v Hin.
  assert (Hsub : forall v, In v (firstn k (nth i dict 0 :: firstn i dict ++ skipn (S i) dict)) ->
                           In v (firstn k dict)).
  { clear -Hik Hlen. intros v Hin. destruct k as [|k]; [lia|]. cbn [firstn] in Hin.
    destruct Hin as [<-|Hin].
    - assert (En : nth i (firstn (S k) dict) 0 = nth i dict 0).
      { rewrite nth_firstn'. replace (Nat.ltb i (S k)) with true by (symmetry; apply Nat.ltb_lt; exact Hik). reflexivity. }
      rewrite <- En. apply nth_In. rewrite firstn_length. lia.
    - rewrite firstn_app, firstn_length in Hin. apply in_app_or in Hin. destruct Hin as [Hin|Hin].
      + apply In_firstn' in Hin. rewrite <- (firstn_skipn i (firstn (S k) dict)).
        apply in_or_app. left. rewrite firstn_firstn. replace (Nat.min i (S k)) with i by lia. exact Hin.
      + replace (k - Nat.min i (length dict))%nat with (k - i)%nat in Hin by lia.
        rewrite <- (firstn_skipn (S i) (firstn (S k) dict)). apply in_or_app. right.
        rewrite skipn_firstn_comm. replace (S k - S i)%nat with (k - i)%nat by lia. exact Hin. }
  rewrite Forall_forall in Hpre. apply Hpre, Hsub, Hin.
Qed.

Lemma identity_firstn_bound k : (k <= 256)%nat -> Forall (fun v => v < N.of_nat k) (firstn k identity_lut).
Proof.
  intros Hk. apply Forall_forall. intros v Hin. apply (In_nth _ _ 0) in Hin. destruct Hin as (j & Hj & <-).
  rewrite firstn_length in Hj.
  assert (Hl : length identity_lut = 256%nat) by (vm_compute; reflexivity).
  rewrite nth_firstn'. replace (Nat.ltb j k) with true by (symmetry; apply Nat.ltb_lt; lia).
  rewrite identity_lut_eq. change 0 with (N.of_nat 0). rewrite map_nth, seq_nth by lia. lia.
Qed.

Lemma inverse_mtf_bound k cm : 1 <= k <= 256 -> Forall (fun x => x < k) cm ->
  Forall (fun x => x < k) (inverse_mtf cm).
Proof.
  intros Hk Hall. unfold inverse_mtf. rewrite <- identity_lut_eq.
  replace k with (N.of_nat (N.to_nat k)) by lia.
  apply imtf_bound.
  - eapply Forall_impl; [|exact Hall]. intros a Ha. cbn beta in *. lia.
  - assert (length identity_lut = 256%nat) by (vm_compute; reflexivity). lia.
  - apply identity_firstn_bound. lia.
Qed.

(* ---- readContextMap --------------------------------------------------------------------------------------- *)
Lemma rle_range_at sym : 1 <= sym <= 16 -> range_at rle_ranges (sym - 1) = Some (2 ^ sym, sym).
Proof.
  intros H.
  assert (Hc : sym = 1 \/ sym = 2 \/ sym = 3 \/ sym = 4 \/ sym = 5 \/ sym = 6 \/ sym = 7 \/ sym = 8 \/
               sym = 9 \/ sym = 10 \/ sym = 11 \/ sym = 12 \/ sym = 13 \/ sym = 14 \/ sym = 15 \/ sym = 16) by lia.
  repeat (destruct Hc as [Hc|Hc]; [subst sym; reflexivity|]). subst sym. reflexivity.
Qed.

Lemma repeat_acc_eq {A} n (x : A) acc : repeat_acc n x acc = repeat x n ++ acc.
Proof.
  revert acc; induction n as [|n IH]; intros acc; cbn [repeat_acc repeat app]; [reflexivity|].
  rewrite IH. change (x :: repeat x n ++ acc) with ((x :: repeat x n) ++ acc).
  rewrite repeat_cons, <- app_assoc. reflexivity.
Qed.

Section Ctx.
Variable data : list byte.
Hypothesis Hd : forall b, In b data -> b < 256.
Variable bsz : nat.
Hypothesis Hbsz : (16 <= bsz)%nat.

Notation BInv' := (BInv data).
Notation sast' := (sast data).

Ltac bits_core HI nb Hnew v p1 E Hv Hle :=
  match goal with
  | |- context [run (rbits nb) (sast data ?R0 ?o)] =>
    match goal with
    | |- context [mbind (m_read_bits bsz nb) _ ?st] =>
      let Hx := fresh "Hx" in
      pose proof (m_read_bits_ok data Hd bsz Hbsz st R0 o nb HI ltac:(lia)) as Hx;
      let s1 := fresh "s1" in let e := fresh "e" in
      destruct (run (rbits nb) (sast data R0 o)) as [v s1|e s1];
      [ destruct Hx as (p1 & E & -> & Hnew & Hv & Hle); rewrite (mbind_ok _ _ _ _ _ E); cbv beta
      | let He := fresh "He" in
        destruct Hx as (He & Ho & pf & Ef); rewrite (mbind_err _ _ _ _ _ Ef); subst e ]
    end
  end.
Ltac bits_step HI nb Hnew v p1 E Hv Hle := rewrite run_bind; bits_core HI nb Hnew v p1 E Hv Hle.

Lemma cmap_loop_ok tree d rlemax ntrees len out :
  dec_treeP (fun s => s < ntrees + rlemax) d tree -> rlemax <= 16 -> 1 <= ntrees <= 256 ->
  forall st0 a res, loops (cmap_body tree rlemax) st0 a res ->
  forall st R fuel i, a = sast' R out -> zr_scratch st = d -> fst st0 = len - i -> i <= len ->
    BInv' R (zr_rd st) -> (N.to_nat (len - i) < fuel)%nat -> Forall (fun x => x < ntrees) (snd st0) ->
    match res with
    | Done cm a' =>
      exists p' R', cmap_loop bsz fuel len rlemax i (snd st0) st = SOk cm (set_rd st p') /\
                    a' = sast' R' out /\ BInv' R' p' /\ Forall (fun x => x < ntrees) cm /\
                    length cm = (length (snd st0) + N.to_nat (len - i))%nat
    | Fail e a' =>
      exists p', cmap_loop bsz fuel len rlemax i (snd st0) st = SErr e (set_rd st p') /\
                 (e = EUEOF \/ e = ECorrupted)
    end.
Proof.
  intros HT Hr Hn.
  assert (Hset : forall st, st = set_rd st (zr_rd st)) by (intros st; destruct st; reflexivity).
  induction 1 as [[todo acc] a e a' E|[todo acc] a cm a' E|[todo acc] a [todo1 acc1] a1 r E Hl IH];
    intros st R fuel i -> Hsc Htodo Hi HI Hf Hacc; cbn [fst snd] in *.
  - (* the body fails *)
    unfold cmap_body in E. destruct (todo =? 0) eqn:E0; [cbn [run] in E; discriminate|].
    apply N.eqb_neq in E0. destruct fuel as [|f]; [lia|]. cbn [cmap_loop].
    replace (i <? len) with true by (symmetry; apply N.ltb_lt; lia).
    rewrite mbind_get, Hsc. rewrite run_bind in E.
    pose proof (m_read_symbol_tree data Hd bsz Hbsz _ st R out d tree HT HI) as Hs.
    destruct (run (sym_or_corrupt tree) (sast' R out)) as [sym s1|e1 s1].
    2:{ inversion E; subst. destruct Hs as (-> & _ & p' & Es). rewrite (mbind_err _ _ _ _ _ Es).
        exists p'. split; [reflexivity | left; reflexivity]. }
    destruct Hs as (p' & R1 & Es & -> & HI1 & Hsym). rewrite (mbind_ok _ _ _ _ _ Es). cbv beta.
    destruct (sym =? 0) eqn:Es0; [cbn [run] in E; discriminate|]. apply N.eqb_neq in Es0.
    cbn [orb]. destruct (sym <=? rlemax) eqn:Ele; [|cbn [run] in E; discriminate].
    apply N.leb_le in Ele. replace (rlemax <? sym) with false by (symmetry; apply N.ltb_ge; exact Ele).
    unfold m_read_offset. rewrite (rle_range_at sym ltac:(lia)).
    set (st1 := set_rd st p'). assert (HI1' : BInv' R1 (zr_rd st1)) by exact HI1.
    revert E. rewrite mbind_assoc. bits_step HI1' sym HI2 x p2 E2 Hvx Hle2.
    2:{ intros E. inversion E; subst. exists pf. split; [reflexivity | left; reflexivity]. }
    clear Hvx. rewrite mbind_ret. cbv zeta. rewrite run_bind.
    destruct (2 ^ sym + x <=? todo) eqn:Efit; [cbn [assert_p run]; discriminate|].
    apply N.leb_gt in Efit. cbn [assert_p run]. intros E. inversion E; subst.
    replace (len <? i + (2 ^ sym + x)) with true by (symmetry; apply N.ltb_lt; lia).
    exists p2. split; [reflexivity | right; reflexivity].
  - (* the loop ends *)
    unfold cmap_body in E. destruct (todo =? 0) eqn:E0.
    + apply N.eqb_eq in E0. cbn [run] in E. inversion E; subst.
      assert (Hil : i = len) by lia. subst i.
      exists (zr_rd st), R. rewrite <- Hset.
      replace (cmap_loop bsz fuel len rlemax len acc st) with (SOk (fast_rev acc) st)
        by (destruct fuel; cbn [cmap_loop]; rewrite N.ltb_irrefl; reflexivity).
      split; [reflexivity|]. split; [reflexivity|]. split; [exact HI|].
      rewrite fast_rev_eq. split; [apply Forall_rev; exact Hacc | rewrite rev_length; lia].
    + exfalso. rewrite run_bind in E.
      destruct (run (sym_or_corrupt tree) (sast' R out)) as [sym s1|e1 s1]; [|discriminate].
      destruct (sym =? 0); [cbn [run] in E; discriminate|].
      destruct (sym <=? rlemax); [|cbn [run] in E; discriminate].
      rewrite run_bind in E. destruct (run (rbits sym) s1) as [x s2|e2 s2]; [|discriminate].
      cbv zeta in E. rewrite run_bind in E. destruct (2 ^ sym + x <=? todo); cbn [assert_p run] in E; discriminate.
  - (* one more pass *)
    unfold cmap_body in E. destruct (todo =? 0) eqn:E0; [cbn [run] in E; discriminate|].
    apply N.eqb_neq in E0. destruct fuel as [|f]; [lia|]. cbn [cmap_loop].
    replace (i <? len) with true by (symmetry; apply N.ltb_lt; lia).
    rewrite mbind_get, Hsc. rewrite run_bind in E.
    pose proof (m_read_symbol_tree data Hd bsz Hbsz _ st R out d tree HT HI) as Hs.
    destruct (run (sym_or_corrupt tree) (sast' R out)) as [sym s1|e1 s1]; [|discriminate].
    destruct Hs as (p' & R1 & Es & -> & HI1 & Hsym). rewrite (mbind_ok _ _ _ _ _ Es). cbv beta.
    set (st1 := set_rd st p'). assert (HI1' : BInv' R1 (zr_rd st1)) by exact HI1.
    destruct (sym =? 0) eqn:Es0.
    + cbn [run] in E. injection E as E_1 E_2 E_3; subst todo1 acc1 a1. cbn [orb]. apply N.eqb_eq in Es0. subst sym.
      cbn [N.ltb N.compare]. 
      specialize (IH st1 R1 f (i + 1) eq_refl Hsc ltac:(lia) ltac:(lia) HI1' ltac:(lia)
                     ltac:(constructor; [lia | exact Hacc])).
      change (0 mod 256) with 0.
      destruct r as [cm a'|e a'].
      * destruct IH as (p2 & R2 & El & -> & HI2 & Hall & Hlen). exists p2, R2.
        split; [exact El|]. split; [reflexivity|]. split; [exact HI2|]. split; [exact Hall|].
        rewrite Hlen. cbn [length]. lia.
      * destruct IH as (p2 & El & He). exists p2. split; [exact El | exact He].
    + apply N.eqb_neq in Es0. cbn [orb]. destruct (sym <=? rlemax) eqn:Ele.
      * apply N.leb_le in Ele. replace (rlemax <? sym) with false by (symmetry; apply N.ltb_ge; exact Ele).
        unfold m_read_offset. rewrite (rle_range_at sym ltac:(lia)).
        revert E. rewrite mbind_assoc. bits_step HI1' sym HI2 x p2 E2 Hvx Hle2; [|discriminate].
        clear Hvx. rewrite mbind_ret. cbv zeta. rewrite run_bind.
        destruct (2 ^ sym + x <=? todo) eqn:Efit; [|cbn [assert_p run]; discriminate].
        apply N.leb_le in Efit. cbn [assert_p run]. intros E. injection E as E_1 E_2 E_3; subst todo1 acc1 a1.
        replace (len <? i + (2 ^ sym + x)) with false by (symmetry; apply N.ltb_ge; lia).
        rewrite repeat_acc_eq.
        pose proof (N.pow_nonzero 2 sym ltac:(lia)) as Hpz.
        specialize (IH (set_rd st1 p2) (R1 + N.to_nat sym)%nat f (i + (2 ^ sym + x)) eq_refl Hsc
                       ltac:(lia) ltac:(lia) HI2 ltac:(lia)).
        destruct r as [cm a'|e a'].
        -- destruct IH as (p3 & R3 & El & -> & HI3 & Hall & Hlen).
           { apply Forall_app. split; [|exact Hacc]. apply Forall_forall. intros y Hy.
             apply repeat_spec in Hy. subst. lia. }
           exists p3, R3. split; [exact El|]. split; [reflexivity|]. split; [exact HI3|]. split; [exact Hall|].
           rewrite Hlen, app_length, repeat_length. lia.
        -- destruct IH as (p3 & El & He).
           { apply Forall_app. split; [|exact Hacc]. apply Forall_forall. intros y Hy.
             apply repeat_spec in Hy. subst. lia. }
           exists p3. split; [exact El | exact He].
      * apply N.leb_gt in Ele. cbn [run] in E. injection E as E_1 E_2 E_3; subst todo1 acc1 a1.
        replace (rlemax <? sym) with true by (symmetry; apply N.ltb_lt; exact Ele).
        replace (0 <? sym) with true by (symmetry; apply N.ltb_lt; lia).
        cbv beta in Hsym. rewrite (N.mod_small (sym - rlemax) 256) by lia.
        specialize (IH st1 R1 f (i + 1) eq_refl Hsc ltac:(lia) ltac:(lia) HI1' ltac:(lia)
                       ltac:(constructor; [lia | exact Hacc])).
        destruct r as [cm a'|e a'].
        -- destruct IH as (p2 & R2 & El & -> & HI2 & Hall & Hlen). exists p2, R2.
           split; [exact El|]. split; [reflexivity|]. split; [exact HI2|]. split; [exact Hall|].
           rewrite Hlen. cbn [length]. lia.
        -- destruct IH as (p2 & El & He). exists p2. split; [exact El | exact He].
Qed.

(* what readContextMap may change of the Reader: rd, rd.prefix, the move-to-front state *)
Definition cframe (st st' : rst) : Prop :=
  exists p sc m t, st' = set_mtf (set_rd (set_scratch st sc) p) m t.

Lemma bframe_cframe st st' : bframe st st' -> cframe st st'.
Proof. intros (p & sc & ->). exists p, sc, (zr_mtf st), (zr_mtfTail st). reflexivity. Qed.

Lemma cframe_trans st st1 st2 : cframe st st1 -> cframe st1 st2 -> cframe st st2.
Proof.
  intros (p1 & sc1 & m1 & t1 & ->) (p2 & sc2 & m2 & t2 & ->). exists p2, sc2, m2, t2. reflexivity.
Qed.

Lemma cframe_refl st : cframe st st.
Proof. exists (zr_rd st), (zr_scratch st), (zr_mtf st), (zr_mtfTail st). destruct st; reflexivity. Qed.

(* THEOREM (c1): readContextMap *)
Theorem read_context_map_refines st R out size ntrees : BInv' R (zr_rd st) ->
  MtfInv (zr_mtf st) (zr_mtfTail st) -> 2 <= ntrees <= 256 ->
  match run (Brotli.Spec.read_context_map size ntrees) (sast' R out) with
  | Done cm s' =>
    exists st' R', Brotli.Impl.read_context_map bsz size ntrees st = SOk cm st' /\ cframe st st' /\
                   s' = sast' R' out /\ BInv' R' (zr_rd st') /\
                   MtfInv (zr_mtf st') (zr_mtfTail st') /\
                   length cm = N.to_nat size /\ Forall (fun x => x < ntrees) cm
  | Fail e s' =>
    exists e' st', Brotli.Impl.read_context_map bsz size ntrees st = SErr e' st' /\ cframe st st' /\
                   (e' = EUEOF \/ e' = ECorrupted)
  end.
Proof.
  intros HI HM Hn. unfold Brotli.Spec.read_context_map, Brotli.Impl.read_context_map.
  (* RLEMAX: the two fields of the RFC model are one symbol of decMaxRLE *)
  assert (Erle : forall (k : N -> prog (list N)) s,
            run (b <- rbits 1 ;; rlemax <- (if b =? 0 then Ret 0 else x <- rbits 4 ;; Ret (x + 1)) ;; k rlemax) s =
            run (rlemax <- sym_or_corrupt maxrle_tree ;; k rlemax) s).
  { intros k s. rewrite (run_bind (sym_or_corrupt maxrle_tree)), <- rlemax_eq. unfold rlemax_prog.
    rewrite !run_bind. destruct (run (rbits 1) s) as [b s1|e s1]; [|reflexivity].
    destruct (b =? 0); [reflexivity|]. rewrite !run_bind. destruct (run (rbits 4) s1); reflexivity. }
  rewrite Erle. rewrite run_bind.
  pose proof (m_read_symbol_ok data Hd bsz Hbsz decMaxRLE codeMaxRLE decMaxRLE_codes maxrle_tree
                maxrle_tree_codes maxrle_zero_min st R out HI) as Hs.
  destruct (run (sym_or_corrupt maxrle_tree) (sast' R out)) as [rlemax s1|e s1].
  2:{ destruct Hs as (-> & _ & p' & E). rewrite (mbind_err _ _ _ _ _ E).
      exists EUEOF, (set_rd st p'). split; [reflexivity|]. split; [apply bframe_cframe, bframe_rd | left; reflexivity]. }
  destruct Hs as (p' & n & E & -> & HI1 & c & Hc & -> & _). rewrite (mbind_ok _ _ _ _ _ E). cbv beta.
  assert (Hr16 : c_sym c <= 16).
  { clear -Hc. vm_compute in Hc. repeat (destruct Hc as [<-|Hc]; [vm_compute; discriminate|]). destruct Hc. }
  set (rlemax := c_sym c) in *.
  set (st1 := set_rd st p'). assert (HI1' : BInv' (R + n) (zr_rd st1)) by exact HI1.
  (* the prefix code *)
  rewrite run_bind.
  pose proof (read_prefix_code_refines data Hd bsz Hbsz None (rlemax + ntrees) st1 _ out HI1' ltac:(lia)) as Hp.
  rewrite (N.add_comm ntrees rlemax).
  destruct (run (Brotli.Spec.read_prefix_code (rlemax + ntrees)) (sast' (R + n) out)) as [tree s2|e s2].
  2:{ destruct Hp as (_ & e' & st' & Ep & Hfr & He). rewrite (mbind_err _ _ _ _ _ Ep).
      exists e', st'. split; [reflexivity|]. split; [|exact He].
      apply (cframe_trans st st1); [apply bframe_cframe, bframe_rd | apply bframe_cframe, Hfr]. }
  destruct Hp as (st2 & R2 & d & Ep & (p2 & sc2 & Est2) & -> & HI2 & HT).
  rewrite (mbind_ok _ _ _ _ _ Ep). cbv beta. rewrite mbind_modify.
  set (st3 := set_scratch st2 d).
  assert (HI3 : BInv' R2 (zr_rd st3)) by exact HI2.
  assert (Hfr3 : cframe st st3).
  { exists p2, d, (zr_mtf st), (zr_mtfTail st). unfold st3. rewrite Est2. reflexivity. }
  (* the entries *)
  rewrite run_bind.
  assert (Hnef : ~ is_efuel (run (loop (loop_depth size) (cmap_body tree rlemax) (size, [])) (sast' R2 out))).
  { intros Hef. pose proof (bnf_cmap_loop (S (ilen (sast' R2 out))) tree rlemax size (sast' R2 out) ltac:(lia)) as Hnf.
    destruct (run (loop (loop_depth size) (cmap_body tree rlemax) (size, [])) (sast' R2 out)) as [? ?|e ?];
      [exact Hef|]. destruct e; try exact Hef. apply Hnf. reflexivity. }
  pose proof (loop_loops _ _ _ _ Hnef) as Hl.
  pose proof (cmap_loop_ok tree d rlemax ntrees size out
                ltac:(eapply dec_treeP_weaken; [|exact HT]; intros s0 Hs0; cbn beta in *; lia)
                Hr16 ltac:(lia) _ _ _ Hl st3 R2 (S (N.to_nat size)) 0 eq_refl eq_refl
                ltac:(cbn [fst]; lia) ltac:(lia) HI3 ltac:(lia) ltac:(constructor)) as Hcm.
  cbn [snd] in Hcm.
  destruct (run (loop (loop_depth size) (cmap_body tree rlemax) (size, [])) (sast' R2 out)) as [cm s3|e s3].
  2:{ destruct Hcm as (p3 & Ec & He). rewrite (mbind_err _ _ _ _ _ Ec).
      exists e, (set_rd st3 p3). split; [reflexivity|]. split; [|exact He].
      apply (cframe_trans st st3); [exact Hfr3 | apply bframe_cframe, bframe_rd]. }
  destruct Hcm as (p3 & R3 & Ec & -> & HI4 & Hall & Hlen).
  rewrite (mbind_ok _ _ _ _ _ Ec). cbv beta.
  set (st4 := set_rd st3 p3). assert (HI4' : BInv' R3 (zr_rd st4)) by exact HI4.
  assert (Hfr4 : cframe st st4).
  { apply (cframe_trans st st3); [exact Hfr3 | apply bframe_cframe, bframe_rd]. }
  (* IMTF *)
  bits_step HI4' 1 HI5 im p5 E5 Hvi Hle5.
  2:{ exists EUEOF, (set_rd st4 pf). split; [reflexivity|]. split; [|left; reflexivity].
      apply (cframe_trans st st4); [exact Hfr4 | apply bframe_cframe, bframe_rd]. }
  set (st5 := set_rd st4 p5).
  assert (Hfr5 : cframe st st5).
  { apply (cframe_trans st st4); [exact Hfr4 | apply bframe_cframe, bframe_rd]. }
  assert (HM5 : MtfInv (zr_mtf st5) (zr_mtfTail st5)).
  { destruct Hfr3 as (q & sc & m & t & Eq). unfold st5, st4, st3. rewrite Est2. exact HM. }
  cbn [run]. destruct (im =? 1).
  - rewrite mbind_get.
    destruct (mtf_decode_ok (zr_mtf st5) (zr_mtfTail st5) cm HM5) as (d' & t' & Em & HM').
    { eapply Forall_impl; [|exact Hall]. intros a0 Ha0. cbn beta in *. lia. }
    rewrite Em. rewrite mbind_modify. unfold ret.
    exists (set_mtf st5 d' t'), (R3 + N.to_nat 1)%nat. split; [reflexivity|].
    split; [destruct Hfr5 as (q & sc & m & t & ->); exists q, sc, d', t'; reflexivity|].
    split; [reflexivity|]. split; [exact HI5|]. split; [exact HM'|].
    split.
    + unfold inverse_mtf.
      assert (Hil : forall l dict, length (imtf dict l) = length l).
      { induction l as [|x r IHl]; intros dict; cbn [imtf length]; [reflexivity | rewrite IHl; reflexivity]. }
      rewrite Hil, Hlen. cbn [length]. lia.
    + apply inverse_mtf_bound; [lia | exact Hall].
  - unfold ret. exists st5, (R3 + N.to_nat 1)%nat. split; [reflexivity|]. split; [exact Hfr5|].
    split; [reflexivity|]. split; [exact HI5|]. split; [exact HM5|].
    split; [rewrite Hlen; cbn [length]; lia | exact Hall].
Qed.

End Ctx.

Lemma counts_syms c : In c codeCounts -> 1 <= c_sym c <= 256.
Proof.
  assert (H : forallb (fun c => (1 <=? c_sym c) && (c_sym c <=? 256)) codeCounts = true) by (vm_compute; reflexivity).
  intros Hc. rewrite forallb_forall in H. specialize (H c Hc). apply andb_true_iff in H as [H1 H2].
  apply N.leb_le in H1. apply N.leb_le in H2. lia.
Qed.

Definition blk_range_check (i : N) : bool :=
  match range_at blk_ranges i with
  | Some (b, n) => (b =? fst (nth_range blk_ranges i)) && (n =? snd (nth_range blk_ranges i)) &&
                   (n <=? 24) && (1 <=? b)
  | None => false
  end.

Lemma blk_range_at sym : sym < 26 ->
  range_at blk_ranges sym = Some (nth_range blk_ranges sym) /\
  snd (nth_range blk_ranges sym) <= 24 /\ 1 <= fst (nth_range blk_ranges sym).
Proof.
  intros H.
  assert (Hall : forallb blk_range_check (map N.of_nat (seq 0 26)) = true) by (vm_compute; reflexivity).
  rewrite forallb_forall in Hall. specialize (Hall sym).
  assert (Hin : In sym (map N.of_nat (seq 0 26))).
  { apply in_map_iff. exists (N.to_nat sym). split; [lia | apply in_seq; lia]. }
  specialize (Hall Hin). unfold blk_range_check in Hall.
  destruct (range_at blk_ranges sym) as [[b n]|]; [|discriminate].
  destruct (nth_range blk_ranges sym) as [b' n']. cbn [fst snd] in *.
  apply andb_true_iff in Hall as [Hall H4]. apply andb_true_iff in Hall as [Hall H3].
  apply andb_true_iff in Hall as [H1 H2].
  apply N.eqb_eq in H1. apply N.eqb_eq in H2. apply N.leb_le in H3. apply N.leb_le in H4.
  subst. split; [reflexivity | split; assumption].
Qed.

Section Blk.
Variable data : list byte.
Hypothesis Hd : forall b, In b data -> b < 256.
Variable bsz : nat.
Hypothesis Hbsz : (16 <= bsz)%nat.

Notation BInv' := (BInv data).
Notation sast' := (sast data).

Ltac bits_core HI nb Hnew v p1 E Hv Hle :=
  match goal with
  | |- context [run (rbits nb) (sast data ?R0 ?o)] =>
    match goal with
    | |- context [mbind (m_read_bits bsz nb) _ ?st] =>
      let Hx := fresh "Hx" in
      pose proof (m_read_bits_ok data Hd bsz Hbsz st R0 o nb HI ltac:(lia)) as Hx;
      let s1 := fresh "s1" in let e := fresh "e" in
      destruct (run (rbits nb) (sast data R0 o)) as [v s1|e s1];
      [ destruct Hx as (p1 & E & -> & Hnew & Hv & Hle); rewrite (mbind_ok _ _ _ _ _ E); cbv beta
      | let He := fresh "He" in
        destruct Hx as (He & Ho & pf & Ef); rewrite (mbind_err _ _ _ _ _ Ef); subst e ]
    end
  end.
Ltac bits_step HI nb Hnew v p1 E Hv Hle := rewrite run_bind; bits_core HI nb Hnew v p1 E Hv Hle.

(* a block count: symbol through decLen, then ReadOffset *)
Lemma read_block_count_ok st R out dl lt : dec_treeP (fun s => s < 26) dl lt -> BInv' R (zr_rd st) ->
  match run (read_block_count lt) (sast' R out) with
  | Done c s' =>
    exists p' R', (sym <~ m_read_symbol bsz dl ;; m_read_offset bsz sym blk_ranges)%brm st = SOk c (set_rd st p') /\
                  s' = sast' R' out /\ BInv' R' p' /\ 1 <= c
  | Fail e s' =>
    e = EUEOF /\ exists p', (sym <~ m_read_symbol bsz dl ;; m_read_offset bsz sym blk_ranges)%brm st =
                            SErr EUEOF (set_rd st p')
  end.
Proof.
  intros HT HI. unfold read_block_count. rewrite run_bind.
  pose proof (m_read_symbol_tree data Hd bsz Hbsz _ st R out dl lt HT HI) as Hs.
  destruct (run (sym_or_corrupt lt) (sast' R out)) as [sym s1|e s1].
  2:{ destruct Hs as (-> & _ & p' & E). rewrite (mbind_err _ _ _ _ _ E). split; [reflexivity|].
      exists p'. reflexivity. }
  destruct Hs as (p' & R1 & E & -> & HI1 & Hsym). rewrite (mbind_ok _ _ _ _ _ E). cbv beta.
  destruct (blk_range_at sym Hsym) as (Er & Hnb & Hb). unfold m_read_offset. rewrite Er.
  destruct (nth_range blk_ranges sym) as [base nb]. cbn [fst snd] in *.
  set (st1 := set_rd st p'). assert (HI1' : BInv' R1 (zr_rd st1)) by exact HI1.
  bits_step HI1' nb HI2 x p2 E2 Hvx Hle2.
  2:{ split; [reflexivity|]. exists pf. reflexivity. }
  cbn [run]. unfold ret. exists p2, (R1 + N.to_nat nb)%nat. split; [reflexivity|]. split; [reflexivity|].
  split; [exact HI2 | lia].
Qed.

(* the block decoder of the Reader and the block state of the RFC model *)
Record blk_rel (bd : bdk) (b : blk) : Prop := mkBlkRel {
  bl_n : k_numTypes bd = b_n b;
  bl_nb : 1 <= b_n b <= 256;
  bl_cur : k_t0 bd = b_cur b;
  bl_prev : k_t1 bd = b_prev b;
  bl_curlt : b_cur b < b_n b;
  bl_prevlt : 2 <= b_n b -> b_prev b < b_n b;
  bl_len : (2 <= b_n b -> k_typeLen bd = Z.of_N (b_cnt b)) /\ (b_n b = 1 -> (k_typeLen bd < 0)%Z);
  bl_tt : 2 <= b_n b -> dec_treeP (fun s => s < b_n b + 2) (k_decType bd) (b_tt b);
  bl_lt : 2 <= b_n b -> dec_treeP (fun s => s < 26) (k_decLen bd) (b_lt b)
}.

Lemma put_get_blk sel st bd : get_blk sel (put_blk sel st bd) = bd.
Proof. destruct sel; reflexivity. Qed.

(* THEOREM (c2): NBLTYPES, the block type and count codes, the first count *)
Theorem read_blk_types_refines sel st R out : BInv' R (zr_rd st) ->
  match run read_blk (sast' R out) with
  | Done b s' =>
    exists p sc bd' R', read_blk_types bsz sel st = SOk tt (put_blk sel (set_rd (set_scratch st sc) p) bd') /\
      s' = sast' R' out /\ BInv' R' p /\ blk_rel bd' b /\
      k_store bd' = k_store (get_blk sel st) /\ k_len bd' = k_len (get_blk sel st) /\ b_cur b = 0
  | Fail e s' =>
    exists e' st', read_blk_types bsz sel st = SErr e' st' /\ (e' = EUEOF \/ e' = ECorrupted) /\
                   same_out st st'
  end.
Proof.
  intros HI. unfold read_blk, read_blk_types, upd_blk.
  rewrite mbind_modify. set (st0 := put_blk sel st _).
  assert (HI0 : BInv' R (zr_rd st0)) by (destruct sel; exact HI).
  assert (Hso0 : same_out st st0) by (destruct sel; repeat split).
  rewrite run_bind. rewrite read_count_eq.
  pose proof (m_read_symbol_ok data Hd bsz Hbsz decCounts codeCounts decCounts_codes counts_tree
                counts_tree_codes counts_zero_min st0 R out HI0) as Hs.
  destruct (run (sym_or_corrupt counts_tree) (sast' R out)) as [n s1|e s1].
  2:{ destruct Hs as (-> & _ & p' & E). rewrite (mbind_err _ _ _ _ _ E).
      exists EUEOF, (set_rd st0 p'). split; [reflexivity|]. split; [left; reflexivity|].
      destruct sel; repeat split. }
  destruct Hs as (p' & k & E & -> & HI1 & c & Hc & -> & _). rewrite (mbind_ok _ _ _ _ _ E). cbv beta.
  pose proof (counts_syms c Hc) as Hn. set (n := c_sym c) in *.
  rewrite mbind_modify.
  set (st1 := put_blk sel (set_rd st0 p') _).
  assert (HI1' : BInv' (R + k) (zr_rd st1)) by (destruct sel; exact HI1).
  assert (Hso1 : same_out st st1) by (destruct sel; repeat split).
  destruct (2 <=? n) eqn:E2.
  - apply N.leb_le in E2. rewrite mbind_get.
    (* the block type code *)
    rewrite run_bind.
    pose proof (read_prefix_code_refines data Hd bsz Hbsz (Some (k_decType (get_blk sel st1))) (n + 2)
                  st1 _ out HI1' ltac:(lia)) as Hp.
    destruct (run (Brotli.Spec.read_prefix_code (n + 2)) (sast' (R + k) out)) as [tt0 s2|e s2].
    2:{ destruct Hp as (_ & e' & st' & Ep & (p2 & sc2 & ->) & He). rewrite (mbind_err _ _ _ _ _ Ep).
        eexists e', _. split; [reflexivity|]. split; [exact He|]. destruct sel; repeat split. }
    destruct Hp as (st2 & R2 & dt & Ep & (p2 & sc2 & Est2) & -> & HI2 & HTt).
    rewrite (mbind_ok _ _ _ _ _ Ep). cbv beta. rewrite mbind_modify.
    set (st3 := put_blk sel st2 _).
    assert (HI3 : BInv' R2 (zr_rd st3)) by (destruct sel; exact HI2).
    (* the block count code *)
    rewrite run_bind.
    pose proof (read_prefix_code_refines data Hd bsz Hbsz (Some (k_decLen (get_blk sel st1))) 26
                  st3 _ out HI3 ltac:(lia)) as Hp2.
    destruct (run (Brotli.Spec.read_prefix_code 26) (sast' R2 out)) as [lt0 s3|e s3].
    2:{ destruct Hp2 as (_ & e' & st' & Ep2 & (p3 & sc3 & ->) & He). rewrite (mbind_err _ _ _ _ _ Ep2).
        eexists e', _. split; [reflexivity|]. split; [exact He|]. unfold st3. rewrite Est2. destruct sel; repeat split. }
    destruct Hp2 as (st4 & R4 & dl & Ep2 & (p4 & sc4 & Est4) & -> & HI4 & HTl).
    rewrite (mbind_ok _ _ _ _ _ Ep2). cbv beta. rewrite mbind_modify.
    set (st5 := put_blk sel st4 _).
    assert (HI5 : BInv' R4 (zr_rd st5)) by (destruct sel; exact HI4).
    (* the first count *)
    rewrite run_bind.
    pose proof (read_block_count_ok st5 R4 out dl lt0 HTl HI5) as Hbc.
    rewrite <- mbind_assoc.
    destruct (run (read_block_count lt0) (sast' R4 out)) as [cnt s5|e s5].
    2:{ destruct Hbc as (-> & p5 & Ebc). rewrite (mbind_err _ _ _ _ _ Ebc).
        eexists EUEOF, _. split; [reflexivity|]. split; [left; reflexivity|].
        unfold st5. rewrite Est4. unfold st3. rewrite Est2. destruct sel; repeat split. }
    destruct Hbc as (p5 & R5 & Ebc & -> & HI6 & Hcnt).
    rewrite (mbind_ok _ _ _ _ _ Ebc). cbv beta. cbn [run]. unfold modify.
    eexists p5, sc4, _, R5. split.
    { unfold st5. rewrite Est4. unfold st3. rewrite Est2. unfold st1, st0. destruct sel; reflexivity. }
    split; [reflexivity|]. split; [exact HI6|].
    split; [|split; [|split]; try reflexivity; destruct sel; reflexivity].
    destruct sel;
      (split; cbn [get_blk put_blk set_blks set_rd set_scratch zr_iac zr_lit zr_dst
                   k_numTypes k_typeLen k_t0 k_t1 k_decType k_decLen b_n b_tt b_lt b_cur b_prev b_cnt
                   bdk_types bdk_decs];
       try reflexivity; try lia;
       try (split; [intros _; reflexivity | lia]);
       try (intros _; exact HTt); try (intros _; exact HTl)).
  - apply N.leb_gt in E2. cbn [run]. unfold ret.
    assert (Hn1 : n = 1) by lia.
    eexists p', (zr_scratch st), _, (R + k)%nat. split.
    { unfold st1, st0. destruct sel; reflexivity. }
    split; [reflexivity|]. split; [exact HI1|].
    split; [|split; [|split]; try reflexivity; destruct sel; reflexivity].
    destruct sel;
      (split; cbn [get_blk put_blk set_blks set_rd set_scratch zr_iac zr_lit zr_dst
                   k_numTypes k_typeLen k_t0 k_t1 k_decType k_decLen b_n b_tt b_lt b_cur b_prev b_cnt
                   bdk_types bdk_decs];
       try reflexivity; try lia;
       try (split; [lia | intros _; lia])).
Qed.

(* THEOREM (c3): a block-switch command *)
Theorem read_block_switch_refines sel st R out b : BInv' R (zr_rd st) ->
  blk_rel (get_blk sel st) b -> 2 <= b_n b ->
  match run (block_switch b) (sast' R out) with
  | Done b' s' =>
    exists p bd' R', read_block_switch bsz sel st = SOk tt (put_blk sel (set_rd st p) bd') /\
      s' = sast' R' out /\ BInv' R' p /\ blk_rel bd' b' /\ 1 <= b_cnt b' /\
      k_store bd' = k_store (get_blk sel st) /\ k_len bd' = k_len (get_blk sel st)
  | Fail e s' =>
    e = EUEOF /\ exists st', read_block_switch bsz sel st = SErr EUEOF st' /\ same_out st st'
  end.
Proof.
  intros HI [Bn Bnb Bcur Bprev Bcl Bpl Blen Btt Blt] H2.
  unfold block_switch, read_block_switch. rewrite mbind_get. rewrite run_bind.
  pose proof (m_read_symbol_tree data Hd bsz Hbsz _ st R out _ _ (Btt H2) HI) as Hs.
  destruct (run (sym_or_corrupt (b_tt b)) (sast' R out)) as [t s1|e s1].
  2:{ destruct Hs as (-> & _ & p' & E). rewrite (mbind_err _ _ _ _ _ E). split; [reflexivity|].
      eexists. split; [reflexivity | apply same_out_rd]. }
  destruct Hs as (p' & R1 & E & -> & HI1 & Ht). cbv beta in Ht.
  rewrite (mbind_ok _ _ _ _ _ E). cbv beta. unfold upd_blk. rewrite mbind_modify.
  set (nt := if t =? 0 then b_prev b else if t =? 1 then (if b_cur b + 1 <? b_n b then b_cur b + 1 else 0) else t - 2).
  assert (Hnt : nt < b_n b).
  { unfold nt. destruct (t =? 0) eqn:E0; [apply Bpl; exact H2|]. apply N.eqb_neq in E0.
    destruct (t =? 1) eqn:E1; [destruct (N.ltb_spec (b_cur b + 1) (b_n b)); lia|].
    apply N.eqb_neq in E1. lia. }
  assert (Esym : (if t =? 0 then k_t1 (get_blk sel st)
                  else if t =? 1
                       then if k_numTypes (get_blk sel st) <=? k_t0 (get_blk sel st) + 1
                            then k_t0 (get_blk sel st) + 1 - k_numTypes (get_blk sel st)
                            else k_t0 (get_blk sel st) + 1
                       else t - 2) mod 256 = nt).
  { rewrite Bn, Bcur, Bprev. unfold nt. destruct (t =? 0); [apply N.mod_small; lia|].
    destruct (t =? 1).
    - destruct (N.leb_spec (b_n b) (b_cur b + 1)); destruct (N.ltb_spec (b_cur b + 1) (b_n b)); try lia;
        apply N.mod_small; lia.
    - apply N.mod_small. unfold nt in Hnt. destruct (t =? 0) eqn:E0; [|destruct (t =? 1) eqn:E1]; lia. }
  rewrite Esym.
  set (st1 := put_blk sel (set_rd st p') _).
  assert (HI1' : BInv' R1 (zr_rd st1)) by (destruct sel; exact HI1).
  rewrite run_bind. rewrite <- mbind_assoc.
  pose proof (read_block_count_ok st1 R1 out _ _ (Blt H2) HI1') as Hbc.
  destruct (run (read_block_count (b_lt b)) (sast' R1 out)) as [cnt s2|e s2].
  2:{ destruct Hbc as (-> & p2 & Ebc). rewrite (mbind_err _ _ _ _ _ Ebc). split; [reflexivity|].
      eexists. split; [reflexivity|]. destruct sel; repeat split. }
  destruct Hbc as (p2 & R2 & Ebc & -> & HI2 & Hcnt).
  rewrite (mbind_ok _ _ _ _ _ Ebc). cbv beta. cbn [run]. unfold modify.
  eexists p2, _, R2. split.
  { unfold st1. destruct sel; reflexivity. }
  split; [reflexivity|]. split; [exact HI2|].
  split; [|split; [exact Hcnt | split; destruct sel; reflexivity]].
  destruct sel;
    (split; cbn [get_blk put_blk set_blks set_rd zr_iac zr_lit zr_dst
                 k_numTypes k_typeLen k_t0 k_t1 k_decType k_decLen b_n b_tt b_lt b_cur b_prev b_cnt bdk_types];
     try reflexivity; try assumption; try lia;
     try (split; [intros _; reflexivity | lia])).
Qed.

(* typeLen-- against the count of the RFC model *)
Lemma blk_rel_dec bd b : blk_rel bd b -> (2 <= b_n b -> 1 <= b_cnt b) -> blk_rel (bdk_dec bd) (blk_dec b).
Proof.
  intros [Bn Bnb Bcur Bprev Bcl Bpl [Bl1 Bl2] Btt Blt] Hc.
  split; cbn [bdk_dec blk_dec k_numTypes k_typeLen k_t0 k_t1 k_decType k_decLen b_n b_tt b_lt b_cur b_prev b_cnt];
    try assumption.
  split.
  - intros H2. rewrite (Bl1 H2). specialize (Hc H2). lia.
  - intros H1. specialize (Bl2 H1). lia.
Qed.

(* the test  typeLen == 0  is the test of the RFC model *)
Lemma blk_rel_zero bd b : blk_rel bd b ->
  (k_typeLen bd =? 0)%Z = (2 <=? b_n b) && (b_cnt b =? 0).
Proof.
  intros [Bn Bnb Bcur Bprev Bcl Bpl [Bl1 Bl2] Btt Blt].
  destruct (N.leb_spec 2 (b_n b)) as [H2|H1].
  - rewrite (Bl1 H2). cbn [andb]. destruct (N.eqb_spec (b_cnt b) 0) as [->|Hne]; [reflexivity|].
    apply Z.eqb_neq. lia.
  - cbn [andb]. apply Z.eqb_neq. assert (b_n b = 1) by lia. specialize (Bl2 H). lia.
Qed.

End Blk.
