(* Foundations for the refinement proofs of Brotli/Impl.v: the primitive operations of the
   bit reader, lifted to the Reader's monad, against the requests of the RFC decoder
   (Base/Prog.v) on the abstract bit stream of the input. *)
From V Require Import Base.Prelude Base.Prog Base.ProgThms Flate.Spec
  Prefix.ReaderImpl Prefix.ReaderSpec Prefix.ReaderThms
  Brotli.BitReaderImpl Brotli.BitReaderSpec Brotli.BitReaderThms Brotli.Impl.
From Coq Require Import ZifyBool ZifyN ZifyNat.

Local Open Scope N_scope.
Local Ltac Zify.zify_post_hook ::= idtac.

(* ---- the bit stream of the specification is the bit stream of the bit-reader theorems ---- *)
Lemma bits_lsb_val_bits8 b : bits_lsb b = val_bits 8 b.
Proof.
  unfold bits_lsb. cbn [val_bits].
  rewrite <- !N.bit0_odd.
  repeat rewrite N.div2_spec.
  rewrite !N.shiftr_spec'. cbn [N.add]. reflexivity.
Qed.

Lemma bytes_to_bits_bstream data : bytes_to_bits data = bstream data.
Proof.
  unfold bytes_to_bits, bstream, stream_bits.
  induction data as [|b r IH]; [reflexivity|].
  cbn [flat_map]. rewrite IH, bits_lsb_val_bits8. reflexivity.
Qed.

(* ---- rbits on the abstract machine ------------------------------------------------------- *)
Definition adv (s : ast) (n : nat) : ast :=
  mkAst (skipn n (a_in s)) (a_pos s + N.of_nat n) (a_out s) (a_len s).

Lemma run_bits_lsbf n : forall s, (n <= length (a_in s))%nat ->
  run (bits_lsbf n) s = Done (bits_val (firstn n (a_in s))) (adv s n).
Proof.
  induction n as [|n IH]; intros s Hn.
  - cbn [bits_lsbf run firstn bits_val]. unfold adv. cbn [skipn Nat.add].
    destruct s as [i p o l]. cbn [a_in a_pos a_out a_len]. f_equal. f_equal. lia.
  - cbn [bits_lsbf run]. destruct (a_in s) as [|b r] eqn:Ein; [cbn [length] in Hn; lia|].
    rewrite run_bind.
    set (s1 := mkAst r (a_pos s + 1) (a_out s) (a_len s)).
    rewrite (IH s1) by (unfold s1; cbn [a_in]; cbn [length] in Hn; lia).
    cbn [run firstn bits_val]. unfold adv, s1. cbn [a_in a_pos a_out a_len skipn].
    rewrite Ein. cbn [skipn]. f_equal. f_equal. lia.
Qed.

Lemma run_bits_lsbf_eof n : forall s, (length (a_in s) < n)%nat ->
  exists s', run (bits_lsbf n) s = Fail EUEOF s' /\ a_out s' = a_out s /\ a_len s' = a_len s.
Proof.
  induction n as [|n IH]; intros s Hn; [lia|].
  cbn [bits_lsbf run]. destruct (a_in s) as [|b r] eqn:Ein.
  - exists s. split; [reflexivity | split; reflexivity].
  - rewrite run_bind.
    set (s1 := mkAst r (a_pos s + 1) (a_out s) (a_len s)).
    destruct (IH s1) as (s' & E & Ho & Hl); [unfold s1; cbn [a_in]; cbn [length] in Hn; lia|].
    rewrite E. exists s'. split; [reflexivity|]. unfold s1 in Ho, Hl. cbn [a_out a_len] in Ho, Hl.
    split; assumption.
Qed.

Section Bits.
Variable data : list byte.
Hypothesis Hd : forall b, In b data -> b < 256.
Variable bsz : nat.
Hypothesis Hbsz : (16 <= bsz)%nat.

Definition sbits : list bool := bytes_to_bits data.

(* the state of the abstract machine after R bits, with output [out] (newest first) *)
Definition sast (R : nat) (out : list byte) : ast :=
  mkAst (skipn R sbits) (N.of_nat R) out (N.of_nat (length out)).

Lemma sbits_length : length sbits = (8 * length data)%nat.
Proof. unfold sbits. rewrite bytes_to_bits_bstream. apply stream_bits_length. Qed.

Lemma sast_in_length R out : length (a_in (sast R out)) = (8 * length data - R)%nat.
Proof. unfold sast. cbn [a_in]. rewrite skipn_length, sbits_length. reflexivity. Qed.

Lemma adv_sast R out n : adv (sast R out) n = sast (R + n) out.
Proof.
  unfold adv, sast. cbn [a_in a_pos a_out a_len]. rewrite skipn_skipn', Nat2N.inj_add.
  reflexivity.
Qed.

Lemma bits_at_sast R out n :
  bits_val (firstn n (a_in (sast R out))) = bits_at (bstream data) R n.
Proof. unfold bits_at, sast, sbits. cbn [a_in]. rewrite bytes_to_bits_bstream. reflexivity. Qed.

(* rbits at a stream position *)
Lemma run_rbits_ok R out nb : (R + N.to_nat nb <= 8 * length data)%nat ->
  run (rbits nb) (sast R out) = Done (bits_at (bstream data) R (N.to_nat nb)) (sast (R + N.to_nat nb) out).
Proof.
  intros H. unfold rbits. rewrite run_bits_lsbf by (rewrite sast_in_length; lia).
  rewrite bits_at_sast, adv_sast. reflexivity.
Qed.

Lemma run_rbits_eof R out nb : (R <= 8 * length data)%nat -> (8 * length data < R + N.to_nat nb)%nat ->
  exists s', run (rbits nb) (sast R out) = Fail EUEOF s' /\ a_out s' = out /\
             a_len s' = N.of_nat (length out).
Proof.
  intros HR H. unfold rbits.
  destruct (run_bits_lsbf_eof (N.to_nat nb) (sast R out)) as (s' & E & Ho & Hl);
    [rewrite sast_in_length; lia|].
  exists s'. split; [exact E|]. split; [exact Ho | exact Hl].
Qed.

Notation BInv' := (BInv data).

(* ---- ReadBits ---------------------------------------------------------------------------- *)
Lemma bread_bits_ok R p nb : BInv' R p -> nb <= 57 ->
  ((R + N.to_nat nb <= 8 * length data)%nat /\
   exists p', bread_bits bsz p nb = ((FdOk, bits_at (bstream data) R (N.to_nat nb)), p') /\
              BInv' (R + N.to_nat nb) p' /\ p_buffered p' = p_buffered p) \/
  ((8 * length data < R + N.to_nat nb)%nat /\
   exists p', bread_bits bsz p nb = ((FdEof, 0), p')).
Proof.
  intros HI Hnb. unfold bread_bits.
  pose proof (feed_bits_ok data Hd bsz Hbsz R p nb HI Hnb) as Hp.
  destruct (feed_bits bsz p nb) as [[| | |] p1]; try contradiction.
  - destruct Hp as (HI1 & Hnb1 & Hb1 & _).
    unfold btake. replace (nb <=? p_numBits p1) with true by lia.
    destruct (btake_bits_ok data Hd R p1 nb HI1 Hnb1) as (Hv & HI2 & Hb2 & _ & Hle).
    destruct (take_bits p1 nb) as [v p2]. cbn [fst snd] in Hv, HI2, Hb2.
    left. split; [exact Hle|]. exists p2. rewrite Hv.
    split; [reflexivity|]. split; [exact HI2 | congruence].
  - right. split; [exact Hp|]. exists p1. reflexivity.
Qed.

Lemma m_read_bits_ok st R out nb : BInv' R (zr_rd st) -> nb <= 57 ->
  match run (rbits nb) (sast R out) with
  | Done v s' =>
    exists p', m_read_bits bsz nb st = SOk v (set_rd st p') /\
               s' = sast (R + N.to_nat nb) out /\ BInv' (R + N.to_nat nb) p' /\
               v = bits_at (bstream data) R (N.to_nat nb) /\
               (R + N.to_nat nb <= 8 * length data)%nat
  | Fail e s' =>
    e = EUEOF /\ a_out s' = out /\ exists p', m_read_bits bsz nb st = SErr EUEOF (set_rd st p')
  end.
Proof.
  intros HI Hnb. unfold m_read_bits.
  destruct (bread_bits_ok R (zr_rd st) nb HI Hnb) as [(Hle & p' & E & HI' & _)|(Hlt & p' & E)].
  - rewrite (run_rbits_ok R out nb Hle). rewrite E. cbn [of_feed ret].
    exists p'. split; [reflexivity|]. split; [reflexivity|]. split; [exact HI'|].
    split; [reflexivity | exact Hle].
  - assert (HR : (R <= 8 * length data)%nat).
    { destruct HI as (([_ _ _ _ [_ _ W3 _ _] _] & _ & _) & _). lia. }
    destruct (run_rbits_eof R out nb HR Hlt) as (s' & Er & Ho & _). rewrite Er, E. cbn [of_feed].
    split; [reflexivity|]. split; [exact Ho|]. exists p'. reflexivity.
Qed.

(* ---- TryReadBits with its fallback --------------------------------------------------------- *)
Lemma m_try_read_bits_ok st R out nb : BInv' R (zr_rd st) -> nb <= 57 ->
  match run (rbits nb) (sast R out) with
  | Done v s' =>
    exists p', m_try_read_bits bsz nb st = SOk v (set_rd st p') /\
               s' = sast (R + N.to_nat nb) out /\ BInv' (R + N.to_nat nb) p' /\
               v = bits_at (bstream data) R (N.to_nat nb) /\
               (R + N.to_nat nb <= 8 * length data)%nat
  | Fail e s' =>
    e = EUEOF /\ a_out s' = out /\ exists p', m_try_read_bits bsz nb st = SErr EUEOF (set_rd st p')
  end.
Proof.
  intros HI Hnb. unfold m_try_read_bits, btry_bits.
  destruct (p_numBits (zr_rd st) <? nb) eqn:E.
  - apply m_read_bits_ok; assumption.
  - assert (HIS : BInvS data (Z.of_N nb) R (zr_rd st)).
    { destruct HI as (H1 & H2 & H3). split; [apply Inv_InvS; [lia | exact H1] | split; assumption]. }
    destruct (btake_bits_ok data Hd R (zr_rd st) nb HIS ltac:(lia)) as (Hv & HI2 & Hb2 & _ & Hle).
    destruct (take_bits (zr_rd st) nb) as [v p2]. cbn [fst snd] in Hv, HI2, Hb2.
    rewrite (run_rbits_ok R out nb Hle).
    exists p2. rewrite Hv. split; [reflexivity|]. split; [reflexivity|]. split; [exact HI2|].
    split; [reflexivity | exact Hle].
Qed.

(* ---- ReadPads ---------------------------------------------------------------------------------- *)
Definition pad_n (R : nat) : nat := ((8 - R mod 8) mod 8)%nat.

Lemma pad_count_nat R : N.to_nat (pad_count (N.of_nat R)) = pad_n R.
Proof. unfold pad_count, pad_n. lia. Qed.

Lemma pad_fits R : (R <= 8 * length data)%nat -> (R + pad_n R <= 8 * length data)%nat.
Proof. unfold pad_n. intros H. lia. Qed.

Lemma BInv_pos_le R p : BInv' R p -> (R <= 8 * length data)%nat.
Proof. intros (([_ _ _ _ [_ _ W3 _ _] _] & _ & _) & _). lia. Qed.

Lemma m_read_pads_ok st R : BInv' R (zr_rd st) ->
  exists p', m_read_pads st = SOk (bits_at (bstream data) R (pad_n R)) (set_rd st p') /\
             BInv' (R + pad_n R) p'.
Proof.
  intros HI. unfold m_read_pads, read_pads.
  set (p := zr_rd st) in *.
  assert (Hn : p_numBits p mod 8 <= p_numBits p) by (apply N.mod_le; lia).
  assert (HIS : BInvS data (Z.of_N (p_numBits p mod 8)) R p).
  { destruct HI as (H1 & H2 & H3). split; [apply Inv_InvS; [lia | exact H1] | split; assumption]. }
  destruct (btake_bits_ok data Hd R p (p_numBits p mod 8) HIS Hn) as (Hv & HI2 & Hb2 & _ & _).
  destruct (take_bits p (p_numBits p mod 8)) as [v p2]. cbn [fst snd] in Hv, HI2, Hb2.
  assert (He : N.to_nat (p_numBits p mod 8) = pad_n R).
  { unfold pad_n. destruct HI as (([_ _ _ _ [_ W2 _ _ _] _] & _ & _) & _). lia. }
  rewrite He in *. exists p2. rewrite Hv. split; [reflexivity | exact HI2].
Qed.

(* AlignP of the specification at a stream position *)
Lemma run_alignp_ok {A} R out (k : N -> prog A) : (R <= 8 * length data)%nat ->
  run (AlignP k) (sast R out) =
  run (k (bits_at (bstream data) R (pad_n R))) (sast (R + pad_n R) out).
Proof.
  intros HR. cbn [run].
  change (a_pos (sast R out)) with (N.of_nat R). change (a_in (sast R out)) with (skipn R sbits).
  change (a_out (sast R out)) with out. change (a_len (sast R out)) with (N.of_nat (length out)).
  rewrite pad_count_nat.
  pose proof (pad_fits R HR) as Hf.
  replace (Nat.leb (pad_n R) (length (skipn R sbits))) with true
    by (symmetry; apply Nat.leb_le; rewrite skipn_length, sbits_length; lia).
  assert (E1 : bits_val (firstn (pad_n R) (skipn R sbits)) = bits_at (bstream data) R (pad_n R)).
  { unfold bits_at, sbits. rewrite bytes_to_bits_bstream. reflexivity. }
  rewrite E1.
  assert (E2 : mkAst (skipn (pad_n R) (skipn R sbits)) (N.of_nat R + N.of_nat (pad_n R)) out
                     (N.of_nat (length out)) = sast (R + pad_n R) out).
  { unfold sast. rewrite skipn_skipn', Nat2N.inj_add. reflexivity. }
  rewrite E2. reflexivity.
Qed.

End Bits.
