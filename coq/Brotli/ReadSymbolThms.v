(* bitReader.ReadSymbol / TryReadSymbol of brotli (model: Brotli/PrefixDecoderImpl.v
   [br_read_symbol], [try_read_symbol]) over the bit-reader model (Brotli/BitReaderImpl.v)
   with tables that satisfy [tables_okG] (Brotli/PrefixDecoderThms.v: what prefixDecoder.Init
   builds in either assignCodes mode), on BOTH source paths:

   (a) any valid code set: when the stream still holds maxLen bits, ReadSymbol returns the
       symbol of the code word the stream begins with and consumes exactly that code word;
   (b) zero-minimal code sets (canonical ones: every code brotli builds with assignCodes =
       true): it is enough that the stream holds the code word itself, and afterwards the
       reader is in an invariant state again (no byte beyond the one holding the last bit of
       the code word has been taken from a ReadByte source; a bufio source is only peeked);
   (c) the stream ends inside the code word it continues with: io.ErrUnexpectedEOF; never a
       symbol, never a run-time panic, never an exhausted loop budget.

   The proofs follow Prefix/DecReadThms.v; what differs is FeedBits (Brotli/BitReaderThms.v)
   and that brotli's bit buffer never holds look-ahead bits ([Zab]) on either path, which
   makes (b) hold on the bufio path too. *)
From V Require Import Base.Prelude Bzip2.Common Prefix.ReaderImpl Prefix.ReaderSpec Prefix.ReaderThms
  Prefix.DecTable Prefix.DecTableSpec Prefix.DecTableThms Prefix.DecReadThms Prefix.DecCanonThms
  Brotli.BitReaderImpl Brotli.BitReaderSpec Brotli.BitReaderThms
  Brotli.PrefixDecoderImpl Brotli.PrefixDecoderThms.
From Coq Require Import ZifyBool ZifyN ZifyNat.

Local Open Scope N_scope.
Local Ltac Zify.zify_post_hook ::= idtac.

Ltac prj := cbn [p_src p_buffered p_big p_bufBits p_numBits p_peek p_discard p_fed p_offset
                 s_data s_pos s_buf s_fills s_reads fst snd].

Section BrReadSymbol.
Variable data : list byte.
Hypothesis Hd : forall b, In b data -> b < 256.
Variable bsz : nat.
Hypothesis Hbsz : (16 <= bsz)%nat.

Notation PI' := (PI false data).
Notation window' := (window false data).
Notation BInv' := (BInv data).

(* the state between a FeedBits and the consumption that follows it *)
Definition BPI (R : nat) (p : prd) : Prop :=
  PI' R p /\ (p_buffered p = true -> Bok data (p_src p)) /\ Zab p.

Lemma BInv_BPI R p : BInv' R p -> BPI R p.
Proof. intros (H1 & H2 & H3). split; [apply Inv_PI; exact H1 | split; assumption]. Qed.

Lemma BPI_BInv R p : BPI R p -> (p_buffered p = false -> p_numBits p < 8) -> BInv' R p.
Proof. intros (H1 & H2 & H3) Hlt. split; [apply PI_Inv; assumption | split; assumption]. Qed.

(* FeedBits from a fed state *)
Lemma bfeed_ok R p nb : BPI R p -> nb <= 57 ->
  (p_buffered p = false -> p_numBits p < nb + 8) ->
  match feed_bits bsz p nb with
  | (FdOk, p') => BPI R p' /\ nb <= p_numBits p' /\ p_buffered p' = p_buffered p /\
                  (p_buffered p = false -> p_numBits p' < nb + 8)
  | (FdEof, _) => (8 * length data < R + N.to_nat nb)%nat
  | (FdCrash, _) | (FdFuel, _) => False
  end.
Proof.
  intros HP Hnb Hlt. destruct (p_buffered p) eqn:Hb.
  - assert (HI : BInv' R p) by (apply BPI_BInv; [exact HP | rewrite Hb; discriminate]).
    pose proof (feed_bits_ok data Hd bsz Hbsz R p nb HI Hnb) as Hf.
    destruct (feed_bits bsz p nb) as [[| | |] p1]; try exact Hf.
    destruct Hf as (_ & H2 & H3 & H4). rewrite Hb in H3, H4.
    split; [apply BInv_BPI, H4; reflexivity|]. split; [exact H2|]. split; [exact H3 | discriminate].
  - destruct HP as ((HC & Hd7 & Hpk) & HB & HZ). unfold feed_bits. rewrite Hb.
    unfold effd in HC. rewrite Hb in HC.
    pose proof (pull_bytes_ok false data Hd R nb Hnb (Nat.max 9 (N.to_nat (nb / 8) + 2)) p Hb HC
                              (Hpk Hb) (Hlt eq_refl)) as Hy.
    pose proof (pull_bytes_za data Hd nb Hnb (Nat.max 9 (N.to_nat (nb / 8) + 2)) p) as Hza.
    destruct (pull_bytes (Nat.max 9 (N.to_nat (nb / 8) + 2)) p nb) as [[|] p1].
    + apply Hy. lia.
    + destruct Hy as (H1 & H2 & H3 & H4 & H5); [lia|].
      assert (HZ1 : Zab p1).
      { destruct (Hza p1) as (_ & _ & G); [|reflexivity|exact G].
        destruct HC as [_ C2 _ _ _ _]. split; [exact Hb|]. split; [exact C2 | exact HZ]. }
      split; [|split; [exact H4 | split; [exact H2 | intros _; exact H5]]].
      split; [|split; [rewrite H2; discriminate | exact HZ1]].
      unfold PI, effd. rewrite H2. split; [exact H1|]. split; [discriminate | intros _; exact H3].
Qed.

Lemma btake_ok R p nb : BPI R p -> nb <= p_numBits p ->
  BPI (R + N.to_nat nb) (snd (take_bits p nb)) /\
  p_buffered (snd (take_bits p nb)) = p_buffered p /\
  p_numBits (snd (take_bits p nb)) = p_numBits p - nb.
Proof.
  intros (HP & HB & HZ) Hnb. destruct (take_ok false data Hd R p nb HP Hnb) as (T1 & T2 & T3).
  split; [|split; assumption].
  split; [exact T1|]. split; [unfold take_bits; prj; exact HB | apply (zab_take data Hd); assumption].
Qed.

(* ---- the table walk ------------------------------------------------------------------------ *)
Variable L : N.
Variable codes : list pcode.
Hypothesis HL : L <= 31.
Hypothesis HV : dec_valid L codes.
Variable d : dec.
Variable idx : N -> N.
Hypothesis HT : tables_okG idx codes d.
Hypothesis Hmin : d_minBits d = min_bits codes.

Lemma lookup_stateG R p : BPI R p ->
  exists c', In c' codes /\ matches c' (p_bufBits p) /\
    dec_lookup d (p_bufBits p) = Some (c_sym c' mod 2 ^ 27, c_len c') /\
    (c_len c' <= p_numBits p -> matches c' (window' R)).
Proof.
  intros (HP & _ & _). destruct (dv_complete _ _ HV (p_bufBits p)) as (c' & Hc' & Hm').
  exists c'. split; [exact Hc'|]. split; [exact Hm'|].
  split; [apply (lookup_of_tablesG L idx codes d HL HV HT); assumption|].
  intros Hle. destruct (PI_numBits false data Hd R p HP) as (_ & _ & Ew).
  apply (matches_low c' (p_bufBits p) (window' R) (p_numBits p) Hle Ew Hm').
Qed.

Lemma len_le_31' c : In c codes -> c_len c <= 31.
Proof. intros Hc. pose proof (v_len L codes HV c Hc). lia. Qed.

(* the loop, when the stream holds the code word of c and at least B bits, B bounding every
   request *)
Lemma br_rs_loop_ok (B : N) R c :
  In c codes -> matches c (window' R) ->
  (R + N.to_nat B <= 8 * length data)%nat -> c_len c <= B -> B <= 31 ->
  (forall p c', BPI R p -> In c' codes -> matches c' (p_bufBits p) ->
                p_numBits p < c_len c' -> c_len c' <= B) ->
  forall fuel p nb, BPI R p -> nb <= B -> B < nb + N.of_nat fuel ->
    (p_buffered p = false -> p_numBits p < nb + 8) ->
    exists p',
      br_read_symbol_loop fuel bsz d p nb = (RSym (c_sym c mod 2 ^ 27), p') /\
      BPI (R + N.to_nat (c_len c)) p' /\ p_buffered p' = p_buffered p /\
      (p_buffered p = false -> p_numBits p' + c_len c < B + 8).
Proof.
  intros Hc Hm HB HcB HB31 HQ2.
  induction fuel as [|fuel IH]; intros p nb HP Hnb Hfuel Hlt; [lia|].
  cbn [br_read_symbol_loop].
  pose proof (bfeed_ok R p nb HP ltac:(lia) Hlt) as Hfeed.
  destruct (feed_bits bsz p nb) as [[| | |] p1] eqn:Ep; try contradiction; [|lia].
  destruct Hfeed as (HP1 & Hn1 & Hb1 & Hlt1).
  destruct (lookup_stateG R p1 HP1) as (c' & Hc' & Hm' & El & Hreal).
  rewrite El. destruct (c_len c' <=? p_numBits p1) eqn:Ele.
  - apply N.leb_le in Ele.
    pose proof (dv_unique _ _ HV (window' R) c' c Hc' Hc (Hreal Ele) Hm) as ->.
    destruct (btake_ok R p1 (c_len c) HP1 Ele) as (T1 & T2 & T3).
    exists (snd (take_bits p1 (c_len c))). split; [reflexivity|].
    split; [exact T1|]. split; [rewrite T2; exact Hb1|].
    intros Hb. rewrite T3. specialize (Hlt1 Hb). lia.
  - apply N.leb_gt in Ele.
    pose proof (HQ2 p1 c' HP1 Hc' Hm' Ele) as HleB.
    destruct (IH p1 (c_len c') HP1 HleB ltac:(lia)) as (p' & E & P' & Hb' & Hla).
    { intros _. lia. }
    exists p'. split; [exact E|]. split; [exact P'|]. split; [rewrite Hb'; exact Hb1|].
    intros Hb. apply Hla. rewrite Hb1. exact Hb.
Qed.

Lemma chunks_nonemptyG : (a_len (d_chunks d) =? 0) = false.
Proof. rewrite (tg_clen _ _ _ HT). apply N.eqb_neq. apply pow2_nz. Qed.

Lemma min_request c : In c codes -> d_minBits d <= c_len c.
Proof. intros Hc. rewrite Hmin. apply min_bits_le. exact Hc. Qed.

Lemma BInv_lt8 R p : BInv' R p -> p_buffered p = false -> p_numBits p < 0 + 8.
Proof.
  intros ((_ & H7 & _) & _) Hb. unfold effd in H7. rewrite Hb in H7. lia.
Qed.

(* THEOREM (a) *)
Theorem br_read_symbol_correct R p c :
  BInv' R p -> In c codes -> matches c (window' R) ->
  (R + N.to_nat (max_bits codes) <= 8 * length data)%nat ->
  exists p', br_read_symbol bsz d p = (RSym (c_sym c mod 2 ^ 27), p') /\
    BPI (R + N.to_nat (c_len c)) p' /\
    bits_read p' = Z.of_nat (R + N.to_nat (c_len c)) /\
    p_buffered p' = p_buffered p /\
    (p_buffered p = true -> BInv' (R + N.to_nat (c_len c)) p').
Proof.
  intros HI Hc Hm Hlen. unfold br_read_symbol. rewrite chunks_nonemptyG.
  pose proof (v_M L codes HL HV) as HM.
  destruct (br_rs_loop_ok (max_bits codes) R c Hc Hm Hlen (max_bits_ge codes c Hc) ltac:(lia)
              (fun p c' _ Hc' _ _ => max_bits_ge codes c' Hc')
              34%nat p (d_minBits d) (BInv_BPI R p HI))
    as (p' & E & P' & Hb & _).
  - eapply N.le_trans; [apply (min_request c Hc) | apply max_bits_ge; exact Hc].
  - lia.
  - intros Hb. pose proof (BInv_lt8 R p HI Hb). lia.
  - exists p'. split; [exact E|]. split; [exact P'|].
    split; [apply (PI_bits_read false data); apply P'|]. split; [exact Hb|].
    intros Hbt. apply BPI_BInv; [exact P'|]. rewrite Hb, Hbt. discriminate.
Qed.

(* THEOREM (b) *)
Theorem br_read_symbol_zero_min R p c :
  zero_min codes ->
  BInv' R p -> In c codes -> matches c (window' R) ->
  (R + N.to_nat (c_len c) <= 8 * length data)%nat ->
  exists p', br_read_symbol bsz d p = (RSym (c_sym c mod 2 ^ 27), p') /\
    BInv' (R + N.to_nat (c_len c)) p' /\
    bits_read p' = Z.of_nat (R + N.to_nat (c_len c)) /\
    p_buffered p' = p_buffered p.
Proof.
  intros HZM HI Hc Hm Hlen. unfold br_read_symbol. rewrite chunks_nonemptyG.
  pose proof (len_le_31' c Hc) as H31.
  destruct (br_rs_loop_ok (c_len c) R c Hc Hm Hlen ltac:(lia) H31) with (fuel := 34%nat) (p := p)
    (nb := d_minBits d) as (p' & E & P' & Hb & Hla).
  - (* the request is bounded by the length of the code word: no look-ahead bits, so the
       look-up sees the real bits followed by zeros *)
    intros q c' (HPq & _ & Z3) Hc' Hm' Hlt.
    destruct (PI_numBits false data Hd R q HPq) as (_ & _ & Ew).
    unfold Zab in Z3. rewrite (N.mod_small _ _ Z3) in Ew.
    destruct (N.le_gt_cases (c_len c) (p_numBits q)) as [Hge|Hk].
    + assert (Hmq : matches c (p_bufBits q)).
      { apply (matches_low c (window' R) (p_bufBits q) (p_numBits q) Hge); [|exact Hm].
        rewrite <- Ew. symmetry. apply N.mod_small. exact Z3. }
      pose proof (dv_unique _ _ HV _ c' c Hc' Hc Hm' Hmq) as ->. lia.
    + apply (HZM c (p_numBits q) c' Hc Hc' Hk).
      unfold matches in Hm. rewrite <- Hm. rewrite mod_mod_pow by lia. rewrite <- Ew. exact Hm'.
  - apply BInv_BPI; exact HI.
  - apply (min_request c Hc).
  - lia.
  - intros Hb. pose proof (BInv_lt8 R p HI Hb). lia.
  - assert (HI' : BInv' (R + N.to_nat (c_len c)) p').
    { apply BPI_BInv; [exact P'|]. intros Hbf. rewrite Hb in Hbf. specialize (Hla Hbf). lia. }
    exists p'. split; [exact E|]. split; [exact HI'|].
    split; [apply (BInv_bits_read data); exact HI' | exact Hb].
Qed.

(* THEOREM (c) *)
Lemma br_rs_loop_eof R :
  (forall c, In c codes -> matches c (window' R) -> (8 * length data < R + N.to_nat (c_len c))%nat) ->
  forall fuel p nb, BPI R p -> nb <= 31 -> 31 < nb + N.of_nat fuel ->
    (p_buffered p = false -> p_numBits p < nb + 8) ->
    exists p', br_read_symbol_loop fuel bsz d p nb = (RUEOF, p').
Proof.
  intros Hend. induction fuel as [|fuel IH]; intros p nb HP Hnb Hfuel Hlt; [lia|].
  cbn [br_read_symbol_loop].
  pose proof (bfeed_ok R p nb HP ltac:(lia) Hlt) as Hfeed.
  destruct (feed_bits bsz p nb) as [[| | |] p1] eqn:Ep; try contradiction; [|exists p1; reflexivity].
  destruct Hfeed as (HP1 & Hn1 & Hb1 & Hlt1).
  destruct (lookup_stateG R p1 HP1) as (c' & Hc' & Hm' & El & Hreal).
  rewrite El. destruct (c_len c' <=? p_numBits p1) eqn:Ele.
  - apply N.leb_le in Ele. exfalso.
    pose proof (Hend c' Hc' (Hreal Ele)) as Hshort.
    destruct HP1 as (HP1 & _). destruct (PI_numBits false data Hd R p1 HP1) as (_ & Hin & _). lia.
  - apply N.leb_gt in Ele. apply IH; [exact HP1 | apply len_le_31'; exact Hc' | lia | intros _; lia].
Qed.

Theorem br_read_symbol_eof R p :
  BInv' R p ->
  (forall c, In c codes -> matches c (window' R) -> (8 * length data < R + N.to_nat (c_len c))%nat) ->
  exists p', br_read_symbol bsz d p = (RUEOF, p').
Proof.
  intros HI Hend. unfold br_read_symbol. rewrite chunks_nonemptyG.
  apply (br_rs_loop_eof R Hend 34%nat p (d_minBits d) (BInv_BPI R p HI)).
  - rewrite Hmin. pose proof (min_bits_le27 codes). lia.
  - lia.
  - intros Hb. pose proof (BInv_lt8 R p HI Hb). lia.
Qed.

End BrReadSymbol.

Print Assumptions br_read_symbol_correct.
Print Assumptions br_read_symbol_zero_min.
Print Assumptions br_read_symbol_eof.

(* ---- non-vacuity: Init (assignCodes) over ANY stale storage, then ReadSymbol over ANY script
   of the underlying reader, on both paths ------------------------------------------------------ *)
Definition ex_stream : list byte := [255; 7; 0].     (* eleven 1 bits: the code word of symbol 11 *)

Lemma ex_stream_bytes : forall b, In b ex_stream -> b < 256.
Proof. intros b H. repeat (destruct H as [<-|H]; [reflexivity|]). destruct H. Qed.

Example ex_init_then_read oldC oldL :
  exists d, br_dec_init oldC oldL ex_codes true = BOk (d, canon_codes (lens_of ex_codes)) /\
    forall bf reads, exists p',
      br_read_symbol 16 d (binit ex_stream bf reads) = (RSym 11, p') /\
      bits_read p' = 11%Z /\ BInv ex_stream 11 p'.
Proof.
  destruct ex_codes_hyps as (H1 & H2 & H3 & H4 & H5).
  destruct (br_init_assign_correct ex_codes oldC oldL H1 H2 H3 H4 H5)
    as (d & E & HV & HT & Hmin & _ & _ & _).
  exists d. split; [exact E|]. intros bf reads.
  assert (Hp : Flate.Canon.lens_pos (lens_of ex_codes)).
  { intros s l Hin. destruct (in_lens_of _ _ _ Hin) as (c & Hc & _ & <-). apply H4, Hc. }
  pose proof (Prefix.DecCanonThms.canon_zero_min (lens_of ex_codes) Hp H5) as HZM.
  destruct (br_read_symbol_zero_min ex_stream ex_stream_bytes 16 ltac:(lia) 15
              (canon_codes (lens_of ex_codes)) ltac:(lia) HV d _ HT Hmin 0
              (binit ex_stream bf reads) (11, 11, 2047) HZM (BInv_init ex_stream bf reads))
    as (p' & Er & HI' & Hbr & _).
  - vm_compute. tauto.
  - vm_compute. reflexivity.
  - vm_compute. lia.
  - exists p'. split; [exact Er|]. split; [exact Hbr | exact HI'].
Qed.

(* the stream ends inside the code word: io.ErrUnexpectedEOF *)
Example ex_init_then_eof oldC oldL :
  exists d, br_dec_init oldC oldL ex_codes true = BOk (d, canon_codes (lens_of ex_codes)) /\
    forall bf reads, exists p', br_read_symbol 16 d (binit [255] bf reads) = (RUEOF, p').
Proof.
  destruct ex_codes_hyps as (H1 & H2 & H3 & H4 & H5).
  destruct (br_init_assign_correct ex_codes oldC oldL H1 H2 H3 H4 H5)
    as (d & E & HV & HT & Hmin & _ & _ & _).
  exists d. split; [exact E|]. intros bf reads.
  assert (Hb : forall b, In b [255] -> b < 256) by (intros b [<-|[]]; reflexivity).
  apply (br_read_symbol_eof [255] Hb 16 ltac:(lia) 15 (canon_codes (lens_of ex_codes)) ltac:(lia)
           HV d _ HT Hmin 0 (binit [255] bf reads) (BInv_init [255] bf reads)).
  intros c Hc Hm. clear - Hc Hm. vm_compute in Hc.
  repeat (destruct Hc as [<-|Hc]; [try (vm_compute in Hm; discriminate); vm_compute; lia|]).
  destruct Hc.
Qed.
