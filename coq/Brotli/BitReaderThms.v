(* Proof that the implementation-level model of brotli's bitReader
   (Brotli/BitReaderImpl.v) refines the abstract bit-stream specification
   (Brotli/BitReaderSpec.v), on both source paths, for every data, every script of the
   underlying reader, every bufio buffer size >= 16 and every history.

   The invariant is that of Prefix/ReaderThms.v ([Inv]: the bit buffer is bit for bit the
   stream window at the read position R, 8*offset + discardBits + fedBits - numBits = R,
   bufPeek is the stream bytes that follow the bit buffer) with [p_big] = false, plus:
   the bufio.Reader holds no more than the stream has ([Bok]). *)
From V Require Import Base.Prelude Prefix.ReaderImpl Prefix.ReaderSpec Prefix.ReaderThms
  Prefix.DecTable Prefix.DecTableSpec Prefix.DecTableThms Prefix.DecReadThms
  Brotli.BitReaderImpl Brotli.BitReaderSpec.
From Coq Require Import ZifyBool ZifyN ZifyNat.

Local Open Scope N_scope.

Ltac prj := cbn [p_src p_buffered p_big p_bufBits p_numBits p_peek p_discard p_fed p_offset
                 s_data s_pos s_buf s_fills s_reads fst snd].

Lemma In_firstn' {A} (x : A) n l : In x (firstn n l) -> In x l.
Proof.
  intros H. rewrite <- (firstn_skipn n l). apply in_or_app. left. exact H.
Qed.

(* ------------------------------------------------------------------------- *)
(* (1) the bufio.Reader                                                      *)
(* ------------------------------------------------------------------------- *)
Section Bufio.
Variable data : list byte.

(* the bufio.Reader reads [data] and buffers no more than what is left *)
Definition Bok (s : src) : Prop :=
  s_data s = data /\ (s_pos s + s_buf s <= length data)%nat.

Lemma under_read_spec s len : Bok s -> (1 <= len)%nat ->
  exists n eof reads, under_read s len = ((n, eof), reads) /\
    (n <= len)%nat /\ (s_pos s + s_buf s + n <= length data)%nat /\
    (eof = true -> n = O /\ (s_pos s + s_buf s = length data)%nat) /\
    (eof = false -> (1 <= n)%nat).
Proof.
  intros [Hd Hb] Hl. unfold under_read. rewrite Hd.
  destruct (Nat.eqb (length data - (s_pos s + s_buf s)) 0) eqn:E.
  - apply Nat.eqb_eq in E. exists O, true, (s_reads s). split; [reflexivity|].
    repeat split; try lia; discriminate.
  - apply Nat.eqb_neq in E.
    destruct (s_reads s) as [|e r].
    + eexists _, false, _. split; [reflexivity|]. repeat split; try lia; discriminate.
    + eexists _, false, _. split; [reflexivity|]. repeat split; try lia; discriminate.
Qed.

Lemma bufio_fill_spec bsz s : Bok s -> (s_buf s < bsz)%nat ->
  exists eof s', bufio_fill bsz s = (eof, s') /\ Bok s' /\ s_pos s' = s_pos s /\
    (eof = true -> s_buf s' = s_buf s /\ (s_pos s + s_buf s = length data)%nat) /\
    (eof = false -> (s_buf s < s_buf s' <= bsz)%nat).
Proof.
  intros HB Hlt. unfold bufio_fill.
  destruct (under_read_spec s (bsz - s_buf s) HB ltac:(lia)) as (n & eof & reads & E & H1 & H2 & H3 & H4).
  rewrite E. exists eof. eexists. split; [reflexivity|]. destruct HB as [Hd Hb].
  split; [split; prj; [exact Hd | lia]|]. split; [reflexivity|]. prj. split.
  - intros He. destruct (H3 He). lia.
  - intros He. specialize (H4 He). lia.
Qed.

Lemma peek_fill_spec bsz n : forall fuel s, Bok s ->
  (n <= bsz \/ n <= s_buf s)%nat -> (n - s_buf s < fuel)%nat ->
  let s' := peek_fill fuel bsz s n in
  Bok s' /\ s_pos s' = s_pos s /\
  (n <= s_buf s' \/ s_pos s' + s_buf s' = length data)%nat.
Proof.
  induction fuel as [|fuel IH]; intros s HB Hn Hf; [lia|].
  cbn [peek_fill].
  destruct (Nat.ltb (s_buf s) n && Nat.ltb (s_buf s) bsz) eqn:E.
  - apply andb_true_iff in E as [E1 E2]. apply Nat.ltb_lt in E1. apply Nat.ltb_lt in E2.
    destruct (bufio_fill_spec bsz s HB E2) as (eof & s1 & Ef & HB1 & Hp1 & He1 & He2).
    rewrite Ef. destruct eof.
    + destruct (He1 eq_refl) as [Hb1 Hend]. split; [exact HB1|]. split; [exact Hp1|]. right. lia.
    + specialize (He2 eq_refl).
      destruct (IH s1 HB1) as (G1 & G2 & G3); [lia | lia |].
      split; [exact G1|]. split; [congruence | exact G3].
  - split; [exact HB|]. split; [reflexivity|]. left.
    apply andb_false_iff in E as [E|E]; apply Nat.ltb_ge in E; lia.
Qed.

(* Peek(n) hands out the next n bytes of the stream (all that is left when fewer) *)
Lemma bufio_peek_spec bsz s n : Bok s -> (n <= bsz \/ n <= s_buf s)%nat ->
  exists e s', bufio_peek bsz s n = ((firstn n (skipn (s_pos s) data), e), s') /\
    Bok s' /\ s_pos s' = s_pos s.
Proof.
  intros HB Hn. unfold bufio_peek.
  destruct (peek_fill_spec bsz n (S n) s HB Hn ltac:(lia)) as (G1 & G2 & G3).
  set (s' := peek_fill (S n) bsz s n) in *.
  eexists _, s'. split; [|split; [exact G1 | exact G2]].
  f_equal. f_equal. destruct G1 as [Hd Hb]. rewrite Hd, G2.
  destruct (Nat.le_gt_cases n (s_buf s')) as [Hle|Hgt].
  - f_equal. lia.
  - destruct G3 as [G3|G3]; [lia|].
    replace (Nat.min n (s_buf s')) with (s_buf s') by lia.
    assert (HL : length (skipn (s_pos s) data) = s_buf s') by (rewrite skipn_length; lia).
    rewrite <- HL at 1. rewrite firstn_all. symmetry. apply firstn_all2. lia.
Qed.

(* Discard(n) of no more than what is left: n bytes, no error *)
Lemma discard_loop_spec bsz n : (1 <= bsz)%nat -> forall fuel s remain, Bok s ->
  (1 <= remain)%nat -> (s_pos s + remain <= length data)%nat -> (remain <= fuel)%nat ->
  exists s', discard_loop fuel bsz s remain n = ((n, false), s') /\ Bok s' /\
    s_pos s' = (s_pos s + remain)%nat.
Proof.
  intros Hbsz. induction fuel as [|fuel IH]; intros s remain HB H1 H2 Hf; [lia|].
  cbn [discard_loop].
  assert (Hs1 : exists eof s1,
            (if Nat.eqb (s_buf s) 0 then bufio_fill bsz s else (false, s)) = (eof, s1) /\
            Bok s1 /\ s_pos s1 = s_pos s /\ (eof = false -> 1 <= s_buf s1)%nat /\
            (eof = true -> s_pos s = length data)).
  { destruct (Nat.eqb (s_buf s) 0) eqn:E0.
    - apply Nat.eqb_eq in E0.
      destruct (bufio_fill_spec bsz s HB ltac:(lia)) as (eof & s1 & Ef & HB1 & Hp1 & He1 & He2).
      exists eof, s1. split; [exact Ef|]. split; [exact HB1|]. split; [exact Hp1|]. split.
      + intros He. specialize (He2 He). lia.
      + intros He. destruct (He1 He). lia.
    - apply Nat.eqb_neq in E0. exists false, s. split; [reflexivity|]. split; [exact HB|].
      split; [reflexivity|]. split; [intros _; lia | discriminate]. }
  destruct Hs1 as (eof & s1 & E1 & HB1 & Hp1 & Hb1 & Hend). rewrite E1.
  assert (Heof : eof = false) by (destruct eof; [specialize (Hend eq_refl); lia | reflexivity]).
  subst eof. specialize (Hb1 eq_refl). destruct HB1 as [Hd1 Hk1].
  set (skip := Nat.min (s_buf s1) remain).
  set (s2 := mkSrc (s_data s1) (s_pos s1 + skip) (s_buf s1 - skip) (s_fills s1) (s_reads s1)).
  assert (HB2 : Bok s2) by (split; unfold s2; prj; [exact Hd1 | lia]).
  destruct (Nat.eqb (remain - skip) 0) eqn:Er.
  - apply Nat.eqb_eq in Er. exists s2. split; [reflexivity|]. split; [exact HB2|].
    unfold s2, skip in *. prj. lia.
  - apply Nat.eqb_neq in Er.
    destruct (IH s2 (remain - skip)%nat HB2) as (s' & E' & HB' & Hp'); try (unfold s2, skip in *; prj; lia).
    exists s'. split; [exact E'|]. split; [exact HB'|]. rewrite Hp'. unfold s2, skip. prj. lia.
Qed.

Lemma bufio_discard_spec bsz s n : (1 <= bsz)%nat -> Bok s ->
  (s_pos s + n <= length data)%nat ->
  exists s', bufio_discard bsz s n = ((n, false), s') /\ Bok s' /\ s_pos s' = (s_pos s + n)%nat.
Proof.
  intros Hbsz HB Hn. unfold bufio_discard. destruct (Nat.eqb n 0) eqn:E.
  - apply Nat.eqb_eq in E. subst n. exists s. split; [reflexivity|]. split; [exact HB | lia].
  - apply Nat.eqb_neq in E. apply discard_loop_spec; try assumption; lia.
Qed.

(* Read(p), len(p) = k *)
Lemma bufio_read_spec bsz s k : (1 <= bsz)%nat -> Bok s ->
  exists n eof s', bufio_read bsz s k = ((firstn n (skipn (s_pos s) data), eof), s') /\
    Bok s' /\ s_pos s' = (s_pos s + n)%nat /\ (n <= k)%nat /\ (s_pos s + n <= length data)%nat /\
    (eof = true -> n = O /\ s_pos s = length data) /\
    (eof = false -> n = O -> k = O) /\
    (k <> O -> s_pos s = length data -> eof = true).
Proof.
  intros Hbsz HB. pose proof HB as [Hd Hb]. unfold bufio_read.
  destruct (Nat.eqb k 0) eqn:Ek.
  { apply Nat.eqb_eq in Ek. subst k. exists O, false, s. cbn [firstn]. split; [reflexivity|].
    split; [exact HB|]. repeat split; try lia; try discriminate. }
  apply Nat.eqb_neq in Ek.
  destruct (Nat.eqb (s_buf s) 0) eqn:E0.
  - apply Nat.eqb_eq in E0.
    destruct (Nat.leb bsz k) eqn:Eb.
    + destruct (under_read_spec s k HB ltac:(lia)) as (n & eof & reads & E & H1 & H2 & H3 & H4).
      rewrite E, Hd. exists n, eof. eexists. split; [reflexivity|].
      split; [split; prj; [reflexivity | lia]|]. prj.
      repeat split; try lia;
        try (intros He; destruct (H3 He); lia);
        try (intros He Hn; specialize (H4 He); lia);
        try (intros _ Hend; destruct eof; [reflexivity|]; specialize (H4 eq_refl); lia).
    + destruct (under_read_spec s bsz HB Hbsz) as (m & eof & reads & E & H1 & H2 & H3 & H4).
      rewrite E, Hd. exists (Nat.min k m), eof. eexists. split; [reflexivity|].
      split; [split; prj; [reflexivity | lia]|]. prj.
      repeat split; try lia;
        try (intros He; destruct (H3 He); lia);
        try (intros He Hn; specialize (H4 He); lia);
        try (intros _ Hend; destruct eof; [reflexivity|]; specialize (H4 eq_refl); lia).
  - apply Nat.eqb_neq in E0. rewrite Hd.
    exists (Nat.min k (s_buf s)), false. eexists. split; [reflexivity|].
    split; [split; prj; [reflexivity | lia]|]. prj.
    repeat split; try lia; try discriminate.
Qed.

End Bufio.

(* ------------------------------------------------------------------------- *)
(* (2) the bitReader                                                         *)
(* ------------------------------------------------------------------------- *)
Section BitReader.
Variable data : list byte.
Hypothesis Hd : forall b, In b data -> b < 256.
Variable bsz : nat.

Notation Inv' := (Inv false data).
Notation InvS' := (InvS false data).
Notation Core' := (Core false data).
Notation Win' := (Win false data).
Notation LI' := (LI false data).
Notation Bok' := (Bok data).

(* the invariant between operations *)
(* no look-ahead bits: brotli's FeedBits loads byte by byte *)
Definition Zab (p : prd) : Prop := p_bufBits p < 2 ^ p_numBits p.

Definition BInv (R : nat) (p : prd) : Prop :=
  Inv' R p /\ (p_buffered p = true -> Bok' (p_src p)) /\ Zab p.
Definition BInvS (k : Z) (R : nat) (p : prd) : Prop :=
  InvS' k R p /\ (p_buffered p = true -> Bok' (p_src p)) /\ Zab p.

Lemma zab_take p nb : Zab p -> nb <= p_numBits p -> Zab (snd (take_bits p nb)).
Proof.
  unfold Zab, take_bits. prj. intros HZ Hnb.
  rewrite N.shiftr_div_pow2. apply N.div_lt_upper_bound; [apply N.pow_nonzero; discriminate|].
  rewrite <- N.pow_add_r. replace (nb + (p_numBits p - nb)) with (p_numBits p) by lia. exact HZ.
Qed.

Lemma zab_load_byte v s c : v < 2 ^ s -> c < 256 -> s + 8 <= 64 ->
  N.lor v (u64 (N.shiftl c s)) < 2 ^ (s + 8).
Proof.
  intros Hv Hc Hs.
  assert (Hw : N.shiftl c s < 2 ^ (s + 8)).
  { rewrite N.shiftl_mul_pow2, (N.add_comm s 8), N.pow_add_r. change (2 ^ 8) with 256.
    apply N.mul_lt_mono_pos_r; [apply N.neq_0_lt_0, N.pow_nonzero; discriminate | exact Hc]. }
  assert (Hu : u64 (N.shiftl c s) = N.shiftl c s).
  { unfold u64. apply N.mod_small. eapply N.lt_le_trans; [exact Hw|]. apply N.pow_le_mono_r; lia. }
  rewrite Hu.
  destruct (N.eq_dec (N.lor v (N.shiftl c s)) 0) as [E0|Hne];
    [rewrite E0; apply N.neq_0_lt_0, N.pow_nonzero; discriminate|].
  apply N.log2_lt_pow2; [lia|]. rewrite N.log2_lor.
  assert (Hv' : 2 ^ s <= 2 ^ (s + 8)) by (apply N.pow_le_mono_r; lia).
  apply N.max_lub_lt.
  - destruct (N.eq_dec v 0) as [->|Hv0]; [cbn; lia|]. apply N.log2_lt_pow2; lia.
  - destruct (N.eq_dec (N.shiftl c s) 0) as [->|Hc0]; [cbn; lia|]. apply N.log2_lt_pow2; lia.
Qed.

Lemma zab_load_bytes l : forall v s, v < 2 ^ s -> (forall c, In c l -> c < 256) ->
  s + 8 * N.of_nat (length l) <= 64 ->
  fst (load_bytes false v s l) < 2 ^ snd (load_bytes false v s l).
Proof.
  induction l as [|c l IH]; intros v s Hv Hl Hs.
  - cbn [load_bytes fold_left fst snd]. exact Hv.
  - rewrite load_bytes_cons. cbn [length] in Hs. apply IH.
    + cbn [ord]. apply zab_load_byte; [exact Hv | apply Hl; left; reflexivity | lia].
    + intros c' Hc'. apply Hl. right. exact Hc'.
    + lia.
Qed.

Lemma zab_drain k : forall p acc, Zab p -> p_numBits p mod 8 = 0 ->
  Zab (snd (drain k p acc)) /\ p_src (snd (drain k p acc)) = p_src p.
Proof.
  induction k as [|k IH]; intros p acc HZ Hm.
  - cbn [drain snd]. split; [exact HZ | reflexivity].
  - rewrite drain_S. destruct (p_numBits p =? 0) eqn:E0.
    + cbn [snd]. split; [exact HZ | reflexivity].
    + destruct (IH (snd (take_bits p 8)) (ord (p_big p) (fst (take_bits p 8)) :: acc)) as [G1 G2].
      * apply zab_take; [exact HZ | lia].
      * unfold take_bits. prj. lia.
      * split; [exact G1|]. rewrite G2. reflexivity.
Qed.

Lemma BInv_init bf reads : BInv 0 (binit data bf reads).
Proof.
  split; [apply Inv_init|]. split.
  - intros _. unfold binit, init. prj. split; prj; [reflexivity | lia].
  - unfold Zab, binit, init. prj. cbn. lia.
Qed.

Lemma BInv_bits_read R p : BInv R p -> bits_read p = Z.of_nat R.
Proof. intros [H _]. eapply Inv_bits_read; exact H. Qed.

(* ---- take_bits -------------------------------------------------------------- *)
Lemma btake_bits_ok R p nb : BInvS (Z.of_N nb) R p -> nb <= p_numBits p ->
  fst (take_bits p nb) = bits_at (bstream data) R (N.to_nat nb) /\
  BInv (R + N.to_nat nb) (snd (take_bits p nb)) /\
  p_buffered (snd (take_bits p nb)) = p_buffered p /\
  p_numBits (snd (take_bits p nb)) = p_numBits p - nb /\
  (R + N.to_nat nb <= 8 * length data)%nat.
Proof.
  intros (HI & HB & HZ) Hnb.
  destruct (take_bits_ok false data Hd R p nb HI Hnb) as (H1 & H2 & H3 & H4).
  split; [exact H1|]. split; [|split; [exact H3|split; [exact H4|]]].
  - split; [exact H2|]. split; [unfold take_bits; prj; exact HB | apply zab_take; assumption].
  - destruct HI as ([_ _ _ _ [_ _ W3 _ _] _] & _ & _). lia.
Qed.

(* ---- FlushOffset --------------------------------------------------------------- *)
Hypothesis Hbsz : (16 <= bsz)%nat.

Lemma bflush_ok R p : BInv R p ->
  let p' := bflush bsz p in
  BInv R p' /\ p_buffered p' = p_buffered p /\
  p_offset p' = Z.of_nat ((R + 7) / 8) /\ s_pos (p_src p') = ((R + 7) / 8)%nat /\
  p_bufBits p' = p_bufBits p /\ p_numBits p' = p_numBits p /\
  (p_buffered p = true ->
     p_peek p' = [] /\ p_fed p' = p_numBits p' /\ (p_discard p' <= 0)%Z).
Proof.
  intros ((HC & Hd7 & Hpk) & HB & HZ). cbv zeta. unfold bflush. destruct (p_buffered p) eqn:Hb; cbn [negb].
  - specialize (HB eq_refl).
    destruct HC as [C1 C2 C3 C4 C5 C6]. pose proof C5 as [W1 W2 W3 W4 W5].
    unfold effd in *. rewrite Hb in *.
    set (disc := (p_discard p + (Z.of_N (p_fed p) - Z.of_N (p_numBits p)))%Z) in *.
    destruct (bufio_discard_spec data bsz (p_src p) (Z.to_nat ((disc + 7) / 8)) ltac:(lia) HB)
      as (s' & E & HB' & Hp'); [lia|].
    rewrite E. prj.
    split; [|split; [reflexivity|split; [lia|split; [lia|split; [reflexivity|split; [reflexivity|
      intros _; split; [reflexivity|split; [reflexivity|lia]]]]]]]].
    split; [|split; [intros _; exact HB' | exact HZ]].
    unfold Inv, effd. prj. destruct HB' as [Hd' Hk'].
    split; [|split]; [|lia|discriminate].
    split; prj; try assumption; try reflexivity; try lia.
  - assert (HR : p_offset p = Z.of_nat ((R + 7) / 8) /\ s_pos (p_src p) = ((R + 7) / 8)%nat).
    { destruct HC as [C1 C2 C3 C4 C5 C6]. destruct C5 as [W1 W2 W3 W4 W5].
      unfold effd in *. rewrite Hb in *. lia. }
    destruct HR as [HR1 HR2].
    split; [split; [split; [exact HC|split; [exact Hd7|intros _; apply Hpk; reflexivity]]
                   |split; [intros H; congruence | exact HZ]]|].
    split; [exact Hb|]. split; [exact HR1|]. split; [exact HR2|].
    split; [reflexivity|]. split; [reflexivity|]. intros H; discriminate.
Qed.

(* ---- FeedBits, bufio path: one round of the loop, in two halves ------------------ *)
Definition brefill (p : prd) (nb : N) : prd * option nat :=
  match p_peek p with
  | [] =>
    let p0 := mkPrd (p_src p) true (p_big p) (p_bufBits p) (p_numBits p) [] (p_discard p)
                    (p_numBits p) (p_offset p) in
    let pf := bflush bsz p0 in
    let b := s_buf (p_src pf) in
    let cnt := if Nat.ltb 8 b then b else 8%nat in
    let '((bytes, _), s2) := bufio_peek bsz (p_src pf) cnt in
    let k := N.to_nat (p_numBits pf / 8) in
    if Nat.ltb (length bytes) k then (pf, Some 2%nat)
    else
      let peek := skipn k bytes in
      let pp := mkPrd s2 true (p_big pf) (p_bufBits pf) (p_numBits pf) peek (p_discard pf)
                      (p_fed pf) (p_offset pf) in
      match peek with
      | [] => if nb <=? p_numBits pf then (pp, Some 0%nat) else (pp, Some 1%nat)
      | _ => (pp, None)
      end
  | _ => (p, None)
  end.

Definition bloadp (p1 : prd) : fres :=
  if 72 <=? p_numBits p1 then FCrash p1
  else
    let cnt := N.to_nat ((64 - p_numBits p1) / 8) in
    let n' := Nat.min cnt (length (p_peek p1)) in
    let '(bits, nbits) := load_bytes false (p_bufBits p1) (p_numBits p1) (firstn n' (p_peek p1)) in
    let p2 := mkPrd (p_src p1) true (p_big p1) bits nbits (skipn n' (p_peek p1))
                    (p_discard p1) (p_fed p1) (p_offset p1) in
    if 56 <? nbits then FDone p2 else FMore p2.

Lemma feed_round_eq p nb :
  feed_round bsz p nb =
  let '(p1, stop) := brefill p nb in
  match stop with
  | Some O => FDone p1
  | Some (S O) => FEof p1
  | Some _ => FCrash p1
  | None => bloadp p1
  end.
Proof. reflexivity. Qed.

(* the in-loop invariant of FeedBits on the bufio path *)
Definition BLI (R : nat) (p : prd) : Prop := LI' R p /\ Bok' (p_src p) /\ Zab p.

Lemma brefill_ok R p nb : BLI R p -> nb <= 57 ->
  match brefill p nb with
  | (p1, Some O) => BLI R p1 /\ nb <= p_numBits p1
  | (_, Some (S O)) => (8 * length data < R + N.to_nat nb)%nat
  | (_, Some _) => False
  | (p1, None) => BLI R p1 /\ p_peek p1 <> [] /\ p_numBits p1 = p_numBits p
  end.
Proof.
  intros ((Hb & HC & Hd7) & HB & HZ) Hnb57. unfold brefill. destruct (p_peek p) as [|x pk] eqn:Hp.
  2:{ split; [split; [split; [|split]; assumption | split; [exact HB | exact HZ]]|].
      split; [rewrite Hp; discriminate | reflexivity]. }
  set (p0 := mkPrd (p_src p) true (p_big p) (p_bufBits p) (p_numBits p) [] (p_discard p)
                   (p_numBits p) (p_offset p)).
  assert (HI0 : BInv R p0).
  { destruct HC as [C1 C2 C3 C4 C5 C6]. split; [|split; [intros _; exact HB | exact HZ]].
    unfold Inv, effd, p0. prj.
    split; [|split]; [|lia|discriminate].
    split; prj; try assumption; try reflexivity; lia. }
  pose proof (bflush_ok R p0 HI0) as Hf. cbv zeta in Hf.
  set (pf := bflush bsz p0) in *.
  destruct Hf as (HIf & Hbf & Hoff & Hpos & Hbb & Hnb & Hx).
  destruct (Hx eq_refl) as (Hpkf & Hfed & Hd0). clear Hx.
  unfold p0 in Hbf, Hbb, Hnb. cbn [p_buffered p_bufBits p_numBits] in Hbf, Hbb, Hnb.
  destruct HIf as ((HCf & Hd7f & _) & HBf & HZf). specialize (HBf Hbf).
  unfold effd in HCf, Hd7f. rewrite Hbf, Hfed in *.
  destruct HCf as [C1 C2 C3 C4 C5 C6].
  set (cnt := if Nat.ltb 8 (s_buf (p_src pf)) then s_buf (p_src pf) else 8%nat).
  assert (Hcnt : (8 <= cnt)%nat) by (unfold cnt; destruct (Nat.ltb 8 (s_buf (p_src pf))) eqn:E8;
    [apply Nat.ltb_lt in E8|]; lia).
  destruct (bufio_peek_spec data bsz (p_src pf) cnt HBf) as (e & s2 & Epk & HB2 & Hp2).
  { unfold cnt. destruct (Nat.ltb 8 (s_buf (p_src pf))); [right; lia | left; lia]. }
  rewrite Epk. rewrite Hpos.
  set (k := N.to_nat (p_numBits pf / 8)).
  pose proof C5 as [W1 W2 W3 _ _].
  assert (HE : ((R + 7) / 8 + k = (R + N.to_nat (p_numBits pf)) / 8)%nat) by (unfold k; lia).
  set (E := ((R + N.to_nat (p_numBits pf)) / 8)%nat) in *.
  assert (Hlenb : length (firstn cnt (skipn ((R + 7) / 8) data)) =
                  Nat.min cnt (length data - (R + 7) / 8)).
  { rewrite firstn_length, skipn_length. reflexivity. }
  assert (Hk8 : (k <= 8)%nat) by (unfold k; lia).
  destruct (Nat.ltb (length (firstn cnt (skipn ((R + 7) / 8) data))) k) eqn:Ecr.
  { apply Nat.ltb_lt in Ecr. rewrite Hlenb in Ecr. unfold E in HE. lia. }
  apply Nat.ltb_ge in Ecr.
  assert (Hpeek : skipn k (firstn cnt (skipn ((R + 7) / 8) data)) =
                  firstn (cnt - k) (skipn E data)).
  { rewrite skipn_firstn_comm, skipn_skipn', HE. reflexivity. }
  rewrite Hpeek.
  assert (HLI : forall fed,
     BLI R (mkPrd s2 true (p_big pf) (p_bufBits pf) (p_numBits pf)
                 (firstn (cnt - k) (skipn E data)) (p_discard pf) fed (p_offset pf))).
  { intros fed. destruct HB2 as [Hd2 Hk2]. split; [|prj; split; [split; assumption | exact HZf]].
    split; [reflexivity|]. split; [|prj; lia].
    split; prj; try assumption; try lia.
    fold E. rewrite firstn_length_firstn. reflexivity. }
  destruct (firstn (cnt - k) (skipn E data)) as [|y pk'] eqn:Hpk'.
  - assert (HL : length (firstn (cnt - k) (skipn E data)) = 0%nat) by (rewrite Hpk'; reflexivity).
    rewrite firstn_length, skipn_length in HL.
    destruct (nb <=? p_numBits pf) eqn:Enb.
    + split; [apply HLI|]. prj. lia.
    + unfold k, E in *. lia.
  - split; [apply HLI|]. split; [discriminate|]. prj. exact Hnb.
Qed.

Lemma bloadp_ok R p1 : BLI R p1 -> p_peek p1 <> [] ->
  match bloadp p1 with
  | FMore p' => BLI R p' /\ p_numBits p1 + 8 <= p_numBits p' /\ p_numBits p' <= 56
  | FDone p' => BLI R p' /\ 57 <= p_numBits p'
  | FEof _ | FCrash _ => False
  end.
Proof.
  intros ((Hb & HC & Hd7) & HB & HZ) Hne. destruct HC as [C1 C2 C3 C4 C5 C6].
  pose proof C5 as [W1 W2 W3 _ _].
  set (E := ((R + N.to_nat (p_numBits p1)) / 8)%nat) in *.
  destruct (peek_len_le data Hd _ _ _ C6) as [HL|HL]; [|contradiction]. fold E in HL.
  assert (Hne' : (1 <= length (p_peek p1))%nat).
  { destruct (p_peek p1); [contradiction|cbn [length]; lia]. }
  unfold bloadp.
  replace (72 <=? p_numBits p1) with false by lia.
  set (n := N.to_nat ((64 - p_numBits p1) / 8)).
  set (n' := Nat.min n (length (p_peek p1))).
  assert (Hl : length (firstn n' (p_peek p1)) = n').
  { rewrite firstn_length. unfold n'. lia. }
  pose proof (load_bytes_ok false data Hd R (firstn n' (p_peek p1)) _ _ C5) as HLB.
  rewrite Hl in HLB.
  pose proof (zab_load_bytes (firstn n' (p_peek p1)) _ _ HZ) as HZL. rewrite Hl in HZL.
  destruct (load_bytes false (p_bufBits p1) (p_numBits p1) (firstn n' (p_peek p1)))
    as [bits nbits].
  cbn [fst snd] in HZL.
  assert (HZ2 : bits < 2 ^ nbits).
  { apply HZL; [|unfold n', n; lia].
    intros c Hc. apply Hd. apply (In_skipn' c E). apply In_firstn' in Hc. rewrite C6 in Hc.
    apply In_firstn' in Hc. exact Hc. }
  destruct HLB as [-> HW].
  { fold E. rewrite C6, firstn_firstn. f_equal. unfold n'. lia. }
  { unfold n', n. lia. }
  assert (HLI : BLI R (mkPrd (p_src p1) true (p_big p1) bits (p_numBits p1 + 8 * N.of_nat n')
                             (skipn n' (p_peek p1)) (p_discard p1) (p_fed p1) (p_offset p1))).
  { split; [|prj; split; [exact HB | exact HZ2]]. split; [reflexivity|]. split; [|exact Hd7].
    split; prj; try assumption; try reflexivity.
    replace ((R + N.to_nat (p_numBits p1 + 8 * N.of_nat n')) / 8)%nat with (E + n')%nat
      by (unfold E; lia).
    apply peek_skip. exact C6. }
  destruct (56 <? p_numBits p1 + 8 * N.of_nat n') eqn:E56.
  - split; [exact HLI|]. prj. lia.
  - split; [exact HLI|]. prj. unfold n', n in *. lia.
Qed.

Lemma feed_round_ok R p nb : BLI R p -> nb <= 57 ->
  match feed_round bsz p nb with
  | FMore p' => BLI R p' /\ p_numBits p + 8 <= p_numBits p' /\ p_numBits p' <= 56
  | FDone p' => BLI R p' /\ nb <= p_numBits p'
  | FEof _ => (8 * length data < R + N.to_nat nb)%nat
  | FCrash _ => False
  end.
Proof.
  intros HLI Hnb. rewrite feed_round_eq.
  pose proof (brefill_ok R p nb HLI Hnb) as Hr.
  destruct (brefill p nb) as [p1 [[|[|k]]|]].
  - exact Hr.
  - exact Hr.
  - exact Hr.
  - destruct Hr as (H1 & H2 & H3).
    pose proof (bloadp_ok R p1 H1 H2) as Hl.
    destruct (bloadp p1) as [p'|p'|p'|p'].
    + rewrite <- H3. exact Hl.
    + destruct Hl as [Hl1 Hl2]. split; [exact Hl1 | lia].
    + contradiction.
    + contradiction.
Qed.

(* fuel adequacy: every FMore round adds at least 8 bits and leaves at most 56 *)
Lemma feed_loop_ok R nb : nb <= 57 -> forall fuel p,
  BLI R p -> 72 <= p_numBits p + 8 * N.of_nat fuel ->
  match feed_loop fuel bsz p nb with
  | (FdOk, p') => BLI R p' /\ nb <= p_numBits p'
  | (FdEof, _) => (8 * length data < R + N.to_nat nb)%nat
  | (FdCrash, _) | (FdFuel, _) => False
  end.
Proof.
  intros Hnb. induction fuel as [|fuel IH]; intros p HLI Hfuel.
  - destruct HLI as ((_ & [_ _ _ _ [W _ _ _ _] _] & _) & _ & _). lia.
  - cbn [feed_loop]. pose proof (feed_round_ok R p nb HLI Hnb) as Hr.
    destruct (feed_round bsz p nb) as [p'|p'|p'|p'].
    + destruct Hr as (H1 & H2 & H3). apply IH; [exact H1 | lia].
    + exact Hr.
    + exact Hr.
    + exact Hr.
Qed.

Lemma feed_bits_ok R p nb : BInv R p -> nb <= 57 ->
  match feed_bits bsz p nb with
  | (FdOk, p') => BInvS (Z.of_N nb) R p' /\ nb <= p_numBits p' /\ p_buffered p' = p_buffered p /\
                  (p_buffered p = true -> BInv R p')
  | (FdEof, _) => (8 * length data < R + N.to_nat nb)%nat
  | (FdCrash, _) | (FdFuel, _) => False
  end.
Proof.
  intros ((HC & Hd7 & Hpk) & HB & HZ) Hnb. unfold feed_bits. destruct (p_buffered p) eqn:Hb.
  - specialize (HB eq_refl).
    set (p0 := mkPrd _ _ _ _ _ _ _ _ _).
    assert (HLI : BLI R p0).
    { unfold effd in *. rewrite Hb in *. destruct HC as [C1 C2 C3 C4 C5 C6].
      split; [|split; [exact HB | exact HZ]]. split; [reflexivity|]. split; [|exact Hd7]. split; assumption. }
    pose proof (feed_loop_ok R nb Hnb 12 p0 HLI) as Hl.
    destruct (feed_loop 12 bsz p0 nb) as [[| | |] p1].
    + destruct Hl as (((Hb1 & HC1 & Hd1) & HB1 & HZ1) & Hnb1); [lia|].
      destruct HC1 as [C1 C2 C3 C4 C5 C6].
      assert (HI1 : Inv' R (mkPrd (p_src p1) true (p_big p1) (p_bufBits p1) (p_numBits p1)
                                  (p_peek p1) (p_discard p1) (p_numBits p1) (p_offset p1))).
      { unfold Inv, effd. prj. split; [|split]; [|lia|discriminate].
        split; prj; try assumption; lia. }
      split; [split; [apply Inv_InvS; [lia | exact HI1] | split; [intros _; exact HB1 | exact HZ1]]|].
      split; [exact Hnb1|]. split; [reflexivity|].
      intros _. split; [exact HI1 | split; [intros _; exact HB1 | exact HZ1]].
    + apply Hl. lia.
    + apply Hl. lia.
    + apply Hl. lia.
  - unfold effd in *. rewrite Hb in *.
    pose proof (pull_bytes_ok false data Hd R nb Hnb (Nat.max 9 (N.to_nat (nb / 8) + 2)) p Hb HC
                              (Hpk eq_refl)) as Hy.
    pose proof (pull_bytes_za data Hd nb Hnb (Nat.max 9 (N.to_nat (nb / 8) + 2)) p) as Hza.
    destruct (pull_bytes (Nat.max 9 (N.to_nat (nb / 8) + 2)) p nb) as [[|] p1].
    + apply Hy; lia.
    + destruct Hy as (H1 & H2 & H3 & H4 & H5); [lia|lia|].
      assert (HZ1 : Zab p1).
      { destruct (Hza p1) as (_ & _ & G); [|reflexivity|exact G].
        destruct HC as [_ C2 _ _ _ _]. split; [exact Hb|]. split; [exact C2 | exact HZ]. }
      split; [|split; [exact H4 | split; [exact H2 | discriminate]]].
      split; [|split; [rewrite H2; discriminate | exact HZ1]].
      unfold InvS, effd. rewrite H2. split; [exact H1|]. split; [lia|]. intros _; exact H3.
Qed.

(* ---- raw Read ------------------------------------------------------------------------ *)
Lemma zab_zero p : Zab p -> p_numBits p = 0 -> p_bufBits p = 0.
Proof. unfold Zab. intros H E. rewrite E in H. change (2 ^ 0) with 1 in H. lia. Qed.

Lemma bread_raw_ok R p k : BInv R p ->
  let '((bs, e), p') := bread_raw bsz p k in
  p_buffered p' = p_buffered p /\
  (((R mod 8 <> 0)%nat /\ bs = [] /\ e = 2 /\ BInv R p') \/
   ((R mod 8 = 0)%nat /\ (length bs <= k)%nat /\
    bs = firstn (length bs) (skipn (R / 8) data) /\
    (e = 1 -> bs = [] /\ (length data <= R / 8)%nat) /\
    (e = 0 -> bs = [] -> k = O) /\ (e = 0 \/ e = 1) /\
    (k <> O -> (length data <= R / 8)%nat -> e = 1) /\
    BInv (R + 8 * length bs) p')).
Proof.
  intros HI. unfold bread_raw.
  pose proof HI as (([C1 C2 C3 C4 C5 C6] & H7 & Hpk) & HB & HZ). pose proof C5 as [W1 W2 W3 _ _].
  destruct (p_numBits p mod 8 =? 0) eqn:Em; cbn [negb].
  2:{ split; [reflexivity|]. left. split; [lia|]. split; [reflexivity|]. split; [reflexivity|]. exact HI. }
  destruct (0 <? p_numBits p) eqn:Epos.
  - destruct HI as (HI0 & _ & _).
    destruct (drain_ok false data Hd k R p [] HI0 ltac:(lia)) as (bs & p' & Hdr & HI' & Hb' & Hbs & Hlen & Hne).
    destruct (zab_drain k p [] HZ ltac:(lia)) as [HZ' Hsrc']. rewrite Hdr in HZ', Hsrc'. cbn [snd] in HZ', Hsrc'.
    rewrite Hdr. cbn [rev app]. split; [exact Hb'|]. right.
    split; [lia|]. split; [exact Hlen|]. split; [exact Hbs|].
    split; [intros H; lia|]. split.
    { intros _ Hnil. destruct k; [reflexivity|]. exfalso. apply Hne; [discriminate|lia|exact Hnil]. }
    split; [left; reflexivity|]. split; [intros _ H; lia|].
    split; [exact HI'|]. split; [|exact HZ']. rewrite Hsrc', Hb'. exact HB.
  - pose proof (bflush_ok R p HI) as Hf. cbv zeta in Hf. set (p1 := bflush bsz p) in *.
    destruct Hf as (HI1 & Hb1 & Hoff & Hpos & Hbb & Hnb & Hx).
    assert (Hpk1 : p_peek p1 = []).
    { destruct (p_buffered p) eqn:Hbp; [apply Hx; reflexivity|].
      destruct HI1 as ((_ & _ & G) & _). apply G. exact Hb1. }
    destruct HI1 as (([D1 D2 D3 D4 D5 D6] & D7 & _) & HB1 & HZ1). destruct D5 as [V1 V2 V3 _ _].
    assert (Hn0 : p_numBits p1 = 0) by lia.
    assert (HR : (R mod 8 = 0)%nat) by lia.
    assert (HP : s_pos (p_src p1) = (R / 8)%nat) by lia.
    assert (Hbb0 : p_bufBits p1 = 0) by (apply zab_zero; assumption).
    assert (HInv : forall s' n, s_data s' = data -> s_pos s' = (s_pos (p_src p1) + n)%nat ->
              (s_pos (p_src p1) + n <= length data)%nat ->
              (p_buffered p1 = true -> Bok' s') ->
              BInv (R + 8 * n) (mkPrd s' (p_buffered p1) (p_big p1) (p_bufBits p1) (p_numBits p1)
                                    (p_peek p1) (p_discard p1) (p_fed p1)
                                    (p_offset p1 + Z.of_nat n)%Z)).
    { intros s' n Hs1 Hs2 Hs3 Hs4. split; [|split; [prj; exact Hs4 | exact HZ1]].
      unfold Inv, effd in *. prj. split; [|split]; [|exact D7|intros _; exact Hpk1].
      split; prj; try assumption; try lia.
      - rewrite Hbb0, Hn0. apply Win_zero; lia.
      - rewrite Hpk1. reflexivity. }
    destruct (p_buffered p1) eqn:Hbuf1.
    + specialize (HB1 eq_refl).
      destruct (bufio_read_spec data bsz (p_src p1) k ltac:(lia) HB1)
        as (n & eof & s' & E & HB' & Hp' & Hnk & Hnl & He1 & He0 & Hex).
      rewrite E.
      assert (Hlen : length (firstn n (skipn (s_pos (p_src p1)) data)) = n).
      { rewrite firstn_length, skipn_length. lia. }
      rewrite Hlen. split; [exact Hb1|]. right.
      split; [exact HR|]. split; [lia|]. split; [rewrite HP; reflexivity|].
      split; [destruct eof; [intros _; destruct (He1 eq_refl) as [-> Hend]; split; [reflexivity|lia]
                            |intros H; discriminate]|].
      split; [destruct eof; [intros H; discriminate|]; intros _ Hnil;
              apply He0; [reflexivity|]; rewrite Hnil in Hlen; cbn [length] in Hlen; lia|].
      split; [destruct eof; [right|left]; reflexivity|].
      split; [intros Hk Hend; rewrite (Hex Hk ltac:(lia)); reflexivity|].
      apply HInv; [apply HB' | exact Hp' | exact Hnl | intros _; exact HB'].
    + unfold src_read, s_avail. rewrite D2.
      destruct (Nat.eqb (length data - s_pos (p_src p1)) 0) eqn:Eav.
      * apply Nat.eqb_eq in Eav. cbn [length]. split; [exact Hb1|]. right.
        split; [exact HR|]. split; [lia|]. split; [reflexivity|].
        split; [intros _; split; [reflexivity|lia]|]. split; [intros H; lia|].
        split; [right; reflexivity|]. split; [intros _ _; reflexivity|].
        apply HInv; [exact D2 | lia | lia | discriminate].
      * apply Nat.eqb_neq in Eav.
        set (lr := match s_reads (p_src p1) with
                   | [] => (k, [])
                   | e :: r => (Nat.max 1 (Nat.min e k), r)
                   end).
        assert (Hlim : (fst lr = k \/ 1 <= fst lr)%nat).
        { unfold lr. destruct (s_reads (p_src p1)); cbn [fst]; lia. }
        destruct lr as [lim reads]. cbn [fst] in Hlim.
        set (n := Nat.min (Nat.min k lim) (length data - s_pos (p_src p1))).
        assert (Hlen : length (firstn n (skipn (s_pos (p_src p1)) data)) = n).
        { rewrite firstn_length, skipn_length. unfold n. lia. }
        rewrite Hlen. split; [exact Hb1|]. right.
        split; [exact HR|]. split; [unfold n; lia|]. split; [rewrite HP; reflexivity|].
        split; [intros H; lia|]. split.
        { intros _ Hnil. rewrite Hnil in Hlen. cbn [length] in Hlen. unfold n in Hlen. lia. }
        split; [left; reflexivity|]. split; [intros _ H; lia|].
        apply HInv; prj; [reflexivity | reflexivity | unfold n; lia | discriminate].
Qed.

(* ------------------------------------------------------------------------- *)
(* (3) one operation against the specification                                *)
(* ------------------------------------------------------------------------- *)
(* [nofeed]: FeedBits is not among the operations. On the ReadByte path FeedBits(nb) consumes
   whole bytes from the source that no later operation can give back, so a history with an
   explicit FeedBits does not satisfy "no over-consumption" there (it does on the bufio path) *)
Definition op_ok (bf : bool) (o : bop) : Prop :=
  match o with
  | BBits nb => nb <= 57
  | BFeed nb => nb <= 57 /\ bf = true
  | _ => True
  end.

Lemma bstep_ok R p o : BInv R p -> op_ok (p_buffered p) o ->
  let '(ob, p') := bstep bsz p o in
  (exists R', bspec_obs data R o ob R' /\ bval_stops (o_val ob) = false /\ BInv R' p' /\
              p_buffered p' = p_buffered p) \/
  (exists nb, (o = BBits nb \/ o = BFeed nb) /\ ob = (VEof, p') /\
              (8 * length data < R + N.to_nat nb)%nat).
Proof.
  intros HI Ho. destruct o as [nb|nb|nb| |k|]; unfold bstep, snap.
  - (* ReadBits *)
    unfold bread_bits. pose proof (feed_bits_ok R p nb HI Ho) as Hp.
    destruct (feed_bits bsz p nb) as [[| | |] p1]; try contradiction.
    + destruct Hp as (HI1 & Hnb1 & Hb1 & _).
      unfold btake. replace (nb <=? p_numBits p1) with true by lia.
      destruct (btake_bits_ok R p1 nb HI1 Hnb1) as (Hv & HI2 & Hb2 & _ & Hle).
      destruct (take_bits p1 nb) as [v p2]. cbn [fst snd] in Hv, HI2, Hb2.
      left. exists (R + N.to_nat nb)%nat. cbn [fval]. rewrite Hv.
      split; [|split; [reflexivity | split; [exact HI2 | congruence]]].
      apply BSBits; [exact Hle | apply BInv_bits_read; exact HI2].
    + right. exists nb. split; [left; reflexivity|]. split; [reflexivity | exact Hp].
  - (* TryReadBits *)
    unfold btry_bits. destruct (p_numBits p <? nb) eqn:E.
    + left. exists R. split; [|split; [reflexivity | split; [exact HI | reflexivity]]].
      apply BSTryNo. apply BInv_bits_read. exact HI.
    + assert (HIS : BInvS (Z.of_N nb) R p).
      { destruct HI as (H1 & H2 & H3). split; [apply Inv_InvS; [lia | exact H1] | split; assumption]. }
      destruct (btake_bits_ok R p nb HIS ltac:(lia)) as (Hv & HI2 & Hb2 & _ & Hle).
      destruct (take_bits p nb) as [v p2]. cbn [fst snd] in Hv, HI2, Hb2.
      left. exists (R + N.to_nat nb)%nat. rewrite Hv.
      split; [|split; [reflexivity | split; [exact HI2 | exact Hb2]]].
      apply BSTry; [exact Hle | apply BInv_bits_read; exact HI2].
  - (* FeedBits (bufio path) *)
    destruct Ho as [Ho Hbf].
    pose proof (feed_bits_ok R p nb HI Ho) as Hp.
    destruct (feed_bits bsz p nb) as [[| | |] p1]; try contradiction.
    + destruct Hp as (HI1 & Hnb1 & Hb1 & HI1').
      specialize (HI1' Hbf).
      left. exists R. cbn [fval].
      split; [|split; [reflexivity | split; [exact HI1' | exact Hb1]]].
      apply BSFeed; [|apply BInv_bits_read; exact HI1' | exact Hnb1].
      destruct HI1' as (([_ _ _ _ [_ _ W3 _ _] _] & _ & _) & _). lia.
    + right. exists nb. split; [right; reflexivity|]. split; [reflexivity | exact Hp].
  - (* ReadPads *)
    unfold read_pads.
    assert (Hn : p_numBits p mod 8 <= p_numBits p) by (apply N.mod_le; lia).
    assert (HIS : BInvS (Z.of_N (p_numBits p mod 8)) R p).
    { destruct HI as (H1 & H2 & H3). split; [apply Inv_InvS; [lia | exact H1] | split; assumption]. }
    destruct (btake_bits_ok R p (p_numBits p mod 8) HIS Hn) as (Hv & HI2 & Hb2 & _ & _).
    destruct (take_bits p (p_numBits p mod 8)) as [v p2]. cbn [fst snd] in Hv, HI2, Hb2.
    left. exists (R + N.to_nat (p_numBits p mod 8))%nat. rewrite Hv.
    assert (He : N.to_nat (p_numBits p mod 8) = ((8 - R mod 8) mod 8)%nat).
    { destruct HI as (([_ _ _ _ [_ W2 _ _ _] _] & _ & _) & _). lia. }
    split; [|split; [reflexivity | split; [exact HI2 | exact Hb2]]].
    pose proof (BInv_bits_read _ _ HI2) as Hbr. rewrite He in *. apply BSPads. exact Hbr.
  - (* raw Read *)
    pose proof (bread_raw_ok R p k HI) as Hr.
    destruct (bread_raw bsz p k) as [[bs e] p'].
    destruct Hr as (Hb' & [(H1 & -> & -> & HI')|(H1 & H2 & H3 & H4 & H5 & H6 & H7 & HI')]).
    + left. exists R. split; [|split; [reflexivity | split; [exact HI' | exact Hb']]].
      apply BSRawUnaligned; [exact H1 | apply BInv_bits_read; exact HI'].
    + left. exists (R + 8 * length bs)%nat.
      split; [|split; [reflexivity | split; [exact HI' | exact Hb']]].
      apply BSRaw; try assumption. apply BInv_bits_read. exact HI'.
  - (* FlushOffset *)
    pose proof (bflush_ok R p HI) as Hf. cbv zeta in Hf.
    destruct Hf as (HI' & Hb' & Hoff & Hpos & _).
    left. exists R. rewrite Hoff.
    split; [|split; [reflexivity | split; [exact HI' | exact Hb']]].
    apply BSFlush; [apply BInv_bits_read; exact HI' | exact Hoff | exact Hpos].
Qed.

(* ------------------------------------------------------------------------- *)
(* (4) histories                                                             *)
(* ------------------------------------------------------------------------- *)
Lemma brun_ok ops : forall R p, BInv R p -> Forall (op_ok (p_buffered p)) ops ->
  bspec_run data R ops (brun bsz p ops).
Proof.
  induction ops as [|o ops IH]; intros R p HI Hok.
  - cbn [brun]. apply BRnil.
  - inversion Hok as [|o' ops' Ho Hops]; subst.
    cbn [brun]. pose proof (bstep_ok R p o HI Ho) as Hs.
    destruct (bstep bsz p o) as [ob p'].
    destruct Hs as [(R' & Hobs & Hnp & HI' & Hb')|(nb & [->| ->] & -> & Heof)].
    + rewrite Hnp. eapply BRcons; [exact Hobs | exact Hnp |]. apply IH; [exact HI'|].
      rewrite Hb'. exact Hops.
    + cbn [o_val fst bval_stops]. apply BRstopBits. exact Heof.
    + cbn [o_val fst bval_stops]. apply BRstopFeed. exact Heof.
Qed.

Lemma bstep_state p o : snd (fst (bstep bsz p o)) = snd (bstep bsz p o).
Proof.
  destruct o as [nb|nb|nb| |k|]; unfold bstep, snap.
  - destruct (bread_bits bsz p nb) as [[r v] p']. reflexivity.
  - destruct (btry_bits p nb) as [v p']. reflexivity.
  - destruct (feed_bits bsz p nb) as [r p']. reflexivity.
  - destruct (read_pads p) as [v p']. reflexivity.
  - destruct (bread_raw bsz p k) as [[bs e] p']. reflexivity.
  - reflexivity.
Qed.

(* D5 cannot occur: after every operation that returns, the bit buffer holds no bits above
   numBits (and the whole invariant holds) *)
Lemma brun_inv ops : forall R p, BInv R p -> Forall (op_ok (p_buffered p)) ops ->
  forall v p', In (v, p') (brun bsz p ops) -> bval_stops v = false -> exists R', BInv R' p'.
Proof.
  induction ops as [|o ops IH]; intros R p HI Hok v p' Hin Hst.
  - destruct Hin.
  - inversion Hok as [|o' ops' Ho Hops]; subst.
    cbn [brun] in Hin. pose proof (bstep_ok R p o HI Ho) as Hs.
    pose proof (bstep_state p o) as Hst1.
    destruct (bstep bsz p o) as [ob p1]. cbn [fst snd] in Hst1.
    destruct Hs as [(R' & Hobs & Hnp & HI' & Hb')|(nb & _ & -> & _)].
    + rewrite Hnp in Hin. destruct Hin as [E|Hin].
      * subst ob. cbn [snd] in Hst1. subst p1. exists R'. exact HI'.
      * apply (IH R' p1 HI' ltac:(rewrite Hb'; exact Hops) v p' Hin Hst).
    + cbn [o_val fst bval_stops] in Hin. destruct Hin as [E|[]]. inversion E; subst. discriminate.
Qed.

End BitReader.

(* ------------------------------------------------------------------------- *)
(* (5) the theorems                                                          *)
(* ------------------------------------------------------------------------- *)
Theorem bitreader_refines_bufio_holds : bitreader_refines_bufio.
Proof.
  intros data bsz reads ops Hd Hbsz Hok.
  apply brun_ok; [exact Hd | exact Hbsz | apply BInv_init |].
  unfold binit, init. cbn [p_buffered].
  eapply Forall_impl; [|exact Hok]. intros [nb|nb|nb| |k|]; cbn; tauto.
Qed.

Theorem bitreader_refines_bytereader_holds : bitreader_refines_bytereader.
Proof.
  intros data bsz reads ops Hd Hbsz Hok Hnf.
  apply brun_ok; [exact Hd | exact Hbsz | apply BInv_init |].
  unfold binit, init. cbn [p_buffered].
  unfold bops_ok, nofeed in *. rewrite Forall_forall in *.
  intros o Ho. specialize (Hok o Ho). specialize (Hnf o Ho).
  destruct o; cbn in *; tauto.
Qed.

(* "no over-consumption after FlushOffset", stated on its own: in every history (either
   path), whenever FlushOffset returns, the offset it returns, the offset field and the
   position of the source are all ceil(bits read / 8) *)
Lemma bspec_run_flush data : forall R ops obs, bspec_run data R ops obs ->
  forall v p, In (VFlush v, p) obs ->
    (v = p_offset p /\ p_offset p = (bits_read p + 7) / 8 /\
     Z.of_nat (s_pos (p_src p)) = (bits_read p + 7) / 8)%Z.
Proof.
  induction 1 as [R|R nb p0 rest Hn|R nb p0 rest Hn|R o ob R' ops obs Hobs Hst Hrun IH]; intros v p Hin.
  - destruct Hin.
  - destruct Hin as [E|[]]. discriminate.
  - destruct Hin as [E|[]]. discriminate.
  - destruct Hin as [E|Hin]; [|apply (IH v p Hin)].
    subst ob. inversion Hobs as [| | | | | | |R0 p0 Hbr Hoff Hpos]; subst.
    change (fst (Nat.divmod (R' + 7) 7 0 7)) with ((R' + 7) / 8)%nat.
    assert (Hz : Z.of_nat ((R' + 7) / 8) = ((Z.of_nat R' + 7) / 8)%Z).
    { rewrite Nat2Z.inj_div, Nat2Z.inj_add. reflexivity. }
    rewrite Hbr, Hoff, Hpos, <- Hz. repeat split; reflexivity.
Qed.

Theorem flush_no_overconsumption data bsz reads bf ops obs v p :
  (forall b, In b data -> b < 256) -> (16 <= bsz)%nat -> bops_ok ops -> (bf = false -> nofeed ops) ->
  brun bsz (binit data bf reads) ops = obs -> In (VFlush v, p) obs ->
  (v = p_offset p /\ p_offset p = (bits_read p + 7) / 8 /\
   Z.of_nat (s_pos (p_src p)) = (bits_read p + 7) / 8)%Z.
Proof.
  intros Hd Hbsz Hok Hnf <- Hin. destruct bf.
  - eapply bspec_run_flush; [apply bitreader_refines_bufio_holds; eassumption | exact Hin].
  - eapply bspec_run_flush; [apply bitreader_refines_bytereader_holds; try eassumption; auto | exact Hin].
Qed.

(* ---- non-vacuity: a concrete history on each path --------------------------------------- *)
Definition ex_data : list byte := [229; 255; 1; 2; 3; 4; 5; 6; 7; 8; 9; 10; 11; 12; 13; 14; 15; 16; 17; 18].
Definition ex_ops : list bop :=
  [BBits 3; BTry 5; BFeed 20; BBits 9; BFlush; BPads; BRaw 2; BFlush; BBits 57; BTry 64; BRaw 3; BBits 57].
Definition ex_ops_byte : list bop :=
  [BBits 3; BTry 5; BBits 9; BFlush; BPads; BRaw 2; BFlush; BBits 57; BTry 64; BRaw 3; BBits 57].

Lemma ex_bytes : forall b, In b ex_data -> b < 256.
Proof. intros b H. repeat (destruct H as [<-|H]; [reflexivity|]). destruct H. Qed.

Example ex_bufio_run :
  map (fun ob => (o_val ob, bits_read (o_state ob), s_pos (p_src (o_state ob))))
      (brun 16 (binit ex_data true [1; 2; 3]%nat) ex_ops) =
  [(VBits 5, 3%Z, 0%nat); (VTry (Some 28), 8%Z, 0%nat);
   (VFeed, 8%Z, 1%nat); (VBits 511, 17%Z, 1%nat);
   (VFlush 3, 17%Z, 3%nat); (VPads 0, 24%Z, 3%nat);
   (VRaw [2; 3] 0, 40%Z, 3%nat); (VFlush 5, 40%Z, 5%nat);
   (VBits 74882273887257860, 97%Z, 5%nat); (VTry None, 97%Z, 5%nat);
   (VRaw [] 2, 97%Z, 5%nat); (VBits 74458959763113477, 154%Z, 13%nat)].
Proof. vm_compute. reflexivity. Qed.

Example ex_bufio_spec : bspec_run ex_data 0 ex_ops (brun 16 (binit ex_data true [1; 2; 3]%nat) ex_ops).
Proof.
  apply bitreader_refines_bufio_holds; [exact ex_bytes | lia |].
  repeat constructor; cbn; lia.
Qed.

Example ex_byte_spec :
  bspec_run ex_data 0 ex_ops_byte (brun 16 (binit ex_data false [1; 2; 3]%nat) ex_ops_byte).
Proof.
  apply bitreader_refines_bytereader_holds; [exact ex_bytes | lia | |].
  - repeat constructor; cbn; lia.
  - repeat constructor.
Qed.

Example ex_check : bcheck_model ex_data true 16 [1; 2; 3]%nat ex_ops = true /\
                   bcheck_model ex_data false 16 [1; 2; 3]%nat ex_ops_byte = true.
Proof. split; vm_compute; reflexivity. Qed.

(* the D5 defect of internal/prefix (stale look-ahead bits above numBits surviving a raw Read)
   has no counterpart here: in every history, after every operation that returns,
   bufBits < 2^numBits *)
Theorem no_lookahead_bits data bsz reads bf ops v p :
  (forall b, In b data -> b < 256) -> (16 <= bsz)%nat -> bops_ok ops -> (bf = false -> nofeed ops) ->
  In (v, p) (brun bsz (binit data bf reads) ops) -> bval_stops v = false ->
  p_bufBits p < 2 ^ p_numBits p.
Proof.
  intros Hd Hbsz Hok Hnf Hin Hst.
  destruct (brun_inv data Hd bsz Hbsz ops 0 (binit data bf reads) (BInv_init data bf reads)) with (v := v) (p' := p)
    as (R' & _ & _ & HZ); try assumption.
  unfold binit, init. cbn [p_buffered].
  apply Forall_forall. intros o Ho.
  unfold bops_ok in Hok. rewrite Forall_forall in Hok. specialize (Hok o Ho).
  destruct bf.
  - destruct o; cbn in *; tauto.
  - specialize (Hnf eq_refl). unfold nofeed in Hnf. rewrite Forall_forall in Hnf.
    specialize (Hnf o Ho). destruct o; cbn in *; tauto.
Qed.

Print Assumptions bitreader_refines_bufio_holds.
Print Assumptions bitreader_refines_bytereader_holds.
Print Assumptions flush_no_overconsumption.
Print Assumptions no_lookahead_bits.
