(* The four package-level prefix decoders of brotli (decWinBits, decCounts, decMaxRLE, decCLens:
   Brotli/Impl.v builds them with the model of prefixDecoder.Init from the code lists of
   initPrefixCodeLUTs) decode what the RFC model reads field by field: read_wbits, read_count,
   the RLEMAX field of a context map, and the fixed code of the code-length code lengths. *)
From V Require Import Base.Prelude Base.Prog Base.ProgThms Flate.Spec Flate.Canon Bzip2.Common
  Prefix.ReaderImpl Prefix.ReaderSpec Prefix.ReaderThms
  Prefix.DecTable Prefix.DecTableSpec Prefix.DecTableThms Prefix.DecReadThms Prefix.DecCanonThms
  Brotli.BitReaderImpl Brotli.BitReaderSpec Brotli.BitReaderThms
  Brotli.PrefixDecoderImpl Brotli.PrefixDecoderThms Brotli.ReadSymbolThms
  Brotli.Tables Brotli.Spec Brotli.Impl Brotli.ImplBits Brotli.ImplSym.
From Coq Require Import Sorting.Sorted.

Local Open Scope N_scope.

(* the trie of a code list *)
Definition codes_tree (codes : list pcode) : htree :=
  fold_left (fun t c => tree_insert t (cword c) (c_sym c)) codes HEmpty.

Definition tree_codes_check (t : htree) (codes : list pcode) : bool :=
  forallb (fun c => match tree_at t (cword c) with HLeaf s => s =? c_sym c | _ => false end) codes.

Lemma tree_codes_check_sound t codes : tree_codes_check t codes = true -> tree_codes t codes.
Proof.
  intros H c Hc. unfold tree_codes_check in H. rewrite forallb_forall in H. specialize (H c Hc).
  destruct (tree_at t (cword c)) as [|s|]; try discriminate. apply N.eqb_eq in H. subst. reflexivity.
Qed.

Fixpoint sorted_check (l : list N) : bool :=
  match l with
  | [] => true
  | x :: r => forallb (fun y => x <? y) r && sorted_check r
  end.

Lemma sorted_check_sound l : sorted_check l = true -> StronglySorted N.lt l.
Proof.
  induction l as [|x r IH]; intros H; [constructor|].
  cbn [sorted_check] in H. apply andb_true_iff in H as [H1 H2].
  constructor; [apply IH; exact H2|]. apply Forall_forall. intros y Hy.
  rewrite forallb_forall in H1. apply N.ltb_lt. apply H1. exact Hy.
Qed.

(* a code list given with its values (assignCodes = false) *)
Lemma fixed_noassign codes :
  kraft_check 15 codes = true -> sorted_check (map c_sym codes) = true ->
  forallb (fun c => c_sym c <? 2 ^ 27) codes = true ->
  dec_codes (fixed_dec codes false) codes.
Proof.
  intros Hk Hs H27.
  pose proof (kraft_check_sound 15 codes Hk) as HV.
  assert (Hsym : forall c, In c codes -> c_sym c < 2 ^ 27).
  { intros c Hc. rewrite forallb_forall in H27. apply N.ltb_lt. apply H27. exact Hc. }
  destruct (br_init_noassign_correct codes zeroC zeroL HV (sorted_check_sound _ Hs) Hsym)
    as (d & E & _ & HT & _).
  unfold fixed_dec. rewrite E. split.
  - exact HV.
  - eexists. apply tables_ok_G. exact HT.
  - apply (to_min _ _ HT).
  - exact Hsym.
Qed.

(* ---- WBITS ---------------------------------------------------------------------------------- *)
Definition winbits_tree : htree := codes_tree codeWinBits.

Lemma decWinBits_codes : dec_codes decWinBits codeWinBits.
Proof. apply fixed_noassign; vm_compute; reflexivity. Qed.

Lemma winbits_tree_codes : tree_codes winbits_tree codeWinBits.
Proof. apply tree_codes_check_sound. vm_compute. reflexivity. Qed.

(* WBITS is NOT zero-minimal (one buffered bit 1, zero-extended, looks like the 7-bit code of
   17); it is read at the start of the stream, where a whole byte is loaded *)
Lemma winbits_max8 : max_bits codeWinBits <= 8.
Proof. vm_compute. discriminate. Qed.

(* readStreamHeader: wbits := ReadSymbol(&decWinBits); if wbits == 0 { corrupted } *)
Definition wbits_prog : prog N :=
  w <- sym_or_corrupt winbits_tree ;; if w =? 0 then Throw ECorrupted else Ret w.

Lemma read_wbits_eq s : run read_wbits s = run wbits_prog s.
Proof. apply (bit_equiv_sound 8). vm_compute. reflexivity. Qed.

(* ---- NBLTYPES / NTREES ------------------------------------------------------------------------ *)
Definition counts_tree : htree := codes_tree codeCounts.

Lemma decCounts_codes : dec_codes decCounts codeCounts.
Proof. apply fixed_noassign; vm_compute; reflexivity. Qed.

Lemma counts_tree_codes : tree_codes counts_tree codeCounts.
Proof. apply tree_codes_check_sound. vm_compute. reflexivity. Qed.

Lemma counts_zero_min : zero_min codeCounts.
Proof. apply zero_min_check_sound. vm_compute. reflexivity. Qed.

Lemma read_count_eq s : run read_count s = run (sym_or_corrupt counts_tree) s.
Proof. apply (bit_equiv_sound 12). vm_compute. reflexivity. Qed.

(* ---- RLEMAX -------------------------------------------------------------------------------------- *)
Definition maxrle_tree : htree := codes_tree codeMaxRLE.

Definition rlemax_prog : prog N :=
  b <- rbits 1 ;; if b =? 0 then Ret 0 else x <- rbits 4 ;; Ret (x + 1).

Lemma decMaxRLE_codes : dec_codes decMaxRLE codeMaxRLE.
Proof. apply fixed_noassign; vm_compute; reflexivity. Qed.

Lemma maxrle_tree_codes : tree_codes maxrle_tree codeMaxRLE.
Proof. apply tree_codes_check_sound. vm_compute. reflexivity. Qed.

Lemma maxrle_zero_min : zero_min codeMaxRLE.
Proof. apply zero_min_check_sound. vm_compute. reflexivity. Qed.

Lemma rlemax_eq s : run rlemax_prog s = run (sym_or_corrupt maxrle_tree) s.
Proof. apply (bit_equiv_sound 6). vm_compute. reflexivity. Qed.

(* ---- the code of the code-length code lengths (assignCodes = true) ------------------------------- *)
Definition clens_codes : list pcode := canon_codes (lens_of codeCLens).

Lemma decCLens_codes : dec_codes decCLens clens_codes.
Proof.
  assert (H2 : (2 <= length codeCLens)%nat) by (vm_compute; lia).
  assert (Hs : StronglySorted N.lt (map c_sym codeCLens)) by (apply sorted_check_sound; vm_compute; reflexivity).
  assert (H27 : forall c, In c codeCLens -> c_sym c < 2 ^ 27).
  { intros c Hc. vm_compute in Hc. repeat (destruct Hc as [<-|Hc]; [vm_compute; reflexivity|]). destruct Hc. }
  assert (Hl : forall c, In c codeCLens -> 1 <= c_len c <= 15).
  { intros c Hc. vm_compute in Hc. repeat (destruct Hc as [<-|Hc]; [vm_compute; split; discriminate|]). destruct Hc. }
  assert (Hc : complete (lens_of codeCLens) = true) by (vm_compute; reflexivity).
  destruct (br_init_assign_correct codeCLens zeroC zeroL H2 Hs H27 Hl Hc)
    as (d & E & HV & HT & Hmin & _ & _ & _).
  unfold decCLens, fixed_dec. rewrite E. fold clens_codes in HV, HT, Hmin |- *. split.
  - exact HV.
  - eexists. exact HT.
  - exact Hmin.
  - intros c Hcin. vm_compute in Hcin.
    repeat (destruct Hcin as [<-|Hcin]; [vm_compute; reflexivity|]). destruct Hcin.
Qed.

Lemma clens_zero_min : zero_min clens_codes.
Proof. apply zero_min_check_sound. vm_compute. reflexivity. Qed.

Lemma clcl_tree_codes : tree_codes clcl_tree clens_codes.
Proof. apply tree_codes_check_sound. vm_compute. reflexivity. Qed.
