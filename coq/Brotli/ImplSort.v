(* The insertion sort of the RFC decoder model (Flate/Spec.v sort_by_sym): a permutation,
   strictly sorted when the symbols are distinct; Kraft sums and maximal lengths do not depend
   on the order. *)
From V Require Import Base.Prelude Flate.Spec Flate.Canon.
From Coq Require Import Sorting.Sorted Sorting.Permutation ZifyBool ZifyN ZifyNat.

Local Open Scope N_scope.
Local Ltac Zify.zify_post_hook ::= idtac.

Lemma insert_sorted_perm x l : Permutation (x :: l) (insert_sorted x l).
Proof.
  induction l as [|y r IH]; cbn [insert_sorted]; [apply Permutation_refl|].
  destruct (fst x <? fst y); [apply Permutation_refl|].
  eapply Permutation_trans; [apply perm_swap|]. apply perm_skip. exact IH.
Qed.

Lemma sort_by_sym_perm l : Permutation l (sort_by_sym l).
Proof.
  induction l as [|x r IH]; cbn [sort_by_sym fold_right]; [apply Permutation_refl|].
  eapply Permutation_trans; [apply perm_skip; exact IH | apply insert_sorted_perm].
Qed.

Lemma insert_sorted_sorted x l :
  StronglySorted N.lt (map fst l) -> ~ In (fst x) (map fst l) ->
  StronglySorted N.lt (map fst (insert_sorted x l)).
Proof.
  induction l as [|y r IH]; intros HS Hn; cbn [insert_sorted map].
  - constructor; constructor.
  - cbn [map] in HS, Hn. inversion HS as [|? ? HS1 HF]; subst.
    destruct (N.ltb_spec (fst x) (fst y)) as [Hlt|Hge].
    + cbn [map]. constructor; [exact HS|]. constructor; [exact Hlt|].
      rewrite Forall_forall in HF |- *. intros z Hz. specialize (HF z Hz). lia.
    + cbn [map]. constructor.
      * apply IH; [exact HS1|]. intros Hin. apply Hn. right. exact Hin.
      * assert (Hne : fst x <> fst y) by (intros E; apply Hn; left; symmetry; exact E).
        rewrite Forall_forall in HF |- *. intros z Hz.
        assert (Hp : Permutation (map fst (x :: r)) (map fst (insert_sorted x r)))
          by (apply Permutation_map, insert_sorted_perm).
        apply (Permutation_in _ (Permutation_sym Hp)) in Hz. cbn [map] in Hz.
        destruct Hz as [<-|Hz]; [lia | apply HF; exact Hz].
Qed.

Lemma sort_by_sym_sorted l : NoDup (map fst l) -> StronglySorted N.lt (map fst (sort_by_sym l)).
Proof.
  induction l as [|x r IH]; intros Hnd; cbn [sort_by_sym fold_right map]; [constructor|].
  cbn [map] in Hnd. inversion Hnd as [|? ? Hn Hnd']; subst.
  apply insert_sorted_sorted; [apply IH; exact Hnd'|].
  intros Hin. apply Hn.
  apply (Permutation_in _ (Permutation_sym (Permutation_map fst (sort_by_sym_perm r)))). exact Hin.
Qed.

Lemma kraft_perm m l l' : Permutation l l' -> kraft m l = kraft m l'.
Proof.
  induction 1 as [|x l l' HP IH|x y l|l l' l'' H1 IH1 H2 IH2]; cbn [kraft fold_right] in *;
    [reflexivity | unfold kraft in IH; rewrite IH; reflexivity | lia | congruence].
Qed.

Lemma max_len_perm l l' : Permutation l l' -> max_len l = max_len l'.
Proof.
  induction 1 as [|x l l' HP IH|x y l|l l' l'' H1 IH1 H2 IH2]; cbn [max_len fold_right] in *;
    [reflexivity | unfold max_len in IH; rewrite IH; reflexivity | lia | congruence].
Qed.

Lemma complete_perm l l' : Permutation l l' -> complete l = complete l'.
Proof.
  intros H. unfold complete. rewrite (max_len_perm l l' H), (kraft_perm _ l l' H). reflexivity.
Qed.

Lemma sort_by_sym_length l : length (sort_by_sym l) = length l.
Proof. symmetry. apply Permutation_length, sort_by_sym_perm. Qed.

Lemma sort_by_sym_in x l : In x (sort_by_sym l) <-> In x l.
Proof.
  split; intros H.
  - apply (Permutation_in _ (Permutation_sym (sort_by_sym_perm l))). exact H.
  - apply (Permutation_in _ (sort_by_sym_perm l)). exact H.
Qed.

(* sorting a list that is already strictly sorted does nothing *)
Lemma insert_sorted_head x l :
  Forall (fun y => fst x < fst y) l -> insert_sorted x l = x :: l.
Proof.
  destruct l as [|y r]; intros H; [reflexivity|]. cbn [insert_sorted].
  inversion H; subst. replace (fst x <? fst y) with true by (symmetry; apply N.ltb_lt; assumption).
  reflexivity.
Qed.

Lemma sort_by_sym_id l : StronglySorted N.lt (map fst l) -> sort_by_sym l = l.
Proof.
  induction l as [|x r IH]; intros HS; [reflexivity|].
  cbn [sort_by_sym fold_right]. cbn [map] in HS. inversion HS as [|? ? HS1 HF]; subst.
  fold (sort_by_sym r). rewrite (IH HS1). apply insert_sorted_head.
  rewrite Forall_forall in HF |- *. intros y Hy. apply HF. apply in_map. exact Hy.
Qed.
