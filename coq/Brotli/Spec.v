(* RFC 7932 (Brotli) decoder as a [prog].

   The decoding logic is written from the RFC's rules (section numbers are
   cited at each definition); prefix codes are given their canonical meaning
   (a binary trie, Flate/Spec.v) instead of lookup tables.  Where the RFC
   leaves the moment of error detection open (a truncated stream can run out
   of input before or after an invalid field is noticed), the order of reads
   and checks follows the reference decoder libbrotli, so that the outcome
   class (complete / needs more input / corrupted) agrees with it on every
   input; these places are marked "order:".

   The model is parametric in the static dictionary (appendix A), given as a
   function from byte offset to byte. *)
From V Require Import Base.Prelude Base.Prog Flate.Spec Brotli.Tables.

Section Brotli.
Variable dict_byte : N -> N.

Definition nthN (l : list N) (i : N) : N := nth (N.to_nat i) l 0.

(* [loop (loop_depth n)] allows 2^(bit width of n) > n iterations *)
Definition loop_depth (n : N) : nat := N.to_nat (N.size n).

(* ---- section 9.1: stream header ---------------------------------------- *)
(* WBITS, 1..7 bits.  Bit patterns (first bit read rightmost):
   0 -> 16;  xxx1 (xxx <> 0) -> 17 + xxx;  0000001 -> 17;  yyy0001 -> 8 + yyy
   for yyy = 2..7;  0010001 is reserved (invalid). *)
Definition read_wbits : prog N :=
  b <- rbits 1 ;;
  if b =? 0 then Ret 16 else
  n <- rbits 3 ;;
  if negb (n =? 0) then Ret (17 + n) else
  m <- rbits 3 ;;
  if m =? 0 then Ret 17
  else if m =? 1 then Throw ECorrupted
  else Ret (8 + m).

(* ---- section 9.2: the variable-length code for NBLTYPESx and NTREESx ---- *)
(* 0 -> 1; otherwise 3 bits n then n extra bits x -> 2^n + 1 + x (2..256) *)
Definition read_count : prog N :=
  b <- rbits 1 ;;
  if b =? 0 then Ret 1 else
  n <- rbits 3 ;;
  x <- rbits n ;;
  Ret (2 ^ n + 1 + x).

(* ---- section 3: prefix codes -------------------------------------------- *)

(* 3.4 simple prefix codes.  ALPHABET_BITS = bit width of (alphabet size - 1).
   order: each symbol is range-checked as soon as it is read; duplicates are
   rejected after NSYM symbols were read and before the tree-select bit. *)
Definition alphabet_bits (asize : N) : N := N.size (asize - 1).

Fixpoint read_simple_syms (n : nat) (abits asize : N) : prog (list N) :=
  match n with
  | O => Ret []
  | S n' =>
    s <- rbits abits ;;
    assert_p (s <? asize) ECorrupted ;;;
    r <- read_simple_syms n' abits asize ;;
    Ret (s :: r)
  end.

Fixpoint has_dup (l : list N) : bool :=
  match l with
  | [] => false
  | x :: r => existsb (N.eqb x) r || has_dup r
  end.

(* code lengths are attached in the order the symbols appear; the canonical
   code (3.2) then orders symbols of equal length by value *)
Definition simple_tree (sl : list (N * N)) : htree := tree_of (sort_by_sym sl).

Definition read_simple_code (asize : N) : prog htree :=
  nsym1 <- rbits 2 ;;                                  (* NSYM - 1 *)
  syms <- read_simple_syms (S (N.to_nat nsym1)) (alphabet_bits asize) asize ;;
  assert_p (negb (has_dup syms)) ECorrupted ;;;
  match syms with
  | [a] => Ret (HLeaf a)                               (* zero-length code *)
  | [a; b] => Ret (simple_tree [(a, 1); (b, 1)])
  | [a; b; c] => Ret (simple_tree [(a, 1); (b, 2); (c, 2)])
  | [a; b; c; d] =>
    sel <- rbits 1 ;;                                  (* tree-select *)
    if sel =? 0 then Ret (simple_tree [(a, 2); (b, 2); (c, 2); (d, 2)])
    else Ret (simple_tree [(a, 1); (b, 2); (c, 3); (d, 3)])
  | _ => Throw EPanic
  end.

(* 3.5 complex prefix codes *)

(* the fixed code for the code length code lengths 0..5, bits in reading
   order: 0:"00" 1:"0111" 2:"011" 3:"10" 4:"01" 5:"1111" of the RFC are
   written there right-to-left *)
Definition clcl_tree : htree :=
  fold_left (fun t sc => tree_insert t (snd sc) (fst sc))
    [(0, [false; false]); (1, [true; true; true; false]); (2, [true; true; false]);
     (3, [false; true]); (4, [true; false]); (5, [true; true; true; true])]
    HEmpty.

(* order in which the code length code lengths appear *)
Definition clen_order : list N := [1; 2; 3; 4; 0; 5; 17; 6; 16; 7; 8; 9; 10; 11; 12; 13; 14; 15].

(* reads code length code lengths for [order] until the space of 32 is
   used up; result: number of non-zero lengths and the (symbol, length) list.
   Over-subscription is an error as soon as it happens; if all 18 were read
   the caller decides (exactly one non-zero length is allowed). *)
Fixpoint read_clcl (order : list N) (space num : N) (acc : list (N * N))
  : prog (N * N * list (N * N)) :=
  match order with
  | [] => Ret (space, num, acc)
  | s :: r =>
    v <- sym_or_corrupt clcl_tree ;;
    if v =? 0 then read_clcl r space num acc
    else
      let w := N.shiftr 32 v in
      if space <? w then Throw ECorrupted
      else if space =? w then Ret (0, num + 1, (s, v) :: acc)
      else read_clcl r (space - w) (num + 1) ((s, v) :: acc)
  end.

(* state of the symbol code length reader *)
Record clst := mkClst {
  k_sym : N;              (* next symbol *)
  k_prev : N;             (* previous non-zero code length, initially 8 *)
  k_rep : N;              (* running repeat count of the directly preceding
                             repeat code(s), 0 if the last code was a length *)
  k_replen : N;           (* the length those repeat codes repeated *)
  k_space : Z;            (* 32768 - sum of 32768 >> length; may go negative *)
  k_acc : list (N * N)    (* (symbol, length), reversed, non-zero lengths *)
}.

Fixpoint rep_syms (n : nat) (sym len : N) (acc : list (N * N)) : list (N * N) :=
  match n with
  | O => acc
  | S n' => rep_syms n' (sym + 1) len ((sym, len) :: acc)
  end.

(* order: the reference decoder keeps reading code lengths after the space
   was over-subscribed, until the alphabet is exhausted, and only then
   rejects; a repeat that runs past the alphabet size is rejected at once. *)
Definition clen_sym_body (cltree : htree) (asize : N) (s : clst) : prog (clst + clst) :=
  if (asize <=? k_sym s) || (k_space s =? 0)%Z then Ret (inr s) else
  cl <- sym_or_corrupt cltree ;;
  if cl <? 16 then
    if cl =? 0 then
      Ret (inl (mkClst (k_sym s + 1) (k_prev s) 0 (k_replen s) (k_space s) (k_acc s)))
    else
      Ret (inl (mkClst (k_sym s + 1) cl 0 (k_replen s)
                       (k_space s - Z.of_N (N.shiftr 32768 cl))
                       ((k_sym s, cl) :: k_acc s)))
  else
    let extra := if cl =? 16 then 2 else 3 in
    let newlen := if cl =? 16 then k_prev s else 0 in
    x <- rbits extra ;;
    let old := if k_replen s =? newlen then k_rep s else 0 in
    let rep := (if 0 <? old then (old - 2) * 2 ^ extra else 0) + x + 3 in
    let delta := rep - old in
    assert_p (k_sym s + delta <=? asize) ECorrupted ;;;
    if newlen =? 0 then
      Ret (inl (mkClst (k_sym s + delta) (k_prev s) rep newlen (k_space s) (k_acc s)))
    else
      Ret (inl (mkClst (k_sym s + delta) (k_prev s) rep newlen
                       (k_space s - Z.of_N (delta * N.shiftr 32768 newlen))
                       (rep_syms (N.to_nat delta) (k_sym s) newlen (k_acc s)))).

Definition read_complex_code (asize hskip : N) : prog htree :=
  r <- read_clcl (skipn (N.to_nat hskip) clen_order) 32 0 [] ;;
  let '(space, num, cls) := r in
  cltree <- (match cls with
             | [(s, _)] => Ret (HLeaf s)          (* single code length symbol: zero bits *)
             | _ => if space =? 0 then Ret (tree_of (sort_by_sym cls)) else Throw ECorrupted
             end) ;;
  fin <- loop 10 (clen_sym_body cltree asize) (mkClst 0 8 0 0 32768 []) ;;
  assert_p (k_space fin =? 0)%Z ECorrupted ;;;
  Ret (tree_of (fast_rev (k_acc fin))).

(* 3.4/3.5: the first two bits select simple (1) or complex with HSKIP 0,2,3 *)
Definition read_prefix_code (asize : N) : prog htree :=
  h <- rbits 2 ;;
  if h =? 1 then read_simple_code asize else read_complex_code asize h.

Fixpoint read_prefix_codes (n : nat) (asize : N) : prog (list htree) :=
  match n with
  | O => Ret []
  | S n' => t <- read_prefix_code asize ;; r <- read_prefix_codes n' asize ;; Ret (t :: r)
  end.

(* ---- sections 5, 6: length codes ----------------------------------------- *)
Definition ins_ranges : list (N * N) :=
  mk_ranges 0 [0;0;0;0;0;0;1;1;2;2;3;3;4;4;5;5;6;7;8;9;10;12;14;24].
Definition cpy_ranges : list (N * N) :=
  mk_ranges 2 [0;0;0;0;0;0;0;0;1;1;2;2;3;3;4;4;5;5;6;7;8;9;10;24].
Definition blk_ranges : list (N * N) :=
  mk_ranges 1 [2;2;2;2;3;3;3;3;4;4;4;4;5;5;5;5;6;6;7;8;9;10;11;12;13;24].

(* section 5: insert-and-copy length code -> (insert length code, copy length code) *)
Definition iac_cells : list (N * N) :=
  [(0, 0); (0, 8); (0, 0); (0, 8); (8, 0); (8, 8); (0, 16); (16, 0); (8, 16); (16, 8); (16, 16)].
Definition iac_codes (sym : N) : N * N :=
  let '(ib, cb) := nth (N.to_nat (sym / 64)) iac_cells (0, 0) in
  (ib + (sym mod 64) / 8, cb + sym mod 8).

(* ---- section 6: block types and block counts ----------------------------- *)
Record blk := mkBlk {
  b_n : N;            (* NBLTYPES *)
  b_tt : htree;       (* block type code, alphabet NBLTYPES + 2 *)
  b_lt : htree;       (* block count code, alphabet 26 *)
  b_cur : N;          (* current block type *)
  b_prev : N;         (* previous block type *)
  b_cnt : N           (* remaining block count *)
}.

Definition read_block_count (lt : htree) : prog N :=
  s <- sym_or_corrupt lt ;;
  let '(base, nb) := nth_range blk_ranges s in
  x <- rbits nb ;;
  Ret (base + x).

(* 9.2: NBLTYPESx, and if >= 2 the two prefix codes and the first block count *)
Definition read_blk : prog blk :=
  n <- read_count ;;
  if 2 <=? n then
    tt <- read_prefix_code (n + 2) ;;
    lt <- read_prefix_code 26 ;;
    c <- read_block_count lt ;;
    Ret (mkBlk n tt lt 0 1 c)
  else Ret (mkBlk 1 HEmpty HEmpty 0 1 16777216).

(* block-switch command: type code 0 = previous type, 1 = current + 1 mod
   NBLTYPES, else code - 2; then the new block count *)
Definition block_switch (b : blk) : prog blk :=
  t <- sym_or_corrupt (b_tt b) ;;
  let nt := if t =? 0 then b_prev b
            else if t =? 1 then (if b_cur b + 1 <? b_n b then b_cur b + 1 else 0)
            else t - 2 in
  c <- read_block_count (b_lt b) ;;
  Ret (mkBlk (b_n b) (b_tt b) (b_lt b) nt (b_cur b) c).

(* account for one element of the category; switch first if the count is 0.
   With a single block type there are no switch commands. *)
Definition blk_dec (b : blk) : blk :=
  mkBlk (b_n b) (b_tt b) (b_lt b) (b_cur b) (b_prev b) (b_cnt b - 1).
Definition blk_next (b : blk) : prog (blk * bool) :=
  if (2 <=? b_n b) && (b_cnt b =? 0)
  then b' <- block_switch b ;; Ret (blk_dec b', true)
  else Ret (blk_dec b, false).

(* ---- section 7.1: literal context ---------------------------------------- *)
Definition lit_context (mode p1 p2 : N) : N :=
  if mode =? 0 then p1 mod 64                                          (* LSB6 *)
  else if mode =? 1 then p1 / 4                                        (* MSB6 *)
  else if mode =? 2 then N.lor (nthN ctx_lut0 p1) (nthN ctx_lut1 p2)   (* UTF8 *)
  else N.lor (8 * nthN ctx_lut2 p1) (nthN ctx_lut2 p2).                (* SIGNED *)

(* ---- section 7.2: distance context --------------------------------------- *)
Definition dist_context (clen : N) : N := if clen <? 5 then clen - 2 else 3.

(* ---- section 7.3: context maps ------------------------------------------- *)
Fixpoint imtf (mtf : list N) (l : list N) : list N :=
  match l with
  | [] => []
  | i :: r =>
    let n := N.to_nat i in
    let v := nth n mtf 0 in
    v :: imtf (v :: firstn n mtf ++ skipn (S n) mtf) r
  end.
Definition inverse_mtf (l : list N) : list N :=
  imtf (map N.of_nat (seq 0 256)) l.

(* state: entries still to produce, entries so far (reversed) *)
Definition cmap_body (tree : htree) (rlemax : N) (s : N * list N)
  : prog (N * list N + list N) :=
  let (todo, acc) := s in
  if todo =? 0 then Ret (inr (fast_rev acc)) else
  sym <- sym_or_corrupt tree ;;
  if sym =? 0 then Ret (inl (todo - 1, 0 :: acc))
  else if sym <=? rlemax then
    x <- rbits sym ;;
    let n := 2 ^ sym + x in
    assert_p (n <=? todo) ECorrupted ;;;
    Ret (inl (todo - n, repeat 0 (N.to_nat n) ++ acc))
  else Ret (inl (todo - 1, (sym - rlemax) :: acc)).

Definition read_context_map (size ntrees : N) : prog (list N) :=
  b <- rbits 1 ;;
  rlemax <- (if b =? 0 then Ret 0 else x <- rbits 4 ;; Ret (x + 1)) ;;
  tree <- read_prefix_code (ntrees + rlemax) ;;
  cm <- loop (loop_depth size) (cmap_body tree rlemax) (size, []) ;;
  im <- rbits 1 ;;
  Ret (if im =? 1 then inverse_mtf cm else cm).

(* NTREES, then the map if NTREES >= 2; the all-zero map of NTREES = 1 is
   represented by [] ([nthN] yields 0) *)
Definition read_ntrees_cmap (size : N) : prog (N * list N) :=
  nt <- read_count ;;
  if 2 <=? nt then cm <- read_context_map size nt ;; Ret (nt, cm)
  else Ret (nt, []).

(* ---- section 4: distances ------------------------------------------------ *)
Definition ring := (N * N * N * N)%type.   (* last, second-, third-, fourth-to-last *)
Definition ring_last (r : ring) : N := let '(d1, _, _, _) := r in d1.
Definition ring_push (r : ring) (d : N) : ring := let '(d1, d2, d3, _) := r in (d, d1, d2, d3).

Definition dsub (a k : N) : option N := if k <? a then Some (a - k) else None.

(* distance codes 0..15; None = the result would be zero or negative *)
Definition short_dist (code : N) (r : ring) : option N :=
  let '(d1, d2, d3, d4) := r in
  nth (N.to_nat code)
      [Some d1; Some d2; Some d3; Some d4;
       dsub d1 1; Some (d1 + 1); dsub d1 2; Some (d1 + 2); dsub d1 3; Some (d1 + 3);
       dsub d2 1; Some (d2 + 1); dsub d2 2; Some (d2 + 2); dsub d2 3; Some (d2 + 3)]
      None.

Definition decode_distance (npostfix ndirect dcode : N) (r : ring) : prog N :=
  if dcode <? 16 then
    match short_dist dcode r with Some d => Ret d | None => Throw ECorrupted end
  else if dcode <? 16 + ndirect then Ret (dcode - 15)
  else
    let x := dcode - ndirect - 16 in
    let hcode := x / 2 ^ npostfix in
    let lcode := x mod 2 ^ npostfix in
    let nb := 1 + x / 2 ^ (npostfix + 1) in
    let offset := (2 + hcode mod 2) * 2 ^ nb - 4 in
    extra <- rbits nb ;;
    Ret ((offset + extra) * 2 ^ npostfix + lcode + ndirect + 1).

(* ---- section 8: static dictionary ---------------------------------------- *)
(* DOFFSET by word length 0..24: NWORDS[l] = 0 for l < 4 (NDBITS 0), else 2^NDBITS[l] *)
Fixpoint dict_offsets_from (nds : list N) (len off : N) : list N :=
  match nds with
  | [] => []
  | nb :: r =>
    off :: dict_offsets_from r (len + 1) (off + (if nb =? 0 then 0 else len * 2 ^ nb))
  end.
Definition dict_offsets : list N := dict_offsets_from dict_ndbits 0 0.

Definition dict_word (len idx : N) : list N :=
  let off := nthN dict_offsets len + idx * len in
  map (fun k => dict_byte (off + N.of_nat k)) (seq 0 (N.to_nat len)).

Definition up_ascii (c : N) : N := if (97 <=? c) && (c <=? 122) then N.lxor c 32 else c.

(* uppercase rules of section 8; a byte to be changed that lies beyond the
   end of the word does not exist *)
Definition upper_first (w : list N) : list N :=
  match w with
  | [] => []
  | c :: r =>
    if c <? 192 then up_ascii c :: r
    else if c <? 224 then
      match r with [] => [c] | y :: r2 => c :: N.lxor y 32 :: r2 end
    else
      match r with
      | [] => [c]
      | y :: r2 => match r2 with [] => [c; y] | z :: r3 => c :: y :: N.lxor z 5 :: r3 end
      end
  end.

Fixpoint upper_all (w : list N) : list N :=
  match w with
  | [] => []
  | c :: r =>
    if c <? 192 then up_ascii c :: upper_all r
    else if c <? 224 then
      match r with [] => [c] | y :: r2 => c :: N.lxor y 32 :: upper_all r2 end
    else
      match r with
      | [] => [c]
      | y :: r2 => match r2 with [] => [c; y] | z :: r3 => c :: y :: N.lxor z 5 :: upper_all r3 end
      end
  end.

Definition apply_xform (x : xform) (w : list N) : list N :=
  match x with
  | XIdentity => w
  | XUppercaseFirst => upper_first w
  | XUppercaseAll => upper_all w
  | XOmitFirst n => skipn n w
  | XOmitLast n => firstn (length w - n) w
  end.

Definition num_transforms : N := 121.

Definition transform_word (tid : N) (w : list N) : list N :=
  let '(pre, x, suf) := nth (N.to_nat tid) transforms ([], XIdentity, []) in
  pre ++ apply_xform x w ++ suf.

(* the bytes denoted by copy length [clen] and dictionary address [addr]
   (= distance - max allowed distance - 1); None = invalid reference *)
Definition dict_ref (clen addr : N) : option (list N) :=
  if (clen <? 4) || (24 <? clen) then None else
  let nb := nthN dict_ndbits clen in
  let idx := addr mod 2 ^ nb in
  let tid := addr / 2 ^ nb in
  if num_transforms <=? tid then None
  else Some (transform_word tid (dict_word clen idx)).

(* ---- section 9.2/9.3: compressed meta-block ------------------------------ *)
Record mbp := mkMbp {
  m_window : N;             (* (1 << WBITS) - 16 *)
  m_npostfix : N;
  m_ndirect : N;
  m_cmodes : list N;        (* context mode per literal block type *)
  m_cmapl : list N;         (* literal context map, 64 per block type *)
  m_cmapd : list N;         (* distance context map, 4 per block type *)
  m_ltrees : list htree;    (* HTREEL *)
  m_itrees : list htree;    (* HTREEI *)
  m_dtrees : list htree     (* HTREED *)
}.

Definition nth_tree (l : list htree) (i : N) : htree := nth (N.to_nat i) l HEmpty.

(* literal insertion: literals to go, literal block state, context mode and
   context map slice of the current block type, last two bytes *)
Record lst := mkLst {
  l_n : N; l_b : blk; l_mode : N; l_map : list N; l_p1 : N; l_p2 : N
}.

Definition lit_slice (m : mbp) (btype : N) : list N :=
  skipn (N.to_nat (64 * btype)) (m_cmapl m).

Definition lit_body (m : mbp) (s : lst) : prog (lst + lst) :=
  if l_n s =? 0 then Ret (inr s) else
  bs <- blk_next (l_b s) ;;
  let '(b, switched) := bs in
  let mode := if switched then nthN (m_cmodes m) (b_cur b) else l_mode s in
  let cmap := if switched then lit_slice m (b_cur b) else l_map s in
  let cid := lit_context mode (l_p1 s) (l_p2 s) in
  lit <- sym_or_corrupt (nth_tree (m_ltrees m) (nthN cmap cid)) ;;
  Put lit (Ret (inl (mkLst (l_n s - 1) b mode cmap lit (l_p1 s)))).

(* command loop state: bytes of MLEN still to produce, the three block
   states, the last distances *)
Record cst := mkCst { c_rem : N; c_bl : blk; c_bi : blk; c_bd : blk; c_ring : ring }.

Definition cmd_next (rem : N) (bl bi bd : blk) (r : ring) : cst + cst :=
  if rem =? 0 then inr (mkCst rem bl bi bd r) else inl (mkCst rem bl bi bd r).

Definition command (m : mbp) (s : cst) : prog (cst + cst) :=
  (* insert-and-copy length, section 5 *)
  bis <- blk_next (c_bi s) ;;
  let bi := fst bis in
  sym <- sym_or_corrupt (nth_tree (m_itrees m) (b_cur bi)) ;;
  let '(icode, ccode) := iac_codes sym in
  let '(ibase, inb) := nth_range ins_ranges icode in
  let '(cbase, cnb) := nth_range cpy_ranges ccode in
  ix <- rbits inb ;;
  cx <- rbits cnb ;;
  let ilen := ibase + ix in
  let clen := cbase + cx in
  (* 9.3/10: the meta-block must produce exactly MLEN bytes.  order: the
     reference decoder decodes the literals first, but it never reports
     "needs more input" once ILEN exceeds what is left of MLEN, so the check
     is made here *)
  assert_p (ilen <=? c_rem s) ECorrupted ;;;
  (* literals *)
  bl <- (if ilen =? 0 then Ret (c_bl s) else
         HistB 1 (fun p1 => HistB 2 (fun p2 =>
           let b0 := c_bl s in
           ls <- loop (loop_depth ilen) (lit_body m)
                      (mkLst ilen b0 (nthN (m_cmodes m) (b_cur b0)) (lit_slice m (b_cur b0)) p1 p2) ;;
           Ret (l_b ls)))) ;;
  (* MLEN reached after the insert: the copy length is ignored *)
  if c_rem s =? ilen then Ret (inr (mkCst 0 bl bi (c_bd s) (c_ring s)))
  else
  let rem := c_rem s - ilen in
  (* distance, section 4: implicit distance code 0 below 128 *)
  dz <- (if sym <? 128 then Ret (ring_last (c_ring s), true, c_bd s)
         else
           bds <- blk_next (c_bd s) ;;
           let bd := fst bds in
           let t := nth_tree (m_dtrees m) (nthN (m_cmapd m) (4 * b_cur bd + dist_context clen)) in
           dcode <- sym_or_corrupt t ;;
           d <- decode_distance (m_npostfix m) (m_ndirect m) dcode (c_ring s) ;;
           Ret (d, dcode =? 0, bd)) ;;
  let '(dist, zero, bd) := dz in
  Hist (fun pos =>
    let maxd := N.min (m_window m) pos in
    if dist <=? maxd then
      (* back-reference; distance code 0 does not update the ring *)
      assert_p (clen <=? rem) ECorrupted ;;;
      Copy dist clen
           (Ret (cmd_next (rem - clen) bl bi bd
                          (if zero then c_ring s else ring_push (c_ring s) dist)))
    else
      (* static dictionary reference, section 8; never updates the ring *)
      match dict_ref clen (dist - maxd - 1) with
      | None => Throw ECorrupted
      | Some w =>
        let n := N.of_nat (length w) in
        assert_p (n <=? rem) ECorrupted ;;;
        put_all w ;;;
        Ret (cmd_next (rem - n) bl bi bd (c_ring s))
      end).

Fixpoint read_cmodes (n : nat) : prog (list N) :=
  match n with
  | O => Ret []
  | S n' => c <- rbits 2 ;; r <- read_cmodes n' ;; Ret (c :: r)
  end.

(* [inbits]: a bound on the number of input bits, only used for loop depths:
   every command produces output or consumes at least one bit *)
Definition compressed_metablock (window mlen inbits : N) (r : ring) : prog ring :=
  bl <- read_blk ;;
  bi <- read_blk ;;
  bd <- read_blk ;;
  npostfix <- rbits 2 ;;
  nd4 <- rbits 4 ;;
  let ndirect := nd4 * 2 ^ npostfix in
  cmodes <- read_cmodes (N.to_nat (b_n bl)) ;;
  ml <- read_ntrees_cmap (64 * b_n bl) ;;
  md <- read_ntrees_cmap (4 * b_n bd) ;;
  ltrees <- read_prefix_codes (N.to_nat (fst ml)) 256 ;;
  itrees <- read_prefix_codes (N.to_nat (b_n bi)) 704 ;;
  dtrees <- read_prefix_codes (N.to_nat (fst md)) (16 + ndirect + 48 * 2 ^ npostfix) ;;
  let m := mkMbp window npostfix ndirect cmodes (snd ml) (snd md) ltrees itrees dtrees in
  fin <- loop (loop_depth (mlen + inbits)) (command m) (mkCst mlen bl bi bd r) ;;
  Ret (c_ring fin).

(* ---- section 9.2: meta-block header, uncompressed and metadata blocks ---- *)
Definition raw_body (n : N) : prog (N + unit) :=
  if n =? 0 then Ret (inr tt) else
  b <- rbits 8 ;; Put b (Ret (inl (n - 1))).
Definition raw_copy (n : N) : prog unit := loop (loop_depth n) raw_body n.

Definition skip_body (n : N) : prog (N + unit) :=
  if n =? 0 then Ret (inr tt) else
  rbits 8 ;;; Ret (inl (n - 1)).
Definition skip_bytes (n : N) : prog unit := loop (loop_depth n) skip_body n.

(* fill bits up to the byte boundary must be zero *)
Definition zero_pads : prog unit :=
  AlignP (fun v => assert_p (v =? 0) ECorrupted).

(* MSKIPLEN / MLEN fields: [units] groups of [w] bits holding length - 1; with
   more than [minunits] groups the most significant one must not be zero *)
Definition read_len (units w minunits : N) : prog N :=
  v <- rbits (units * w) ;;
  assert_p (negb ((minunits <? units) && (v / 2 ^ ((units - 1) * w) =? 0))) ECorrupted ;;;
  Ret (v + 1).

(* one meta-block; [inr tt] after the last one *)
Definition metablock (window inbits : N) (r : ring) : prog (ring + unit) :=
  islast <- rbits 1 ;;
  empty <- (if islast =? 1 then rbits 1 else Ret 0) ;;        (* ISLASTEMPTY *)
  if empty =? 1 then zero_pads ;;; Ret (inr tt) else
  mn <- rbits 2 ;;                                            (* MNIBBLES code *)
  r' <- (if mn =? 3 then
           (* metadata meta-block *)
           reserved <- rbits 1 ;;
           assert_p (reserved =? 0) ECorrupted ;;;
           sb <- rbits 2 ;;                                   (* MSKIPBYTES *)
           sl <- (if sb =? 0 then Ret 0 else read_len sb 8 1) ;;
           zero_pads ;;;
           skip_bytes sl ;;;
           Ret r
         else
           mlen <- read_len (mn + 4) 4 4 ;;
           unc <- (if islast =? 1 then Ret 0 else rbits 1) ;;  (* ISUNCOMPRESSED *)
           if unc =? 1 then zero_pads ;;; raw_copy mlen ;;; Ret r
           else compressed_metablock window mlen inbits r) ;;
  if islast =? 1 then zero_pads ;;; Ret (inr tt) else Ret (inl r').

(* the whole stream; section 4: the last distances start as 4, 11, 15, 16 *)
Definition brotli_prog (inbits : N) : prog unit :=
  wbits <- read_wbits ;;
  loop (loop_depth inbits) (metablock (2 ^ wbits - 16) inbits) (4, 11, 15, 16).

Record brotli_result := mkBR { br_err : option err; br_out : list byte; br_used : N }.

(* err None = complete stream (trailing input is not looked at);
   used = number of input bytes touched *)
Definition brotli_decode (input : list byte) : brotli_result :=
  let inbits := 8 * N.of_nat (length input) + 64 in
  let r := run (brotli_prog inbits) (ast_init (bytes_to_bits input)) in
  mkBR (res_err r) (res_out r) ((res_pos r + 7) / 8).

End Brotli.

(* ---- cross-checks of the RFC-derived tables against /repo/brotli's ------- *)
Example ins_ranges_go : ins_ranges = go_ins_ranges. Proof. vm_compute. reflexivity. Qed.
Example cpy_ranges_go : cpy_ranges = go_cpy_ranges. Proof. vm_compute. reflexivity. Qed.
Example blk_ranges_go : blk_ranges = go_blk_ranges. Proof. vm_compute. reflexivity. Qed.
Example clen_order_go : clen_order = go_clen_order. Proof. vm_compute. reflexivity. Qed.
Example dict_offsets_go : dict_offsets = go_dict_offsets. Proof. vm_compute. reflexivity. Qed.
Example dict_size : nthN dict_offsets 24 + 24 * 2 ^ nthN dict_ndbits 24 = 122784.
Proof. vm_compute. reflexivity. Qed.
Example transforms_count : N.of_nat (length transforms) = num_transforms.
Proof. vm_compute. reflexivity. Qed.
