(* The RFC 7932 model never reaches EPanic (window copy out of range, or the
   impossible arm of the simple-code reader) and fails only with
   UnexpectedEOF, Corrupted, or an exhausted loop budget — for every
   dictionary and every input. Needs one loop invariant: the four last
   distances stay positive. *)
From V Require Import Base.Prelude Base.Prog Base.ProgThms Base.OkThms Flate.Spec Flate.Safe
  Brotli.Tables Brotli.Spec.

Definition br_errs := flate_errs.
Local Ltac fe := unfold br_errs, flate_errs; auto.
Local Ltac ok := repeat first [ solve [fe] | only_step br_errs ].

Lemma ok_rb n : only br_errs (rbits n).
Proof. apply ok_rbits. Qed.
Global Hint Resolve ok_rb ok_sym_tree ok_sym_or_corrupt ok_opt_tree : okdb.

Local Ltac okb := repeat first [ solve [auto with okdb] | solve [fe] | only_step br_errs ].

Lemma ok_read_wbits : only br_errs read_wbits.
Proof. unfold read_wbits. okb. Qed.
Lemma ok_read_count : only br_errs read_count.
Proof. unfold read_count. okb. Qed.
Global Hint Resolve ok_read_wbits ok_read_count : okdb.

(* read_simple_syms returns exactly n symbols *)
Lemma hoare_read_simple_syms n abits asize :
  hoare br_errs (fun l => length l = n) (read_simple_syms n abits asize).
Proof.
  induction n as [|n IH]; cbn [read_simple_syms]; [apply hoare_ret; reflexivity|].
  apply hoare_bind_only; [auto with okdb|]. intros s.
  apply hoare_bind_only; [apply only_assert; fe|]. intros _.
  eapply hoare_bind; [exact IH|]. intros r Hr. apply hoare_ret. cbv beta in Hr. cbn [length]. lia.
Qed.

Lemma ok_read_simple_code asize : only br_errs (read_simple_code asize).
Proof.
  unfold read_simple_code.
  eapply only_of_hoare.
  eapply hoare_bind; [apply (hoare_bits_lsbf br_errs (N.to_nat 2)); fe|]. intros nsym1 Hn.
  eapply hoare_bind; [apply hoare_read_simple_syms|]. intros syms Hl.
  apply hoare_of_only.
  apply only_bind; [apply only_assert; fe|]. intros _.
  assert (Hn4 : (N.to_nat nsym1 < 4)%nat) by (cbn in Hn; lia).
  destruct syms as [|a [|b [|c [|d [|e r]]]]]; cbn [length] in Hl; try lia; okb.
Qed.
Global Hint Resolve ok_read_simple_code : okdb.

Lemma ok_read_clcl order space num acc : only br_errs (read_clcl order space num acc).
Proof. revert space num acc; induction order as [|s r IH]; intros; cbn [read_clcl]; okb. Qed.
Global Hint Resolve ok_read_clcl : okdb.
Lemma ok_clen_sym_body t asize s : only br_errs (clen_sym_body t asize s).
Proof. unfold clen_sym_body. okb. Qed.
Global Hint Resolve ok_clen_sym_body : okdb.
Lemma ok_read_complex_code asize hskip : only br_errs (read_complex_code asize hskip).
Proof. unfold read_complex_code. okb. Qed.
Global Hint Resolve ok_read_complex_code : okdb.
Lemma ok_read_prefix_code asize : only br_errs (read_prefix_code asize).
Proof. unfold read_prefix_code. okb. Qed.
Global Hint Resolve ok_read_prefix_code : okdb.
Lemma ok_read_prefix_codes n asize : only br_errs (read_prefix_codes n asize).
Proof. induction n as [|n IH]; cbn [read_prefix_codes]; okb. Qed.
Global Hint Resolve ok_read_prefix_codes : okdb.
Lemma ok_read_block_count lt : only br_errs (read_block_count lt).
Proof. unfold read_block_count. okb. Qed.
Global Hint Resolve ok_read_block_count : okdb.
Lemma ok_read_blk : only br_errs read_blk.
Proof. unfold read_blk. okb. Qed.
Lemma ok_block_switch b : only br_errs (block_switch b).
Proof. unfold block_switch. okb. Qed.
Global Hint Resolve ok_read_blk ok_block_switch : okdb.
Lemma ok_blk_next b : only br_errs (blk_next b).
Proof. unfold blk_next. okb. Qed.
Global Hint Resolve ok_blk_next : okdb.
Lemma ok_cmap_body t rlemax s : only br_errs (cmap_body t rlemax s).
Proof. unfold cmap_body. okb. Qed.
Global Hint Resolve ok_cmap_body : okdb.
Lemma ok_read_context_map size nt : only br_errs (read_context_map size nt).
Proof. unfold read_context_map. okb. Qed.
Global Hint Resolve ok_read_context_map : okdb.
Lemma ok_read_ntrees_cmap size : only br_errs (read_ntrees_cmap size).
Proof. unfold read_ntrees_cmap. okb. Qed.
Global Hint Resolve ok_read_ntrees_cmap : okdb.
Lemma ok_lit_body m s : only br_errs (lit_body m s).
Proof. unfold lit_body. okb. Qed.
Global Hint Resolve ok_lit_body : okdb.
Lemma ok_read_cmodes n : only br_errs (read_cmodes n).
Proof. induction n as [|n IH]; cbn [read_cmodes]; okb. Qed.
Global Hint Resolve ok_read_cmodes : okdb.
Lemma ok_raw_copy n : only br_errs (raw_copy n).
Proof. unfold raw_copy, raw_body. okb. Qed.
Lemma ok_skip_bytes n : only br_errs (skip_bytes n).
Proof. unfold skip_bytes, skip_body. okb. Qed.
Lemma ok_zero_pads : only br_errs zero_pads.
Proof. unfold zero_pads. okb. Qed.
Lemma ok_read_len u w m : only br_errs (read_len u w m).
Proof. unfold read_len. okb. Qed.
Global Hint Resolve ok_raw_copy ok_skip_bytes ok_zero_pads ok_read_len : okdb.

(* ---- distances are positive -------------------------------------------- *)
Definition ring_pos (r : ring) : Prop :=
  let '(d1, d2, d3, d4) := r in 0 < d1 /\ 0 < d2 /\ 0 < d3 /\ 0 < d4.

Lemma short_dist_pos code r d : ring_pos r -> short_dist code r = Some d -> 0 < d.
Proof.
  destruct r as [[[d1 d2] d3] d4]. intros [H1 [H2 [H3 H4]]]. unfold short_dist, dsub.
  do 16 (destruct code as [|code] using N.peano_ind;
         [cbn; repeat match goal with |- context[if ?c then _ else _] => destruct c eqn:? end;
          intros E; inversion E; subst;
          repeat match goal with H : (_ <? _) = true |- _ => apply N.ltb_lt in H end; lia|];
         rewrite N2Nat.inj_succ).
  cbn. destruct (N.to_nat code); discriminate.
Qed.
