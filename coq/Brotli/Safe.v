(* The RFC 7932 model never reaches EPanic (window copy out of range, or the
   impossible arm of the simple-code reader) and fails only with
   UnexpectedEOF, Corrupted, or an exhausted loop budget — for every
   dictionary and every input. Needs one loop invariant: the four last
   distances stay positive. *)
From V Require Import Base.Prelude Base.Prog Base.ProgThms Base.OkThms Flate.Spec Flate.Safe
  Brotli.Tables Brotli.Spec.

Definition br_errs := flate_errs.
Local Ltac fe := unfold br_errs, flate_errs; auto.
Local Ltac ok := repeat first [ solve [fe] | only_step br_errs ].

Lemma ok_rb n : only br_errs (rbits n).
Proof. apply ok_rbits. Qed.
Global Hint Resolve ok_rb ok_sym_tree ok_sym_or_corrupt ok_opt_tree : okdb.

Local Ltac okb := repeat first [ solve [auto with okdb] | solve [fe] | only_step br_errs ].

Lemma ok_read_wbits : only br_errs read_wbits.
Proof. unfold read_wbits. okb. Qed.
Lemma ok_read_count : only br_errs read_count.
Proof. unfold read_count. okb. Qed.
Global Hint Resolve ok_read_wbits ok_read_count : okdb.

(* read_simple_syms returns exactly n symbols *)
Lemma hoare_read_simple_syms n abits asize :
  hoare br_errs (fun l => length l = n) (read_simple_syms n abits asize).
Proof.
  induction n as [|n IH]; cbn [read_simple_syms]; [apply hoare_ret; reflexivity|].
  apply hoare_bind_only; [auto with okdb|]. intros s.
  apply hoare_bind_only; [apply only_assert; fe|]. intros _.
  eapply hoare_bind; [exact IH|]. intros r Hr. apply hoare_ret. cbv beta in Hr. cbn [length]. lia.
Qed.

Lemma ok_read_simple_code asize : only br_errs (read_simple_code asize).
Proof.
  unfold read_simple_code.
  eapply only_of_hoare.
  eapply hoare_bind; [apply (hoare_bits_lsbf br_errs (N.to_nat 2)); fe|]. intros nsym1 Hn.
  eapply hoare_bind; [apply hoare_read_simple_syms|]. intros syms Hl.
  apply hoare_of_only.
  apply only_bind; [apply only_assert; fe|]. intros _.
  assert (Hn4 : (N.to_nat nsym1 < 4)%nat) by (cbn in Hn; lia).
  destruct syms as [|a [|b [|c [|d [|e r]]]]]; cbn [length] in Hl; try lia; okb.
Qed.
Global Hint Resolve ok_read_simple_code : okdb.

Lemma ok_read_clcl order space num acc : only br_errs (read_clcl order space num acc).
Proof. revert space num acc; induction order as [|s r IH]; intros; cbn [read_clcl]; okb. Qed.
Global Hint Resolve ok_read_clcl : okdb.
Lemma ok_clen_sym_body t asize s : only br_errs (clen_sym_body t asize s).
Proof. unfold clen_sym_body. okb. Qed.
Global Hint Resolve ok_clen_sym_body : okdb.
Lemma ok_read_complex_code asize hskip : only br_errs (read_complex_code asize hskip).
Proof. unfold read_complex_code. okb. Qed.
Global Hint Resolve ok_read_complex_code : okdb.
Lemma ok_read_prefix_code asize : only br_errs (read_prefix_code asize).
Proof. unfold read_prefix_code. okb. Qed.
Global Hint Resolve ok_read_prefix_code : okdb.
Lemma ok_read_prefix_codes n asize : only br_errs (read_prefix_codes n asize).
Proof. induction n as [|n IH]; cbn [read_prefix_codes]; okb. Qed.
Global Hint Resolve ok_read_prefix_codes : okdb.
Lemma ok_read_block_count lt : only br_errs (read_block_count lt).
Proof. unfold read_block_count. okb. Qed.
Global Hint Resolve ok_read_block_count : okdb.
Lemma ok_read_blk : only br_errs read_blk.
Proof. unfold read_blk. okb. Qed.
Lemma ok_block_switch b : only br_errs (block_switch b).
Proof. unfold block_switch. okb. Qed.
Global Hint Resolve ok_read_blk ok_block_switch : okdb.
Lemma ok_blk_next b : only br_errs (blk_next b).
Proof. unfold blk_next. okb. Qed.
Global Hint Resolve ok_blk_next : okdb.
Lemma ok_cmap_body t rlemax s : only br_errs (cmap_body t rlemax s).
Proof. unfold cmap_body. okb. Qed.
Global Hint Resolve ok_cmap_body : okdb.
Lemma ok_read_context_map size nt : only br_errs (read_context_map size nt).
Proof. unfold read_context_map. okb. Qed.
Global Hint Resolve ok_read_context_map : okdb.
Lemma ok_read_ntrees_cmap size : only br_errs (read_ntrees_cmap size).
Proof. unfold read_ntrees_cmap. okb. Qed.
Global Hint Resolve ok_read_ntrees_cmap : okdb.
Lemma ok_lit_body m s : only br_errs (lit_body m s).
Proof. unfold lit_body. okb. Qed.
Global Hint Resolve ok_lit_body : okdb.
Lemma ok_read_cmodes n : only br_errs (read_cmodes n).
Proof. induction n as [|n IH]; cbn [read_cmodes]; okb. Qed.
Global Hint Resolve ok_read_cmodes : okdb.
Lemma ok_raw_copy n : only br_errs (raw_copy n).
Proof. unfold raw_copy, raw_body. okb. Qed.
Lemma ok_skip_bytes n : only br_errs (skip_bytes n).
Proof. unfold skip_bytes, skip_body. okb. Qed.
Lemma ok_zero_pads : only br_errs zero_pads.
Proof. unfold zero_pads. okb. Qed.
Lemma ok_read_len u w m : only br_errs (read_len u w m).
Proof. unfold read_len. okb. Qed.
Global Hint Resolve ok_raw_copy ok_skip_bytes ok_zero_pads ok_read_len : okdb.

(* ---- distances are positive -------------------------------------------- *)
Definition ring_pos (r : ring) : Prop :=
  let '(d1, d2, d3, d4) := r in 0 < d1 /\ 0 < d2 /\ 0 < d3 /\ 0 < d4.

Lemma nth_some_in {A} (l : list (option A)) n d : nth n l None = Some d -> In (Some d) l.
Proof.
  revert n; induction l as [|x l IH]; intros [|n] E; cbn in E; try discriminate.
  - left; exact E.
  - right; eapply IH; exact E.
Qed.

Lemma dsub_pos a k d : dsub a k = Some d -> 0 < d.
Proof.
  unfold dsub. destruct (k <? a) eqn:L; [|discriminate].
  apply N.ltb_lt in L. intros E; inversion E; lia.
Qed.

Lemma short_dist_pos code r d : ring_pos r -> short_dist code r = Some d -> 0 < d.
Proof.
  destruct r as [[[d1 d2] d3] d4]. intros [H1 [H2 [H3 H4]]]. unfold short_dist.
  intros E. apply nth_some_in in E. cbn [In] in E.
  repeat (destruct E as [E|E];
          [first [ apply dsub_pos in E; exact E | inversion E; subst; lia ]|]).
  contradiction.
Qed.

Lemma ring_push_pos r d : ring_pos r -> 0 < d -> ring_pos (ring_push r d).
Proof. destruct r as [[[d1 d2] d3] d4]. cbn. intros [H1 [H2 [H3 H4]]] Hd. auto. Qed.

Lemma ring_last_pos r : ring_pos r -> 0 < ring_last r.
Proof. destruct r as [[[d1 d2] d3] d4]. cbn. intros [H1 _]. exact H1. Qed.

Lemma ring_init_pos : ring_pos (4, 11, 15, 16).
Proof. cbn. lia. Qed.

Lemma hoare_decode_distance np nd dcode r :
  ring_pos r -> hoare br_errs (fun d => 0 < d) (decode_distance np nd dcode r).
Proof.
  intros Hr. unfold decode_distance.
  destruct (dcode <? 16) eqn:E1.
  - destruct (short_dist dcode r) as [d|] eqn:E; [|apply hoare_throw; fe].
    apply hoare_ret. eapply short_dist_pos; eauto.
  - apply N.ltb_ge in E1. destruct (dcode <? 16 + nd) eqn:E2.
    + apply hoare_ret. lia.
    + apply hoare_bind_only; [auto with okdb|]. intros extra. apply hoare_ret. rewrite N.add_1_r. apply N.lt_0_succ.
Qed.

Section WithDict.
Variable dict_byte : N -> byte.

Definition cst_ok (s : cst) : Prop := ring_pos (c_ring s).
Definition cres_ok (r : cst + cst) : Prop :=
  match r with inl s => cst_ok s | inr s => cst_ok s end.

Lemma cmd_next_ok rem bl bi bd r : ring_pos r -> cres_ok (cmd_next rem bl bi bd r).
Proof. unfold cmd_next; destruct (rem =? 0); exact id. Qed.

Lemma hoare_command m s : cst_ok s -> hoare br_errs cres_ok (command dict_byte m s).
Proof.
  intros Hs. unfold command.
  apply hoare_bind_only; [auto with okdb|]. intros bis.
  apply hoare_bind_only; [auto with okdb|]. intros sym.
  destruct (iac_codes sym) as [icode ccode].
  destruct (nth_range ins_ranges icode) as [ibase inb].
  destruct (nth_range cpy_ranges ccode) as [cbase cnb].
  apply hoare_bind_only; [auto with okdb|]. intros ix.
  apply hoare_bind_only; [auto with okdb|]. intros cx.
  cbv zeta.
  apply hoare_bind_only; [apply only_assert; fe|]. intros _.
  apply hoare_bind_only.
  { destruct (ibase + ix =? 0); okb. }
  intros bl.
  destruct (c_rem s =? ibase + ix); [apply hoare_ret; exact Hs|].
  apply (hoare_bind br_errs (fun dz : N * bool * blk => 0 < fst (fst dz))).
  { destruct (sym <? 128).
    - apply hoare_ret. cbn [fst]. apply ring_last_pos. exact Hs.
    - apply hoare_bind_only; [auto with okdb|]. intros bds.
      apply hoare_bind_only; [auto with okdb|]. intros dcode.
      eapply hoare_bind; [apply hoare_decode_distance; exact Hs|]. intros d Hd.
      apply hoare_ret. exact Hd. }
  intros [[dist zero] bd] Hd. cbn [fst] in Hd.
  apply (hoare_hist_guard_copy br_errs cres_ok dist (cbase + cx) (fun h => N.min (m_window m) h)).
  - exact Hd.
  - intros h. lia.
  - fe.
  - apply hoare_ret. apply cmd_next_ok. destruct zero; [exact Hs | apply ring_push_pos; assumption].
  - intros h. destruct (dict_ref dict_byte (cbase + cx) (dist - N.min (m_window m) h - 1)) as [w|];
      [|apply hoare_throw; fe].
    apply hoare_bind_only; [apply only_assert; fe|]. intros _.
    apply hoare_bind_only; [apply only_put_all|]. intros _.
    apply hoare_ret. apply cmd_next_ok. exact Hs.
Qed.

Lemma hoare_compressed_metablock window mlen inbits r :
  ring_pos r -> hoare br_errs ring_pos (compressed_metablock dict_byte window mlen inbits r).
Proof.
  intros Hr. unfold compressed_metablock.
  do 5 (apply hoare_bind_only; [solve [auto with okdb]|]; intros ?).
  cbv zeta.
  do 6 (apply hoare_bind_only; [solve [auto with okdb]|]; intros ?).
  cbv zeta.
  eapply hoare_bind.
  - apply (hoare_loop br_errs cst_ok cst_ok); [fe | intros s Hs; apply hoare_command; exact Hs | exact Hr].
  - intros fin Hf. apply hoare_ret. exact Hf.
Qed.

Definition mres_ok (x : ring + unit) : Prop := match x with inl r => ring_pos r | inr _ => True end.

Lemma hoare_metablock window inbits r :
  ring_pos r -> hoare br_errs mres_ok (metablock dict_byte window inbits r).
Proof.
  intros Hr. unfold metablock.
  apply hoare_bind_only; [auto with okdb|]. intros islast.
  apply hoare_bind_only; [destruct (islast =? 1); okb|]. intros empty.
  destruct (empty =? 1).
  { apply hoare_bind_only; [auto with okdb|]. intros _. apply hoare_ret. exact I. }
  apply hoare_bind_only; [auto with okdb|]. intros mn.
  apply (hoare_bind br_errs ring_pos).
  - destruct (mn =? 3).
    + apply hoare_bind_only; [auto with okdb|]. intros reserved.
      apply hoare_bind_only; [apply only_assert; fe|]. intros _.
      apply hoare_bind_only; [auto with okdb|]. intros sb.
      apply hoare_bind_only; [destruct (sb =? 0); okb|]. intros sl.
      apply hoare_bind_only; [auto with okdb|]. intros _.
      apply hoare_bind_only; [auto with okdb|]. intros _.
      apply hoare_ret. exact Hr.
    + apply hoare_bind_only; [auto with okdb|]. intros mlen.
      apply hoare_bind_only; [destruct (islast =? 1); okb|]. intros unc.
      destruct (unc =? 1).
      * apply hoare_bind_only; [auto with okdb|]. intros _.
        apply hoare_bind_only; [auto with okdb|]. intros _.
        apply hoare_ret. exact Hr.
      * apply hoare_compressed_metablock. exact Hr.
  - intros r' Hr'. destruct (islast =? 1).
    + apply hoare_bind_only; [auto with okdb|]. intros _. apply hoare_ret. exact I.
    + apply hoare_ret. exact Hr'.
Qed.

Theorem brotli_prog_only_expected_errors inbits : only br_errs (brotli_prog dict_byte inbits).
Proof.
  unfold brotli_prog. apply only_bind; [auto with okdb|]. intros wbits.
  eapply only_of_hoare.
  apply (hoare_loop br_errs ring_pos (fun _ => True)); [fe | | exact ring_init_pos].
  intros r Hr. eapply hoare_weaken; [apply hoare_metablock; exact Hr|].
  intros [r'|[]]; auto.
Qed.

(* the decoder model, on every input and for every dictionary: it either completes
   or fails with UnexpectedEOF / Corrupted / the loop budget; the budget is never
   exhausted on the inputs the correspondence runs (EFuel never observed), and
   EPanic - an out-of-range window copy - is impossible *)
Theorem brotli_only_expected_errors input :
  match br_err (brotli_decode dict_byte input) with
  | None => True
  | Some e => br_errs e
  end.
Proof.
  unfold brotli_decode. cbn [br_err].
  set (s := ast_init (bytes_to_bits input)).
  assert (Hw : wf_ast s) by reflexivity.
  pose proof (only_elim br_errs _ s (brotli_prog_only_expected_errors
               (8 * N.of_nat (length input) + 64)) Hw) as H.
  unfold res_err. destruct (run _ s); [exact I | exact H].
Qed.

Corollary brotli_never_panics input : br_err (brotli_decode dict_byte input) <> Some EPanic.
Proof.
  pose proof (brotli_only_expected_errors input) as H. intros E. rewrite E in H.
  unfold br_errs, flate_errs in H. intuition discriminate.
Qed.
End WithDict.
