(* Layer (e): the steps of the Reader (Brotli/Impl.v run_step) against the whole RFC decoder
   (Brotli/Spec.v brotli_prog): the meta-block of the RFC decoder split at the points where the
   Reader's steps end, the configurations of the Reader between steps and their futures, and the
   theorem that every step keeps the future. *)
From V Require Import Base.Prelude Base.Prog Base.ProgThms Base.FuelThms Base.DepthThms
  Flate.Spec Flate.Canon Bzip2.Common Bzip2.MtfRle2 Prefix.Code
  Prefix.ReaderImpl Prefix.ReaderSpec Prefix.ReaderThms
  Prefix.DecTable Prefix.DecTableSpec Prefix.DecTableThms
  Brotli.BitReaderImpl Brotli.BitReaderSpec Brotli.BitReaderThms
  Brotli.PrefixDecoderImpl
  Brotli.Tables Brotli.Spec Brotli.Fuel Brotli.Safe
  Brotli.Impl Brotli.ImplBits Brotli.ImplSym Brotli.ImplFixed Brotli.ImplHdr Brotli.ImplNoPut
  Brotli.ImplCode Brotli.ImplCodeX Brotli.ImplCtx Brotli.ImplPfx Brotli.ImplDist Brotli.ImplCopy
  Brotli.ImplWin Brotli.ImplKeep Brotli.ImplCmd.
From V Require Import Window.Dict Window.DictSpec Window.DictThms Window.DictBr Window.DictBrSpec
  Window.DictBrThms.
From Coq Require Import ZifyBool ZifyN ZifyNat.

Local Open Scope N_scope.
Local Ltac Zify.zify_post_hook ::= idtac.

Section Top.
Variable data : list byte.
Hypothesis Hd : forall b, In b data -> b < 256.
Variable bsz : nat.
Hypothesis Hbsz : (16 <= bsz)%nat.
Variable dict_len : N.
Variable dict_byte : N -> N.
Hypothesis Hdb : forall k, dict_byte k < 256.
Hypothesis Hdl : 122784 <= dict_len.
Variable inbits : N.
Variable w : N.                 (* the window size announced by the stream header *)

Notation BInv' := (BitReaderThms.BInv data).
Notation sast' := (sast data).
Notation mblock := (metablock dict_byte w inbits).
Notation Wok_del := (Wok_delivered data Hd bsz Hbsz dict_len dict_byte Hdb Hdl).

(* ---- the meta-block of the RFC decoder, header first -------------------------------------------------------------- *)
Definition mb_end (il : N) (r : ring) : prog (ring + unit) :=
  if il =? 1 then zero_pads ;;; Ret (inr tt) else Ret (inl r).

Definition mb_body (r : ring) (k : smbk) : prog (ring + unit) :=
  match k with
  | SLastEmpty => zero_pads ;;; Ret (inr tt)
  | SMeta il sl => skip_bytes sl ;;; mb_end il r
  | SRaw il mlen => raw_copy mlen ;;; mb_end il r
  | SComp il mlen => r' <- compressed_metablock dict_byte w mlen inbits r ;; mb_end il r'
  end.

Lemma metablock_split r a : run (mblock r) a = run (k <- mb_header ;; mb_body r k) a.
Proof.
  unfold metablock, mb_header. rewrite !run_bind.
  destruct (run (rbits 1) a) as [il a1|e a1]; [|reflexivity].
  rewrite !run_bind. destruct (run (if il =? 1 then rbits 1 else Ret 0) a1) as [em a2|e a2]; [|reflexivity].
  destruct (em =? 1); [reflexivity|].
  rewrite !run_bind. destruct (run (rbits 2) a2) as [mn a3|e a3]; [|reflexivity].
  destruct (mn =? 3).
  - unfold spec_meta_hdr. rewrite !run_bind.
    destruct (run (rbits 1) a3) as [rs a4|e a4]; [|reflexivity].
    unfold assert_p. destruct (rs =? 0); [|reflexivity]. cbn [bind run]. rewrite !run_bind.
    destruct (run (rbits 2) a4) as [sb a5|e a5]; [|reflexivity].
    rewrite !run_bind. destruct (run (if sb =? 0 then Ret 0 else read_len sb 8 1) a5) as [sl a6|e a6]; [|reflexivity].
    rewrite !run_bind. destruct (run zero_pads a6) as [u a7|e a7]; [|reflexivity].
    cbn [run mb_body]. rewrite !run_bind. destruct (run (skip_bytes sl) a7) as [u2 a8|e a8]; reflexivity.
  - unfold spec_data_hdr. rewrite !run_bind.
    destruct (run (read_len (mn + 4) 4 4) a3) as [mlen a4|e a4]; [|reflexivity].
    rewrite !run_bind. destruct (run (if il =? 1 then Ret 0 else rbits 1) a4) as [unc a5|e a5]; [|reflexivity].
    destruct (unc =? 1).
    + rewrite !run_bind. destruct (run zero_pads a5) as [u a6|e a6]; [|reflexivity].
      cbn [run mb_body]. rewrite !run_bind. destruct (run (raw_copy mlen) a6) as [u2 a7|e a7]; reflexivity.
    + cbn [run mb_body]. rewrite run_bind. reflexivity.
Qed.

(* ---- where the Reader stands between steps, and what the RFC decoder still has to do ----------------------------------- *)
Inductive tcfg :=
| TBlock (r : ring)                       (* readBlockHeader, a further meta-block follows *)
| TLast                                   (* readBlockHeader after the last meta-block: final padding *)
| TRaw (il n : N) (r : ring)              (* readRawData, n bytes to go *)
| TCmd (il : N) (m : mbp) (c : cfg).      (* readCommands *)

(* the end of the stream: the fill bits *)
Definition rfin (a : ast) : result unit := run (zero_pads ;;; Ret tt) a.

Definition fin_fut (il : N) (r : ring) (a : ast) (rf : result unit) : Prop :=
  if il =? 1 then rf = rfin a else loops mblock r a rf.

(* the future of an uncompressed meta-block with n bytes to go, in closed form *)
Definition raw_fut (il n : N) (r : ring) (R : nat) (out : list byte) (rf : result unit) : Prop :=
  if Nat.leb (R + 8 * N.to_nat n) (8 * length data)
  then fin_fut il r (sast' (R + 8 * N.to_nat n) (rev (dbytes data (R / 8) (N.to_nat n)) ++ out)) rf
  else exists a', rf = Fail EUEOF a' /\
                  a_out a' = rev (dbytes data (R / 8) (length data - R / 8)) ++ out.

(* [rf]: how the loop over the meta-blocks ends *)
Definition tfut (t : tcfg) (R : nat) (out : list byte) (rf : result unit) : Prop :=
  match t with
  | TBlock r => loops mblock r (sast' R out) rf
  | TLast => rf = rfin (sast' R out)
  | TRaw il n r => raw_fut il n r R out rf
  | TCmd il m c =>
    exists rc, cfut dict_byte m c (sast' R out) rc /\
      match rc with
      | Done fin a' => fin_fut il (c_ring fin) a' rf
      | Fail e a' => rf = Fail e a'
      end
  end.

Lemma mb_end_fut il r a rf :
  match run (mb_end il r) a with
  | Done (inl r') a' => loops mblock r' a' rf
  | Done (inr x) a' => rf = Done x a'
  | Fail e a' => rf = Fail e a'
  end -> fin_fut il r a rf.
Proof.
  unfold mb_end, fin_fut, rfin. destruct (il =? 1).
  - rewrite !run_bind. destruct (run zero_pads a) as [u a'|e a']; cbn [run]; auto.
  - cbn [run]. auto.
Qed.

Lemma loops_inv {St Rr} (body : St -> prog (St + Rr)) st a r : loops body st a r ->
  match run (body st) a with
  | Done (inl st') a' => loops body st' a' r
  | Done (inr x) a' => r = Done x a'
  | Fail e a' => r = Fail e a'
  end.
Proof. intros H. inversion H; subst; match goal with E : run _ _ = _ |- _ => rewrite E end; auto. Qed.

(* the future after the header of a meta-block *)
Definition body_fut (r : ring) (k : smbk) (R1 : nat) (out : list byte) (rf : result unit) : Prop :=
  match k with
  | SLastEmpty => rf = rfin (sast' R1 out)
  | SMeta il sl =>
    match run (skip_bytes sl) (sast' R1 out) with
    | Done _ a2 => fin_fut il r a2 rf
    | Fail e a2 => rf = Fail e a2
    end
  | SRaw il n => (R1 mod 8 = 0)%nat -> (R1 <= 8 * length data)%nat -> raw_fut il n r R1 out rf
  | SComp il mlen =>
    match run (comp_header w) (sast' R1 out) with
    | Done (bl, bi, bd, m) a2 =>
      exists rc, cfut dict_byte m (CStart (mkCst mlen bl bi bd r)) a2 rc /\
        match rc with
        | Done fin a' => fin_fut il (c_ring fin) a' rf
        | Fail e a' => rf = Fail e a'
        end
    | Fail e a2 => rf = Fail e a2
    end
  end.

Lemma raw_copy_fut il n r R out rf : (R mod 8 = 0)%nat -> (R <= 8 * length data)%nat ->
  match run (raw_copy n) (sast' R out) with
  | Done _ a' => fin_fut il r a' rf
  | Fail e a' => rf = Fail e a'
  end -> raw_fut il n r R out rf.
Proof.
  intros Hal HR H. unfold raw_fut.
  destruct (loops_raw data Hd bsz Hbsz n R out Hal HR) as (L1 & L2).
  destruct (Nat.leb_spec (R + 8 * N.to_nat n) (8 * length data)) as [Hle|Hgt].
  - specialize (L1 Hle). unfold raw_copy in H.
    rewrite (loop_run _ _ _ _ _ (fun k => bnf_raw_copy k n) L1) in H. exact H.
  - destruct (L2 Hgt) as (s' & Hl & Ho). unfold raw_copy in H.
    rewrite (loop_run _ _ _ _ _ (fun k => bnf_raw_copy k n) Hl) in H. exists s'. split; assumption.
Qed.

Lemma block_fut r R out rf : (forall a', rf <> Fail EFuel a') -> loops mblock r (sast' R out) rf ->
  match run mb_header (sast' R out) with
  | Done k a1 => forall R1, a1 = sast' R1 out -> body_fut r k R1 out rf
  | Fail e a1 => rf = Fail e a1
  end.
Proof.
  intros Hnf H. apply loops_inv in H. rewrite metablock_split, run_bind in H.
  destruct (run mb_header (sast' R out)) as [k a1|e a1]; [|exact H].
  intros R1 ->.
  destruct k as [|il sl|il n|il mlen]; cbn [mb_body body_fut] in *.
  - unfold rfin. rewrite !run_bind in *. destruct (run zero_pads (sast' R1 out)) as [u a2|e a2]; cbn [run] in *; exact H.
  - rewrite run_bind in H. destruct (run (skip_bytes sl) (sast' R1 out)) as [u a2|e a2]; [|exact H].
    apply mb_end_fut. exact H.
  - intros Hal HR. apply raw_copy_fut; [exact Hal | exact HR|].
    rewrite run_bind in H. destruct (run (raw_copy n) (sast' R1 out)) as [u a2|e a2]; [|exact H].
    apply mb_end_fut. exact H.
  - rewrite run_bind, compressed_metablock_split, run_bind in H.
    destruct (run (comp_header w) (sast' R1 out)) as [[[[bl bi] bd] m] a2|e a2]; [|exact H].
    unfold comp_body in H. rewrite run_bind in H.
    set (s0 := mkCst mlen bl bi bd r) in *.
    pose proof (loop_loops (loop_depth (mlen + inbits)) (command dict_byte m) s0 a2) as Hl.
    destruct (run (loop (loop_depth (mlen + inbits)) (command dict_byte m) s0) a2) as [fin a3|e a3] eqn:El.
    + exists (Done fin a3). split; [apply cfut_start; apply Hl; intros Hf; exact Hf|].
      cbn [run] in H. apply mb_end_fut. exact H.
    + exists (Fail e a3). split; [|exact H]. apply cfut_start. apply Hl.
      intros Hf. destruct e; try exact Hf. exact (Hnf a3 H).
Qed.

(* ---- the Reader between steps ------------------------------------------------------------------------------------------------ *)
Definition sinv (t : tcfg) (st : rst) (R : nat) (out : list byte) : Prop :=
  zr_err st = None /\ zr_toRead st = [] /\
  match t with
  | TBlock r =>
    zr_step st = KBlockHeader /\ zr_last st = false /\ zr_stepState st = stateInit /\ tinv data st R out w r
  | TLast => zr_step st = KBlockHeader /\ zr_last st = true /\ exists r, tinv data st R out w r
  | TRaw il n r =>
    zr_step st = KRawData /\ zr_last st = (il =? 1) /\ zr_stepState st = stateInit /\
    tinv data st R out w r /\ zr_blkLen st = Z.of_N n /\ 1 <= n /\ (R mod 8 = 0)%nat
  | TCmd il m c =>
    zr_step st = KCommands /\ zr_last st = (il =? 1) /\ crel data m c st R out /\
    zr_stepState st = sstate c /\ (susp_cfg c \/ exists s, c = CStart s) /\ m_window m = w
  end.

(* what a step does: it ends in a state from which, once the bytes handed out by ReadFlush are
   delivered, the next step can run with the same future; or the stream ends as the RFC decoder says *)
Definition step_ok (st : rst) (out : list byte) (rf : result unit) (r : sres unit) : Prop :=
  match r with
  | SOk _ st' =>
    zr_err st' = None /\ zr_outOff st' = zr_outOff st /\
    exists t' R' out', sinv t' (delivered st') R' out' /\ Wok st' out' /\ tfut t' R' out' rf /\
                       exists ext, out' = ext ++ out
  | SErr e st' =>
    exists out', frel st' out' /\ zr_outOff st' = zr_outOff st /\ (exists ext, out' = ext ++ out) /\
      (e = EFuel \/
       (e = EEOF /\ out' = out /\ exists R', rf = Done tt (sast' R' out) /\ BInv' R' (zr_rd st')) \/
       ((e = EUEOF \/ e = ECorrupted) /\ exists e0 a', rf = Fail e0 a' /\ a_out a' = out'))
  | SCrash | SHang => False
  end.

Lemma frel_Wok st out : Wok st out -> zr_toRead st = [] -> OutB out -> frel st out.
Proof. intros HW HT HO. split; [apply Wok_Wokp; exact HW | split; assumption]. Qed.

Lemma rfin_run R out :
  rfin (sast' R out) =
  match run zero_pads (sast' R out) with Done _ a' => Done tt a' | Fail e a' => Fail e a' end.
Proof. unfold rfin. rewrite run_bind. destruct (run zero_pads (sast' R out)); reflexivity. Qed.

(* the final padding *)
Lemma finish_ok {A} st R out rf : BInv' R (zr_rd st) -> Wok st out -> zr_toRead st = [] -> OutB out ->
  zr_err st = None -> rf = rfin (sast' R out) ->
  match @finish_stream A st with
  | SErr e st' =>
    exists out', frel st' out' /\ zr_outOff st' = zr_outOff st /\ (exists ext, out' = ext ++ out) /\
      (e = EFuel \/
       (e = EEOF /\ out' = out /\ exists R', rf = Done tt (sast' R' out) /\ BInv' R' (zr_rd st')) \/
       ((e = EUEOF \/ e = ECorrupted) /\ exists e0 a', rf = Fail e0 a' /\ a_out a' = out'))
  | _ => False
  end.
Proof.
  intros HI HW HT HO He Hrf. rewrite rfin_run in Hrf.
  pose proof (@finish_stream_ok data Hd bsz Hbsz A st R out HI) as H.
  destruct (run zero_pads (sast' R out)) as [u a'|e a'].
  - destruct H as (-> & p' & E & HI'). rewrite E. exists out.
    split; [apply frel_Wok; try assumption; apply (Wok_ext st); try reflexivity; exact HW|].
    split; [reflexivity|].
    split; [exists []; reflexivity|]. right. left. split; [reflexivity|]. split; [reflexivity|].
    exists (R + pad_n R)%nat. split; [exact Hrf | exact HI'].
  - destruct H as (-> & Ho & p' & E). rewrite E. exists out.
    split; [apply frel_Wok; try assumption; apply (Wok_ext st); try reflexivity; exact HW|].
    split; [reflexivity|].
    split; [exists []; reflexivity|]. right. right. split; [right; reflexivity|].
    exists ECorrupted, a'. split; [exact Hrf | exact Ho].
Qed.

Lemma step_last st R out rf : sinv TLast st R out -> tfut TLast R out rf ->
  step_ok st out rf (run_step bsz dict_len dict_byte st).
Proof.
  intros (He & HT & Hstep & Hlast & r & [HI HW HO Hsz Hring Hword Hmtf]) Hf. cbn [tfut] in Hf.
  unfold run_step. rewrite Hstep. unfold read_block_header. rewrite mbind_get, Hlast.
  pose proof (@finish_ok unit st R out rf HI HW HT HO He Hf) as H.
  destruct (finish_stream st) as [u st'|e st'| |]; try contradiction.
  cbn [step_ok]. exact H.
Qed.

Lemma Wok_undelivered st out : Wok (delivered st) out -> (0 <= zr_outOff st)%Z ->
  zr_toRead st = zskipn (zr_outOff st) (rev out) -> Wok st out.
Proof.
  intros [A B C D] H0 Ht. unfold delivered in *. cbn [set_io zr_pend zr_dict zr_outOff zr_toRead] in *.
  change (zlen (@nil byte)) with 0%Z in B. rewrite Z.add_0_r in B.
  split; try assumption. rewrite Ht at 1. unfold zfirstn. rewrite firstn_all2; [reflexivity|].
  rewrite <- Ht. unfold zlen. lia.
Qed.

Lemma fin_tcfg il r R out rf : fin_fut il r (sast' R out) rf ->
  tfut (if il =? 1 then TLast else TBlock r) R out rf.
Proof. unfold fin_fut. destruct (il =? 1); cbn [tfut]; auto. Qed.

(* readCommands *)
Lemma step_cmd il m c st R out rf : sinv (TCmd il m c) st R out -> tfut (TCmd il m c) R out rf ->
  step_ok st out rf (run_step bsz dict_len dict_byte st).
Proof.
  intros (He & HT & Hstep & Hlast & Hcr & Hss & Hk & Hw) (rc & Hrc & Hfin).
  unfold run_step. rewrite Hstep.
  pose proof (read_commands_ok data Hd bsz Hbsz dict_len dict_byte Hdb Hdl m c st R out Hcr Hss Hk) as H.
  assert (Hoff : (0 <= zr_outOff st)%Z).
  { assert (HC : exists s, cinv data st R out m s /\ zr_pend st = []).
    { destruct c; cbn [crel] in Hcr; destruct Hcr as ((HC & Hp) & _); eexists; split; eassumption. }
    destruct HC as (s & HC & Hp). exact (wk_off _ _ (Wokp_Wok _ _ (ci_win _ _ _ _ _ _ HC) Hp)). }
  destruct (read_commands bsz dict_len dict_byte st) as [u st'|e st'| |]; cbn [loop_res step_ok] in *; try contradiction.
  - destruct H as ((K1 & K2 & K3) & H). split; [congruence|]. split; [exact K3|].
    destruct H as [(c' & R' & out' & Hs' & (Hcr' & Htr) & Hx & Hst' & Hss' & Hf)|(s & R' & out' & Hf & Hx & Hst' & Hti & Htr)].
    + exists (TCmd il m c'), R', out'.
      assert (HW' : Wok st' out').
      { apply Wok_undelivered; [|rewrite K3; exact Hoff | exact Htr].
        assert (HC : exists s, cinv data (delivered st') R' out' m s /\ zr_pend (delivered st') = []).
        { destruct c'; cbn [crel] in Hcr'; destruct Hcr' as ((HC & Hp) & _); eexists; split; eassumption. }
        destruct HC as (s & HC & Hp). exact (Wokp_Wok _ _ (ci_win _ _ _ _ _ _ HC) Hp). }
      split; [|split; [exact HW' | split; [|exact Hx]]].
      * split; [exact (eq_trans K2 He)|]. split; [reflexivity|]. split; [exact Hst'|].
        split; [cbn [delivered set_io zr_last]; congruence|]. split; [exact Hcr'|].
        split; [exact Hss'|]. split; [left; exact Hs' | exact Hw].
      * exists rc. split; [apply Hf; exact Hrc | exact Hfin].
    + specialize (Hf rc Hrc). subst rc.
      exists (if il =? 1 then TLast else TBlock (c_ring s)), R', out'.
      assert (HW' : Wok st' out').
      { apply Wok_undelivered; [exact (ti_win _ _ _ _ _ _ Hti) | rewrite K3; exact Hoff | exact Htr]. }
      split; [|split; [exact HW' | split; [apply fin_tcfg; exact Hfin | exact Hx]]].
      rewrite Hw in Hti.
      split; [exact (eq_trans K2 He)|]. split; [reflexivity|].
      destruct (il =? 1).
      * split; [exact (proj1 Hst')|]. split; [cbn [delivered set_io zr_last]; congruence|]. exists (c_ring s). exact Hti.
      * split; [exact (proj1 Hst')|]. split; [cbn [delivered set_io zr_last]; congruence|].
        split; [exact (proj2 Hst') | exact Hti].
  - destruct H as (out' & Hfr & Ko & Hx & Hv). exists out'. split; [exact Hfr|]. split; [exact Ko|]. split; [exact Hx|].
    destruct Hv as [->|(He' & Hfl)]; [left; reflexivity|]. right. right. split; [exact He'|].
    destruct (Hfl rc Hrc) as (e0 & a' & -> & Ho). exists e0, a'. split; [exact Hfin | exact Ho].
Qed.

(* ---- uncompressed data ---------------------------------------------------------------------------------------------------------- *)
Lemma dbytes_app k a b : dbytes data k (a + b) = dbytes data k a ++ dbytes data (k + a) b.
Proof. unfold dbytes. rewrite firstn_plus, skipn_skipn'. reflexivity. Qed.

Lemma OutB_dbytes k n : OutB (rev (dbytes data k n)).
Proof.
  apply OutB_rev. unfold OutB, dbytes. rewrite Forall_forall. intros x Hx.
  apply Hd. eapply In_skipn'. eapply In_firstn'. exact Hx.
Qed.

Lemma raw_fut_step il n r R out rf m : (R mod 8 = 0)%nat -> N.of_nat m <= n -> (R / 8 + m <= length data)%nat ->
  raw_fut il n r R out rf ->
  raw_fut il (n - N.of_nat m) r (R + 8 * m) (rev (dbytes data (R / 8) m) ++ out) rf.
Proof.
  intros Hal Hm Hav. unfold raw_fut.
  assert (E8 : ((R + 8 * m) / 8 = R / 8 + m)%nat).
  { pose proof (Nat.div_mod R 8 ltac:(lia)) as Hdm. rewrite Hal, Nat.add_0_r in Hdm.
    rewrite Hdm at 1. replace (8 * (R / 8) + 8 * m)%nat with ((R / 8 + m) * 8)%nat by lia.
    apply Nat.div_mul. lia. }
  rewrite E8.
  replace (R + 8 * m + 8 * N.to_nat (n - N.of_nat m))%nat with (R + 8 * N.to_nat n)%nat by lia.
  destruct (Nat.leb (R + 8 * N.to_nat n) (8 * length data)).
  - replace (N.to_nat n) with (m + N.to_nat (n - N.of_nat m))%nat at 2 by lia.
    rewrite dbytes_app, rev_app_distr, <- app_assoc. auto.
  - intros (a' & Ea & Ho). exists a'. split; [exact Ea|]. rewrite Ho.
    replace (length data - R / 8)%nat with (m + (length data - (R / 8 + m)))%nat by lia.
    rewrite dbytes_app, rev_app_distr, <- app_assoc. reflexivity.
Qed.

(* the part of a readRawData step that is common to its two callers *)
Lemma raw_step il n r st R out rf :
  zr_err st = None -> zr_toRead st = [] -> zr_last st = (il =? 1) -> zr_stepState st = stateInit ->
  tinv data st R out w r -> zr_blkLen st = Z.of_N n -> 1 <= n -> (R mod 8 = 0)%nat ->
  raw_fut il n r R out rf ->
  step_ok st out rf (read_raw_data bsz st).
Proof.
  intros He HT Hlast Hss [HI HW HO Hsz Hring Hword Hmtf] Hblk Hn1 Hal Hf.
  destruct (read_raw_data_ok data Hd bsz Hbsz st R out n HI Hal HW HT Hblk Hn1) as (m & Hm & Hav & H).
  cbv zeta in H. set (out' := rev (dbytes data (R / 8) m) ++ out) in *.
  pose proof (raw_fut_step il n r R out rf m Hal Hm Hav Hf) as Hf'. fold out' in Hf'.
  destruct H as [(p & d & tr & E & HI' & HW' & Htr & Hds)|(-> & Hex & st' & E & HWe & HTe & Hoe)].
  - rewrite E. cbn [step_ok].
    assert (HO' : OutB out') by (apply OutB_app; [apply OutB_dbytes | exact HO]).
    assert (Herr : zr_err (raw_after st p d n (N.of_nat m) tr) = None) by (destruct tr; exact He).
    split; [exact Herr|]. split; [destruct tr; reflexivity|].
    destruct tr as [bs|].
    + destruct Htr as (Hlt & Hbs).
      exists (TRaw il (n - N.of_nat m) r), (R + 8 * m)%nat, out'.
      split; [|split; [exact HW' | split; [exact Hf' | exists (rev (dbytes data (R / 8) m)); reflexivity]]].
      split; [exact He|]. split; [reflexivity|]. split; [reflexivity|]. split; [exact Hlast|].
      split; [exact Hss|]. split.
      * constructor; try assumption.
        -- apply Wok_del. exact HW'.
        -- cbn. rewrite Hds. exact Hsz.
      * split; [reflexivity|]. split; [lia|].
        replace (R + 8 * m)%nat with (R + m * 8)%nat by lia. rewrite Nat.mod_add by lia. exact Hal.
    + assert (En : N.of_nat m = n) by exact Htr.
      exists (if il =? 1 then TLast else TBlock r), (R + 8 * m)%nat, out'.
      split; [|split; [exact HW' | split; [|exists (rev (dbytes data (R / 8) m)); reflexivity]]].
      * assert (Hti : tinv data (delivered (raw_after st p d n (N.of_nat m) None)) (R + 8 * m) out' w r).
        { constructor; try assumption.
          - apply Wok_del. exact HW'.
          - cbn. rewrite Hds. exact Hsz. }
        split; [exact He|]. split; [reflexivity|].
        destruct (il =? 1).
        -- split; [reflexivity|]. split; [exact Hlast|]. exists r. exact Hti.
        -- split; [reflexivity|]. split; [exact Hlast|]. split; [exact Hss | exact Hti].
      * apply fin_tcfg. unfold raw_fut in Hf'. rewrite En, N.sub_diag in Hf'.
        cbn [N.to_nat] in Hf'. rewrite Nat.mul_0_r, Nat.add_0_r in Hf'.
        assert (E8 : ((R + 8 * m) / 8 = R / 8 + m)%nat).
        { pose proof (Nat.div_mod R 8 ltac:(lia)) as Hdm. rewrite Hal, Nat.add_0_r in Hdm.
          rewrite Hdm at 1. replace (8 * (R / 8) + 8 * m)%nat with ((R / 8 + m) * 8)%nat by lia.
          apply Nat.div_mul. lia. }
        destruct (Nat.leb_spec (R + 8 * m) (8 * length data)) as [_|Hbad].
        -- unfold dbytes in Hf'. cbn [firstn rev app] in Hf'. exact Hf'.
        -- exfalso. pose proof (Nat.div_mod R 8 ltac:(lia)) as Hdm. rewrite Hal, Nat.add_0_r in Hdm. lia.
  - rewrite E. cbn [step_ok]. exists out. split; [apply frel_Wok; assumption|]. split; [exact Hoe|].
    split; [exists []; reflexivity|]. right. right. split; [left; reflexivity|].
    unfold raw_fut in Hf'. cbn [Nat.mul Nat.add] in Hf'. unfold raw_fut in Hf.
    assert (Hdm : R = (8 * (R / 8))%nat).
    { pose proof (Nat.div_mod R 8 ltac:(lia)) as Hdm. rewrite Hal, Nat.add_0_r in Hdm. exact Hdm. }
    destruct (Nat.leb_spec (R + 8 * N.to_nat n) (8 * length data)) as [Hbad|_]; [exfalso; lia|].
    destruct Hf as (a' & -> & Ho). exists EUEOF, a'. split; [reflexivity|].
    replace (length data - R / 8)%nat with 0%nat in Ho by lia.
    unfold dbytes in Ho. cbn [firstn rev app] in Ho. exact Ho.
Qed.

Lemma step_raw il n r st R out rf : sinv (TRaw il n r) st R out -> tfut (TRaw il n r) R out rf ->
  step_ok st out rf (run_step bsz dict_len dict_byte st).
Proof.
  intros (He & HT & Hstep & Hlast & Hss & Hti & Hblk & Hn & Hal) Hf. unfold run_step. rewrite Hstep.
  apply (raw_step il n r st R); assumption.
Qed.

(* ---- readBlockHeader ------------------------------------------------------------------------------------------------------------ *)
Lemma noput_read_blk : noput read_blk.
Proof.
  unfold read_blk. apply noput_bind; [apply noput_read_count|]. intros n.
  destruct (2 <=? n); [|constructor].
  apply noput_bind; [apply noput_read_prefix_code|]. intros tt.
  apply noput_bind; [apply noput_read_prefix_code|]. intros lt.
  apply noput_bind; [unfold read_block_count; np|]. intros c. constructor.
Qed.

Lemma noput_read_cmodes n : noput (Brotli.Spec.read_cmodes n).
Proof. induction n as [|n IH]; cbn [Brotli.Spec.read_cmodes]; [constructor|]. np. exact IH. Qed.

Lemma noput_cmap_body t rl st : noput (cmap_body t rl st).
Proof. unfold cmap_body. destruct st as [todo acc]. np. Qed.

Lemma noput_read_ntrees_cmap size : noput (read_ntrees_cmap size).
Proof.
  unfold read_ntrees_cmap. apply noput_bind; [apply noput_read_count|]. intros nt.
  destruct (2 <=? nt); [|constructor].
  apply noput_bind; [|intros cm; constructor].
  unfold Brotli.Spec.read_context_map. apply noput_bind; [np|]. intros b.
  apply noput_bind; [np|]. intros rl.
  apply noput_bind; [apply noput_read_prefix_code|]. intros t.
  apply noput_bind; [apply noput_loop; intros st; apply noput_cmap_body|]. intros cm. np.
Qed.

Lemma noput_read_prefix_codes n asize : noput (Brotli.Spec.read_prefix_codes n asize).
Proof.
  induction n as [|n IH]; cbn [Brotli.Spec.read_prefix_codes]; [constructor|].
  apply noput_bind; [apply noput_read_prefix_code|]. intros t.
  apply noput_bind; [exact IH|]. intros ts. constructor.
Qed.

Lemma noput_comp_header : noput (comp_header w).
Proof.
  unfold comp_header.
  apply noput_bind; [apply noput_read_blk|]. intros bl.
  apply noput_bind; [apply noput_read_blk|]. intros bi.
  apply noput_bind; [apply noput_read_blk|]. intros bd.
  apply noput_bind; [np|]. intros npf.
  apply noput_bind; [np|]. intros nd4. cbv zeta.
  apply noput_bind; [apply noput_read_cmodes|]. intros cm.
  apply noput_bind; [apply noput_read_ntrees_cmap|]. intros ml.
  apply noput_bind; [apply noput_read_ntrees_cmap|]. intros md.
  apply noput_bind; [apply noput_read_prefix_codes|]. intros lt.
  apply noput_bind; [apply noput_read_prefix_codes|]. intros it.
  apply noput_bind; [apply noput_read_prefix_codes|]. intros dt. constructor.
Qed.

Lemma delivered_nil st : zr_toRead st = [] -> delivered st = st.
Proof.
  intros H. unfold delivered. rewrite H. change (zlen (@nil byte)) with 0%Z. rewrite Z.add_0_r.
  destruct st; cbn in *. subst. reflexivity.
Qed.

Lemma block_ok r st R out rf :
  zr_err st = None -> zr_toRead st = [] -> zr_last st = false -> zr_stepState st = stateInit ->
  tinv data st R out w r -> tfut (TBlock r) R out rf ->
  (forall a', rf <> Fail EFuel a') ->
  step_ok st out rf (read_block_header bsz st).
Proof.
  intros He HT Hlast Hss Hti Hf Hnf. cbn [tfut] in Hf.
  pose proof Hti as [HI HW HO Hsz Hring Hword Hmtf].
  unfold read_block_header. rewrite mbind_get, Hlast.
  pose proof (read_mb_header_ok data Hd bsz Hbsz st R out HI) as Hh.
  pose proof (block_fut r R out rf Hnf Hf) as Hbf.
  destruct (run mb_header (sast' R out)) as [k a1|e a1].
  2:{ destruct Hh as (Ho & He' & st' & E & Hso). rewrite (mbind_err _ _ _ _ _ E). cbn [step_ok].
      destruct Hso as (S1 & S2 & S3 & S4). exists out.
      split; [apply frel_Wok; [apply (Wok_ext st); assumption | congruence | exact HO]|].
      split; [exact S4|]. split; [exists []; reflexivity|].
      right. right. split; [exact He'|]. exists e, a1. split; [exact Hbf | exact Ho]. }
  destruct Hh as (st1 & R1 & E & -> & HI1 & (p1 & Hpost) & Hk).
  rewrite (mbind_ok _ _ _ _ _ E). cbv beta. specialize (Hbf R1 eq_refl).
  destruct k as [|il sl|il n|il mlen]; cbn [kind_of body_fut] in *.
  - (* ISLASTEMPTY *)
    subst st1.
    pose proof (@finish_ok unit (set_last (set_rd st p1) true) R1 out rf HI1
                  ltac:(apply (Wok_ext st); try reflexivity; exact HW) HT HO He Hbf) as H.
    destruct (finish_stream (set_last (set_rd st p1) true)) as [u st'|e st'| |]; try contradiction.
    cbn [step_ok]. exact H.
  - (* metadata *)
    subst st1. destruct Hk as (Hal & Hsl).
    set (st1 := set_blkLen (set_last (set_rd st p1) (il =? 1)) (Z.of_N sl)) in *.
    pose proof (read_meta_data_ok data Hd bsz Hbsz st1 R1 out sl HI1 Hal eq_refl) as Hm.
    assert (HW1 : Wok st1 out) by (apply (Wok_ext st); try reflexivity; exact HW).
    destruct (run (skip_bytes sl) (sast' R1 out)) as [u a2|e a2].
    + destruct Hm as (p2 & E2 & -> & HI2). rewrite E2. cbn [step_ok].
      set (st2 := set_step (set_rd st1 p2) KBlockHeader (zr_stepState st1)).
      split; [exact He|]. split; [reflexivity|].
      exists (if il =? 1 then TLast else TBlock r), (R1 + 8 * N.to_nat sl)%nat, out.
      assert (HW2 : Wok st2 out) by (apply (Wok_ext st); try reflexivity; exact HW).
      split; [|split; [exact HW2 | split; [apply fin_tcfg; exact Hbf | exists []; reflexivity]]].
      rewrite (delivered_nil st2 HT).
      assert (Hti2 : tinv data st2 (R1 + 8 * N.to_nat sl) out w r) by (constructor; assumption).
      split; [exact He|]. split; [exact HT|].
      destruct (il =? 1).
      * split; [reflexivity|]. split; [reflexivity|]. exists r. exact Hti2.
      * split; [reflexivity|]. split; [reflexivity|]. split; [exact Hss | exact Hti2].
    + destruct Hm as (-> & Ho & st' & E2 & (S1 & S2 & S3 & S4)). rewrite E2. cbn [step_ok].
      exists out. split; [apply frel_Wok; [apply (Wok_ext st1); assumption | rewrite S3; exact HT | exact HO]|].
      split; [exact S4|]. split; [exists []; reflexivity|].
      right. right. split; [left; reflexivity|]. exists EUEOF, a2. split; [exact Hbf | exact Ho].
  - (* uncompressed *)
    subst st1. destruct Hk as (Hal & Hil & Hn).
    set (st1 := set_blkLen (set_last (set_rd st p1) (il =? 1)) (Z.of_N n)) in *.
    apply (raw_step il n r st1 R1); try assumption; try reflexivity.
    + constructor; try assumption. apply (Wok_ext st); try reflexivity. exact HW.
    + lia.
    + apply Hbf; [exact Hal | exact (BInv_pos_le data bsz Hbsz R1 _ HI1)].
  - (* compressed *)
    subst st1. destruct Hk as (Hm1 & Hm2).
    set (st1 := set_blkLen (set_last (set_rd st p1) (il =? 1)) (Z.of_N mlen)) in *.
    pose proof (read_prefix_codes_refines data Hd bsz Hbsz st1 R1 out w HI1 Hmtf) as Hp.
    pose proof (noput_run _ noput_comp_header (sast' R1 out)) as [Hno _].
    destruct (run (comp_header w) (sast' R1 out)) as [[[[bl bi] bd] m] a2|e a2].
    + destruct Hp as (st2 & R2 & E2 & -> & HI2 & Hmtf2 & Hfr & Hrel & Hstep2 & Hc1 & Hc2 & Hc3 & Hwin &
                      Hl1 & Hl2 & Hd1 & Hd2 & Hcm).
      destruct Hfr as (F1 & F2 & F3 & F4 & F5 & F6 & F7 & F8 & F9 & F10 & F11 & F12 & F13 & F14 & F15).
      rewrite E2. cbn [step_ok]. split; [rewrite F8; exact He|]. split; [exact F2|].
      set (s0 := mkCst mlen bl bi bd r) in *.
      assert (HT2 : zr_toRead st2 = []) by (rewrite F3; exact HT).
      assert (HW2 : Wok st2 out) by (apply (Wok_ext st); try assumption; exact HW).
      exists (TCmd il m (CStart s0)), R2, out.
      split; [|split; [exact HW2 | split; [exact Hbf | exists []; reflexivity]]].
      rewrite (delivered_nil st2 HT2).
      split; [rewrite F8; exact He|]. split; [exact HT2|]. split; [exact Hstep2|].
      split; [rewrite F7; reflexivity|].
      split; [|split; [rewrite F9; exact Hss | split; [right; exists s0; reflexivity | exact Hwin]]].
      cbn [crel]. split; [split; [|rewrite F11; exact (wk_pend _ _ HW)]|split; [rewrite F15; exact Hword | exact Hm1]].
      constructor; unfold s0; cbn [c_rem c_bl c_bi c_bd c_ring].
      * exact HI2.
      * apply Wok_Wokp. exact HW2.
      * exact HO.
      * exact HT2.
      * exact Hrel.
      * rewrite F10, Hwin. exact Hsz.
      * rewrite F13. exact Hring.
      * rewrite F4. split; [reflexivity | exact Hm2].
      * rewrite Hl1, Hc1, Hl2, Hcm. repeat split; lia.
      * rewrite Hd1, Hc3, Hd2. split; lia.
      * exact Hmtf2.
    + destruct Hp as (e' & st' & E2 & He' & (S1 & S2 & S3 & S4)). rewrite E2. cbn [step_ok].
      exists out. split; [apply frel_Wok; [apply (Wok_ext st); assumption | rewrite S3; exact HT | exact HO]|].
      split; [exact S4|]. split; [exists []; reflexivity|].
      right. right. split; [exact He'|]. exists e, a2. split; [exact Hbf|]. exact Hno.
Qed.

Lemma step_block r st R out rf : sinv (TBlock r) st R out -> tfut (TBlock r) R out rf ->
  (forall a', rf <> Fail EFuel a') ->
  step_ok st out rf (run_step bsz dict_len dict_byte st).
Proof.
  intros (He & HT & Hstep & Hlast & Hss & Hti) Hf Hnf. unfold run_step. rewrite Hstep.
  apply (block_ok r st R); assumption.
Qed.

(* THEOREM (e), one step: from a state related to a configuration of the RFC decoder, a step of the
   Reader ends in such a state with the same future and an output that extends the old one, or
   ends the stream where and as the RFC decoder does; it never panics *)
Theorem run_step_ok t st R out rf : sinv t st R out -> tfut t R out rf ->
  (forall a', rf <> Fail EFuel a') ->
  step_ok st out rf (run_step bsz dict_len dict_byte st).
Proof.
  intros Hs Hf Hnf. destruct t.
  - apply (step_block r st R); assumption.
  - apply (step_last st R); assumption.
  - apply (step_raw il n r st R); assumption.
  - apply (step_cmd il m c st R); assumption.
Qed.

End Top.
