(* The RFC 7932 decoder model never asks whether its source is exhausted:
   the generic locality theorems apply to it. *)
From V Require Import Base.Prelude Base.Prog Base.ProgThms Base.EfTac Flate.Spec Flate.Thms Brotli.Tables Brotli.Spec.

Global Hint Resolve ef_sym_tree ef_rbits ef_sym_or_corrupt ef_opt_tree eof_free_bits_lsbf
  eof_free_assert eof_free_put_all : efdb.

Ltac efb := repeat first [ solve [auto with efdb] | ef_step ].

Lemma ef_read_wbits : eof_free read_wbits.
Proof. unfold read_wbits. efb. Qed.
Lemma ef_read_count : eof_free read_count.
Proof. unfold read_count. efb. Qed.
Global Hint Resolve ef_read_wbits ef_read_count : efdb.

Lemma ef_read_simple_syms n abits asize : eof_free (read_simple_syms n abits asize).
Proof. induction n as [|n IH]; cbn [read_simple_syms]; efb. Qed.
Global Hint Resolve ef_read_simple_syms : efdb.

Lemma ef_read_simple_code asize : eof_free (read_simple_code asize).
Proof. unfold read_simple_code. efb. Qed.
Global Hint Resolve ef_read_simple_code : efdb.

Lemma ef_read_clcl order space num acc : eof_free (read_clcl order space num acc).
Proof.
  revert space num acc; induction order as [|s r IH]; intros; cbn [read_clcl]; efb.
Qed.
Global Hint Resolve ef_read_clcl : efdb.

Lemma ef_clen_sym_body t asize s : eof_free (clen_sym_body t asize s).
Proof. unfold clen_sym_body. efb. Qed.
Global Hint Resolve ef_clen_sym_body : efdb.

Lemma ef_read_complex_code asize hskip : eof_free (read_complex_code asize hskip).
Proof. unfold read_complex_code. efb. Qed.
Global Hint Resolve ef_read_complex_code : efdb.

Lemma ef_read_prefix_code asize : eof_free (read_prefix_code asize).
Proof. unfold read_prefix_code. efb. Qed.
Global Hint Resolve ef_read_prefix_code : efdb.

Lemma ef_read_prefix_codes n asize : eof_free (read_prefix_codes n asize).
Proof. induction n as [|n IH]; cbn [read_prefix_codes]; efb. Qed.
Global Hint Resolve ef_read_prefix_codes : efdb.

Lemma ef_read_block_count lt : eof_free (read_block_count lt).
Proof. unfold read_block_count. efb. Qed.
Global Hint Resolve ef_read_block_count : efdb.

Lemma ef_read_blk : eof_free read_blk.
Proof. unfold read_blk. efb. Qed.
Lemma ef_block_switch b : eof_free (block_switch b).
Proof. unfold block_switch. efb. Qed.
Global Hint Resolve ef_read_blk ef_block_switch : efdb.
Lemma ef_blk_next b : eof_free (blk_next b).
Proof. unfold blk_next. efb. Qed.
Global Hint Resolve ef_blk_next : efdb.

Lemma ef_cmap_body t rlemax s : eof_free (cmap_body t rlemax s).
Proof. unfold cmap_body. efb. Qed.
Global Hint Resolve ef_cmap_body : efdb.
Lemma ef_read_context_map size nt : eof_free (read_context_map size nt).
Proof. unfold read_context_map. efb. Qed.
Global Hint Resolve ef_read_context_map : efdb.
Lemma ef_read_ntrees_cmap size : eof_free (read_ntrees_cmap size).
Proof. unfold read_ntrees_cmap. efb. Qed.
Global Hint Resolve ef_read_ntrees_cmap : efdb.
Lemma ef_decode_distance np nd dc r : eof_free (decode_distance np nd dc r).
Proof. unfold decode_distance. efb. Qed.
Global Hint Resolve ef_decode_distance : efdb.
Lemma ef_lit_body m s : eof_free (lit_body m s).
Proof. unfold lit_body. efb. Qed.
Global Hint Resolve ef_lit_body : efdb.
Lemma ef_read_cmodes n : eof_free (read_cmodes n).
Proof. induction n as [|n IH]; cbn [read_cmodes]; efb. Qed.
Global Hint Resolve ef_read_cmodes : efdb.
Lemma ef_raw_copy n : eof_free (raw_copy n).
Proof. unfold raw_copy, raw_body. efb. Qed.
Lemma ef_skip_bytes n : eof_free (skip_bytes n).
Proof. unfold skip_bytes, skip_body. efb. Qed.
Lemma ef_zero_pads : eof_free zero_pads.
Proof. unfold zero_pads. efb. Qed.
Lemma ef_read_len u w m : eof_free (read_len u w m).
Proof. unfold read_len. efb. Qed.
Global Hint Resolve ef_raw_copy ef_skip_bytes ef_zero_pads ef_read_len : efdb.

Section B.
  Variable dict_byte : N -> N.

  Lemma ef_command m s : eof_free (command dict_byte m s).
  Proof. unfold command. efb. Qed.
  Hint Resolve ef_command : efdb.

  Lemma ef_compressed_metablock w mlen inbits r : eof_free (compressed_metablock dict_byte w mlen inbits r).
  Proof. unfold compressed_metablock. efb. Qed.
  Hint Resolve ef_compressed_metablock : efdb.

  Lemma ef_metablock w inbits r : eof_free (metablock dict_byte w inbits r).
  Proof. unfold metablock. efb. Qed.
  Hint Resolve ef_metablock : efdb.

  Theorem brotli_eof_free inbits : eof_free (brotli_prog dict_byte inbits).
  Proof. unfold brotli_prog. efb. Qed.

  (* ---- byte-level consequences ------------------------------------------- *)
  Definition brotli_d (inbits : N) (input : list byte) : result unit :=
    decode bits_lsb (brotli_prog dict_byte inbits) input.

  Theorem brotli_trailing inbits input trailer :
    res_err (brotli_d inbits input) <> Some EUEOF ->
    res_err (brotli_d inbits (input ++ trailer)) = res_err (brotli_d inbits input) /\
    res_out (brotli_d inbits (input ++ trailer)) = res_out (brotli_d inbits input) /\
    res_pos (brotli_d inbits (input ++ trailer)) = res_pos (brotli_d inbits input).
  Proof.
    intros H. apply (decode_trailing bits_lsb (brotli_prog dict_byte inbits) input trailer
                       (brotli_eof_free inbits) H).
  Qed.

  Theorem brotli_truncated inbits input cut rest :
    input = cut ++ rest ->
    res_err (brotli_d inbits input) <> Some EUEOF ->
    8 * N.of_nat (length cut) < res_pos (brotli_d inbits input) ->
    res_err (brotli_d inbits cut) = Some EUEOF /\
    prefix_of (res_out (brotli_d inbits cut)) (res_out (brotli_d inbits input)).
  Proof.
    intros H1 H2 H3.
    apply (decode_truncated bits_lsb bits_lsb_len (brotli_prog dict_byte inbits) input cut rest
             (brotli_eof_free inbits) H1 H2 H3).
  Qed.
End B.
