(* Layer (d), pure parts about output: the Copy of the RFC decoder's abstract machine
   (Base/Prog.v copy_chunks, newest byte first) is the LZ77 copy of the window specification
   (Window/DictSpec.v lz_copy, oldest byte first), so that WriteCopy done in pieces is one Copy;
   bytes stay bytes (needed for the literal context lookup); the split of one command of the RFC
   decoder (Brotli/Spec.v command) into the parts the Reader's labels correspond to. *)
From V Require Import Base.Prelude Base.Prog Base.ProgThms Flate.Spec Bzip2.Common Bzip2.MtfRle2
  Brotli.Tables Brotli.Spec Brotli.Fuel
  Window.Dict Window.DictSpec Window.DictThms.
From Coq Require Import ZifyBool ZifyN ZifyNat.

Local Open Scope N_scope.
Local Ltac Zify.zify_post_hook ::= idtac.

(* ---- copies ------------------------------------------------------------------------------------------ *)
Lemma copy_hist_plus a : forall b d out, copy_hist (a + b) d out = copy_hist b d (copy_hist a d out).
Proof. induction a as [|a IH]; intros b d out; cbn [Nat.add copy_hist]; [reflexivity | apply IH]. Qed.

Lemma firstn_succ_nth {A} (l : list A) n d : (n < length l)%nat -> firstn (S n) l = firstn n l ++ [nth n l d].
Proof.
  revert n; induction l as [|x l IH]; intros n H; cbn [length] in H; [lia|].
  destruct n as [|n]; [reflexivity|]. cbn [firstn nth app]. f_equal. apply IH. lia.
Qed.

Lemma nth_skipn_add {A} (l : list A) k n d : nth n (skipn k l) d = nth (k + n) l d.
Proof.
  revert l; induction k as [|k IH]; intros l; [reflexivity|].
  destruct l as [|x l]; [destruct n; reflexivity|]. cbn [skipn Nat.add nth]. apply IH.
Qed.

Lemma copy_hist_small n : forall d out, (n <= d <= length out)%nat ->
  copy_hist n d out = firstn n (skipn (d - n) out) ++ out.
Proof.
  induction n as [|n IH]; intros d out H; cbn [copy_hist]; [reflexivity|].
  rewrite IH by (cbn [length]; lia).
  replace (d - n)%nat with (S (d - S n)) by lia. cbn [skipn].
  rewrite (firstn_succ_nth _ n 0) by (rewrite skipn_length; lia).
  rewrite nth_skipn_add. replace (d - S n + n)%nat with (d - 1)%nat by lia.
  rewrite <- app_assoc. reflexivity.
Qed.

Lemma copy_chunks_hist f : forall n d out, (0 < d <= length out)%nat -> (n < f)%nat ->
  copy_chunks f n d out = copy_hist n d out.
Proof.
  induction f as [|f IH]; intros n d out Hd Hn; [lia|]. cbn [copy_chunks].
  destruct (Nat.leb_spec n d) as [Hle|Hgt].
  - symmetry. apply copy_hist_small. lia.
  - rewrite IH by (rewrite ?app_length, ?firstn_length; lia).
    replace n with (d + (n - d))%nat at 2 by lia. rewrite copy_hist_plus. f_equal.
    rewrite copy_hist_small by lia. rewrite Nat.sub_diag. reflexivity.
Qed.

Lemma copy_hist_lz n : forall d out, (0 < d <= length out)%nat ->
  rev (copy_hist n d out) = lz_copy (rev out) (Z.of_nat d) n.
Proof.
  induction n as [|n IH]; intros d out Hd; cbn [copy_hist lz_copy]; [reflexivity|].
  rewrite IH by (cbn [length]; lia). cbn [rev]. do 3 f_equal.
  unfold lz_byte, znth, zlen. rewrite rev_length.
  replace (Z.to_nat (Z.of_nat (length out) - Z.of_nat d)) with (length out - d)%nat by lia.
  rewrite rev_nth by lia. f_equal. lia.
Qed.

(* the Copy of the abstract machine, seen from the window *)
Lemma copy_chunks_lz l d out : 0 < d -> (N.to_nat d <= length out)%nat ->
  rev (copy_chunks (S (N.to_nat l)) (N.to_nat l) (N.to_nat d) out) = lz_copy (rev out) (Z.of_N d) (N.to_nat l).
Proof.
  intros H0 Hd. rewrite copy_chunks_hist by lia. rewrite copy_hist_lz by lia. f_equal. lia.
Qed.

(* ---- bytes ---------------------------------------------------------------------------------------------- *)
Definition OutB (out : list byte) : Prop := Forall (fun b => b < 256) out.

Lemma OutB_nth out k : OutB out -> nth k out 0 < 256.
Proof.
  intros H. destruct (Nat.lt_ge_cases k (length out)) as [Hl|Hl].
  - unfold OutB in H. rewrite Forall_forall in H. apply H. apply nth_In. exact Hl.
  - rewrite nth_overflow by exact Hl. lia.
Qed.

Lemma OutB_copy_hist n : forall d out, OutB out -> OutB (copy_hist n d out).
Proof.
  induction n as [|n IH]; intros d out H; cbn [copy_hist]; [exact H|].
  apply IH. constructor; [apply OutB_nth; exact H | exact H].
Qed.

Lemma OutB_app a b : OutB a -> OutB b -> OutB (a ++ b).
Proof. intros Ha Hb. apply Forall_app. split; assumption. Qed.

Lemma OutB_rev a : OutB a -> OutB (rev a).
Proof. apply Forall_rev. Qed.

Lemma lxor_byte a b : a < 256 -> b < 256 -> N.lxor a b < 256.
Proof.
  intros Ha Hb. destruct (N.eq_dec (N.lxor a b) 0) as [E|E]; [lia|].
  change 256 with (2 ^ 8) in *.
  apply N.log2_lt_pow2; [lia|]. eapply N.le_lt_trans; [apply N.log2_lxor|].
  apply N.max_lub_lt.
  - destruct (N.eq_dec a 0) as [->|Ha0]; [cbn; lia|]. apply N.log2_lt_pow2; lia.
  - destruct (N.eq_dec b 0) as [->|Hb0]; [cbn; lia|]. apply N.log2_lt_pow2; lia.
Qed.

Lemma up_ascii_byte c : c < 256 -> up_ascii c < 256.
Proof. intros H. unfold up_ascii. destruct (_ && _); [apply lxor_byte; lia | exact H]. Qed.

Lemma OutB_upper_first w : OutB w -> OutB (upper_first w).
Proof.
  intros H. destruct w as [|c r]; [exact H|]. inversion H as [|? ? Hc Hr]; subst. cbn [upper_first].
  destruct (c <? 192); [constructor; [apply up_ascii_byte; exact Hc | exact Hr]|].
  destruct (c <? 224).
  - destruct r as [|y r2]; [exact H|]. inversion Hr; subst.
    constructor; [exact Hc|]. constructor; [apply lxor_byte; lia | assumption].
  - destruct r as [|y [|z r3]]; try exact H. inversion Hr as [|? ? Hy Hr2]; subst. inversion Hr2; subst.
    constructor; [exact Hc|]. constructor; [exact Hy|]. constructor; [apply lxor_byte; lia | assumption].
Qed.

Lemma OutB_upper_all : forall n w, (length w <= n)%nat -> OutB w -> OutB (upper_all w).
Proof.
  induction n as [|n IH]; intros w Hl H.
  - destruct w; [exact H | cbn [length] in Hl; lia].
  - destruct w as [|c r]; [exact H|]. inversion H as [|? ? Hc Hr]; subst. cbn [upper_all]. cbn [length] in Hl.
    destruct (c <? 192).
    { constructor; [apply up_ascii_byte; exact Hc | apply IH; [lia | exact Hr]]. }
    destruct (c <? 224).
    + destruct r as [|y r2]; [exact H|]. inversion Hr; subst. cbn [length] in Hl.
      constructor; [exact Hc|]. constructor; [apply lxor_byte; lia | apply IH; [lia | assumption]].
    + destruct r as [|y [|z r3]]; try exact H. inversion Hr as [|? ? Hy Hr2]; subst. inversion Hr2; subst.
      cbn [length] in Hl.
      constructor; [exact Hc|]. constructor; [exact Hy|].
      constructor; [apply lxor_byte; lia | apply IH; [lia | assumption]].
Qed.

Lemma In_firstn' {A} n (l : list A) x : In x (firstn n l) -> In x l.
Proof. intros H. rewrite <- (firstn_skipn n l). apply in_or_app. left. exact H. Qed.
Lemma In_skipn' {A} n (l : list A) x : In x (skipn n l) -> In x l.
Proof. intros H. rewrite <- (firstn_skipn n l). apply in_or_app. right. exact H. Qed.
Lemma OutB_firstn n w : OutB w -> OutB (firstn n w).
Proof. intros H. unfold OutB in *. rewrite Forall_forall in *. intros x Hx. apply H. eapply In_firstn'; eauto. Qed.
Lemma OutB_skipn n w : OutB w -> OutB (skipn n w).
Proof. intros H. unfold OutB in *. rewrite Forall_forall in *. intros x Hx. apply H. eapply In_skipn'; eauto. Qed.

Lemma OutB_apply_xform x w : OutB w -> OutB (apply_xform x w).
Proof.
  intros H. destruct x; cbn [apply_xform].
  - exact H.
  - apply OutB_upper_first; exact H.
  - apply (OutB_upper_all (length w)); [lia | exact H].
  - apply OutB_skipn; exact H.
  - apply OutB_firstn; exact H.
Qed.

Lemma transforms_bytes :
  forallb (fun t : list N * xform * list N =>
             let '(pre, _, suf) := t in forallb (fun b => b <? 256) pre && forallb (fun b => b <? 256) suf)
          transforms = true.
Proof. vm_compute. reflexivity. Qed.

Lemma OutB_of_forallb l : forallb (fun b => b <? 256) l = true -> OutB l.
Proof.
  intros H. unfold OutB. rewrite Forall_forall. rewrite forallb_forall in H.
  intros x Hx. apply N.ltb_lt. apply H. exact Hx.
Qed.

Lemma OutB_transform_word tid w : OutB w -> OutB (transform_word tid w).
Proof.
  intros H. unfold transform_word.
  destruct (Nat.lt_ge_cases (N.to_nat tid) (length transforms)) as [Hl|Hl].
  - pose proof transforms_bytes as Ht. rewrite forallb_forall in Ht.
    specialize (Ht _ (nth_In transforms ([], XIdentity, []) Hl)).
    destruct (nth (N.to_nat tid) transforms ([], XIdentity, [])) as [[pre x] suf].
    apply andb_true_iff in Ht as [Hp Hs].
    apply OutB_app; [apply OutB_of_forallb; exact Hp|].
    apply OutB_app; [apply OutB_apply_xform; exact H | apply OutB_of_forallb; exact Hs].
  - rewrite nth_overflow by exact Hl. cbn [app apply_xform]. rewrite app_nil_r. exact H.
Qed.

Section Dict.
Variable dict_byte : N -> N.
Hypothesis Hdb : forall k, dict_byte k < 256.

Lemma OutB_dict_word len idx : OutB (dict_word dict_byte len idx).
Proof.
  unfold dict_word, OutB. rewrite Forall_forall. intros x Hx. apply in_map_iff in Hx.
  destruct Hx as (k & <- & _). apply Hdb.
Qed.

Lemma OutB_dict_ref clen addr w : dict_ref dict_byte clen addr = Some w -> OutB w.
Proof.
  unfold dict_ref. destruct (_ || _); [discriminate|]. destruct (_ <=? _); [discriminate|].
  intros E. inversion E. apply OutB_transform_word. apply OutB_dict_word.
Qed.

(* ---- one command of the RFC decoder, in the Reader's parts ---------------------------------------------------- *)
(* the insert-and-copy length symbol with its extra bits, the MLEN check of the insert length *)
Definition cmd_head (m : mbp) (s : cst) : prog (blk * N * N * N) :=
  bis <- blk_next (c_bi s) ;;
  let bi := fst bis in
  sym <- sym_or_corrupt (nth_tree (m_itrees m) (b_cur bi)) ;;
  let '(icode, ccode) := iac_codes sym in
  let '(ibase, inb) := nth_range ins_ranges icode in
  let '(cbase, cnb) := nth_range cpy_ranges ccode in
  ix <- rbits inb ;;
  cx <- rbits cnb ;;
  assert_p (ibase + ix <=? c_rem s) ECorrupted ;;;
  Ret (bi, sym, ibase + ix, cbase + cx).

Definition lit_init (m : mbp) (b0 : blk) (ilen p1 p2 : N) : lst :=
  mkLst ilen b0 (nthN (m_cmodes m) (b_cur b0)) (lit_slice m (b_cur b0)) p1 p2.

Definition cmd_lits (m : mbp) (b0 : blk) (ilen : N) : prog blk :=
  if ilen =? 0 then Ret b0 else
  HistB 1 (fun p1 => HistB 2 (fun p2 =>
    ls <- loop (loop_depth ilen) (lit_body m) (lit_init m b0 ilen p1 p2) ;;
    Ret (l_b ls))).

Definition cmd_dist (m : mbp) (s : cst) (sym clen : N) : prog (N * bool * blk) :=
  if sym <? 128 then Ret (ring_last (c_ring s), true, c_bd s)
  else
    bds <- blk_next (c_bd s) ;;
    let bd := fst bds in
    let t := nth_tree (m_dtrees m) (nthN (m_cmapd m) (4 * b_cur bd + dist_context clen)) in
    dcode <- sym_or_corrupt t ;;
    d <- decode_distance (m_npostfix m) (m_ndirect m) dcode (c_ring s) ;;
    Ret (d, dcode =? 0, bd).

Definition cmd_copy (m : mbp) (s : cst) (rem clen : N) (bl bi : blk) (dz : N * bool * blk)
  : prog (cst + cst) :=
  let '(dist, zero, bd) := dz in
  Hist (fun pos =>
    let maxd := N.min (m_window m) pos in
    if dist <=? maxd then
      assert_p (clen <=? rem) ECorrupted ;;;
      Copy dist clen
           (Ret (cmd_next (rem - clen) bl bi bd
                          (if zero then c_ring s else ring_push (c_ring s) dist)))
    else
      match dict_ref dict_byte clen (dist - maxd - 1) with
      | None => Throw ECorrupted
      | Some w =>
        let n := N.of_nat (length w) in
        assert_p (n <=? rem) ECorrupted ;;;
        put_all w ;;;
        Ret (cmd_next (rem - n) bl bi bd (c_ring s))
      end).

Definition cmd_tail (m : mbp) (s : cst) (h : blk * N * N * N) (bl : blk) : prog (cst + cst) :=
  let '(bi, sym, ilen, clen) := h in
  if c_rem s =? ilen then Ret (inr (mkCst 0 bl bi (c_bd s) (c_ring s)))
  else
    dz <- cmd_dist m s sym clen ;;
    cmd_copy m s (c_rem s - ilen) clen bl bi dz.

Lemma command_split m s a :
  run (command dict_byte m s) a =
  run (h <- cmd_head m s ;; bl <- cmd_lits m (c_bl s) (snd (fst h)) ;; cmd_tail m s h bl) a.
Proof.
  unfold command, cmd_head. rewrite !run_bind.
  destruct (run (blk_next (c_bi s)) a) as [bis a1|e a1]; [|reflexivity]. cbv zeta.
  rewrite !run_bind.
  destruct (run (sym_or_corrupt (nth_tree (m_itrees m) (b_cur (fst bis)))) a1) as [sym a2|e a2]; [|reflexivity].
  destruct (iac_codes sym) as [icode ccode].
  destruct (nth_range ins_ranges icode) as [ibase inb].
  destruct (nth_range cpy_ranges ccode) as [cbase cnb].
  rewrite !run_bind. destruct (run (rbits inb) a2) as [ix a3|e a3]; [|reflexivity].
  rewrite !run_bind. destruct (run (rbits cnb) a3) as [cx a4|e a4]; [|reflexivity].
  unfold assert_p. destruct (ibase + ix <=? c_rem s); [|reflexivity].
  cbn [bind run fst snd]. unfold cmd_lits, lit_init.
  rewrite !run_bind.
  match goal with |- match ?x with _ => _ end = match ?y with _ => _ end => change y with x; destruct x as [bl a5|e a5] end;
    [|reflexivity].
  unfold cmd_tail. destruct (c_rem s =? ibase + ix); [reflexivity|].
  unfold cmd_dist, cmd_copy. rewrite !run_bind.
  match goal with |- match ?x with _ => _ end = match ?y with _ => _ end => change y with x; destruct x as [[[dist zero] bd] a6|e a6] end;
    reflexivity.
Qed.

End Dict.
