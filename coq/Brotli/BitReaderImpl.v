(* Implementation-level model of brotli's OWN bit reader (brotli/bit_reader.go, type
   bitReader): brotli does not use internal/prefix.Reader but an older private copy with
   differences. Every field is modelled:

     rd / bufRd      -> [p_src] + [p_buffered] (bufRd != nil  <->  rd is a *bufio.Reader)
     bufBits uint64  -> [p_bufBits]      numBits uint -> [p_numBits]
     offset int64    -> [p_offset]       bufPeek      -> [p_peek]
     discardBits int -> [p_discard]      fedBits uint -> [p_fed]
     prefix          -> a scratch prefixDecoder, see Brotli/PrefixDecoderImpl.v

   The record is the [prd] of Prefix/ReaderImpl.v with [p_big] = false (brotli is
   LSB-first only), so that the invariants of Prefix/ReaderThms.v can be re-used.

   The two source paths of bitReader.Init:
   * r is a *bufio.Reader, or r has no ReadByte method and is wrapped in bufio.NewReader(r):
     the Peek/Discard path ([p_buffered] = true). The source is then ALWAYS a genuine
     bufio.Reader; it is modelled faithfully ([bufio_peek], [bufio_discard], [bufio_read],
     Go 1.23 bufio) over an arbitrary underlying io.Reader whose only freedom - how many
     bytes (at least one, at most len(p)) each Read call returns - is scripted. The state is
     the [src] record of Prefix/ReaderImpl.v, read as: [s_pos] = bytes the bufio.Reader has
     handed out, [s_buf] = bytes it holds buffered (the underlying reader is at
     [s_pos + s_buf]), [s_reads] = the script of the underlying reader (one entry per Read
     call that finds data), [s_fills] unused. [bsz] is the size of the bufio buffer
     (4096 when Init wraps; >= 16 always).
   * r is any other byteReader (Read + ReadByte; e.g. *bytes.Reader, *bytes.Buffer,
     *strings.Reader): one ReadByte per byte ([p_buffered] = false); [src_readbyte] and
     [src_read] of Prefix/ReaderImpl.v.

   Differences to internal/prefix.Reader that matter: FeedBits always asks Peek for
   max(8, Buffered()) bytes (not for what nb needs); it loads byte by byte (no 8-byte wide
   load, hence no look-ahead bits above numBits: bufBits < 2^numBits always, and the D5
   defect of internal/prefix cannot occur); FlushOffset and FeedBits ignore the error of
   Discard; the result of Peek is sliced without a length check (an explicit panic outcome
   here, proved unreachable in BitReaderThms.v); raw Read tests alignment first. *)
From V Require Import Base.Prelude Prefix.ReaderImpl.

Local Open Scope N_scope.

(* ---- bufio.Reader over a scripted underlying io.Reader ------------------------------- *)
(* one Read(p) of the underlying reader, len(p) = len > 0: (bytes returned, io.EOF?) *)
Definition under_read (s : src) (len : nat) : (nat * bool) * list nat :=
  let au := (length (s_data s) - (s_pos s + s_buf s))%nat in
  if Nat.eqb au 0 then ((O, true), s_reads s) else
  let '(lim, reads) :=
    match s_reads s with
    | [] => (len, [])
    | e :: r => (Nat.max 1 (Nat.min e len), r)
    end in
  ((Nat.min (Nat.min len lim) au, false), reads).

(* b.fill(): one underlying Read into the free part of the buffer; true = b.err set (EOF) *)
Definition bufio_fill (bsz : nat) (s : src) : bool * src :=
  let '((n, eof), reads) := under_read s (bsz - s_buf s) in
  (eof, mkSrc (s_data s) (s_pos s) (s_buf s + n) (s_fills s) reads).

(* the loop of Peek:  for b.w-b.r < n && b.w-b.r < len(b.buf) && b.err == nil { b.fill() } *)
Fixpoint peek_fill (fuel : nat) (bsz : nat) (s : src) (n : nat) : src :=
  match fuel with
  | O => s
  | S f =>
    if Nat.ltb (s_buf s) n && Nat.ltb (s_buf s) bsz then
      let '(eof, s') := bufio_fill bsz s in
      if eof then s' else peek_fill f bsz s' n
    else s
  end.

(* Peek(n): (bytes, err != nil); err is io.EOF or bufio.ErrBufferFull (n > bsz); the
   pending error is consumed by readErr, so b.err == nil between calls *)
Definition bufio_peek (bsz : nat) (s : src) (n : nat) : (list byte * bool) * src :=
  let s' := peek_fill (S n) bsz s n in
  ((firstn (Nat.min n (s_buf s')) (skipn (s_pos s') (s_data s')), Nat.ltb (s_buf s') n), s').

(* Discard(n): (discarded, err != nil) *)
Fixpoint discard_loop (fuel : nat) (bsz : nat) (s : src) (remain : nat) (n : nat) : (nat * bool) * src :=
  match fuel with
  | O => ((n - remain, true), s)%nat
  | S f =>
    let '(eof, s1) := if Nat.eqb (s_buf s) 0 then bufio_fill bsz s else (false, s) in
    let skip := Nat.min (s_buf s1) remain in
    let s2 := mkSrc (s_data s1) (s_pos s1 + skip) (s_buf s1 - skip) (s_fills s1) (s_reads s1) in
    let remain' := (remain - skip)%nat in
    if Nat.eqb remain' 0 then ((n, false), s2)
    else if eof then ((n - remain', true), s2)%nat
    else discard_loop f bsz s2 remain' n
  end.

Definition bufio_discard (bsz : nat) (s : src) (n : nat) : (nat * bool) * src :=
  if Nat.eqb n 0 then ((O, false), s) else discard_loop (S n) bsz s n n.

(* Read(p), len(p) = k: (bytes, io.EOF?) *)
Definition bufio_read (bsz : nat) (s : src) (k : nat) : (list byte * bool) * src :=
  if Nat.eqb k 0 then (([], false), s)        (* b.err == nil between calls *)
  else if Nat.eqb (s_buf s) 0 then
    if Nat.leb bsz k then
      (* large read, empty buffer: straight from the underlying reader *)
      let '((n, eof), reads) := under_read s k in
      ((firstn n (skipn (s_pos s) (s_data s)), eof),
       mkSrc (s_data s) (s_pos s + n) 0 (s_fills s) reads)
    else
      (* one read into the buffer, then copy *)
      let '((m, eof), reads) := under_read s bsz in
      let n := Nat.min k m in
      ((firstn n (skipn (s_pos s) (s_data s)), eof),
       mkSrc (s_data s) (s_pos s + n) (m - n) (s_fills s) reads)
  else
    let n := Nat.min k (s_buf s) in
    ((firstn n (skipn (s_pos s) (s_data s)), false),
     mkSrc (s_data s) (s_pos s + n) (s_buf s - n) (s_fills s) (s_reads s)).

(* ---- the bitReader ------------------------------------------------------------------------ *)
Definition binit (data : list byte) (buffered : bool) (reads : list nat) : prd :=
  init data buffered false [] reads.

(* FlushOffset. nd := (discardBits + 7) / 8 is Go's truncating division; for a negative
   dividend Go gives 0 or a negative count (Discard then returns 0, ErrNegativeCount):
   zero bytes either way, which is what Z.to_nat of the floor division gives too. The
   error of Discard is dropped by the Go code. *)
Definition bflush (bsz : nat) (p : prd) : prd :=
  if negb (p_buffered p) then p else
  let disc := (p_discard p + (Z.of_N (p_fed p) - Z.of_N (p_numBits p)))%Z in
  let nd := Z.to_nat ((disc + 7) / 8) in
  let '((got, _), s') := bufio_discard bsz (p_src p) nd in
  mkPrd s' true (p_big p) (p_bufBits p) (p_numBits p) []
        (disc - 8 * Z.of_nat got)%Z (p_numBits p) (p_offset p + Z.of_nat got)%Z.

Inductive fres :=
| FMore (p : prd)       (* next round of the loop *)
| FDone (p : prd)       (* break *)
| FEof (p : prd)        (* errors.Panic(io.ErrUnexpectedEOF) (or ErrBufferFull when bsz < 8) *)
| FCrash (p : prd).     (* run-time panic: slice bounds out of range *)

(* one round of the loop of FeedBits on the bufio path *)
Definition feed_round (bsz : nat) (p : prd) (nb : N) : fres :=
  let refill :=
    match p_peek p with
    | [] =>
      let p0 := mkPrd (p_src p) true (p_big p) (p_bufBits p) (p_numBits p) [] (p_discard p)
                      (p_numBits p) (p_offset p) in
      let pf := bflush bsz p0 in
      let b := s_buf (p_src pf) in
      let cnt := if Nat.ltb 8 b then b else 8%nat in
      let '((bytes, _), s2) := bufio_peek bsz (p_src pf) cnt in
      let k := N.to_nat (p_numBits pf / 8) in
      if Nat.ltb (length bytes) k then (pf, Some 2%nat)     (* bufPeek[numBits/8:] out of range *)
      else
        let peek := skipn k bytes in
        let pp := mkPrd s2 true (p_big pf) (p_bufBits pf) (p_numBits pf) peek (p_discard pf)
                        (p_fed pf) (p_offset pf) in
        match peek with
        | [] => if nb <=? p_numBits pf then (pp, Some 0%nat) else (pp, Some 1%nat)
        | _ => (pp, None)
        end
    | _ => (p, None)
    end in
  let '(p1, stop) := refill in
  match stop with
  | Some O => FDone p1
  | Some (S O) => FEof p1
  | Some _ => FCrash p1
  | None =>
    (* cnt := int(64-numBits) / 8 on a uint difference converted to int *)
    if 72 <=? p_numBits p1 then FCrash p1                  (* bufPeek[:cnt] with cnt < 0 *)
    else
      let cnt := N.to_nat ((64 - p_numBits p1) / 8) in
      let n' := Nat.min cnt (length (p_peek p1)) in
      let '(bits, nbits) := load_bytes false (p_bufBits p1) (p_numBits p1) (firstn n' (p_peek p1)) in
      let p2 := mkPrd (p_src p1) true (p_big p1) bits nbits (skipn n' (p_peek p1))
                      (p_discard p1) (p_fed p1) (p_offset p1) in
      if 56 <? nbits then FDone p2 else FMore p2
  end.

Inductive feedres := FdOk | FdEof | FdCrash | FdFuel.

Fixpoint feed_loop (fuel : nat) (bsz : nat) (p : prd) (nb : N) : feedres * prd :=
  match fuel with
  | O => (FdFuel, p)
  | S f =>
    match feed_round bsz p nb with
    | FMore p' => feed_loop f bsz p' nb
    | FDone p' => (FdOk, p')
    | FEof p' => (FdEof, p')
    | FCrash p' => (FdCrash, p')
    end
  end.

(* FeedBits nb *)
Definition feed_bits (bsz : nat) (p : prd) (nb : N) : feedres * prd :=
  if p_buffered p then
    let p0 := mkPrd (p_src p) true (p_big p) (p_bufBits p) (p_numBits p) (p_peek p)
                    (p_discard p + (Z.of_N (p_fed p) - Z.of_N (p_numBits p)))%Z (p_fed p) (p_offset p) in
    let '(r, p1) := feed_loop 12 bsz p0 nb in
    match r with
    | FdOk => (FdOk, mkPrd (p_src p1) true (p_big p1) (p_bufBits p1) (p_numBits p1) (p_peek p1)
                           (p_discard p1) (p_numBits p1) (p_offset p1))
    | _ => (r, p1)
    end
  else
    let '(e, p1) := pull_bytes (Nat.max 9 (N.to_nat (nb / 8) + 2)) p nb in
    (if e then FdEof else FdOk, p1).

(* val := uint(bufBits & (1<<nb - 1)); bufBits >>= nb; numBits -= nb   (numBits is a uint:
   the subtraction wraps when nb > numBits, which FeedBits excludes for nb <= 57) *)
Definition btake (p : prd) (nb : N) : N * prd :=
  if nb <=? p_numBits p then take_bits p nb
  else (p_bufBits p mod 2 ^ nb,
        mkPrd (p_src p) (p_buffered p) (p_big p) (N.shiftr (p_bufBits p) nb)
              ((p_numBits p + 2 ^ 64 - nb mod 2 ^ 64) mod 2 ^ 64)
              (p_peek p) (p_discard p) (p_fed p) (p_offset p)).

(* ReadBits nb *)
Definition bread_bits (bsz : nat) (p : prd) (nb : N) : (feedres * N) * prd :=
  let '(r, p1) := feed_bits bsz p nb in
  match r with
  | FdOk => let '(v, p2) := btake p1 nb in ((FdOk, v), p2)
  | _ => ((r, 0), p1)
  end.

(* TryReadBits nb *)
Definition btry_bits (p : prd) (nb : N) : option N * prd :=
  if p_numBits p <? nb then (None, p)
  else let '(v, p') := take_bits p nb in (Some v, p').

(* raw Read into a buffer of k bytes; error: 0 = nil, 1 = io.EOF, 2 = Invalid (non-aligned
   bit buffer) *)
Definition bread_raw (bsz : nat) (p : prd) (k : nat) : (list byte * N) * prd :=
  if negb (p_numBits p mod 8 =? 0) then (([], 2), p)
  else if 0 <? p_numBits p then
    let '(bs, p') := drain k p [] in ((bs, 0), p')
  else
    let p1 := bflush bsz p in
    let '((bs, eof), s') :=
      if p_buffered p1 then bufio_read bsz (p_src p1) k else src_read (p_src p1) k in
    ((bs, if eof then 1 else 0),
     mkPrd s' (p_buffered p1) (p_big p1) (p_bufBits p1) (p_numBits p1) (p_peek p1)
           (p_discard p1) (p_fed p1) (p_offset p1 + Z.of_nat (length bs))%Z).

(* ---- histories ------------------------------------------------------------------------------ *)
Inductive bop :=
| BBits (nb : N) | BTry (nb : N) | BFeed (nb : N) | BPads | BRaw (k : nat) | BFlush.

Inductive bval :=
| VBits (v : N)
| VEof                      (* panic with io.ErrUnexpectedEOF *)
| VCrash                    (* run-time panic *)
| VFuel                     (* loop budget of the model exhausted *)
| VTry (v : option N)
| VFeed
| VPads (v : N)
| VRaw (bs : list byte) (e : N)
| VFlush (offset : Z).

(* what the harness observes after every operation: the outcome and the WHOLE state (every
   field of the bitReader, the position of the source and how much it holds buffered) *)
Definition bobs : Type := (bval * prd)%type.
Definition o_val (ob : bobs) : bval := fst ob.
Definition o_state (ob : bobs) : prd := snd ob.

Definition snap (v : bval) (p : prd) : bobs := (v, p).

Definition fval (r : feedres) (ok : bval) : bval :=
  match r with FdOk => ok | FdEof => VEof | FdCrash => VCrash | FdFuel => VFuel end.

Definition bstep (bsz : nat) (p : prd) (o : bop) : bobs * prd :=
  match o with
  | BBits nb => let '((r, v), p') := bread_bits bsz p nb in (snap (fval r (VBits v)) p', p')
  | BTry nb => let '(v, p') := btry_bits p nb in (snap (VTry v) p', p')
  | BFeed nb => let '(r, p') := feed_bits bsz p nb in (snap (fval r VFeed) p', p')
  | BPads => let '(v, p') := read_pads p in (snap (VPads v) p', p')
  | BRaw k => let '((bs, e), p') := bread_raw bsz p k in (snap (VRaw bs e) p', p')
  | BFlush => let p' := bflush bsz p in (snap (VFlush (p_offset p')) p', p')
  end.

Definition bval_stops (v : bval) : bool :=
  match v with VEof | VCrash | VFuel => true | _ => false end.

(* the run stops at the first panic, as the harness does *)
Fixpoint brun (bsz : nat) (p : prd) (ops : list bop) : list bobs :=
  match ops with
  | [] => []
  | o :: r => let '(ob, p') := bstep bsz p o in
              if bval_stops (o_val ob) then [ob] else ob :: brun bsz p' r
  end.
