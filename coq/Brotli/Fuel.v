(* The loop budgets of the RFC 7932 decoder model are sufficient: for every
   dictionary and every input, [brotli_decode] never ends in EFuel.  With
   Brotli/Safe.v: the model ends, on EVERY input, in success, UnexpectedEOF or
   Corrupted.

   All loops but two are bounded by a measure of their loop state alone
   (Base/FuelThms.v).  The command loop of a compressed meta-block needs a
   measure on loop state AND machine state, [c_rem + unread input bits],
   because a command may read zero bits; and an invariant tying the four last
   distances to the number of bytes produced so far, which excludes a
   dictionary reference with an empty transformed word that read no bits. *)
From V Require Import Base.Prelude Base.Prog Base.ProgThms Base.OkThms Base.FuelThms
  Flate.Spec Flate.Safe Flate.Fuel Brotli.Tables Brotli.Spec Brotli.Safe.

(* ---- generic additions ---------------------------------------------------------- *)
Lemma eats_elim {A} (c : A -> Prop) (p : prog A) s a s' :
  eats c p -> run p s = Done a s' -> c a -> (ilen s' < ilen s)%nat.
Proof. intros H. exact (H s a s'). Qed.

Lemma eats_intro {A} (c : A -> Prop) (p : prog A) :
  (forall s a s', run p s = Done a s' -> c a -> (ilen s' < ilen s)%nat) -> eats c p.
Proof. intros H. exact H. Qed.

Lemma post_intro {A} (Q : A -> Prop) (p : prog A) :
  (forall s a s', run p s = Done a s' -> Q a) -> post Q p.
Proof. intros H. exact H. Qed.

Lemma post_put {A} (Q : A -> Prop) b (k : prog A) : post Q k -> post Q (Put b k).
Proof. intros H. apply post_intro. intros s a s' E. cbn [run] in E. exact (post_elim _ _ _ _ _ H E). Qed.

(* the first part consumes unless its value is in a class on which the second does *)
Lemma eats_bind_cond {A B} (c1 : A -> Prop) (c : B -> Prop) (p : prog A) (f : A -> prog B) :
  eats c1 p -> (forall a, c1 a \/ eats c (f a)) -> eats c (bind p f).
Proof.
  intros Hp Hf. apply eats_intro. intros s b s' H Hc. rewrite run_bind in H.
  destruct (run p s) as [a s1|e s1] eqn:E; [|discriminate].
  destruct (Hf a) as [Ha|Ha].
  - pose proof (eats_elim _ _ _ _ _ Hp E Ha). pose proof (run_done_ilen_le _ _ _ _ H). lia.
  - pose proof (eats_elim _ _ _ _ _ Ha H Hc). pose proof (run_done_ilen_le _ _ _ _ E). lia.
Qed.

(* the number of bytes produced never decreases *)
Lemma run_alen_le {A} (p : prog A) s : a_len s <= a_len (res_state (run p s)).
Proof.
  revert s; induction p as [a|e|k IH|k IH|k IH|k IH|b k IH|d l k IH|k IH|d k IH|k IH];
    intros s; cbn [run res_state]; try lia; try apply IH.
  - destruct (a_in s); [cbn [res_state]; lia|].
    match goal with |- context[run (k ?v) ?s'] => specialize (IH v s') end. exact IH.
  - destruct (Nat.leb _ _); [|cbn [res_state]; lia].
    match goal with |- context[run (k ?v) ?s'] => specialize (IH v s') end. exact IH.
  - match goal with |- context[run k ?s'] => specialize (IH s') end. cbn [a_len] in IH. lia.
  - destruct (_ && _); [|cbn [res_state]; lia].
    match goal with |- context[run k ?s'] => specialize (IH s') end. cbn [a_len] in IH. lia.
Qed.

Lemma run_done_alen_le {A} (p : prog A) s a s' : run p s = Done a s' -> a_len s <= a_len s'.
Proof. intros H. pose proof (run_alen_le p s) as G. rewrite H in G. exact G. Qed.

(* outcome of a run: no EFuel, and a state-dependent postcondition *)
Definition okres {A} (Q : A -> ast -> Prop) (r : result A) : Prop :=
  match r with Fail e _ => e <> EFuel | Done a s' => Q a s' end.

Lemma okres_weaken {A} (Q Q' : A -> ast -> Prop) r :
  okres Q r -> (forall a s, Q a s -> Q' a s) -> okres Q' r.
Proof. destruct r; cbn [okres]; auto. Qed.

Lemma okres_bind {A B} (Q1 : A -> ast -> Prop) (Q : B -> ast -> Prop) (p : prog A) (f : A -> prog B) s :
  okres Q1 (run p s) -> (forall a s', Q1 a s' -> okres Q (run (f a) s')) -> okres Q (run (bind p f) s).
Proof.
  intros Hp Hf. rewrite run_bind. destruct (run p s) as [a s1|e s1]; cbn [okres] in *; auto.
Qed.

(* first part: state-independent budget and postcondition; the state moves on monotonically *)
Lemma okres_bind_pure n {A B} (Q1 : A -> Prop) (Q : B -> ast -> Prop) (p : prog A) (f : A -> prog B) s :
  nofuel n p -> post Q1 p -> (ilen s < n)%nat ->
  (forall a s', Q1 a -> (ilen s' <= ilen s)%nat -> a_len s <= a_len s' -> okres Q (run (f a) s')) ->
  okres Q (run (bind p f) s).
Proof.
  intros Hn Hq Hs Hf. rewrite run_bind. pose proof (nofuel_elim n p s Hn Hs) as H.
  destruct (run p s) as [a s1|e s1] eqn:E; [|exact H].
  apply Hf; [exact (post_elim _ _ _ _ _ Hq E) | exact (run_done_ilen_le _ _ _ _ E) | exact (run_done_alen_le _ _ _ _ E)].
Qed.

Lemma okres_pure n {A} (Q1 : A -> Prop) (Q : A -> ast -> Prop) (p : prog A) s :
  nofuel n p -> post Q1 p -> (ilen s < n)%nat ->
  (forall a s', Q1 a -> (ilen s' <= ilen s)%nat -> a_len s <= a_len s' -> Q a s') ->
  okres Q (run p s).
Proof.
  intros Hn Hq Hs Hf. pose proof (nofuel_elim n p s Hn Hs) as H.
  destruct (run p s) as [a s1|e s1] eqn:E; [|exact H]. cbn [okres].
  apply Hf; [exact (post_elim _ _ _ _ _ Hq E) | exact (run_done_ilen_le _ _ _ _ E) | exact (run_done_alen_le _ _ _ _ E)].
Qed.

(* loops: invariant and measure on loop state and machine state together *)
Section StLoop.
  Context {St R : Type}.
  Variable I : St -> ast -> Prop.
  Variable mu : St -> ast -> nat.
  Variable Q : R -> ast -> Prop.
  Variable body : St -> prog (St + R).
  Hypothesis Hbody : forall st s, I st s ->
    okres (fun r s' => match r with
                       | inl st' => I st' s' /\ (mu st' s' < mu st s)%nat
                       | inr x => Q x s' end) (run (body st) s).

  Lemma okres_iter2 d : forall st s, I st s ->
    okres (fun r s' => match r with
                       | inl st' => I st' s' /\ (mu st' s' + 2 ^ d <= mu st s)%nat
                       | inr x => Q x s' end) (run (iter2 d body st) s).
  Proof.
    induction d as [|d IH]; intros st s Hi; cbn [iter2].
    - eapply okres_weaken; [apply Hbody; exact Hi|].
      intros [st'|x] s'; [|auto]. cbn [Nat.pow]. intros [H1 H2]. split; [exact H1 | lia].
    - eapply okres_bind; [apply IH; exact Hi|].
      intros [st1|x] s1; cbv beta iota.
      + intros [H1 H2]. eapply okres_weaken; [apply IH; exact H1|].
        intros [st'|y] s'; [|auto]. intros [H3 H4]. split; [exact H3|]. cbn [Nat.pow]. lia.
      + intros Hx. cbn [run okres]. exact Hx.
  Qed.

  Lemma okres_loop d st s : I st s -> (mu st s < 2 ^ d)%nat -> okres Q (run (loop d body st) s).
  Proof.
    intros Hi Hm. unfold loop. eapply okres_bind; [apply okres_iter2; exact Hi|].
    intros [st'|x] s'; cbv beta iota.
    - intros [_ H]. exfalso. lia.
    - intros Hx. cbn [run okres]. exact Hx.
  Qed.
End StLoop.

(* [loop (loop_depth x)] allows more than x iterations *)
Lemma loop_depth_enough x : (N.to_nat x < 2 ^ loop_depth x)%nat.
Proof.
  unfold loop_depth. pose proof (N.size_gt x) as H.
  replace (2 ^ N.to_nat (N.size x))%nat with (N.to_nat (2 ^ N.size x)).
  - lia.
  - rewrite N2Nat.inj_pow. reflexivity.
Qed.

(* ---- state-independent postconditions --------------------------------------------- *)
Lemma post_rbits k : post (fun v => v < 2 ^ k) (rbits k).
Proof.
  unfold rbits. eapply post_weaken; [apply post_bits_lsbf|]. intros v H. cbv beta in H.
  rewrite N2Nat.id in H. exact H.
Qed.

Lemma pow2_le_128 k : k < 8 -> 2 ^ k <= 128.
Proof. intros H. change 128 with (2 ^ 7). apply N.pow_le_mono_r; lia. Qed.

Lemma post_read_count : post (fun v => v <= 256) read_count.
Proof.
  unfold read_count. apply post_bind_any. intros b.
  destruct (b =? 0); [apply post_ret; lia|].
  eapply post_bind; [apply (post_rbits 3)|]. intros k Hk. cbv beta in Hk. change (2 ^ 3) with 8 in Hk.
  eapply post_bind; [apply (post_rbits k)|]. intros x Hx. cbv beta in Hx.
  apply post_ret. pose proof (pow2_le_128 k Hk). lia.
Qed.

(* ---- budgets: everything except the command and meta-block loops ------------------- *)
Section Fuel.
Variable n : nat.

Local Ltac nfs :=
  repeat first
  [ apply nf_rbits | apply nf_sym_or_corrupt | apply nofuel_ret
  | apply nofuel_assert; discriminate
  | apply nofuel_throw; discriminate
  | assumption
  | apply nofuel_bind; [| intros ]
  | apply nofuel_bit; intros
  | apply nofuel_align; intros
  | apply nofuel_hist; intros
  | apply nofuel_histb; intros
  | apply nofuel_put
  | apply nofuel_copy
  | apply nofuel_put_all
  | match goal with |- nofuel _ (if ?c then _ else _) => destruct c end
  | match goal with |- nofuel _ (match ?x with _ => _ end) => destruct x end ].

Lemma bnf_read_wbits : nofuel n read_wbits.
Proof. unfold read_wbits. nfs. Qed.

Lemma bnf_read_count : nofuel n read_count.
Proof. unfold read_count. nfs. Qed.

Lemma bnf_read_simple_syms k abits asize : nofuel n (read_simple_syms k abits asize).
Proof. induction k as [|k IH]; cbn [read_simple_syms]; nfs. Qed.

Lemma bnf_read_simple_code asize : nofuel n (read_simple_code asize).
Proof.
  unfold read_simple_code.
  apply nofuel_bind; [apply nf_rbits|]. intros nsym1.
  apply nofuel_bind; [apply bnf_read_simple_syms|]. intros syms.
  apply nofuel_bind; [apply nofuel_assert; discriminate|]. intros _.
  destruct syms as [|a [|b [|c [|d [|e r]]]]]; nfs.
Qed.

Lemma bnf_read_clcl order : forall space num acc, nofuel n (read_clcl order space num acc).
Proof.
  induction order as [|s r IH]; intros space num acc; cbn [read_clcl]; [apply nofuel_ret|].
  apply nofuel_bind; [apply nf_sym_or_corrupt|]. intros v.
  destruct (v =? 0); [apply IH|]. cbv zeta.
  destruct (space <? _); [apply nofuel_throw; discriminate|].
  destruct (space =? _); [apply nofuel_ret | apply IH].
Qed.

Lemma bnf_clen_sym_body t asize s : nofuel n (clen_sym_body t asize s).
Proof. unfold clen_sym_body. cbv zeta. nfs. Qed.

(* every continuing iteration of the code-length loop advances the symbol counter *)
Lemma clen_sym_body_advances t asize st :
  post (fun r => match r with
                 | inl st' => k_sym st < k_sym st' /\ k_sym st < asize
                 | inr _ => True end)
       (clen_sym_body t asize st).
Proof.
  unfold clen_sym_body.
  destruct ((asize <=? k_sym st) || (k_space st =? 0)%Z) eqn:E; [apply post_ret; exact I|].
  apply orb_false_iff in E. destruct E as [E _]. apply N.leb_gt in E.
  apply post_bind_any. intros cl.
  destruct (cl <? 16).
  { destruct (cl =? 0); apply post_ret; cbn [k_sym]; lia. }
  cbv zeta. apply post_bind_any. intros x.
  set (old := if k_replen st =? (if cl =? 16 then k_prev st else 0) then k_rep st else 0).
  set (extra := if cl =? 16 then 2 else 3).
  set (rep := (if 0 <? old then (old - 2) * 2 ^ extra else 0) + x + 3).
  assert (Hd : 1 <= rep - old).
  { unfold rep. destruct (0 <? old) eqn:E0; [|apply N.ltb_ge in E0; lia].
    assert (Hx : 4 <= 2 ^ extra).
    { unfold extra. destruct (cl =? 16); [change (2 ^ 2) with 4 | change (2 ^ 3) with 8]; lia. }
    nia. }
  apply post_assert_bind. intros Ha. apply N.leb_le in Ha.
  destruct (_ =? 0); apply post_ret; cbn [k_sym]; lia.
Qed.

Lemma bnf_clen_loop t asize :
  asize < 1024 -> nofuel n (loop 10 (clen_sym_body t asize) (mkClst 0 8 0 0 32768 [])).
Proof.
  intros Hm.
  apply (nofuel_loop_measure n (fun st => N.to_nat (asize - k_sym st))).
  - intros st. apply bnf_clen_sym_body.
  - intros st s st' s' E.
    pose proof (post_elim _ _ _ _ _ (clen_sym_body_advances t asize st) E) as H. cbv beta iota in H. lia.
  - cbn [k_sym]. change (2 ^ 10)%nat with 1024%nat. lia.
Qed.

Lemma bnf_read_complex_code asize hskip : asize < 1024 -> nofuel n (read_complex_code asize hskip).
Proof.
  intros Ha. unfold read_complex_code.
  apply nofuel_bind; [apply bnf_read_clcl|]. intros [[space num] cls].
  apply nofuel_bind.
  { destruct cls as [|[s l] [|c2 cls]]; nfs. }
  intros cltree.
  apply nofuel_bind; [apply bnf_clen_loop; exact Ha|]. intros fin.
  nfs.
Qed.

Lemma bnf_read_prefix_code asize : asize < 1024 -> nofuel n (read_prefix_code asize).
Proof.
  intros Ha. unfold read_prefix_code. apply nofuel_bind; [apply nf_rbits|]. intros h.
  destruct (h =? 1); [apply bnf_read_simple_code | apply bnf_read_complex_code; exact Ha].
Qed.

Lemma bnf_read_prefix_codes k asize : asize < 1024 -> nofuel n (read_prefix_codes k asize).
Proof.
  intros Ha. induction k as [|k IH]; cbn [read_prefix_codes]; [apply nofuel_ret|].
  apply nofuel_bind; [apply bnf_read_prefix_code; exact Ha|]. intros t. nfs.
Qed.

Lemma bnf_read_block_count lt : nofuel n (read_block_count lt).
Proof.
  unfold read_block_count. apply nofuel_bind; [apply nf_sym_or_corrupt|]. intros s.
  destruct (nth_range blk_ranges s) as [base nb]. nfs.
Qed.

Lemma bnf_read_blk : nofuel n read_blk.
Proof.
  unfold read_blk.
  eapply nofuel_bind_post; [apply bnf_read_count | apply post_read_count |]. intros k Hk. cbv beta in Hk.
  destruct (2 <=? k); [|apply nofuel_ret].
  apply nofuel_bind; [apply bnf_read_prefix_code; lia|]. intros tt.
  apply nofuel_bind; [apply bnf_read_prefix_code; lia|]. intros lt.
  apply nofuel_bind; [apply bnf_read_block_count|]. intros c. apply nofuel_ret.
Qed.

Lemma bnf_block_switch b : nofuel n (block_switch b).
Proof.
  unfold block_switch. apply nofuel_bind; [apply nf_sym_or_corrupt|]. intros t. cbv zeta.
  apply nofuel_bind; [apply bnf_read_block_count|]. intros c. apply nofuel_ret.
Qed.

Lemma bnf_blk_next b : nofuel n (blk_next b).
Proof.
  unfold blk_next. destruct (_ && _); [|apply nofuel_ret].
  apply nofuel_bind; [apply bnf_block_switch|]. intros; apply nofuel_ret.
Qed.

(* context maps *)
Lemma bnf_cmap_body t rlemax s : nofuel n (cmap_body t rlemax s).
Proof. unfold cmap_body. destruct s as [todo acc]. cbv zeta. nfs. Qed.

Lemma cmap_body_decreases t rlemax st :
  post (fun r => match r with inl st' => fst st' < fst st | inr _ => True end) (cmap_body t rlemax st).
Proof.
  unfold cmap_body. destruct st as [todo acc]. cbn [fst].
  destruct (todo =? 0) eqn:E; [apply post_ret; exact I|]. apply N.eqb_neq in E.
  apply post_bind_any. intros sym.
  destruct (sym =? 0); [apply post_ret; cbn [fst]; lia|].
  destruct (sym <=? rlemax); [|apply post_ret; cbn [fst]; lia].
  apply post_bind_any. intros x. cbv zeta.
  apply post_assert_bind. intros Ha. apply N.leb_le in Ha.
  apply post_ret. cbn [fst]. pose proof (N.pow_nonzero 2 sym). lia.
Qed.

Lemma bnf_cmap_loop t rlemax size :
  nofuel n (loop (loop_depth size) (cmap_body t rlemax) (size, [])).
Proof.
  apply (nofuel_loop_measure n (fun st => N.to_nat (fst st))).
  - intros st. apply bnf_cmap_body.
  - intros st s st' s' E.
    pose proof (post_elim _ _ _ _ _ (cmap_body_decreases t rlemax st) E) as H. cbv beta iota in H. lia.
  - cbn [fst]. apply loop_depth_enough.
Qed.

Lemma bnf_read_context_map size nt : nt <= 256 -> nofuel n (read_context_map size nt).
Proof.
  intros Hn. unfold read_context_map.
  apply nofuel_bind; [apply nf_rbits|]. intros b.
  apply (nofuel_bind_post n (fun v => v <= 16)).
  { destruct (b =? 0); nfs. }
  { destruct (b =? 0); [apply post_ret; lia|].
    eapply post_bind; [apply (post_rbits 4)|]. intros x Hx. cbv beta in Hx. change (2 ^ 4) with 16 in Hx.
    apply post_ret. lia. }
  intros rlemax Hr. cbv beta in Hr.
  apply nofuel_bind; [apply bnf_read_prefix_code; lia|]. intros tree.
  apply nofuel_bind; [apply bnf_cmap_loop|]. intros cm. nfs.
Qed.

Lemma bnf_read_ntrees_cmap size : nofuel n (read_ntrees_cmap size).
Proof.
  unfold read_ntrees_cmap.
  eapply nofuel_bind_post; [apply bnf_read_count | apply post_read_count |]. intros nt Hn. cbv beta in Hn.
  destruct (2 <=? nt); [|apply nofuel_ret].
  apply nofuel_bind; [apply bnf_read_context_map; exact Hn|]. intros; apply nofuel_ret.
Qed.

(* literals *)
Lemma bnf_lit_body m s : nofuel n (lit_body m s).
Proof.
  unfold lit_body. destruct (l_n s =? 0); [apply nofuel_ret|].
  apply nofuel_bind; [apply bnf_blk_next|]. intros [b sw]. cbv zeta. nfs.
Qed.

Lemma lit_body_decreases m st :
  post (fun r => match r with inl st' => l_n st' < l_n st | inr _ => True end) (lit_body m st).
Proof.
  unfold lit_body. destruct (l_n st =? 0) eqn:E; [apply post_ret; exact I|]. apply N.eqb_neq in E.
  apply post_bind_any. intros [b sw]. cbv zeta.
  apply post_bind_any. intros lit.
  apply post_put. apply post_ret. cbn [l_n]. lia.
Qed.

Lemma bnf_lit_loop m k st : l_n st = k -> nofuel n (loop (loop_depth k) (lit_body m) st).
Proof.
  intros Hk.
  apply (nofuel_loop_measure n (fun st => N.to_nat (l_n st))).
  - intros st0. apply bnf_lit_body.
  - intros st0 s st' s' E.
    pose proof (post_elim _ _ _ _ _ (lit_body_decreases m st0) E) as H. cbv beta iota in H. lia.
  - rewrite Hk. apply loop_depth_enough.
Qed.

Lemma bnf_decode_distance np nd dcode r : nofuel n (decode_distance np nd dcode r).
Proof. unfold decode_distance. cbv zeta. nfs. Qed.

Section WithDict.
Variable dict_byte : N -> N.

Lemma bnf_command m st : nofuel n (command dict_byte m st).
Proof.
  unfold command.
  apply nofuel_bind; [apply bnf_blk_next|]. intros bis. cbv zeta.
  apply nofuel_bind; [apply nf_sym_or_corrupt|]. intros sym.
  destruct (iac_codes sym) as [icode ccode].
  destruct (nth_range ins_ranges icode) as [ibase inb].
  destruct (nth_range cpy_ranges ccode) as [cbase cnb].
  apply nofuel_bind; [apply nf_rbits|]. intros ix.
  apply nofuel_bind; [apply nf_rbits|]. intros cx.
  apply nofuel_bind; [apply nofuel_assert; discriminate|]. intros _.
  apply nofuel_bind.
  { destruct (ibase + ix =? 0); [apply nofuel_ret|].
    apply nofuel_histb. intros p1. apply nofuel_histb. intros p2.
    apply nofuel_bind; [apply bnf_lit_loop; reflexivity|]. intros; apply nofuel_ret. }
  intros bl.
  destruct (c_rem st =? ibase + ix); [apply nofuel_ret|].
  apply nofuel_bind.
  { destruct (sym <? 128); [apply nofuel_ret|].
    apply nofuel_bind; [apply bnf_blk_next|]. intros bds.
    apply nofuel_bind; [apply nf_sym_or_corrupt|]. intros dcode.
    apply nofuel_bind; [apply bnf_decode_distance|]. intros d. apply nofuel_ret. }
  intros [[dist zero] bd].
  apply nofuel_hist. intros pos.
  destruct (dist <=? N.min (m_window m) pos).
  - apply nofuel_bind; [apply nofuel_assert; discriminate|]. intros _.
    apply nofuel_copy. apply nofuel_ret.
  - destruct (dict_ref dict_byte _ _) as [w|]; [|apply nofuel_throw; discriminate].
    apply nofuel_bind; [apply nofuel_assert; discriminate|]. intros _.
    apply nofuel_bind; [apply nofuel_put_all|]. intros _. apply nofuel_ret.
Qed.
End WithDict.

Lemma bnf_read_cmodes k : nofuel n (read_cmodes k).
Proof. induction k as [|k IH]; cbn [read_cmodes]; nfs. Qed.

Lemma bnf_raw_copy k : nofuel n (raw_copy k).
Proof.
  unfold raw_copy.
  apply (nofuel_loop_measure n (fun st => N.to_nat st)).
  - intros st. unfold raw_body. nfs.
  - intros st s st' s' E. unfold raw_body in E.
    destruct (st =? 0) eqn:E0; [cbn [run] in E; discriminate|]. apply N.eqb_neq in E0.
    rewrite run_bind in E. destruct (run (rbits 8) s) as [b s1|e s1]; [|discriminate].
    cbn [run] in E. inversion E; subst. lia.
  - apply loop_depth_enough.
Qed.

Lemma bnf_skip_bytes k : nofuel n (skip_bytes k).
Proof.
  unfold skip_bytes.
  apply (nofuel_loop_measure n (fun st => N.to_nat st)).
  - intros st. unfold skip_body. nfs.
  - intros st s st' s' E. unfold skip_body in E.
    destruct (st =? 0) eqn:E0; [cbn [run] in E; discriminate|]. apply N.eqb_neq in E0.
    rewrite run_bind in E. destruct (run (rbits 8) s) as [b s1|e s1]; [|discriminate].
    cbn [run] in E. inversion E; subst. lia.
  - apply loop_depth_enough.
Qed.

Lemma bnf_zero_pads : nofuel n zero_pads.
Proof. unfold zero_pads. nfs. Qed.

Lemma bnf_read_len u w mu : nofuel n (read_len u w mu).
Proof. unfold read_len. nfs. Qed.
End Fuel.

(* ---- facts about the tables ---------------------------------------------------------- *)
(* every copy length code 0..23 has a base of at least 2 *)
Lemma cpy_base_check :
  forallb (fun i => 2 <=? fst (nth_range cpy_ranges (N.of_nat i))) (seq 0 24) = true.
Proof. vm_compute. reflexivity. Qed.

Lemma cpy_base_ge2_code ccode : ccode < 24 -> 2 <= fst (nth_range cpy_ranges ccode).
Proof.
  intros H. pose proof cpy_base_check as T. rewrite forallb_forall in T.
  specialize (T (N.to_nat ccode)). rewrite N2Nat.id in T.
  apply N.leb_le. apply T. apply in_seq. lia.
Qed.

(* whatever the insert-and-copy symbol: the copy length code is one of 0..23 *)
Lemma iac_ccode_lt sym : snd (iac_codes sym) < 24.
Proof.
  unfold iac_codes.
  assert (H : snd (nth (N.to_nat (sym / 64)) iac_cells (0, 0)) <= 16).
  { destruct (nth_in_or_default (N.to_nat (sym / 64)) iac_cells (0, 0)) as [Hin|Hd].
    - unfold iac_cells in Hin at 2. cbn [In] in Hin.
      repeat (destruct Hin as [Hin|Hin]; [rewrite <- Hin; cbn [snd]; lia|]). contradiction.
    - rewrite Hd. cbn [snd]. lia. }
  destruct (nth (N.to_nat (sym / 64)) iac_cells (0, 0)) as [ib cb]. cbn [snd] in *.
  pose proof (N.mod_upper_bound sym 8). lia.
Qed.

Lemma cpy_base_ge2 sym : 2 <= fst (nth_range cpy_ranges (snd (iac_codes sym))).
Proof. apply cpy_base_ge2_code. apply iac_ccode_lt. Qed.

(* dictionary words of length 4..24 have at least 32 entries *)
Lemma ndbits_check :
  forallb (fun i => 5 <=? nthN dict_ndbits (N.of_nat i)) (seq 4 21) = true.
Proof. vm_compute. reflexivity. Qed.

Lemma ndbits_ge5 len : 4 <= len <= 24 -> 5 <= nthN dict_ndbits len.
Proof.
  intros H. pose proof ndbits_check as T. rewrite forallb_forall in T.
  specialize (T (N.to_nat len)). rewrite N2Nat.id in T.
  apply N.leb_le. apply T. apply in_seq. lia.
Qed.

(* transforms 0..3 (identity, with a space appended / on both sides, omit first 1) of
   a word of at least 4 bytes are not empty *)
Lemma transform_small_nonempty tid w :
  tid < 4 -> (4 <= length w)%nat -> (1 <= length (transform_word tid w))%nat.
Proof.
  intros Ht Hw.
  assert (E : tid = 0 \/ tid = 1 \/ tid = 2 \/ tid = 3) by lia.
  destruct E as [E|[E|[E|E]]]; subst tid.
  - change (transform_word 0 w) with ([] ++ w ++ @nil N). rewrite !app_length. cbn [length]. lia.
  - change (transform_word 1 w) with ([] ++ w ++ [32]). rewrite !app_length. cbn [length]. lia.
  - change (transform_word 2 w) with ([32] ++ w ++ [32]). rewrite !app_length. cbn [length]. lia.
  - change (transform_word 3 w) with ([] ++ skipn 1 w ++ @nil N). rewrite !app_length, skipn_length. cbn [length]. lia.
Qed.

Section DictRef.
Variable dict_byte : N -> N.

Lemma dict_word_length len idx : length (dict_word dict_byte len idx) = N.to_nat len.
Proof. unfold dict_word. rewrite map_length, seq_length. reflexivity. Qed.

(* a dictionary reference with a small address denotes at least one byte *)
Lemma dict_ref_small_nonempty clen addr w :
  addr < 128 -> dict_ref dict_byte clen addr = Some w -> (1 <= length w)%nat.
Proof.
  intros Ha. unfold dict_ref.
  destruct ((clen <? 4) || (24 <? clen)) eqn:E; [discriminate|].
  apply orb_false_iff in E. destruct E as [E1 E2]. apply N.ltb_ge in E1, E2. cbv zeta.
  destruct (num_transforms <=? _); [discriminate|].
  intros H. inversion H; subst w. clear H.
  apply transform_small_nonempty.
  - pose proof (ndbits_ge5 clen (conj E1 E2)) as H5.
    assert (H32 : 2 ^ 5 <= 2 ^ nthN dict_ndbits clen) by (apply N.pow_le_mono_r; lia).
    change (2 ^ 5) with 32 in H32.
    apply N.div_lt_upper_bound; lia.
  - rewrite dict_word_length. lia.
Qed.
End DictRef.

(* ---- the last distances stay near the number of bytes produced ------------------------ *)
Definition rmax (r : ring) : N :=
  let '(d1, d2, d3, d4) := r in N.max (N.max d1 d2) (N.max d3 d4).

(* [lim] will be max 16 (min window (bytes produced)) *)
Lemma rmax_push r d lim : rmax r <= lim -> d <= lim -> rmax (ring_push r d) <= lim.
Proof. destruct r as [[[d1 d2] d3] d4]. cbn [rmax ring_push]. lia. Qed.

Lemma ring_last_le r : ring_last r <= rmax r.
Proof. destruct r as [[[d1 d2] d3] d4]. cbn [rmax ring_last]. lia. Qed.

Lemma dsub_le a k d : dsub a k = Some d -> d <= a.
Proof.
  unfold dsub. destruct (k <? a); [|discriminate]. intros E; inversion E; lia.
Qed.

Lemma short_dist_le code r d : short_dist code r = Some d -> d <= rmax r + 3.
Proof.
  destruct r as [[[d1 d2] d3] d4]. unfold short_dist. cbn [rmax].
  intros E. apply nth_some_in in E. cbn [In] in E.
  repeat (destruct E as [E|E];
          [first [ apply dsub_le in E; lia | inversion E; subst; lia ]|]).
  contradiction.
Qed.

(* a distance above the ring values + 3 and above NDIRECT has read extra bits *)
Lemma eats_decode_distance np nd dcode r :
  eats (fun d => N.max (rmax r + 3) nd < d) (decode_distance np nd dcode r).
Proof.
  unfold decode_distance.
  destruct (dcode <? 16) eqn:E1.
  - destruct (short_dist dcode r) as [d|] eqn:E; [|apply eats_throw].
    apply eats_ret_not. pose proof (short_dist_le _ _ _ E). lia.
  - apply N.ltb_ge in E1. destruct (dcode <? 16 + nd) eqn:E2.
    + apply N.ltb_lt in E2. apply eats_ret_not. lia.
    + cbv zeta. apply eats_bind_first. unfold rbits. apply eats_bits_lsbf.
      match goal with |- (0 < N.to_nat (1 + ?q))%nat => generalize q; intros; lia end.
Qed.

Definition rbnd (w : N) (r : ring) (s : ast) : Prop := rmax r <= N.max 16 (N.min w (a_len s)).

Lemma rbnd_mono w r s s' : a_len s <= a_len s' -> rbnd w r s -> rbnd w r s'.
Proof. unfold rbnd. lia. Qed.

Lemma rbnd_init w s : rbnd w (4, 11, 15, 16) s.
Proof. unfold rbnd. cbn [rmax]. lia. Qed.

Lemma run_bind_done {A B} (p : prog A) (f : A -> prog B) s b s' :
  run (bind p f) s = Done b s' -> exists a s1, run p s = Done a s1 /\ run (f a) s1 = Done b s'.
Proof.
  rewrite run_bind. destruct (run p s) as [a s1|e s1]; [|discriminate]. intros H. exists a, s1. auto.
Qed.

Lemma run_assert_bind_done {A} c e (q : prog A) s b s' :
  run (assert_p c e ;;; q) s = Done b s' -> c = true /\ run q s = Done b s'.
Proof. unfold assert_p. destruct c; cbn [bind run]; [auto | discriminate]. Qed.

(* ---- one command: the invariant is kept and a continuing command makes progress ------- *)
Section Command.
Variable dict_byte : N -> N.

Lemma command_step m st s r s' :
  m_ndirect m <= 120 -> rbnd (m_window m) (c_ring st) s ->
  run (command dict_byte m st) s = Done r s' ->
  match r with
  | inl st' => rbnd (m_window m) (c_ring st') s' /\
               (N.to_nat (c_rem st') + ilen s' < N.to_nat (c_rem st) + ilen s)%nat
  | inr st' => rbnd (m_window m) (c_ring st') s'
  end.
Proof.
  intros Hnd Hr H. unfold command in H.
  apply run_bind_done in H. destruct H as [bis [s1 [E1 H]]]. cbv zeta in H.
  pose proof (run_done_ilen_le _ _ _ _ E1) as L1. pose proof (run_done_alen_le _ _ _ _ E1) as A1.
  apply run_bind_done in H. destruct H as [sym [s2 [E2 H]]].
  pose proof (run_done_ilen_le _ _ _ _ E2) as L2. pose proof (run_done_alen_le _ _ _ _ E2) as A2.
  pose proof (cpy_base_ge2 sym) as Hc2.
  destruct (iac_codes sym) as [icode ccode]. cbn [snd] in Hc2.
  destruct (nth_range ins_ranges icode) as [ibase inb].
  destruct (nth_range cpy_ranges ccode) as [cbase cnb]. cbn [fst] in Hc2.
  apply run_bind_done in H. destruct H as [ix [s3 [E3 H]]].
  pose proof (run_done_ilen_le _ _ _ _ E3) as L3. pose proof (run_done_alen_le _ _ _ _ E3) as A3.
  apply run_bind_done in H. destruct H as [cx [s4 [E4 H]]].
  pose proof (run_done_ilen_le _ _ _ _ E4) as L4. pose proof (run_done_alen_le _ _ _ _ E4) as A4.
  apply run_assert_bind_done in H. destruct H as [Hil H]. apply N.leb_le in Hil.
  apply run_bind_done in H. destruct H as [bl [s5 [E5 H]]].
  pose proof (run_done_ilen_le _ _ _ _ E5) as L5. pose proof (run_done_alen_le _ _ _ _ E5) as A5.
  clear E1 E2 E3 E4 E5.
  set (il := ibase + ix) in *. set (cl := cbase + cx) in *.
  destruct (c_rem st =? il) eqn:Erem.
  { cbn [run] in H. inversion H; subst r s'. cbn [c_ring]. apply rbnd_mono with s; [lia | exact Hr]. }
  apply N.eqb_neq in Erem.
  apply run_bind_done in H. destruct H as [[[dist zero] bd] [s6 [E6 H]]].
  pose proof (run_done_ilen_le _ _ _ _ E6) as L6. pose proof (run_done_alen_le _ _ _ _ E6) as A6.
  set (bound := N.max (rmax (c_ring st) + 3) (m_ndirect m)).
  assert (Heat : bound < dist -> (ilen s6 < ilen s5)%nat).
  { match type of E6 with run ?p _ = _ =>
      assert (Hp : eats (fun dz : N * bool * blk => bound < fst (fst dz)) p) end.
    { destruct (sym <? 128).
      - apply eats_ret_not. cbn [fst]. pose proof (ring_last_le (c_ring st)). unfold bound. lia.
      - apply eats_bind_second. intros bds. cbv zeta.
        apply eats_bind_second. intros dcode.
        eapply eats_bind_cond; [apply eats_decode_distance|]. intros d.
        destruct (N.ltb_spec bound d) as [Hlt|Hge]; [left; exact Hlt|].
        right. apply eats_ret_not. cbn [fst]. lia. }
    intros Hb. exact (eats_elim _ _ _ _ _ Hp E6 Hb). }
  clear E6.
  cbn [run] in H. set (maxd := N.min (m_window m) (a_len s6)) in *.
  destruct (dist <=? maxd) eqn:Ed.
  - (* back-reference *)
    apply N.leb_le in Ed.
    apply run_assert_bind_done in H. destruct H as [Hcl H]. apply N.leb_le in Hcl.
    cbn [run] in H. destruct ((0 <? dist) && (dist <=? a_len s6)); [|discriminate].
    cbn [run] in H. inversion H; subst r s'. clear H.
    assert (Hring : rbnd (m_window m) (if zero then c_ring st else ring_push (c_ring st) dist)
                         {| a_in := a_in s6; a_pos := a_pos s6;
                            a_out := copy_chunks (S (N.to_nat cl)) (N.to_nat cl) (N.to_nat dist) (a_out s6);
                            a_len := a_len s6 + cl |}).
    { unfold rbnd in *. cbn [a_len]. destruct zero; [lia|]. apply rmax_push; unfold maxd in Ed; lia. }
    unfold cmd_next. destruct (_ =? 0); cbn [c_ring c_rem]; [exact Hring|].
    split; [exact Hring|]. unfold ilen in *. cbn [a_in]. lia.
  - (* dictionary reference *)
    apply N.leb_gt in Ed.
    destruct (dict_ref dict_byte cl (dist - maxd - 1)) as [wd|] eqn:Edict; [|cbn [run] in H; discriminate].
    apply run_assert_bind_done in H. destruct H as [Hn H]. apply N.leb_le in Hn.
    apply run_bind_done in H. destruct H as [u [s7 [E7 H]]].
    pose proof (run_done_ilen_le _ _ _ _ E7) as L7. pose proof (run_done_alen_le _ _ _ _ E7) as A7.
    cbn [run] in H. inversion H; subst r s'. clear H E7.
    assert (Hring : rbnd (m_window m) (c_ring st) s7) by (apply rbnd_mono with s; [lia | exact Hr]).
    unfold cmd_next. destruct (_ =? 0); cbn [c_ring c_rem]; [exact Hring|].
    split; [exact Hring|].
    destruct (N.ltb_spec bound dist) as [Hlt|Hge].
    + specialize (Heat Hlt). lia.
    + assert (Hsmall : dist - maxd - 1 < 128).
      { unfold rbnd in Hr. unfold bound in Hge. unfold maxd in *. lia. }
      pose proof (dict_ref_small_nonempty dict_byte _ _ _ Hsmall Edict) as Hw. lia.
Qed.
End Command.

(* ---- the command loop, the meta-block loop, the stream --------------------------------- *)
Section Stream.
Variable dict_byte : N -> N.
Variable n : nat.
Variable inbits : N.
Hypothesis Hinbits : (n <= N.to_nat inbits + 1)%nat.

(* a step whose budget and postcondition do not depend on the state *)
Local Ltac pstep tac :=
  eapply (okres_bind_pure n (fun _ => True)); [tac | apply post_true | lia |]; intros ? ? _ ? ?.
Local Ltac pstep_post tac ptac :=
  eapply (okres_bind_pure n); [tac | ptac | lia |]; intros ? ? ? ? ?.

(* measure of the command loop: bytes of MLEN still to produce + unread input bits *)
Lemma okres_command_loop m mlen bl bi bd r s :
  m_ndirect m <= 120 -> (ilen s < n)%nat -> rbnd (m_window m) r s ->
  okres (fun fin s' => rbnd (m_window m) (c_ring fin) s' /\ (ilen s' < n)%nat)
        (run (loop (loop_depth (mlen + inbits)) (command dict_byte m) (mkCst mlen bl bi bd r)) s).
Proof.
  intros Hnd Hs Hr.
  apply (okres_loop (fun st s0 => rbnd (m_window m) (c_ring st) s0 /\ (ilen s0 < n)%nat)
                    (fun st s0 => (N.to_nat (c_rem st) + ilen s0)%nat)).
  - intros st s0 [Hr0 Hs0].
    pose proof (nofuel_elim n _ s0 (bnf_command n dict_byte m st) Hs0) as Hf.
    destruct (run (command dict_byte m st) s0) as [x s1|e s1] eqn:E; [|exact Hf]. cbn [okres].
    pose proof (command_step dict_byte m st s0 x s1 Hnd Hr0 E) as Hstep.
    pose proof (run_done_ilen_le _ _ _ _ E) as L.
    destruct x as [st'|fin].
    + destruct Hstep as [H1 H2]. repeat split; [exact H1 | lia | exact H2].
    + split; [exact Hstep | lia].
  - cbn [c_ring]. split; [exact Hr | exact Hs].
  - cbn [c_rem]. pose proof (loop_depth_enough (mlen + inbits)). lia.
Qed.

Lemma okres_compressed_metablock w mlen r s :
  (ilen s < n)%nat -> rbnd w r s ->
  okres (fun r' s' => rbnd w r' s' /\ (ilen s' < n)%nat)
        (run (compressed_metablock dict_byte w mlen inbits r) s).
Proof.
  intros Hs Hr. unfold compressed_metablock.
  pstep ltac:(apply bnf_read_blk). pstep ltac:(apply bnf_read_blk). pstep ltac:(apply bnf_read_blk).
  pstep_post ltac:(apply nf_rbits) ltac:(apply (post_rbits 2)).
  pstep_post ltac:(apply nf_rbits) ltac:(apply (post_rbits 4)).
  cbv beta zeta in *.
  pstep ltac:(apply bnf_read_cmodes).
  pstep ltac:(apply bnf_read_ntrees_cmap). pstep ltac:(apply bnf_read_ntrees_cmap).
  pstep ltac:(apply bnf_read_prefix_codes; lia).
  pstep ltac:(apply bnf_read_prefix_codes; lia).
  match goal with Hp : ?np < 2 ^ 2, Hd : ?nd4 < 2 ^ 4 |- _ =>
    change (2 ^ 2) with 4 in Hp; change (2 ^ 4) with 16 in Hd;
    assert (Hpow : 2 ^ np <= 8) by (change 8 with (2 ^ 3); apply N.pow_le_mono_r; lia);
    assert (Hnd : nd4 * 2 ^ np <= 120) by nia
  end.
  pstep ltac:(apply bnf_read_prefix_codes; lia).
  eapply okres_bind.
  - apply okres_command_loop; cbn [m_ndirect m_window]; [exact Hnd | lia | apply rbnd_mono with s; [lia | exact Hr]].
  - cbn [m_window]. intros fin sf Hf. cbn [run okres]. exact Hf.
Qed.

Lemma okres_metablock w r s :
  (ilen s < n)%nat -> rbnd w r s ->
  okres (fun x s' => match x with inl r' => rbnd w r' s' | inr _ => True end)
        (run (metablock dict_byte w inbits r) s).
Proof.
  intros Hs Hr. unfold metablock.
  pstep ltac:(apply nf_rbits). rename a into islast.
  pstep ltac:(destruct (islast =? 1); [apply nf_rbits | apply nofuel_ret]). rename a into empty.
  destruct (empty =? 1).
  { pstep ltac:(apply bnf_zero_pads). cbn [run okres]. exact I. }
  pstep ltac:(apply nf_rbits). rename a into mn.
  eapply (okres_bind (fun r' s' => rbnd w r' s' /\ (ilen s' < n)%nat)).
  - destruct (mn =? 3).
    + pstep ltac:(apply nf_rbits).
      pstep ltac:(apply nofuel_assert; discriminate).
      pstep ltac:(apply nf_rbits). rename a1 into sb.
      pstep ltac:(destruct (sb =? 0); [apply nofuel_ret | apply bnf_read_len]).
      pstep ltac:(apply bnf_zero_pads).
      pstep ltac:(apply bnf_skip_bytes).
      cbn [run okres]. split; [apply rbnd_mono with s; [lia | exact Hr] | lia].
    + pstep ltac:(apply bnf_read_len). rename a into mlen.
      pstep ltac:(destruct (islast =? 1); [apply nofuel_ret | apply nf_rbits]). rename a into unc.
      destruct (unc =? 1).
      * pstep ltac:(apply bnf_zero_pads).
        pstep ltac:(apply bnf_raw_copy).
        cbn [run okres]. split; [apply rbnd_mono with s; [lia | exact Hr] | lia].
      * apply okres_compressed_metablock; [lia | apply rbnd_mono with s; [lia | exact Hr]].
  - intros r' sf [Hr' Hs']. destruct (islast =? 1).
    + pstep ltac:(apply bnf_zero_pads). cbn [run okres]. exact I.
    + cbn [run okres]. exact Hr'.
Qed.

Lemma eats_metablock w r : eats (fun _ => True) (metablock dict_byte w inbits r).
Proof. unfold metablock. apply eats_bind_first. unfold rbits. apply eats_bits_lsbf. cbn. lia. Qed.

Theorem brotli_prog_nofuel s :
  (ilen s < n)%nat -> okres (fun _ _ => True) (run (brotli_prog dict_byte inbits) s).
Proof.
  intros Hs. unfold brotli_prog.
  pstep ltac:(apply bnf_read_wbits). rename a into wbits.
  set (w := 2 ^ wbits - 16).
  apply (okres_loop (fun r s0 => rbnd w r s0 /\ (ilen s0 < n)%nat) (fun _ s0 => ilen s0)).
  - intros r s0 [Hr0 Hs0].
    pose proof (okres_metablock w r s0 Hs0 Hr0) as Hm.
    destruct (run (metablock dict_byte w inbits r) s0) as [x s1|e s1] eqn:E; [|exact Hm]. cbn [okres] in *.
    destruct x as [r'|u]; [|exact I].
    pose proof (eats_elim _ _ _ _ _ (eats_metablock w r) E I) as L.
    repeat split; [exact Hm | lia | exact L].
  - split; [apply rbnd_init | lia].
  - pose proof (loop_depth_enough inbits). lia.
Qed.
End Stream.

(* ---- the decoder model is total --------------------------------------------------------- *)
Theorem brotli_never_out_of_fuel dict input : br_err (brotli_decode dict input) <> Some EFuel.
Proof.
  unfold brotli_decode. cbn [br_err].
  set (inbits := 8 * N.of_nat (length input) + 64). set (s := ast_init (bytes_to_bits input)).
  assert (Hs : (ilen s < N.to_nat inbits + 1)%nat).
  { unfold ilen, s. cbn [ast_init a_in]. rewrite bytes_to_bits_length. unfold inbits. lia. }
  pose proof (brotli_prog_nofuel dict (N.to_nat inbits + 1) inbits (le_n _) s Hs) as H.
  destruct (run (brotli_prog dict inbits) s) as [a s'|e s']; cbn [res_err okres] in *; [discriminate|].
  intros E. inversion E. contradiction.
Qed.

(* for every dictionary and every input: success, UnexpectedEOF or Corrupted *)
Theorem brotli_decode_total dict input :
  match br_err (brotli_decode dict input) with
  | None => True
  | Some e => e = EUEOF \/ e = ECorrupted
  end.
Proof.
  pose proof (brotli_only_expected_errors dict input) as H1.
  pose proof (brotli_never_out_of_fuel dict input) as H2.
  destruct (br_err (brotli_decode dict input)) as [e|]; [|exact I].
  destruct H1 as [H1|[H1|H1]]; [left; exact H1 | right; exact H1 | subst e; contradiction].
Qed.

