(* Layer (c), last part: the whole of readPrefixCodes (model Brotli/Impl.v read_prefix_codes)
   against the part of compressed_metablock (Brotli/Spec.v) that precedes the command loop. *)
From V Require Import Base.Prelude Base.Prog Base.ProgThms Base.FuelThms Base.DepthThms
  Flate.Spec Flate.Canon Bzip2.Common Bzip2.SortLemmas Prefix.Code
  Prefix.ReaderImpl Prefix.ReaderSpec Prefix.ReaderThms
  Prefix.DecTable Prefix.DecTableSpec Prefix.DecTableThms
  Brotli.BitReaderImpl Brotli.BitReaderSpec Brotli.BitReaderThms
  Brotli.PrefixDecoderImpl
  Brotli.Tables Brotli.Spec Brotli.Fuel
  Brotli.Impl Brotli.ImplBits Brotli.ImplSym Brotli.ImplFixed Brotli.ImplHdr Brotli.ImplNoPut
  Brotli.ImplCode Brotli.ImplCodeX Brotli.ImplCtx.
From Coq Require Import ZifyBool ZifyN ZifyNat.

Local Open Scope N_scope.
Local Ltac Zify.zify_post_hook ::= idtac.

Section Pfx.
Variable dict_byte : N -> N.

(* everything compressed_metablock reads before its command loop *)
Definition comp_header (window : N) : prog (blk * blk * blk * mbp) :=
  bl <- read_blk ;;
  bi <- read_blk ;;
  bd <- read_blk ;;
  npostfix <- rbits 2 ;;
  nd4 <- rbits 4 ;;
  let ndirect := nd4 * 2 ^ npostfix in
  cmodes <- Brotli.Spec.read_cmodes (N.to_nat (b_n bl)) ;;
  ml <- read_ntrees_cmap (64 * b_n bl) ;;
  md <- read_ntrees_cmap (4 * b_n bd) ;;
  ltrees <- Brotli.Spec.read_prefix_codes (N.to_nat (fst ml)) 256 ;;
  itrees <- Brotli.Spec.read_prefix_codes (N.to_nat (b_n bi)) 704 ;;
  dtrees <- Brotli.Spec.read_prefix_codes (N.to_nat (fst md)) (16 + ndirect + 48 * 2 ^ npostfix) ;;
  Ret (bl, bi, bd, mkMbp window npostfix ndirect cmodes (snd ml) (snd md) ltrees itrees dtrees).

Definition comp_body (mlen inbits : N) (r : ring) (x : blk * blk * blk * mbp) : prog ring :=
  let '(bl, bi, bd, m) := x in
  fin <- loop (loop_depth (mlen + inbits)) (command dict_byte m) (mkCst mlen bl bi bd r) ;;
  Ret (c_ring fin).

Lemma compressed_metablock_split window mlen inbits r s :
  run (compressed_metablock dict_byte window mlen inbits r) s =
  run (x <- comp_header window ;; comp_body mlen inbits r x) s.
Proof.
  unfold compressed_metablock, comp_header, comp_body.
  rewrite !run_bind. destruct (run read_blk s) as [bl s1|e s1]; [|reflexivity].
  rewrite !run_bind. destruct (run read_blk s1) as [bi s2|e s2]; [|reflexivity].
  rewrite !run_bind. destruct (run read_blk s2) as [bd s3|e s3]; [|reflexivity].
  rewrite !run_bind. destruct (run (rbits 2) s3) as [np s4|e s4]; [|reflexivity].
  rewrite !run_bind. destruct (run (rbits 4) s4) as [nd4 s5|e s5]; [|reflexivity].
  cbv zeta. rewrite !run_bind.
  destruct (run (Brotli.Spec.read_cmodes (N.to_nat (b_n bl))) s5) as [cm s6|e s6]; [|reflexivity].
  rewrite !run_bind. destruct (run (read_ntrees_cmap (64 * b_n bl)) s6) as [ml s7|e s7]; [|reflexivity].
  rewrite !run_bind. destruct (run (read_ntrees_cmap (4 * b_n bd)) s7) as [md s8|e s8]; [|reflexivity].
  rewrite !run_bind.
  destruct (run (Brotli.Spec.read_prefix_codes (N.to_nat (fst ml)) 256) s8) as [lt s9|e s9]; [|reflexivity].
  rewrite !run_bind.
  destruct (run (Brotli.Spec.read_prefix_codes (N.to_nat (b_n bi)) 704) s9) as [it s10|e s10]; [|reflexivity].
  rewrite !run_bind.
  destruct (run (Brotli.Spec.read_prefix_codes (N.to_nat (fst md)) (16 + nd4 * 2 ^ np + 48 * 2 ^ np)) s10)
    as [dt s11|e s11]; [|reflexivity].
  cbn [run]. rewrite !run_bind. reflexivity.
Qed.

End Pfx.

Section PfxImpl.
Variable data : list byte.
Hypothesis Hd : forall b, In b data -> b < 256.
Variable bsz : nat.
Hypothesis Hbsz : (16 <= bsz)%nat.

Notation BInv' := (BInv data).
Notation sast' := (sast data).

Ltac bits_core HI nb Hnew v p1 E Hv Hle :=
  match goal with
  | |- context [run (rbits nb) (sast data ?R0 ?o)] =>
    match goal with
    | |- context [mbind (m_read_bits bsz nb) _ ?st] =>
      let Hx := fresh "Hx" in
      pose proof (m_read_bits_ok data Hd bsz Hbsz st R0 o nb HI ltac:(lia)) as Hx;
      let s1 := fresh "s1" in let e := fresh "e" in
      destruct (run (rbits nb) (sast data R0 o)) as [v s1|e s1];
      [ destruct Hx as (p1 & E & -> & Hnew & Hv & Hle); rewrite (mbind_ok _ _ _ _ _ E); cbv beta
      | let He := fresh "He" in
        destruct Hx as (He & Ho & pf & Ef); rewrite (mbind_err _ _ _ _ _ Ef); subst e ]
    end
  end.
Ltac bits_step HI nb Hnew v p1 E Hv Hle := rewrite run_bind; bits_core HI nb Hnew v p1 E Hv Hle.

(* ---- CMODE ------------------------------------------------------------------------------------------------ *)
Lemma read_cmodes_ok : forall n st R out, BInv' R (zr_rd st) ->
  match run (Brotli.Spec.read_cmodes n) (sast' R out) with
  | Done l s' =>
    exists p' R', Brotli.Impl.read_cmodes bsz n st = SOk l (set_rd st p') /\ s' = sast' R' out /\
                  BInv' R' p' /\ length l = n /\ Forall (fun x => x < 4) l
  | Fail e s' => e = EUEOF /\ exists p', Brotli.Impl.read_cmodes bsz n st = SErr EUEOF (set_rd st p')
  end.
Proof.
  induction n as [|n IH]; intros st R out HI.
  - cbn [Brotli.Spec.read_cmodes Brotli.Impl.read_cmodes run]. exists (zr_rd st), R.
    split; [unfold ret; f_equal; destruct st; reflexivity|]. split; [reflexivity|].
    split; [exact HI|]. split; [reflexivity | constructor].
  - cbn [Brotli.Spec.read_cmodes Brotli.Impl.read_cmodes].
    bits_step HI 2 HI1 v p E Hv Hle.
    2:{ split; [reflexivity|]. exists pf. reflexivity. }
    assert (Hv4 : v < 4) by (rewrite Hv; apply (bits_at_bound bsz Hbsz _ _ 2)).
    set (st1 := set_rd st p). assert (HI1' : BInv' (R + N.to_nat 2) (zr_rd st1)) by exact HI1.
    specialize (IH st1 _ out HI1'). rewrite run_bind.
    destruct (run (Brotli.Spec.read_cmodes n) (sast' (R + N.to_nat 2) out)) as [l s1|e s1].
    + destruct IH as (p' & R' & E' & -> & HI' & Hlen & Hall). rewrite (mbind_ok _ _ _ _ _ E'). cbn [run].
      rewrite N.mod_small by lia. exists p', R'. split; [reflexivity|]. split; [reflexivity|].
      split; [exact HI'|]. split; [cbn [length]; lia | constructor; assumption].
    + destruct IH as (-> & p' & E'). rewrite (mbind_err _ _ _ _ _ E'). split; [reflexivity|].
      exists p'. reflexivity.
Qed.

(* ---- the arrays of prefix codes ------------------------------------------------------------------------------ *)
Record trees_rel (bd : bdk) (asize : N) (ts : list htree) : Prop := mkTreesRel {
  tr_len : k_len bd = length ts;
  tr_store : (k_len bd <= length (k_store bd))%nat;
  tr_dec : forall j, (j < length ts)%nat ->
           exists d, nth_error (k_store bd) j = Some d /\ dec_treeP (fun s => s < asize) d (nth j ts HEmpty)
}.

Lemma set_nth_dec_length l i d : (i < length l)%nat -> length (set_nth_dec l i d) = length l.
Proof.
  intros H. unfold set_nth_dec. rewrite app_length, firstn_length. cbn [length]. rewrite skipn_length. lia.
Qed.

Lemma set_nth_dec_same l i d : (i < length l)%nat -> nth_error (set_nth_dec l i d) i = Some d.
Proof.
  intros H. unfold set_nth_dec. rewrite nth_error_app2 by (rewrite firstn_length; lia).
  rewrite firstn_length. replace (i - Nat.min i (length l))%nat with 0%nat by lia. reflexivity.
Qed.

Lemma nth_error_firstn_lt {A} (l : list A) : forall i j, (j < i)%nat -> nth_error (firstn i l) j = nth_error l j.
Proof.
  induction l as [|x r IH]; intros i j H; [rewrite firstn_nil; reflexivity|].
  destruct i as [|i]; [lia|]. destruct j as [|j]; [reflexivity|]. cbn [firstn nth_error]. apply IH. lia.
Qed.

Lemma nth_error_skipn_add {A} (l : list A) : forall n k, nth_error (skipn n l) k = nth_error l (n + k).
Proof.
  induction l as [|x r IH]; intros n k.
  - rewrite skipn_nil. destruct k, n; reflexivity.
  - destruct n as [|n]; [reflexivity|]. cbn [skipn Nat.add nth_error]. apply IH.
Qed.

Lemma set_nth_dec_other l i j d : (i < length l)%nat -> j <> i -> nth_error (set_nth_dec l i d) j = nth_error l j.
Proof.
  intros H Hne. unfold set_nth_dec. destruct (Nat.lt_ge_cases j i) as [Hlt|Hge].
  - rewrite nth_error_app1 by (rewrite firstn_length; lia). apply nth_error_firstn_lt; lia.
  - rewrite nth_error_app2 by (rewrite firstn_length; lia). rewrite firstn_length.
    replace (j - Nat.min i (length l))%nat with (S (j - i - 1)) by lia. cbn [nth_error].
    rewrite nth_error_skipn_add. f_equal. lia.
Qed.

(* for i := range prefixes[i0:] *)
Lemma read_trees_ok sel asize : 2 <= asize < 1024 -> forall k i st R out, BInv' R (zr_rd st) ->
  (i + k <= length (k_store (get_blk sel st)))%nat ->
  match run (Brotli.Spec.read_prefix_codes k asize) (sast' R out) with
  | Done ts s' =>
    exists p sc store' R',
      read_trees bsz k sel i asize st =
      SOk tt (put_blk sel (set_rd (set_scratch st sc) p)
                      (with_trees (get_blk sel st) store' (k_len (get_blk sel st)))) /\
      s' = sast' R' out /\ BInv' R' p /\ length ts = k /\
      length store' = length (k_store (get_blk sel st)) /\
      (forall j, (j < i)%nat -> nth_error store' j = nth_error (k_store (get_blk sel st)) j) /\
      (forall j, (j < k)%nat -> exists d, nth_error store' (i + j) = Some d /\
                                          dec_treeP (fun s => s < asize) d (nth j ts HEmpty))
  | Fail e s' =>
    exists e' st', read_trees bsz k sel i asize st = SErr e' st' /\ (e' = EUEOF \/ e' = ECorrupted) /\
                   same_out st st'
  end.
Proof.
  intros Ha. induction k as [|k IH]; intros i st R out HI Hlen.
  - cbn [Brotli.Spec.read_prefix_codes read_trees run].
    exists (zr_rd st), (zr_scratch st), (k_store (get_blk sel st)), R.
    split; [unfold ret; f_equal; destruct st, sel; cbn; destruct zr_iac, zr_lit, zr_dst; reflexivity|].
    split; [reflexivity|]. split; [exact HI|]. split; [reflexivity|]. split; [reflexivity|].
    split; [intros; reflexivity | intros j Hj; lia].
  - cbn [Brotli.Spec.read_prefix_codes read_trees]. rewrite mbind_get.
    destruct (nth_error (k_store (get_blk sel st)) i) as [o|] eqn:Eo.
    2:{ apply nth_error_None in Eo. lia. }
    rewrite run_bind.
    pose proof (read_prefix_code_refines data Hd bsz Hbsz (Some o) asize st R out HI Ha) as Hp.
    destruct (run (Brotli.Spec.read_prefix_code asize) (sast' R out)) as [t s1|e s1].
    2:{ destruct Hp as (_ & e' & st' & Ep & (p1 & sc1 & ->) & He). rewrite (mbind_err _ _ _ _ _ Ep).
        eexists e', _. split; [reflexivity|]. split; [exact He | repeat split]. }
    destruct Hp as (st1 & R1 & d & Ep & (p1 & sc1 & Est1) & -> & HI1 & HT).
    rewrite (mbind_ok _ _ _ _ _ Ep). cbv beta. unfold upd_blk. rewrite mbind_modify.
    set (st2 := put_blk sel st1 _).
    assert (HI2 : BInv' R1 (zr_rd st2)) by (destruct sel; exact HI1).
    assert (Hg2 : get_blk sel st2 = with_trees (get_blk sel st) (set_nth_dec (k_store (get_blk sel st)) i d)
                                               (k_len (get_blk sel st))).
    { unfold st2. rewrite put_get_blk. rewrite Est1. destruct sel; reflexivity. }
    assert (Hil : (i < length (k_store (get_blk sel st)))%nat) by lia.
    specialize (IH (S i) st2 R1 out HI2).
    rewrite Hg2 in IH. cbn [k_store with_trees k_len] in IH. rewrite set_nth_dec_length in IH by exact Hil.
    specialize (IH ltac:(lia)). rewrite run_bind.
    destruct (run (Brotli.Spec.read_prefix_codes k asize) (sast' R1 out)) as [ts s2|e s2].
    + destruct IH as (p & sc & store' & R' & El & -> & HI' & Hlts & Hls & Hpre & Hdec).
      rewrite El. cbn [run]. exists p, sc, store', R'. split.
      { unfold st2. rewrite Est1. destruct sel; reflexivity. }
      split; [reflexivity|]. split; [exact HI'|]. split; [cbn [length]; lia|]. split; [exact Hls|]. split.
      * intros j Hj. rewrite (Hpre j ltac:(lia)). apply set_nth_dec_other; [exact Hil | lia].
      * intros j Hj. destruct j as [|j].
        -- exists d. rewrite Nat.add_0_r. rewrite (Hpre i ltac:(lia)).
           split; [apply set_nth_dec_same; exact Hil | exact HT].
        -- destruct (Hdec j ltac:(lia)) as (d' & E' & HT'). exists d'.
           replace (i + S j)%nat with (S i + j)%nat by lia. split; [exact E' | exact HT'].
    + destruct IH as (e' & st' & El & He & Hso). rewrite El. exists e', st'. split; [reflexivity|].
      split; [exact He|]. unfold st2 in Hso. rewrite Est1 in Hso.
      destruct Hso as (H1 & H2 & H3 & H4). destruct sel; repeat split; assumption.
Qed.

(* ---- the relation between the Reader and the RFC model at the start of the command loop ------------------ *)
Definition map_rel (m : nmap N) (len : N) (spec : list N) (ntrees : N) : Prop :=
  forall i, i < len -> exists v, nm_get m i = Some v /\ v = nthN spec i /\ v < ntrees.

Record cmd_rel (st : rst) (m : mbp) (bl bi bd : blk) : Prop := mkCmdRel {
  cr_lit : blk_rel (zr_lit st) bl;
  cr_iac : blk_rel (zr_iac st) bi;
  cr_dst : blk_rel (zr_dst st) bd;
  cr_np : zr_npostfix st = m_npostfix m /\ m_npostfix m < 4;
  cr_nd : zr_ndirect st = m_ndirect m /\ exists nd4, nd4 < 16 /\ m_ndirect m = nd4 * 2 ^ m_npostfix m;
  cr_cmodes : zr_cmodes st = m_cmodes m /\ length (m_cmodes m) = N.to_nat (b_n bl) /\
              Forall (fun x => x < 4) (m_cmodes m);
  cr_litmap : zr_litMapLen st = 64 * b_n bl /\
              map_rel (zr_litMap st) (64 * b_n bl) (m_cmapl m) (N.of_nat (length (m_ltrees m)));
  cr_distmap : zr_distMapLen st = 4 * b_n bd /\
               map_rel (zr_distMap st) (4 * b_n bd) (m_cmapd m) (N.of_nat (length (m_dtrees m)));
  cr_ltrees : trees_rel (zr_lit st) 256 (m_ltrees m);
  cr_itrees : trees_rel (zr_iac st) 704 (m_itrees m) /\ length (m_itrees m) = N.to_nat (b_n bi);
  cr_dtrees : trees_rel (zr_dst st) (16 + m_ndirect m + 48 * 2 ^ m_npostfix m) (m_dtrees m)
}.

(* what readPrefixCodes leaves alone *)
Definition hframe (st st' : rst) : Prop :=
  zr_inOff st' = zr_inOff st /\ zr_outOff st' = zr_outOff st /\ zr_toRead st' = zr_toRead st /\
  zr_blkLen st' = zr_blkLen st /\ zr_insLen st' = zr_insLen st /\ zr_cpyLen st' = zr_cpyLen st /\
  zr_last st' = zr_last st /\ zr_err st' = zr_err st /\ zr_stepState st' = zr_stepState st /\
  zr_dict st' = zr_dict st /\ zr_pend st' = zr_pend st /\ zr_dist st' = zr_dist st /\
  zr_dists st' = zr_dists st /\ zr_distZero st' = zr_distZero st /\ zr_word st' = zr_word st.

Lemma hframe_refl st : hframe st st.
Proof. repeat split. Qed.

Lemma hframe_trans a b c : hframe a b -> hframe b c -> hframe a c.
Proof. unfold hframe. intros H1 H2. intuition congruence. Qed.

Lemma hframe_same_out st st' : hframe st st' -> same_out st st'.
Proof. unfold hframe, same_out. intuition. Qed.

Lemma hframe_blk sel st sc p bd : hframe st (put_blk sel (set_rd (set_scratch st sc) p) bd).
Proof. destruct sel; repeat split. Qed.

Lemma hframe_cframe st st' : cframe st st' -> hframe st st'.
Proof. intros (p & sc & m & t & ->). repeat split. Qed.

Lemma same_out_trans a b c : same_out a b -> same_out b c -> same_out a c.
Proof. unfold same_out. intuition congruence. Qed.

Lemma blk_rel_with_trees bd b store n : blk_rel bd b -> blk_rel (with_trees bd store n) b.
Proof. intros [B1 B2 B3 B4 B5 B6 B7 B8 B9]. split; assumption. Qed.

Lemma extend_decoders_length store n : (n <= length (extend_decoders store n))%nat.
Proof.
  unfold extend_decoders. destruct (Nat.leb_spec n (length store)) as [H|H]; [exact H|].
  rewrite app_length, repeat_length.
  assert (n <= n * 3 / 2)%nat by (apply Nat.div_le_lower_bound; lia). lia.
Qed.

(* bd.prefixes = extendDecoders(bd.prefixes, n); for i := range bd.prefixes { ReadPrefixCode } *)
Lemma read_tree_group_ok sel asize n st R out b : 2 <= asize < 1024 -> BInv' R (zr_rd st) ->
  blk_rel (get_blk sel st) b ->
  match run (Brotli.Spec.read_prefix_codes n asize) (sast' R out) with
  | Done ts s' =>
    exists st' R', read_tree_group bsz sel n asize st = SOk tt st' /\ s' = sast' R' out /\ BInv' R' (zr_rd st') /\
      hframe st st' /\ zr_mtf st' = zr_mtf st /\ zr_mtfTail st' = zr_mtfTail st /\
      (forall s2, s2 <> sel -> get_blk s2 st' = get_blk s2 st) /\
      blk_rel (get_blk sel st') b /\ trees_rel (get_blk sel st') asize ts /\ length ts = n /\
      zr_npostfix st' = zr_npostfix st /\ zr_ndirect st' = zr_ndirect st /\ zr_cmodes st' = zr_cmodes st /\
      zr_cmode st' = zr_cmode st /\
      zr_litMap st' = zr_litMap st /\ zr_litMapLen st' = zr_litMapLen st /\ zr_litMapOff st' = zr_litMapOff st /\
      zr_litTypeLen st' = zr_litTypeLen st /\
      zr_distMap st' = zr_distMap st /\ zr_distMapLen st' = zr_distMapLen st /\
      zr_distMapOff st' = zr_distMapOff st /\ zr_distTypeLen st' = zr_distTypeLen st /\ zr_step st' = zr_step st
  | Fail e s' =>
    exists e' st', read_tree_group bsz sel n asize st = SErr e' st' /\ (e' = EUEOF \/ e' = ECorrupted) /\
                   same_out st st'
  end.
Proof.
  intros Ha HI HB. unfold read_tree_group, upd_blk. rewrite mbind_modify.
  set (st0 := put_blk sel st _).
  assert (HI0 : BInv' R (zr_rd st0)) by (destruct sel; exact HI).
  assert (Hg0 : get_blk sel st0 = with_trees (get_blk sel st) (extend_decoders (k_store (get_blk sel st)) n) n).
  { unfold st0. apply put_get_blk. }
  pose proof (read_trees_ok sel asize Ha n 0%nat st0 R out HI0) as Ht.
  rewrite Hg0 in Ht. cbn [k_store with_trees k_len] in Ht.
  specialize (Ht ltac:(pose proof (extend_decoders_length (k_store (get_blk sel st)) n); lia)).
  destruct (run (Brotli.Spec.read_prefix_codes n asize) (sast' R out)) as [ts s1|e s1].
  - destruct Ht as (p & sc & store' & R' & El & -> & HI' & Hlts & Hls & _ & Hdec).
    eexists _, R'. split; [exact El|]. split; [reflexivity|].
    split; [destruct sel; exact HI'|].
    split; [unfold st0; destruct sel; repeat split|].
    split; [unfold st0; destruct sel; reflexivity|]. split; [unfold st0; destruct sel; reflexivity|].
    split; [intros s2 Hne; unfold st0; destruct sel, s2; try reflexivity; contradiction|].
    rewrite put_get_blk.
    split; [apply blk_rel_with_trees, blk_rel_with_trees; exact HB|].
    split; [|split; [exact Hlts | unfold st0; destruct sel; repeat split]].
    split; cbn [k_len k_store with_trees].
    + lia.
    + rewrite Hls. pose proof (extend_decoders_length (k_store (get_blk sel st)) n). lia.
    + intros j Hj. apply (Hdec j). lia.
  - destruct Ht as (e' & st' & El & He & Hso). exists e', st'. split; [exact El|]. split; [exact He|].
    apply (same_out_trans st st0); [unfold st0; destruct sel; repeat split | exact Hso].
Qed.

(* NTREES and, if it is at least 2, the context map; an all-zero map otherwise *)
Lemma cframe_same_out st st' : cframe st st' -> same_out st st'.
Proof. intros (p & sc & m & t & ->). repeat split. Qed.

Lemma ntrees_cmap_ok (f : rst -> rst) size st R out :
  (forall s, zr_rd (f s) = zr_rd s) -> (forall s, zr_mtf (f s) = zr_mtf s) ->
  (forall s, zr_mtfTail (f s) = zr_mtfTail s) -> (forall s, same_out s (f s)) ->
  BInv' R (zr_rd st) -> MtfInv (zr_mtf st) (zr_mtfTail st) ->
  match run (read_ntrees_cmap size) (sast' R out) with
  | Done (nt, cm) s' =>
    exists p st' R' lm, 1 <= nt <= 256 /\ cframe (f (set_rd st p)) st' /\
      (forall A (K : N -> list N -> M A),
         (n <~ m_read_symbol bsz decCounts ;; modify f ;;~
          l <~ (if 2 <=? n then Brotli.Impl.read_context_map bsz size n else ret (repeat 0 (N.to_nat size))) ;;
          K n l)%brm st = K nt lm st') /\
      s' = sast' R' out /\ BInv' R' (zr_rd st') /\ MtfInv (zr_mtf st') (zr_mtfTail st') /\
      length lm = N.to_nat size /\
      (forall i, i < size -> nth (N.to_nat i) lm 0 = nthN cm i /\ nthN cm i < nt)
  | Fail e s' =>
    exists e' st', same_out st st' /\ (e' = EUEOF \/ e' = ECorrupted) /\
      (forall A (K : N -> list N -> M A),
         (n <~ m_read_symbol bsz decCounts ;; modify f ;;~
          l <~ (if 2 <=? n then Brotli.Impl.read_context_map bsz size n else ret (repeat 0 (N.to_nat size))) ;;
          K n l)%brm st = SErr e' st')
  end.
Proof.
  intros Hfr Hfm Hft Hfs HI HM. unfold read_ntrees_cmap. rewrite run_bind, read_count_eq.
  pose proof (m_read_symbol_ok data Hd bsz Hbsz decCounts codeCounts decCounts_codes counts_tree
                counts_tree_codes counts_zero_min st R out HI) as Hs.
  destruct (run (sym_or_corrupt counts_tree) (sast' R out)) as [nt s1|e s1].
  2:{ destruct Hs as (-> & _ & p' & E). exists EUEOF, (set_rd st p').
      split; [apply same_out_rd|]. split; [left; reflexivity|]. intros A K.
      rewrite (mbind_err _ _ _ _ _ E). reflexivity. }
  destruct Hs as (p' & k & E & -> & HI1 & c & Hc & -> & _).
  pose proof (counts_syms c Hc) as Hn. set (nt := c_sym c) in *.
  set (st1 := f (set_rd st p')).
  assert (HI1' : BInv' (R + k) (zr_rd st1)) by (unfold st1; rewrite Hfr; exact HI1).
  assert (HM1 : MtfInv (zr_mtf st1) (zr_mtfTail st1)) by (unfold st1; rewrite Hfm, Hft; exact HM).
  destruct (2 <=? nt) eqn:E2.
  - apply N.leb_le in E2. rewrite run_bind.
    pose proof (read_context_map_refines data Hd bsz Hbsz st1 _ out size nt HI1' HM1 ltac:(lia)) as Hcm.
    destruct (run (Brotli.Spec.read_context_map size nt) (sast' (R + k) out)) as [cm s2|e s2].
    + destruct Hcm as (st' & R' & Ecm & Hcf & -> & HI' & HM' & Hlen & Hall). cbn [run].
      exists p', st', R', cm. split; [exact Hn|]. split; [exact Hcf|]. split.
      { intros A K. rewrite (mbind_ok _ _ _ _ _ E). cbv beta. rewrite mbind_modify.
        replace (2 <=? nt) with true by (symmetry; apply N.leb_le; exact E2).
        fold st1. rewrite (mbind_ok _ _ _ _ _ Ecm). reflexivity. }
      split; [reflexivity|]. split; [exact HI'|]. split; [exact HM'|]. split; [exact Hlen|].
      intros i Hi. unfold nthN. split; [reflexivity|].
      rewrite Forall_forall in Hall. apply Hall. apply nth_In. lia.
    + destruct Hcm as (e' & st' & Ecm & Hcf & He). exists e', st'.
      split; [|split; [exact He|]].
      { apply (same_out_trans st st1); [|apply cframe_same_out; exact Hcf].
        apply (same_out_trans st (set_rd st p')); [apply same_out_rd | apply Hfs]. }
      intros A K. rewrite (mbind_ok _ _ _ _ _ E). cbv beta. rewrite mbind_modify.
      replace (2 <=? nt) with true by (symmetry; apply N.leb_le; exact E2).
      fold st1. rewrite (mbind_err _ _ _ _ _ Ecm). reflexivity.
  - apply N.leb_gt in E2. cbn [run].
    exists p', st1, (R + k)%nat, (repeat 0 (N.to_nat size)). split; [exact Hn|].
    split; [apply cframe_refl|]. split.
    { intros A K. rewrite (mbind_ok _ _ _ _ _ E). cbv beta. rewrite mbind_modify.
      replace (2 <=? nt) with false by (symmetry; apply N.leb_gt; exact E2).
      fold st1. rewrite mbind_ret. reflexivity. }
    split; [reflexivity|]. split; [exact HI1'|]. split; [exact HM1|]. split; [apply repeat_length|].
    intros i Hi. unfold nthN. cbn [snd]. split; [|destruct (N.to_nat i); cbn; lia].
    rewrite nth_repeat. destruct (N.to_nat i); reflexivity.
Qed.

Lemma map_rel_of_list lm size cm nt :
  length lm = N.to_nat size ->
  (forall i, i < size -> nth (N.to_nat i) lm 0 = nthN cm i /\ nthN cm i < nt) ->
  map_rel (nm_of_list lm) size cm nt.
Proof.
  intros Hlen H i Hi. destruct (H i Hi) as (E1 & E2).
  exists (nth (N.to_nat i) lm 0). rewrite nm_of_list_get.
  split; [apply nth_error_nth'; lia|]. split; [exact E1 | rewrite E1; exact E2].
Qed.

(* THEOREM (c4): readPrefixCodes *)
Theorem read_prefix_codes_refines st R out window : BInv' R (zr_rd st) ->
  MtfInv (zr_mtf st) (zr_mtfTail st) ->
  match run (comp_header window) (sast' R out) with
  | Done (bl, bi, bd, m) s' =>
    exists st' R', Brotli.Impl.read_prefix_codes bsz st = SOk tt st' /\ s' = sast' R' out /\
      BInv' R' (zr_rd st') /\ MtfInv (zr_mtf st') (zr_mtfTail st') /\ hframe st st' /\
      cmd_rel st' m bl bi bd /\ zr_step st' = KCommands /\
      b_cur bl = 0 /\ b_cur bi = 0 /\ b_cur bd = 0 /\ m_window m = window /\
      zr_litMapOff st' = 0 /\ zr_litTypeLen st' = zr_litMapLen st' /\
      zr_distMapOff st' = 0 /\ zr_distTypeLen st' = zr_distMapLen st' /\
      zr_cmode st' = nthN (m_cmodes m) 0
  | Fail e s' =>
    exists e' st', Brotli.Impl.read_prefix_codes bsz st = SErr e' st' /\ (e' = EUEOF \/ e' = ECorrupted) /\
                   same_out st st'
  end.
Proof.
  intros HI HM. unfold comp_header, Brotli.Impl.read_prefix_codes.
  (* the three block decoders *)
  rewrite run_bind.
  pose proof (read_blk_types_refines data Hd bsz Hbsz BLit st R out HI) as H1.
  destruct (run read_blk (sast' R out)) as [bl s1|e s1].
  2:{ destruct H1 as (e' & st' & E1 & He & Hso). rewrite (mbind_err _ _ _ _ _ E1).
      exists e', st'. split; [reflexivity|]. split; assumption. }
  destruct H1 as (p1 & sc1 & bdl & R1 & E1 & -> & HI1 & HBl & _ & _ & Hcl0).
  rewrite (mbind_ok _ _ _ _ _ E1). cbv beta.
  set (st1 := put_blk BLit (set_rd (set_scratch st sc1) p1) bdl).
  assert (HI1' : BInv' R1 (zr_rd st1)) by exact HI1.
  rewrite run_bind.
  pose proof (read_blk_types_refines data Hd bsz Hbsz BIac st1 R1 out HI1') as H2.
  destruct (run read_blk (sast' R1 out)) as [bi s2|e s2].
  2:{ destruct H2 as (e' & st' & E2 & He & Hso). rewrite (mbind_err _ _ _ _ _ E2).
      exists e', st'. split; [reflexivity|]. split; [exact He|].
      apply (same_out_trans st st1); [repeat split | exact Hso]. }
  destruct H2 as (p2 & sc2 & bdi & R2 & E2 & -> & HI2 & HBi & _ & _ & Hci0).
  rewrite (mbind_ok _ _ _ _ _ E2). cbv beta.
  set (st2 := put_blk BIac (set_rd (set_scratch st1 sc2) p2) bdi).
  assert (HI2' : BInv' R2 (zr_rd st2)) by exact HI2.
  rewrite run_bind.
  pose proof (read_blk_types_refines data Hd bsz Hbsz BDst st2 R2 out HI2') as H3.
  destruct (run read_blk (sast' R2 out)) as [bd s3|e s3].
  2:{ destruct H3 as (e' & st' & E3 & He & Hso). rewrite (mbind_err _ _ _ _ _ E3).
      exists e', st'. split; [reflexivity|]. split; [exact He|].
      apply (same_out_trans st st2); [repeat split | exact Hso]. }
  destruct H3 as (p3 & sc3 & bdd & R3 & E3 & -> & HI3 & HBd & _ & _ & Hcd0).
  rewrite (mbind_ok _ _ _ _ _ E3). cbv beta.
  set (st3 := put_blk BDst (set_rd (set_scratch st2 sc3) p3) bdd).
  assert (HI3' : BInv' R3 (zr_rd st3)) by exact HI3.
  (* NPOSTFIX, NDIRECT *)
  bits_step HI3' 2 HI4 npf p4 E4 Hvnp Hle4.
  2:{ eexists EUEOF, _. split; [reflexivity|]. split; [left; reflexivity | repeat split]. }
  assert (Hnp : npf < 4) by (rewrite Hvnp; apply (bits_at_bound bsz Hbsz _ _ 2)). clear Hvnp.
  set (st4 := set_rd st3 p4). assert (HI4' : BInv' (R3 + N.to_nat 2) (zr_rd st4)) by exact HI4.
  bits_step HI4' 4 HI5 nd4 p5 E5 Hvnd Hle5.
  2:{ eexists EUEOF, _. split; [reflexivity|]. split; [left; reflexivity | repeat split]. }
  assert (Hnd4 : nd4 < 16) by (rewrite Hvnd; apply (bits_at_bound bsz Hbsz _ _ 4)). clear Hvnd.
  cbv zeta. rewrite mbind_modify, mbind_get.
  assert (Hpow : 2 ^ npf <= 8) by (change 8 with (2 ^ 3); apply N.pow_le_mono_r; lia).
  assert (Hsh : N.shiftl nd4 npf = nd4 * 2 ^ npf) by apply N.shiftl_mul_pow2.
  assert (Hsh48 : N.shiftl 48 npf = 48 * 2 ^ npf) by apply N.shiftl_mul_pow2.
  rewrite Hsh, Hsh48.
  rewrite (N.mod_small npf 256) by lia. rewrite (N.mod_small (nd4 * 2 ^ npf) 256) by nia.
  set (nd := nd4 * 2 ^ npf) in *.
  set (st5 := set_post (set_rd st4 p5) npf nd).
  assert (HI5' : BInv' (R3 + N.to_nat 2 + N.to_nat 4) (zr_rd st5)) by exact HI5.
  assert (Hntl : k_numTypes (zr_lit st5) = b_n bl) by (apply (bl_n _ _ HBl)).
  assert (Hnti : k_numTypes (zr_iac st5) = b_n bi) by (apply (bl_n _ _ HBi)).
  assert (Hntd : k_numTypes (zr_dst st5) = b_n bd) by (apply (bl_n _ _ HBd)).
  rewrite Hntl, Hnti, Hntd.
  pose proof (bl_nb _ _ HBl) as Hbln. pose proof (bl_nb _ _ HBi) as Hbin. pose proof (bl_nb _ _ HBd) as Hbdn.
  (* CMODE *)
  rewrite run_bind.
  pose proof (read_cmodes_ok (N.to_nat (b_n bl)) st5 _ out HI5') as Hcm.
  destruct (run (Brotli.Spec.read_cmodes (N.to_nat (b_n bl))) (sast' (R3 + N.to_nat 2 + N.to_nat 4) out))
    as [cmodes s6|e s6].
  2:{ destruct Hcm as (-> & p6 & E6). rewrite (mbind_err _ _ _ _ _ E6).
      eexists EUEOF, _. split; [reflexivity|]. split; [left; reflexivity | repeat split]. }
  destruct Hcm as (p6 & R6 & E6 & -> & HI6 & Hcml & Hcma).
  rewrite (mbind_ok _ _ _ _ _ E6). cbv beta.
  destruct cmodes as [|cm0 cmr]; [cbn [length] in Hcml; lia|].
  rewrite mbind_ret, mbind_modify.
  set (st7 := set_lit (set_rd st5 p6) _ _ _ _ cm0 (cm0 :: cmr)).
  assert (HI7 : BInv' R6 (zr_rd st7)) by exact HI6.
  assert (HM7 : MtfInv (zr_mtf st7) (zr_mtfTail st7)) by exact HM.
  (* CMAPL *)
  rewrite run_bind.
  pose proof (ntrees_cmap_ok
                (fun s => set_lit s (zr_litMap s) (64 * b_n bl) (zr_litMapOff s) (zr_litTypeLen s) (zr_cmode s) (zr_cmodes s))
                (64 * b_n bl) st7 R6 out ltac:(reflexivity) ltac:(reflexivity) ltac:(reflexivity)
                ltac:(intros s0; repeat split) HI7 HM7) as Hml.
  destruct (run (read_ntrees_cmap (64 * b_n bl)) (sast' R6 out)) as [[nlt cml] s8|e s8].
  2:{ destruct Hml as (e' & st' & Hso & He & Eml). rewrite Eml.
      exists e', st'. split; [reflexivity|]. split; [exact He|].
      apply (same_out_trans st st7); [repeat split | exact Hso]. }
  destruct Hml as (p8 & st8 & R8 & lm & Hnlt & Hcf8 & Eml & -> & HI8 & HM8 & Hlml & Hlmv).
  rewrite Eml. clear Eml. rewrite mbind_modify.
  destruct Hcf8 as (q8 & sc8 & m8 & t8 & Est8).
  set (st9 := set_lit st8 (nm_of_list lm) (64 * b_n bl) 0 (64 * b_n bl) (zr_cmode st8) (zr_cmodes st8)).
  assert (HI9 : BInv' R8 (zr_rd st9)) by exact HI8.
  assert (HM9 : MtfInv (zr_mtf st9) (zr_mtfTail st9)) by exact HM8.
  (* CMAPD *)
  rewrite run_bind.
  pose proof (ntrees_cmap_ok
                (fun s => set_dmap s (zr_distMap s) (4 * b_n bd) (zr_distMapOff s) (zr_distTypeLen s))
                (4 * b_n bd) st9 R8 out ltac:(reflexivity) ltac:(reflexivity) ltac:(reflexivity)
                ltac:(intros s0; repeat split) HI9 HM9) as Hmd.
  destruct (run (read_ntrees_cmap (4 * b_n bd)) (sast' R8 out)) as [[ndt cmd] s10|e s10].
  2:{ destruct Hmd as (e' & st' & Hso & He & Emd). rewrite Emd.
      exists e', st'. split; [reflexivity|]. split; [exact He|].
      apply (same_out_trans st st9); [|exact Hso]. unfold st9. rewrite Est8. repeat split. }
  destruct Hmd as (p10 & st10 & R10 & dm & Hndt & Hcf10 & Emd & -> & HI10 & HM10 & Hdml & Hdmv).
  rewrite Emd. clear Emd. rewrite mbind_modify.
  destruct Hcf10 as (q10 & sc10 & m10 & t10 & Est10).
  set (st11 := set_dmap st10 (nm_of_list dm) (4 * b_n bd) 0 (4 * b_n bd)).
  assert (HI11 : BInv' R10 (zr_rd st11)) by exact HI10.
  assert (Hst11 : hframe st st11).
  { unfold st11. rewrite Est10. unfold st9. rewrite Est8. repeat split. }
  assert (HBl11 : blk_rel (zr_lit st11) bl) by (unfold st11; rewrite Est10; unfold st9; rewrite Est8; exact HBl).
  assert (HBi11 : blk_rel (zr_iac st11) bi) by (unfold st11; rewrite Est10; unfold st9; rewrite Est8; exact HBi).
  assert (HBd11 : blk_rel (zr_dst st11) bd) by (unfold st11; rewrite Est10; unfold st9; rewrite Est8; exact HBd).
  (* HTREEL *)
  cbn [fst snd]. rewrite run_bind.
  pose proof (read_tree_group_ok BLit 256 (N.to_nat nlt) st11 R10 out bl ltac:(lia) HI11 HBl11) as Hg1.
  destruct (run (Brotli.Spec.read_prefix_codes (N.to_nat nlt) 256) (sast' R10 out)) as [ltrees s12|e s12].
  2:{ destruct Hg1 as (e' & st' & Eg & He & Hso). rewrite (mbind_err _ _ _ _ _ Eg).
      exists e', st'. split; [reflexivity|]. split; [exact He|].
      apply (same_out_trans st st11); [apply hframe_same_out; exact Hst11 | exact Hso]. }
  destruct Hg1 as (st12 & R12 & Eg1 & -> & HI12 & Hf12 & Hm12 & Ht12 & Ho12 & HBl12 & HTl & Hll & F12).
  rewrite (mbind_ok _ _ _ _ _ Eg1). cbv beta.
  (* HTREEI *)
  rewrite run_bind.
  assert (HBi12 : blk_rel (get_blk BIac st12) bi) by (rewrite (Ho12 BIac ltac:(discriminate)); exact HBi11).
  pose proof (read_tree_group_ok BIac 704 (N.to_nat (b_n bi)) st12 R12 out bi ltac:(lia) HI12 HBi12) as Hg2.
  destruct (run (Brotli.Spec.read_prefix_codes (N.to_nat (b_n bi)) 704) (sast' R12 out)) as [itrees s13|e s13].
  2:{ destruct Hg2 as (e' & st' & Eg & He & Hso). rewrite (mbind_err _ _ _ _ _ Eg).
      exists e', st'. split; [reflexivity|]. split; [exact He|].
      apply (same_out_trans st st12); [|exact Hso].
      apply hframe_same_out, (hframe_trans st st11); assumption. }
  destruct Hg2 as (st13 & R13 & Eg2 & -> & HI13 & Hf13 & Hm13 & Ht13 & Ho13 & HBi13 & HTi & Hli & F13).
  rewrite (mbind_ok _ _ _ _ _ Eg2). cbv beta.
  (* HTREED *)
  rewrite run_bind.
  assert (HBd13 : blk_rel (get_blk BDst st13) bd).
  { rewrite (Ho13 BDst ltac:(discriminate)), (Ho12 BDst ltac:(discriminate)). exact HBd11. }
  assert (Hasz : 2 <= 16 + nd + 48 * 2 ^ npf < 1024) by (unfold nd; nia).
  pose proof (read_tree_group_ok BDst (16 + nd + 48 * 2 ^ npf) (N.to_nat ndt) st13 R13 out bd Hasz HI13 HBd13) as Hg3.
  destruct (run (Brotli.Spec.read_prefix_codes (N.to_nat ndt) (16 + nd + 48 * 2 ^ npf)) (sast' R13 out))
    as [dtrees s14|e s14].
  2:{ destruct Hg3 as (e' & st' & Eg & He & Hso). rewrite (mbind_err _ _ _ _ _ Eg).
      exists e', st'. split; [reflexivity|]. split; [exact He|].
      apply (same_out_trans st st13); [|exact Hso].
      apply hframe_same_out, (hframe_trans st st12); [apply (hframe_trans st st11); assumption | assumption]. }
  destruct Hg3 as (st14 & R14 & Eg3 & -> & HI14 & Hf14 & Hm14 & Ht14 & Ho14 & HBd14 & HTd & Hld & F14).
  rewrite (mbind_ok _ _ _ _ _ Eg3). cbv beta. cbn [run]. unfold modify.
  destruct F12 as (F12a & F12b & F12c & F12d & F12e & F12f & F12g & F12h & F12i & F12j & F12k & F12l & F12m).
  destruct F13 as (F13a & F13b & F13c & F13d & F13e & F13f & F13g & F13h & F13i & F13j & F13k & F13l & F13m).
  destruct F14 as (F14a & F14b & F14c & F14d & F14e & F14f & F14g & F14h & F14i & F14j & F14k & F14l & F14m).
  eexists _, R14. split; [reflexivity|]. split; [reflexivity|].
  split; [exact HI14|].
  split; [cbn [zr_mtf zr_mtfTail set_step]; rewrite Hm14, Ht14, Hm13, Ht13, Hm12, Ht12; exact HM10|].
  split.
  { apply (hframe_trans st st14); [|repeat split].
    apply (hframe_trans st st13); [|exact Hf14]. apply (hframe_trans st st12); [|exact Hf13].
    apply (hframe_trans st st11); assumption. }
  assert (Elit14 : zr_lit st14 = zr_lit st12).
  { change (zr_lit st14) with (get_blk BLit st14). rewrite (Ho14 BLit ltac:(discriminate)), (Ho13 BLit ltac:(discriminate)).
    reflexivity. }
  assert (Eiac14 : zr_iac st14 = zr_iac st13).
  { change (zr_iac st14) with (get_blk BIac st14). rewrite (Ho14 BIac ltac:(discriminate)). reflexivity. }
  split; [|split; [reflexivity|]].
  - split; cbn [zr_lit zr_iac zr_dst zr_npostfix zr_ndirect zr_cmodes zr_litMapLen zr_litMap zr_distMapLen zr_distMap
                set_step m_npostfix m_ndirect m_cmodes m_cmapl m_cmapd m_ltrees m_itrees m_dtrees].
    + rewrite Elit14. exact HBl12.
    + rewrite Eiac14. exact HBi13.
    + exact HBd14.
    + rewrite F14a, F13a, F12a. unfold st11. rewrite Est10. unfold st9. rewrite Est8.
      split; [reflexivity | exact Hnp].
    + rewrite F14b, F13b, F12b. unfold st11. rewrite Est10. unfold st9. rewrite Est8.
      split; [reflexivity|]. exists nd4. split; [exact Hnd4 | reflexivity].
    + rewrite F14c, F13c, F12c. unfold st11. rewrite Est10. unfold st9. rewrite Est8.
      split; [reflexivity|]. split; assumption.
    + rewrite F14f, F13f, F12f, F14e, F13e, F12e. unfold st11. rewrite Est10.
      split; [reflexivity|]. cbn [zr_litMap set_dmap set_mtf set_rd set_scratch]. unfold st9.
      cbn [zr_litMap set_lit]. rewrite Hll, N2Nat.id. apply map_rel_of_list; assumption.
    + rewrite F14j, F13j, F12j, F14i, F13i, F12i. unfold st11.
      split; [reflexivity|]. cbn [zr_distMap set_dmap]. rewrite Hld, N2Nat.id. apply map_rel_of_list; assumption.
    + rewrite Elit14. exact HTl.
    + rewrite Eiac14. split; [exact HTi | exact Hli].
    + exact HTd.
  - split; [exact Hcl0|]. split; [exact Hci0|]. split; [exact Hcd0|]. split; [reflexivity|].
    cbn [zr_litMapOff zr_litTypeLen zr_litMapLen zr_distMapOff zr_distTypeLen zr_distMapLen zr_cmode set_step m_cmodes].
    rewrite F14g, F13g, F12g, F14h, F13h, F12h, F14f, F13f, F12f, F14k, F13k, F12k, F14l, F13l, F12l,
            F14j, F13j, F12j, F14d, F13d, F12d.
    unfold st11. rewrite Est10. unfold st9. rewrite Est8.
    repeat split.
Qed.

End PfxImpl.
