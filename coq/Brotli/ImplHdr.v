(* Layer (a) of the refinement of brotli.Reader (Brotli/Impl.v) to RFC 7932 (Brotli/Spec.v):
   the stream header (WBITS, window allocation), the meta-block header (ISLAST, ISLASTEMPTY,
   MNIBBLES, MLEN / MSKIPLEN, ISUNCOMPRESSED, padding), metadata blocks, uncompressed blocks,
   the end of the stream - for every input, both source paths, every script. *)
From V Require Import Base.Prelude Base.Prog Base.ProgThms Base.FuelThms Base.DepthThms
  Flate.Spec Flate.Canon Bzip2.Common
  Prefix.ReaderImpl Prefix.ReaderSpec Prefix.ReaderThms
  Prefix.DecTable Prefix.DecTableSpec Prefix.DecTableThms Prefix.DecReadThms Prefix.DecCanonThms
  Brotli.BitReaderImpl Brotli.BitReaderSpec Brotli.BitReaderThms
  Brotli.PrefixDecoderImpl Brotli.PrefixDecoderThms Brotli.ReadSymbolThms
  Brotli.Tables Brotli.Spec Brotli.Fuel
  Brotli.Impl Brotli.ImplBits Brotli.ImplSym Brotli.ImplFixed Brotli.ImplWin.
From V Require Window.Dict Window.DictSpec Window.DictThms Window.DictBr Window.DictBrSpec Window.DictBrThms.
From Coq Require Import ZifyBool ZifyN ZifyNat.

Local Open Scope N_scope.
Local Ltac Zify.zify_post_hook ::= idtac.

(* ---- a loop of the specification that stays within its budget is its [loops] derivation ---- *)
Lemma loop_run {St R} d (body : St -> prog (St + R)) st s r :
  (forall n, nofuel n (loop d body st)) -> loops body st s r -> run (loop d body st) s = r.
Proof.
  intros Hnf Hl. apply (loops_loop d body st s r Hl).
  intros Hef. specialize (Hnf (S (ilen s)) s (Nat.lt_succ_diag_r _)).
  destruct (run (loop d body st) s) as [x s'|e s']; [exact Hef|].
  destruct e; try exact Hef. apply Hnf. reflexivity.
Qed.

(* ---- bytes of the stream ---------------------------------------------------------------------- *)
Lemma flat_map_bits_skip data : forall i,
  skipn (8 * i) (bytes_to_bits data) = bytes_to_bits (skipn i data).
Proof.
  induction data as [|b r IH]; intros i.
  - rewrite !skipn_nil. reflexivity.
  - destruct i as [|i]; [reflexivity|].
    replace (8 * S i)%nat with (8 + 8 * i)%nat by lia.
    unfold bytes_to_bits in *. cbn [flat_map skipn].
    rewrite <- skipn_skipn'.
    replace (skipn 8 (bits_lsb b ++ flat_map bits_lsb r)) with (flat_map bits_lsb r)
      by (unfold bits_lsb; reflexivity).
    apply IH.
Qed.

Section Hdr.
Variable data : list byte.
Hypothesis Hd : forall b, In b data -> b < 256.
Variable bsz : nat.
Hypothesis Hbsz : (16 <= bsz)%nat.

Notation BInv' := (BInv data).
Notation sast' := (sast data).

(* the byte at an aligned position *)
Lemma bits_at_byte R : (R mod 8 = 0)%nat -> (R + 8 <= 8 * length data)%nat ->
  bits_at (bstream data) R 8 = nth (R / 8) data 0.
Proof.
  intros Hal Hle. unfold bits_at. rewrite <- bytes_to_bits_bstream.
  replace R with (8 * (R / 8))%nat at 1 by (pose proof (Nat.div_mod R 8); lia).
  rewrite flat_map_bits_skip.
  assert (Hi : (R / 8 < length data)%nat) by (pose proof (Nat.div_mod R 8); lia).
  destruct (skipn (R / 8) data) as [|b rest] eqn:E.
  - pose proof (skipn_length (R / 8) data) as Hl. rewrite E in Hl. cbn [length] in Hl. lia.
  - assert (Hb : nth (R / 8) data 0 = b).
    { rewrite <- (firstn_skipn (R / 8) data) at 1. rewrite E.
      rewrite app_nth2 by (rewrite firstn_length; lia).
      rewrite firstn_length. replace (R / 8 - Nat.min (R / 8) (length data))%nat with 0%nat by lia.
      reflexivity. }
    rewrite Hb. unfold bytes_to_bits. cbn [flat_map].
    replace (firstn 8 (bits_lsb b ++ flat_map bits_lsb rest)) with (bits_lsb b)
      by (unfold bits_lsb; reflexivity).
    rewrite bits_lsb_val_bits8, bits_val_val_bits. apply N.mod_small.
    apply Hd. rewrite <- Hb. apply nth_In. exact Hi.
Qed.

(* ---- skip_bytes: n whole bytes ---------------------------------------------------------------------- *)
Lemma loops_skip n : forall R out, (R <= 8 * length data)%nat ->
  ((R + 8 * N.to_nat n <= 8 * length data)%nat ->
   loops skip_body n (sast' R out) (Done tt (sast' (R + 8 * N.to_nat n) out))) /\
  ((8 * length data < R + 8 * N.to_nat n)%nat ->
   exists s', loops skip_body n (sast' R out) (Fail EUEOF s') /\ a_out s' = out).
Proof.
  induction n as [|n IH] using N.peano_ind; intros R out HR.
  - split.
    + intros _. replace (R + 8 * N.to_nat 0)%nat with R by lia.
      apply loops_done. reflexivity.
    + intros H. lia.
  - assert (Eb : forall s, run (skip_body (N.succ n)) s =
                           run (rbits 8 ;;; Ret (inl n)) s).
    { intros s. unfold skip_body. replace (N.succ n =? 0) with false by (symmetry; apply N.eqb_neq; lia).
      replace (N.succ n - 1) with n by lia. reflexivity. }
    destruct (Nat.le_gt_cases (R + 8) (8 * length data)) as [H8|H8].
    + assert (E1 : run (skip_body (N.succ n)) (sast' R out) = Done (inl n) (sast' (R + 8) out)).
      { rewrite Eb, run_bind. rewrite (run_rbits_ok data Hd bsz Hbsz R out 8) by (change (N.to_nat 8) with 8%nat; lia).
        reflexivity. }
      destruct (IH (R + 8)%nat out ltac:(lia)) as (I1 & I2). split.
      * intros Hle. eapply loops_step; [exact E1|].
        replace (R + 8 * N.to_nat (N.succ n))%nat with (R + 8 + 8 * N.to_nat n)%nat by lia.
        apply I1. lia.
      * intros Hlt. destruct I2 as (s' & Hl & Ho); [lia|].
        exists s'. split; [|exact Ho]. eapply loops_step; [exact E1 | exact Hl].
    + split; [intros Hle; lia|]. intros _.
      destruct (run_rbits_eof data Hd bsz Hbsz R out 8 HR ltac:(change (N.to_nat 8) with 8%nat; lia)) as (s' & E & Ho & _).
      exists s'. split; [|exact Ho]. apply loops_fail. rewrite Eb, run_bind, E. reflexivity.
Qed.

Lemma run_skip_bytes n R out : (R <= 8 * length data)%nat ->
  ((R + 8 * N.to_nat n <= 8 * length data)%nat ->
   run (skip_bytes n) (sast' R out) = Done tt (sast' (R + 8 * N.to_nat n) out)) /\
  ((8 * length data < R + 8 * N.to_nat n)%nat ->
   exists s', run (skip_bytes n) (sast' R out) = Fail EUEOF s' /\ a_out s' = out).
Proof.
  intros HR. destruct (loops_skip n R out HR) as (L1 & L2). split.
  - intros H. unfold skip_bytes. apply loop_run; [intros m; apply bnf_skip_bytes | apply L1; exact H].
  - intros H. destruct (L2 H) as (s' & Hl & Ho). exists s'. split; [|exact Ho].
    unfold skip_bytes. apply loop_run; [intros m; apply bnf_skip_bytes | exact Hl].
Qed.

(* ---- raw_copy: n whole bytes into the output --------------------------------------------------------- *)
(* the bytes k .. k+n-1 of the input *)
Definition dbytes (k n : nat) : list byte := firstn n (skipn k data).

Lemma dbytes_succ k n : (k + n < length data)%nat ->
  dbytes k (S n) = dbytes k n ++ [nth (k + n) data 0].
Proof.
  intros H. unfold dbytes.
  replace (S n) with (n + 1)%nat by lia. rewrite firstn_plus. f_equal.
  rewrite skipn_skipn'.
  destruct (skipn (k + n) data) as [|b rest] eqn:E.
  - pose proof (skipn_length (k + n) data) as Hl. rewrite E in Hl. cbn [length] in Hl. lia.
  - cbn [firstn]. f_equal.
    rewrite <- (firstn_skipn (k + n) data) at 1. rewrite E.
    rewrite app_nth2 by (rewrite firstn_length; lia).
    rewrite firstn_length. replace (k + n - Nat.min (k + n) (length data))%nat with 0%nat by lia.
    reflexivity.
Qed.

Lemma loops_raw n : forall R out, (R mod 8 = 0)%nat -> (R <= 8 * length data)%nat ->
  ((R + 8 * N.to_nat n <= 8 * length data)%nat ->
   loops raw_body n (sast' R out)
         (Done tt (sast' (R + 8 * N.to_nat n) (rev (dbytes (R / 8) (N.to_nat n)) ++ out)))) /\
  ((8 * length data < R + 8 * N.to_nat n)%nat ->
   exists s', loops raw_body n (sast' R out) (Fail EUEOF s') /\
              a_out s' = rev (dbytes (R / 8) (length data - R / 8)) ++ out).
Proof.
  induction n as [|n IH] using N.peano_ind; intros R out Hal HR.
  - split.
    + intros _. replace (R + 8 * N.to_nat 0)%nat with R by lia.
      apply loops_done. reflexivity.
    + intros H. lia.
  - assert (Eb : forall s, run (raw_body (N.succ n)) s =
                           run (b <- rbits 8 ;; Put b (Ret (inl n))) s).
    { intros s. unfold raw_body. replace (N.succ n =? 0) with false by (symmetry; apply N.eqb_neq; lia).
      replace (N.succ n - 1) with n by lia. reflexivity. }
    destruct (Nat.le_gt_cases (R + 8) (8 * length data)) as [H8|H8].
    + set (b := nth (R / 8) data 0).
      assert (E1 : run (raw_body (N.succ n)) (sast' R out) = Done (inl n) (sast' (R + 8) (b :: out))).
      { rewrite Eb, run_bind. rewrite (run_rbits_ok data Hd bsz Hbsz R out 8) by (change (N.to_nat 8) with 8%nat; lia).
        change (N.to_nat 8) with 8%nat. rewrite (bits_at_byte R Hal H8). fold b.
        cbn [run]. unfold sast. cbn [a_in a_pos a_out a_len length].
        rewrite Nat2N.inj_succ, N.add_1_r. reflexivity. }
      assert (Hal8 : ((R + 8) mod 8 = 0)%nat).
      { replace (R + 8)%nat with (R + 1 * 8)%nat by lia. rewrite Nat.mod_add by lia. exact Hal. }
      assert (Hd8 : ((R + 8) / 8 = R / 8 + 1)%nat).
      { replace (R + 8)%nat with (R + 1 * 8)%nat by lia. rewrite Nat.div_add by lia. reflexivity. }
      assert (Hlt : (R / 8 < length data)%nat) by (pose proof (Nat.div_mod R 8); lia).
      destruct (IH (R + 8)%nat (b :: out) Hal8 ltac:(lia)) as (I1 & I2). split.
      * intros Hle. eapply loops_step; [exact E1|].
        replace (R + 8 * N.to_nat (N.succ n))%nat with (R + 8 + 8 * N.to_nat n)%nat by lia.
        assert (Ho : rev (dbytes (R / 8) (N.to_nat (N.succ n))) ++ out =
                     rev (dbytes ((R + 8) / 8) (N.to_nat n)) ++ b :: out).
        { rewrite Hd8. unfold dbytes. rewrite N2Nat.inj_succ.
          destruct (skipn (R / 8) data) as [|b0 rest] eqn:E.
          { pose proof (skipn_length (R / 8) data) as Hl. rewrite E in Hl. cbn [length] in Hl. lia. }
          assert (Hb0 : b0 = b).
          { unfold b. rewrite <- (firstn_skipn (R / 8) data) at 1. rewrite E.
            rewrite app_nth2 by (rewrite firstn_length; lia).
            rewrite firstn_length. replace (R / 8 - Nat.min (R / 8) (length data))%nat with 0%nat by lia.
            reflexivity. }
          rewrite <- skipn_skipn', E. cbn [skipn firstn rev]. rewrite <- app_assoc, Hb0. reflexivity. }
        rewrite Ho. apply I1. lia.
      * intros Hlt'. destruct I2 as (s' & Hl & Ho); [lia|].
        exists s'. split; [eapply loops_step; [exact E1 | exact Hl]|].
        rewrite Ho, Hd8. unfold dbytes.
        destruct (skipn (R / 8) data) as [|b0 rest] eqn:E.
        { pose proof (skipn_length (R / 8) data) as Hl'. rewrite E in Hl'. cbn [length] in Hl'. lia. }
        assert (Hb0 : b0 = b).
        { unfold b. rewrite <- (firstn_skipn (R / 8) data) at 1. rewrite E.
          rewrite app_nth2 by (rewrite firstn_length; lia).
          rewrite firstn_length. replace (R / 8 - Nat.min (R / 8) (length data))%nat with 0%nat by lia.
          reflexivity. }
        rewrite <- skipn_skipn', E. cbn [skipn].
        replace (length data - R / 8)%nat with (S (length data - (R / 8 + 1)))%nat by lia.
        cbn [firstn rev]. rewrite <- app_assoc, Hb0. reflexivity.
    + split; [intros Hle; lia|]. intros _.
      destruct (run_rbits_eof data Hd bsz Hbsz R out 8 HR ltac:(change (N.to_nat 8) with 8%nat; lia)) as (s' & E & Ho & _).
      exists s'. split; [apply loops_fail; rewrite Eb, run_bind, E; reflexivity|].
      rewrite Ho.
      assert (R / 8 = length data)%nat by (pose proof (Nat.div_mod R 8); lia).
      replace (length data - R / 8)%nat with 0%nat by lia. reflexivity.
Qed.

(* ---- the meta-block header --------------------------------------------------------------------------- *)
(* what the header of RFC 7932 section 9.2 announces; the padding bits of metadata and
   uncompressed blocks belong to the header *)
Inductive smbk :=
| SLastEmpty
| SMeta (islast sl : N)
| SRaw (islast mlen : N)
| SComp (islast mlen : N).

Definition spec_meta_hdr (islast : N) : prog smbk :=
  reserved <- rbits 1 ;;
  assert_p (reserved =? 0) ECorrupted ;;;
  sb <- rbits 2 ;;
  sl <- (if sb =? 0 then Ret 0 else read_len sb 8 1) ;;
  zero_pads ;;;
  Ret (SMeta islast sl).

Definition spec_data_hdr (islast mn : N) : prog smbk :=
  mlen <- read_len (mn + 4) 4 4 ;;
  unc <- (if islast =? 1 then Ret 0 else rbits 1) ;;
  if unc =? 1 then zero_pads ;;; Ret (SRaw islast mlen)
  else Ret (SComp islast mlen).

Definition mb_header : prog smbk :=
  islast <- rbits 1 ;;
  empty <- (if islast =? 1 then rbits 1 else Ret 0) ;;
  if empty =? 1 then Ret SLastEmpty else
  mn <- rbits 2 ;;
  if mn =? 3 then spec_meta_hdr islast else spec_data_hdr islast mn.

Definition kind_of (k : smbk) : mbk :=
  match k with
  | SLastEmpty => MKLastEmpty
  | SMeta _ _ => MKMeta
  | SRaw _ _ => MKRaw
  | SComp _ _ => MKComp
  end.

(* the Reader after the header: rd advanced, br.last and br.blkLen set, nothing else touched *)
Definition hdr_post (st : rst) (k : smbk) (st' : rst) : Prop :=
  exists p',
    match k with
    | SLastEmpty => st' = set_last (set_rd st p') true
    | SMeta il n | SRaw il n | SComp il n =>
      st' = set_blkLen (set_last (set_rd st p') (il =? 1)) (Z.of_N n)
    end.

(* a step that failed has left the window and the delivery state alone *)
Definition same_out (st st' : rst) : Prop :=
  zr_dict st' = zr_dict st /\ zr_pend st' = zr_pend st /\ zr_toRead st' = zr_toRead st /\
  zr_outOff st' = zr_outOff st.

Lemma run_zero_pads R out : (R <= 8 * length data)%nat ->
  run zero_pads (sast' R out) =
  if bits_at (bstream data) R (pad_n R) =? 0 then Done tt (sast' (R + pad_n R) out)
  else Fail ECorrupted (sast' (R + pad_n R) out).
Proof.
  intros HR. unfold zero_pads. rewrite (run_alignp_ok data bsz Hbsz R out _ HR).
  unfold assert_p. destruct (_ =? 0); reflexivity.
Qed.

Lemma pad_aligned R : ((R + pad_n R) mod 8 = 0)%nat.
Proof. unfold pad_n. pose proof (Nat.div_mod R 8). lia. Qed.

(* check_pads of the Reader against zero_pads *)
Lemma check_pads_ok st R out : BInv' R (zr_rd st) ->
  match run zero_pads (sast' R out) with
  | Done _ s' => exists p', check_pads st = SOk tt (set_rd st p') /\ s' = sast' (R + pad_n R) out /\
                            BInv' (R + pad_n R) p'
  | Fail e s' => e = ECorrupted /\ a_out s' = out /\ exists p', check_pads st = SErr ECorrupted (set_rd st p')
  end.
Proof.
  intros HI. rewrite (run_zero_pads R out (BInv_pos_le data bsz Hbsz R _ HI)).
  destruct (m_read_pads_ok data Hd bsz Hbsz st R HI) as (p' & E & HI').
  unfold check_pads, mbind. rewrite E.
  destruct (bits_at (bstream data) R (pad_n R) =? 0) eqn:Ez.
  - apply N.eqb_eq in Ez. rewrite Ez. cbn [N.ltb N.compare when ret]. exists p'.
    split; [reflexivity|]. split; [reflexivity | exact HI'].
  - apply N.eqb_neq in Ez. replace (0 <? bits_at (bstream data) R (pad_n R)) with true
      by (symmetry; apply N.ltb_lt; lia).
    cbn [when]. split; [reflexivity|]. split; [reflexivity|]. exists p'. reflexivity.
Qed.

Lemma shiftr_div v k : N.shiftr v k = v / 2 ^ k.
Proof. apply N.shiftr_div_pow2. Qed.

Lemma mbind_ok {A B} (m : M A) (f : A -> M B) st a st' : m st = SOk a st' -> mbind m f st = f a st'.
Proof. intros E. unfold mbind. rewrite E. reflexivity. Qed.
Lemma mbind_err {A B} (m : M A) (f : A -> M B) st e st' : m st = SErr e st' -> mbind m f st = SErr e st'.
Proof. intros E. unfold mbind. rewrite E. reflexivity. Qed.

Lemma mbind_ret {A B} (a : A) (f : A -> M B) st : mbind (ret a) f st = f a st.
Proof. reflexivity. Qed.
Lemma mbind_modify {B} (g : rst -> rst) (f : unit -> M B) st : mbind (modify g) f st = f tt (g st).
Proof. reflexivity. Qed.
Lemma mbind_throw {A B} e (f : A -> M B) st : mbind (throw e) f st = SErr e st.
Proof. reflexivity. Qed.
Lemma mbind_get {B} (f : rst -> M B) st : mbind get f st = f st st.
Proof. reflexivity. Qed.

(* one ReadBits of the Reader against one rbits of the specification; in the failing branch the
   names Ho (output unchanged), pf, Ef are introduced *)
Ltac bits_core HI nb Hnew v p1 E Hv Hle :=
  match goal with
  | |- context [run (rbits nb) (sast data ?R0 ?o)] =>
    match goal with
    | |- context [mbind (m_read_bits bsz nb) _ ?st] =>
      let Hx := fresh "Hx" in
      pose proof (m_read_bits_ok data Hd bsz Hbsz st R0 o nb HI ltac:(lia)) as Hx;
      let s1 := fresh "s1" in let e := fresh "e" in
      destruct (run (rbits nb) (sast data R0 o)) as [v s1|e s1];
      [ destruct Hx as (p1 & E & -> & Hnew & Hv & Hle); rewrite (mbind_ok _ _ _ _ _ E); cbv beta
      | let He := fresh "He" in
        destruct Hx as (He & Ho & pf & Ef); rewrite (mbind_err _ _ _ _ _ Ef); subst e ]
    end
  end.
Ltac bits_step HI nb Hnew v p1 E Hv Hle := rewrite run_bind; bits_core HI nb Hnew v p1 E Hv Hle.

Lemma bits_at_bound bits R n : bits_at bits R n < 2 ^ N.of_nat n.
Proof.
  unfold bits_at. pose proof (bits_val_bound (firstn n (skipn R bits))) as H.
  eapply N.lt_le_trans; [exact H|]. apply N.pow_le_mono_r; [lia|].
  rewrite firstn_length. lia.
Qed.

Definition fail_post (st : rst) (out : list byte) {A} (e : err) (s' : ast) (x : sres A) : Prop :=
  a_out s' = out /\ (e = EUEOF \/ e = ECorrupted) /\ exists st', x = SErr e st' /\ same_out st st'.

Lemma same_out_rd st p : same_out st (set_rd st p).
Proof. repeat split. Qed.

(* ---- metadata header ---------------------------------------------------------------------------------- *)
Lemma read_meta_header_ok st R out islast : BInv' R (zr_rd st) ->
  match run (spec_meta_hdr islast) (sast' R out) with
  | Done k s' =>
    exists p' R' n, read_meta_header bsz st = SOk MKMeta (set_blkLen (set_rd st p') (Z.of_N n)) /\
                    k = SMeta islast n /\ s' = sast' R' out /\ BInv' R' p' /\
                    (R' mod 8 = 0)%nat /\ n <= 2 ^ 24
  | Fail e s' => fail_post st out e s' (read_meta_header bsz st)
  end.
Proof.
  intros HI. unfold spec_meta_hdr, read_meta_header, fail_post.
  bits_step HI 1 HI1 v p E Hv Hle.
  2:{ split; [exact Ho|]. split; [left; reflexivity|]. eexists. split; [reflexivity | apply same_out_rd]. }
  (* reserved *)
  rewrite run_bind. unfold when, corrupted.
  assert (Hv1 : v < 2) by (rewrite Hv; apply (bits_at_bound _ _ 1)).
  destruct (v =? 0) eqn:Ev0.
  2:{ apply N.eqb_neq in Ev0. replace (v =? 1) with true by (symmetry; apply N.eqb_eq; lia).
      cbn [assert_p run]. rewrite mbind_throw. split; [reflexivity|]. split; [right; reflexivity|].
      eexists. split; [reflexivity | apply same_out_rd]. }
  apply N.eqb_eq in Ev0. replace (v =? 1) with false by (symmetry; apply N.eqb_neq; lia).
  cbn [assert_p run]. rewrite mbind_ret.
  set (st1 := set_rd st p).
  assert (HI1' : BInv' (R + N.to_nat 1) (zr_rd st1)) by exact HI1.
  bits_step HI1' 2 HI2 sb p0 E0 Hv0 Hle0.
  2:{ split; [exact Ho|]. split; [left; reflexivity|]. eexists. split; [reflexivity | repeat split]. }
  assert (Hsb : sb < 4) by (rewrite Hv0; apply (bits_at_bound _ _ 2)).
  set (st2 := set_rd st1 p0).
  assert (HI2' : BInv' (R + N.to_nat 1 + N.to_nat 2) (zr_rd st2)) by exact HI2.
  rewrite run_bind.
  destruct (sb =? 0) eqn:Esb.
  - apply N.eqb_eq in Esb. replace (0 <? sb) with false by (symmetry; apply N.ltb_ge; lia).
    cbn [run]. rewrite mbind_ret.
    rewrite run_bind.
    pose proof (check_pads_ok st2 _ out HI2') as Hp.
    destruct (run zero_pads (sast' (R + N.to_nat 1 + N.to_nat 2) out)) as [u s1|e s1].
    + destruct Hp as (p1 & Ep & -> & HI3). rewrite (mbind_ok _ _ _ _ _ Ep). cbv beta.
      rewrite mbind_modify. cbn [run].
      exists p1, (R + N.to_nat 1 + N.to_nat 2 + pad_n (R + N.to_nat 1 + N.to_nat 2))%nat, 0.
      split; [reflexivity|]. split; [reflexivity|]. split; [reflexivity|]. split; [exact HI3|].
      split; [apply pad_aligned | lia].
    + destruct Hp as (-> & Ho & p1 & Ep). rewrite (mbind_err _ _ _ _ _ Ep).
      split; [exact Ho|]. split; [right; reflexivity|]. eexists. split; [reflexivity | repeat split].
  - apply N.eqb_neq in Esb. replace (0 <? sb) with true by (symmetry; apply N.ltb_lt; lia).
    unfold read_len.
    assert (Eb : forall (f : N -> M mbk) (m1 : M N) (g : N -> M N) s0,
               mbind (mbind m1 g) f s0 = mbind m1 (fun x => mbind (g x) f) s0).
    { intros f m1 g s0. unfold mbind. destruct (m1 s0); reflexivity. }
    rewrite Eb.
    bits_step HI2' (sb * 8) HI3 w p1 E1 Hvw Hle1.
    2:{ split; [exact Ho|]. split; [left; reflexivity|]. eexists. split; [reflexivity | repeat split]. }
    rewrite run_bind. rewrite shiftr_div.
    assert (Eb2 : forall (f : N -> M mbk) (m1 : M unit) (g : unit -> M N) s0,
               mbind (mbind m1 g) f s0 = mbind m1 (fun x => mbind (g x) f) s0).
    { intros f m1 g s0. unfold mbind. destruct (m1 s0); reflexivity. }
    rewrite Eb2.
    destruct ((1 <? sb) && (w / 2 ^ ((sb - 1) * 8) =? 0)) eqn:Ec.
    + cbn [negb assert_p run when]. rewrite mbind_throw.
      split; [reflexivity|]. split; [right; reflexivity|]. eexists. split; [reflexivity | repeat split].
    + cbn [negb assert_p run when]. rewrite !mbind_ret.
      set (st3 := set_rd st2 p1).
      assert (HI3' : BInv' (R + N.to_nat 1 + N.to_nat 2 + N.to_nat (sb * 8)) (zr_rd st3)) by exact HI3.
      rewrite run_bind.
      pose proof (check_pads_ok st3 _ out HI3') as Hp.
      destruct (run zero_pads (sast' (R + N.to_nat 1 + N.to_nat 2 + N.to_nat (sb * 8)) out)) as [u s1|e s1].
      * destruct Hp as (p2 & Ep & -> & HI4). rewrite (mbind_ok _ _ _ _ _ Ep). cbv beta.
        rewrite mbind_modify. cbn [run].
        exists p2, (R + N.to_nat 1 + N.to_nat 2 + N.to_nat (sb * 8)
                    + pad_n (R + N.to_nat 1 + N.to_nat 2 + N.to_nat (sb * 8)))%nat, (w + 1).
        split; [reflexivity|]. split; [reflexivity|]. split; [reflexivity|]. split; [exact HI4|].
        split; [apply pad_aligned|].
        assert (Hw : w < 2 ^ N.of_nat (N.to_nat (sb * 8))) by (rewrite Hvw; apply bits_at_bound).
        rewrite N2Nat.id in Hw.
        assert (2 ^ (sb * 8) <= 2 ^ 24) by (apply N.pow_le_mono_r; lia). lia.
      * destruct Hp as (-> & Ho & p2 & Ep). rewrite (mbind_err _ _ _ _ _ Ep).
        split; [exact Ho|]. split; [right; reflexivity|]. eexists. split; [reflexivity | repeat split].
Qed.

Lemma mbind_assoc {A B C} (m1 : M A) (g : A -> M B) (f : B -> M C) s0 :
  mbind (mbind m1 g) f s0 = mbind m1 (fun x => mbind (g x) f) s0.
Proof. unfold mbind. destruct (m1 s0); reflexivity. Qed.

(* ---- MLEN, ISUNCOMPRESSED ------------------------------------------------------------------------------ *)
Lemma read_data_header_ok st R out islast mn : BInv' R (zr_rd st) -> mn < 3 ->
  match run (spec_data_hdr islast mn) (sast' R out) with
  | Done k s' =>
    exists p' R' n, read_data_header bsz islast (mn + 4) st =
                    SOk (kind_of k) (set_blkLen (set_rd st p') (Z.of_N n)) /\
                    (k = SRaw islast n /\ islast <> 1 /\ (R' mod 8 = 0)%nat \/ k = SComp islast n) /\
                    s' = sast' R' out /\ BInv' R' p' /\ 1 <= n <= 2 ^ 24
  | Fail e s' => fail_post st out e s' (read_data_header bsz islast (mn + 4) st)
  end.
Proof.
  intros HI Hmn. unfold spec_data_hdr, read_data_header, fail_post, read_len.
  rewrite run_bind.
  bits_step HI ((mn + 4) * 4) HI1 w p E Hvw Hle.
  2:{ split; [exact Ho|]. split; [left; reflexivity|]. eexists. split; [reflexivity | apply same_out_rd]. }
  rewrite run_bind. rewrite shiftr_div.
  assert (Hw : w < 2 ^ ((mn + 4) * 4)).
  { rewrite Hvw. pose proof (bits_at_bound (bstream data) R (N.to_nat ((mn + 4) * 4))) as H.
    rewrite N2Nat.id in H. exact H. }
  assert (Hp24 : 2 ^ ((mn + 4) * 4) <= 2 ^ 24) by (apply N.pow_le_mono_r; lia).
  destruct ((4 <? mn + 4) && (w / 2 ^ ((mn + 4 - 1) * 4) =? 0)) eqn:Ec.
  { cbn [negb assert_p run when]. unfold corrupted. rewrite mbind_throw.
    split; [reflexivity|]. split; [right; reflexivity|]. eexists. split; [reflexivity | repeat split]. }
  cbn [negb assert_p run when]. rewrite mbind_ret, mbind_modify.
  set (st1 := set_blkLen (set_rd st p) (Z.of_N w + 1)).
  assert (HI1' : BInv' (R + N.to_nat ((mn + 4) * 4)) (zr_rd st1)) by exact HI1.
  rewrite run_bind.
  destruct (islast =? 1) eqn:Eil.
  - cbn [run]. rewrite mbind_ret. cbn [N.eqb run ret].
    exists p, (R + N.to_nat ((mn + 4) * 4))%nat, (w + 1).
    split; [replace (Z.of_N (w + 1)) with (Z.of_N w + 1)%Z by lia; reflexivity|].
    split; [right; reflexivity|]. split; [reflexivity|]. split; [exact HI1 | lia].
  - rewrite mbind_assoc.
    bits_core HI1' 1 HI2 u p0 E0 Hvu Hle0.
    2:{ split; [exact Ho|]. split; [left; reflexivity|]. eexists. split; [reflexivity | repeat split]. }
    rewrite mbind_ret.
    destruct (u =? 1) eqn:Eu.
    + rewrite run_bind.
      set (st2 := set_rd st1 p0).
      assert (HI2' : BInv' (R + N.to_nat ((mn + 4) * 4) + N.to_nat 1) (zr_rd st2)) by exact HI2.
      pose proof (check_pads_ok st2 _ out HI2') as Hp.
      destruct (run zero_pads (sast' (R + N.to_nat ((mn + 4) * 4) + N.to_nat 1) out)) as [x s1|e s1].
      * destruct Hp as (p1 & Ep & -> & HI3). rewrite (mbind_ok _ _ _ _ _ Ep). cbn [run ret].
        exists p1, (R + N.to_nat ((mn + 4) * 4) + N.to_nat 1
                    + pad_n (R + N.to_nat ((mn + 4) * 4) + N.to_nat 1))%nat, (w + 1).
        split; [replace (Z.of_N (w + 1)) with (Z.of_N w + 1)%Z by lia; reflexivity|].
        split; [left; split; [reflexivity|]; split; [apply N.eqb_neq; exact Eil | apply pad_aligned]|].
        split; [reflexivity|]. split; [exact HI3 | lia].
      * destruct Hp as (-> & Ho & p1 & Ep). rewrite (mbind_err _ _ _ _ _ Ep).
        split; [exact Ho|]. split; [right; reflexivity|]. eexists. split; [reflexivity | repeat split].
    + cbn [run ret].
      exists p0, (R + N.to_nat ((mn + 4) * 4) + N.to_nat 1)%nat, (w + 1).
      split; [replace (Z.of_N (w + 1)) with (Z.of_N w + 1)%Z by lia; reflexivity|].
      split; [right; reflexivity|]. split; [reflexivity|]. split; [exact HI2 | lia].
Qed.

(* ---- the whole header ------------------------------------------------------------------------------------ *)
Lemma read_mb_header_ok st R out : BInv' R (zr_rd st) ->
  match run mb_header (sast' R out) with
  | Done k s' =>
    exists st' R', read_mb_header bsz st = SOk (kind_of k) st' /\ s' = sast' R' out /\
                   BInv' R' (zr_rd st') /\ hdr_post st k st' /\
                   match k with
                   | SLastEmpty => True
                   | SMeta il n => (R' mod 8 = 0)%nat /\ n <= 2 ^ 24
                   | SRaw il n => (R' mod 8 = 0)%nat /\ il <> 1 /\ 1 <= n <= 2 ^ 24
                   | SComp il n => 1 <= n <= 2 ^ 24
                   end
  | Fail e s' => fail_post st out e s' (read_mb_header bsz st)
  end.
Proof.
  intros HI. unfold mb_header, read_mb_header, fail_post.
  bits_step HI 1 HI1 il p E Hv Hle.
  2:{ split; [exact Ho|]. split; [left; reflexivity|]. eexists. split; [reflexivity | apply same_out_rd]. }
  rewrite mbind_modify.
  set (st1 := set_last (set_rd st p) (il =? 1)).
  assert (HI1' : BInv' (R + N.to_nat 1) (zr_rd st1)) by exact HI1.
  assert (Hil : il < 2) by (rewrite Hv; apply (bits_at_bound _ _ 1)).
  (* the part after ISLASTEMPTY, from a state st2 at position R2 *)
  assert (Hrest : forall st2 R2, BInv' R2 (zr_rd st2) ->
            (exists p2, st2 = set_last (set_rd st p2) (il =? 1)) ->
            match run (mn <- rbits 2 ;; if mn =? 3 then spec_meta_hdr il else spec_data_hdr il mn)
                      (sast' R2 out) with
            | Done k s' =>
              exists st' R', (nb <~ m_read_bits bsz 2 ;;
                              if nb + 4 =? 7 then read_meta_header bsz
                              else read_data_header bsz il (nb + 4))%brm st2 = SOk (kind_of k) st' /\
                             s' = sast' R' out /\ BInv' R' (zr_rd st') /\ hdr_post st k st' /\
                             match k with
                             | SLastEmpty => True
                             | SMeta il n => (R' mod 8 = 0)%nat /\ n <= 2 ^ 24
                             | SRaw il n => (R' mod 8 = 0)%nat /\ il <> 1 /\ 1 <= n <= 2 ^ 24
                             | SComp il n => 1 <= n <= 2 ^ 24
                             end
            | Fail e s' =>
              a_out s' = out /\ (e = EUEOF \/ e = ECorrupted) /\
              exists st', (nb <~ m_read_bits bsz 2 ;;
                           if nb + 4 =? 7 then read_meta_header bsz
                           else read_data_header bsz il (nb + 4))%brm st2 = SErr e st' /\ same_out st st'
            end).
  { intros st2 R2 HI2 (p2 & Est2).
    bits_step HI2 2 HI3 mn p3 E3 Hvm Hle3.
    2:{ split; [exact Ho|]. split; [left; reflexivity|]. eexists. split; [reflexivity|].
        subst st2. repeat split. }
    assert (Hmn : mn < 4) by (rewrite Hvm; apply (bits_at_bound _ _ 2)).
    set (st3 := set_rd st2 p3).
    assert (HI3' : BInv' (R2 + N.to_nat 2) (zr_rd st3)) by exact HI3.
    destruct (mn =? 3) eqn:Em.
    - apply N.eqb_eq in Em. replace (mn + 4 =? 7) with true by (symmetry; apply N.eqb_eq; lia).
      pose proof (read_meta_header_ok st3 _ out il HI3') as Hm.
      destruct (run (spec_meta_hdr il) (sast' (R2 + N.to_nat 2) out)) as [k s1|e s1].
      + destruct Hm as (p' & R' & n & Emh & -> & -> & HI' & Hal & Hn).
        rewrite Emh. eexists _, R'. split; [reflexivity|]. split; [reflexivity|].
        split; [exact HI'|]. split; [|split; assumption].
        exists p'. unfold st3. subst st2. reflexivity.
      + destruct Hm as (Ho & He & st' & Emh & Hs). split; [exact Ho|]. split; [exact He|].
        exists st'. split; [exact Emh|]. unfold st3 in Hs. subst st2.
        destruct Hs as (H1 & H2 & H3 & H4). repeat split; assumption.
    - apply N.eqb_neq in Em. replace (mn + 4 =? 7) with false by (symmetry; apply N.eqb_neq; lia).
      pose proof (read_data_header_ok st3 _ out il mn HI3' ltac:(lia)) as Hm.
      destruct (run (spec_data_hdr il mn) (sast' (R2 + N.to_nat 2) out)) as [k s1|e s1].
      + destruct Hm as (p' & R' & n & Em' & Hk & -> & HI' & Hn).
        rewrite Em'. eexists _, R'. split; [reflexivity|]. split; [reflexivity|].
        split; [exact HI'|].
        destruct Hk as [(Hk & Hne & Hal)|Hk]; subst k.
        * split; [exists p'; unfold st3; subst st2; reflexivity|]. split; [exact Hal|]. split; assumption.
        * split; [exists p'; unfold st3; subst st2; reflexivity | exact Hn].
      + destruct Hm as (Ho & He & st' & Em' & Hs). split; [exact Ho|]. split; [exact He|].
        exists st'. split; [exact Em'|]. unfold st3 in Hs. subst st2.
        destruct Hs as (H1 & H2 & H3 & H4). repeat split; assumption. }
  rewrite run_bind.
  destruct (il =? 1) eqn:Eil.
  - rewrite mbind_assoc.
    bits_core HI1' 1 HI2 em p0 E0 Hve Hle0.
    2:{ split; [exact Ho|]. split; [left; reflexivity|]. eexists. split; [reflexivity | repeat split]. }
    rewrite mbind_ret.
    destruct (em =? 1) eqn:Eem.
    + cbn [run ret]. exists (set_rd st1 p0), (R + N.to_nat 1 + N.to_nat 1)%nat.
      split; [reflexivity|]. split; [reflexivity|]. split; [exact HI2|].
      split; [exists p0; reflexivity | exact I].
    + apply (Hrest (set_rd st1 p0) _ HI2). exists p0. reflexivity.
  - cbn [run]. rewrite mbind_ret. cbn [N.eqb].
    apply (Hrest st1 _ HI1'). exists p. reflexivity.
Qed.

(* ---- the end of the stream: padding, io.EOF ---------------------------------------------------------------- *)
Lemma finish_stream_ok {A} st R out : BInv' R (zr_rd st) ->
  match run zero_pads (sast' R out) with
  | Done _ s' => s' = sast' (R + pad_n R) out /\
                 exists p', @finish_stream A st = SErr EEOF (set_rd st p') /\ BInv' (R + pad_n R) p'
  | Fail e s' => e = ECorrupted /\ a_out s' = out /\
                 exists p', @finish_stream A st = SErr ECorrupted (set_rd st p')
  end.
Proof.
  intros HI. rewrite (run_zero_pads R out (BInv_pos_le data bsz Hbsz R _ HI)).
  destruct (m_read_pads_ok data Hd bsz Hbsz st R HI) as (p' & E & HI').
  unfold finish_stream. rewrite (mbind_ok _ _ _ _ _ E).
  destruct (bits_at (bstream data) R (pad_n R) =? 0) eqn:Ez.
  - apply N.eqb_eq in Ez. rewrite Ez. cbn [N.ltb N.compare]. split; [reflexivity|].
    exists p'. split; [reflexivity | exact HI'].
  - apply N.eqb_neq in Ez. replace (0 <? bits_at (bstream data) R (pad_n R)) with true
      by (symmetry; apply N.ltb_lt; lia).
    split; [reflexivity|]. split; [reflexivity|]. exists p'. reflexivity.
Qed.

(* ---- metadata: skipping whole bytes through raw Reads ------------------------------------------------------- *)
(* what a raw Read of k bytes gives at a byte boundary *)
Lemma bread_raw_aligned R p k : BInv' R p -> (R mod 8 = 0)%nat ->
  exists bs e p', bread_raw bsz p k = ((bs, e), p') /\
    (length bs <= k)%nat /\ bs = dbytes (R / 8) (length bs) /\
    (R / 8 + length bs <= length data)%nat /\
    (e = 0 \/ e = 1) /\ (e = 1 -> bs = [] /\ (length data <= R / 8)%nat) /\
    (e = 0 -> bs = [] -> k = O) /\
    BInv' (R + 8 * length bs) p'.
Proof.
  intros HI Hal. pose proof (bread_raw_ok data Hd bsz Hbsz R p k HI) as H.
  destruct (bread_raw bsz p k) as [[bs e] p']. exists bs, e, p'. split; [reflexivity|].
  destruct H as (_ & [(Hna & _)|(_ & H2 & H3 & H4 & H5 & H6 & H7 & HI')]); [lia|].
  split; [exact H2|]. split; [exact H3|]. split.
  - pose proof (BInv_pos_le data bsz Hbsz _ _ HI') as Hle. pose proof (Nat.div_mod R 8). lia.
  - split; [exact H6|]. split; [exact H4|]. split; [exact H5 | exact HI'].
Qed.

Lemma meta_loop_ok : forall fuel left cnt st R, BInv' R (zr_rd st) -> (R mod 8 = 0)%nat ->
  (length data - R / 8 < fuel)%nat ->
  let m := N.min left (N.of_nat (length data - R / 8)) in
  exists p', meta_loop bsz fuel left cnt st = SOk (cnt + m) (set_rd st p') /\
             BInv' (R + 8 * N.to_nat m) p'.
Proof.
  induction fuel as [|fuel IH]; intros left cnt st R HI Hal Hf; [lia|].
  cbv zeta. cbn [meta_loop]. destruct (left =? 0) eqn:E0.
  - apply N.eqb_eq in E0. subst left. exists (zr_rd st).
    replace (N.min 0 _) with 0 by lia. rewrite N.add_0_r.
    replace (R + 8 * N.to_nat 0)%nat with R by lia.
    split; [|exact HI]. unfold ret. f_equal. destruct st; reflexivity.
  - apply N.eqb_neq in E0.
    set (k := N.to_nat (N.min left discardBuf)).
    assert (Hk : (k <> 0)%nat) by (unfold k, discardBuf; lia).
    destruct (bread_raw_aligned R (zr_rd st) k HI Hal) as (bs & e & p' & Er & Hlen & Hbs & Hav & He & He1 & He0 & HI').
    rewrite Er.
    destruct He as [-> | ->].
    + cbn [N.eqb].
      assert (Hne : bs <> []) by (intros C; apply Hk, He0; [reflexivity | exact C]).
      assert (Hl1 : (1 <= length bs)%nat) by (destruct bs; [contradiction | cbn [length]; lia]).
      set (st1 := set_rd st p').
      assert (Hal' : ((R + 8 * length bs) mod 8 = 0)%nat).
      { rewrite Nat.mul_comm, Nat.mod_add by lia. exact Hal. }
      assert (Hdiv : ((R + 8 * length bs) / 8 = R / 8 + length bs)%nat).
      { rewrite Nat.mul_comm, Nat.div_add by lia. reflexivity. }
      destruct (IH (left - N.of_nat (length bs)) (cnt + N.of_nat (length bs)) st1 (R + 8 * length bs)%nat)
        as (p2 & E2 & HI2); [exact HI' | exact Hal' | rewrite Hdiv; lia|].
      rewrite E2. cbv zeta in HI2. rewrite Hdiv in *.
      assert (Hle : N.of_nat (length bs) <= left) by (unfold k in Hlen; lia).
      set (m := N.min left (N.of_nat (length data - R / 8))).
      set (m2 := N.min (left - N.of_nat (length bs)) (N.of_nat (length data - (R / 8 + length bs)))) in *.
      assert (Hm : m = N.of_nat (length bs) + m2) by (unfold m, m2; lia).
      exists p2. split; [unfold st1; f_equal; lia|].
      replace (R + 8 * N.to_nat m)%nat with (R + 8 * length bs + 8 * N.to_nat m2)%nat by lia. exact HI2.
    + cbn [N.eqb]. destruct (He1 eq_refl) as (-> & Hex). cbn [length].
      exists p'. replace (N.min left (N.of_nat (length data - R / 8))) with 0 by lia.
      split; [reflexivity|]. cbn [length] in HI'. exact HI'.
Qed.

Lemma read_meta_data_ok st R out sl : BInv' R (zr_rd st) -> (R mod 8 = 0)%nat ->
  zr_blkLen st = Z.of_N sl ->
  match run (skip_bytes sl) (sast' R out) with
  | Done _ s' =>
    exists p', read_meta_data bsz st = SOk tt (set_step (set_rd st p') KBlockHeader (zr_stepState st)) /\
               s' = sast' (R + 8 * N.to_nat sl) out /\ BInv' (R + 8 * N.to_nat sl) p'
  | Fail e s' => e = EUEOF /\ a_out s' = out /\
                 exists st', read_meta_data bsz st = SErr EUEOF st' /\ same_out st st'
  end.
Proof.
  intros HI Hal Hb. pose proof (BInv_pos_le data bsz Hbsz R _ HI) as HR.
  destruct (run_skip_bytes sl R out HR) as (S1 & S2).
  unfold read_meta_data. rewrite mbind_get. rewrite Hb, N2Z.id.
  destruct (meta_loop_ok (S (S (length (s_data (p_src (zr_rd st)))))) sl 0 st R HI Hal) as (p' & E & HI').
  { assert (Hdata : s_data (p_src (zr_rd st)) = data).
    { destruct HI as (([_ C2 _ _ _ _] & _ & _) & _). exact C2. }
    rewrite Hdata. lia. }
  rewrite (mbind_ok _ _ _ _ _ E). cbv beta. cbv zeta in HI'. rewrite N.add_0_l.
  assert (Hdiv : (R = 8 * (R / 8))%nat) by (pose proof (Nat.div_mod R 8); lia).
  destruct (Nat.le_gt_cases (R + 8 * N.to_nat sl) (8 * length data)) as [Hle|Hlt].
  - rewrite (S1 Hle). replace (N.min sl (N.of_nat (length data - R / 8))) with sl in * by lia.
    rewrite N.ltb_irrefl. cbn [when]. rewrite mbind_ret. unfold modify.
    exists p'. split; [reflexivity|]. split; [reflexivity | exact HI'].
  - destruct (S2 Hlt) as (s' & Es & Ho). rewrite Es.
    replace (N.min sl (N.of_nat (length data - R / 8)) <? sl) with true by (symmetry; apply N.ltb_lt; lia).
    cbn [when]. rewrite mbind_throw.
    split; [reflexivity|]. split; [exact Ho|]. eexists. split; [reflexivity | repeat split].
Qed.

(* ---- uncompressed data: one step of readRawData ---------------------------------------------------------------- *)
(* One call of readRawData with n >= 1 bytes of the meta-block to go, at a byte boundary, with
   everything flushed so far delivered: m bytes (as many as one raw Read returned: 0 <= m <= n,
   m <= room in the window) move from the input to the window; then either the block is
   complete (step = readBlockHeader, nothing flushed), or the window is flushed into toRead and
   the step stays; or the input is exhausted: io.ErrUnexpectedEOF. *)
Definition raw_after (st : rst) (p : prd) (d : Window.Dict.dd) (n m : N) (tr : option (list byte)) : rst :=
  match tr with
  | Some bs =>
    set_step (set_toRead (set_dict (set_blkLen (set_rd st p) (Z.of_N (n - m))) d []) bs)
             KRawData (zr_stepState st)
  | None =>
    set_step (set_dict (set_blkLen (set_rd st p) (Z.of_N (n - m))) d []) KBlockHeader (zr_stepState st)
  end.

Lemma read_raw_data_ok st R out n : BInv' R (zr_rd st) -> (R mod 8 = 0)%nat ->
  Wok st out -> zr_toRead st = [] -> zr_blkLen st = Z.of_N n -> 1 <= n ->
  exists m, N.of_nat m <= n /\ (R / 8 + m <= length data)%nat /\
    let out' := rev (dbytes (R / 8) m) ++ out in
    (exists p d tr, read_raw_data bsz st = SOk tt (raw_after st p d n (N.of_nat m) tr) /\
       BInv' (R + 8 * m) p /\ Wok (raw_after st p d n (N.of_nat m) tr) out' /\
       (match tr with
        | Some bs => N.of_nat m < n /\ bs = Window.Dict.zskipn (zr_outOff st) (rev out')
        | None => N.of_nat m = n
        end) /\ Window.Dict.d_size d = Window.Dict.d_size (zr_dict st)) \/
    (m = 0%nat /\ (length data <= R / 8)%nat /\
     exists st', read_raw_data bsz st = SErr EUEOF st' /\ Wok st' out /\ zr_toRead st' = [] /\
                 zr_outOff st' = zr_outOff st).
Proof.
  intros HI Hal HW Hnil Hb Hn. unfold read_raw_data.
  pose proof HW as [Hp (I0 & ZT & H2) Ht Ho].
  pose proof (Window.DictThms.i_rd _ _ I0) as Ird. pose proof (Window.DictThms.i_wr _ _ I0) as Iwr.
  unfold Window.Dict.slice_ok.
  replace ((0 <=? Window.Dict.d_wr (zr_dict st))%Z) with true by (symmetry; apply Z.leb_le; lia).
  replace ((Window.Dict.d_wr (zr_dict st) <=? Window.Dict.d_len (zr_dict st))%Z) with true
    by (symmetry; apply Z.leb_le; lia).
  rewrite Z.leb_refl. cbn [andb negb].
  rewrite Hb.
  replace ((Z.of_N n <? 0)%Z) with false by (symmetry; apply Z.ltb_ge; lia).
  rewrite andb_false_r.
  set (avail := Window.Dict.avail_size (zr_dict st)).
  assert (Hav0 : (0 <= avail)%Z) by (unfold avail, Window.Dict.avail_size; lia).
  set (k := Z.to_nat (Z.min avail (Z.of_N n))).
  destruct (bread_raw_aligned R (zr_rd st) k HI Hal)
    as (bs & e & p' & Er & Hlen & Hbs & Hav & He & He1 & He0 & HI').
  rewrite Er.
  exists (length bs). split; [unfold k in Hlen; lia|]. split; [exact Hav|]. cbv zeta.
  rewrite <- Hbs.
  set (st1 := set_rd st p').
  assert (HW1 : Wok st1 out) by (destruct HW; constructor; assumption).
  destruct (m_write_ok st1 out bs HW1) as (d1 & Ew & HW2 & Hl1 & Hs1 & Hav1).
  { unfold st1. cbn [zr_dict set_rd]. fold avail. unfold Window.Dict.zlen. unfold k in Hlen. lia. }
  rewrite (mbind_ok _ _ _ _ _ Ew). cbv beta. rewrite mbind_modify.
  replace (zr_pend st1) with (@nil byte) by (symmetry; exact Hp).
  replace (zr_blkLen (set_dict st1 d1 [])) with (Z.of_N n) by (symmetry; exact Hb).
  replace (Z.of_N n - Z.of_nat (length bs))%Z with (Z.of_N (n - N.of_nat (length bs)))
    by (unfold k in Hlen; lia).
  set (st2 := set_blkLen (set_dict st1 d1 []) (Z.of_N (n - N.of_nat (length bs)))).
  assert (Hb2 : zr_blkLen st2 = Z.of_N (n - N.of_nat (length bs))) by reflexivity.
  assert (HW3 : Wok st2 (rev bs ++ out)).
  { unfold st1 in HW2. cbn [zr_pend set_rd] in HW2. rewrite Hp in HW2.
    destruct HW2 as [A1 A2 A3 A4]. constructor; assumption. }
  destruct He as [-> | ->].
  - (* no error *)
    cbn [N.eqb]. rewrite mbind_ret, mbind_get. cbv beta. rewrite Hb2.
    left. destruct (0 <? Z.of_N (n - N.of_nat (length bs)))%Z eqn:Epos.
    + apply Z.ltb_lt in Epos.
      destruct (m_read_flush_ok st2 (rev bs ++ out) HW3) as (d3 & fl & Ef & HW4 & Hfl & Hs3 & _).
      { unfold st2, st1. cbn [zr_toRead set_blkLen set_lens set_dict set_rd]. exact Hnil. }
      rewrite (mbind_ok _ _ _ _ _ Ef). cbv beta. unfold modify.
      exists p', d3, (Some fl). split; [reflexivity|]. split; [exact HI'|]. split.
      * destruct HW4 as [A1 A2 A3 A4]. constructor; assumption.
      * split; [split; [lia | exact Hfl]|]. rewrite Hs3. exact Hs1.
    + apply Z.ltb_ge in Epos. unfold modify.
      exists p', d1, None. split; [|split; [exact HI'|split]].
      * reflexivity.
      * unfold raw_after. destruct HW3 as [A1 A2 A3 A4].
        unfold st2, st1 in *. constructor; assumption.
      * split; [unfold k in Hlen; lia | exact Hs1].
  - (* io.EOF: nothing was read *)
    destruct (He1 eq_refl) as (-> & Hex). cbn [N.eqb Pos.eqb]. rewrite mbind_throw.
    right. split; [reflexivity|]. split; [exact Hex|]. eexists. split; [reflexivity|].
    cbn [rev app] in HW3. split; [exact HW3|]. split; [exact Hnil | reflexivity].
Qed.

(* ---- the stream header: WBITS and the allocation of the window ----------------------------------------------- *)
Lemma winbits_syms c : In c codeWinBits -> c_sym c = 0 \/ 10 <= c_sym c <= 24.
Proof.
  intros H. vm_compute in H.
  repeat (destruct H as [<-|H]; [vm_compute; first [left; reflexivity | right; split; discriminate]|]).
  destruct H.
Qed.

Definition recycled_of (d : Window.Dict.dd) : option (list byte) :=
  match Window.Dict.d_arr d with [] => None | a => Some a end.

Lemma read_stream_header_ok st : BInv' 0 (zr_rd st) ->
  Window.DictBrSpec.recycled_ok (recycled_of (zr_dict st)) ->
  match run read_wbits (sast' 0 []) with
  | Done w s' =>
    exists p' n d, 10 <= w <= 24 /\ s' = sast' n [] /\ BInv' n p' /\
      WInv d (Window.DictSpec.wsp_init (2 ^ Z.of_N w - 16)) /\
      Window.Dict.d_size d = (2 ^ Z.of_N w - 16)%Z /\
      read_stream_header bsz st = read_block_header bsz (set_dict (set_rd st p') d (zr_pend st))
  | Fail e s' =>
    a_out s' = [] /\ (e = EUEOF \/ e = ECorrupted) /\
    exists st', read_stream_header bsz st = SErr e st' /\ same_out st st'
  end.
Proof.
  intros HI Hrec. rewrite read_wbits_eq. unfold wbits_prog, read_stream_header.
  rewrite run_bind.
  pose proof (m_read_symbol_aligned_ok data Hd bsz Hbsz decWinBits codeWinBits decWinBits_codes
                winbits_tree winbits_tree_codes winbits_max8 st 0%nat [] HI eq_refl) as Hs.
  destruct (run (sym_or_corrupt winbits_tree) (sast' 0 [])) as [w s1|e s1].
  - destruct Hs as (p' & n & E & -> & HI' & c & Hc & -> & Hn).
    rewrite (mbind_ok _ _ _ _ _ E). cbv beta.
    destruct (winbits_syms c Hc) as [H0|Hw].
    + rewrite H0. cbn [N.eqb run when]. unfold corrupted. rewrite mbind_throw.
      split; [reflexivity|]. split; [right; reflexivity|]. eexists. split; [reflexivity | apply same_out_rd].
    + replace (c_sym c =? 0) with false by (symmetry; apply N.eqb_neq; lia).
      cbn [run when]. rewrite mbind_ret, mbind_get.
      set (size := (2 ^ Z.of_N (c_sym c) - 16)%Z).
      assert (Hsz : Window.DictSpec.size_ok size).
      { unfold Window.DictSpec.size_ok, size.
        assert (2 ^ 10 <= 2 ^ Z.of_N (c_sym c))%Z by (apply Z.pow_le_mono_r; lia).
        assert (2 ^ Z.of_N (c_sym c) <= 2 ^ 24)%Z by (apply Z.pow_le_mono_r; lia). lia. }
      change (match Window.Dict.d_arr (zr_dict (set_rd st p')) with [] => None | a :: l => Some (a :: l) end)
        with (recycled_of (zr_dict st)).
      destruct (Window.DictBrThms.br_init_ok size (recycled_of (zr_dict st)) Hsz)
        as (d & Ei & I1 & ZT & Hds & _ & H2).
      rewrite Ei. cbn [of_dres]. rewrite mbind_modify.
      exists p', n, d. split; [exact Hw|]. split; [reflexivity|]. split; [exact HI'|].
      split; [|split; [exact Hds | reflexivity]].
      split; [exact I1|]. split; [exact ZT|]. apply H2; [|exact Hrec].
      unfold size. assert (2 ^ 10 <= 2 ^ Z.of_N (c_sym c))%Z by (apply Z.pow_le_mono_r; lia). lia.
  - destruct Hs as (-> & Ho & p' & E). rewrite (mbind_err _ _ _ _ _ E).
    split; [exact Ho|]. split; [left; reflexivity|]. eexists. split; [reflexivity | apply same_out_rd].
Qed.

End Hdr.
