(* ReadSymbol / TryReadSymbol of the Reader's monad (Brotli/Impl.v m_read_symbol,
   m_try_read_symbol) against the trie walk of the RFC decoder (Flate/Spec.v sym_or_corrupt),
   for every decoder whose tables satisfy [tables_okG] for a valid, zero-minimal code set and
   every trie that holds the same code words; the single-code decoder (zero bits); a decision
   procedure for the equality of two bit-only request trees (used for the fixed codes, which
   the RFC model reads field by field). *)
From V Require Import Base.Prelude Base.Prog Base.ProgThms Flate.Spec Flate.Canon Bzip2.Common
  Prefix.ReaderImpl Prefix.ReaderSpec Prefix.ReaderThms
  Prefix.DecTable Prefix.DecTableSpec Prefix.DecTableThms Prefix.DecReadThms Prefix.DecCanonThms
  Brotli.BitReaderImpl Brotli.BitReaderSpec Brotli.BitReaderThms
  Brotli.PrefixDecoderImpl Brotli.PrefixDecoderThms Brotli.ReadSymbolThms
  Brotli.Impl Brotli.ImplBits.
From Coq Require Import ZifyBool ZifyN ZifyNat.

Local Open Scope N_scope.
Local Ltac Zify.zify_post_hook ::= idtac.

(* ---- bit strings -------------------------------------------------------------------------- *)
(* the code word of a table code, in reading order *)
Definition cword (c : pcode) : list bool := val_bits (N.to_nat (c_len c)) (c_val c).

Lemma val_bits_of_bits l : forall m, val_bits (length l + m) (bits_val l) = l ++ repeat false m.
Proof.
  induction l as [|b r IH]; intros m.
  - cbn [length bits_val Nat.add app]. apply val_bits_zero.
  - cbn [length Nat.add val_bits bits_val app].
    assert (Ho : N.odd (N.b2n b + 2 * bits_val r) = b).
    { rewrite N.odd_add_mul_2. destruct b; reflexivity. }
    assert (H : N.div2 (N.b2n b + 2 * bits_val r) = bits_val r).
    { rewrite N.div2_div. destruct b; cbn [N.b2n].
      - replace (1 + 2 * bits_val r) with (1 + bits_val r * 2) by lia.
        rewrite N.div_add by lia. reflexivity.
      - rewrite N.add_0_l, N.mul_comm, N.div_mul by lia. reflexivity. }
    rewrite Ho, H, IH. reflexivity.
Qed.

(* ---- the trie walk at the end of the input ---------------------------------------------------- *)
Lemma sym_tree_eof l : forall t x more s pos out len,
  tree_at t (l ++ x :: more) = HLeaf s ->
  run (sym_tree t) (mkAst l pos out len) = Fail EUEOF (mkAst [] (pos + N.of_nat (length l)) out len).
Proof.
  induction l as [|b l IH]; intros t x more s pos out len H.
  - cbn [app tree_at] in H. destruct t as [| |tl tr]; try discriminate.
    cbn [sym_tree run a_in length]. f_equal. f_equal. lia.
  - cbn [app tree_at] in H. destruct t as [| |tl tr]; try discriminate.
    cbn [sym_tree run a_in a_pos a_out a_len].
    rewrite (IH _ x more s) by exact H. f_equal. f_equal. cbn [length]. lia.
Qed.

(* ---- equality of bit-only request trees, decided to a depth ------------------------------------- *)
Fixpoint bit_equiv (d : nat) (p q : prog N) : bool :=
  match p, q with
  | Ret a, Ret b => a =? b
  | Throw e, Throw e' => err_eqb e e'
  | Bit k, Bit k' =>
    match d with
    | O => false
    | S d' => bit_equiv d' (k true) (k' true) && bit_equiv d' (k false) (k' false)
    end
  | _, _ => false
  end.

Lemma bit_equiv_sound d : forall p q, bit_equiv d p q = true -> forall s, run p s = run q s.
Proof.
  induction d as [|d IH]; intros p q H s.
  - destruct p, q; cbn [bit_equiv] in H; try discriminate.
    + apply N.eqb_eq in H. subst. reflexivity.
    + apply err_eqb_eq in H. subst. reflexivity.
  - destruct p, q; cbn [bit_equiv] in H; try discriminate.
    + apply N.eqb_eq in H. subst. reflexivity.
    + apply err_eqb_eq in H. subst. reflexivity.
    + apply andb_true_iff in H as [H1 H2]. cbn [run].
      destruct (a_in s) as [|b r]; [reflexivity|]. destruct b; [apply IH, H1 | apply IH, H2].
Qed.

Lemma min_bits_ge1 codes : (forall c, In c codes -> 1 <= c_len c) -> 1 <= min_bits codes.
Proof.
  unfold min_bits. assert (H27 : 1 <= valueBits) by (unfold valueBits; lia). revert H27.
  generalize valueBits. induction codes as [|c r IH]; intros a Ha H; cbn [fold_left]; [exact Ha|].
  apply IH.
  - destruct (c_len c <? a); [apply H; left; reflexivity | exact Ha].
  - intros c' Hc'. apply H. right. exact Hc'.
Qed.

(* ---- what the Reader needs of a decoder ---------------------------------------------------------- *)
Record dec_codes (d : dec) (codes : list pcode) : Prop := mkDC {
  dc_valid : dec_valid 15 codes;
  dc_tab : exists idx, tables_okG idx codes d;
  dc_min : d_minBits d = min_bits codes;
  dc_sym : forall c, In c codes -> c_sym c < 2 ^ 27
}.

(* the trie holds the code words of the table *)
Definition tree_codes (t : htree) (codes : list pcode) : Prop :=
  forall c, In c codes -> tree_at t (cword c) = HLeaf (c_sym c).

(* a decoder for one symbol, read with zero bits *)
Definition dec_single (d : dec) (sym : N) : Prop :=
  a_len (d_chunks d) = 1 /\ arr_get (d_chunks d) 0 = Some (mk_chunk sym 0) /\
  d_chunkMask d = 0 /\ d_chunkBits d = 0 /\ d_minBits d = 0 /\ sym < 2 ^ 27.

Section Sym.
Variable data : list byte.
Hypothesis Hd : forall b, In b data -> b < 256.
Variable bsz : nat.
Hypothesis Hbsz : (16 <= bsz)%nat.

Notation BInv' := (BInv data).
Notation window' := (window false data).
Notation sast' := (sast data).

Lemma matches_bits_at c R : c_len c <= 64 -> matches c (window' R) ->
  bits_at (bstream data) R (N.to_nat (c_len c)) = c_val c.
Proof.
  intros H64 Hm. unfold matches in Hm. rewrite <- Hm. symmetry. apply (window_low false data Hd R (c_len c) H64).
Qed.

(* the stream holds the whole code word *)
Lemma stream_word c R out : c_len c <= 64 -> matches c (window' R) ->
  (R + N.to_nat (c_len c) <= 8 * length data)%nat ->
  a_in (sast' R out) = cword c ++ a_in (sast' (R + N.to_nat (c_len c)) out).
Proof.
  intros H64 Hm Hle. pose proof (matches_bits_at c R H64 Hm) as Hb.
  unfold sast. cbn [a_in]. rewrite <- skipn_skipn'.
  rewrite <- (firstn_skipn (N.to_nat (c_len c)) (skipn R (sbits data))) at 1.
  f_equal. unfold cword. rewrite <- Hb. unfold bits_at.
  rewrite <- bytes_to_bits_bstream. fold (sbits data).
  set (l := firstn (N.to_nat (c_len c)) (skipn R (sbits data))).
  assert (Hl : length l = N.to_nat (c_len c)).
  { unfold l. rewrite firstn_length, skipn_length, sbits_length. lia. }
  rewrite <- Hl. symmetry. apply val_bits_bits_val.
Qed.

(* the stream ends inside the code word *)
Lemma stream_word_short c R out : c_len c <= 64 -> matches c (window' R) ->
  (R <= 8 * length data)%nat -> (8 * length data < R + N.to_nat (c_len c))%nat ->
  exists x more, cword c = a_in (sast' R out) ++ x :: more.
Proof.
  intros H64 Hm HR Hlt. pose proof (matches_bits_at c R H64 Hm) as Hb.
  unfold sast. cbn [a_in]. set (l := skipn R (sbits data)).
  assert (Hl : length l = (8 * length data - R)%nat).
  { unfold l. rewrite skipn_length, sbits_length. reflexivity. }
  assert (Hv : bits_val l = c_val c).
  { rewrite <- Hb. unfold bits_at. rewrite <- bytes_to_bits_bstream. fold (sbits data). fold l.
    rewrite firstn_all2 by lia. reflexivity. }
  unfold cword. rewrite <- Hv.
  replace (N.to_nat (c_len c)) with (length l + (N.to_nat (c_len c) - length l))%nat by lia.
  rewrite val_bits_of_bits.
  destruct (N.to_nat (c_len c) - length l)%nat as [|m] eqn:Em; [lia|].
  cbn [repeat]. exists false, (repeat false m). reflexivity.
Qed.

Section Codes.
Variable d : dec.
Variable codes : list pcode.
Hypothesis HC : dec_codes d codes.
Variable t : htree.
Hypothesis HT : tree_codes t codes.
(* zero-minimal: a request of ReadSymbol never exceeds the code word being read (all canonical
   codes; the fixed codes except WBITS) *)
Hypothesis HZM : zero_min codes.

Lemma codes_len_le c : In c codes -> 1 <= c_len c <= 15.
Proof. intros Hc. apply (wf_len _ _ (dv_wf _ _ (dc_valid _ _ HC))). exact Hc. Qed.

(* the trie walk of the specification at a stream position *)
Lemma sym_tree_stream R out c : In c codes -> matches c (window' R) -> (R <= 8 * length data)%nat ->
  ((R + N.to_nat (c_len c) <= 8 * length data)%nat ->
   run (sym_tree t) (sast' R out) = Done (Some (c_sym c)) (sast' (R + N.to_nat (c_len c)) out)) /\
  ((8 * length data < R + N.to_nat (c_len c))%nat ->
   exists s', run (sym_tree t) (sast' R out) = Fail EUEOF s' /\ a_out s' = out).
Proof.
  intros Hc Hm HR. pose proof (codes_len_le c Hc) as Hl. split.
  - intros Hle.
    pose proof (stream_word c R out ltac:(lia) Hm Hle) as Hw.
    unfold sast at 1. unfold sast in Hw at 1. cbn [a_in] in Hw. rewrite Hw.
    rewrite (sym_tree_at (cword c) t (c_sym c)) by (apply HT; exact Hc).
    f_equal. unfold sast. cbn [a_in]. f_equal. unfold cword. rewrite val_bits_length. lia.
  - intros Hlt.
    destruct (stream_word_short c R out ltac:(lia) Hm HR Hlt) as (x & more & Hw).
    pose proof (HT c Hc) as Hat. rewrite Hw in Hat.
    unfold sast at 1. unfold sast in Hat. cbn [a_in] in Hat.
    rewrite (sym_tree_eof _ t x more (c_sym c)) by exact Hat.
    eexists. split; [reflexivity|]. reflexivity.
Qed.

(* ReadSymbol of the model at a stream position *)
Lemma read_symbol_stream R p : BInv' R p ->
  exists c, In c codes /\ matches c (window' R) /\
    ((R + N.to_nat (c_len c) <= 8 * length data)%nat ->
     exists p', br_read_symbol bsz d p = (RSym (c_sym c), p') /\
                BInv' (R + N.to_nat (c_len c)) p') /\
    ((8 * length data < R + N.to_nat (c_len c))%nat ->
     exists p', br_read_symbol bsz d p = (RUEOF, p')).
Proof.
  intros HI. destruct HC as [HV [idx HTab] Hmin Hsym].
  destruct (dv_complete _ _ HV (window' R)) as (c & Hc & Hm).
  exists c. split; [exact Hc|]. split; [exact Hm|]. split.
  - intros Hle.
    destruct (br_read_symbol_zero_min data Hd bsz Hbsz 15 codes ltac:(lia) HV d idx HTab Hmin R p c
                HZM HI Hc Hm Hle) as (p' & E & HI' & _).
    exists p'. rewrite N.mod_small in E by (apply Hsym; exact Hc). split; assumption.
  - intros Hlt.
    apply (br_read_symbol_eof data Hd bsz Hbsz 15 codes ltac:(lia) HV d idx HTab Hmin R p HI).
    intros c' Hc' Hm'. rewrite (dv_unique _ _ HV (window' R) c' c Hc' Hc Hm' Hm). exact Hlt.
Qed.

(* TryReadSymbol: declines, or decodes the code word the stream continues with *)
Lemma try_read_symbol_stream R p : BInv' R p ->
  try_read_symbol d p = (Some None, p) \/
  exists c p', In c codes /\ matches c (window' R) /\
    try_read_symbol d p = (Some (Some (c_sym c)), p') /\
    (R + N.to_nat (c_len c) <= 8 * length data)%nat /\ BInv' (R + N.to_nat (c_len c)) p'.
Proof.
  intros HI. destruct HC as [HV [idx HTab] Hmin Hsym].
  unfold try_read_symbol.
  destruct ((p_numBits p <? d_minBits d) || (a_len (d_chunks d) =? 0)); [left; reflexivity|].
  destruct (lookup_stateG data Hd 15 codes ltac:(lia) HV d idx HTab R p (BInv_BPI data R p HI))
    as (c' & Hc' & Hm' & El & Hreal).
  unfold dec_lookup in El.
  destruct (arr_get (d_chunks d) (N.land (w32 (p_bufBits p)) (d_chunkMask d))) as [chunk|];
    [|discriminate].
  destruct ((p_numBits p <? N.land chunk countMask) || (d_chunkBits d <? N.land chunk countMask)) eqn:E;
    [left; reflexivity|].
  apply orb_false_iff in E as [E1 E2]. rewrite E2 in El.
  assert (Es : N.shiftr chunk countBits = c_sym c' mod 2 ^ 27) by congruence.
  assert (Ell : N.land chunk countMask = c_len c') by congruence.
  right. apply N.ltb_ge in E1.
  assert (HIS : BInvS data (Z.of_N (c_len c')) R p).
  { destruct HI as (H1 & H2 & H3). split; [apply Inv_InvS; [lia | exact H1] | split; assumption]. }
  destruct (btake_bits_ok data Hd R p (c_len c') HIS ltac:(lia)) as (_ & HI2 & _ & _ & Hle).
  exists c', (snd (take_bits p (c_len c'))).
  split; [exact Hc'|]. split; [apply Hreal; lia|].
  rewrite Es, Ell. rewrite N.mod_small by (apply Hsym; exact Hc').
  split; [reflexivity|]. split; [exact Hle | exact HI2].
Qed.

(* THE LEMMAS used by the refinement proofs: one symbol, Reader against RFC model *)
Lemma m_read_symbol_ok st R out : BInv' R (zr_rd st) ->
  match run (sym_or_corrupt t) (sast' R out) with
  | Done v s' =>
    exists p' n, m_read_symbol bsz d st = SOk v (set_rd st p') /\
                 s' = sast' (R + n) out /\ BInv' (R + n) p' /\
                 (exists c, In c codes /\ v = c_sym c /\ n = N.to_nat (c_len c))
  | Fail e s' =>
    e = EUEOF /\ a_out s' = out /\ exists p', m_read_symbol bsz d st = SErr EUEOF (set_rd st p')
  end.
Proof.
  intros HI. pose proof (BInv_pos_le data bsz Hbsz R _ HI) as HR.
  destruct (read_symbol_stream R (zr_rd st) HI) as (c & Hc & Hm & Hok & Heof).
  destruct (sym_tree_stream R out c Hc Hm HR) as (Sok & Seof).
  unfold sym_or_corrupt. rewrite run_bind. unfold m_read_symbol.
  destruct (Nat.le_gt_cases (R + N.to_nat (c_len c)) (8 * length data)) as [Hle|Hlt].
  - rewrite (Sok Hle). cbn [run]. destruct (Hok Hle) as (p' & E & HI'). rewrite E.
    exists p', (N.to_nat (c_len c)). split; [reflexivity|]. split; [reflexivity|].
    split; [exact HI'|]. exists c. split; [exact Hc|]. split; reflexivity.
  - destruct (Seof Hlt) as (s' & Es & Ho). rewrite Es.
    destruct (Heof Hlt) as (p' & E). rewrite E.
    split; [reflexivity|]. split; [exact Ho|]. exists p'. reflexivity.
Qed.

Lemma m_try_read_symbol_ok st R out : BInv' R (zr_rd st) ->
  match run (sym_or_corrupt t) (sast' R out) with
  | Done v s' =>
    exists p' n, m_try_read_symbol bsz d st = SOk v (set_rd st p') /\
                 s' = sast' (R + n) out /\ BInv' (R + n) p' /\
                 (exists c, In c codes /\ v = c_sym c /\ n = N.to_nat (c_len c))
  | Fail e s' =>
    e = EUEOF /\ a_out s' = out /\ exists p', m_try_read_symbol bsz d st = SErr EUEOF (set_rd st p')
  end.
Proof.
  intros HI. unfold m_try_read_symbol.
  destruct (try_read_symbol_stream R (zr_rd st) HI) as [E|(c & p' & Hc & Hm & E & Hle & HI')].
  - rewrite E. apply m_read_symbol_ok. exact HI.
  - rewrite E. pose proof (BInv_pos_le data bsz Hbsz R _ HI) as HR.
    destruct (sym_tree_stream R out c Hc Hm HR) as (Sok & _).
    unfold sym_or_corrupt. rewrite run_bind, (Sok Hle). cbn [run].
    exists p', (N.to_nat (c_len c)). split; [reflexivity|]. split; [reflexivity|].
    split; [exact HI'|]. exists c. split; [exact Hc|]. split; reflexivity.
Qed.

End Codes.

(* ---- a code of at most 8 bits read at a byte boundary (WBITS, which is not zero-minimal) ---------- *)
Section Aligned.
Variable d : dec.
Variable codes : list pcode.
Hypothesis HC : dec_codes d codes.
Variable t : htree.
Hypothesis HT : tree_codes t codes.
Hypothesis HM8 : max_bits codes <= 8.

Lemma read_symbol_aligned R p : BInv' R p -> (R mod 8 = 0)%nat ->
  exists c, In c codes /\ matches c (window' R) /\
    ((R + 8 <= 8 * length data)%nat ->
     exists p', br_read_symbol bsz d p = (RSym (c_sym c), p') /\
                BInv' (R + N.to_nat (c_len c)) p') /\
    ((8 * length data < R + 8)%nat ->
     exists p', br_read_symbol bsz d p = (RUEOF, p')).
Proof.
  intros HI Hal. destruct HC as [HV [idx HTab] Hmin Hsym].
  destruct (dv_complete _ _ HV (window' R)) as (c & Hc & Hm).
  pose proof (BInv_pos_le data bsz Hbsz R _ HI) as HR.
  assert (Hlen : forall c', In c' codes -> 1 <= c_len c' <= 8).
  { intros c' Hc'. pose proof (wf_len _ _ (dv_wf _ _ HV) c' Hc'). pose proof (max_bits_ge codes c' Hc'). lia. }
  exists c. split; [exact Hc|]. split; [exact Hm|]. split.
  - intros Hle. destruct (p_buffered p) eqn:Hb.
    + destruct (br_read_symbol_correct data Hd bsz Hbsz 15 codes ltac:(lia) HV d idx HTab Hmin R p c
                  HI Hc Hm ltac:(lia)) as (p' & E & _ & _ & _ & HI').
      exists p'. rewrite N.mod_small in E by (apply Hsym; exact Hc).
      split; [exact E | apply HI'; exact Hb].
    + unfold br_read_symbol. rewrite (chunks_nonemptyG codes d idx HTab).
      change 34%nat with (S 33). cbn [br_read_symbol_loop].
      pose proof (min_bits_le codes c Hc) as Hreq. rewrite <- Hmin in Hreq.
      assert (Hp8 : p_numBits p < 0 + 8).
      { destruct HI as ((_ & H7 & _) & _). unfold effd in H7. rewrite Hb in H7. lia. }
      pose proof (bfeed_ok data Hd bsz Hbsz R p (d_minBits d) (BInv_BPI data R p HI) ltac:(pose proof (Hlen c Hc); lia)
                    ltac:(intros _; lia)) as Hf.
      destruct (feed_bits bsz p (d_minBits d)) as [[| | |] p1]; try contradiction.
      2:{ pose proof (Hlen c Hc). lia. }
      destruct Hf as (HP1 & Hn1 & Hb1 & Hlt1). rewrite Hb in Hb1. specialize (Hlt1 Hb).
      (* the ReadByte path holds whole bytes: at a byte boundary exactly one *)
      assert (H8 : p_numBits p1 = 8).
      { pose proof (PI_bits_read false data R p1 (proj1 HP1)) as Hbr. unfold bits_read in Hbr.
        rewrite Hb1 in Hbr.
        assert (1 <= d_minBits d).
        { rewrite Hmin. apply min_bits_ge1. intros c0 Hc0. pose proof (Hlen c0 Hc0). lia. }
        pose proof (Hlen c Hc). lia. }
      destruct (lookup_stateG data Hd 15 codes ltac:(lia) HV d idx HTab R p1 HP1)
        as (c' & Hc' & Hm' & El & Hreal).
      rewrite El. pose proof (Hlen c' Hc') as Hl'.
      replace (c_len c' <=? p_numBits p1) with true by (symmetry; apply N.leb_le; lia).
      pose proof (dv_unique _ _ HV (window' R) c' c Hc' Hc (Hreal ltac:(lia)) Hm) as ->.
      destruct (btake_ok data Hd R p1 (c_len c) HP1 ltac:(lia)) as (T1 & T2 & T3).
      exists (snd (take_bits p1 (c_len c))). rewrite N.mod_small by (apply Hsym; exact Hc).
      split; [reflexivity|]. apply BPI_BInv; [exact T1|]. intros _. rewrite T3. lia.
  - intros Hlt.
    apply (br_read_symbol_eof data Hd bsz Hbsz 15 codes ltac:(lia) HV d idx HTab Hmin R p HI).
    intros c' Hc' _. pose proof (Hlen c' Hc'). lia.
Qed.

Lemma m_read_symbol_aligned_ok st R out : BInv' R (zr_rd st) -> (R mod 8 = 0)%nat ->
  match run (sym_or_corrupt t) (sast' R out) with
  | Done v s' =>
    exists p' n, m_read_symbol bsz d st = SOk v (set_rd st p') /\
                 s' = sast' (R + n) out /\ BInv' (R + n) p' /\
                 (exists c, In c codes /\ v = c_sym c /\ n = N.to_nat (c_len c))
  | Fail e s' =>
    e = EUEOF /\ a_out s' = out /\ exists p', m_read_symbol bsz d st = SErr EUEOF (set_rd st p')
  end.
Proof.
  intros HI Hal. pose proof (BInv_pos_le data bsz Hbsz R _ HI) as HR.
  destruct (read_symbol_aligned R (zr_rd st) HI Hal) as (c & Hc & Hm & Hok & Heof).
  assert (Hlen : 1 <= c_len c <= 8).
  { pose proof (wf_len _ _ (dv_wf _ _ (dc_valid _ _ HC)) c Hc). pose proof (max_bits_ge codes c Hc). lia. }
  destruct (sym_tree_stream d codes HC t HT R out c Hc Hm HR) as (Sok & Seof).
  unfold sym_or_corrupt. rewrite run_bind. unfold m_read_symbol.
  destruct (Nat.le_gt_cases (R + 8) (8 * length data)) as [Hle|Hlt].
  - rewrite (Sok ltac:(lia)). cbn [run]. destruct (Hok Hle) as (p' & E & HI'). rewrite E.
    exists p', (N.to_nat (c_len c)). split; [reflexivity|]. split; [reflexivity|].
    split; [exact HI'|]. exists c. split; [exact Hc|]. split; reflexivity.
  - destruct (Seof ltac:(lia)) as (s' & Es & Ho). rewrite Es.
    destruct (Heof Hlt) as (p' & E). rewrite E.
    split; [reflexivity|]. split; [exact Ho|]. exists p'. reflexivity.
Qed.

End Aligned.

(* ---- the single-code decoder: zero bits ------------------------------------------------------------ *)
Lemma shiftr_mk_chunk sym : sym < 2 ^ 27 -> N.shiftr (mk_chunk sym 0) countBits = sym.
Proof.
  intros H. unfold mk_chunk, countBits, w32. rewrite N.lor_0_r.
  rewrite N.mod_small.
  - rewrite N.shiftr_shiftl_l by lia. rewrite N.sub_diag. apply N.shiftl_0_r.
  - rewrite N.shiftl_mul_pow2. change (2 ^ 32) with (2 ^ 27 * 2 ^ 5). nia.
Qed.

Lemma land_mk_chunk sym : sym < 2 ^ 27 -> N.land (mk_chunk sym 0) countMask = 0.
Proof.
  intros H. unfold mk_chunk, countMask, countBits, w32. rewrite N.lor_0_r.
  rewrite N.mod_small by (rewrite N.shiftl_mul_pow2; change (2 ^ 32) with (2 ^ 27 * 2 ^ 5); nia).
  change 31 with (N.ones 5). rewrite N.land_ones, N.shiftl_mul_pow2.
  apply N.mod_mul. lia.
Qed.

Lemma read_symbol_single d sym R p : dec_single d sym -> BInv' R p ->
  exists p', br_read_symbol bsz d p = (RSym sym, p') /\ BInv' R p'.
Proof.
  intros (H1 & H2 & H3 & H4 & H5 & H6) HI. unfold br_read_symbol. rewrite H1. cbn [N.eqb Pos.eqb].
  change 34%nat with (S 33). cbn [br_read_symbol_loop]. rewrite H5.
  pose proof (feed_bits_ok data Hd bsz Hbsz R p 0 HI ltac:(lia)) as Hf.
  destruct (feed_bits bsz p 0) as [[| | |] p1]; try contradiction.
  - destruct Hf as (HIS & _ & _ & _).
    unfold dec_lookup. rewrite H3, N.land_0_r, H2, H4.
    rewrite (land_mk_chunk sym H6). cbn [N.ltb N.compare]. rewrite (shiftr_mk_chunk sym H6).
    replace (0 <=? p_numBits p1) with true by (symmetry; apply N.leb_le; lia).
    destruct (btake_bits_ok data Hd R p1 0 HIS ltac:(lia)) as (_ & HI2 & _).
    exists (snd (take_bits p1 0)). split; [reflexivity|].
    replace (R + N.to_nat 0)%nat with R in HI2 by lia. exact HI2.
  - pose proof (BInv_pos_le data bsz Hbsz R _ HI). lia.
Qed.

Lemma try_read_symbol_single d sym R p : dec_single d sym -> BInv' R p ->
  exists p', try_read_symbol d p = (Some (Some sym), p') /\ BInv' R p'.
Proof.
  intros (H1 & H2 & H3 & H4 & H5 & H6) HI. unfold try_read_symbol.
  rewrite H5, H1. replace (p_numBits p <? 0) with false by (symmetry; apply N.ltb_ge; lia).
  cbn [orb N.eqb Pos.eqb]. rewrite H3, N.land_0_r, H2, H4, (land_mk_chunk sym H6).
  replace (p_numBits p <? 0) with false by (symmetry; apply N.ltb_ge; lia).
  cbn [orb N.ltb N.compare]. rewrite (shiftr_mk_chunk sym H6).
  assert (HIS : BInvS data (Z.of_N 0) R p).
  { destruct HI as (G1 & G2 & G3). split; [apply Inv_InvS; [lia | exact G1] | split; assumption]. }
  destruct (btake_bits_ok data Hd R p 0 HIS ltac:(lia)) as (_ & HI2 & _).
  exists (snd (take_bits p 0)). split; [reflexivity|].
  replace (R + N.to_nat 0)%nat with R in HI2 by lia. exact HI2.
Qed.

Lemma m_read_symbol_single st R d sym : dec_single d sym -> BInv' R (zr_rd st) ->
  exists p', m_read_symbol bsz d st = SOk sym (set_rd st p') /\ BInv' R p'.
Proof.
  intros Hs HI. unfold m_read_symbol.
  destruct (read_symbol_single d sym R (zr_rd st) Hs HI) as (p' & E & HI').
  rewrite E. exists p'. split; [reflexivity | exact HI'].
Qed.

Lemma m_try_read_symbol_single st R d sym : dec_single d sym -> BInv' R (zr_rd st) ->
  exists p', m_try_read_symbol bsz d st = SOk sym (set_rd st p') /\ BInv' R p'.
Proof.
  intros Hs HI. unfold m_try_read_symbol.
  destruct (try_read_symbol_single d sym R (zr_rd st) Hs HI) as (p' & E & HI').
  rewrite E. exists p'. split; [reflexivity | exact HI'].
Qed.

End Sym.
