(* The window operations of the Reader's monad (Brotli/Impl.v m_write, m_read_flush, commit_pend,
   WriteCopy, LastBytes) against the LZ77 specification of the window (Window/DictSpec.v,
   Window/DictBrSpec.v), through the refinement lemmas of Window/DictBrThms.v; the invariant
   [Wok] ties the window and the delivery state (toRead, OutputOffset) of the Reader to the
   output of the RFC decoder so far. *)
From V Require Import Base.Prelude Brotli.Impl.
From V Require Import Window.Dict Window.DictSpec Window.DictThms Window.DictBr Window.DictBrSpec
  Window.DictBrThms.
From Coq Require Import ZifyBool ZifyN ZifyNat.

Local Open Scope Z_scope.

Notation WInv := Window.DictBrThms.BInv.

(* [out]: the output of the RFC decoder so far, NEWEST byte first (as in the abstract machine
   of Base/Prog.v). Everything ReadFlush has handed out is delivered or waits in toRead. *)
Record Wok (st : rst) (out : list byte) : Prop := mkWok {
  wk_pend : zr_pend st = [];
  wk_inv : WInv (zr_dict st)
                (mkWsp (d_size (zr_dict st)) (rev out) (zr_outOff st + zlen (zr_toRead st)));
  wk_toRead : zr_toRead st = zfirstn (zlen (zr_toRead st)) (zskipn (zr_outOff st) (rev out));
  wk_off : 0 <= zr_outOff st
}.

Lemma zlen_rev {A} (l : list A) : zlen (rev l) = zlen l.
Proof. unfold zlen. rewrite rev_length. reflexivity. Qed.

(* ---- n := copy(WriteSlice(), bs); WriteMark(n) --------------------------------------------------- *)
Lemma m_write_ok st out bs : Wok st out -> zlen bs <= avail_size (zr_dict st) ->
  exists d', m_write bs st = SOk tt (set_dict st d' (zr_pend st)) /\
             Wok (set_dict st d' (zr_pend st)) (rev bs ++ out) /\
             d_len d' = d_len (zr_dict st) /\ d_size d' = d_size (zr_dict st) /\
             avail_size d' = avail_size (zr_dict st) - zlen bs.
Proof.
  intros [Hp HI Ht Ho] Hav.
  destruct (br_step_ok (zr_dict st) _ (BWriteRaw bs) HI Hav) as (ob & d' & s' & Es & Esp & HI' & _).
  cbn [br_step dd_step] in Es. apply dlift_ok in Es. destruct Es as ((n & d1) & Ew & Eob).
  inversion Eob; subst ob d'. cbn [bsp_step to_dop wsp_step] in Esp.
  destruct (n =? zlen bs) eqn:En; [|discriminate]. inversion Esp; subst s'. clear Esp.
  cbn [s_size s_out s_flushed fst snd] in HI'.
  destruct HI as (I0 & _ & _).
  destruct (write_raw_ok _ _ bs I0 Hav) as (d2 & Ew2 & _ & Hl & Hs & _).
  rewrite Ew in Ew2. inversion Ew2; subst d2.
  exists d1. unfold m_write. rewrite Ew.
  split; [reflexivity|]. split; [|split; [exact Hl | split; [exact Hs|]]].
  - constructor; cbn [zr_pend zr_dict zr_outOff zr_toRead set_dict].
    + exact Hp.
    + rewrite Hs, rev_app_distr, rev_involutive. exact HI'.
    + rewrite rev_app_distr, rev_involutive.
      rewrite Ht at 1.
      assert (Hle : zr_outOff st + zlen (zr_toRead st) <= zlen (rev out)).
      { destruct I0 as [_ _ Ird Iwr _ _ _ _ _ _ _ Ifl]. cbn [s_flushed s_out] in Ifl. lia. }
      unfold zfirstn, zskipn. pose proof (zlen_nonneg (zr_toRead st)) as Hn.
      rewrite skipn_app. rewrite firstn_app.
      replace (Z.to_nat (zlen (zr_toRead st)) - length (skipn (Z.to_nat (zr_outOff st)) (rev out)))%nat
        with 0%nat by (rewrite skipn_length; unfold zlen in *; lia).
      cbn [firstn]. rewrite app_nil_r. reflexivity.
    + exact Ho.
  - unfold avail_size. unfold write_raw in Ew.
    destruct (slice_ok _ _ _); [|discriminate]. inversion Ew; subst. cbn [d_len d_wr].
    unfold wrap_int. pose proof (i_wr _ _ I0). pose proof (i_rd _ _ I0). pose proof (i_len _ _ I0).
    pose proof (i_size _ _ I0) as [? ?]. pose proof (zlen_nonneg bs). unfold avail_size in Hav. lia.
Qed.

(* ---- br.toRead = br.dict.ReadFlush(), when everything handed out before has been delivered -------- *)
Lemma m_read_flush_ok st out : Wok st out -> zr_toRead st = [] ->
  exists d' bs, m_read_flush st = SOk tt (set_toRead (set_dict st d' (zr_pend st)) bs) /\
                Wok (set_toRead (set_dict st d' (zr_pend st)) bs) out /\
                bs = zskipn (zr_outOff st) (rev out) /\
                d_size d' = d_size (zr_dict st) /\ 0 < avail_size d'.
Proof.
  intros [Hp HI Ht Ho] Hnil. rewrite Hnil in HI. change (zlen []) with 0 in HI. rewrite Z.add_0_r in HI.
  destruct HI as (I0 & ZT & H2).
  destruct (read_flush_ok _ _ I0) as (d' & Ef & I1 & Hs & Hl & Hav & _).
  cbn [s_flushed s_out] in Ef.
  exists d', (zskipn (zr_outOff st) (rev out)). unfold m_read_flush. rewrite Ef.
  split; [reflexivity|].
  assert (Hle : zr_outOff st <= zlen (rev out)).
  { destruct I0 as [_ _ Ird Iwr _ _ _ _ _ _ _ Ifl]. cbn [s_flushed s_out] in Ifl. lia. }
  split; [|split; [reflexivity | split; [exact Hs | apply Hav; lia]]].
  constructor; cbn [zr_pend zr_dict zr_outOff zr_toRead set_dict set_toRead set_io].
  - exact Hp.
  - assert (Hz : zr_outOff st + zlen (zskipn (zr_outOff st) (rev out)) = zlen (rev out)).
    { unfold zskipn, zlen. rewrite skipn_length. unfold zlen in Hle. lia. }
    rewrite Hz, Hs. split; [|split].
    + unfold set_flushed in I1. cbn [s_size s_out] in I1. exact I1.
    + apply (zt_read_flush _ _ _ _ I0 ZT Ef).
    + lia.
  - unfold zfirstn. rewrite firstn_all2; [reflexivity|]. unfold zlen. lia.
  - exact Ho.
Qed.

(* ---- HistSize ------------------------------------------------------------------------------------------ *)
Lemma hist_size_ok st out : Wok st out ->
  hist_size (zr_dict st) = Z.min (d_size (zr_dict st)) (zlen out).
Proof.
  intros [_ (I0 & _) _ _]. rewrite (hist_size_spec _ _ I0). unfold wsp_hist. cbn [s_size s_out].
  rewrite zlen_rev. reflexivity.
Qed.
