(* Implementation-level model of brotli's OWN prefix decoder (brotli/prefix_decoder.go,
   prefixDecoder.Init with both assignCodes modes) and of the table walk of
   bitReader.ReadSymbol / TryReadSymbol (brotli/bit_reader.go).

   The table layout is that of internal/prefix up to names (prefixCountBits = countBits = 5,
   prefixMaxChunkBits = maxChunkBits = 9), so the types [pcode], [arr], [dec] and the
   functions [mk_chunk], [mark_step], [fill_code], [dec_lookup], [try_read_symbol] of
   Prefix/DecTable.v are re-used. What differs:
   * Init VALIDATES: symbols strictly increasing, lengths in 1..15 (a length above
     maxPrefixBits = 15 indexes bitCnts out of range: a run-time panic, before the
     "maxBits >= 32" test can see it), last symbol below 2^27, and the lengths complete
     (the next-code recurrence ends at 2^maxBits); failures are errors.Panic(errCorrupted):
     [BCorrupt].
   * a single code is accepted whatever its length, and decodes with ZERO bits.
   * assignCodes = true: Val is assigned here (canonical, bit-reversed), and the link
     tables are numbered by the canonical order of their 9-bit prefixes (prefix code
     baseCode + i gets table i) instead of by first appearance; the chunks array is NOT
     zeroed first.
   * every link table is an allocation of its own: links[i] recycles the storage of the
     i-th link table of the previous Init. The model keeps the flat view of [dec]
     (entry j of table i at i*numLinks + j); the prior contents are a function of (i, j).

   Recycled storage as in Prefix/DecTable.v: [oldC i] is what chunks[i] held before,
   [oldL i j] what links[i][j] held (zeros for fresh storage). *)
From V Require Import Base.Prelude Bzip2.Common Prefix.ReaderImpl Prefix.DecTable Brotli.BitReaderImpl.

Local Open Scope N_scope.

Definition maxPrefixBits : N := 15.

Inductive bres (A : Type) : Type :=
| BOk (a : A)
| BCorrupt               (* errors.Panic(errCorrupted) *)
| BCrash.                (* a Go run-time panic (index / slice bounds out of range) *)
Arguments BOk {A} a.
Arguments BCorrupt {A}.
Arguments BCrash {A}.

(* ---- the statistics pass ------------------------------------------------------------------ *)
(* bitCnts[c.len]++ over an array of maxPrefixBits+1 counters: None = index out of range *)
Definition count_step (m : nmap N) (c : pcode) : option (nmap N) :=
  if c_len c <=? maxPrefixBits then
    Some (nm_set m (c_len c) (match nm_get m (c_len c) with Some x => x + 1 | None => 1 end))
  else None.

Definition cnt_get (m : nmap N) (i : N) : N := match nm_get m i with Some x => x | None => 0 end.

(* the loop over codes[1:], in the order of the Go code: first the symbol test
   (int(c.sym) <= symLast: errCorrupted), then min / max, then bitCnts[c.len]++ (which may
   be out of range). State: symLast, minBits, maxBits, bitCnts. *)
Fixpoint stats (cs : list pcode) (symLast mn mx : N) (cnts : nmap N) : bres (N * N * N * nmap N) :=
  match cs with
  | [] => BOk (symLast, mn, mx, cnts)
  | c :: r =>
    if c_sym c <=? symLast then BCorrupt else
    match count_step cnts c with
    | None => BCrash
    | Some cnts' =>
      stats r (c_sym c) (if c_len c <? mn then c_len c else mn)
            (if mx <? c_len c then c_len c else mx) cnts'
    end
  end.

(* for i := minBits; i <= maxBits; i++ { code <<= 1; nextCodes[i] = code; code += bitCnts[i] } *)
Definition next_step (cnts : nmap N) (st : N * nmap N) (i : N) : N * nmap N :=
  let '(code, nx) := st in
  let code1 := 2 * code in
  (code1 + cnt_get cnts i, nm_set nx i code1).

Definition next_codes (cnts : nmap N) (minBits maxBits : N) : N * nmap N :=
  fold_left (next_step cnts) (map (fun k => minBits + k) (iota (maxBits + 1 - minBits))) (0, nm_empty).

(* reverseBits(v, n) = reverseUint32(v << (32 - n)) for 1 <= n <= 32: the low n bits of v,
   reversed *)
Definition reverse_bits32 (v n : N) : N :=
  bits_val (fast_rev (val_bits (N.to_nat n) v)).

(* the assignment of canonical values: codes[i].val = reverseBits(nextCodes[len], len);
   nextCodes[len]++ *)
Definition assign_step (st : nmap N * list pcode) (c : pcode) : nmap N * list pcode :=
  let '(nx, acc) := st in
  let v := cnt_get nx (c_len c) in
  (nm_set nx (c_len c) (v + 1), (c_sym c, c_len c, reverse_bits32 (w32 v) (c_len c)) :: acc).

Definition assign_vals (nx : nmap N) (codes : list pcode) : list pcode :=
  fast_rev (snd (fold_left assign_step codes (nx, []))).

(* assignCodes: link table i belongs to the chunk whose reversed index is baseCode + i *)
Definition mark_range_step (cb baseCode : N) (ch : option arr) (i : N) : option arr :=
  match ch with
  | None => None
  | Some ch =>
    arr_set ch (reverse_bits32 (w32 (w32 baseCode + i)) cb)
               (N.lor (w32 (N.shiftl i countBits)) (cb + 1))
  end.

(* flat view of the separately allocated link tables *)
Definition flat_old (oldL : N -> N -> N) (numLinks : N) : N -> N :=
  fun x => oldL (x / numLinks) (x mod numLinks).

(* the second half of Init (allocation, marking, filling), after the checks. [nx] is
   nextCodes, [codes'] the codes with their final values *)
Definition br_build (oldC : N -> N) (oldL : N -> N -> N) (codes codes' : list pcode)
                    (assign : bool) (minBits maxBits : N) (nx : nmap N) : bres (dec * list pcode) :=
  let cb := if maxChunkBits <? maxBits then maxChunkBits else maxBits in
  let numChunks := 2 ^ cb in
  let ch0 := arr_alloc oldC numChunks in
  let mask := w32 (numChunks - 1) in
  let nsyms := w32 (N.of_nat (length codes)) in
  if cb <? maxBits then
    let numLinks := 2 ^ (maxBits - cb) in
    let linkMask := w32 (numLinks - 1) in
    let marked : option (arr * N) :=
      if assign then
        let baseCode := N.shiftr (cnt_get nx (cb + 1)) 1 in
        if numChunks <? baseCode then None      (* extendSliceUints32s(_, negative) *)
        else
          let li := numChunks - baseCode in
          match fold_left (mark_range_step cb baseCode) (iota li) (Some ch0) with
          | None => None
          | Some ch1 => Some (ch1, li)
          end
      else ofold (mark_step cb mask) codes (arr_zero ch0, 0) in
    match marked with
    | None => BCrash
    | Some (ch1, li) =>
      let fl0 := arr_alloc (flat_old oldL numLinks) (numLinks * li) in
      match ofold (fill_code cb mask li numLinks) codes' (ch1, fl0) with
      | None => BCrash
      | Some (ch2, fl2) =>
        BOk (mkDec ch2 fl2 li numLinks mask linkMask cb minBits nsyms, codes')
      end
    end
  else
    match ofold (fill_code cb mask 0 0) codes' (ch0, empty_arr) with
    | None => BCrash
    | Some (ch2, fl2) => BOk (mkDec ch2 fl2 0 0 mask 0 cb minBits nsyms, codes')
    end.

(* prefixDecoder.Init, two codes or more. Result: the tables and the codes as they are
   afterwards (values assigned when assignCodes). In Go the assignment of the values is
   interleaved with the filling loop (code by code); the two do not interact (the values
   depend on nextCodes only), so the model assigns all values first. *)
Definition br_dec_init_multi (oldC : N -> N) (oldL : N -> N -> N) (codes : list pcode)
                             (assign : bool) : bres (dec * list pcode) :=
  match codes with
  | [] => BCrash
  | c0 :: rest =>
    match count_step nm_empty c0 with
    | None => BCrash                               (* bitCnts[c0.len]: index out of range *)
    | Some cnts0 =>
    match stats rest (c_sym c0) (c_len c0) (c_len c0) cnts0 with
    | BCrash => BCrash
    | BCorrupt => BCorrupt
    | BOk (symLast, minBits, maxBits, cnts) =>
      if (32 <=? maxBits) || (minBits =? 0) then BCorrupt else
      if 2 ^ valueBits <=? symLast then BCorrupt else
      let '(code, nx) := next_codes cnts minBits maxBits in
      if negb (code =? 2 ^ maxBits) then BCorrupt else
      br_build oldC oldL codes (if assign then assign_vals nx codes else codes) assign
               minBits maxBits nx
    end
    end
  end.

(* prefixDecoder.Init *)
Definition br_dec_init (oldC : N -> N) (oldL : N -> N -> N) (codes : list pcode)
                       (assign : bool) : bres (dec * list pcode) :=
  match codes with
  | [] => BOk (mkDec empty_arr empty_arr 0 0 0 0 0 0 0, [])
  | [c] =>
    BOk (mkDec (mkArr 1 (nm_set nm_empty 0 (mk_chunk (c_sym c) 0)) oldC) empty_arr 0 0 0 0 0 0 1,
         [c])
  | _ => br_dec_init_multi oldC oldL codes assign
  end.

(* ---- ReadSymbol / TryReadSymbol over the bit-reader model ------------------------------------- *)
(* ReadSymbol: the loop  FeedBits(nb); look up; if nb <= numBits take else retry with the
   new nb *)
Fixpoint br_read_symbol_loop (fuel : nat) (bsz : nat) (d : dec) (p : prd) (nb : N) : rsres * prd :=
  match fuel with
  | O => (RFuel, p)
  | S f =>
    let '(r, p1) := feed_bits bsz p nb in
    match r with
    | FdEof => (RUEOF, p1)
    | FdCrash => (RPanic, p1)
    | FdFuel => (RFuel, p1)
    | FdOk =>
      match dec_lookup d (p_bufBits p1) with
      | None => (RPanic, p1)
      | Some (sym, nb') =>
        if nb' <=? p_numBits p1 then (RSym sym, snd (take_bits p1 nb'))
        else br_read_symbol_loop f bsz d p1 nb'
      end
    end
  end.

(* errors.Panic(errInvalid) for an empty tree is [RInvalid] *)
Definition br_read_symbol (bsz : nat) (d : dec) (p : prd) : rsres * prd :=
  if a_len (d_chunks d) =? 0 then (RInvalid, p)
  else br_read_symbol_loop 34 bsz d p (d_minBits d).

(* TryReadSymbol is literally that of internal/prefix: [try_read_symbol] *)

Inductive bd_obs :=
| BDSym (r : rsres) (p : prd)
| BDTry (r : option (option N)) (p : prd)
| BDBits (r : feedres) (v : N) (p : prd).

Definition bd_step (bsz : nat) (d : dec) (p : prd) (o : dt_op) : bd_obs * prd :=
  match o with
  | DSym => let '(r, p') := br_read_symbol bsz d p in (BDSym r p', p')
  | DTry => let '(r, p') := try_read_symbol d p in (BDTry r p', p')
  | DBits nb => let '((r, v), p') := bread_bits bsz p nb in (BDBits r v p', p')
  end.

Definition bd_obs_stops (o : bd_obs) : bool :=
  match o with
  | BDSym (RSym _) _ => false
  | BDSym _ _ => true
  | BDTry None _ => true
  | BDTry _ _ => false
  | BDBits FdOk _ _ => false
  | BDBits _ _ _ => true
  end.

Fixpoint bd_run (bsz : nat) (d : dec) (p : prd) (ops : list dt_op) : list bd_obs :=
  match ops with
  | [] => []
  | o :: r => let '(ob, p') := bd_step bsz d p o in
              if bd_obs_stops ob then [ob] else ob :: bd_run bsz d p' r
  end.
