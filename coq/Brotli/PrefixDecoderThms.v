(* Theorems about the implementation-level model of brotli's prefixDecoder
   (Brotli/PrefixDecoderImpl.v).

   (1) What Init validates and assigns, in terms of the model of GeneratePrefixes
       (Prefix/Code.v [gen_prefixes], characterised in Prefix/GenPrefixesThms.v): for lengths
       of at most 15 bits and symbols below 2^27, Init (either mode) fails with errCorrupted
       exactly when gen_prefixes rejects, and with assignCodes = true the values it assigns
       are gen_prefixes' output: the bit-reversed canonical codes of RFC 1951 3.2.2
       (Flate/Spec.v [canonical]).
   (2) The tables: for every valid code set (Prefix/DecTableSpec.v [dec_valid]) with sorted
       symbols, the lookup returns the (symbol, length) of the one code the buffer starts with,
       whatever the recycled arrays held; with assignCodes = false the tables ARE those of
       internal/prefix (transfer to Prefix/DecTableThms.v), with assignCodes = true the link
       tables are numbered differently and the proof is redone on a generalisation of the
       same lemmas. *)
From Coq Require Import Sorted.
From V Require Import Base.Prelude Base.Prog Flate.Spec Flate.Canon Bzip2.Common Prefix.Code
  Bzip2.MtfRle2 Prefix.GenPrefixesThms Prefix.ReaderImpl Prefix.DecTable Prefix.DecTableSpec Prefix.DecTableThms
  Prefix.DecCanonThms Brotli.BitReaderImpl Brotli.PrefixDecoderImpl.
From Coq Require Import ZifyBool ZifyN ZifyNat.

Local Open Scope N_scope.
Local Ltac Zify.zify_post_hook ::= idtac.

(* (symbol, length) of a code *)
Definition sl_of (c : pcode) : N * N := (c_sym c, c_len c).
Definition lens_of (codes : list pcode) : list (N * N) := map sl_of codes.

(* ------------------------------------------------------------------------------------------ *)
(* (1) the statistics pass                                                                      *)
(* ------------------------------------------------------------------------------------------ *)
Lemma nm_get_set {A} (m : nmap A) k v j :
  nm_get (nm_set m k v) j = if j =? k then Some v else nm_get m j.
Proof.
  destruct (j =? k) eqn:E.
  - apply N.eqb_eq in E. subst j. apply nm_gss.
  - apply N.eqb_neq in E. apply nm_gso. intros F. apply E. symmetry. exact F.
Qed.

Lemma cnt_get_getd m i : cnt_get m i = nm_getd m i 0.
Proof. reflexivity. Qed.

Lemma count_step_spec m c m' : count_step m c = Some m' ->
  c_len c <= 15 /\ forall l, cnt_get m' l = cnt_get m l + (if c_len c =? l then 1 else 0).
Proof.
  unfold count_step, maxPrefixBits. destruct (c_len c <=? 15) eqn:E; [|discriminate].
  intros H. inversion H; subst m'. clear H. split; [lia|].
  intros l. unfold cnt_get. rewrite nm_get_set. rewrite (N.eqb_sym (c_len c) l).
  destruct (l =? c_len c) eqn:El.
  - apply N.eqb_eq in El. subst l. destruct (nm_get m (c_len c)); lia.
  - lia.
Qed.

Lemma count_step_ok m c : c_len c <= 15 -> exists m', count_step m c = Some m'.
Proof.
  intros H. unfold count_step, maxPrefixBits.
  replace (c_len c <=? 15) with true by lia. eexists. reflexivity.
Qed.

Lemma count_len_sl_cons c r l :
  count_len (lens_of (c :: r)) l = (if c_len c =? l then 1 else 0) + count_len (lens_of r) l.
Proof.
  unfold lens_of. cbn [map]. unfold sl_of at 1. rewrite count_len_cons. reflexivity.
Qed.

Lemma last_cons_default {A} (l : list A) : forall x d d', last (x :: l) d = last (x :: l) d'.
Proof.
  induction l as [|y l IH]; intros x d d'; [reflexivity|].
  change (last (x :: y :: l) d) with (last (y :: l) d).
  change (last (x :: y :: l) d') with (last (y :: l) d'). apply IH.
Qed.

(* what a successful pass computes *)
Lemma stats_spec rest : forall s0 mn0 mx0 cnts0 sl mn mx cnts,
  stats rest s0 mn0 mx0 cnts0 = BOk (sl, mn, mx, cnts) ->
  strictly_increasing (lens_of rest) (Some s0) = true /\
  mn = fold_left N.min (map snd (lens_of rest)) mn0 /\
  mx = fold_left N.max (map snd (lens_of rest)) mx0 /\
  sl = last (map c_sym rest) s0 /\
  (forall c, In c rest -> c_len c <= 15) /\
  (forall l, cnt_get cnts l = cnt_get cnts0 l + count_len (lens_of rest) l).
Proof.
  induction rest as [|c r IH]; intros s0 mn0 mx0 cnts0 sl mn mx cnts H; cbn [stats] in H.
  - inversion H; subst. split; [reflexivity|]. split; [reflexivity|]. split; [reflexivity|].
    split; [reflexivity|]. split; [intros c []|].
    intros l. unfold lens_of. cbn [map]. rewrite count_len_nil. lia.
  - destruct (c_sym c <=? s0) eqn:Es; [discriminate|].
    destruct (count_step cnts0 c) as [cnts1|] eqn:Ec; [|discriminate].
    destruct (count_step_spec _ _ _ Ec) as [Hl Hc].
    apply IH in H. destruct H as (H1 & H2 & H3 & H4 & H5 & H6).
    split; [|split; [|split; [|split; [|split]]]].
    + unfold lens_of. cbn [map strictly_increasing]. unfold sl_of at 1.
      replace (s0 <? c_sym c) with true by lia. exact H1.
    + rewrite H2. unfold lens_of. cbn [map fold_left]. change (snd (sl_of c)) with (c_len c). f_equal.
      destruct (c_len c <? mn0) eqn:E; lia.
    + rewrite H3. unfold lens_of. cbn [map fold_left]. change (snd (sl_of c)) with (c_len c). f_equal.
      destruct (mx0 <? c_len c) eqn:E; lia.
    + rewrite H4. cbn [map]. destruct (map c_sym r) as [|y l']; [reflexivity|].
      change (last (c_sym c :: y :: l') s0) with (last (y :: l') s0). apply last_cons_default.
    + intros c' [<-|Hc']; [exact Hl | apply H5; exact Hc'].
    + intros l. rewrite H6, Hc, count_len_sl_cons. lia.
Qed.

(* the pass succeeds on sorted symbols and lengths of at most 15 bits *)
Lemma stats_ok rest : forall s0 mn0 mx0 cnts0,
  strictly_increasing (lens_of rest) (Some s0) = true ->
  (forall c, In c rest -> c_len c <= 15) ->
  exists sl mn mx cnts, stats rest s0 mn0 mx0 cnts0 = BOk (sl, mn, mx, cnts).
Proof.
  induction rest as [|c r IH]; intros s0 mn0 mx0 cnts0 Hs Hl; cbn [stats].
  - do 4 eexists. reflexivity.
  - unfold lens_of in Hs. cbn [map strictly_increasing] in Hs. unfold sl_of at 1 in Hs.
    apply andb_true_iff in Hs as [Hs1 Hs2].
    replace (c_sym c <=? s0) with false by lia.
    destruct (count_step_ok cnts0 c (Hl c (or_introl eq_refl))) as [m' ->].
    apply IH; [exact Hs2 | intros c' Hc'; apply Hl; right; exact Hc'].
Qed.

(* an unsorted list is rejected (errCorrupted) or crashes (a length above 15 met first) *)
Lemma stats_unsorted rest : forall s0 mn0 mx0 cnts0,
  strictly_increasing (lens_of rest) (Some s0) = false ->
  (forall c, In c rest -> c_len c <= 15) ->
  stats rest s0 mn0 mx0 cnts0 = BCorrupt.
Proof.
  induction rest as [|c r IH]; intros s0 mn0 mx0 cnts0 Hs Hl; cbn [stats].
  - discriminate.
  - unfold lens_of in Hs. cbn [map strictly_increasing] in Hs. unfold sl_of at 1 in Hs.
    destruct (c_sym c <=? s0) eqn:E; [reflexivity|].
    replace (s0 <? c_sym c) with true in Hs by lia. cbn [andb] in Hs.
    destruct (count_step_ok cnts0 c (Hl c (or_introl eq_refl))) as [m' ->].
    apply IH; [exact Hs | intros c' Hc'; apply Hl; right; exact Hc'].
Qed.

(* ---- the nextCodes loop is that of GeneratePrefixes -------------------------------------- *)
Lemma next_codes_eq cnts lens mn mx :
  (forall l, cnt_get cnts l = count_len lens l) ->
  next_codes cnts mn mx =
  fold_left (nc_step lens) (map (fun k => mn + k) (iota (mx + 1 - mn))) (0, nm_empty).
Proof.
  intros H. unfold next_codes. apply fold_left_ext_loc.
  intros [code nx] l. unfold next_step, nc_step. cbn [fst snd]. rewrite H. reflexivity.
Qed.

(* ---- the assignment loop is that of GeneratePrefixes ------------------------------------- *)
Lemma reverse_bits32_eq v n : n <= 32 -> reverse_bits32 (w32 v) n = reverse_bits v n.
Proof.
  intros Hn. unfold reverse_bits32, reverse_bits, w32. f_equal. f_equal.
  rewrite <- (val_bits_mod (N.to_nat n) (v mod 2 ^ 32)), <- (val_bits_mod (N.to_nat n) v).
  f_equal. rewrite N2Nat.id. apply mod_mod_pow. exact Hn.
Qed.

(* the accumulator of as_step is a prefix that is never inspected *)
Lemma as_fold_acc l : forall a st, fold_left as_step l (a, st) =
  (a ++ fst (fold_left as_step l ([], st)), snd (fold_left as_step l ([], st))).
Proof.
  induction l as [|[s0 l0] l IHl]; intros a st.
  - cbn [fold_left fst snd]. rewrite app_nil_r. reflexivity.
  - cbn [fold_left].
    assert (E : forall a', as_step (a', st) (s0, l0) =
                  (a' ++ [(s0, l0, reverse_bits (nm_getd st l0 0) l0)],
                   nm_set st l0 (nm_getd st l0 0 + 1))) by reflexivity.
    rewrite !E. rewrite (IHl (a ++ _)), (IHl ([] ++ _)). cbn [fst snd app].
    rewrite <- app_assoc. reflexivity.
Qed.

Lemma assign_loop codes : forall nx acc,
  (forall c, In c codes -> c_len c <= 32) ->
  fold_left assign_step codes (nx, acc) =
  (snd (fold_left as_step (lens_of codes) ([], nx)),
   rev (fst (fold_left as_step (lens_of codes) ([], nx))) ++ acc).
Proof.
  induction codes as [|c r IH]; intros nx acc Hl.
  - reflexivity.
  - cbn [fold_left].
    set (v := nm_getd nx (c_len c) 0).
    set (e := (c_sym c, c_len c, reverse_bits v (c_len c))).
    set (nx1 := nm_set nx (c_len c) (v + 1)).
    assert (E1 : assign_step (nx, acc) c = (nx1, e :: acc)).
    { unfold assign_step. rewrite cnt_get_getd. fold v.
      rewrite reverse_bits32_eq by (apply Hl; left; reflexivity). reflexivity. }
    assert (E2 : fold_left as_step (lens_of (c :: r)) ([], nx) =
                 fold_left as_step (lens_of r) ([e], nx1)) by reflexivity.
    rewrite E1, E2, IH by (intros c' H'; apply Hl; right; exact H').
    rewrite (as_fold_acc (lens_of r) [e]). cbn [fst snd]. f_equal.
    rewrite rev_app_distr. cbn [rev app]. rewrite <- app_assoc. reflexivity.
Qed.

Lemma assign_vals_eq nx codes : (forall c, In c codes -> c_len c <= 32) ->
  assign_vals nx codes = fst (fold_left as_step (lens_of codes) ([], nx)).
Proof.
  intros Hl. unfold assign_vals. rewrite fast_rev_eq, (assign_loop codes nx [] Hl).
  cbn [snd]. rewrite app_nil_r. apply rev_involutive.
Qed.

(* ------------------------------------------------------------------------------------------ *)
(* (2) the checks of Init are those of GeneratePrefixes; the values assigned are canonical      *)
(* ------------------------------------------------------------------------------------------ *)
Lemma max_len_le15 lens L : (forall s l, In (s, l) lens -> l <= L) -> max_len lens <= L.
Proof.
  induction lens as [|[s l] r IH]; intros H; [cbn; lia|].
  rewrite max_len_cons.
  pose proof (H s l (or_introl eq_refl)). specialize (IH (fun s' l' H' => H s' l' (or_intror H'))). lia.
Qed.

Lemma in_lens_of codes s l : In (s, l) (lens_of codes) -> exists c, In c codes /\ c_sym c = s /\ c_len c = l.
Proof.
  intros H. apply in_map_iff in H. destruct H as (c & E & Hc). exists c.
  unfold sl_of in E. inversion E. split; [exact Hc | split; reflexivity].
Qed.

Lemma fold_min_start ls a b : (forall x, In x ls -> x <= a) -> a <= b -> ls <> [] ->
  fold_left N.min ls a = fold_left N.min ls b.
Proof.
  revert a b. induction ls as [|x r IH]; intros a b H Hab Hne; [contradiction|].
  cbn [fold_left]. pose proof (H x (or_introl eq_refl)).
  replace (N.min a x) with x by lia. replace (N.min b x) with x by lia. reflexivity.
Qed.

(* the half of Init before the tables: for lengths of at most 15 bits and symbols below
   2^27 it accepts exactly what GeneratePrefixes accepts, computes minBits / maxBits, the
   canonical first codes nextCodes[l] = fc l, and (assignCodes) the canonical values *)
Theorem br_init_checks oldC oldL c0 rest assign :
  (1 <= length rest)%nat ->
  (forall c, In c (c0 :: rest) -> c_len c <= 15) ->
  (forall c, In c (c0 :: rest) -> c_sym c < 2 ^ 27) ->
  match gen_prefixes (lens_of (c0 :: rest)) with
  | GPInvalid => br_dec_init_multi oldC oldL (c0 :: rest) assign = BCorrupt
  | GPOk out =>
    out = map rv (canonical (lens_of (c0 :: rest))) /\
    exists nx, (forall l, l <= max_len (lens_of (c0 :: rest)) ->
                          nm_getd nx l 0 = fc (lens_of (c0 :: rest)) l) /\
      br_dec_init_multi oldC oldL (c0 :: rest) assign =
      br_build oldC oldL (c0 :: rest) (if assign then out else c0 :: rest) assign
               (fold_left N.min (map snd (lens_of (c0 :: rest))) 27)
               (max_len (lens_of (c0 :: rest))) nx
  end.
Proof.
  intros Hr1 Hl15 Hs27.
  unfold br_dec_init_multi.
  set (codes := c0 :: rest) in *. set (lens := lens_of codes) in *.
  assert (H2 : (2 <= length lens)%nat).
  { unfold lens, lens_of, codes. rewrite map_length. cbn [length]. lia. }
  rewrite (gen_prefixes_eq lens H2).
  assert (Hc0 : c_len c0 <= 15) by (apply Hl15; left; reflexivity).
  assert (Hrest : forall c, In c rest -> c_len c <= 15) by (intros c Hc; apply Hl15; right; exact Hc).
  assert (Esort : strictly_increasing lens None = strictly_increasing (lens_of rest) (Some (c_sym c0))).
  { reflexivity. }
  destruct (count_step_ok nm_empty c0 Hc0) as [cnts0 Ec0]. rewrite Ec0.
  destruct (count_step_spec _ _ _ Ec0) as [_ Hcnt0].
  rewrite Esort.
  destruct (strictly_increasing (lens_of rest) (Some (c_sym c0))) eqn:Es.
  2:{ rewrite (stats_unsorted rest _ _ _ _ Es Hrest). reflexivity. }
  destruct (stats_ok rest (c_sym c0) (c_len c0) (c_len c0) cnts0 Es Hrest) as (sl & mn & mx & cnts & Est).
  rewrite Est.
  destruct (stats_spec _ _ _ _ _ _ _ _ _ Est) as (_ & Emn & Emx & Esl & _ & Hcnt).
  (* minBits, maxBits *)
  assert (Hmn : mn = fold_left N.min (map snd lens) 27).
  { rewrite Emn. unfold lens, lens_of, codes. cbn [map fold_left]. change (snd (sl_of c0)) with (c_len c0).
    f_equal. lia. }
  assert (Hmx : mx = max_len lens).
  { rewrite <- fold_max_len. rewrite Emx. unfold lens, lens_of, codes. cbn [map fold_left].
    change (snd (sl_of c0)) with (c_len c0). f_equal. lia. }
  assert (Hmx15 : max_len lens <= 15).
  { apply max_len_le15. intros s l Hin. destruct (in_lens_of _ _ _ Hin) as (c & Hc & _ & <-). apply Hl15, Hc. }
  replace (32 <=? mx) with false by lia. cbn [orb].
  rewrite Hmn. fold lens.
  destruct (fold_left N.min (map snd lens) 27 =? 0) eqn:Emin0; [reflexivity|].
  (* the last symbol *)
  assert (Hsl : sl < 2 ^ 27).
  { rewrite Esl. destruct (map c_sym rest) as [|y l'] eqn:Em.
    - apply Hs27. left. reflexivity.
    - assert (Hin : In (last (y :: l') (c_sym c0)) (map c_sym rest)).
      { rewrite Em. clear. revert y. induction l' as [|z l' IH]; intros y; [left; reflexivity|].
        change (last (y :: z :: l') (c_sym c0)) with (last (z :: l') (c_sym c0)). right. apply IH. }
      apply in_map_iff in Hin. destruct Hin as (c & <- & Hc). apply Hs27. right. exact Hc. }
  change valueBits with 27. replace (2 ^ 27 <=? sl) with false by lia.
  (* nextCodes *)
  assert (Hp : lens_pos lens) by (apply minl_pos; exact Emin0).
  assert (Hne : lens <> []) by (unfold lens, lens_of, codes; discriminate).
  assert (Hcl : forall l, cnt_get cnts l = count_len lens l).
  { intros l. rewrite Hcnt, Hcnt0. unfold lens, codes. rewrite count_len_sl_cons.
    unfold cnt_get. rewrite nm_gempty. lia. }
  rewrite (next_codes_eq cnts lens _ _ Hcl).
  pose proof (nc_model lens Hp Hne) as Hnc. cbv zeta in Hnc.
  rewrite (fold_left_ext_loc _ (nc_step lens)) in Hnc.
  2:{ intros st l. unfold nc_step. rewrite cnt_count_len. reflexivity. }
  assert (Hmm : fold_left N.min (map snd lens) 27 <= max_len lens).
  { destruct (fold_min_le (map snd lens) 27) as [_ Hle].
    eapply N.le_trans; [apply (Hle (c_len c0)); left; reflexivity|].
    apply (max_len_ge lens (c_sym c0)). left. reflexivity. }
  rewrite Hmx.
  replace (max_len lens + 1 - fold_left N.min (map snd lens) 27)
    with (max_len lens - fold_left N.min (map snd lens) 27 + 1) by lia.
  destruct (fold_left (nc_step lens) _ (0, nm_empty)) as [code nx].
  cbn [fst snd] in Hnc. destruct Hnc as [Hcode Hnx]. subst code.
  unfold complete.
  destruct (kraft (max_len lens) lens =? 2 ^ max_len lens) eqn:Ek; cbn [negb]; [|reflexivity].
  split; [reflexivity|]. exists nx. split; [exact Hnx|].
  destruct assign; [|reflexivity]. f_equal.
  rewrite assign_vals_eq by (intros c Hc; specialize (Hl15 c Hc); lia).
  fold lens. unfold canonical.
  rewrite (as_loop lens [] _ (first_codes lens (lens_range (max_len lens)) 0)).
  - reflexivity.
  - intros s l Hin. rewrite first_codes_keys. apply lens_range_in.
    split; [apply (Hp s), Hin | apply (max_len_ge _ s), Hin].
  - intros l Hl. rewrite first_codes_keys in Hl. unfold lens_range in Hl.
    apply in_map_iff in Hl. destruct Hl as (i & <- & Hi). apply in_seq in Hi.
    assert (Hr : 1 <= N.of_nat i <= max_len lens) by lia.
    rewrite (canonical_get lens _ Hp Hr). apply Hnx. lia.
Qed.

(* ------------------------------------------------------------------------------------------ *)
(* (3) the tables, for ANY numbering of the link tables                                         *)
(* ------------------------------------------------------------------------------------------ *)
(* The second pass of Init (fill_code) on a valid code set, over a chunks array in which the
   chunks [prot] that need a link table carry the table numbers [idx]; generalises the
   "with link tables" half of Prefix/DecTableThms.v dec_init_tables, where
   idx = position in the order of first appearance. *)
Section GenTables.
Variable L : N.
Variable codes : list pcode.
Hypothesis HL : L <= 31.
Hypothesis HV : dec_valid L codes.

Let M := max_bits codes.
Let cb := chunk_bits codes.

Variable li : N.
Variable idx : N -> N.
Variable prot : N -> Prop.
Hypothesis P_long : forall c, In c codes -> cb < c_len c -> prot (c_val c mod 2 ^ cb).
Hypothesis P_bound : forall p, prot p -> p < 2 ^ cb /\ idx p < li.
Hypothesis P_inj : forall p p', prot p -> prot p' -> idx p = idx p' -> p = p'.
Hypothesis P_short : forall c p, In c codes -> c_len c <= cb -> prot p -> p mod 2 ^ c_len c <> c_val c.

Lemma gen_fill ch1 oldF :
  cb < M -> a_len ch1 = 2 ^ cb ->
  (forall p, prot p -> arr_get ch1 p = Some (idx p * 32 + (cb + 1))) ->
  exists ch2 fl2,
    ofold (fill_code cb (2 ^ cb - 1) li (2 ^ (M - cb))) codes
          (ch1, arr_alloc oldF (2 ^ (M - cb) * li)) = Some (ch2, fl2) /\
    a_len ch2 = 2 ^ cb /\ a_len fl2 = 2 ^ (M - cb) * li /\
    (forall b c, In c codes -> matches c b -> c_len c <= cb ->
       arr_get ch2 (b mod 2 ^ cb) = Some (chunk_of c)) /\
    (forall b c, In c codes -> matches c b -> cb < c_len c ->
       let p := b mod 2 ^ cb in let k := idx p in
       prot p /\ k < li /\ arr_get ch2 p = Some (k * 32 + (cb + 1)) /\
       arr_get fl2 (k * 2 ^ (M - cb) + (b / 2 ^ cb) mod 2 ^ (M - cb)) = Some (chunk_of c)).
Proof.
  intros Elink I3 I4.
  pose proof (v_M L codes HL HV) as HM. pose proof (v_cb L codes HL HV) as Hcb.
  fold M in HM. fold cb M in Hcb.
  assert (Hwf : forall c, In c codes -> c_len c <= M /\ c_val c < 2 ^ c_len c).
  { intros c Hc. split; [apply v_lenM, Hc | apply (v_val L codes HV), Hc]. }
  destruct (fill_fold cb M li idx prot codes ch1 (arr_alloc oldF (2 ^ (M - cb) * li)))
    as (ch2 & fl2 & Ef & L1 & L2 & G1 & G2); try assumption; try lia.
  { unfold arr_alloc. cbn [a_len]. apply N.mul_comm. }
  { intros p Hp. destruct (P_bound p Hp) as [B1 B2]. split; [exact B1|]. split; [exact B2|].
    apply I4. exact Hp. }
  exists ch2, fl2. split; [exact Ef|]. split; [exact L1|].
  split; [rewrite L2; reflexivity|]. split.
  - intros b c Hc Hm Hs.
    assert (Hi : b mod 2 ^ cb < 2 ^ cb) by (apply N.mod_lt, pow2_nz).
    rewrite (G1 _ Hi).
    destruct (lastf (fun c0 => hitS cb c0 (b mod 2 ^ cb)) codes) as [c'|] eqn:El.
    + apply lastf_some in El. destruct El as [Hc' Hh]. unfold hitS in Hh.
      apply andb_true_iff in Hh as [Hs' Hm']. apply N.leb_le in Hs'. apply N.eqb_eq in Hm'.
      assert (Hmb : matches c' b) by (apply (matches_mod c' b cb Hs'); exact Hm').
      rewrite (dv_unique _ _ HV b c' c Hc' Hc Hmb Hm). reflexivity.
    + pose proof (lastf_none _ _ El c Hc) as Hn. unfold hitS in Hn.
      replace (c_len c <=? cb) with true in Hn by (symmetry; apply N.leb_le; exact Hs).
      cbn [andb] in Hn. apply N.eqb_neq in Hn. exfalso. apply Hn.
      apply (matches_mod c b cb Hs). exact Hm.
  - intros b c Hc Hm Hl p k.
    assert (Hi : p < 2 ^ cb) by (apply N.mod_lt, pow2_nz).
    assert (Epv : c_val c mod 2 ^ cb = p).
    { unfold matches in Hm. rewrite <- Hm. apply mod_mod_pow. lia. }
    assert (Hp : prot p) by (rewrite <- Epv; apply P_long; assumption).
    assert (Hkl : k < li) by (apply P_bound; exact Hp).
    split; [exact Hp|]. split; [exact Hkl|]. split.
    + rewrite (G1 p Hi).
      destruct (lastf (fun c0 => hitS cb c0 p) codes) as [c'|] eqn:El.
      * apply lastf_some in El. destruct El as [Hc' Hh]. unfold hitS in Hh.
        apply andb_true_iff in Hh as [Hs' Hm']. apply N.leb_le in Hs'. apply N.eqb_eq in Hm'.
        exfalso. exact (P_short c' p Hc' Hs' Hp Hm').
      * apply I4. exact Hp.
    + set (j := (b / 2 ^ cb) mod 2 ^ (M - cb)).
      assert (Hj : j < 2 ^ (M - cb)) by (apply N.mod_lt, pow2_nz).
      assert (Hx : k * 2 ^ (M - cb) + j < a_len (arr_alloc oldF (2 ^ (M - cb) * li))).
      { unfold arr_alloc. cbn [a_len]. apply block_lt; assumption. }
      rewrite (G2 _ Hx).
      assert (EbM : b mod 2 ^ M = p + 2 ^ cb * j).
      { unfold p, j. rewrite (pow2_split cb M) by (apply N.lt_le_incl; exact Elink).
        apply N.mod_mul_r; apply pow2_nz. }
      assert (Hhit : forall c0, In c0 codes ->
                hitL cb (2 ^ (M - cb)) idx c0 (k * 2 ^ (M - cb) + j) = true -> matches c0 b).
      { intros c0 Hc0 Hh. unfold hitL in Hh.
        apply andb_true_iff in Hh as [Hl0 Hh]. apply negb_true_iff, N.leb_gt in Hl0.
        apply andb_true_iff in Hh as [Hh H3]. apply andb_true_iff in Hh as [H1 H2].
        apply N.leb_le in H1. apply N.ltb_lt in H2. apply N.eqb_eq in H3.
        set (p0 := c_val c0 mod 2 ^ cb) in *.
        assert (Hp0 : prot p0) by (apply P_long; assumption).
        assert (Ekk : idx p0 = k) by (apply (idx_block _ _ (2 ^ (M - cb)) j); assumption).
        rewrite Ekk in *.
        assert (Epp : p0 = p) by (apply P_inj; assumption).
        rewrite add_sub' in H3.
        pose proof (v_lenM codes c0 Hc0) as HlM0. fold M in HlM0.
        apply (matches_mod c0 b M HlM0). rewrite EbM. unfold matches.
        rewrite (split_mod p j cb (c_len c0) Hi (N.lt_le_incl _ _ Hl0)).
        rewrite H3, <- Epp. unfold p0. symmetry. apply val_split. }
      destruct (lastf (fun c0 => hitL cb (2 ^ (M - cb)) idx c0 (k * 2 ^ (M - cb) + j)) codes)
        as [c'|] eqn:El.
      * apply lastf_some in El. destruct El as [Hc' Hh].
        rewrite (dv_unique _ _ HV b c' c Hc' Hc (Hhit c' Hc' Hh) Hm). reflexivity.
      * pose proof (lastf_none _ _ El c Hc) as Hn. exfalso.
        unfold hitL in Hn.
        replace (c_len c <=? cb) with false in Hn by (symmetry; apply N.leb_gt; exact Hl).
        cbn [negb andb] in Hn. rewrite Epv in Hn. fold k in Hn.
        replace (k * 2 ^ (M - cb) <=? k * 2 ^ (M - cb) + j) with true in Hn
          by (symmetry; apply N.leb_le, N.le_add_r).
        replace (k * 2 ^ (M - cb) + j <? k * 2 ^ (M - cb) + 2 ^ (M - cb)) with true in Hn
          by (symmetry; apply N.ltb_lt, N.add_lt_mono_l; exact Hj).
        cbn [andb] in Hn. apply N.eqb_neq in Hn. apply Hn.
        rewrite add_sub'.
        pose proof (v_lenM codes c Hc) as HlM0. fold M in HlM0.
        unfold matches in Hm. rewrite <- Hm.
        rewrite <- (mod_mod_pow b (c_len c) M HlM0), EbM.
        rewrite (split_mod p j cb (c_len c) Hi (N.lt_le_incl _ _ Hl)).
        rewrite (N.mul_comm (2 ^ cb)), N.div_add by apply pow2_nz.
        rewrite (N.div_small p) by exact Hi. reflexivity.
Qed.

End GenTables.

(* what the tables of a decoder must satisfy, with the numbering of the link tables left open *)
Record tables_okG (idx : N -> N) (codes : list pcode) (d : dec) : Prop := mkTOG {
  tg_cb : d_chunkBits d = chunk_bits codes;
  tg_mask : d_chunkMask d = 2 ^ chunk_bits codes - 1;
  tg_clen : a_len (d_chunks d) = 2 ^ chunk_bits codes;
  tg_linkLen : d_linkLen d = if chunk_bits codes <? max_bits codes
                             then 2 ^ (max_bits codes - chunk_bits codes) else 0;
  tg_linkMask : d_linkMask d = if chunk_bits codes <? max_bits codes
                               then 2 ^ (max_bits codes - chunk_bits codes) - 1 else 0;
  tg_flen : a_len (d_flat d) = d_nlinks d * d_linkLen d;
  tg_short : forall b c, In c codes -> matches c b -> c_len c <= chunk_bits codes ->
     arr_get (d_chunks d) (b mod 2 ^ chunk_bits codes) = Some (chunk_of c);
  tg_long : forall b c, In c codes -> matches c b -> chunk_bits codes < c_len c ->
     let p := b mod 2 ^ chunk_bits codes in
     let k := idx p in
     k < d_nlinks d /\
     arr_get (d_chunks d) p = Some (k * 32 + (chunk_bits codes + 1)) /\
     arr_get (d_flat d) (k * d_linkLen d + (b / 2 ^ chunk_bits codes) mod d_linkLen d)
       = Some (chunk_of c)
}.

Lemma tables_ok_G codes d : tables_ok codes d -> tables_okG (idxf (link_prefixes codes)) codes d.
Proof.
  intros [T1 T2 T3 T4 T5 T6 T7 T8 T9 TS TL]. split; try assumption.
  intros b c Hc Hm Hl. destruct (TL b c Hc Hm Hl) as (_ & H2 & H3 & H4).
  split; [exact H2 | split; [exact H3 | exact H4]].
Qed.

(* the lookup returns exactly the code that matches the buffer (Prefix/DecTableThms.v
   lookup_of_tables, for any numbering) *)
Theorem lookup_of_tablesG L idx codes d : L <= 31 -> dec_valid L codes -> tables_okG idx codes d ->
  forall b c, In c codes -> matches c b ->
    dec_lookup d b = Some (c_sym c mod 2 ^ 27, c_len c).
Proof.
  intros HL HV HT b c Hc Hm.
  pose proof (v_M L codes HL HV) as HM. pose proof (v_cb L codes HL HV) as Hcb.
  pose proof (v_len L codes HV c Hc) as Hlen.
  destruct HT as [T1 T2 T5 T7 T8 T9 TS TL].
  unfold dec_lookup. rewrite T2, land_mask, w32_mod by lia. rewrite T1.
  destruct (c_len c <=? chunk_bits codes) eqn:Es.
  - apply N.leb_le in Es. rewrite (TS b c Hc Hm Es). unfold chunk_of.
    rewrite mk_chunk_len by lia.
    replace (chunk_bits codes <? c_len c) with false by (symmetry; apply N.ltb_ge; exact Es).
    rewrite mk_chunk_sym by lia. reflexivity.
  - apply N.leb_gt in Es. destruct (TL b c Hc Hm Es) as (Hk & Hg1 & Hg2).
    rewrite Hg1, link_chunk_len, link_chunk_idx by lia.
    replace (chunk_bits codes <? chunk_bits codes + 1) with true by (symmetry; apply N.ltb_lt; lia).
    set (k := idx (b mod 2 ^ chunk_bits codes)) in *.
    replace (k <? d_nlinks d) with true by (symmetry; apply N.ltb_lt; exact Hk).
    assert (Elink : chunk_bits codes < max_bits codes).
    { eapply N.lt_le_trans; [exact Es | apply max_bits_ge; exact Hc]. }
    assert (Eif : (chunk_bits codes <? max_bits codes) = true) by (apply N.ltb_lt; exact Elink).
    rewrite Eif in T7, T8. rewrite T7, T8 in *.
    rewrite land_mask, w32_mod, N.shiftr_div_pow2 by lia.
    set (j := (b / 2 ^ chunk_bits codes) mod 2 ^ (max_bits codes - chunk_bits codes)) in *.
    replace (j <? 2 ^ (max_bits codes - chunk_bits codes)) with true
      by (symmetry; apply N.ltb_lt, N.mod_lt, pow2_nz).
    rewrite Hg2. unfold chunk_of. rewrite mk_chunk_len, mk_chunk_sym by lia. reflexivity.
Qed.

(* ------------------------------------------------------------------------------------------ *)
(* (4) bit reversal                                                                             *)
(* ------------------------------------------------------------------------------------------ *)
Lemma firstn_rev {A} (l : list A) k : (k <= length l)%nat ->
  firstn k (rev l) = rev (skipn (length l - k) l).
Proof.
  intros Hk. rewrite <- (firstn_skipn (length l - k) l) at 1.
  rewrite rev_app_distr. rewrite firstn_app.
  assert (Hl : length (rev (skipn (length l - k) l)) = k) by (rewrite rev_length, skipn_length; lia).
  rewrite Hl, Nat.sub_diag. cbn [firstn]. rewrite app_nil_r.
  rewrite <- Hl at 1. apply firstn_all.
Qed.

(* the first k bits read of an l-bit code word are, reversed, the top k bits of the word *)
Lemma reverse_bits_prefix c l k : k <= l -> c < 2 ^ l ->
  reverse_bits (reverse_bits c l mod 2 ^ k) k = c / 2 ^ (l - k).
Proof.
  intros Hk Hc. unfold reverse_bits. rewrite !fast_rev_eq.
  set (X := val_bits (N.to_nat l) c).
  assert (HX : length X = N.to_nat l) by apply val_bits_length.
  assert (E1 : val_bits (N.to_nat k) (bits_val (rev X) mod 2 ^ k) = firstn (N.to_nat k) (rev X)).
  { replace (2 ^ k) with (2 ^ N.of_nat (N.to_nat k)) by (rewrite N2Nat.id; reflexivity).
    rewrite val_bits_mod.
    assert (Hlr : length (rev X) = (N.to_nat k + (N.to_nat l - N.to_nat k))%nat)
      by (rewrite rev_length, HX; lia).
    rewrite <- (val_bits_bits_val (rev X)) at 2. rewrite Hlr. symmetry. apply val_bits_firstn. }
  rewrite E1, firstn_rev by (rewrite HX; lia). rewrite rev_involutive, HX.
  unfold X.
  replace (N.to_nat l) with ((N.to_nat l - N.to_nat k) + N.to_nat k)%nat at 2 by lia.
  rewrite val_bits_app, skipn_app, val_bits_length, Nat.sub_diag.
  rewrite skipn_all2 by (rewrite val_bits_length; lia). cbn [skipn app].
  rewrite bits_val_val_bits.
  replace (N.of_nat (N.to_nat l - N.to_nat k)) with (l - k) by lia.
  rewrite N2Nat.id. apply N.mod_small.
  apply N.div_lt_upper_bound; [apply pow2_nz|].
  rewrite <- N.pow_add_r. replace (l - k + k) with l by lia. exact Hc.
Qed.

Lemma reverse_bits_inj a b n : a < 2 ^ n -> b < 2 ^ n -> reverse_bits a n = reverse_bits b n -> a = b.
Proof.
  intros Ha Hb E. rewrite <- (reverse_bits_invol a n Ha), <- (reverse_bits_invol b n Hb), E. reflexivity.
Qed.

(* ------------------------------------------------------------------------------------------ *)
(* (5) assignCodes = true: the marking of the chunks that carry a link table                    *)
(* ------------------------------------------------------------------------------------------ *)
Lemma mark_range_fold cb S oldC : 1 <= cb <= 9 -> S <= 2 ^ cb ->
  forall n, n <= 2 ^ cb - S ->
  exists ch1,
    fold_left (mark_range_step cb S) (iota n) (Some (arr_alloc oldC (2 ^ cb))) = Some ch1 /\
    a_len ch1 = 2 ^ cb /\
    forall p, p < 2 ^ cb ->
      arr_get ch1 p =
      if (S <=? reverse_bits p cb) && (reverse_bits p cb <? S + n)
      then Some ((reverse_bits p cb - S) * 32 + (cb + 1))
      else arr_get (arr_alloc oldC (2 ^ cb)) p.
Proof.
  intros Hcb HS n. rewrite iota_eq.
  assert (H512 : 2 ^ cb <= 512) by (change 512 with (2 ^ 9); apply pow2_le; lia).
  induction n as [|n IH] using N.peano_ind; intros Hn.
  - cbn [N.to_nat seq map fold_left]. eexists. split; [reflexivity|]. split; [reflexivity|].
    intros p Hp. replace ((S <=? reverse_bits p cb) && (reverse_bits p cb <? S + 0)) with false by lia.
    reflexivity.
  - rewrite N2Nat.inj_succ, seq_S, map_app, fold_left_app. cbn [map fold_left Nat.add].
    destruct IH as (ch & E & Hlen & Hget); [lia|]. rewrite E.
    unfold mark_range_step.
    rewrite N2Nat.id.
    assert (Hw1 : w32 (w32 S + n) = S + n).
    { unfold w32. rewrite (N.mod_small S) by (change (2 ^ 32) with 4294967296; lia).
      apply N.mod_small. change (2 ^ 32) with 4294967296. lia. }
    rewrite Hw1. change (reverse_bits32 (S + n) cb) with (reverse_bits (S + n) cb).
    set (q := reverse_bits (S + n) cb).
    assert (Hq : q < 2 ^ cb) by apply reverse_bits_lt.
    unfold arr_set. rewrite Hlen. replace (q <? 2 ^ cb) with true by lia.
    eexists. split; [reflexivity|]. cbn [a_len]. split; [reflexivity|].
    intros p Hp. unfold arr_get. cbn [a_len a_new a_old].
    replace (p <? 2 ^ cb) with true by lia.
    destruct (N.eq_dec q p) as [<-|Hne].
    + rewrite nm_gss. unfold q. rewrite reverse_bits_invol by lia.
      replace ((S <=? S + n) && (S + n <? S + N.succ n)) with true by lia.
      rewrite link_chunk_eq by lia. f_equal. f_equal. lia.
    + rewrite nm_gso by exact Hne.
      pose proof (Hget p Hp) as G. unfold arr_get in G. rewrite Hlen in G.
      replace (p <? 2 ^ cb) with true in G by lia.
      assert (Hrp : reverse_bits p cb <> S + n).
      { intros F. apply Hne. unfold q. rewrite <- F. apply reverse_bits_invol. exact Hp. }
      destruct (S <=? reverse_bits p cb) eqn:E1; cbn [andb] in G |- *.
      * destruct (reverse_bits p cb <? S + n) eqn:E2.
        -- replace (reverse_bits p cb <? S + N.succ n) with true by lia. exact G.
        -- replace (reverse_bits p cb <? S + N.succ n) with false by lia. exact G.
      * exact G.
Qed.

(* ------------------------------------------------------------------------------------------ *)
(* (6) where the second half of Init IS Decoder.Init of internal/prefix                         *)
(* ------------------------------------------------------------------------------------------ *)
Lemma max_bits_fold cs : forall a,
  fold_left (fun m c => if m <? c_len c then c_len c else m) cs a =
  fold_left N.max (map snd (lens_of cs)) a.
Proof.
  induction cs as [|c r IH]; intros a; [reflexivity|].
  unfold lens_of. cbn [map fold_left]. change (snd (sl_of c)) with (c_len c). fold (lens_of r).
  rewrite <- IH. f_equal. destruct (a <? c_len c) eqn:E; lia.
Qed.

Lemma max_bits_lens cs : max_bits cs = max_len (lens_of cs).
Proof. unfold max_bits. rewrite max_bits_fold. apply fold_max_len. Qed.

Lemma min_bits_fold cs : forall a,
  fold_left (fun m c => if c_len c <? m then c_len c else m) cs a =
  fold_left N.min (map snd (lens_of cs)) a.
Proof.
  induction cs as [|c r IH]; intros a; [reflexivity|].
  unfold lens_of. cbn [map fold_left]. change (snd (sl_of c)) with (c_len c). fold (lens_of r).
  rewrite <- IH. f_equal. destruct (c_len c <? a) eqn:E; lia.
Qed.

Lemma min_bits_lens cs : min_bits cs = fold_left N.min (map snd (lens_of cs)) 27.
Proof. unfold min_bits. apply min_bits_fold. Qed.

(* without link tables a long code cannot be filled in *)
Lemma fill_nolinks_long cb mask ll cs : forall st c, In c cs -> cb < c_len c ->
  ofold (fill_code cb mask 0 ll) cs st = None.
Proof.
  induction cs as [|c0 r IH]; intros st c Hin Hl; [contradiction|].
  cbn [ofold].
  destruct Hin as [->|Hin].
  - unfold fill_code. destruct st as [ch fl].
    replace (c_len c <=? cb) with false by lia.
    destruct (arr_get ch (N.land (c_val c) mask)); [|reflexivity].
    replace (N.shiftr n countBits <? 0) with false by lia. reflexivity.
  - destruct (fill_code cb mask 0 ll st c0) as [st'|]; [|reflexivity].
    apply (IH st' c Hin Hl).
Qed.

Definition of_ires (cs : list pcode) (r : ires dec) : bres (dec * list pcode) :=
  match r with IOk d => BOk (d, cs) | _ => BCrash end.

(* assignCodes = false: the tables are those of internal/prefix over the same storage *)
Lemma br_build_noassign oldC oldL cs nx : max_bits cs <= 31 ->
  br_build oldC oldL cs cs false (min_bits cs) (max_bits cs) nx =
  of_ires cs (dec_init_multi oldC (flat_old oldL (2 ^ (max_bits cs - chunk_bits cs))) cs).
Proof.
  intros H31. unfold br_build, dec_init_multi, chunk_bits.
  replace (31 <? max_bits cs) with false by lia.
  set (M := max_bits cs).
  set (cb := if maxChunkBits <? M then maxChunkBits else M).
  destruct (cb <? M) eqn:Elink.
  - destruct (ofold (mark_step cb (w32 (2 ^ cb - 1))) cs (arr_zero (arr_alloc oldC (2 ^ cb)), 0))
      as [[ch1 li]|]; [|reflexivity].
    destruct (li =? 0) eqn:Eli.
    + apply N.eqb_eq in Eli. subst li.
      destruct (max_bits_in cs) as (cM & HcM & EcM); [fold M; lia|]. fold M in EcM.
      rewrite (fill_nolinks_long cb _ _ cs _ cM HcM) by lia. reflexivity.
    + destruct (ofold _ cs (ch1, _)) as [[ch2 fl2]|]; reflexivity.
  - destruct (ofold _ cs (arr_alloc oldC (2 ^ cb), empty_arr)) as [[ch2 fl2]|]; reflexivity.
Qed.

(* assignCodes = true, no code longer than 9 bits: again those of internal/prefix *)
Lemma br_build_nolinks oldC oldL oldF codes cs nx : max_bits cs <= 9 -> length codes = length cs ->
  br_build oldC oldL codes cs true (min_bits cs) (max_bits cs) nx =
  of_ires cs (dec_init_multi oldC oldF cs).
Proof.
  intros H9 Hlen. unfold br_build, dec_init_multi.
  replace (31 <? max_bits cs) with false by lia.
  set (M := max_bits cs) in *. unfold maxChunkBits.
  replace (9 <? M) with false by lia.
  replace (M <? M) with false by lia. rewrite Hlen.
  destruct (ofold _ cs (arr_alloc oldC (2 ^ M), empty_arr)) as [[ch2 fl2]|]; reflexivity.
Qed.

(* ------------------------------------------------------------------------------------------ *)
(* (7) a valid code set has Kraft sum one (so Init's completeness test accepts it)              *)
(* ------------------------------------------------------------------------------------------ *)
Lemma nmatch_in codes x c : In c codes -> matches c x -> 1 <= nmatch codes x.
Proof.
  induction codes as [|c0 r IH]; intros Hin Hm; [contradiction|].
  cbn [nmatch fold_right]. fold (nmatch r x).
  destruct Hin as [->|Hin].
  - apply matchb_spec in Hm. rewrite Hm. cbn [N.b2n]. lia.
  - specialize (IH Hin Hm). lia.
Qed.

Lemma nmatch_le1_unique codes x : unique_codes codes -> NoDup codes -> nmatch codes x <= 1.
Proof.
  induction codes as [|c r IH]; intros Hu Hnd; cbn [nmatch fold_right]; [lia|].
  fold (nmatch r x). inversion Hnd as [|? ? Hnin Hnd']; subst.
  assert (Hu' : unique_codes r).
  { intros b c1 c2 H1 H2. apply Hu; right; assumption. }
  specialize (IH Hu' Hnd').
  destruct (matchb c x) eqn:E; cbn [N.b2n]; [|lia].
  apply matchb_spec in E.
  destruct (N.eq_dec (nmatch r x) 0) as [->|Hne]; [lia|].
  destruct (nmatch_pos r x) as (c' & Hc' & Hm'); [lia|].
  exfalso. apply Hnin.
  rewrite (Hu x c c' (or_introl eq_refl) (or_intror Hc') E Hm'). exact Hc'.
Qed.

Lemma nsum_const1 n : nsum (fun _ => 1) n = n.
Proof.
  induction n as [|n IH] using N.peano_ind; [apply nsum_0|]. rewrite nsum_succ, IH. lia.
Qed.

Lemma kraft_sum_lens L codes : kraft_sum L codes = kraft L (lens_of codes).
Proof.
  induction codes as [|c r IH]; [reflexivity|].
  unfold lens_of. cbn [kraft_sum kraft map fold_right]. f_equal. exact IH.
Qed.

Theorem dec_valid_complete L codes : dec_valid L codes -> NoDup codes ->
  complete (lens_of codes) = true.
Proof.
  intros HV Hnd.
  assert (Hb : forall c, In c codes -> c_len c <= L /\ c_val c < 2 ^ c_len c).
  { intros c Hc. split; [apply (wf_len _ _ (dv_wf _ _ HV) c Hc) | apply (wf_val _ _ (dv_wf _ _ HV) c Hc)]. }
  pose proof (nmatch_sum L codes Hb) as Hs.
  rewrite (nsum_ext _ (fun _ => 1)) in Hs.
  2:{ intros x _. destruct (dv_complete _ _ HV x) as (c & Hc & Hm).
      pose proof (nmatch_in codes x c Hc Hm).
      pose proof (nmatch_le1_unique codes x (dv_unique _ _ HV) Hnd). lia. }
  rewrite nsum_const1, kraft_sum_lens in Hs.
  assert (HM : max_len (lens_of codes) <= L).
  { apply max_len_le15. intros s l Hin. destruct (in_lens_of _ _ _ Hin) as (c & Hc & _ & <-).
    apply (Hb c Hc). }
  rewrite (kraft_scale L _ HM) in Hs.
  unfold complete. apply N.eqb_eq.
  apply (N.mul_cancel_l _ _ (2 ^ (L - max_len (lens_of codes)))); [apply pow2_nz|].
  rewrite <- Hs, <- N.pow_add_r. f_equal. lia.
Qed.

(* ------------------------------------------------------------------------------------------ *)
(* (8) THEOREMS                                                                                 *)
(* ------------------------------------------------------------------------------------------ *)
Lemma lens_of_fst codes : map fst (lens_of codes) = map c_sym codes.
Proof. unfold lens_of. rewrite map_map. reflexivity. Qed.

Lemma br_dec_init_multi_eq oldC oldL codes assign : (2 <= length codes)%nat ->
  br_dec_init oldC oldL codes assign = br_dec_init_multi oldC oldL codes assign.
Proof.
  intros H. destruct codes as [|c1 [|c2 r]]; cbn [length] in H; try lia. reflexivity.
Qed.

Lemma br_init_checks' oldC oldL codes assign :
  (2 <= length codes)%nat ->
  (forall c, In c codes -> c_len c <= 15) ->
  (forall c, In c codes -> c_sym c < 2 ^ 27) ->
  match gen_prefixes (lens_of codes) with
  | GPInvalid => br_dec_init oldC oldL codes assign = BCorrupt
  | GPOk out =>
    out = map rv (canonical (lens_of codes)) /\
    exists nx, (forall l, l <= max_len (lens_of codes) -> nm_getd nx l 0 = fc (lens_of codes) l) /\
      br_dec_init oldC oldL codes assign =
      br_build oldC oldL codes (if assign then out else codes) assign
               (fold_left N.min (map snd (lens_of codes)) 27) (max_len (lens_of codes)) nx
  end.
Proof.
  intros H2 H15 H27. rewrite br_dec_init_multi_eq by exact H2.
  destruct codes as [|c0 rest]; [cbn [length] in H2; lia|].
  apply br_init_checks; [cbn [length] in H2; lia | exact H15 | exact H27].
Qed.

(* Init rejects (errCorrupted) exactly what GeneratePrefixes rejects *)
Theorem br_init_rejects oldC oldL codes assign :
  (2 <= length codes)%nat ->
  (forall c, In c codes -> c_len c <= 15) -> (forall c, In c codes -> c_sym c < 2 ^ 27) ->
  gen_prefixes (lens_of codes) = GPInvalid ->
  br_dec_init oldC oldL codes assign = BCorrupt.
Proof.
  intros H2 H15 H27 E.
  pose proof (br_init_checks' oldC oldL codes assign H2 H15 H27) as Hc.
  rewrite E in Hc. exact Hc.
Qed.

(* assignCodes = false: for every valid code set with sorted symbols, Init succeeds, leaves the
   codes alone, builds EXACTLY the tables internal/prefix.Decoder.Init builds over the same
   storage, and every lookup returns the (symbol, length) of the code the buffer starts with -
   whatever the recycled arrays held *)
Theorem br_init_noassign_correct codes oldC oldL :
  dec_valid 15 codes -> StronglySorted N.lt (map c_sym codes) ->
  (forall c, In c codes -> c_sym c < 2 ^ 27) ->
  exists d, br_dec_init oldC oldL codes false = BOk (d, codes) /\
    dec_init oldC (flat_old oldL (2 ^ (max_bits codes - chunk_bits codes))) codes = IOk d /\
    tables_ok codes d /\
    forall b c, In c codes -> matches c b -> dec_lookup d b = Some (c_sym c, c_len c).
Proof.
  intros HV Hs H27.
  pose proof (wf_two _ _ (dv_wf _ _ HV)) as H2.
  assert (H15 : forall c, In c codes -> c_len c <= 15) by (intros c Hc; apply (v_len 15 codes HV c Hc)).
  assert (Hnd : NoDup codes).
  { apply (NoDup_map_inv c_sym). apply StronglySorted_lt_NoDup. exact Hs. }
  set (lens := lens_of codes).
  assert (Hp : lens_pos lens).
  { intros s l Hin. destruct (in_lens_of _ _ _ Hin) as (c & Hc & _ & <-). apply (v_len 15 codes HV c Hc). }
  assert (Hc : complete lens = true) by (apply (dec_valid_complete 15); assumption).
  assert (H2l : (2 <= length lens)%nat) by (unfold lens, lens_of; rewrite map_length; exact H2).
  destruct (proj2 (gen_prefixes_ok_iff_sorted lens H2l)) as [out Eg].
  { split; [unfold lens; rewrite lens_of_fst; exact Hs | split; assumption]. }
  pose proof (br_init_checks' oldC oldL codes false H2 H15 H27) as Hck.
  fold lens in Hck. rewrite Eg in Hck. destruct Hck as (_ & nx & _ & Eb). rewrite Eb.
  unfold lens. rewrite <- min_bits_lens, <- max_bits_lens.
  pose proof (v_M 15 codes ltac:(lia) HV) as HM.
  rewrite br_build_noassign by lia.
  destruct (dec_init_tables 15 codes ltac:(lia) HV oldC
              (flat_old oldL (2 ^ (max_bits codes - chunk_bits codes)))) as (d & Ed & HT).
  exists d. rewrite <- dec_init_multi_eq by exact H2. rewrite Ed.
  split; [reflexivity|]. split; [reflexivity|]. split; [exact HT|].
  intros b c Hcin Hm. rewrite (lookup_of_tables 15 codes d ltac:(lia) HV HT b c Hcin Hm).
  rewrite N.mod_small by (apply H27; exact Hcin). reflexivity.
Qed.

(* ---- canonical codes as table codes ---------------------------------------------------------- *)
Lemma rv_rcode l : map rv l = map rcode l.
Proof. apply map_ext. intros [[s n] c]. reflexivity. Qed.

Lemma lens_of_canon lens : lens_of (canon_codes lens) = lens.
Proof.
  unfold lens_of, canon_codes. rewrite map_map. rewrite <- (canonical_fst lens) at 2.
  apply map_ext. intros [[s l] c]. reflexivity.
Qed.

(* a code longer than k bits starts, in its top k bits, at or beyond pk k *)
Lemma canon_long_prefix lens s l c k : lens_pos lens -> In (s, l, c) (canonical lens) -> k < l ->
  pk lens k <= c / 2 ^ (l - k).
Proof.
  intros Hp Hin Hk. pose proof (canonical_lt_pk lens s l c Hp Hin) as [Hfc _].
  pose proof (fc_ge_pk lens k l Hk) as Hge.
  apply N.div_le_lower_bound; [apply pow2_nz | lia].
Qed.

(* a code of at most k bits spans, at k bits, an interval below pk k *)
Lemma canon_short_span lens s l c k : lens_pos lens -> In (s, l, c) (canonical lens) -> l <= k ->
  (c + 1) * 2 ^ (k - l) <= pk lens k.
Proof.
  intros Hp Hin Hk. pose proof (canonical_lt_pk lens s l c Hp Hin) as [_ Hpk].
  destruct (N.eq_dec l k) as [->|Hne].
  - rewrite N.sub_diag. change (2 ^ 0) with 1. lia.
  - pose proof (fc_ge_pk lens l k ltac:(lia)) as Hge.
    pose proof (fc_count lens k) as Hfc.
    assert (H1 : (c + 1) * 2 ^ (k - l) <= pk lens l * 2 ^ (k - l)) by (apply N.mul_le_mono_r; lia).
    lia.
Qed.

(* the numbering of the link tables with assignCodes = true: by the canonical order of their
   9-bit prefixes (the chunk whose bit-reversed index is pk 9 + i gets table i) when some code
   is longer than 9 bits; there are no link tables otherwise *)
Definition assign_idx (lens : list (N * N)) (p : N) : N :=
  if 9 <? max_len lens then reverse_bits p 9 - pk lens 9
  else idxf (link_prefixes (canon_codes lens)) p.

Lemma tables_okG_ext idx idx' codes d : (forall p, idx p = idx' p) ->
  tables_okG idx codes d -> tables_okG idx' codes d.
Proof.
  intros E [T1 T2 T3 T4 T5 T6 TS TL]. split; try assumption.
  intros b c Hc Hm Hl. specialize (TL b c Hc Hm Hl). cbv zeta in TL |- *. rewrite <- E. exact TL.
Qed.

(* assignCodes = true: for strictly increasing symbols below 2^27 and a COMPLETE assignment of
   lengths 1..15, Init succeeds; the values it assigns are the bit-reversed canonical codes
   (RFC 1951 3.2.2, Flate/Spec.v [canonical]; the list is Prefix/DecCanonThms.v [canon_codes]),
   a valid code set; and every lookup returns the (symbol, length) of the code the buffer
   starts with - whatever the recycled arrays held. [idx] is the numbering of the link tables
   (by canonical order of their 9-bit prefixes when there are codes longer than 9 bits). *)
Theorem br_init_assign_correct codes oldC oldL :
  (2 <= length codes)%nat -> StronglySorted N.lt (map c_sym codes) ->
  (forall c, In c codes -> c_sym c < 2 ^ 27) -> (forall c, In c codes -> 1 <= c_len c <= 15) ->
  complete (lens_of codes) = true ->
  exists d, br_dec_init oldC oldL codes true = BOk (d, canon_codes (lens_of codes)) /\
    dec_valid 15 (canon_codes (lens_of codes)) /\
    tables_okG (assign_idx (lens_of codes)) (canon_codes (lens_of codes)) d /\
    d_minBits d = min_bits (canon_codes (lens_of codes)) /\
    d_numSyms d = w32 (N.of_nat (length codes)) /\
    (* every link table is in use *)
    (9 < max_len (lens_of codes) ->
       d_nlinks d = 2 ^ 9 - pk (lens_of codes) 9 /\
       forall k, k < d_nlinks d -> exists p, p < 2 ^ 9 /\ assign_idx (lens_of codes) p = k /\
         forall c, In c (canon_codes (lens_of codes)) -> c_len c <= 9 -> p mod 2 ^ c_len c <> c_val c) /\
    forall b c, In c (canon_codes (lens_of codes)) -> matches c b ->
      dec_lookup d b = Some (c_sym c, c_len c).
Proof.
  intros H2 Hs H27 Hlen Hc.
  set (lens := lens_of codes) in *. set (out := canon_codes lens).
  assert (H15 : forall c, In c codes -> c_len c <= 15) by (intros c Hin; apply Hlen; exact Hin).
  assert (Hp : lens_pos lens).
  { intros s l Hin. destruct (in_lens_of _ _ _ Hin) as (c & Hcin & _ & <-). apply Hlen, Hcin. }
  assert (H2l : (2 <= length lens)%nat) by (unfold lens, lens_of; rewrite map_length; exact H2).
  assert (HM15 : max_len lens <= 15).
  { apply max_len_le15. intros s l Hin. destruct (in_lens_of _ _ _ Hin) as (c & Hcin & _ & <-). apply H15, Hcin. }
  pose proof (canon_valid lens Hp Hc 15 H2l HM15) as HV. fold out in HV.
  assert (Elo : lens_of out = lens) by apply lens_of_canon.
  assert (Hlo : length out = length codes).
  { rewrite <- (map_length sl_of out). fold (lens_of out). rewrite Elo. unfold lens, lens_of. apply map_length. }
  assert (H27o : forall c, In c out -> c_sym c < 2 ^ 27).
  { intros c Hin. assert (Hi : In (c_sym c) (map c_sym out)) by (apply in_map; exact Hin).
    rewrite <- lens_of_fst, Elo in Hi. unfold lens in Hi. rewrite lens_of_fst in Hi.
    apply in_map_iff in Hi. destruct Hi as (c' & <- & Hc'). apply H27, Hc'. }
  (* the checks *)
  destruct (proj2 (gen_prefixes_ok_iff_sorted lens H2l)) as [out' Eg].
  { split; [unfold lens; rewrite lens_of_fst; exact Hs | split; assumption]. }
  pose proof (br_init_checks' oldC oldL codes true H2 H15 H27) as Hck.
  fold lens in Hck. rewrite Eg in Hck. destruct Hck as (Eout & nx & Hnx & Eb).
  rewrite rv_rcode in Eout. fold (canon_codes lens) in Eout. fold out in Eout. subst out'.
  rewrite Eb.
  replace (fold_left N.min (map snd lens) 27) with (min_bits out)
    by (rewrite min_bits_lens, Elo; reflexivity).
  replace (max_len lens) with (max_bits out) by (rewrite max_bits_lens, Elo; reflexivity).
  assert (EM : max_bits out = max_len lens) by (rewrite max_bits_lens, Elo; reflexivity).
  pose proof (v_M 15 out ltac:(lia) HV) as HM.
  assert (Hfin : forall d idx, tables_okG idx out d ->
            forall b c, In c out -> matches c b -> dec_lookup d b = Some (c_sym c, c_len c)).
  { intros d idx HT b c Hcin Hm. rewrite (lookup_of_tablesG 15 idx out d ltac:(lia) HV HT b c Hcin Hm).
    rewrite N.mod_small by (apply H27o; exact Hcin). reflexivity. }
  destruct (N.le_gt_cases (max_bits out) 9) as [H9|H9].
  - (* ---- no code longer than 9 bits: the tables of internal/prefix ---- *)
    rewrite (br_build_nolinks oldC oldL (fun _ => 0) codes out nx H9 (eq_sym Hlo)).
    destruct (dec_init_tables 15 out ltac:(lia) HV oldC (fun _ => 0)) as (d & Ed & HT).
    rewrite <- dec_init_multi_eq by (rewrite Hlo; exact H2). rewrite Ed.
    assert (HTG : tables_okG (assign_idx lens) out d).
    { apply (tables_okG_ext (idxf (link_prefixes out))); [|apply tables_ok_G; exact HT].
      intros p. unfold assign_idx. replace (9 <? max_len lens) with false by lia. reflexivity. }
    exists d. split; [reflexivity|]. split; [exact HV|].
    split; [exact HTG|]. split; [apply (to_min _ _ HT)|].
    split; [rewrite (to_nsyms _ _ HT), Hlo; reflexivity|].
    split; [intros F; lia|].
    apply (Hfin d _ HTG).
  - (* ---- link tables numbered by the canonical order of their prefixes ---- *)
    set (M := max_bits out) in *.
    assert (Ecb : chunk_bits out = 9).
    { unfold chunk_bits, maxChunkBits. fold M. replace (9 <? M) with true by lia. reflexivity. }
    set (S := pk lens 9).
    assert (Hk : kraft_ok lens) by (apply complete_kraft_ok; exact Hc).
    assert (HS : S <= 2 ^ 9) by (apply pk_le_pow; [exact Hk | lia]).
    assert (Ebase : N.shiftr (cnt_get nx (9 + 1)) 1 = S).
    { rewrite cnt_get_getd, Hnx by lia. rewrite (fc_succ lens 9). rewrite N.shiftr_div_pow2.
      change (2 ^ 1) with 2. rewrite N.mul_comm. apply N.div_mul. discriminate. }
    set (idx := fun p => reverse_bits p 9 - S).
    set (prot := fun p => p < 2 ^ 9 /\ S <= reverse_bits p 9).
    set (li := 2 ^ 9 - S).
    destruct (mark_range_fold 9 S oldC ltac:(lia) HS li ltac:(lia)) as (ch1 & Emark & Hlen1 & Hget1).
    (* the entries of out *)
    assert (Hout : forall c, In c out -> exists s l v, In (s, l, v) (canonical lens) /\
               c = (s, l, reverse_bits v l) /\ v < 2 ^ l).
    { intros c Hin. destruct (canon_in lens c Hin) as ([[s l] v] & I & ->).
      exists s, l, v. split; [exact I|]. split; [apply rcode_reverse_bits|].
      apply (canonical_fits lens s l v Hp Hk I). }
    assert (P_long : forall c, In c out -> chunk_bits out < c_len c -> prot (c_val c mod 2 ^ chunk_bits out)).
    { rewrite Ecb. intros c Hin Hl. destruct (Hout c Hin) as (s & l & v & I & -> & Hv).
      unfold c_len, c_val in *. cbn [fst snd] in *. split; [apply N.mod_lt, pow2_nz|].
      rewrite reverse_bits_prefix by (try assumption; lia).
      apply (canon_long_prefix lens s l v 9 Hp I Hl). }
    assert (P_bound : forall p, prot p -> p < 2 ^ chunk_bits out /\ idx p < li).
    { rewrite Ecb. intros p [H1 H3]. split; [exact H1|]. unfold idx, li.
      pose proof (reverse_bits_lt p 9). lia. }
    assert (P_inj : forall p p', prot p -> prot p' -> idx p = idx p' -> p = p').
    { intros p p' [H1 H3] [H1' H3'] E. unfold idx in E. apply (reverse_bits_inj p p' 9); try assumption. lia. }
    assert (P_short : forall c p, In c out -> c_len c <= chunk_bits out -> prot p ->
               p mod 2 ^ c_len c <> c_val c).
    { rewrite Ecb. intros c p Hin Hl [H1 H3] E. destruct (Hout c Hin) as (s & l & v & I & -> & Hv).
      unfold c_len, c_val in *. cbn [fst snd] in *.
      set (q := reverse_bits p 9) in *.
      assert (Hq : q < 2 ^ 9) by apply reverse_bits_lt.
      assert (Epq : p = reverse_bits q 9) by (unfold q; symmetry; apply reverse_bits_invol; exact H1).
      pose proof (reverse_bits_prefix q 9 l Hl Hq) as Hpre.
      rewrite <- Epq, E, reverse_bits_invol in Hpre by exact Hv.
      pose proof (canon_short_span lens s l v 9 Hp I Hl) as Hspan.
      assert (Hlt : q < (v + 1) * 2 ^ (9 - l)).
      { rewrite Hpre. rewrite N.mul_add_distr_r, N.mul_1_l.
        pose proof (N.div_mod q (2 ^ (9 - l)) (pow2_nz _)) as Hdm.
        pose proof (N.mod_lt q (2 ^ (9 - l)) (pow2_nz _)). lia. }
      lia. }
    pose proof (gen_fill 15 out ltac:(lia) HV li idx prot P_long P_bound P_inj P_short ch1
                  (flat_old oldL (2 ^ (M - 9)))) as G.
    fold M in G. rewrite Ecb in G.
    destruct G as (ch2 & fl2 & Ef & L1 & L2 & GS & GL); [exact H9 | exact Hlen1 | |].
    { intros p [H1 H3]. rewrite (Hget1 p H1).
      pose proof (reverse_bits_lt p 9).
      replace ((S <=? reverse_bits p 9) && (reverse_bits p 9 <? S + li)) with true by (unfold li; lia).
      reflexivity. }
    unfold br_build. unfold maxChunkBits. replace (9 <? M) with true by lia.
    cbv beta iota zeta. replace (9 <? M) with true by lia. cbv beta iota.
    rewrite Ebase. replace (2 ^ 9 <? S) with false by lia.
    fold li. rewrite Emark. rewrite (mask_w32 9) by lia. rewrite Ef.
    eexists. split; [reflexivity|]. split; [exact HV|].
    assert (Eif : (chunk_bits out <? max_bits out) = true) by (rewrite Ecb; fold M; lia).
    assert (HT : tables_okG idx out
              (mkDec ch2 fl2 li (2 ^ (M - 9)) (2 ^ 9 - 1) (w32 (2 ^ (M - 9) - 1)) 9 (min_bits out)
                     (w32 (N.of_nat (length codes))))).
    { split; cbn [d_chunks d_flat d_nlinks d_linkLen d_chunkMask d_linkMask d_chunkBits d_minBits d_numSyms];
        rewrite ?Ecb, ?Eif; fold M.
      - reflexivity.
      - reflexivity.
      - exact L1.
      - replace (9 <? M) with true by lia. reflexivity.
      - replace (9 <? M) with true by lia. apply mask_w32. lia.
      - rewrite L2. apply N.mul_comm.
      - exact GS.
      - intros b c Hcin Hm Hl. destruct (GL b c Hcin Hm Hl) as (_ & G2 & G3 & G4).
        split; [exact G2 | split; [exact G3 | exact G4]]. }
    assert (Eidx : forall p, idx p = assign_idx lens p).
    { intros p. unfold assign_idx, idx. replace (9 <? max_len lens) with true by lia. reflexivity. }
    pose proof (tables_okG_ext idx (assign_idx lens) out _ Eidx HT) as HTG.
    split; [exact HTG|]. split; [reflexivity|]. split; [reflexivity|].
    split; [|apply (Hfin _ _ HTG)].
    intros _. cbn [d_nlinks]. split; [reflexivity|].
    intros k Hkl. exists (reverse_bits (S + k) 9).
    assert (Hpk : reverse_bits (S + k) 9 < 2 ^ 9) by apply reverse_bits_lt.
    assert (Hrr : reverse_bits (reverse_bits (S + k) 9) 9 = S + k)
      by (apply reverse_bits_invol; unfold li in Hkl; lia).
    split; [exact Hpk|]. split.
    + rewrite <- Eidx. unfold idx. rewrite Hrr. lia.
    + intros c Hcin Hl. apply (P_short c _ Hcin); [rewrite Ecb; exact Hl|].
      split; [exact Hpk | rewrite Hrr; lia].
Qed.

(* ---- every table entry is written by this Init ---------------------------------------------- *)
(* two decoders that satisfy [tables_okG] for the same numbering, with every link table in
   use, have the same entries everywhere *)
Lemma tablesG_agree L idx codes d d' : L <= 31 -> dec_valid L codes ->
  tables_okG idx codes d -> tables_okG idx codes d' -> d_nlinks d = d_nlinks d' ->
  (chunk_bits codes < max_bits codes -> forall k, k < d_nlinks d ->
     exists p, p < 2 ^ chunk_bits codes /\ idx p = k /\
       forall c, In c codes -> c_len c <= chunk_bits codes -> p mod 2 ^ c_len c <> c_val c) ->
  d_chunkMask d = d_chunkMask d' /\ d_linkMask d = d_linkMask d' /\
  d_chunkBits d = d_chunkBits d' /\ d_linkLen d = d_linkLen d' /\
  (forall i, arr_get (d_chunks d) i = arr_get (d_chunks d') i) /\
  (forall x, arr_get (d_flat d) x = arr_get (d_flat d') x).
Proof.
  intros HL HV HT HT' Enl Hsurj.
  pose proof HT as [T1 T2 T3 T4 T5 T6 TS TL]. pose proof HT' as [U1 U2 U3 U4 U5 U6 US UL].
  set (cb := chunk_bits codes) in *.
  repeat split; try congruence.
  - intros i. destruct (N.lt_ge_cases i (2 ^ cb)) as [Hi|Hi].
    + destruct (dv_complete _ _ HV i) as (c & Hc & Hm).
      destruct (c_len c <=? cb) eqn:Es.
      * apply N.leb_le in Es. pose proof (TS i c Hc Hm Es) as G. pose proof (US i c Hc Hm Es) as G'.
        rewrite N.mod_small in G, G' by exact Hi. congruence.
      * apply N.leb_gt in Es. destruct (TL i c Hc Hm Es) as (_ & G & _).
        destruct (UL i c Hc Hm Es) as (_ & G' & _).
        rewrite N.mod_small in G, G' by exact Hi. congruence.
    + unfold arr_get. rewrite T3, U3. replace (i <? 2 ^ cb) with false by lia. reflexivity.
  - intros x. assert (Elen : a_len (d_flat d) = a_len (d_flat d')) by congruence.
    destruct (N.lt_ge_cases x (a_len (d_flat d))) as [Hx|Hx].
    2:{ unfold arr_get. rewrite <- Elen. replace (x <? a_len (d_flat d)) with false by lia. reflexivity. }
    rewrite T6 in Hx.
    destruct (cb <? max_bits codes) eqn:Elink; [|rewrite T4, N.mul_0_r in Hx; lia].
    apply N.ltb_lt in Elink. set (X := 2 ^ (max_bits codes - cb)) in *.
    assert (HX : X <> 0) by apply pow2_nz.
    set (k := x / X). set (j := x mod X).
    assert (Hj : j < X) by (apply N.mod_lt; exact HX).
    assert (Hk : k < d_nlinks d).
    { apply N.div_lt_upper_bound; [exact HX|]. rewrite T4 in Hx. rewrite N.mul_comm. exact Hx. }
    assert (Exkj : x = k * X + j) by (unfold k, j; rewrite N.mul_comm; apply N.div_mod; exact HX).
    destruct (Hsurj Elink k Hk) as (p & Hp & Hidx & Hshort).
    set (b := p + 2 ^ cb * j).
    assert (Eb1 : b mod 2 ^ cb = p).
    { unfold b. rewrite N.mul_comm, N.mod_add by apply pow2_nz. apply N.mod_small. exact Hp. }
    assert (Eb2 : (b / 2 ^ cb) mod X = j).
    { unfold b. rewrite N.mul_comm, N.div_add by apply pow2_nz.
      rewrite N.div_small by exact Hp. rewrite N.add_0_l. apply N.mod_small. exact Hj. }
    destruct (dv_complete _ _ HV b) as (c & Hc & Hm).
    assert (Hl : cb < c_len c).
    { destruct (N.le_gt_cases (c_len c) cb) as [Hs|Hl]; [exfalso | exact Hl].
      apply (Hshort c Hc Hs). rewrite <- Eb1. rewrite mod_mod_pow by exact Hs. exact Hm. }
    destruct (TL b c Hc Hm Hl) as (_ & _ & G). destruct (UL b c Hc Hm Hl) as (_ & _ & G').
    fold cb in G, G'. rewrite T4 in G. rewrite U4 in G'. fold X in G, G'.
    rewrite Eb1, Hidx, Eb2, <- Exkj in G, G'. congruence.
Qed.

(* assignCodes = true: the tables do not depend on what the recycled arrays held *)
Theorem br_init_assign_independent codes oldC oldL oldC' oldL' :
  (2 <= length codes)%nat -> StronglySorted N.lt (map c_sym codes) ->
  (forall c, In c codes -> c_sym c < 2 ^ 27) -> (forall c, In c codes -> 1 <= c_len c <= 15) ->
  complete (lens_of codes) = true ->
  exists d d' cs,
    br_dec_init oldC oldL codes true = BOk (d, cs) /\
    br_dec_init oldC' oldL' codes true = BOk (d', cs) /\
    d_chunkMask d = d_chunkMask d' /\ d_linkMask d = d_linkMask d' /\
    d_chunkBits d = d_chunkBits d' /\ d_minBits d = d_minBits d' /\ d_numSyms d = d_numSyms d' /\
    d_nlinks d = d_nlinks d' /\ d_linkLen d = d_linkLen d' /\
    (forall i, arr_get (d_chunks d) i = arr_get (d_chunks d') i) /\
    (forall x, arr_get (d_flat d) x = arr_get (d_flat d') x).
Proof.
  intros H2 Hs H27 Hlen Hc.
  destruct (br_init_assign_correct codes oldC oldL H2 Hs H27 Hlen Hc)
    as (d & E & HV & HT & Hmin & Hns & Hlk & _).
  destruct (br_init_assign_correct codes oldC' oldL' H2 Hs H27 Hlen Hc)
    as (d' & E' & _ & HT' & Hmin' & Hns' & Hlk' & _).
  exists d, d', (canon_codes (lens_of codes)). split; [exact E|]. split; [exact E'|].
  set (out := canon_codes (lens_of codes)) in *.
  assert (EM : max_bits out = max_len (lens_of codes)).
  { unfold out. rewrite max_bits_lens, lens_of_canon. reflexivity. }
  assert (Enl : d_nlinks d = d_nlinks d').
  { destruct (N.le_gt_cases (max_bits out) 9) as [H9|H9].
    - pose proof (tg_flen _ _ _ HT) as F. pose proof (tg_linkLen _ _ _ HT) as F4.
      (* no link tables: both are whatever Decoder.Init of internal/prefix produced: 0 *)
      destruct (br_init_assign_correct codes oldC oldL H2 Hs H27 Hlen Hc) as (d0 & E0 & _).
      clear F F4 d0 E0.
      (* recompute through the internal/prefix tables *)
      assert (Hz : forall oC oL dd, br_dec_init oC oL codes true = BOk (dd, out) -> d_nlinks dd = 0).
      { intros oC oL dd Ed.
        pose proof (br_init_checks' oC oL codes true H2 (fun c Hc' => proj2 (Hlen c Hc')) H27) as Hck.
        destruct (gen_prefixes (lens_of codes)) as [out'|]; [|rewrite Hck in Ed; discriminate].
        destruct Hck as (Eo & nx & _ & Eb). rewrite rv_rcode in Eo. fold (canon_codes (lens_of codes)) in Eo.
        fold out in Eo. subst out'. rewrite Eb in Ed.
        replace (fold_left N.min (map snd (lens_of codes)) 27) with (min_bits out) in Ed
          by (unfold out; rewrite min_bits_lens, lens_of_canon; reflexivity).
        rewrite <- EM in Ed.
        assert (Hlo : length codes = length out).
        { unfold out, canon_codes. rewrite map_length.
          rewrite <- (map_length fst (canonical _)), canonical_fst. unfold lens_of. rewrite map_length. reflexivity. }
        rewrite (br_build_nolinks oC oL (fun _ => 0) codes out nx H9 Hlo) in Ed.
        unfold dec_init_multi in Ed.
        replace (31 <? max_bits out) with false in Ed by lia.
        unfold maxChunkBits in Ed. replace (9 <? max_bits out) with false in Ed by lia.
        replace (max_bits out <? max_bits out) with false in Ed by lia.
        destruct (ofold _ out _) as [[ch2 fl2]|]; [|discriminate].
        cbn [of_ires] in Ed. inversion Ed. reflexivity. }
      rewrite (Hz _ _ _ E), (Hz _ _ _ E'). reflexivity.
    - rewrite EM in H9. destruct (Hlk H9) as [-> _]. destruct (Hlk' H9) as [-> _]. reflexivity. }
  destruct (tablesG_agree 15 _ out d d' ltac:(lia) HV HT HT' Enl) as (A1 & A2 & A3 & A4 & A5 & A6).
  { intros Elink k Hk.
    assert (H9 : 9 < max_len (lens_of codes)).
    { rewrite <- EM. unfold chunk_bits, maxChunkBits in Elink.
      destruct (9 <? max_bits out) eqn:E9; lia. }
    assert (Ecb : chunk_bits out = 9).
    { unfold chunk_bits, maxChunkBits. replace (9 <? max_bits out) with true by lia. reflexivity. }
    rewrite Ecb. destruct (Hlk H9) as [_ Hsurj]. apply Hsurj. exact Hk. }
  repeat split; try assumption; congruence.
Qed.

(* assignCodes = false: likewise (through internal/prefix: Prefix/DecTableThms.v) *)
Theorem br_init_noassign_independent codes oldC oldL oldC' oldL' :
  dec_valid 15 codes -> StronglySorted N.lt (map c_sym codes) ->
  (forall c, In c codes -> c_sym c < 2 ^ 27) ->
  exists d d',
    br_dec_init oldC oldL codes false = BOk (d, codes) /\
    br_dec_init oldC' oldL' codes false = BOk (d', codes) /\
    d_chunkMask d = d_chunkMask d' /\ d_linkMask d = d_linkMask d' /\
    d_chunkBits d = d_chunkBits d' /\ d_minBits d = d_minBits d' /\ d_numSyms d = d_numSyms d' /\
    d_nlinks d = d_nlinks d' /\ d_linkLen d = d_linkLen d' /\
    (forall i, arr_get (d_chunks d) i = arr_get (d_chunks d') i) /\
    (forall x, arr_get (d_flat d) x = arr_get (d_flat d') x).
Proof.
  intros HV Hs H27.
  destruct (br_init_noassign_correct codes oldC oldL HV Hs H27) as (d & E & Ed & _).
  destruct (br_init_noassign_correct codes oldC' oldL' HV Hs H27) as (d' & E' & Ed' & _).
  destruct (dec_init_independent 15 codes oldC
              (flat_old oldL (2 ^ (max_bits codes - chunk_bits codes))) oldC'
              (flat_old oldL' (2 ^ (max_bits codes - chunk_bits codes))) ltac:(lia) HV)
    as (e & e' & Ee & Ee' & R).
  rewrite Ed in Ee. rewrite Ed' in Ee'. inversion Ee; inversion Ee'; subst e e'.
  exists d, d'. split; [exact E|]. split; [exact E'|]. exact R.
Qed.

(* ---- non-vacuity ------------------------------------------------------------------------------ *)
(* lengths 1, 2, ..., 10, 11, 11 (complete; two codes longer than 9 bits: one link table of four
   entries); the values handed in are rubbish, Init assigns them *)
Definition ex_codes : list pcode :=
  [(0, 1, 99); (1, 2, 99); (2, 3, 99); (3, 4, 99); (4, 5, 99); (5, 6, 99); (6, 7, 99); (7, 8, 99);
   (8, 9, 99); (9, 10, 99); (10, 11, 99); (11, 11, 99)].

Lemma ex_codes_hyps :
  (2 <= length ex_codes)%nat /\ StronglySorted N.lt (map c_sym ex_codes) /\
  (forall c, In c ex_codes -> c_sym c < 2 ^ 27) /\ (forall c, In c ex_codes -> 1 <= c_len c <= 15) /\
  complete (lens_of ex_codes) = true.
Proof.
  split; [cbn [length ex_codes]; lia|]. split.
  { cbn [map ex_codes c_sym fst]. repeat (constructor; [|repeat (constructor; [lia|]); constructor]).
    constructor. }
  split; [|split; [|vm_compute; reflexivity]].
  - intros c Hc. unfold ex_codes in Hc. cbn [In] in Hc.
    repeat (destruct Hc as [<-|Hc]; [vm_compute; reflexivity|]). destruct Hc.
  - intros c Hc. unfold ex_codes in Hc. cbn [In] in Hc.
    repeat (destruct Hc as [<-|Hc]; [cbv [c_len fst snd]; lia|]). destruct Hc.
Qed.

(* the theorem applies: whatever the arrays held *)
Example ex_assign_thm oldC oldL :
  exists d, br_dec_init oldC oldL ex_codes true = BOk (d, canon_codes (lens_of ex_codes)) /\
    forall b c, In c (canon_codes (lens_of ex_codes)) -> matches c b ->
      dec_lookup d b = Some (c_sym c, c_len c).
Proof.
  destruct ex_codes_hyps as (H1 & H2 & H3 & H4 & H5).
  destruct (br_init_assign_correct ex_codes oldC oldL H1 H2 H3 H4 H5) as (d & E & _ & _ & _ & _ & _ & Hl).
  exists d. split; [exact E | exact Hl].
Qed.

(* and a run over garbage storage, computed *)
Example ex_assign_run :
  match br_dec_init (fun i => i * 7919 + 13) (fun i j => 1000 * i + j + 1) ex_codes true with
  | BOk (d, cs) =>
    (cs, d_nlinks d, d_linkLen d,
     dec_lookup d 0, dec_lookup d (2 ^ 11 - 1 + 2 ^ 11 * 5), dec_lookup d (2 ^ 10 - 1 + 2 ^ 11 * 77))
  | _ => ([], 0, 0, None, None, None)
  end =
  ([(0, 1, 0); (1, 2, 1); (2, 3, 3); (3, 4, 7); (4, 5, 15); (5, 6, 31); (6, 7, 63); (7, 8, 127);
    (8, 9, 255); (9, 10, 511); (10, 11, 1023); (11, 11, 2047)],
   1, 4, Some (0, 1), Some (11, 11), Some (10, 11)).
Proof. vm_compute. reflexivity. Qed.

(* assignCodes = false on a NON-canonical valid code (Prefix/DecTableThms.v witness_codes) *)
Example ex_noassign_thm oldC oldL :
  exists d, br_dec_init oldC oldL witness_codes false = BOk (d, witness_codes) /\
    forall b c, In c witness_codes -> matches c b -> dec_lookup d b = Some (c_sym c, c_len c).
Proof.
  assert (HV : dec_valid 15 witness_codes) by (apply kraft_check_sound; vm_compute; reflexivity).
  destruct (br_init_noassign_correct witness_codes oldC oldL HV) as (d & E & _ & _ & Hl).
  - cbn [map witness_codes c_sym fst]. repeat (constructor; [|repeat (constructor; [lia|]); constructor]).
    constructor.
  - intros c Hc. unfold witness_codes in Hc. cbn [In] in Hc.
    repeat (destruct Hc as [<-|Hc]; [vm_compute; reflexivity|]). destruct Hc.
  - exists d. split; [exact E | exact Hl].
Qed.

(* rejected: incomplete lengths, unsorted symbols *)
Example ex_reject_incomplete oldC oldL a :
  br_dec_init oldC oldL [(0, 2, 0); (1, 1, 0); (2, 3, 0)] a = BCorrupt.
Proof. destruct a; vm_compute; reflexivity. Qed.
Example ex_reject_unsorted oldC oldL a : br_dec_init oldC oldL [(1, 1, 0); (1, 1, 1)] a = BCorrupt.
Proof. destruct a; vm_compute; reflexivity. Qed.
(* a length above maxPrefixBits = 15 is a run-time panic (index out of range), not errCorrupted *)
Example ex_crash_len16 oldC oldL a : br_dec_init oldC oldL [(0, 16, 0); (1, 1, 0)] a = BCrash.
Proof. destruct a; vm_compute; reflexivity. Qed.
(* a single code of ANY length is accepted and decodes with zero bits *)
Example ex_single oldC oldL a :
  match br_dec_init oldC oldL [(5, 7, 3)] a with
  | BOk (d, _) => dec_lookup d 12345 = Some (5, 0) /\ d_minBits d = 0
  | _ => False
  end.
Proof. destruct a; vm_compute; split; reflexivity. Qed.

Print Assumptions br_init_checks'.
Print Assumptions br_init_rejects.
Print Assumptions br_init_noassign_correct.
Print Assumptions br_init_assign_correct.
Print Assumptions br_init_assign_independent.
Print Assumptions br_init_noassign_independent.
Print Assumptions dec_valid_complete.
