(* Implementation-level model of brotli.Reader (brotli/reader.go) composing the three
   implementation-level sub-models:

     rd   bitReader        -> [prd] of Brotli/BitReaderImpl.v (both source paths, modelled bufio)
     dict dictDecoder      -> [dd]  of Window/DictBr.v / Window/Dict.v
     prefixDecoder(s)      -> [dec] of Brotli/PrefixDecoderImpl.v ([br_dec_init], [br_read_symbol],
                              [try_read_symbol])

   Every field of Reader is modelled ([rst]); every step function is written in the Go order
   of reads and checks: readStreamHeader, readBlockHeader (incl. its recursion for
   ISLASTEMPTY), readMetaData (io.CopyBuffer into ioutil.Discard = io.Discard.ReadFrom of the
   Go library: reads of at most 8192 bytes through an io.LimitedReader), readRawData,
   readPrefixCodes, readContextMap, readBlockSwitch, readCommands with its four resume states,
   bitReader.ReadPrefixCode / readSimplePrefixCode / readComplexPrefixCode (bit_reader.go),
   transformWord / transformUppercase (transform.go), Read, Reset, Close.

   Outcomes of a step ([sres]): normal return, errors.Panic(e) (recovered by Read into br.err;
   carries the state at the moment of the panic, because Read then calls rd.FlushOffset and
   dict.ReadFlush on it), a Go RUN-TIME panic (index / slice bounds out of range, division by
   zero: not recovered, reaches the caller of Read: [SCrash] -> [RdPanic]), a Go loop that
   would never end ([SHang]). The model's own loop budgets give EFuel. brotli's errors are NOT
   wrapped (there is no errWrap on this path): the error a step panics with is what Read
   returns, e.g. errInvalid ("decode with empty tree") would reach the caller as Invalid.

   Lookup tables. The Go code decodes through tables derived at init time; the model uses
   - for iacLUT, insLenRanges, cpyLenRanges, blkLenRanges, dictSizes, dictOffsets, the
     context LUTs and transformLUT: the functions / tables of Brotli/Spec.v and Brotli/Tables.v
     ([iac_codes], [ins_ranges], [cpy_ranges], [blk_ranges], [dict_offsets], [dict_ndbits],
     [lit_context], [transforms]); Gen/TablesOK.v proves them equal to the implementation's
     tables entry by entry (brotli_iac_lut_ok, brotli_*_ranges_ok, brotli_dict_sizes_ok,
     brotli_dict_offsets_ok, brotli_lit_context_ok, brotli_transforms_ok);
   - for distShortLUT, distLongLUT, maxRLERanges, simpleLens*, complexLens and the four fixed
     prefix codes (codeCLens, codeMaxRLE, codeWinBits, codeCounts): the formulas of the Go
     init functions (prefix.go initLengthLUTs / initPrefixRangeLUTs / initPrefixCodeLUTs),
     transcribed here; the four fixed DECODERS are built by the model of prefixDecoder.Init
     from those codes, as the Go package does at init time.

   Integers. blkLen, insLen, cpyLen, dist, dists, typeLen are Go ints (64 bit): Z. All values
   stay below 2^33 in absolute value (lengths are at most 2^24 + 22594, distances at most
   3 * 2^27 + 120, typeLen at least -2^24 - 1 within a meta-block of at most 2^24 bytes), so
   no 64-bit wrap-around can occur and none is written. uint8 / uint32 conversions are
   written where the Go code converts.

   Storage. The window is list based; the literals of one readLiterals pass are collected in
   [zr_pend] (bytes already stored into the slice returned by WriteSlice and accounted by
   WriteMark(1), not yet copied into the model's array) and committed by one [write_raw] when
   the pass ends, normally or by a panic: nothing reads the window in between. Recycled
   storage of a prefixDecoder is the previous contents of the same slot (the theorems of
   Brotli/PrefixDecoderThms.v hold for ANY prior contents). *)
From Coq Require Import List NArith ZArith Bool.
From V Require Import Base.Prelude Bzip2.Common Prefix.ReaderImpl Prefix.DecTable
  Brotli.BitReaderImpl Brotli.PrefixDecoderImpl.
From V Require Window.Dict Window.DictBr.
From V Require Flate.Spec Brotli.Tables Brotli.Spec.

Local Open Scope N_scope.


(* ---- the tables the Go package derives at init time ---------------------------------------- *)

(* prefix.go initPrefixRangeLUTs: maxRLERanges = makeRanges(2, 1..16) *)
Definition rle_ranges : list (N * N) :=
  Flate.Spec.mk_ranges 2 [1; 2; 3; 4; 5; 6; 7; 8; 9; 10; 11; 12; 13; 14; 15; 16].

(* prefix.go: simpleLens1 .. simpleLens4b *)
Definition simpleLens1 : list N := [0].
Definition simpleLens2 : list N := [1; 1].
Definition simpleLens3 : list N := [1; 2; 2].
Definition simpleLens4a : list N := [2; 2; 2; 2].
Definition simpleLens4b : list N := [1; 2; 3; 3].
Definition complexLens : list N := [1; 2; 3; 4; 0; 5; 17; 6; 16; 7; 8; 9; 10; 11; 12; 13; 14; 15].

(* initPrefixCodeLUTs; a code is (sym, len, val) *)
Definition codeCLens : list pcode :=
  [(0, 2, 0); (1, 4, 0); (2, 3, 0); (3, 2, 0); (4, 2, 0); (5, 4, 0)].

Definition codeMaxRLE : list pcode :=
  (0, 1, 0) :: map (fun i => (i + 1, 5, N.lor (N.shiftl i 1) 1)) (iota 16).

(* for i := 9; i <= 24; i++ ...; codeWinBits[0].sym = 0 *)
Definition winbits_code (i : N) : pcode :=
  if i =? 16 then (i, 1, 0)
  else if 17 <? i then (i, 4, N.lor (N.shiftl (i - 17) 1) 1)
  else if i <? 17 then (i, 7, N.lor (N.shiftl (i - 8) 4) 1)
  else (i, 7, N.lor (N.shiftl (i - 17) 4) 1).
Definition codeWinBits : list pcode :=
  match map (fun k => winbits_code (9 + k)) (iota 16) with
  | (_, l, v) :: r => (0, l, v) :: r
  | [] => []
  end.

(* sym 1: val 0 len 1; then for i < 8, j < 1<<i: sym++, val = j<<4 | i<<1 | 1, len = i+4 *)
Definition codeCounts : list pcode :=
  (1, 1, 0) ::
  snd (fold_left (fun (st : N * list pcode) i =>
         fold_left (fun (st2 : N * list pcode) j =>
                      let s := fst st2 + 1 in
                      (s, snd st2 ++ [(s, i + 4, N.lor (N.lor (N.shiftl j 4) (N.shiftl i 1)) 1)]))
                   (iota (2 ^ i)) st)
       (iota 8) (1, [])).

Definition zeroC : N -> N := fun _ => 0.
Definition zeroL : N -> N -> N := fun _ _ => 0.
Definition empty_dec : dec := mkDec empty_arr empty_arr 0 0 0 0 0 0 0.

(* the package-level decoders, built over fresh storage at init time; an Init that fails
   would panic at package initialisation: the empty decoder stands for "no such program" *)
Definition fixed_dec (codes : list pcode) (assign : bool) : dec :=
  match br_dec_init zeroC zeroL codes assign with
  | BOk (d, _) => d
  | _ => empty_dec
  end.
Definition decCLens : dec := fixed_dec codeCLens true.
Definition decMaxRLE : dec := fixed_dec codeMaxRLE false.
Definition decWinBits : dec := fixed_dec codeWinBits false.
Definition decCounts : dec := fixed_dec codeCounts false.

(* initLengthLUTs: distShortLUT[distSym] = (index, delta) *)
Definition dist_short_rec (s : N) : N * Z :=
  let '(index, delta) :=
    if s <? 4 then (s, 0%Z)
    else if s <? 10 then (0, (Z.of_N (s / 2) - 1)%Z)
    else (1, (Z.of_N (s / 2) - 4)%Z) in
  (index, if s mod 2 =? 0 then (- delta)%Z else delta).

(* initLengthLUTs: distLongLUT[npostfix][distSym] = (base, bits); 48 << npostfix entries *)
Definition dist_long_rec (npostfix i : N) : option (N * N) :=
  if i <? 48 * 2 ^ npostfix then
    let hcode := N.shiftr i npostfix in
    let lcode := N.land i (2 ^ npostfix - 1) in
    let nbits := 1 + N.shiftr i (npostfix + 1) in
    let offset := N.shiftl (2 + N.land hcode 1) nbits - 4 in
    Some (w32 (N.shiftl offset npostfix + lcode + 1), w32 nbits)
  else None.

(* neededBits(n uint32): for n--; n > 0; n >>= 1 { nb++ }  (n-- wraps for n = 0) *)
Definition needed_bits (n : N) : N := if n =? 0 then 32 else N.size (n - 1).

(* rcs[sym] of a []rangeCode *)
Definition range_at (rs : list (N * N)) (i : N) : option (N * N) := nth_error rs (N.to_nat i).

Definition maxWordSize : nat := 38.       (* maxDictLen + 13 + 1 *)
Definition discardBuf : N := 8192.        (* io.Discard.ReadFrom's buffer (Go library) *)

(* ---- transform.go ---------------------------------------------------------------------------- *)
(* cnt += copy(buf[cnt:], src) on a buffer of maxWordSize bytes: [acc] is buf[:cnt] *)
Definition bcopy (acc src : list byte) : list byte :=
  acc ++ firstn (maxWordSize - length acc) src.

Definition set_nth (l : list byte) (i : nat) (v : byte) : list byte :=
  firstn i l ++ v :: skipn (S i) l.

(* transformUppercase(word, once): the index loop as written *)
Fixpoint upper_loop (fuel : nat) (w : list byte) (i : nat) (once : bool) : list byte :=
  match fuel with
  | O => w
  | S f =>
    if Nat.ltb i (length w) then
      let c := nth i w 0 in
      let '(w', i') :=
        if c <? 192 then
          ((if (97 <=? c) && (c <=? 122) then set_nth w i (N.lxor c 32) else w), (i + 1)%nat)
        else if c <? 224 then
          ((if Nat.ltb (i + 1) (length w) then set_nth w (i + 1) (N.lxor (nth (i + 1) w 0) 32) else w),
           (i + 2)%nat)
        else
          ((if Nat.ltb (i + 2) (length w) then set_nth w (i + 2) (N.lxor (nth (i + 2) w 0) 5) else w),
           (i + 3)%nat) in
      if once then w' else upper_loop f w' i' once
    else w
  end.
Definition transform_uppercase (w : list byte) (once : bool) : list byte :=
  upper_loop (S (length w)) w 0 once.

(* transformWord(buf, word, id), 0 <= id < len(transformLUT); the result is buf[:cnt].
   transformLUT is [Brotli.Tables.transforms] (generated from the Go table). The upper-case
   cases copy the word and then transform buf2[:len(word)] in place. *)
Definition transform_word (word : list byte) (id : N) : option (list byte) :=
  match nth_error Brotli.Tables.transforms (N.to_nat id) with
  | None => None                                    (* transformLUT[id]: index out of range *)
  | Some (pre, x, suf) =>
    let acc := bcopy [] pre in
    let acc' :=
      match x with
      | Brotli.Tables.XIdentity => Some (bcopy acc word)
      | Brotli.Tables.XUppercaseFirst =>
        let room := (maxWordSize - length acc)%nat in
        if Nat.ltb room (length word) then None     (* buf2[:len(word)] beyond the capacity *)
        else Some (acc ++ transform_uppercase word true)
      | Brotli.Tables.XUppercaseAll =>
        let room := (maxWordSize - length acc)%nat in
        if Nat.ltb room (length word) then None
        else Some (acc ++ transform_uppercase word false)
      | Brotli.Tables.XOmitFirst cut =>
        Some (if Nat.ltb cut (length word) then bcopy acc (skipn cut word) else acc)
      | Brotli.Tables.XOmitLast cut =>
        Some (if Nat.ltb cut (length word) then bcopy acc (firstn (length word - cut) word) else acc)
      end in
    match acc' with
    | None => None
    | Some a => Some (bcopy a suf)
    end
  end.

(* ---- internal.MoveToFront.Decode ------------------------------------------------------------ *)
Definition identity_lut : list N := iota 256.

(* copy(m.dict[:], IdentityLUT[:256-m.tail]); then per index: val := dict[idx]; out;
   copy(dict[1:], dict[:idx]); dict[0] = val. None = slice bound out of range. *)
Fixpoint mtf_loop (dict : list N) (idxs : list N) (mx : N) (acc : list N) : list N * N * list N :=
  match idxs with
  | [] => (dict, mx, fast_rev acc)
  | idx :: r =>
    let i := N.to_nat idx in
    let v := nth i dict 0 in
    mtf_loop (v :: firstn i dict ++ skipn (S i) dict) r (N.lor mx idx) (v :: acc)
  end.

Definition mtf_decode (dict : list N) (tail : Z) (idxs : list N) : option (list N * Z * list N) :=
  if ((0 <=? 256 - tail) && (256 - tail <=? 256))%Z then
    let k := Z.to_nat (256 - tail) in
    let dict0 := firstn k identity_lut ++ skipn k dict in
    let '(d, mx, out) := mtf_loop dict0 idxs 0 [] in
    Some (d, (256 - Z.of_N mx - 1)%Z, out)
  else None.

(* ---- the Reader ------------------------------------------------------------------------------- *)
Inductive stepk := KStreamHeader | KBlockHeader | KRawData | KCommands.

(* blockDecoder; prefixes is a slice: [k_store] is its backing array up to the capacity,
   [k_len] its length *)
Record bdk := mkBdk {
  k_numTypes : N;
  k_typeLen : Z;
  k_t0 : N; k_t1 : N;
  k_decType : dec;
  k_decLen : dec;
  k_store : list dec;
  k_len : nat
}.

Definition bdk_zero : bdk := mkBdk 0 0 0 0 empty_dec empty_dec [] 0.

Record rst := mkRst {
  zr_inOff : Z;               (* InputOffset *)
  zr_outOff : Z;              (* OutputOffset *)
  zr_rd : prd;                (* rd (all fields but prefix) *)
  zr_scratch : dec;           (* rd.prefix *)
  zr_toRead : list byte;
  zr_blkLen : Z;
  zr_insLen : Z;
  zr_cpyLen : Z;
  zr_last : bool;
  zr_err : option err;
  zr_step : stepk;
  zr_stepState : N;
  zr_mtf : list N;            (* mtf.dict (256 entries; all zero in a fresh Reader) *)
  zr_mtfTail : Z;             (* mtf.tail *)
  zr_dict : Window.Dict.dd;
  zr_pend : list byte;        (* literals of the running readLiterals pass, newest first *)
  zr_iac : bdk;
  zr_lit : bdk;
  zr_dst : bdk;
  zr_litMap : nmap N; zr_litMapLen : N;       (* litMap *)
  zr_litMapOff : N; zr_litTypeLen : N;        (* litMapType = litMap[off:], its length *)
  zr_cmode : N;
  zr_cmodes : list N;
  zr_distMap : nmap N; zr_distMapLen : N;
  zr_distMapOff : N; zr_distTypeLen : N;
  zr_dist : Z;
  zr_dists : Z * Z * Z * Z;
  zr_distZero : bool;
  zr_npostfix : N;
  zr_ndirect : N;
  zr_word : list byte         (* the part of the transformed word still to be written *)
}.

(* setters *)
Definition set_rd (s : rst) (p : prd) : rst :=
  mkRst (zr_inOff s) (zr_outOff s) p (zr_scratch s) (zr_toRead s) (zr_blkLen s) (zr_insLen s) (zr_cpyLen s)
        (zr_last s) (zr_err s) (zr_step s) (zr_stepState s) (zr_mtf s) (zr_mtfTail s) (zr_dict s) (zr_pend s)
        (zr_iac s) (zr_lit s) (zr_dst s) (zr_litMap s) (zr_litMapLen s) (zr_litMapOff s) (zr_litTypeLen s) (zr_cmode s)
        (zr_cmodes s) (zr_distMap s) (zr_distMapLen s) (zr_distMapOff s) (zr_distTypeLen s) (zr_dist s) (zr_dists s)
        (zr_distZero s) (zr_npostfix s) (zr_ndirect s) (zr_word s).
Definition set_scratch (s : rst) (d : dec) : rst :=
  mkRst (zr_inOff s) (zr_outOff s) (zr_rd s) d (zr_toRead s) (zr_blkLen s) (zr_insLen s) (zr_cpyLen s)
        (zr_last s) (zr_err s) (zr_step s) (zr_stepState s) (zr_mtf s) (zr_mtfTail s) (zr_dict s) (zr_pend s)
        (zr_iac s) (zr_lit s) (zr_dst s) (zr_litMap s) (zr_litMapLen s) (zr_litMapOff s) (zr_litTypeLen s) (zr_cmode s)
        (zr_cmodes s) (zr_distMap s) (zr_distMapLen s) (zr_distMapOff s) (zr_distTypeLen s) (zr_dist s) (zr_dists s)
        (zr_distZero s) (zr_npostfix s) (zr_ndirect s) (zr_word s).
Definition set_io (s : rst) (i o : Z) (tr : list byte) (e : option err) : rst :=
  mkRst i o (zr_rd s) (zr_scratch s) tr (zr_blkLen s) (zr_insLen s) (zr_cpyLen s)
        (zr_last s) e (zr_step s) (zr_stepState s) (zr_mtf s) (zr_mtfTail s) (zr_dict s) (zr_pend s)
        (zr_iac s) (zr_lit s) (zr_dst s) (zr_litMap s) (zr_litMapLen s) (zr_litMapOff s) (zr_litTypeLen s) (zr_cmode s)
        (zr_cmodes s) (zr_distMap s) (zr_distMapLen s) (zr_distMapOff s) (zr_distTypeLen s) (zr_dist s) (zr_dists s)
        (zr_distZero s) (zr_npostfix s) (zr_ndirect s) (zr_word s).
Definition set_toRead (s : rst) (tr : list byte) : rst := set_io s (zr_inOff s) (zr_outOff s) tr (zr_err s).
Definition set_lens (s : rst) (b i c : Z) : rst :=
  mkRst (zr_inOff s) (zr_outOff s) (zr_rd s) (zr_scratch s) (zr_toRead s) b i c
        (zr_last s) (zr_err s) (zr_step s) (zr_stepState s) (zr_mtf s) (zr_mtfTail s) (zr_dict s) (zr_pend s)
        (zr_iac s) (zr_lit s) (zr_dst s) (zr_litMap s) (zr_litMapLen s) (zr_litMapOff s) (zr_litTypeLen s) (zr_cmode s)
        (zr_cmodes s) (zr_distMap s) (zr_distMapLen s) (zr_distMapOff s) (zr_distTypeLen s) (zr_dist s) (zr_dists s)
        (zr_distZero s) (zr_npostfix s) (zr_ndirect s) (zr_word s).
Definition set_blkLen (s : rst) (b : Z) : rst := set_lens s b (zr_insLen s) (zr_cpyLen s).
Definition set_last (s : rst) (b : bool) : rst :=
  mkRst (zr_inOff s) (zr_outOff s) (zr_rd s) (zr_scratch s) (zr_toRead s) (zr_blkLen s) (zr_insLen s) (zr_cpyLen s)
        b (zr_err s) (zr_step s) (zr_stepState s) (zr_mtf s) (zr_mtfTail s) (zr_dict s) (zr_pend s)
        (zr_iac s) (zr_lit s) (zr_dst s) (zr_litMap s) (zr_litMapLen s) (zr_litMapOff s) (zr_litTypeLen s) (zr_cmode s)
        (zr_cmodes s) (zr_distMap s) (zr_distMapLen s) (zr_distMapOff s) (zr_distTypeLen s) (zr_dist s) (zr_dists s)
        (zr_distZero s) (zr_npostfix s) (zr_ndirect s) (zr_word s).
Definition set_step (s : rst) (k : stepk) (ss : N) : rst :=
  mkRst (zr_inOff s) (zr_outOff s) (zr_rd s) (zr_scratch s) (zr_toRead s) (zr_blkLen s) (zr_insLen s) (zr_cpyLen s)
        (zr_last s) (zr_err s) k ss (zr_mtf s) (zr_mtfTail s) (zr_dict s) (zr_pend s)
        (zr_iac s) (zr_lit s) (zr_dst s) (zr_litMap s) (zr_litMapLen s) (zr_litMapOff s) (zr_litTypeLen s) (zr_cmode s)
        (zr_cmodes s) (zr_distMap s) (zr_distMapLen s) (zr_distMapOff s) (zr_distTypeLen s) (zr_dist s) (zr_dists s)
        (zr_distZero s) (zr_npostfix s) (zr_ndirect s) (zr_word s).
Definition set_mtf (s : rst) (m : list N) (t : Z) : rst :=
  mkRst (zr_inOff s) (zr_outOff s) (zr_rd s) (zr_scratch s) (zr_toRead s) (zr_blkLen s) (zr_insLen s) (zr_cpyLen s)
        (zr_last s) (zr_err s) (zr_step s) (zr_stepState s) m t (zr_dict s) (zr_pend s)
        (zr_iac s) (zr_lit s) (zr_dst s) (zr_litMap s) (zr_litMapLen s) (zr_litMapOff s) (zr_litTypeLen s) (zr_cmode s)
        (zr_cmodes s) (zr_distMap s) (zr_distMapLen s) (zr_distMapOff s) (zr_distTypeLen s) (zr_dist s) (zr_dists s)
        (zr_distZero s) (zr_npostfix s) (zr_ndirect s) (zr_word s).
Definition set_dict (s : rst) (d : Window.Dict.dd) (pend : list byte) : rst :=
  mkRst (zr_inOff s) (zr_outOff s) (zr_rd s) (zr_scratch s) (zr_toRead s) (zr_blkLen s) (zr_insLen s) (zr_cpyLen s)
        (zr_last s) (zr_err s) (zr_step s) (zr_stepState s) (zr_mtf s) (zr_mtfTail s) d pend
        (zr_iac s) (zr_lit s) (zr_dst s) (zr_litMap s) (zr_litMapLen s) (zr_litMapOff s) (zr_litTypeLen s) (zr_cmode s)
        (zr_cmodes s) (zr_distMap s) (zr_distMapLen s) (zr_distMapOff s) (zr_distTypeLen s) (zr_dist s) (zr_dists s)
        (zr_distZero s) (zr_npostfix s) (zr_ndirect s) (zr_word s).
Definition set_blks (s : rst) (i l d : bdk) : rst :=
  mkRst (zr_inOff s) (zr_outOff s) (zr_rd s) (zr_scratch s) (zr_toRead s) (zr_blkLen s) (zr_insLen s) (zr_cpyLen s)
        (zr_last s) (zr_err s) (zr_step s) (zr_stepState s) (zr_mtf s) (zr_mtfTail s) (zr_dict s) (zr_pend s)
        i l d (zr_litMap s) (zr_litMapLen s) (zr_litMapOff s) (zr_litTypeLen s) (zr_cmode s)
        (zr_cmodes s) (zr_distMap s) (zr_distMapLen s) (zr_distMapOff s) (zr_distTypeLen s) (zr_dist s) (zr_dists s)
        (zr_distZero s) (zr_npostfix s) (zr_ndirect s) (zr_word s).
Definition set_lit (s : rst) (m : nmap N) (len off tlen cmode : N) (cmodes : list N) : rst :=
  mkRst (zr_inOff s) (zr_outOff s) (zr_rd s) (zr_scratch s) (zr_toRead s) (zr_blkLen s) (zr_insLen s) (zr_cpyLen s)
        (zr_last s) (zr_err s) (zr_step s) (zr_stepState s) (zr_mtf s) (zr_mtfTail s) (zr_dict s) (zr_pend s)
        (zr_iac s) (zr_lit s) (zr_dst s) m len off tlen cmode
        cmodes (zr_distMap s) (zr_distMapLen s) (zr_distMapOff s) (zr_distTypeLen s) (zr_dist s) (zr_dists s)
        (zr_distZero s) (zr_npostfix s) (zr_ndirect s) (zr_word s).
Definition set_dmap (s : rst) (m : nmap N) (len off tlen : N) : rst :=
  mkRst (zr_inOff s) (zr_outOff s) (zr_rd s) (zr_scratch s) (zr_toRead s) (zr_blkLen s) (zr_insLen s) (zr_cpyLen s)
        (zr_last s) (zr_err s) (zr_step s) (zr_stepState s) (zr_mtf s) (zr_mtfTail s) (zr_dict s) (zr_pend s)
        (zr_iac s) (zr_lit s) (zr_dst s) (zr_litMap s) (zr_litMapLen s) (zr_litMapOff s) (zr_litTypeLen s) (zr_cmode s)
        (zr_cmodes s) m len off tlen (zr_dist s) (zr_dists s)
        (zr_distZero s) (zr_npostfix s) (zr_ndirect s) (zr_word s).
Definition set_dist (s : rst) (d : Z) (ds : Z * Z * Z * Z) (z : bool) : rst :=
  mkRst (zr_inOff s) (zr_outOff s) (zr_rd s) (zr_scratch s) (zr_toRead s) (zr_blkLen s) (zr_insLen s) (zr_cpyLen s)
        (zr_last s) (zr_err s) (zr_step s) (zr_stepState s) (zr_mtf s) (zr_mtfTail s) (zr_dict s) (zr_pend s)
        (zr_iac s) (zr_lit s) (zr_dst s) (zr_litMap s) (zr_litMapLen s) (zr_litMapOff s) (zr_litTypeLen s) (zr_cmode s)
        (zr_cmodes s) (zr_distMap s) (zr_distMapLen s) (zr_distMapOff s) (zr_distTypeLen s) d ds
        z (zr_npostfix s) (zr_ndirect s) (zr_word s).
Definition set_post (s : rst) (np nd : N) : rst :=
  mkRst (zr_inOff s) (zr_outOff s) (zr_rd s) (zr_scratch s) (zr_toRead s) (zr_blkLen s) (zr_insLen s) (zr_cpyLen s)
        (zr_last s) (zr_err s) (zr_step s) (zr_stepState s) (zr_mtf s) (zr_mtfTail s) (zr_dict s) (zr_pend s)
        (zr_iac s) (zr_lit s) (zr_dst s) (zr_litMap s) (zr_litMapLen s) (zr_litMapOff s) (zr_litTypeLen s) (zr_cmode s)
        (zr_cmodes s) (zr_distMap s) (zr_distMapLen s) (zr_distMapOff s) (zr_distTypeLen s) (zr_dist s) (zr_dists s)
        (zr_distZero s) np nd (zr_word s).
Definition set_word (s : rst) (w : list byte) : rst :=
  mkRst (zr_inOff s) (zr_outOff s) (zr_rd s) (zr_scratch s) (zr_toRead s) (zr_blkLen s) (zr_insLen s) (zr_cpyLen s)
        (zr_last s) (zr_err s) (zr_step s) (zr_stepState s) (zr_mtf s) (zr_mtfTail s) (zr_dict s) (zr_pend s)
        (zr_iac s) (zr_lit s) (zr_dst s) (zr_litMap s) (zr_litMapLen s) (zr_litMapOff s) (zr_litTypeLen s) (zr_cmode s)
        (zr_cmodes s) (zr_distMap s) (zr_distMapLen s) (zr_distMapOff s) (zr_distTypeLen s) (zr_dist s) (zr_dists s)
        (zr_distZero s) (zr_npostfix s) (zr_ndirect s) w.

(* ---- outcomes of a step ----------------------------------------------------------------------- *)
Inductive sres (A : Type) : Type :=
| SOk (a : A) (s : rst)
| SErr (e : err) (s : rst)        (* errors.Panic(e), with the state at that moment *)
| SCrash                          (* Go run-time panic *)
| SHang.                          (* a Go loop that never ends *)
Arguments SOk {A} a s.
Arguments SErr {A} e s.
Arguments SCrash {A}.
Arguments SHang {A}.

Definition M (A : Type) : Type := rst -> sres A.
Definition ret {A} (a : A) : M A := fun s => SOk a s.
Definition throw {A} (e : err) : M A := fun s => SErr e s.
Definition crash {A} : M A := fun _ => SCrash.
Definition mbind {A B} (m : M A) (f : A -> M B) : M B :=
  fun s => match m s with
           | SOk a s' => f a s'
           | SErr e s' => SErr e s'
           | SCrash => SCrash
           | SHang => SHang
           end.
Definition get : M rst := fun s => SOk s s.
Definition modify (f : rst -> rst) : M unit := fun s => SOk tt (f s).

Declare Scope brm_scope.
Delimit Scope brm_scope with brm.
Notation "x <~ m ;; k" := (mbind m (fun x => k))
  (at level 61, m at next level, right associativity) : brm_scope.
Notation "m ;;~ k" := (mbind m (fun _ => k))
  (at level 61, right associativity) : brm_scope.
Local Open Scope brm_scope.

Definition corrupted {A} : M A := throw ECorrupted.
Definition when (c : bool) (m : M unit) : M unit := if c then m else ret tt.


(* the three block decoders *)
Inductive bsel := BLit | BIac | BDst.
Definition get_blk (b : bsel) (s : rst) : bdk :=
  match b with BLit => zr_lit s | BIac => zr_iac s | BDst => zr_dst s end.
Definition put_blk (b : bsel) (s : rst) (bd : bdk) : rst :=
  match b with
  | BLit => set_blks s (zr_iac s) bd (zr_dst s)
  | BIac => set_blks s bd (zr_lit s) (zr_dst s)
  | BDst => set_blks s (zr_iac s) (zr_lit s) bd
  end.
Definition upd_blk (b : bsel) (f : bdk -> bdk) : M unit :=
  modify (fun s => put_blk b s (f (get_blk b s))).

Definition bdk_types (bd : bdk) (n : N) (tl : Z) (t0 t1 : N) : bdk :=
  mkBdk n tl t0 t1 (k_decType bd) (k_decLen bd) (k_store bd) (k_len bd).
Definition bdk_decs (bd : bdk) (dt dl : dec) : bdk :=
  mkBdk (k_numTypes bd) (k_typeLen bd) (k_t0 bd) (k_t1 bd) dt dl (k_store bd) (k_len bd).
Definition with_trees (bd : bdk) (store : list dec) (n : nat) : bdk :=
  mkBdk (k_numTypes bd) (k_typeLen bd) (k_t0 bd) (k_t1 bd) (k_decType bd) (k_decLen bd) store n.

Section Reader.
(* the size of the bufio.Reader's buffer on the Peek/Discard path (4096 when bitReader.Init
   wraps the source itself) *)
Variable bsz : nat.
(* the static dictionary dictLUT: its length and its bytes *)
Variable dict_len : N.
Variable dict_byte : N -> N.

(* ---- the bit reader, lifted ------------------------------------------------------------------- *)
Definition of_feed {A} (r : feedres) (p : prd) (ok : M A) : M A := fun s =>
  match r with
  | FdOk => ok (set_rd s p)
  | FdEof => SErr EUEOF (set_rd s p)
  | FdCrash => SCrash
  | FdFuel => SErr EFuel (set_rd s p)
  end.

(* ReadBits(nb) *)
Definition m_read_bits (nb : N) : M N := fun s =>
  let '((r, v), p) := bread_bits bsz (zr_rd s) nb in of_feed r p (ret v) s.

(* v, ok := TryReadBits(nb); if !ok { v = ReadBits(nb) } *)
Definition m_try_read_bits (nb : N) : M N := fun s =>
  match btry_bits (zr_rd s) nb with
  | (Some v, p) => SOk v (set_rd s p)
  | (None, _) => m_read_bits nb s
  end.

(* ReadPads() *)
Definition m_read_pads : M N := fun s =>
  let '(v, p) := read_pads (zr_rd s) in SOk v (set_rd s p).

(* ReadSymbol(pd) *)
Definition m_read_symbol (d : dec) : M N := fun s =>
  match br_read_symbol bsz d (zr_rd s) with
  | (RSym v, p) => SOk v (set_rd s p)
  | (RUEOF, p) => SErr EUEOF (set_rd s p)
  | (RInvalid, p) => SErr EInvalid (set_rd s p)      (* errors.Panic(errInvalid): not wrapped *)
  | (RPanic, _) => SCrash
  | (RFuel, p) => SErr EFuel (set_rd s p)
  end.

(* sym, ok := TryReadSymbol(pd); if !ok { sym = ReadSymbol(pd) } *)
Definition m_try_read_symbol (d : dec) : M N := fun s =>
  match try_read_symbol d (zr_rd s) with
  | (None, _) => SCrash
  | (Some (Some v), p) => SOk v (set_rd s p)
  | (Some None, _) => m_read_symbol d s
  end.

(* ReadOffset(sym, rcs) *)
Definition m_read_offset (sym : N) (rcs : list (N * N)) : M N :=
  match range_at rcs sym with
  | None => crash
  | Some (base, nb) => v <~ m_read_bits nb ;; ret (base + v)
  end.

(* pd.Init(codes, assign) over the storage of [old] *)
Definition dec_oldC (d : dec) : N -> N :=
  fun i => match arr_get (d_chunks d) i with Some v => v | None => a_old (d_chunks d) i end.
Definition dec_oldL (d : dec) : N -> N -> N :=
  fun i j => if (i <? d_nlinks d) && (j <? d_linkLen d)
             then match arr_get (d_flat d) (i * d_linkLen d + j) with Some v => v | None => 0 end
             else 0.

Definition m_dec_init (old : dec) (codes : list pcode) (assign : bool) : M dec :=
  match br_dec_init (dec_oldC old) (dec_oldL old) codes assign with
  | BOk (d, _) => ret d
  | BCorrupt => corrupted
  | BCrash => crash
  end.

(* ---- bit_reader.go: readSimplePrefixCode ------------------------------------------------------ *)
Fixpoint read_n_bits (n : nat) (nb : N) : M (list N) :=
  match n with
  | O => ret []
  | S n' => v <~ m_read_bits nb ;; r <~ read_n_bits n' nb ;; ret (w32 v :: r)
  end.

(* if codes[i].sym > codes[j].sym { swap } on a list of (sym, len) *)
Definition cswap (i j : nat) (l : list (N * N)) : list (N * N) :=
  let a := nth i l (0, 0) in
  let b := nth j l (0, 0) in
  if fst b <? fst a then
    map (fun k => if Nat.eqb k i then b else if Nat.eqb k j then a else nth k l (0, 0))
        (seq 0 (length l))
  else l.

(* [tgt]: the decoder being initialised (its storage is recycled); None = rd.prefix itself *)
Definition init_target (tgt : option dec) (codes : list pcode) : M dec :=
  s <~ get ;;
  m_dec_init (match tgt with Some d => d | None => zr_scratch s end) codes true.

Definition read_simple_prefix_code (tgt : option dec) (maxSyms : N) : M dec :=
  n1 <~ m_read_bits 2 ;;
  let nsym := (N.to_nat n1 + 1)%nat in
  let clen := needed_bits (w32 maxSyms) in
  syms <~ read_n_bits nsym clen ;;
  sl <~ (match nsym with
         | 1%nat => ret (combine syms simpleLens1)
         | 2%nat => ret (cswap 0 1 (combine syms simpleLens2))
         | 3%nat => ret (cswap 1 2 (cswap 0 2 (cswap 0 1 (combine syms simpleLens3))))
         | _ =>
           tsel <~ m_read_bits 1 ;;
           let l0 := combine syms (if tsel =? 1 then simpleLens4b else simpleLens4a) in
           ret (cswap 1 2 (cswap 1 3 (cswap 0 2 (cswap 2 3 (cswap 0 1 l0)))))
         end) ;;
  when (maxSyms <=? fst (nth (nsym - 1) sl (0, 0))) corrupted ;;~
  init_target tgt (map (fun x => (fst x, snd x, 0)) sl).

(* ---- bit_reader.go: readComplexPrefixCode ----------------------------------------------------- *)
(* the loop over complexLens[hskip:]; acc: (sym, clen) with clen > 0, in stream order *)
Fixpoint read_clens_loop (order : list N) (sum : Z) (acc : list (N * N)) : M (list (N * N)) :=
  match order with
  | [] => ret acc
  | sym :: r =>
    clen <~ m_read_symbol decCLens ;;
    if 0 <? clen then
      let sum' := (sum - Z.of_N (N.shiftr 32 clen))%Z in
      if (sum' <=? 0)%Z then ret ((sym, clen) :: acc)
      else read_clens_loop r sum' ((sym, clen) :: acc)
    else read_clens_loop r sum acc
  end.

Record cxst := mkCx {
  x_sym : N; x_sum : Z; x_repSymLast : N; x_repCntLast : N; x_clenLast : N;
  x_codes : list pcode       (* newest first *)
}.

Fixpoint rep_codes (n : nat) (sym clen : N) (acc : list pcode) : list pcode :=
  match n with
  | O => acc
  | S n' => rep_codes n' (sym + 1) clen ((w32 sym, w32 clen, 0) :: acc)
  end.

(* for sym, sum = 0, 32768; sym < maxSyms && sum > 0; { ... } *)
Fixpoint read_syms_loop (fuel : nat) (cl : dec) (maxSyms : N) (x : cxst) : M cxst :=
  if (x_sym x <? maxSyms) && (0 <? x_sum x)%Z then
    match fuel with
    | O => throw EFuel
    | S f =>
      clen <~ m_read_symbol cl ;;
      if clen <? 16 then
        let x' :=
          if 0 <? clen then
            mkCx (x_sym x + 1) (x_sum x - Z.of_N (N.shiftr 32768 clen))%Z 0 (x_repCntLast x) clen
                 ((w32 (x_sym x), w32 clen, 0) :: x_codes x)
          else mkCx (x_sym x + 1) (x_sum x) 0 (x_repCntLast x) (x_clenLast x) (x_codes x) in
        read_syms_loop f cl maxSyms x'
      else
        let repSym := clen in
        let repCntLast0 := if negb (repSym =? x_repSymLast x) then 0 else x_repCntLast x in
        let nb := repSym - 14 in
        v <~ m_read_bits nb ;;
        let rep0 := v + 3 in
        let rep := if 0 <? repCntLast0 then rep0 + N.shiftl (repCntLast0 - 2) nb else rep0 in
        let repDiff := rep - repCntLast0 in              (* always positive *)
        let x' :=
          if repSym =? 16 then
            mkCx (x_sym x + repDiff)
                 (x_sum x - Z.of_N repDiff * Z.of_N (N.shiftr 32768 (x_clenLast x)))%Z
                 repSym rep (x_clenLast x)
                 (rep_codes (N.to_nat repDiff) (x_sym x) (x_clenLast x) (x_codes x))
          else mkCx (x_sym x + repDiff) (x_sum x) repSym rep (x_clenLast x) (x_codes x) in
        read_syms_loop f cl maxSyms x'
    end
  else ret x.

Definition read_complex_prefix_code (tgt : option dec) (maxSyms hskip : N) : M dec :=
  cls <~ read_clens_loop (skipn (N.to_nat hskip) complexLens) 32 [] ;;
  (* compaction of codeCLensArr: by increasing symbol *)
  let codeCL := map (fun x => (w32 (fst x), w32 (snd x), 0)) (Flate.Spec.sort_by_sym cls) in
  when (Nat.ltb (length codeCL) 1) corrupted ;;~
  s0 <~ get ;;
  cl <~ m_dec_init (zr_scratch s0) codeCL true ;;
  modify (fun s => set_scratch s cl) ;;~
  x <~ read_syms_loop (S (N.to_nat maxSyms)) cl maxSyms (mkCx 0 32768 0 0 8 []) ;;
  when (Nat.ltb (length (x_codes x)) 2 || (maxSyms <? x_sym x)) corrupted ;;~
  init_target tgt (fast_rev (x_codes x)).

(* ReadPrefixCode(pd, maxSyms) *)
Definition read_prefix_code (tgt : option dec) (maxSyms : N) : M dec :=
  hskip <~ m_read_bits 2 ;;
  if hskip =? 1 then read_simple_prefix_code tgt maxSyms
  else read_complex_prefix_code tgt maxSyms hskip.

(* ---- the window, lifted ----------------------------------------------------------------------- *)
Definition of_dres {A B} (r : Window.Dict.dres A) (k : A -> M B) : M B :=
  match r with
  | Window.Dict.Ok a => k a
  | Window.Dict.Panic => crash
  | Window.Dict.Hang => fun _ => SHang
  | Window.Dict.Fuel => throw EFuel
  end.

(* the pending literals into the array: copy into WriteSlice() + WriteMark, already done in Go *)
Definition commit_pend (s : rst) : sres unit :=
  match zr_pend s with
  | [] => SOk tt s
  | _ =>
    match Window.Dict.write_raw (zr_dict s) (fast_rev (zr_pend s)) with
    | Window.Dict.Ok (_, d') => SOk tt (set_dict s d' [])
    | Window.Dict.Panic => SCrash
    | Window.Dict.Hang => SHang
    | Window.Dict.Fuel => SErr EFuel s
    end
  end.

(* br.toRead = br.dict.ReadFlush() *)
Definition m_read_flush : M unit := fun s =>
  match Window.Dict.read_flush (zr_dict s) with
  | Window.Dict.Ok (bs, d') => SOk tt (set_toRead (set_dict s d' (zr_pend s)) bs)
  | Window.Dict.Panic => SCrash
  | Window.Dict.Hang => SHang
  | Window.Dict.Fuel => SErr EFuel s
  end.

(* n := copy(WriteSlice(), bs); WriteMark(n) for len(bs) <= AvailSize() *)
Definition m_write (bs : list byte) : M unit := fun s =>
  match Window.Dict.write_raw (zr_dict s) bs with
  | Window.Dict.Ok (_, d') => SOk tt (set_dict s d' (zr_pend s))
  | Window.Dict.Panic => SCrash
  | Window.Dict.Hang => SHang
  | Window.Dict.Fuel => SErr EFuel s
  end.

(* ---- readBlockSwitch ---------------------------------------------------------------------------- *)
Definition read_block_switch (b : bsel) : M unit :=
  s0 <~ get ;;
  let bd := get_blk b s0 in
  t <~ m_read_symbol (k_decType bd) ;;
  let symType :=
    if t =? 0 then k_t1 bd
    else if t =? 1 then
      (if k_numTypes bd <=? k_t0 bd + 1 then k_t0 bd + 1 - k_numTypes bd else k_t0 bd + 1)
    else t - 2 in
  upd_blk b (fun bd => bdk_types bd (k_numTypes bd) (k_typeLen bd) (symType mod 256) (k_t0 bd)) ;;~
  symLen <~ m_read_symbol (k_decLen bd) ;;
  n <~ m_read_offset symLen Brotli.Spec.blk_ranges ;;
  upd_blk b (fun bd => bdk_types bd (k_numTypes bd) (Z.of_N n) (k_t0 bd) (k_t1 bd)).

Definition bdk_dec (bd : bdk) : bdk :=
  mkBdk (k_numTypes bd) (k_typeLen bd - 1)%Z (k_t0 bd) (k_t1 bd)
        (k_decType bd) (k_decLen bd) (k_store bd) (k_len bd).

(* bd.prefixes[i] *)
Definition bdk_prefix (bd : bdk) (i : N) : option dec :=
  if Nat.ltb (N.to_nat i) (k_len bd) then nth_error (k_store bd) (N.to_nat i) else None.

(* ---- readContextMap ----------------------------------------------------------------------------- *)
(* for i := 0; i < len(cm); { ... }; acc newest first, [i] entries so far *)
Fixpoint cmap_loop (fuel : nat) (len maxRLE i : N) (acc : list N) : M (list N) :=
  if i <? len then
    match fuel with
    | O => throw EFuel
    | S f =>
      s0 <~ get ;;
      sym <~ m_read_symbol (zr_scratch s0) ;;
      if (sym =? 0) || (maxRLE <? sym) then
        let v := if 0 <? sym then sym - maxRLE else sym in
        cmap_loop f len maxRLE (i + 1) (v mod 256 :: acc)
      else
        n <~ m_read_offset (sym - 1) rle_ranges ;;
        if len <? i + n then corrupted
        else cmap_loop f len maxRLE (i + n) (repeat_acc (N.to_nat n) 0 acc)
    end
  else ret (fast_rev acc).

Definition read_context_map (len numTrees : N) : M (list N) :=
  maxRLE <~ m_read_symbol decMaxRLE ;;
  d <~ read_prefix_code None (maxRLE + numTrees) ;;
  modify (fun s => set_scratch s d) ;;~
  cm <~ cmap_loop (S (N.to_nat len)) len maxRLE 0 [] ;;
  inv <~ m_read_bits 1 ;;
  if inv =? 1 then
    s <~ get ;;
    match mtf_decode (zr_mtf s) (zr_mtfTail s) cm with
    | None => crash
    | Some (d', t', out) => modify (fun s => set_mtf s d' t') ;;~ ret out
    end
  else ret cm.

(* ---- readPrefixCodes ---------------------------------------------------------------------------- *)
(* the loop body for one blockDecoder *)
Definition read_blk_types (b : bsel) : M unit :=
  upd_blk b (fun bd => bdk_types bd (k_numTypes bd) (-1) 0 1) ;;~
  n <~ m_read_symbol decCounts ;;
  upd_blk b (fun bd => bdk_types bd n (k_typeLen bd) (k_t0 bd) (k_t1 bd)) ;;~
  if 2 <=? n then
    s0 <~ get ;;
    dt <~ read_prefix_code (Some (k_decType (get_blk b s0))) (n + 2) ;;
    upd_blk b (fun bd => bdk_decs bd dt (k_decLen bd)) ;;~
    dl <~ read_prefix_code (Some (k_decLen (get_blk b s0))) 26 ;;
    upd_blk b (fun bd => bdk_decs bd (k_decType bd) dl) ;;~
    sym <~ m_read_symbol dl ;;
    c <~ m_read_offset sym Brotli.Spec.blk_ranges ;;
    upd_blk b (fun bd => bdk_types bd (k_numTypes bd) (Z.of_N c) (k_t0 bd) (k_t1 bd))
  else ret tt.

Fixpoint read_cmodes (n : nat) : M (list N) :=
  match n with
  | O => ret []
  | S n' => v <~ m_read_bits 2 ;; r <~ read_cmodes n' ;; ret (v mod 256 :: r)
  end.

(* extendDecoders(s, n) on (backing array, len) *)
Definition extend_decoders (store : list dec) (n : nat) : list dec :=
  if Nat.leb n (length store) then store
  else store ++ repeat empty_dec (n * 3 / 2 - length store).

Definition set_nth_dec (l : list dec) (i : nat) (d : dec) : list dec :=
  firstn i l ++ d :: skipn (S i) l.

(* for i := range prefixes { ReadPrefixCode(&prefixes[i], maxSyms) }, from index i, k to go *)
Fixpoint read_trees (k : nat) (b : bsel) (i : nat) (maxSyms : N) : M unit :=
  match k with
  | O => ret tt
  | S k' =>
    s0 <~ get ;;
    match nth_error (k_store (get_blk b s0)) i with
    | None => crash
    | Some o =>
      d <~ read_prefix_code (Some o) maxSyms ;;
      upd_blk b (fun bd => with_trees bd (set_nth_dec (k_store bd) i d) (k_len bd)) ;;~
      read_trees k' b (S i) maxSyms
    end
  end.

(* bd.prefixes = extendDecoders(bd.prefixes, n); for i := range bd.prefixes { ... } *)
Definition read_tree_group (b : bsel) (n : nat) (maxSyms : N) : M unit :=
  upd_blk b (fun bd => with_trees bd (extend_decoders (k_store bd) n) n) ;;~
  read_trees n b 0 maxSyms.

Definition read_prefix_codes : M unit :=
  read_blk_types BLit ;;~
  read_blk_types BIac ;;~
  read_blk_types BDst ;;~
  npostfix <~ m_read_bits 2 ;;
  nd4 <~ m_read_bits 4 ;;
  let ndirect := N.shiftl nd4 npostfix in
  modify (fun s => set_post s (npostfix mod 256) (ndirect mod 256)) ;;~
  let numDistSyms := 16 + ndirect + N.shiftl 48 npostfix in
  s0 <~ get ;;
  let ntl := k_numTypes (zr_lit s0) in
  let ntd := k_numTypes (zr_dst s0) in
  let nti := k_numTypes (zr_iac s0) in
  cmodes <~ read_cmodes (N.to_nat ntl) ;;
  cmode0 <~ (match cmodes with [] => crash | c :: _ => ret c end) ;;
  modify (fun s => set_lit s (zr_litMap s) (zr_litMapLen s) (zr_litMapOff s) (zr_litTypeLen s)
                           cmode0 cmodes) ;;~
  (* CMAPL: litMap = allocUint8s(litMap, 64*numTypes) first; litMapType still the old slice *)
  numLitTrees <~ m_read_symbol decCounts ;;
  let llen := 64 * ntl in
  modify (fun s => set_lit s (zr_litMap s) llen (zr_litMapOff s) (zr_litTypeLen s)
                           (zr_cmode s) (zr_cmodes s)) ;;~
  lm <~ (if 2 <=? numLitTrees then read_context_map llen numLitTrees
         else ret (repeat 0 (N.to_nat llen))) ;;
  modify (fun s => set_lit s (nm_of_list lm) llen 0 llen (zr_cmode s) (zr_cmodes s)) ;;~
  (* CMAPD *)
  numDistTrees <~ m_read_symbol decCounts ;;
  let dlen := 4 * ntd in
  modify (fun s => set_dmap s (zr_distMap s) dlen (zr_distMapOff s) (zr_distTypeLen s)) ;;~
  dm <~ (if 2 <=? numDistTrees then read_context_map dlen numDistTrees
         else ret (repeat 0 (N.to_nat dlen))) ;;
  modify (fun s => set_dmap s (nm_of_list dm) dlen 0 dlen) ;;~
  (* HTREEL, HTREEI, HTREED *)
  read_tree_group BLit (N.to_nat numLitTrees) 256 ;;~
  read_tree_group BIac (N.to_nat nti) 704 ;;~
  read_tree_group BDst (N.to_nat numDistTrees) numDistSyms ;;~
  modify (fun s => set_step s KCommands (zr_stepState s)).

(* ---- readMetaData ------------------------------------------------------------------------------- *)
(* io.CopyBuffer(ioutil.Discard, &io.LimitedReader{R: &br.rd, N: blkLen}, metaBuf): Discard
   implements ReaderFrom, so the copy is  for { n, err := lr.Read(buf8192) ... }: it ends at
   io.EOF (the limit reached, or the source exhausted) with a nil error. Result: the count. *)
Fixpoint meta_loop (fuel : nat) (left cnt : N) : M N :=
  if left =? 0 then ret cnt else
  match fuel with
  | O => throw EFuel
  | S f => fun s =>
    let k := N.to_nat (N.min left discardBuf) in
    let '((bs, e), p) := bread_raw bsz (zr_rd s) k in
    let s' := set_rd s p in
    let n := N.of_nat (length bs) in
    if e =? 0 then meta_loop f (left - n) (cnt + n) s'
    else if e =? 1 then SOk (cnt + n) s'
    else SErr EInvalid s'                      (* "non-aligned bit buffer": errors.Invalid *)
  end.

Definition read_meta_data : M unit :=
  s <~ get ;;
  let n := Z.to_N (zr_blkLen s) in
  cnt <~ meta_loop (S (S (length (s_data (p_src (zr_rd s)))))) n 0 ;;
  when (cnt <? n) (throw EUEOF) ;;~
  modify (fun s => set_step s KBlockHeader (zr_stepState s)).

(* ---- readRawData -------------------------------------------------------------------------------- *)
Definition read_raw_data : M unit := fun s =>
  let d := zr_dict s in
  (* buf := WriteSlice(); if len(buf) > blkLen { buf = buf[:blkLen] } *)
  if negb (Window.Dict.slice_ok (Window.Dict.d_len d) (Window.Dict.d_wr d) (Window.Dict.d_len d)) then SCrash else
  let avail := Window.Dict.avail_size d in
  if (zr_blkLen s <? avail)%Z && (zr_blkLen s <? 0)%Z then SCrash else
  let k := Z.to_nat (Z.min avail (zr_blkLen s)) in
  let '((bs, e), p) := bread_raw bsz (zr_rd s) k in
  let cnt := Z.of_nat (length bs) in
  (m_write bs ;;~
   modify (fun s => set_blkLen s (zr_blkLen s - cnt)%Z) ;;~
   (if e =? 0 then ret tt
    else if e =? 1 then throw EUEOF
    else throw EInvalid) ;;~
   s1 <~ get ;;
   if (0 <? zr_blkLen s1)%Z then
     m_read_flush ;;~ modify (fun s => set_step s KRawData (zr_stepState s))
   else modify (fun s => set_step s KBlockHeader (zr_stepState s)))
  (set_rd s p).

(* ---- readBlockHeader ---------------------------------------------------------------------------- *)
(* the branch "if br.last": pads must be zero, then io.EOF *)
Definition finish_stream {A} : M A :=
  v <~ m_read_pads ;;
  if 0 <? v then corrupted else throw EEOF.

Definition check_pads : M unit :=
  v <~ m_read_pads ;; when (0 <? v) corrupted.

(* what the header announces *)
Inductive mbk := MKLastEmpty | MKMeta | MKRaw | MKComp.

(* the rest of the header of a metadata block: reserved bit, MSKIPBYTES, MSKIPLEN, padding *)
Definition read_meta_header : M mbk :=
  reserved <~ m_read_bits 1 ;;
  when (reserved =? 1) corrupted ;;~
  skipBytes <~ m_read_bits 2 ;;
  skipLen <~ (if 0 <? skipBytes then
                v <~ m_read_bits (skipBytes * 8) ;;
                when ((1 <? skipBytes) && (N.shiftr v ((skipBytes - 1) * 8) =? 0)) corrupted ;;~
                ret (v + 1)
              else ret 0) ;;
  check_pads ;;~
  modify (fun s => set_blkLen s (Z.of_N skipLen)) ;;~
  ret MKMeta.

(* MLEN, ISUNCOMPRESSED (and the padding of an uncompressed block) *)
Definition read_data_header (islast nibbles : N) : M mbk :=
  v <~ m_read_bits (nibbles * 4) ;;
  when ((4 <? nibbles) && (N.shiftr v ((nibbles - 1) * 4) =? 0)) corrupted ;;~
  modify (fun s => set_blkLen s (Z.of_N v + 1)) ;;~
  unc <~ (if islast =? 1 then ret false else b <~ m_read_bits 1 ;; ret (b =? 1)) ;;
  if unc then check_pads ;;~ ret MKRaw
  else ret MKComp.

(* ISLAST, ISLASTEMPTY, MNIBBLES, MLEN / MSKIPLEN, ISUNCOMPRESSED and the padding checks; sets
   br.last and br.blkLen on the way *)
Definition read_mb_header : M mbk :=
  islast <~ m_read_bits 1 ;;
  modify (fun s => set_last s (islast =? 1)) ;;~
  empty <~ (if islast =? 1 then b <~ m_read_bits 1 ;; ret (b =? 1) else ret false) ;;
  if empty then ret MKLastEmpty
  else
  nb <~ m_read_bits 2 ;;
  let nibbles := nb + 4 in
  if nibbles =? 7 then read_meta_header
  else read_data_header islast nibbles.

Definition read_block_header : M unit :=
  s0 <~ get ;;
  if zr_last s0 then finish_stream else
  k <~ read_mb_header ;;
  match k with
  | MKLastEmpty => finish_stream            (* the recursive call: br.last is set *)
  | MKMeta => read_meta_data
  | MKRaw => read_raw_data
  | MKComp => read_prefix_codes
  end.

(* ---- readStreamHeader --------------------------------------------------------------------------- *)
Definition read_stream_header : M unit :=
  wbits <~ m_read_symbol decWinBits ;;
  when (wbits =? 0) corrupted ;;~
  let size := (2 ^ Z.of_N wbits - 16)%Z in
  s <~ get ;;
  of_dres (Window.DictBr.br_init size (match Window.Dict.d_arr (zr_dict s) with [] => None | a => Some a end))
          (fun d => modify (fun s => set_dict s d (zr_pend s))) ;;~
  read_block_header.

(* ---- readCommands ------------------------------------------------------------------------------- *)
Definition stateInit : N := 0.
Definition stateLiterals : N := 1.
Definition stateDynamicDict : N := 2.
Definition stateStaticDict : N := 3.

(* where the goto chain stands *)
Inductive label := LStart | LLiterals | LDistance | LDynamic | LStatic | LFinish.

(* the loop over buf in readLiterals: [k] iterations; p1, p2 carried; each literal goes to
   [zr_pend] (buf[i] = byte(litSym); WriteMark(1)) *)
Fixpoint lit_loop (k : nat) (p1 p2 : N) : M unit :=
  match k with
  | O => ret tt
  | S k' =>
    s0 <~ get ;;
    (if (k_typeLen (zr_lit s0) =? 0)%Z then
       read_block_switch BLit ;;~
       s1 <~ get ;;
       (* litMapType = litMap[64*types[0]:] ; cmode = cmodes[types[0]] *)
       let t0 := k_t0 (zr_lit s1) in
       let off := 64 * t0 in
       if zr_litMapLen s1 <? off then crash else
       modify (fun s => set_lit s (zr_litMap s) (zr_litMapLen s) off (zr_litMapLen s - off)
                                (zr_cmode s) (zr_cmodes s)) ;;~
       match nth_error (zr_cmodes s1) (N.to_nat t0) with
       | None => crash
       | Some cm =>
         modify (fun s => set_lit s (zr_litMap s) (zr_litMapLen s) (zr_litMapOff s) (zr_litTypeLen s)
                                  cm (zr_cmodes s))
       end
     else ret tt) ;;~
    modify (fun s => set_blks s (zr_iac s) (bdk_dec (zr_lit s)) (zr_dst s)) ;;~
    s2 <~ get ;;
    if 3 <? zr_cmode s2 then crash else     (* contextP1LUT[mode<<8 + p1]: 1024 entries *)
    let cid := Brotli.Spec.lit_context (zr_cmode s2) p1 p2 in
    (* litMapType[litCID] *)
    if zr_litTypeLen s2 <=? cid then crash else
    match nm_get (zr_litMap s2) (zr_litMapOff s2 + cid) with
    | None => crash
    | Some ti =>
      match bdk_prefix (zr_lit s2) ti with
      | None => crash
      | Some tree =>
        litSym <~ m_try_read_symbol tree ;;
        let b := litSym mod 256 in
        modify (fun s => set_dict s (zr_dict s) (b :: zr_pend s)) ;;~
        lit_loop k' b p1
      end
    end
  end.

Definition ring_get (r : Z * Z * Z * Z) (i : N) : option Z :=
  let '(a, b, c, d) := r in
  if i =? 0 then Some a else if i =? 1 then Some b else if i =? 2 then Some c
  else if i =? 3 then Some d else None.

(* one pass through the labels, from [l]; true = return from readCommands (suspended) *)
Definition cmd_label (l : label) : M (label + bool) :=
  match l with
  | LStart =>
    s0 <~ get ;;
    (if (k_typeLen (zr_iac s0) =? 0)%Z then read_block_switch BIac else ret tt) ;;~
    modify (fun s => set_blks s (bdk_dec (zr_iac s)) (zr_lit s) (zr_dst s)) ;;~
    s1 <~ get ;;
    match bdk_prefix (zr_iac s1) (k_t0 (zr_iac s1)) with
    | None => crash
    | Some tree =>
      iacSym <~ m_try_read_symbol tree ;;
      if 704 <=? iacSym then crash else          (* iacLUT[iacSym] *)
      let '(icode, ccode) := Brotli.Spec.iac_codes iacSym in
      let '(ibase, inb) := Flate.Spec.nth_range Brotli.Spec.ins_ranges icode in
      let '(cbase, cnb) := Flate.Spec.nth_range Brotli.Spec.cpy_ranges ccode in
      insExtra <~ m_try_read_bits inb ;;
      cpyExtra <~ m_try_read_bits cnb ;;
      let insLen := Z.of_N (ibase + insExtra) in
      let cpyLen := Z.of_N (cbase + cpyExtra) in
      modify (fun s => set_dist (set_lens s (zr_blkLen s) insLen cpyLen)
                                (zr_dist s) (zr_dists s) (iacSym <? 128)) ;;~
      s2 <~ get ;;
      if (zr_blkLen s2 <? insLen)%Z then corrupted
      else if (0 <? insLen)%Z then ret (inl LLiterals) else ret (inl LDistance)
    end
  | LLiterals =>
    s0 <~ get ;;
    let d := zr_dict s0 in
    if negb (Window.Dict.slice_ok (Window.Dict.d_len d) (Window.Dict.d_wr d) (Window.Dict.d_len d)) then crash else
    let avail := Window.Dict.avail_size d in
    if (zr_insLen s0 <? avail)%Z && (zr_insLen s0 <? 0)%Z then crash else
    let k := Z.min avail (zr_insLen s0) in
    of_dres (Window.DictBr.last_bytes d) (fun pp =>
    lit_loop (Z.to_nat k) (fst pp) (snd pp) ;;~
    (fun s => commit_pend s) ;;~
    modify (fun s => set_lens s (zr_blkLen s - k)%Z (zr_insLen s - k)%Z (zr_cpyLen s)) ;;~
    s1 <~ get ;;
    if (0 <? zr_insLen s1)%Z then
      m_read_flush ;;~ modify (fun s => set_step s KCommands stateLiterals) ;;~ ret (inr true)
    else if (0 <? zr_blkLen s1)%Z then ret (inl LDistance)
    else ret (inl LFinish))
  | LDistance =>
    s0 <~ get ;;
    (if zr_distZero s0 then
       let '(d0, _, _, _) := zr_dists s0 in
       modify (fun s => set_dist s d0 (zr_dists s) (zr_distZero s))
     else
       (if (k_typeLen (zr_dst s0) =? 0)%Z then
          read_block_switch BDst ;;~
          s1 <~ get ;;
          let off := 4 * k_t0 (zr_dst s1) in
          if zr_distMapLen s1 <? off then crash else
          modify (fun s => set_dmap s (zr_distMap s) (zr_distMapLen s) off (zr_distMapLen s - off))
        else ret tt) ;;~
       modify (fun s => set_blks s (zr_iac s) (zr_lit s) (bdk_dec (zr_dst s))) ;;~
       s2 <~ get ;;
       (* getDistContextID(cpyLen): if l > 4 {3} else uint8(l-2) *)
       let cid := if (4 <? zr_cpyLen s2)%Z then 3 else Z.to_N ((zr_cpyLen s2 - 2) mod 256) in
       if zr_distTypeLen s2 <=? cid then crash else
       match nm_get (zr_distMap s2) (zr_distMapOff s2 + cid) with
       | None => crash
       | Some ti =>
         match bdk_prefix (zr_dst s2) ti with
         | None => crash
         | Some tree =>
           distSym <~ m_try_read_symbol tree ;;
           dist <~
             (if distSym <? 16 then
                let '(idx, delta) := dist_short_rec distSym in
                match ring_get (zr_dists s2) idx with
                | None => crash
                | Some v => ret (v + delta)%Z
                end
              else if distSym <? 16 + zr_ndirect s2 then ret (Z.of_N (distSym - 15))
              else
                match dist_long_rec (zr_npostfix s2) (distSym - (16 + zr_ndirect s2)) with
                | None => crash               (* distLongLUT[npostfix][..]: out of range *)
                | Some (base, nb) =>
                  extra <~ m_try_read_bits nb ;;
                  ret (Z.of_N (zr_ndirect s2) + Z.of_N base + Z.of_N (N.shiftl extra (zr_npostfix s2)))%Z
                end) ;;
           modify (fun s => set_dist s dist (zr_dists s) (distSym =? 0)) ;;~
           when (dist <=? 0)%Z corrupted
         end
       end) ;;~
    s3 <~ get ;;
    if (zr_dist s3 <=? Window.Dict.hist_size (zr_dict s3))%Z then
      (if negb (zr_distZero s3) then
         let '(a, b, c, _) := zr_dists s3 in
         modify (fun s => set_dist s (zr_dist s) (zr_dist s3, a, b, c) (zr_distZero s))
       else ret tt) ;;~
      ret (inl LDynamic)
    else ret (inl LStatic)
  | LDynamic =>
    s0 <~ get ;;
    if (zr_blkLen s0 <? zr_cpyLen s0)%Z then corrupted else
    of_dres (Window.Dict.write_copy (zr_dict s0) (zr_dist s0) (zr_cpyLen s0)) (fun r =>
    let cnt := fst r in
    modify (fun s => set_lens (set_dict s (snd r) (zr_pend s))
                              (zr_blkLen s - cnt)%Z (zr_insLen s) (zr_cpyLen s - cnt)%Z) ;;~
    s1 <~ get ;;
    if (0 <? zr_cpyLen s1)%Z then
      m_read_flush ;;~ modify (fun s => set_step s KCommands stateDynamicDict) ;;~ ret (inr true)
    else ret (inl LFinish))
  | LStatic =>
    s0 <~ get ;;
    (match zr_word s0 with
     | [] =>
       let cl := zr_cpyLen s0 in
       if (cl <? 4)%Z || (24 <? cl)%Z then corrupted else
       let cpy := Z.to_N cl in
       let wordIdx := (zr_dist s0 - (Window.Dict.hist_size (zr_dict s0) + 1))%Z in
       if (wordIdx <? 0)%Z then crash else        (* unreachable: dist > HistSize *)
       let widx := Z.to_N wordIdx in
       let nbits := Brotli.Spec.nthN Brotli.Tables.dict_ndbits cpy in
       let index := widx mod 2 ^ nbits in          (* wordIdx % dictSizes[cpyLen] *)
       let offset := Brotli.Spec.nthN Brotli.Spec.dict_offsets cpy + index * cpy in
       if dict_len <? offset + cpy then crash else (* dictLUT[offset : offset+cpyLen] *)
       let baseWord := map (fun k => dict_byte (offset + k)) (iota cpy) in
       let tid := N.shiftr widx nbits in
       if 121 <=? tid then corrupted else          (* len(transformLUT) *)
       match transform_word baseWord tid with
       | None => crash
       | Some w =>
         modify (fun s => set_word s w) ;;~
         s1 <~ get ;;
         when (zr_blkLen s1 <? Window.Dict.zlen w)%Z corrupted
       end
     | _ => ret tt
     end) ;;~
    s2 <~ get ;;
    let d := zr_dict s2 in
    if negb (Window.Dict.slice_ok (Window.Dict.d_len d) (Window.Dict.d_wr d) (Window.Dict.d_len d)) then crash else
    let cnt := Z.min (Window.Dict.avail_size d) (Window.Dict.zlen (zr_word s2)) in
    m_write (Window.Dict.zfirstn cnt (zr_word s2)) ;;~
    modify (fun s => set_word (set_blkLen s (zr_blkLen s - cnt)%Z) (Window.Dict.zskipn cnt (zr_word s))) ;;~
    s3 <~ get ;;
    (match zr_word s3 with
     | [] => ret (inl LFinish)
     | _ => m_read_flush ;;~ modify (fun s => set_step s KCommands stateStaticDict) ;;~ ret (inr true)
     end)
  | LFinish =>
    s0 <~ get ;;
    if (zr_blkLen s0 <? 0)%Z then corrupted
    else if (0 <? zr_blkLen s0)%Z then ret (inl LStart)
    else
      m_read_flush ;;~ modify (fun s => set_step s KBlockHeader stateInit) ;;~ ret (inr false)
  end.

Fixpoint cmd_loop (fuel : nat) (l : label) : M unit :=
  match fuel with
  | O => throw EFuel
  | S f =>
    r <~ cmd_label l ;;
    match r with
    | inl l' => cmd_loop f l'
    | inr _ => ret tt
    end
  end.

(* every pass through a label either writes a byte into the window (at most its length per
   step), reads a bit, or moves to a later label of the same command *)
Definition cmd_fuel (s : rst) : nat :=
  6 * (length (Window.Dict.d_arr (zr_dict s)) + 8 * length (s_data (p_src (zr_rd s))) + 4).

Definition read_commands : M unit :=
  s <~ get ;;
  let l := if zr_stepState s =? stateInit then Some LStart
           else if zr_stepState s =? stateLiterals then Some LLiterals
           else if zr_stepState s =? stateDynamicDict then Some LDynamic
           else if zr_stepState s =? stateStaticDict then Some LStatic
           else None in
  match l with
  | Some l => cmd_loop (cmd_fuel s) l
  | None => cmd_loop (cmd_fuel s) LStart      (* the switch falls through to startCommand *)
  end.

(* ---- Read ----------------------------------------------------------------------------------------- *)
Definition run_step (s : rst) : sres unit :=
  match zr_step s with
  | KStreamHeader => read_stream_header s
  | KBlockHeader => read_block_header s
  | KRawData => read_raw_data s
  | KCommands => read_commands s
  end.

Inductive rdres :=
| RdRet (bs : list byte) (e : option err) (s : rst)     (* (len bs, e); e = None: nil *)
| RdPanic                                               (* a run-time panic reaches the caller *)
| RdHang.

(* FlushOffset, lifted *)
Definition flush_offset (s : rst) : rst :=
  let p := bflush bsz (zr_rd s) in
  set_io (set_rd s p) (p_offset p) (zr_outOff s) (zr_toRead s) (zr_err s).

Definition with_offset (p : prd) (o : Z) : prd :=
  mkPrd (p_src p) (p_buffered p) (p_big p) (p_bufBits p) (p_numBits p) (p_peek p)
        (p_discard p) (p_fed p) o.

(* cnt := copy(buf, br.toRead); br.toRead = br.toRead[cnt:]; br.OutputOffset += cnt *)
Definition deliver (s : rst) (n : nat) : rdres :=
  let bs := firstn n (zr_toRead s) in
  let cnt := length bs in
  RdRet bs None
        (set_io s (zr_inOff s) (zr_outOff s + Z.of_nat cnt)%Z (skipn cnt (zr_toRead s)) (zr_err s)).

(* the loop of Read *)
Fixpoint read_loop (fuel : nat) (s : rst) (n : nat) : rdres :=
  match zr_toRead s with
  | _ :: _ => deliver s n
  | [] =>
    match zr_err s with
    | Some e => RdRet [] (Some e) s
    | None =>
      match fuel with
      | O => RdRet [] (Some EFuel) s
      | S f =>
        (* br.rd.offset = br.InputOffset *)
        let s0 := set_rd s (with_offset (zr_rd s) (zr_inOff s)) in
        match run_step s0 with
        | SCrash => RdPanic
        | SHang => RdHang
        | SOk _ s1 => read_loop f (flush_offset s1) n
        | SErr e s1 =>
          (* the literals stored before the panic are in the window *)
          match commit_pend s1 with
          | SOk _ s2 =>
            let s3 := flush_offset s2 in
            let s4 := set_io s3 (zr_inOff s3) (zr_outOff s3) (zr_toRead s3) (Some e) in
            match m_read_flush s4 with
            | SOk _ s5 => read_loop f s5 n
            | SErr _ _ => RdRet [] (Some EFuel) s4
            | SCrash => RdPanic
            | SHang => RdHang
            end
          | SErr _ _ => RdRet [] (Some EFuel) s1
          | SCrash => RdPanic
          | SHang => RdHang
          end
        end
      end
    end
  end.

(* rounds without output: at most two per meta-block header, each of at least one byte. (The
   budget is only computed when a step has to run.) *)
Definition br_read (s : rst) (n : nat) : rdres :=
  match zr_toRead s with
  | _ :: _ => deliver s n
  | [] => read_loop (2 * length (s_data (p_src (zr_rd s))) + 8) s n
  end.

(* Close *)
Definition br_close (s : rst) : option err * rst :=
  match zr_err s with
  | Some EEOF | Some EClosedPipe =>
    (None, set_io s (zr_inOff s) (zr_outOff s) [] (Some EClosedPipe))
  | e => (e, s)
  end.

End Reader.

(* ---- NewReader / Reset ------------------------------------------------------------------------------ *)
(* Reset(r): the source is (data, buffered, reads); rd.prefix, dict and the block decoders are
   kept, the rest is the zero value *)
Definition br_reset (s : rst) (data : list byte) (buffered : bool) (reads : list nat) : rst :=
  mkRst 0 0 (binit data buffered reads) (zr_scratch s) [] 0 0 0 false None KStreamHeader 0
        (repeat 0 256) 0 (zr_dict s) []
        (zr_iac s) (zr_lit s) (zr_dst s) nm_empty 0 0 0 0 [] nm_empty 0 0 0 0 (4, 11, 15, 16)%Z false 0 0 [].

Definition rst_zero : rst :=
  mkRst 0 0 (binit [] false []) empty_dec [] 0 0 0 false None KStreamHeader 0
        (repeat 0 256) 0 (Window.Dict.mkDD 0 [] 0 0 0 false) []
        bdk_zero bdk_zero bdk_zero nm_empty 0 0 0 0 [] nm_empty 0 0 0 0 (0, 0, 0, 0)%Z false 0 0 [].

Definition br_new (data : list byte) (buffered : bool) (reads : list nat) : rst :=
  br_reset rst_zero data buffered reads.

(* a whole schedule of Read calls: per call (bytes, error, InputOffset, OutputOffset); stops at
   the first error or panic *)
Inductive robs :=
| ORead (bs : list byte) (e : option err) (inOff outOff : Z)
| OPanic
| OHang.

Fixpoint br_reads (bsz : nat) (dict_len : N) (dict_byte : N -> N) (s : rst) (sched : list nat)
  : list robs * option rst :=
  match sched with
  | [] => ([], Some s)
  | n :: r =>
    match br_read bsz dict_len dict_byte s n with
    | RdRet bs e s' =>
      match e with
      | None => let '(l, fin) := br_reads bsz dict_len dict_byte s' r in
                (ORead bs e (zr_inOff s') (zr_outOff s') :: l, fin)
      | Some _ => ([ORead bs e (zr_inOff s') (zr_outOff s')], Some s')
      end
    | RdPanic => ([OPanic], None)
    | RdHang => ([OHang], None)
    end
  end.
