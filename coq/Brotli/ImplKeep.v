(* Frame property of the command loop of the Reader (Brotli/Impl.v cmd_label): no pass through a
   label changes br.last or br.err. Proved structurally over the monadic code. *)
From V Require Import Base.Prelude Base.Prog Bzip2.Common Prefix.ReaderImpl Prefix.DecTable
  Brotli.BitReaderImpl Brotli.PrefixDecoderImpl Brotli.Spec Brotli.Impl.
From V Require Import Window.Dict Window.DictBr.

Local Open Scope N_scope.

Definition kframe (st st' : rst) : Prop :=
  zr_last st' = zr_last st /\ zr_err st' = zr_err st /\ zr_outOff st' = zr_outOff st.

Lemma kframe_refl st : kframe st st.
Proof. repeat split. Qed.

Lemma kframe_trans a b c : kframe a b -> kframe b c -> kframe a c.
Proof. intros (H1 & H2 & H3) (H4 & H5 & H6). repeat split; congruence. Qed.

Definition keeps {A} (m : M A) : Prop :=
  forall st, match m st with
             | SOk _ st' => kframe st st'
             | SErr _ st' => kframe st st'
             | _ => True
             end.

Lemma keeps_ret {A} (a : A) : keeps (ret a).
Proof. intros st. apply kframe_refl. Qed.
Lemma keeps_throw {A} e : keeps (@throw A e).
Proof. intros st. apply kframe_refl. Qed.
Lemma keeps_crash {A} : keeps (@crash A).
Proof. intros st. exact I. Qed.
Lemma keeps_get : keeps get.
Proof. intros st. apply kframe_refl. Qed.
Lemma keeps_modify f : (forall s, kframe s (f s)) -> keeps (modify f).
Proof. intros H st. apply H. Qed.

Lemma keeps_bind {A B} (m : M A) (f : A -> M B) : keeps m -> (forall a, keeps (f a)) -> keeps (mbind m f).
Proof.
  intros Hm Hf st. unfold mbind. specialize (Hm st). destruct (m st) as [a s1|e s1| |]; try exact I.
  - specialize (Hf a s1). destruct (f a s1) as [b s2|e s2| |]; try exact I; eapply kframe_trans; eauto.
  - exact Hm.
Qed.

Lemma keeps_fun {A} (m : M A) : keeps m -> keeps (fun s => m s).
Proof. intros H. exact H. Qed.

Section Keep.
Variable bsz : nat.
Variable dict_len : N.
Variable dict_byte : N -> N.

Lemma keeps_of_feed {A} r p (ok : M A) : keeps ok -> forall st,
  match of_feed r p ok st with
  | SOk _ st' => kframe st st'
  | SErr _ st' => kframe st st'
  | _ => True
  end.
Proof.
  intros Hok st. unfold of_feed. destruct r; try exact I; try (repeat split).
  specialize (Hok (set_rd st p)). destruct (ok (set_rd st p)); try exact I; exact Hok.
Qed.

Lemma keeps_m_read_bits nb : keeps (m_read_bits bsz nb).
Proof.
  intros st. unfold m_read_bits. destruct (bread_bits bsz (zr_rd st) nb) as [[r v] p].
  apply keeps_of_feed. apply keeps_ret.
Qed.

Lemma keeps_m_try_read_bits nb : keeps (m_try_read_bits bsz nb).
Proof.
  intros st. unfold m_try_read_bits. destruct (btry_bits (zr_rd st) nb) as [[v|] p].
  - repeat split.
  - apply keeps_m_read_bits.
Qed.

Lemma keeps_m_read_symbol d : keeps (m_read_symbol bsz d).
Proof.
  intros st. unfold m_read_symbol. destruct (br_read_symbol bsz d (zr_rd st)) as [[v| | | |] p];
    try exact I; repeat split.
Qed.

Lemma keeps_m_try_read_symbol d : keeps (m_try_read_symbol bsz d).
Proof.
  intros st. unfold m_try_read_symbol. destruct (try_read_symbol d (zr_rd st)) as [[[v|]|] p]; try exact I.
  - repeat split.
  - apply keeps_m_read_symbol.
Qed.

Lemma keeps_m_read_offset sym rcs : keeps (m_read_offset bsz sym rcs).
Proof.
  unfold m_read_offset. destruct (range_at rcs sym) as [[base nb]|]; [|apply keeps_crash].
  apply keeps_bind; [apply keeps_m_read_bits | intros v; apply keeps_ret].
Qed.

Lemma keeps_upd_blk b f : keeps (upd_blk b f).
Proof. unfold upd_blk. apply keeps_modify. intros s. destruct b; repeat split. Qed.

Lemma keeps_read_block_switch b : keeps (read_block_switch bsz b).
Proof.
  unfold read_block_switch. apply keeps_bind; [apply keeps_get|]. intros s0.
  apply keeps_bind; [apply keeps_m_read_symbol|]. intros t.
  apply keeps_bind; [apply keeps_upd_blk|]. intros _.
  apply keeps_bind; [apply keeps_m_read_symbol|]. intros sl.
  apply keeps_bind; [apply keeps_m_read_offset|]. intros n. apply keeps_upd_blk.
Qed.

Lemma keeps_of_dres {A B} (r : Window.Dict.dres A) (k : A -> M B) : (forall a, keeps (k a)) -> keeps (of_dres r k).
Proof.
  intros H. unfold of_dres. destruct r; [apply H | apply keeps_crash | intros st; exact I | apply keeps_throw].
Qed.

Lemma keeps_commit_pend : keeps commit_pend.
Proof.
  intros st. unfold commit_pend. destruct (zr_pend st); [repeat split|].
  destruct (write_raw _ _) as [[nw dw]| | |]; try exact I; repeat split.
Qed.

Lemma keeps_m_read_flush : keeps m_read_flush.
Proof.
  intros st. unfold m_read_flush. destruct (read_flush _) as [[nw dw]| | |]; try exact I; repeat split.
Qed.

Lemma keeps_m_write bs : keeps (m_write bs).
Proof.
  intros st. unfold m_write. destruct (write_raw _ _) as [[nw dw]| | |]; try exact I; repeat split.
Qed.

Ltac kp := repeat first
  [ apply keeps_ret | apply keeps_throw | apply keeps_crash | apply keeps_get
  | apply keeps_m_read_bits | apply keeps_m_try_read_bits | apply keeps_m_read_symbol
  | apply keeps_m_try_read_symbol | apply keeps_m_read_offset | apply keeps_read_block_switch
  | apply keeps_commit_pend | apply keeps_m_read_flush | apply keeps_m_write
  | apply keeps_modify; intros ?; repeat split
  | apply keeps_bind; [|intros ?]
  | apply keeps_of_dres; intros ?
  | match goal with |- keeps (if ?c then _ else _) => destruct c end
  | match goal with |- keeps (match ?x with _ => _ end) => destruct x end
  | match goal with |- keeps (let '(_, _) := ?x in _) => destruct x end ].

Lemma keeps_lit_loop : forall k p1 p2, keeps (lit_loop bsz k p1 p2).
Proof.
  induction k as [|k IH]; intros p1 p2; cbn [lit_loop]; [apply keeps_ret|].
  apply keeps_bind; [apply keeps_get|]. intros s0.
  apply keeps_bind.
  { destruct (k_typeLen (zr_lit s0) =? 0)%Z; [|apply keeps_ret].
    apply keeps_bind; [apply keeps_read_block_switch|]. intros _.
    apply keeps_bind; [apply keeps_get|]. intros s1. cbv zeta.
    destruct (_ <? _); [apply keeps_crash|].
    apply keeps_bind; [apply keeps_modify; intros ?; repeat split|]. intros _.
    destruct (nth_error _ _); [apply keeps_modify; intros ?; repeat split | apply keeps_crash]. }
  intros _. apply keeps_bind; [apply keeps_modify; intros ?; repeat split|]. intros _.
  apply keeps_bind; [apply keeps_get|]. intros s2.
  destruct (3 <? zr_cmode s2); [apply keeps_crash|]. cbv zeta.
  destruct (_ <=? _); [apply keeps_crash|].
  destruct (nm_get _ _) as [ti|]; [|apply keeps_crash].
  destruct (bdk_prefix _ _) as [tree|]; [|apply keeps_crash].
  apply keeps_bind; [apply keeps_m_try_read_symbol|]. intros litSym. cbv zeta.
  apply keeps_bind; [apply keeps_modify; intros ?; repeat split|]. intros _. apply IH.
Qed.

Lemma keeps_cmd_label l : keeps (cmd_label bsz dict_len dict_byte l).
Proof.
  destruct l; cbn [cmd_label].
  - (* LStart *)
    apply keeps_bind; [apply keeps_get|]. intros s0.
    apply keeps_bind; [destruct (_ =? _)%Z; kp|]. intros _.
    apply keeps_bind; [kp|]. intros _.
    apply keeps_bind; [apply keeps_get|]. intros s1.
    destruct (bdk_prefix _ _) as [tree|]; [|apply keeps_crash].
    apply keeps_bind; [kp|]. intros iacSym.
    destruct (704 <=? iacSym); [apply keeps_crash|].
    destruct (iac_codes iacSym) as [icode ccode].
    destruct (Flate.Spec.nth_range ins_ranges icode) as [ibase inb].
    destruct (Flate.Spec.nth_range cpy_ranges ccode) as [cbase cnb].
    apply keeps_bind; [kp|]. intros insExtra.
    apply keeps_bind; [kp|]. intros cpyExtra. cbv zeta.
    apply keeps_bind; [kp|]. intros _.
    apply keeps_bind; [apply keeps_get|]. intros s2.
    destruct (_ <? _)%Z; [apply keeps_throw|]. destruct (_ <? _)%Z; apply keeps_ret.
  - (* LLiterals *)
    apply keeps_bind; [apply keeps_get|]. intros s0. cbv zeta.
    destruct (negb _); [apply keeps_crash|].
    destruct (_ && _); [apply keeps_crash|].
    apply keeps_of_dres. intros pp.
    apply keeps_bind; [apply keeps_lit_loop|]. intros _.
    apply keeps_bind; [apply keeps_fun, keeps_commit_pend|]. intros _.
    apply keeps_bind; [kp|]. intros _.
    apply keeps_bind; [apply keeps_get|]. intros s1.
    destruct (_ <? _)%Z; [kp|]. destruct (_ <? _)%Z; apply keeps_ret.
  - (* LDistance *)
    apply keeps_bind; [apply keeps_get|]. intros s0.
    apply keeps_bind.
    { destruct (zr_distZero s0).
      - destruct (zr_dists s0) as [[[d0 d1] d2] d3]. kp.
      - apply keeps_bind.
        { destruct (_ =? _)%Z; [|apply keeps_ret].
          apply keeps_bind; [apply keeps_read_block_switch|]. intros _.
          apply keeps_bind; [apply keeps_get|]. intros s1. cbv zeta.
          destruct (_ <? _); kp. }
        intros _. apply keeps_bind; [kp|]. intros _.
        apply keeps_bind; [apply keeps_get|]. intros s2. cbv zeta.
        destruct (_ <=? _); [apply keeps_crash|].
        destruct (nm_get _ _) as [ti|]; [|apply keeps_crash].
        destruct (bdk_prefix _ _) as [tree|]; [|apply keeps_crash].
        apply keeps_bind; [kp|]. intros distSym.
        apply keeps_bind.
        { destruct (distSym <? 16).
          - destruct (dist_short_rec distSym) as [idx delta]. destruct (ring_get _ _); kp.
          - destruct (_ <? _); [kp|]. destruct (dist_long_rec _ _) as [[base nb]|]; kp. }
        intros dist. apply keeps_bind; [kp|]. intros _. unfold when, corrupted. destruct (_ <=? _)%Z; kp. }
    intros _. apply keeps_bind; [apply keeps_get|]. intros s3.
    destruct (_ <=? _)%Z; [|apply keeps_ret].
    apply keeps_bind; [|intros _; apply keeps_ret].
    destruct (negb _); [|apply keeps_ret]. destruct (zr_dists s3) as [[[a b] c] d]. kp.
  - (* LDynamic *)
    apply keeps_bind; [apply keeps_get|]. intros s0.
    destruct (_ <? _)%Z; [apply keeps_throw|].
    apply keeps_of_dres. intros r. cbv zeta.
    apply keeps_bind; [kp|]. intros _.
    apply keeps_bind; [apply keeps_get|]. intros s1.
    destruct (_ <? _)%Z; kp.
  - (* LStatic *)
    apply keeps_bind; [apply keeps_get|]. intros s0.
    apply keeps_bind.
    { destruct (zr_word s0); [|apply keeps_ret]. cbv zeta.
      destruct (_ || _); [apply keeps_throw|].
      destruct (_ <? 0)%Z; [apply keeps_crash|].
      destruct (dict_len <? _); [apply keeps_crash|].
      destruct (121 <=? _); [apply keeps_throw|].
      destruct (Brotli.Impl.transform_word _ _) as [w|]; [|apply keeps_crash].
      apply keeps_bind; [kp|]. intros _.
      apply keeps_bind; [apply keeps_get|]. intros s1. unfold when, corrupted. destruct (_ <? _)%Z; kp. }
    intros _. apply keeps_bind; [apply keeps_get|]. intros s2. cbv zeta.
    destruct (negb _); [apply keeps_crash|].
    apply keeps_bind; [apply keeps_m_write|]. intros _.
    apply keeps_bind; [kp|]. intros _.
    apply keeps_bind; [apply keeps_get|]. intros s3.
    destruct (zr_word s3); kp.
  - (* LFinish *)
    apply keeps_bind; [apply keeps_get|]. intros s0.
    destruct (_ <? _)%Z; [apply keeps_throw|]. destruct (_ <? _)%Z; kp.
Qed.

End Keep.
