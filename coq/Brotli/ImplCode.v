(* Layer (b) of the refinement of brotli.Reader to RFC 7932: bitReader.ReadPrefixCode
   (readSimplePrefixCode, readComplexPrefixCode; model Brotli/Impl.v read_prefix_code) against
   read_prefix_code of Brotli/Spec.v: whenever the RFC model obtains a code (a trie), the
   Reader builds - whatever the recycled storage held - a decoder that decodes exactly the
   words of that trie, having consumed the same bits; whenever the RFC model rejects the
   definition or runs out of input, the Reader reports Corrupted or UnexpectedEOF (the two
   may be exchanged on a definition that is both invalid and cut: the Reader checks the symbols
   of a simple code after it has read all of them, and stops reading an over-subscribed
   complex code at once). *)
From V Require Import Base.Prelude Base.Prog Base.ProgThms Base.FuelThms Base.DepthThms
  Flate.Spec Flate.Canon Bzip2.Common Prefix.Code Prefix.GenPrefixesThms
  Prefix.ReaderImpl Prefix.ReaderSpec Prefix.ReaderThms
  Prefix.DecTable Prefix.DecTableSpec Prefix.DecTableThms Prefix.DecReadThms Prefix.DecCanonThms
  Brotli.BitReaderImpl Brotli.BitReaderSpec Brotli.BitReaderThms
  Brotli.PrefixDecoderImpl Brotli.PrefixDecoderThms Brotli.ReadSymbolThms
  Brotli.Tables Brotli.Spec Brotli.Fuel
  Brotli.Impl Brotli.ImplBits Brotli.ImplSym Brotli.ImplFixed Brotli.ImplHdr.
From Coq Require Import ZifyBool ZifyN ZifyNat Sorting.Sorted.

Local Open Scope N_scope.
Local Ltac Zify.zify_post_hook ::= idtac.

(* ---- a decoder of the Reader and a trie of the RFC model hold the same code ------------------------ *)
Definition dec_treeP (P : N -> Prop) (d : dec) (t : htree) : Prop :=
  (exists s, dec_single d s /\ t = HLeaf s /\ P s) \/
  (exists codes, dec_codes d codes /\ zero_min codes /\ tree_codes t codes /\
                 forall c, In c codes -> P (c_sym c)).
Definition dec_tree : dec -> htree -> Prop := dec_treeP (fun _ => True).

Lemma dec_treeP_weaken (P Q : N -> Prop) d t : (forall s, P s -> Q s) -> dec_treeP P d t -> dec_treeP Q d t.
Proof.
  intros H [(s & H1 & H2 & H3)|(codes & H1 & H2 & H3 & H4)].
  - left. exists s. split; [exact H1|]. split; [exact H2 | apply H; exact H3].
  - right. exists codes. split; [exact H1|]. split; [exact H2|]. split; [exact H3|].
    intros c Hc. apply H, H4, Hc.
Qed.

Lemma cword_rcode e : cword (rcode e) = word e.
Proof.
  unfold cword, rcode, c_len, c_val. cbn [fst snd]. rewrite <- word_len. apply val_bits_bits_val.
Qed.

(* the codes handed to Init: symbols, lengths, values to be assigned *)
Definition codes_of (lens : list (N * N)) : list pcode := map (fun x => (fst x, snd x, 0)) lens.

Lemma lens_of_codes_of lens : lens_of (codes_of lens) = lens.
Proof.
  unfold lens_of, codes_of, sl_of, c_sym, c_len. rewrite map_map.
  rewrite <- (map_id lens) at 2. apply map_ext. intros [s l]. reflexivity.
Qed.

Lemma map_sym_codes_of lens : map c_sym (codes_of lens) = map fst lens.
Proof. unfold codes_of, c_sym. rewrite map_map. apply map_ext. intros [s l]. reflexivity. Qed.

Lemma StronglySorted_NoDup l : StronglySorted N.lt l -> NoDup l.
Proof.
  induction 1 as [|x l Hs IH Hf]; constructor; [|exact IH].
  intros Hin. rewrite Forall_forall in Hf. specialize (Hf x Hin). lia.
Qed.

(* Init(codes, assignCodes = true) on a complete, sorted set of lengths 1..15: the canonical
   decoder, whatever the storage held *)
Lemma init_assign_ok lens oldC oldL :
  (2 <= length lens)%nat -> StronglySorted N.lt (map fst lens) ->
  (forall s l, In (s, l) lens -> s < 2 ^ 27 /\ 1 <= l <= 15) -> complete lens = true ->
  exists d cs, br_dec_init oldC oldL (codes_of lens) true = BOk (d, cs) /\
               dec_treeP (fun s => In s (map fst lens)) d (tree_of lens).
Proof.
  intros H2 Hs Hb Hc.
  assert (H2' : (2 <= length (codes_of lens))%nat) by (unfold codes_of; rewrite map_length; exact H2).
  assert (Hs' : StronglySorted N.lt (map c_sym (codes_of lens))) by (rewrite map_sym_codes_of; exact Hs).
  assert (H27 : forall c, In c (codes_of lens) -> c_sym c < 2 ^ 27).
  { intros c Hc'. apply in_map_iff in Hc'. destruct Hc' as ([s l] & <- & Hin). apply (Hb s l Hin). }
  assert (Hl : forall c, In c (codes_of lens) -> 1 <= c_len c <= 15).
  { intros c Hc'. apply in_map_iff in Hc'. destruct Hc' as ([s l] & <- & Hin). apply (Hb s l Hin). }
  destruct (br_init_assign_correct (codes_of lens) oldC oldL H2' Hs' H27 Hl
              ltac:(rewrite lens_of_codes_of; exact Hc))
    as (d & E & HV & HT & Hmin & _ & _ & _).
  rewrite lens_of_codes_of in *.
  assert (Hp : lens_pos lens) by (intros s l Hin; apply (Hb s l Hin)).
  exists d, (canon_codes lens). split; [exact E|]. right. exists (canon_codes lens).
  assert (Hsyms : forall c, In c (canon_codes lens) -> In (c_sym c) (map fst lens)).
  { intros c Hc'. destruct (canon_in lens c Hc') as ([[s l] v] & He & ->).
    unfold rcode, c_sym. cbn [fst].
    rewrite <- canonical_syms. apply in_map_iff. exists (s, l, v). split; [reflexivity | exact He]. }
  split; [|split; [|split]].
  - split; [exact HV | eexists; exact HT | exact Hmin |].
    intros c Hc'. pose proof (Hsyms c Hc') as Hin.
    apply in_map_iff in Hin. destruct Hin as ([s' l'] & <- & Hin). apply (Hb s' l' Hin).
  - apply (canon_zero_min lens Hp Hc).
  - intros c Hc'. destruct (canon_in lens c Hc') as ([[s l] v] & He & ->).
    rewrite cword_rcode. unfold rcode, c_sym, word. cbn [fst snd].
    apply tree_at_code; [exact Hp | apply complete_kraft_ok; exact Hc | | exact He].
    apply StronglySorted_NoDup. exact Hs.
  - exact Hsyms.
Qed.

(* Init rejects (errCorrupted) what is not a complete sorted code *)
Lemma init_assign_rejects lens oldC oldL :
  (2 <= length lens)%nat -> (forall s l, In (s, l) lens -> s < 2 ^ 27 /\ l <= 15) ->
  ~ (StronglySorted N.lt (map fst lens) /\ lens_pos lens /\ complete lens = true) ->
  br_dec_init oldC oldL (codes_of lens) true = BCorrupt.
Proof.
  intros H2 Hb Hn.
  apply br_init_rejects.
  - unfold codes_of. rewrite map_length. exact H2.
  - intros c Hc'. apply in_map_iff in Hc'. destruct Hc' as ([s l] & <- & Hin). apply (Hb s l Hin).
  - intros c Hc'. apply in_map_iff in Hc'. destruct Hc' as ([s l] & <- & Hin). apply (Hb s l Hin).
  - rewrite lens_of_codes_of.
    destruct (gen_prefixes lens) as [out|] eqn:E; [|reflexivity].
    exfalso. apply Hn. apply (gen_prefixes_ok_iff_sorted lens H2). exists out. exact E.
Qed.

(* ---- the compare-swap networks of readSimplePrefixCode -------------------------------------------------- *)
Lemma cswap2_01 (x0 x1 : N * N) :
  cswap 0 1 [x0;x1] = if fst x1 <? fst x0 then [x1;x0] else [x0;x1].
Proof. unfold cswap. cbn [nth length seq map Nat.eqb]. destruct (_ <? _); reflexivity. Qed.
Lemma cswap3_01 (x0 x1 x2 : N * N) :
  cswap 0 1 [x0;x1;x2] = if fst x1 <? fst x0 then [x1;x0;x2] else [x0;x1;x2].
Proof. unfold cswap. cbn [nth length seq map Nat.eqb]. destruct (_ <? _); reflexivity. Qed.
Lemma cswap3_02 (x0 x1 x2 : N * N) :
  cswap 0 2 [x0;x1;x2] = if fst x2 <? fst x0 then [x2;x1;x0] else [x0;x1;x2].
Proof. unfold cswap. cbn [nth length seq map Nat.eqb]. destruct (_ <? _); reflexivity. Qed.
Lemma cswap3_12 (x0 x1 x2 : N * N) :
  cswap 1 2 [x0;x1;x2] = if fst x2 <? fst x1 then [x0;x2;x1] else [x0;x1;x2].
Proof. unfold cswap. cbn [nth length seq map Nat.eqb]. destruct (_ <? _); reflexivity. Qed.
Lemma cswap4_01 (x0 x1 x2 x3 : N * N) :
  cswap 0 1 [x0;x1;x2;x3] = if fst x1 <? fst x0 then [x1;x0;x2;x3] else [x0;x1;x2;x3].
Proof. unfold cswap. cbn [nth length seq map Nat.eqb]. destruct (_ <? _); reflexivity. Qed.
Lemma cswap4_23 (x0 x1 x2 x3 : N * N) :
  cswap 2 3 [x0;x1;x2;x3] = if fst x3 <? fst x2 then [x0;x1;x3;x2] else [x0;x1;x2;x3].
Proof. unfold cswap. cbn [nth length seq map Nat.eqb]. destruct (_ <? _); reflexivity. Qed.
Lemma cswap4_02 (x0 x1 x2 x3 : N * N) :
  cswap 0 2 [x0;x1;x2;x3] = if fst x2 <? fst x0 then [x2;x1;x0;x3] else [x0;x1;x2;x3].
Proof. unfold cswap. cbn [nth length seq map Nat.eqb]. destruct (_ <? _); reflexivity. Qed.
Lemma cswap4_13 (x0 x1 x2 x3 : N * N) :
  cswap 1 3 [x0;x1;x2;x3] = if fst x3 <? fst x1 then [x0;x3;x2;x1] else [x0;x1;x2;x3].
Proof. unfold cswap. cbn [nth length seq map Nat.eqb]. destruct (_ <? _); reflexivity. Qed.
Lemma cswap4_12 (x0 x1 x2 x3 : N * N) :
  cswap 1 2 [x0;x1;x2;x3] = if fst x2 <? fst x1 then [x0;x2;x1;x3] else [x0;x1;x2;x3].
Proof. unfold cswap. cbn [nth length seq map Nat.eqb]. destruct (_ <? _); reflexivity. Qed.

Definition net2 (l : list (N * N)) := cswap 0 1 l.
Definition net3 (l : list (N * N)) := cswap 1 2 (cswap 0 2 (cswap 0 1 l)).
Definition net4 (l : list (N * N)) := cswap 1 2 (cswap 1 3 (cswap 0 2 (cswap 2 3 (cswap 0 1 l)))).

Ltac ifcase := match goal with |- context [if ?x <? ?y then _ else _] =>
   let Hc := fresh "Hc" in destruct (N.ltb_spec x y) as [Hc|Hc]; cbn [fst] in Hc; try (exfalso; lia) end.
Ltac run_net2 := unfold net2; rewrite cswap2_01; ifcase.
Ltac run_net3 := unfold net3; rewrite cswap3_01; ifcase; rewrite cswap3_02; ifcase; rewrite cswap3_12; ifcase.
Ltac run_net4 := unfold net4; rewrite cswap4_01; ifcase; rewrite cswap4_23; ifcase; rewrite cswap4_02; ifcase;
                 rewrite cswap4_13; ifcase; rewrite cswap4_12; ifcase.
Ltac run_sort := unfold sort_by_sym; cbn [fold_right insert_sorted fst]; repeat (cbn [insert_sorted fst]; ifcase).

(* they sort (distinct symbols) ... *)
Lemma net2_sort a b la lb : a <> b -> net2 [(a,la);(b,lb)] = sort_by_sym [(a,la);(b,lb)].
Proof. intros. run_net2; run_sort; reflexivity. Qed.
Lemma net3_sort a b c la lb lc : a <> b -> a <> c -> b <> c ->
  net3 [(a,la);(b,lb);(c,lc)] = sort_by_sym [(a,la);(b,lb);(c,lc)].
Proof. intros. run_net3; run_sort; reflexivity. Qed.
Lemma net4_sort a b c d la lb lc ld :
  a <> b -> a <> c -> a <> d -> b <> c -> b <> d -> c <> d ->
  net4 [(a,la);(b,lb);(c,lc);(d,ld)] = sort_by_sym [(a,la);(b,lb);(c,lc);(d,ld)].
Proof. intros. run_net4; run_sort; reflexivity. Qed.

(* ... what comes out is what went in, with the largest symbol last and no decreasing pair ... *)
Definition lens_perm (l l' : list (N * N)) : Prop :=
  (forall x, In x l <-> In x l') /\ length l = length l'.

Lemma ss3 x0 x1 x2 : StronglySorted N.lt [x0;x1;x2] -> x0 < x1 /\ x1 < x2.
Proof.
  intros HS. inversion HS as [|? ? HS1 F1]. inversion HS1 as [|? ? HS2 F2].
  inversion F1 as [|? ? G1 G2]. inversion G2. inversion F2. lia.
Qed.
Lemma ss4 x0 x1 x2 x3 : StronglySorted N.lt [x0;x1;x2;x3] -> x0 < x1 /\ x1 < x2 /\ x2 < x3.
Proof.
  intros HS. inversion HS as [|? ? HS1 F1]. apply ss3 in HS1. inversion F1. lia.
Qed.

Record net_ok (l o : list (N * N)) (n : nat) : Prop := mkNetOk {
  no_perm : lens_perm l o;
  no_max : forall x, In x l -> fst x <= fst (nth (n - 1) o (0, 0));
  no_dup : ~ NoDup (map fst l) -> ~ StronglySorted N.lt (map fst o);
  no_sorted : NoDup (map fst l) -> StronglySorted N.lt (map fst o) /\ o = sort_by_sym l;
  no_maxlen : max_len o = max_len l;
  no_kraft : forall m, kraft m o = kraft m l
}.

Ltac nodup_facts H :=
  repeat match type of H with
  | NoDup (_ :: _) => let H1 := fresh in let H2 := fresh in inversion H as [|? ? H1 H2]; clear H;
                      cbn [In] in H1; rename H2 into H
  | NoDup [] => clear H
  end.

Ltac nd_tac := repeat (apply NoDup_cons; [cbn [In]; intuition congruence|]); apply NoDup_nil.

Lemma not_nodup2 (a b : N) : ~ NoDup [a; b] -> a = b.
Proof. intros H. destruct (N.eq_dec a b) as [E|E]; [exact E|]. exfalso. apply H. nd_tac. Qed.
Lemma not_nodup3 (a b c : N) : ~ NoDup [a; b; c] -> a = b \/ a = c \/ b = c.
Proof.
  intros H. destruct (N.eq_dec a b); [tauto|]. destruct (N.eq_dec a c); [tauto|]. destruct (N.eq_dec b c); [tauto|].
  exfalso. apply H. nd_tac.
Qed.
Lemma not_nodup4 (a b c d : N) : ~ NoDup [a; b; c; d] -> a = b \/ a = c \/ a = d \/ b = c \/ b = d \/ c = d.
Proof.
  intros H. destruct (N.eq_dec a b); [tauto|]. destruct (N.eq_dec a c); [tauto|]. destruct (N.eq_dec a d); [tauto|].
  destruct (N.eq_dec b c); [tauto|]. destruct (N.eq_dec b d); [tauto|]. destruct (N.eq_dec c d); [tauto|].
  exfalso. apply H. nd_tac.
Qed.
Lemma nodup2 (a b : N) : NoDup [a; b] -> a <> b.
Proof. intros H. inversion H as [|? ? H1 _]. cbn [In] in H1. intuition congruence. Qed.
Lemma nodup3 (a b c : N) : NoDup [a; b; c] -> a <> b /\ a <> c /\ b <> c.
Proof. intros H. inversion H as [|? ? H1 H2]. apply nodup2 in H2. cbn [In] in H1. intuition congruence. Qed.
Lemma nodup4 (a b c d : N) : NoDup [a; b; c; d] -> a <> b /\ a <> c /\ a <> d /\ b <> c /\ b <> d /\ c <> d.
Proof. intros H. inversion H as [|? ? H1 H2]. apply nodup3 in H2. cbn [In] in H1. intuition congruence. Qed.

Lemma net2_out a b la lb : net_ok [(a,la);(b,lb)] (net2 [(a,la);(b,lb)]) 2.
Proof.
  split.
  - run_net2; (split; [intros x; cbn [In]; tauto | reflexivity]).
  - intros x Hx. cbn [In] in Hx. run_net2; cbn [nth Nat.sub fst];
      repeat (destruct Hx as [<-|Hx]; [cbn [fst]; lia|]); contradiction.
  - intros Hn. cbn [map fst] in Hn. apply not_nodup2 in Hn. revert Hn.
    run_net2; cbn [map fst]; intros He HS; inversion HS as [|? ? ? HF]; inversion HF; lia.
  - intros Hn. cbn [map fst] in Hn. apply nodup2 in Hn. split.
    + run_net2; cbn [map fst]; repeat constructor; lia.
    + apply net2_sort. exact Hn.
  - run_net2; cbn [max_len fold_right snd]; lia.
  - intros m. run_net2; cbn [kraft fold_right snd]; lia.
Qed.

Lemma net3_out a b c la lb lc : net_ok [(a,la);(b,lb);(c,lc)] (net3 [(a,la);(b,lb);(c,lc)]) 3.
Proof.
  split.
  - run_net3; (split; [intros x; cbn [In]; tauto | reflexivity]).
  - intros x Hx. cbn [In] in Hx. run_net3; cbn [nth Nat.sub fst];
      repeat (destruct Hx as [<-|Hx]; [cbn [fst]; lia|]); contradiction.
  - intros Hn. cbn [map fst] in Hn. apply not_nodup3 in Hn. revert Hn.
    run_net3; cbn [map fst]; intros He HS; apply ss3 in HS; lia.
  - intros Hn. cbn [map fst] in Hn. apply nodup3 in Hn. destruct Hn as (H1 & H2 & H3). split.
    + run_net3; cbn [map fst]; repeat constructor; lia.
    + apply net3_sort; assumption.
  - run_net3; cbn [max_len fold_right snd]; lia.
  - intros m. run_net3; cbn [kraft fold_right snd]; lia.
Qed.

Lemma net4_out a b c d la lb lc ld :
  net_ok [(a,la);(b,lb);(c,lc);(d,ld)] (net4 [(a,la);(b,lb);(c,lc);(d,ld)]) 4.
Proof.
  split.
  - run_net4; (split; [intros x; cbn [In]; tauto | reflexivity]).
  - intros x Hx. cbn [In] in Hx. run_net4; cbn [nth Nat.sub fst];
      repeat (destruct Hx as [<-|Hx]; [cbn [fst]; lia|]); contradiction.
  - intros Hn. cbn [map fst] in Hn. apply not_nodup4 in Hn. revert Hn.
    run_net4; cbn [map fst]; intros He HS; apply ss4 in HS; lia.
  - intros Hn. cbn [map fst] in Hn. apply nodup4 in Hn. destruct Hn as (H1 & H2 & H3 & H4 & H5 & H6). split.
    + run_net4; cbn [map fst]; repeat constructor; lia.
    + apply net4_sort; assumption.
  - run_net4; cbn [max_len fold_right snd]; lia.
  - intros m. run_net4; cbn [kraft fold_right snd]; lia.
Qed.

(* the end of both readers: the range check of the last symbol, then Init *)
Definition pc_fin (tgt : option dec) (maxSyms : N) (n : nat) (sl : list (N * N)) : M dec :=
  (when (maxSyms <=? fst (nth (n - 1) sl (0, 0))) corrupted ;;~
   init_target tgt (map (fun x => (fst x, snd x, 0)) sl))%brm.

Lemma init_target_eq tgt codes st :
  init_target tgt codes st =
  match br_dec_init (dec_oldC (match tgt with Some d => d | None => zr_scratch st end))
                    (dec_oldL (match tgt with Some d => d | None => zr_scratch st end)) codes true with
  | BOk (d, _) => SOk d st
  | BCorrupt => SErr ECorrupted st
  | BCrash => SCrash
  end.
Proof.
  unfold init_target. rewrite mbind_get. unfold m_dec_init.
  destruct (br_dec_init _ _ codes true) as [[d cs]| |]; reflexivity.
Qed.

Lemma pc_fin_ok tgt maxSyms n sl st :
  (2 <= length sl)%nat -> StronglySorted N.lt (map fst sl) ->
  (forall s l, In (s, l) sl -> s < maxSyms /\ 1 <= l <= 15) -> maxSyms <= 2 ^ 27 ->
  complete sl = true -> In (nth (n - 1) sl (0, 0)) sl ->
  exists d, pc_fin tgt maxSyms n sl st = SOk d st /\ dec_treeP (fun s => s < maxSyms) d (tree_of sl).
Proof.
  intros H2 Hs Hb Hm Hc Hin. unfold pc_fin.
  destruct (nth (n - 1) sl (0, 0)) as [s0 l0] eqn:E0. pose proof (Hb s0 l0 Hin) as (Hlt & _).
  cbn [fst]. replace (maxSyms <=? s0) with false by (symmetry; apply N.leb_gt; exact Hlt).
  cbn [when]. rewrite mbind_ret, init_target_eq.
  fold (codes_of sl).
  destruct (init_assign_ok sl (dec_oldC (match tgt with Some d => d | None => zr_scratch st end))
              (dec_oldL (match tgt with Some d => d | None => zr_scratch st end)) H2 Hs)
    as (d & cs & E & HT); [|exact Hc|].
  { intros s l Hsl. destruct (Hb s l Hsl). split; [lia | assumption]. }
  rewrite E. exists d. split; [reflexivity|].
  apply (dec_treeP_weaken (fun s => In s (map fst sl))); [|exact HT].
  intros s Hs0. apply in_map_iff in Hs0. destruct Hs0 as ([s' l'] & <- & Hs0). apply (Hb s' l' Hs0).
Qed.

Lemma pc_fin_bad tgt maxSyms n sl st :
  (2 <= length sl)%nat -> (forall s l, In (s, l) sl -> l <= 15) ->
  (maxSyms <= fst (nth (n - 1) sl (0, 0)) \/
   ((forall s l, In (s, l) sl -> s < 2 ^ 27) /\
    ~ (StronglySorted N.lt (map fst sl) /\ lens_pos sl /\ complete sl = true))) ->
  pc_fin tgt maxSyms n sl st = SErr ECorrupted st.
Proof.
  intros H2 Hl Hbad. unfold pc_fin.
  destruct (maxSyms <=? fst (nth (n - 1) sl (0, 0))) eqn:E.
  - cbn [when]. unfold corrupted. apply mbind_throw.
  - apply N.leb_gt in E. destruct Hbad as [Hbad|(H27 & Hbad)]; [lia|].
    cbn [when]. rewrite mbind_ret, init_target_eq. fold (codes_of sl).
    rewrite init_assign_rejects; [reflexivity | exact H2 | | exact Hbad].
    intros s l Hsl. split; [apply (H27 s l Hsl) | apply (Hl s l Hsl)].
Qed.

Lemma pc_fin_single tgt maxSyms a st : a < maxSyms -> maxSyms <= 2 ^ 27 ->
  exists d, pc_fin tgt maxSyms 1 [(a, 0)] st = SOk d st /\ dec_treeP (fun s => s < maxSyms) d (HLeaf a).
Proof.
  intros Ha Hm. unfold pc_fin. cbn [nth Nat.sub fst].
  replace (maxSyms <=? a) with false by (symmetry; apply N.leb_gt; exact Ha).
  cbn [when]. rewrite mbind_ret, init_target_eq. cbn [map fst snd br_dec_init].
  eexists. split; [reflexivity|]. left. exists a. split; [|split; [reflexivity | exact Ha]].
  unfold dec_single, c_sym. cbn [d_chunks d_chunkMask d_chunkBits d_minBits a_len fst].
  split; [reflexivity|]. split; [reflexivity|]. split; [reflexivity|]. split; [reflexivity|].
  split; [reflexivity | lia].
Qed.

Section Code.
Variable data : list byte.
Hypothesis Hd : forall b, In b data -> b < 256.
Variable bsz : nat.
Hypothesis Hbsz : (16 <= bsz)%nat.

Notation BInv' := (BInv data).
Notation sast' := (sast data).

Ltac bits_core HI nb Hnew v p1 E Hv Hle :=
  match goal with
  | |- context [run (rbits nb) (sast data ?R0 ?o)] =>
    match goal with
    | |- context [mbind (m_read_bits bsz nb) _ ?st] =>
      let Hx := fresh "Hx" in
      pose proof (m_read_bits_ok data Hd bsz Hbsz st R0 o nb HI ltac:(lia)) as Hx;
      let s1 := fresh "s1" in let e := fresh "e" in
      destruct (run (rbits nb) (sast data R0 o)) as [v s1|e s1];
      [ destruct Hx as (p1 & E & -> & Hnew & Hv & Hle); rewrite (mbind_ok _ _ _ _ _ E); cbv beta
      | let He := fresh "He" in
        destruct Hx as (He & Ho & pf & Ef); rewrite (mbind_err _ _ _ _ _ Ef); subst e ]
    end
  end.
Ltac bits_step HI nb Hnew v p1 E Hv Hle := rewrite run_bind; bits_core HI nb Hnew v p1 E Hv Hle.

(* one symbol through a decoder that holds the code of a trie *)
Lemma m_read_symbol_tree (P : N -> Prop) st R out d t : dec_treeP P d t -> BInv' R (zr_rd st) ->
  match run (sym_or_corrupt t) (sast' R out) with
  | Done v s' =>
    exists p' R', m_read_symbol bsz d st = SOk v (set_rd st p') /\
                  s' = sast' R' out /\ BInv' R' p' /\ P v
  | Fail e s' =>
    e = EUEOF /\ a_out s' = out /\ exists p', m_read_symbol bsz d st = SErr EUEOF (set_rd st p')
  end.
Proof.
  intros [(s & Hs & -> & HP)|(codes & HC & HZ & HT & HP)] HI.
  - unfold sym_or_corrupt. cbn [sym_tree bind run].
    destruct (m_read_symbol_single data Hd bsz Hbsz st R d s Hs HI) as (p' & E & HI').
    exists p', R. split; [exact E|]. split; [reflexivity|]. split; [exact HI' | exact HP].
  - pose proof (m_read_symbol_ok data Hd bsz Hbsz d codes HC t HT HZ st R out HI) as H.
    destruct (run (sym_or_corrupt t) (sast' R out)) as [v s'|e s'].
    + destruct H as (p' & n & E & -> & HI' & c & Hc & -> & _). exists p', (R + n)%nat.
      split; [exact E|]. split; [reflexivity|]. split; [exact HI' | apply HP; exact Hc].
    + exact H.
Qed.

Lemma m_try_read_symbol_tree (P : N -> Prop) st R out d t : dec_treeP P d t -> BInv' R (zr_rd st) ->
  match run (sym_or_corrupt t) (sast' R out) with
  | Done v s' =>
    exists p' R', m_try_read_symbol bsz d st = SOk v (set_rd st p') /\
                  s' = sast' R' out /\ BInv' R' p' /\ P v
  | Fail e s' =>
    e = EUEOF /\ a_out s' = out /\ exists p', m_try_read_symbol bsz d st = SErr EUEOF (set_rd st p')
  end.
Proof.
  intros [(s & Hs & -> & HP)|(codes & HC & HZ & HT & HP)] HI.
  - unfold sym_or_corrupt. cbn [sym_tree bind run].
    destruct (m_try_read_symbol_single data Hd bsz Hbsz st R d s Hs HI) as (p' & E & HI').
    exists p', R. split; [exact E|]. split; [reflexivity|]. split; [exact HI' | exact HP].
  - pose proof (m_try_read_symbol_ok data Hd bsz Hbsz d codes HC t HT HZ st R out HI) as H.
    destruct (run (sym_or_corrupt t) (sast' R out)) as [v s'|e s'].
    + destruct H as (p' & n & E & -> & HI' & c & Hc & -> & _). exists p', (R + n)%nat.
      split; [exact E|]. split; [reflexivity|]. split; [exact HI' | apply HP; exact Hc].
    + exact H.
Qed.

(* ---- readSimplePrefixCode ----------------------------------------------------------------------------- *)
Lemma needed_bits_alphabet asize : 1 <= asize < 2 ^ 32 -> needed_bits (w32 asize) = alphabet_bits asize.
Proof.
  intros H. unfold needed_bits, alphabet_bits, w32. rewrite N.mod_small by lia.
  replace (asize =? 0) with false by (symmetry; apply N.eqb_neq; lia). reflexivity.
Qed.

Lemma alphabet_bits_le asize : asize < 2 ^ 27 -> alphabet_bits asize <= 27.
Proof.
  intros H. unfold alphabet_bits. destruct (N.eq_dec (asize - 1) 0) as [E|E]; [rewrite E; cbn; lia|].
  rewrite N.size_log2 by exact E.
  assert (N.log2 (asize - 1) < 27) by (apply N.log2_lt_pow2; lia). lia.
Qed.

(* the NSYM symbols: the RFC model checks each one, the Reader reads them all *)
Lemma read_n_bits_ok nb asize : nb <= 27 -> forall n st R out, BInv' R (zr_rd st) ->
  match run (read_simple_syms n nb asize) (sast' R out) with
  | Done syms s' =>
    exists p', read_n_bits bsz n nb st = SOk syms (set_rd st p') /\
               s' = sast' (R + n * N.to_nat nb) out /\ BInv' (R + n * N.to_nat nb) p' /\
               length syms = n /\ Forall (fun x => x < asize) syms
  | Fail e s' =>
    a_out s' = out /\
    ((e = EUEOF /\ exists p', read_n_bits bsz n nb st = SErr EUEOF (set_rd st p')) \/
     (e = ECorrupted /\
      ((exists p', read_n_bits bsz n nb st = SErr EUEOF (set_rd st p')) \/
       (exists p' syms, read_n_bits bsz n nb st = SOk syms (set_rd st p') /\
                        BInv' (R + n * N.to_nat nb) p' /\ length syms = n /\
                        Exists (fun x => asize <= x) syms))))
  end.
Proof.
  intros Hnb. induction n as [|n IH]; intros st R out HI.
  - cbn [read_simple_syms run read_n_bits]. exists (zr_rd st).
    replace (R + 0 * N.to_nat nb)%nat with R by lia.
    split; [unfold ret; f_equal; destruct st; reflexivity|]. split; [reflexivity|].
    split; [exact HI|]. split; [reflexivity | constructor].
  - cbn [read_simple_syms read_n_bits].
    bits_step HI nb HI1 v p E Hv Hle.
    2:{ split; [exact Ho|]. left. split; [reflexivity|]. exists pf. reflexivity. }
    assert (Hw : w32 v = v).
    { unfold w32. apply N.mod_small. rewrite Hv.
      pose proof (bits_at_bound bsz Hbsz (bstream data) R (N.to_nat nb)) as Hb. rewrite N2Nat.id in Hb.
      assert (2 ^ nb <= 2 ^ 27) by (apply N.pow_le_mono_r; lia).
      assert (2 ^ 27 < 2 ^ 32) by (apply N.pow_lt_mono_r; lia). lia. }
    rewrite Hw.
    set (st1 := set_rd st p).
    assert (HI1' : BInv' (R + N.to_nat nb) (zr_rd st1)) by exact HI1.
    specialize (IH st1 (R + N.to_nat nb)%nat out HI1').
    replace (R + N.to_nat nb + n * N.to_nat nb)%nat with (R + S n * N.to_nat nb)%nat in IH by lia.
    rewrite run_bind. destruct (v <? asize) eqn:Ev.
    + cbn [assert_p run]. rewrite run_bind.
      destruct (run (read_simple_syms n nb asize) (sast' (R + N.to_nat nb) out)) as [syms s1|e s1].
      * destruct IH as (p' & E' & -> & HI' & Hlen & Hall).
        rewrite (mbind_ok _ _ _ _ _ E'). cbn [run]. exists p'.
        split; [reflexivity|]. split; [reflexivity|]. split; [exact HI'|].
        split; [cbn [length]; lia|]. constructor; [apply N.ltb_lt; exact Ev | exact Hall].
      * destruct IH as (Ho & [(-> & p' & E')|(-> & [(p' & E')|(p' & syms & E' & HI' & Hlen & Hex)])]).
        -- rewrite (mbind_err _ _ _ _ _ E'). split; [exact Ho|]. left. split; [reflexivity|].
           exists p'. reflexivity.
        -- rewrite (mbind_err _ _ _ _ _ E'). split; [exact Ho|]. right. split; [reflexivity|].
           left. exists p'. reflexivity.
        -- rewrite (mbind_ok _ _ _ _ _ E'). split; [exact Ho|]. right. split; [reflexivity|].
           right. exists p', (v :: syms). split; [reflexivity|]. split; [exact HI'|].
           split; [cbn [length]; lia|]. apply Exists_cons_tl. exact Hex.
    + cbn [assert_p run]. apply N.ltb_ge in Ev. split; [reflexivity|]. right. split; [reflexivity|].
      (* the Reader goes on reading; whatever the RFC model would have read *)
      assert (Hany : (exists p', read_n_bits bsz n nb st1 = SErr EUEOF (set_rd st1 p')) \/
                     (exists p' syms, read_n_bits bsz n nb st1 = SOk syms (set_rd st1 p') /\
                                      BInv' (R + S n * N.to_nat nb) p' /\ length syms = n)).
      { destruct (run (read_simple_syms n nb asize) (sast' (R + N.to_nat nb) out)) as [syms s1|e s1].
        - destruct IH as (p' & E' & _ & HI' & Hlen & _). right. exists p', syms.
          split; [exact E'|]. split; assumption.
        - destruct IH as (_ & [(_ & p' & E')|(_ & [(p' & E')|(p' & syms & E' & HI' & Hlen & _)])]).
          + left. exists p'. exact E'.
          + left. exists p'. exact E'.
          + right. exists p', syms. split; [exact E'|]. split; assumption. }
      destruct Hany as [(p' & E')|(p' & syms & E' & HI' & Hlen)].
      * rewrite (mbind_err _ _ _ _ _ E'). left. exists p'. reflexivity.
      * rewrite (mbind_ok _ _ _ _ _ E'). right. exists p', (v :: syms).
        split; [reflexivity|]. split; [exact HI'|]. split; [cbn [length]; lia|].
        apply Exists_cons_hd. exact Ev.
Qed.

Lemma has_dup_nodup l : has_dup l = false <-> NoDup l.
Proof.
  induction l as [|x r IH]; cbn [has_dup].
  - split; [constructor | reflexivity].
  - rewrite orb_false_iff, IH. split.
    + intros [H1 H2]. constructor; [|exact H2]. intros Hin.
      assert (existsb (N.eqb x) r = true) by (apply existsb_exists; exists x; split; [exact Hin | apply N.eqb_refl]).
      congruence.
    + intros H. inversion H as [|? ? H1 H2]; subst. split; [|exact H2].
      destruct (existsb (N.eqb x) r) eqn:E; [|reflexivity].
      apply existsb_exists in E. destruct E as (y & Hy & Ey). apply N.eqb_eq in Ey. subst. contradiction.
Qed.

Lemma map_fst_combine (syms lens : list N) : length syms = length lens ->
  map fst (combine syms lens) = syms.
Proof.
  revert lens; induction syms as [|x r IH]; intros [|y l] H; cbn [length] in H; try lia; [reflexivity|].
  cbn [combine map fst]. f_equal. apply IH. lia.
Qed.

(* the end of the simple reader, after a network that satisfies [net_ok] *)
Lemma fin_net n l0 o tgt asize st : net_ok l0 o n -> length l0 = n -> (2 <= n)%nat ->
  (forall s l, In (s, l) l0 -> 1 <= l <= 15) -> complete l0 = true -> asize <= 2 ^ 27 ->
  (Forall (fun x => fst x < asize) l0 -> NoDup (map fst l0) ->
   exists d, pc_fin tgt asize n o st = SOk d st /\ dec_treeP (fun s => s < asize) d (tree_of (sort_by_sym l0))) /\
  (Forall (fun x => fst x < asize) l0 -> ~ NoDup (map fst l0) ->
   pc_fin tgt asize n o st = SErr ECorrupted st) /\
  (Exists (fun x => asize <= fst x) l0 -> pc_fin tgt asize n o st = SErr ECorrupted st).
Proof.
  intros [[Hperm Hlen] Hmax Hdup Hsort Hml Hk] Hn H2 Hl Hc Ha.
  assert (Hlo : forall s l, In (s, l) o -> l <= 15).
  { intros s l Hin. apply Hperm in Hin. pose proof (Hl s l Hin). lia. }
  split; [|split].
  - intros Hall Hnd. destruct (Hsort Hnd) as (HS & Eo). rewrite <- Eo.
    apply pc_fin_ok; try assumption.
    + lia.
    + intros s l Hin. apply Hperm in Hin. split; [|apply (Hl s l Hin)].
      rewrite Forall_forall in Hall. apply (Hall (s, l) Hin).
    + unfold complete. rewrite Hml, Hk. exact Hc.
    + apply nth_In. lia.
  - intros Hall Hnd. apply pc_fin_bad; [lia | exact Hlo|]. right. split.
    + intros s l Hin. apply Hperm in Hin. rewrite Forall_forall in Hall.
      pose proof (Hall (s, l) Hin) as H. cbn [fst] in H. lia.
    + intros (HS & _). exact (Hdup Hnd HS).
  - intros Hex. apply pc_fin_bad; [lia | exact Hlo|]. left.
    apply Exists_exists in Hex. destruct Hex as (x & Hx & Hge). pose proof (Hmax x Hx). lia.
Qed.

Lemma Forall_fst_combine (P : N -> Prop) (syms lens : list N) : length syms = length lens ->
  Forall P syms -> Forall (fun x : N * N => P (fst x)) (combine syms lens).
Proof.
  revert lens; induction syms as [|x r IH]; intros [|y l] H HF; cbn [length] in H; try lia; [constructor|].
  inversion HF; subst. cbn [combine]. constructor; [assumption | apply IH; [lia | assumption]].
Qed.

Lemma Exists_fst_combine (P : N -> Prop) (syms lens : list N) : length syms = length lens ->
  Exists P syms -> Exists (fun x : N * N => P (fst x)) (combine syms lens).
Proof.
  revert lens; induction syms as [|x r IH]; intros [|y l] H HF; cbn [length] in H; try lia;
    [inversion HF|].
  cbn [combine]. inversion HF; subst; [apply Exists_cons_hd; assumption|].
  apply Exists_cons_tl. apply IH; [lia | assumption].
Qed.

(* the tail of the simple reader for 2 and 3 symbols and, after the tree-select bit, for 4 *)
Lemma simple_tail n lens net tgt asize st syms :
  (forall l0, length l0 = n -> map snd l0 = lens -> net_ok l0 (net l0) n) ->
  length lens = n -> (2 <= n)%nat -> Forall (fun l => 1 <= l <= 15) lens ->
  (forall syms', length syms' = n -> complete (combine syms' lens) = true) ->
  asize <= 2 ^ 27 -> length syms = n ->
  let l0 := combine syms lens in
  (Forall (fun x => x < asize) syms -> has_dup syms = false ->
   exists d, pc_fin tgt asize n (net l0) st = SOk d st /\ dec_treeP (fun s => s < asize) d (tree_of (sort_by_sym l0))) /\
  (Forall (fun x => x < asize) syms -> has_dup syms = true ->
   pc_fin tgt asize n (net l0) st = SErr ECorrupted st) /\
  (Exists (fun x => asize <= x) syms -> pc_fin tgt asize n (net l0) st = SErr ECorrupted st).
Proof.
  intros Hnet Hll H2 Hlens Hcomp Ha Hls. cbv zeta.
  set (l0 := combine syms lens).
  assert (Hl0 : length l0 = n) by (unfold l0; rewrite combine_length; lia).
  assert (Hsnd : map snd l0 = lens).
  { unfold l0. clear -Hll Hls. revert lens Hll Hls. generalize n. induction syms as [|x r IH]; intros k [|y l] H1 H2;
      cbn [length] in *; try lia; [reflexivity|]. cbn [combine map snd]. f_equal. apply (IH (length l)); lia. }
  assert (Hfst : map fst l0 = syms) by (unfold l0; apply map_fst_combine; lia).
  assert (Hlb : forall s l, In (s, l) l0 -> 1 <= l <= 15).
  { intros s l Hin. rewrite Forall_forall in Hlens. apply Hlens. rewrite <- Hsnd.
    apply in_map_iff. exists (s, l). split; [reflexivity | exact Hin]. }
  destruct (fin_net n l0 (net l0) tgt asize st (Hnet l0 Hl0 Hsnd) Hl0 H2 Hlb (Hcomp syms Hls) Ha)
    as (F1 & F2 & F3).
  split; [|split].
  - intros Hall Hdp. apply F1.
    + unfold l0. apply (Forall_fst_combine (fun x => x < asize)); [lia | exact Hall].
    + rewrite Hfst. apply has_dup_nodup. exact Hdp.
  - intros Hall Hdp. apply F2.
    + unfold l0. apply (Forall_fst_combine (fun x => x < asize)); [lia | exact Hall].
    + rewrite Hfst. intros Hn. apply has_dup_nodup in Hn. congruence.
  - intros Hex. apply F3. unfold l0. apply (Exists_fst_combine (fun x => asize <= x)); [lia | exact Hex].
Qed.

Lemma net2_ok_all l0 : length l0 = 2%nat -> net_ok l0 (net2 l0) 2.
Proof. destruct l0 as [|[a la] [|[b lb] [|? ?]]]; cbn [length]; intros H; try lia. apply net2_out. Qed.
Lemma net3_ok_all l0 : length l0 = 3%nat -> net_ok l0 (net3 l0) 3.
Proof. destruct l0 as [|[a la] [|[b lb] [|[c lc] [|? ?]]]]; cbn [length]; intros H; try lia. apply net3_out. Qed.
Lemma net4_ok_all l0 : length l0 = 4%nat -> net_ok l0 (net4 l0) 4.
Proof.
  destruct l0 as [|[a la] [|[b lb] [|[c lc] [|[d ld] [|? ?]]]]]; cbn [length]; intros H; try lia. apply net4_out.
Qed.

Lemma complete_any2 syms l1 l2 : length syms = 2%nat -> complete (combine [0;0] [l1;l2]) = true ->
  complete (combine syms [l1;l2]) = true.
Proof. destruct syms as [|a [|b [|? ?]]]; cbn [length]; intros H; try lia. intros Hc. exact Hc. Qed.
Lemma complete_any3 syms l1 l2 l3 : length syms = 3%nat -> complete (combine [0;0;0] [l1;l2;l3]) = true ->
  complete (combine syms [l1;l2;l3]) = true.
Proof. destruct syms as [|a [|b [|c [|? ?]]]]; cbn [length]; intros H; try lia. intros Hc. exact Hc. Qed.
Lemma complete_any4 syms l1 l2 l3 l4 : length syms = 4%nat ->
  complete (combine [0;0;0;0] [l1;l2;l3;l4]) = true -> complete (combine syms [l1;l2;l3;l4]) = true.
Proof. destruct syms as [|a [|b [|c [|d [|? ?]]]]]; cbn [length]; intros H; try lia. intros Hc. exact Hc. Qed.

Lemma lens_ok_list (l : list N) : forallb (fun x => (1 <=? x) && (x <=? 15)) l = true ->
  Forall (fun x => 1 <= x <= 15) l.
Proof.
  intros H. apply Forall_forall. intros x Hx. rewrite forallb_forall in H. specialize (H x Hx).
  apply andb_true_iff in H as [H1 H2]. apply N.leb_le in H1. apply N.leb_le in H2. lia.
Qed.

Definition simple_tail2 tgt asize st syms :=
  simple_tail 2 [1; 1] net2 tgt asize st syms (fun l0 H _ => net2_ok_all l0 H) eq_refl (le_n 2)
              (lens_ok_list [1; 1] eq_refl) (fun s H => complete_any2 s 1 1 H eq_refl).
Definition simple_tail3 tgt asize st syms :=
  simple_tail 3 [1; 2; 2] net3 tgt asize st syms (fun l0 H _ => net3_ok_all l0 H) eq_refl (le_S _ _ (le_n 2))
              (lens_ok_list [1; 2; 2] eq_refl) (fun s H => complete_any3 s 1 2 2 H eq_refl).
Definition simple_tail4a tgt asize st syms :=
  simple_tail 4 [2; 2; 2; 2] net4 tgt asize st syms (fun l0 H _ => net4_ok_all l0 H) eq_refl
              (le_S _ _ (le_S _ _ (le_n 2)))
              (lens_ok_list [2; 2; 2; 2] eq_refl) (fun s H => complete_any4 s 2 2 2 2 H eq_refl).
Definition simple_tail4b tgt asize st syms :=
  simple_tail 4 [1; 2; 3; 3] net4 tgt asize st syms (fun l0 H _ => net4_ok_all l0 H) eq_refl
              (le_S _ _ (le_S _ _ (le_n 2)))
              (lens_ok_list [1; 2; 3; 3] eq_refl) (fun s H => complete_any4 s 1 2 3 3 H eq_refl).

Lemma read_simple_ok tgt asize st R out : BInv' R (zr_rd st) -> 2 <= asize < 2 ^ 27 ->
  match run (read_simple_code asize) (sast' R out) with
  | Done t s' =>
    exists p' R' d, read_simple_prefix_code bsz tgt asize st = SOk d (set_rd st p') /\
                    s' = sast' R' out /\ BInv' R' p' /\ dec_treeP (fun s => s < asize) d t
  | Fail e s' =>
    a_out s' = out /\ exists e' p', read_simple_prefix_code bsz tgt asize st = SErr e' (set_rd st p') /\
                                    (e' = EUEOF \/ e' = ECorrupted)
  end.
Proof.
  intros HI Ha. unfold read_simple_code, read_simple_prefix_code.
  bits_step HI 2 HI1 v p E Hv Hle.
  2:{ split; [exact Ho|]. exists EUEOF, pf. split; [reflexivity | left; reflexivity]. }
  assert (Hv4 : v < 4) by (rewrite Hv; apply (bits_at_bound bsz Hbsz _ _ 2)).
  clear Hv.
  cbv zeta. rewrite needed_bits_alphabet by (assert (2 ^ 27 < 2 ^ 32) by (apply N.pow_lt_mono_r; lia); lia).
  pose proof (alphabet_bits_le asize ltac:(lia)) as Hab.
  set (ab := alphabet_bits asize) in *.
  set (st1 := set_rd st p).
  assert (HI1' : BInv' (R + N.to_nat 2) (zr_rd st1)) by exact HI1.
  replace (S (N.to_nat v)) with (N.to_nat v + 1)%nat by lia.
  rewrite run_bind.
  pose proof (read_n_bits_ok ab asize Hab (N.to_nat v + 1) st1 _ out HI1') as Hn.
  assert (Ha27 : asize <= 2 ^ 27) by lia.
  assert (Hcases : v = 0 \/ v = 1 \/ v = 2 \/ v = 3) by lia.
  destruct (run (read_simple_syms (N.to_nat v + 1) ab asize) (sast' (R + N.to_nat 2) out)) as [syms s1|e s1].
  - destruct Hn as (p1 & E1 & -> & HI2 & Hlen & Hall).
    rewrite (mbind_ok _ _ _ _ _ E1). cbv beta.
    set (st2 := set_rd st1 p1).
    rewrite run_bind.
    destruct Hcases as [Hc|[Hc|[Hc|Hc]]]; subst v; cbn [N.to_nat] in *; change (Pos.to_nat 1) with 1%nat in *; change (Pos.to_nat 2) with 2%nat in *; change (Pos.to_nat 3) with 3%nat in *; cbn [Nat.add] in *.
    + (* one symbol *)
      destruct syms as [|a [|? ?]]; cbn [length] in Hlen; try lia.
      cbn [has_dup existsb orb negb assert_p run]. rewrite mbind_ret.
      inversion Hall as [|? ? Ha1 _]; subst.
      destruct (pc_fin_single tgt asize a st2 Ha1 Ha27) as (d & Ef & HT).
      exists p1, (R + 2 + 1 * N.to_nat ab)%nat, d.
      split; [exact Ef|]. split; [reflexivity|]. split; [exact HI2 | exact HT].
    + (* two *)
      destruct (simple_tail2 tgt asize st2 syms Ha27 Hlen) as (T1 & T2 & _).
      rewrite mbind_ret.
      destruct (has_dup syms) eqn:Ed; cbn [negb assert_p run].
      * split; [reflexivity|]. exists ECorrupted, p1. split; [exact (T2 Hall eq_refl) | right; reflexivity].
      * destruct (T1 Hall eq_refl) as (d & Ef & HT).
        destruct syms as [|a [|b [|? ?]]]; cbn [length] in Hlen; try lia. cbn [run].
        exists p1, (R + 2 + 2 * N.to_nat ab)%nat, d.
        split; [exact Ef|]. split; [reflexivity|]. split; [exact HI2 | exact HT].
    + (* three *)
      destruct (simple_tail3 tgt asize st2 syms Ha27 Hlen) as (T1 & T2 & _).
      rewrite mbind_ret.
      destruct (has_dup syms) eqn:Ed; cbn [negb assert_p run].
      * split; [reflexivity|]. exists ECorrupted, p1. split; [exact (T2 Hall eq_refl) | right; reflexivity].
      * destruct (T1 Hall eq_refl) as (d & Ef & HT).
        destruct syms as [|a [|b [|c [|? ?]]]]; cbn [length] in Hlen; try lia. cbn [run].
        exists p1, (R + 2 + 3 * N.to_nat ab)%nat, d.
        split; [exact Ef|]. split; [reflexivity|]. split; [exact HI2 | exact HT].
    + (* four: the tree-select bit *)
      assert (HI2' : BInv' (R + 2 + 4 * N.to_nat ab) (zr_rd st2)) by exact HI2.
      rewrite mbind_assoc.
      destruct (has_dup syms) eqn:Ed; cbn [negb assert_p run].
      * split; [reflexivity|].
        (* the Reader reads the tree-select bit before it notices *)
        pose proof (m_read_bits_ok data Hd bsz Hbsz st2 _ out 1 HI2' ltac:(lia)) as Hx.
        destruct (run (rbits 1) (sast' (R + 2 + 4 * N.to_nat ab) out)) as [ts s1|e s1].
        -- destruct Hx as (p2 & E2 & _ & HI3 & _ & _). rewrite (mbind_ok _ _ _ _ _ E2). cbv beta.
           rewrite mbind_ret. exists ECorrupted, p2. split; [|right; reflexivity].
           destruct (ts =? 1).
           ++ destruct (simple_tail4b tgt asize (set_rd st2 p2) syms Ha27 Hlen) as (_ & T2 & _).
              exact (T2 Hall Ed).
           ++ destruct (simple_tail4a tgt asize (set_rd st2 p2) syms Ha27 Hlen) as (_ & T2 & _).
              exact (T2 Hall Ed).
        -- destruct Hx as (_ & _ & p2 & E2). rewrite (mbind_err _ _ _ _ _ E2).
           exists EUEOF, p2. split; [reflexivity | left; reflexivity].
      * destruct syms as [|a [|b [|c [|d0 [|? ?]]]]]; cbn [length] in Hlen; try lia.
        bits_step HI2' 1 HI3 ts p2 E2 Hvt Hle2.
        2:{ split; [exact Ho|]. exists EUEOF, pf. split; [reflexivity | left; reflexivity]. }
        assert (Hts : ts < 2) by (rewrite Hvt; apply (bits_at_bound bsz Hbsz _ _ 1)).
        rewrite mbind_ret.
        destruct (ts =? 0) eqn:Ets.
        -- apply N.eqb_eq in Ets. replace (ts =? 1) with false by (symmetry; apply N.eqb_neq; lia).
           destruct (simple_tail4a tgt asize (set_rd st2 p2) [a; b; c; d0] Ha27 eq_refl) as (T1 & _ & _).
           destruct (T1 Hall Ed) as (d & Ef & HT). cbn [run].
           exists p2, (R + 2 + 4 * N.to_nat ab + N.to_nat 1)%nat, d.
           split; [exact Ef|]. split; [reflexivity|]. split; [exact HI3 | exact HT].
        -- apply N.eqb_neq in Ets. replace (ts =? 1) with true by (symmetry; apply N.eqb_eq; lia).
           destruct (simple_tail4b tgt asize (set_rd st2 p2) [a; b; c; d0] Ha27 eq_refl) as (T1 & _ & _).
           destruct (T1 Hall Ed) as (d & Ef & HT). cbn [run].
           exists p2, (R + 2 + 4 * N.to_nat ab + N.to_nat 1)%nat, d.
           split; [exact Ef|]. split; [reflexivity|]. split; [exact HI3 | exact HT].
  - (* the symbols: out of input, or out of range *)
    destruct Hn as (Ho & [(-> & p1 & E1)|(-> & [(p1 & E1)|(p1 & syms & E1 & HI2 & Hlen & Hex)])]).
    + rewrite (mbind_err _ _ _ _ _ E1). split; [exact Ho|]. exists EUEOF, p1.
      split; [reflexivity | left; reflexivity].
    + rewrite (mbind_err _ _ _ _ _ E1). split; [exact Ho|]. exists EUEOF, p1.
      split; [reflexivity | left; reflexivity].
    + rewrite (mbind_ok _ _ _ _ _ E1). cbv beta. split; [exact Ho|].
      set (st2 := set_rd st1 p1).
      destruct Hcases as [Hc|[Hc|[Hc|Hc]]]; subst v; cbn [N.to_nat] in *; change (Pos.to_nat 1) with 1%nat in *; change (Pos.to_nat 2) with 2%nat in *; change (Pos.to_nat 3) with 3%nat in *; cbn [Nat.add] in *.
      * destruct syms as [|a [|? ?]]; cbn [length] in Hlen; try lia. rewrite mbind_ret.
        inversion Hex as [? ? Hge|? ? Hex']; [|inversion Hex'].
        exists ECorrupted, p1. split; [|right; reflexivity].
        cbn [combine simpleLens1 nth Nat.sub fst]. replace (asize <=? a) with true by (symmetry; apply N.leb_le; exact Hge).
        cbn [when]. unfold corrupted. apply mbind_throw.
      * destruct (simple_tail2 tgt asize st2 syms Ha27 Hlen) as (_ & _ & T3). rewrite mbind_ret.
        exists ECorrupted, p1. split; [exact (T3 Hex) | right; reflexivity].
      * destruct (simple_tail3 tgt asize st2 syms Ha27 Hlen) as (_ & _ & T3). rewrite mbind_ret.
        exists ECorrupted, p1. split; [exact (T3 Hex) | right; reflexivity].
      * assert (HI2' : BInv' (R + 2 + 4 * N.to_nat ab) (zr_rd st2)) by exact HI2.
        rewrite mbind_assoc.
        pose proof (m_read_bits_ok data Hd bsz Hbsz st2 _ out 1 HI2' ltac:(lia)) as Hx.
        destruct (run (rbits 1) (sast' (R + 2 + 4 * N.to_nat ab) out)) as [ts s2|e s2].
        -- destruct Hx as (p2 & E2 & _ & HI3 & _ & _). rewrite (mbind_ok _ _ _ _ _ E2). cbv beta.
           rewrite mbind_ret. exists ECorrupted, p2. split; [|right; reflexivity].
           destruct (ts =? 1).
           ++ destruct (simple_tail4b tgt asize (set_rd st2 p2) syms Ha27 Hlen) as (_ & _ & T3). exact (T3 Hex).
           ++ destruct (simple_tail4a tgt asize (set_rd st2 p2) syms Ha27 Hlen) as (_ & _ & T3). exact (T3 Hex).
        -- destruct Hx as (_ & _ & p2 & E2). rewrite (mbind_err _ _ _ _ _ E2).
           exists EUEOF, p2. split; [reflexivity | left; reflexivity].
Qed.

End Code.
