(* C09 — failure contract of the Readers. *)
From V Require Import Flate.Impl Flate.ImplLife Flate.ImplLifeWin Flate.ImplLifeSim Flate.ImplLifeThms.
From V Require Import XFlate.Total.
From V Require Import Bzip2.Common Bzip2.SpecR Bzip2.SpecW Bzip2.Cut.
From V Require Import Base.Prelude Base.Prog Base.ProgThms Flate.Spec Flate.Thms XFlate.Reader XFlate.Thms Life.ReadLoop Flate.Safe Flate.Fuel Brotli.Spec Brotli.Safe Brotli.Fuel Bzip2.Common Bzip2.SpecR Bzip2.Safe.

(* the error a Read reports is the decoder's own outcome (wrapped by the
   package), reported only when everything decoded has been delivered *)
Theorem reader_error_is_stream_outcome : forall wrap v p0 s0 r n,
  Inv wrap p0 s0 r ->
  let '((c, e), r') := read wrap v r n in
  forall x, e = Some x ->
    x = total_err wrap p0 s0 /\ toRead r' = [] /\ rerr r' = Some x /\
    delivered r' = total_out p0 s0.
Proof. exact read_error_is_final. Qed.
Print Assumptions reader_error_is_stream_outcome.

(* once reported, the same error and no data, forever *)
Theorem reader_error_sticky : forall wrap v r n e,
  toRead r = [] -> rerr r = Some e -> read wrap v r n = (([], Some e), r).
Proof. exact ReadLoop.read_sticky. Qed.
Print Assumptions reader_error_sticky.

(* Close returns nil only after EOF (or when already closed); afterwards
   every Read is refused *)
Theorem reader_close_contract : forall wrap v closed_err r,
  toRead r = [] ->
  match rerr r with
  | Some e =>
    if err_eqb e (wrap EEOF) || err_eqb e closed_err
    then fst (close wrap closed_err r) = None /\
         forall n, read wrap v (snd (close wrap closed_err r)) n
                   = (([], Some closed_err), snd (close wrap closed_err r))
    else fst (close wrap closed_err r) = Some e /\ snd (close wrap closed_err r) = r
  | None => True
  end.
Proof. exact close_contract. Qed.
Print Assumptions reader_close_contract.

(* a valid DEFLATE stream cut short at any byte: exactly UnexpectedEOF *)
Theorem flate_truncation_is_UEOF : forall d input cut rest,
  input = cut ++ rest ->
  res_err (inflate_d d input) <> Some EUEOF ->
  8 * N.of_nat (length cut) < res_pos (inflate_d d input) ->
  res_err (inflate_d d cut) = Some EUEOF /\
  prefix_of (res_out (inflate_d d cut)) (res_out (inflate_d d input)).
Proof. exact inflate_truncated. Qed.
Print Assumptions flate_truncation_is_UEOF.

(* xflate.Reader: errors are sticky for Read, non-EOF errors also for Seek *)
Theorem xflate_reader_error_sticky : forall s n e,
  r_err s = Some e -> XFlate.Reader.read s n = (([], Some e), s).
Proof. exact XFlate.Thms.read_sticky. Qed.
Print Assumptions xflate_reader_error_sticky.

(* TOTALITY of the RFC 1951 decoder model: on EVERY input the decoder, with the loop budget
   [inflate] itself chooses, ends in success, UnexpectedEOF or Corrupted - never in a panic
   (window copy out of range), never with its loop budget exhausted (every continuing loop
   iteration consumes an input bit; complete codes have no zero length, so no decoding tree
   is a bare leaf), never with Invalid/Internal. *)
Theorem flate_error_classes : forall input,
  match ir_err (inflate input) with
  | None => True
  | Some e => e = EUEOF \/ e = ECorrupted
  end.
Proof. exact inflate_total. Qed.
Print Assumptions flate_error_classes.

(* TOTALITY of the RFC 7932 decoder model, for every static dictionary and every input:
   success, UnexpectedEOF or Corrupted - never a panic (window copy out of range), never an
   exhausted loop budget. The command loop needs a real argument: a command may consume no
   input bit at all, progress then lies in the bytes it produces, and a dictionary word can
   be empty only for transforms that a zero-bit distance cannot reach (invariant: the last
   distances never exceed max 16 (min window bytes_produced)). *)
Theorem brotli_error_classes : forall dict input,
  match br_err (brotli_decode dict input) with
  | None => True
  | Some e => e = EUEOF \/ e = ECorrupted
  end.
Proof. exact brotli_decode_total. Qed.
Print Assumptions brotli_error_classes.

(* TOTALITY of the bzip2 decoder model (libbzip2 port): on every input success,
   UnexpectedEOF, Corrupted or Deprecated (bzip1 header, block randomisation) *)
Theorem bzip2_error_classes : forall input,
  match bz_err (bzip2_decode input) with
  | None => True
  | Some e => e = EUEOF \/ e = ECorrupted \/ e = EDeprecated
  end.
Proof. exact bzip2_decode_total. Qed.
Print Assumptions bzip2_error_classes.

(* bzip2: every proper non-empty prefix of a Writer-produced stream, any level, any data, fails
   with exactly UnexpectedEOF having delivered a prefix of the data *)
Theorem bzip2_truncation_is_unexpected_eof : forall level data k,
  1 <= level <= 9 -> (forall b, In b data -> b < 256) ->
  (0 < k < length (bzip2_encode level data))%nat ->
  bz_err (bzip2_decode (firstn k (bzip2_encode level data))) = Some EUEOF /\
  prefix_of (bz_out (bzip2_decode (firstn k (bzip2_encode level data)))) data /\
  bz_used (bzip2_decode (firstn k (bzip2_encode level data))) = N.of_nat k.
Proof. exact bzip2_cut_is_ueof. Qed.
Print Assumptions bzip2_truncation_is_unexpected_eof.

(* xflate.Reader on ANY input: open fails only with Corrupted / UnexpectedEOF, and every call of
   every history on an opened stream ends in nil / EOF / Corrupted / UnexpectedEOF / Closed
   (Seek: also Invalid) - never an internal class, a panic or an exhausted budget *)
Theorem xflate_reader_error_classes : forall data s1 ops,
  open_reader data = inr s1 -> Forall obs_ok (fst (rrun s1 ops)).
Proof. exact reader_total. Qed.
Print Assumptions xflate_reader_error_classes.

(* flate.Reader at implementation level (Flate/ImplLife.v, per-call correspondence WFLLIFE): once a
   Read has returned a non-nil error - from ANY state, any buffer size, io.EOF and the closed error
   included - every later Read returns no byte and the same error and changes nothing at all
   (offsets, source position); Close then reports nil for io.EOF / closed and the error otherwise *)
Theorem flate_reader_error_is_sticky : forall st n bs e st',
  fl_read st n = ((bs, Some e), st') ->
  (forall ops, Forall is_read ops ->
     fl_ops st' ops = (map (fun _ => lobs_of LkRead [] (Some e) st') ops, st')) /\
  fl_close st' = (close_ret e, set_err st' (Some (closed_class e))).
Proof. exact fl_error_sticky. Qed.
Print Assumptions flate_reader_error_is_sticky.

From V Require Meta.ReaderImpl Meta.ReaderImplSim Meta.ReaderImplThms.
Module MetaReaderImplD.
Import Base.Prelude Base.Prog Flate.Impl Flate.ImplRel Meta.Model Meta.Stream Meta.ReaderImpl Meta.ReaderImplSim Meta.ReaderImplThms.
(* meta.Reader at implementation level, from ANY state: the first error is returned by every later
   Read with no bytes and nothing changes; after a successful Close every Read returns the closed
   error; Close is idempotent, touches neither source nor counters, and succeeds exactly when no
   error other than io.EOF is latched *)
Theorem meta_reader_latch_and_close :
  (forall st n bs e st', mr_read st n = ((bs, Some e), st') ->
     forall n', mr_read st' n' = (([], Some e), st')) /\
  (forall st st', mr_close st = (None, st') ->
     forall n, mr_read st' n = (([], Some EClosed), st')) /\
  (forall st, mr_close (snd (mr_close st)) = mr_close st) /\
  (forall st, m_br (snd (mr_close st)) = m_br st /\ m_inOff (snd (mr_close st)) = m_inOff st /\
              m_outOff (snd (mr_close st)) = m_outOff st /\ m_nblocks (snd (mr_close st)) = m_nblocks st /\
              m_buf (snd (mr_close st)) = m_buf st) /\
  (forall st, match m_err st with
              | None | Some EEOF => mr_close st = (None, snd (mr_close st)) /\
                                    m_FinalMode (snd (mr_close st)) = m_final st /\
                                    m_err (snd (mr_close st)) = Some EClosed
              | Some EClosed => mr_close st = (None, st)
              | Some e => mr_close st = (Some e, st)
              end).
Proof. exact meta_reader_sticky_closed. Qed.
Print Assumptions meta_reader_latch_and_close.
End MetaReaderImplD.

(* bzip2.Reader LIFECYCLE at implementation level (Bzip2/ImplLife.v: Close, the latch, Reset; histories of
   Read/Close/Reset over scripted sources compared PER CALL with the real Reader: WBZLIFE) *)
From V Require Import Base.Prelude Prefix.ReaderImpl Prefix.DecTable.
From V Require Bzip2.Impl Bzip2.ImplLife Bzip2.ImplLifeLatch Bzip2.ImplLifeSim Bzip2.ImplLifeInv Bzip2.ImplLifeThms.
Module BzLife.
Import Bzip2.Impl Bzip2.ImplLife Bzip2.ImplLifeLatch Bzip2.ImplLifeSim Bzip2.ImplLifeInv Bzip2.ImplLifeThms.
(* ---- C09 *)
Theorem bzip2_reader_error_is_sticky : forall st n bs e st',
  good st -> bz_read st n = ((bs, Some e), st') ->
  bs = [] /\ z_outOff st' = z_outOff st /\ latched st' e /\
  (forall ops, Forall Bzip2.ImplLifeThms.is_read ops ->
     bz_ops st' ops = (map (fun _ => bzlobs_of BkRead [] (Some e) st') ops, st')) /\
  fst (bz_close st') = Bzip2.ImplLifeLatch.close_ret e /\
  latched (snd (bz_close st')) (Bzip2.ImplLifeLatch.closed_class e).
Proof. exact bz_error_sticky. Qed.
Print Assumptions bzip2_reader_error_is_sticky.

Theorem bzip2_reader_states_are_good : forall data bf fills reads ops,
  bytes_ok data -> Forall op_ok ops -> good (snd (bz_ops (bz_new data bf fills reads) ops)).
Proof. exact reachable_good. Qed.
Print Assumptions bzip2_reader_states_are_good.

Theorem bzip2_reader_sticky_needs_reachability : ~ bz_error_sticky_unconditional_statement.
Proof. exact bz_error_sticky_unconditional_refuted. Qed.
Print Assumptions bzip2_reader_sticky_needs_reachability.

End BzLife.
