(* C17 — XFLATE random access is local. Model: XFlate/Reader.v logs every
   byte range it reads from the underlying ReadSeeker. *)
From V Require Import XFlate.RTStream XFlate.Total XFlate.OpenLocality.
From V Require Import Base.Prelude XFlate.Index XFlate.Reader XFlate.Thms XFlate.Refine XFlate.Locality.

(* one Seek touches at most one new range of the underlying stream, and that
   range is the compressed span of a single index record (the chunk holding
   the target) — however far the target is from the start *)
Theorem seek_touches_one_chunk : forall s off wh,
  r_log (snd (seek s off wh)) = r_log s \/
  exists prev curr, In curr (r_recs s ++ [mkRec (CompOffset prev) (RawOffset prev) unknownType]) /\
    r_log (snd (seek s off wh)) =
    r_log s ++ [(Z.to_N (CompOffset prev), Z.to_N (CompOffset curr - CompOffset prev))].
Proof. exact seek_io_local. Qed.
Print Assumptions seek_touches_one_chunk.

(* refused seeks read nothing *)
Theorem refused_seek_reads_nothing : forall s off,
  r_err s = None \/ r_err s = Some EEOF -> (off < 0)%Z ->
  r_log (snd (seek s off 0)) = r_log s.
Proof. exact seek_refused_no_io. Qed.
Print Assumptions refused_seek_reads_nothing.

(* a zero-length Read reads nothing *)
Theorem zero_read_reads_nothing : forall s, r_log (snd (read s 0)) = r_log s.
Proof. intros s. rewrite read_zero. reflexivity. Qed.
Print Assumptions zero_read_reads_nothing.

(* ---- over all histories, on every honest stream (the hypothesis of C07's theorem) ---- *)

(* a Seek reads at most the compressed extent of ONE record: the one whose raw range
   holds the (clamped) target *)
Theorem seek_reads_the_target_record : forall data T content, honest data T content ->
  forall s pos0 k off wh, Cur data T content s pos0 k ->
  r_log (snd (seek s off wh)) = r_log s \/
  exists ri pos, (0 <= ri <= L T)%Z /\
    (RawOffset (pv T ri) <= Z.min pos (endp T) <= RawOffset (cu T ri))%Z /\
    fst (seek s off wh) = (pos, None) /\
    r_log (snd (seek s off wh)) = r_log s ++ [extent T ri].
Proof. exact seek_log. Qed.
Print Assumptions seek_reads_the_target_record.

(* a Read of n bytes at logical position lp reads only extents of records after the
   current one that start strictly before lp + n (or the empty end-of-data extent) - or
   exactly at lp + n when the record before it ends there and its decompressor returns
   io.EOF together with its last bytes (Locality.opened, Refine.joined: the Reader then
   moves on to the next record in the same call; chunks the Writer makes end with a sync
   marker, which hands the bytes over before the status):
   the cost follows the chunks overlapping [lp, lp+n], not the size of the stream *)
Theorem read_reads_only_overlapping_records : forall data T content, honest data T content ->
  forall s n pos k, Cur data T content s pos k ->
  exists extra,
    r_log (snd (read s n)) = r_log s ++ extra /\
    Forall (opened data T k (Z.min pos (endp T)) n) extra.
Proof. exact read_log. Qed.
Print Assumptions read_reads_only_overlapping_records.

(* whatever the history, everything read after opening is an extent of an index record *)
Theorem every_access_is_a_record_extent : forall data T content, honest data T content ->
  forall ops s st, Rel data T content s st ->
  exists extra, r_log (snd (rrun s ops)) = r_log s ++ extra /\ Forall (is_extent T) extra.
Proof. exact run_log. Qed.
Print Assumptions every_access_is_a_record_extent.

(* OPENING IS LOCAL, as an equation on the I/O log. For every stream the Writer produced:
   one read of the last min(64, length) bytes, then each index block exactly once (newest
   first), then the first item of the stream is prepared - nothing else ... *)
Theorem xflate_open_reads_footer_and_index_blocks_only : forall rsegs foot sink data,
  xf_stream rsegs foot sink data ->
  (Z.of_nat (length sink) < 2 ^ 40)%Z -> (Z.of_nat (length data) < 2 ^ 62)%Z ->
  exists s1, open_reader sink = inr s1 /\
    r_log s1 = [((flen sink - fn sink)%N, fn sink)] ++ idx_reads rsegs ++ [(0%N, first_item_size rsegs foot)].
Proof. exact open_log_written. Qed.
Print Assumptions xflate_open_reads_footer_and_index_blocks_only.

(* ... and on ANY input an accepted open read at most 64 bytes for the footer and index
   extents that are pairwise disjoint, strictly descending and below the footer: never more
   than the file once *)
Theorem xflate_open_io_bounded_on_any_input : forall data s1,
  (Z.of_N (flen data) < 2 ^ 63)%Z ->
  open_reader data = inr s1 ->
  exists foot ixs c,
    r_log s1 = [((flen data - fn data)%N, fn data)] ++ rev ixs ++ [(0%N, c)] /\
    (fn data <= 64 /\ fn data <= flen data /\ 4 <= foot <= fn data)%N /\
    asc_from 0 ixs /\ Forall (below (zN (flen data - foot))) ixs /\
    (c <= flen data)%N /\
    (log_bytes ixs <= flen data - foot)%N /\
    (log_bytes (r_log s1) <= 64 + (flen data - foot) + c)%N.
Proof. exact open_log_hostile. Qed.
Print Assumptions xflate_open_io_bounded_on_any_input.
