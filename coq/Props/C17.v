(* C17 — XFLATE random access is local. Model: XFlate/Reader.v logs every
   byte range it reads from the underlying ReadSeeker. *)
From V Require Import Base.Prelude XFlate.Index XFlate.Reader XFlate.Thms.

(* one Seek touches at most one new range of the underlying stream, and that
   range is the compressed span of a single index record (the chunk holding
   the target) — however far the target is from the start *)
Theorem seek_touches_one_chunk : forall s off wh,
  r_log (snd (seek s off wh)) = r_log s \/
  exists prev curr, In curr (r_recs s ++ [mkRec (CompOffset prev) (RawOffset prev) unknownType]) /\
    r_log (snd (seek s off wh)) =
    r_log s ++ [(Z.to_N (CompOffset prev), Z.to_N (CompOffset curr - CompOffset prev))].
Proof. exact seek_io_local. Qed.
Print Assumptions seek_touches_one_chunk.

(* refused seeks read nothing *)
Theorem refused_seek_reads_nothing : forall s off,
  r_err s = None \/ r_err s = Some EEOF -> (off < 0)%Z ->
  r_log (snd (seek s off 0)) = r_log s.
Proof. exact seek_refused_no_io. Qed.
Print Assumptions refused_seek_reads_nothing.

(* a zero-length Read reads nothing *)
Theorem zero_read_reads_nothing : forall s, r_log (snd (read s 0)) = r_log s.
Proof. intros s. rewrite read_zero. reflexivity. Qed.
Print Assumptions zero_read_reads_nothing.
