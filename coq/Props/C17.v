(* C17 — XFLATE random access is local. Model: XFlate/Reader.v logs every
   byte range it reads from the underlying ReadSeeker. *)
From V Require Import Base.Prelude XFlate.Index XFlate.Reader XFlate.Thms XFlate.Refine XFlate.Locality.

(* one Seek touches at most one new range of the underlying stream, and that
   range is the compressed span of a single index record (the chunk holding
   the target) — however far the target is from the start *)
Theorem seek_touches_one_chunk : forall s off wh,
  r_log (snd (seek s off wh)) = r_log s \/
  exists prev curr, In curr (r_recs s ++ [mkRec (CompOffset prev) (RawOffset prev) unknownType]) /\
    r_log (snd (seek s off wh)) =
    r_log s ++ [(Z.to_N (CompOffset prev), Z.to_N (CompOffset curr - CompOffset prev))].
Proof. exact seek_io_local. Qed.
Print Assumptions seek_touches_one_chunk.

(* refused seeks read nothing *)
Theorem refused_seek_reads_nothing : forall s off,
  r_err s = None \/ r_err s = Some EEOF -> (off < 0)%Z ->
  r_log (snd (seek s off 0)) = r_log s.
Proof. exact seek_refused_no_io. Qed.
Print Assumptions refused_seek_reads_nothing.

(* a zero-length Read reads nothing *)
Theorem zero_read_reads_nothing : forall s, r_log (snd (read s 0)) = r_log s.
Proof. intros s. rewrite read_zero. reflexivity. Qed.
Print Assumptions zero_read_reads_nothing.

(* ---- over all histories, on every honest stream (the hypothesis of C07's theorem) ---- *)

(* a Seek reads at most the compressed extent of ONE record: the one whose raw range
   holds the (clamped) target *)
Theorem seek_reads_the_target_record : forall data T content, honest data T content ->
  forall s pos0 k off wh, Cur data T content s pos0 k ->
  r_log (snd (seek s off wh)) = r_log s \/
  exists ri pos, (0 <= ri <= L T)%Z /\
    (RawOffset (pv T ri) <= Z.min pos (endp T) <= RawOffset (cu T ri))%Z /\
    fst (seek s off wh) = (pos, None) /\
    r_log (snd (seek s off wh)) = r_log s ++ [extent T ri].
Proof. exact seek_log. Qed.
Print Assumptions seek_reads_the_target_record.

(* a Read of n bytes at logical position lp reads only extents of records after the
   current one that start strictly before lp + n (or the empty end-of-data extent):
   the cost follows the chunks overlapping [lp, lp+n), not the size of the stream *)
Theorem read_reads_only_overlapping_records : forall data T content, honest data T content ->
  forall s n pos k, Cur data T content s pos k ->
  exists extra,
    r_log (snd (read s n)) = r_log s ++ extra /\
    Forall (opened T k (Z.min pos (endp T)) n) extra.
Proof. exact read_log. Qed.
Print Assumptions read_reads_only_overlapping_records.

(* whatever the history, everything read after opening is an extent of an index record *)
Theorem every_access_is_a_record_extent : forall data T content, honest data T content ->
  forall ops s st, Rel data T content s st ->
  exists extra, r_log (snd (rrun s ops)) = r_log s ++ extra /\ Forall (is_extent T) extra.
Proof. exact run_log. Qed.
Print Assumptions every_access_is_a_record_extent.
