(* C03 — bzip2.Reader agrees with libbzip2. The decoder model
   Bzip2.SpecR.bzip2_prog is a Gallina port of libbzip2's decoder; the
   correspondence check ties bzip2.Reader to it and libbzip2 (cgo) validates
   both on every run. *)
From V Require Import Bzip2.StreamRoundTrip.
From V Require Import Base.Prelude Base.Prog Bzip2.Common Bzip2.SpecR Bzip2.SpecW Bzip2.Thms Life.ReadLoop Bzip2.Safe.

(* the Read wrapper over the bzip2 decoder program: for every input, every
   schedule of Read sizes, the delivered bytes are a prefix of the one-shot
   decode, and a schedule ending in an error has delivered all of it and
   reports the decoder's outcome *)
Theorem bzip2_reader_schedule_independent : forall d input r sched n,
  let p0 := bzip2_prog d in
  let s0 := ast_init (bits_of_bytes_msb input) in
  Inv wrap_bzip2 p0 s0 r ->
  let '(obs, r1) := reads wrap_bzip2 VBrotli r sched in
  let '((c, e), r2) := read wrap_bzip2 VBrotli r1 n in
  forall x, e = Some x ->
    x = total_err wrap_bzip2 p0 s0 /\
    delivered r ++ concat (map fst obs) ++ c = total_out p0 s0.
Proof. intros d input r sched n. exact (reads_complete wrap_bzip2 VBrotli _ _ r sched n). Qed.
Print Assumptions bzip2_reader_schedule_independent.

(* concatenated streams: content is the concatenation; a cut between
   streams is acceptance; a cut inside is UnexpectedEOF (instances) *)
Theorem bzip2_concatenated_streams_witness :
  let a := bzip2_encode 1 [65;66] in
  let b := bzip2_encode 2 [67] in
  bz_out (bzip2_decode (a ++ b)) = [65;66;67] /\ bz_err (bzip2_decode (a ++ b)) = None /\
  bz_out (bzip2_decode a) = [65;66] /\ bz_err (bzip2_decode a) = None.
Proof. exact bz_concat. Qed.
Print Assumptions bzip2_concatenated_streams_witness.

Theorem bzip2_cut_witness :
  bz_err (bzip2_decode (firstn 20 (bzip2_encode 1 [65;66]))) = Some EUEOF.
Proof. exact bz_cut_is_ueof. Qed.
Print Assumptions bzip2_cut_witness.

(* TOTALITY of the bzip2 decoder model (libbzip2 port): on every input success,
   UnexpectedEOF, Corrupted or Deprecated (bzip1 header, block randomisation) *)
Theorem bzip2_decoder_total : forall input,
  match bz_err (bzip2_decode input) with
  | None => True
  | Some e => e = EUEOF \/ e = ECorrupted \/ e = EDeprecated
  end.
Proof. exact bzip2_decode_total. Qed.
Print Assumptions bzip2_decoder_total.

(* CONCATENATED STREAMS, for every list of inputs: the concatenation of any number of Writer
   outputs (any levels) is decoded by the Reader model to the concatenation of the inputs and
   consumed to the last byte - the multi-stream clause of the property on Writer-produced
   members *)
Theorem bzip2_concatenated_members_decode_to_concatenation : forall inputs,
  inputs <> [] -> inputs_ok inputs ->
  bzip2_decode (encode_all inputs) =
  mkBZ None (concat (map snd inputs)) (N.of_nat (length (encode_all inputs))).
Proof. exact bzip2_roundtrip_multi. Qed.
Print Assumptions bzip2_concatenated_members_decode_to_concatenation.
