(* C03 — bzip2.Reader agrees with libbzip2. The decoder model
   Bzip2.SpecR.bzip2_prog is a Gallina port of libbzip2's decoder; the
   correspondence check ties bzip2.Reader to it and libbzip2 (cgo) validates
   both on every run. *)
From V Require Import Bzip2.Degenerate Bzip2.DegenerateSpec Bzip2.DegenerateThms Bzip2.DegenerateCanon Bzip2.Cut.
From V Require Import Bzip2.StreamRoundTrip.
From V Require Import Base.Prelude Base.Prog Bzip2.Common Bzip2.SpecR Bzip2.SpecW Bzip2.Thms Life.ReadLoop Bzip2.Safe.

(* the Read wrapper over the bzip2 decoder program: for every input, every
   schedule of Read sizes, the delivered bytes are a prefix of the one-shot
   decode, and a schedule ending in an error has delivered all of it and
   reports the decoder's outcome *)
Theorem bzip2_reader_schedule_independent : forall d input r sched n,
  let p0 := bzip2_prog d in
  let s0 := ast_init (bits_of_bytes_msb input) in
  Inv wrap_bzip2 p0 s0 r ->
  let '(obs, r1) := reads wrap_bzip2 VBrotli r sched in
  let '((c, e), r2) := read wrap_bzip2 VBrotli r1 n in
  forall x, e = Some x ->
    x = total_err wrap_bzip2 p0 s0 /\
    delivered r ++ concat (map fst obs) ++ c = total_out p0 s0.
Proof. intros d input r sched n. exact (reads_complete wrap_bzip2 VBrotli _ _ r sched n). Qed.
Print Assumptions bzip2_reader_schedule_independent.

(* concatenated streams: content is the concatenation; a cut between
   streams is acceptance; a cut inside is UnexpectedEOF (instances) *)
Theorem bzip2_concatenated_streams_witness :
  let a := bzip2_encode 1 [65;66] in
  let b := bzip2_encode 2 [67] in
  bz_out (bzip2_decode (a ++ b)) = [65;66;67] /\ bz_err (bzip2_decode (a ++ b)) = None /\
  bz_out (bzip2_decode a) = [65;66] /\ bz_err (bzip2_decode a) = None.
Proof. exact bz_concat. Qed.
Print Assumptions bzip2_concatenated_streams_witness.

Theorem bzip2_cut_witness :
  bz_err (bzip2_decode (firstn 20 (bzip2_encode 1 [65;66]))) = Some EUEOF.
Proof. exact bz_cut_is_ueof. Qed.
Print Assumptions bzip2_cut_witness.

(* TOTALITY of the bzip2 decoder model (libbzip2 port): on every input success,
   UnexpectedEOF, Corrupted or Deprecated (bzip1 header, block randomisation) *)
Theorem bzip2_decoder_total : forall input,
  match bz_err (bzip2_decode input) with
  | None => True
  | Some e => e = EUEOF \/ e = ECorrupted \/ e = EDeprecated
  end.
Proof. exact bzip2_decode_total. Qed.
Print Assumptions bzip2_decoder_total.

(* CONCATENATED STREAMS, for every list of inputs: the concatenation of any number of Writer
   outputs (any levels) is decoded by the Reader model to the concatenation of the inputs and
   consumed to the last byte - the multi-stream clause of the property on Writer-produced
   members *)
Theorem bzip2_concatenated_members_decode_to_concatenation : forall inputs,
  inputs <> [] -> inputs_ok inputs ->
  bzip2_decode (encode_all inputs) =
  mkBZ None (concat (map snd inputs)) (N.of_nat (length (encode_all inputs))).
Proof. exact bzip2_roundtrip_multi. Qed.
Print Assumptions bzip2_concatenated_members_decode_to_concatenation.

(* DEGENERATE AND COMPLETE CODE TABLES AGREE WITH libbzip2, for EVERY length vector (2..258
   lengths in 1..20). The Go reader builds its decoder from GeneratePrefixes when the Kraft sum
   is one and from handleDegenerateCodes otherwise (model Bzip2/Degenerate.v, run against both
   on every run: WBZDEGEN); libbzip2 decodes ANY vector with its limit/base/perm tables (the
   port: mk_table / read_symbol). Whichever branch is taken: no panic, the code list handed
   to the table decoder is complete and prefix-free, and decoding with it gives, on every
   source state, exactly the libbzip2 result - the same symbol after the same number of bits,
   Corrupted at the same bit, UnexpectedEOF on the same inputs *)
Theorem bzip2_code_tables_decode_like_libbzip2 : forall lens, lens_ok lens ->
  exists out, build_codes lens = BOk out /\ complete_code out /\
    forall st, go_outcome (N.of_nat (length lens)) out st = c_outcome lens st.
Proof. exact build_codes_ok. Qed.
Print Assumptions bzip2_code_tables_decode_like_libbzip2.

(* TRUNCATION: every proper non-empty prefix of a Writer-produced stream ends in
   UnexpectedEOF with a prefix of the data, all input consumed *)
Theorem bzip2_cut_stream_is_unexpected_eof : forall level data k,
  1 <= level <= 9 -> (forall b, In b data -> b < 256) ->
  (0 < k < length (bzip2_encode level data))%nat ->
  bz_err (bzip2_decode (firstn k (bzip2_encode level data))) = Some EUEOF /\
  prefix_of (bz_out (bzip2_decode (firstn k (bzip2_encode level data)))) data /\
  bz_used (bzip2_decode (firstn k (bzip2_encode level data))) = N.of_nat k.
Proof. exact bzip2_cut_is_ueof. Qed.
Print Assumptions bzip2_cut_stream_is_unexpected_eof.

(* a cut exactly between members is acceptance of the members before it ... *)
Theorem bzip2_cut_between_members_is_acceptance : forall pre post,
  pre <> [] -> inputs_ok pre ->
  bzip2_decode (firstn (length (encode_all pre)) (encode_all (pre ++ post))) =
  mkBZ None (concat (map snd pre)) (N.of_nat (length (encode_all pre))).
Proof. exact bzip2_cut_multi_boundary. Qed.
Print Assumptions bzip2_cut_between_members_is_acceptance.

(* ... and bytes after a stream that do not begin another one are refused, after the data *)
Theorem bzip2_trailing_garbage_is_refused : forall level data b0 b1 t,
  1 <= level <= 9 -> (forall b, In b data -> b < 256) ->
  ~ (b0 mod 256 = 66 /\ b1 mod 256 = 90) ->
  bzip2_decode (bzip2_encode level data ++ b0 :: b1 :: t) =
  mkBZ (Some ECorrupted) data (N.of_nat (length (bzip2_encode level data)) + 2).
Proof. exact bzip2_trailing_garbage. Qed.
Print Assumptions bzip2_trailing_garbage_is_refused.

(* THE IMPLEMENTATION-LEVEL READER REFINES THE libbzip2 PORT. The model Bzip2/Impl.v follows
   bzip2/reader.go, prefix.go, mtf_rle2.go, bwt.go, rle1.go, common.go line by line (bit buffer over
   a ByteReader or BufferedReader source, two-level lookup tables on recycled Decoder objects,
   GeneratePrefixes / handleDegenerateCodes, 50-symbol groups, the chunked RLE1 expansion per
   Read call, the CRC through hash/crc32 on reversed bits, the Read loop with errors.Recover,
   Flush and errWrap; checked against the real Reader per Read call: WBZIMPL). For every input,
   source kind and script, and every schedule of Read buffer sizes read to the first error:
   never a run-time panic; io.EOF exactly when libbzip2 accepts, then with libbzip2's bytes and
   InputOffset = the input bytes consumed; otherwise libbzip2 rejects as well, the delivered
   bytes are a prefix of libbzip2's, and the class and bytes are the same - or the class is
   io.ErrUnexpectedEOF (near the end of the input the table walk may ask for more bits than the
   code word it would decode: known finding, witness in Bzip2/ImplExamples.v). *)
From V Require Bzip2.Impl Bzip2.ImplThms.
Theorem bzip2_reader_implementation_refines_libbzip2 :
  ImplThms.bzip2_impl_refines_libbzip2_statement.
Proof. exact ImplThms.bzip2_impl_refines_libbzip2. Qed.
Print Assumptions bzip2_reader_implementation_refines_libbzip2.
