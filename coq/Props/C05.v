(* C05 — XFLATE round trip / configuration handling. Model: XFlate/Writer.v
   over the external compressor [deflate]; XFlate/Reader.v. *)
From V Require Import XFlate.K1Witness.
From V Require Import Flate.Spec XFlate.Refine XFlate.RefineCheck XFlate.RoundTripStmt XFlate.RoundTripAll.
From V Require Import Base.Prelude Meta.Model XFlate.Index XFlate.Writer XFlate.Reader XFlate.Thms XFlate.Witness.

(* invalid configurations are refused at construction *)
Theorem xw_bad_config_refused : forall lvl chunk idx,
  (chunk < 0)%Z \/ negb (level_ok (map_level lvl)) = true ->
  exists e, new_writer lvl chunk idx = inl e.
Proof. exact bad_config_refused. Qed.
Print Assumptions xw_bad_config_refused.

(* for every compressor and every call history: OutputOffset = bytes handed
   to the sink *)
Theorem xw_output_offset_exact : forall deflate s ops,
  winv s -> winv (snd (wrun deflate s ops)).
Proof. exact writer_output_offset_exact. Qed.
Print Assumptions xw_output_offset_exact.

(* a stream written by the real Writer is read back exactly by the model
   reader (concrete instance; the general statement is exercised by the
   correspondence runs) *)
Theorem xr_reads_back_witness :
  match open_reader w_stream with
  | inr s0 => fst (read s0 41) = (w_plain, Some EEOF)
  | inl _ => False
  end.
Proof. exact w_stream_reads_back. Qed.
Print Assumptions xr_reads_back_witness.

(* THE PROPERTY, for every history. For every compressor that satisfies contract K1 (what
   compress/flate has emitted after a Flush is a sequence of complete non-final DEFLATE blocks
   for exactly the data written, ending in the sync marker - evaluated by the extracted model
   on every chunk of every run), every accepted configuration (level, chunk size, index size)
   and EVERY sequence of Write / Flush(sync, full, index; invalid modes refused without effect)
   calls ending in Close in which every call reports success: the bytes handed to the
   destination are opened by the Reader, and its record table is HONEST for the concatenation
   of the data written ([honest_stream], the hypothesis of the C07 theorem). Sizes: sink below
   2^40 bytes (the meta decoder MODEL's loop budget), data below 2^62 (int64 offsets). *)
Theorem xflate_roundtrip_for_every_configuration_and_schedule : xflate_roundtrip_stmt.
Proof. exact xflate_roundtrip. Qed.
Print Assumptions xflate_roundtrip_for_every_configuration_and_schedule.

(* ... hence, with the C07 refinement theorem, EVERY Seek / Read / Close history on a stream the
   Writer produced behaves exactly as a ReadSeeker over the data written: sequential reading
   returns the input, Seek(0, End) returns its length *)
Theorem xflate_written_streams_read_back : forall deflate, K1 deflate ->
  forall lvl chunk idx s0 ops obs s,
    new_writer lvl chunk idx = inr s0 ->
    wrun deflate s0 (ops ++ [WClose]) = (obs, s) ->
    Forall (fun ob => snd ob = None \/ snd ob = Some EInvalid) obs ->
    snd (last obs (0, None)) = None ->
    (forall b, In b (wops_data ops) -> b < 256) ->
    (Z.of_nat (length (w_sink s)) < 2 ^ 40)%Z ->
    (Z.of_nat (length (wops_data ops)) < 2 ^ 62)%Z ->
    exists s1, open_reader (w_sink s) = inr s1 /\
      forall rops, fst (rrun s1 rops) = fst (sp_run (wops_data ops) (mkSp 0 None) rops).
Proof. exact xflate_written_stream_is_a_readseeker. Qed.
Print Assumptions xflate_written_streams_read_back.

(* the contract K1 is satisfiable, so the theorems above are not vacuous: the simplest
   compressor (every Write as non-final stored blocks, every Flush as an empty stored block)
   satisfies it, and with it the whole pipeline - Writer model, Reader model - runs inside Coq *)
Theorem contract_K1_is_satisfiable : K1 stored_deflate.
Proof. exact stored_deflate_K1. Qed.
Print Assumptions contract_K1_is_satisfiable.
