(* C05 — XFLATE round trip / configuration handling. Model: XFlate/Writer.v
   over the external compressor [deflate]; XFlate/Reader.v. *)
From V Require Import Base.Prelude Meta.Model XFlate.Index XFlate.Writer XFlate.Reader XFlate.Thms XFlate.Witness.

(* invalid configurations are refused at construction *)
Theorem xw_bad_config_refused : forall lvl chunk idx,
  (chunk < 0)%Z \/ negb (level_ok (map_level lvl)) = true ->
  exists e, new_writer lvl chunk idx = inl e.
Proof. exact bad_config_refused. Qed.
Print Assumptions xw_bad_config_refused.

(* for every compressor and every call history: OutputOffset = bytes handed
   to the sink *)
Theorem xw_output_offset_exact : forall deflate s ops,
  winv s -> winv (snd (wrun deflate s ops)).
Proof. exact writer_output_offset_exact. Qed.
Print Assumptions xw_output_offset_exact.

(* a stream written by the real Writer is read back exactly by the model
   reader (concrete instance; the general statement is exercised by the
   correspondence runs) *)
Theorem xr_reads_back_witness :
  match open_reader w_stream with
  | inr s0 => fst (read s0 41) = (w_plain, Some EEOF)
  | inl _ => False
  end.
Proof. exact w_stream_reads_back. Qed.
Print Assumptions xr_reads_back_witness.
