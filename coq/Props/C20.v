(* C20 — Huffman code construction and bit I/O. Models: Prefix/Code.v
   (GenerateLengths with any limit, GeneratePrefixes), bit fields as bit lists. *)
From Coq Require Import Sorting.Sorted Sorting.Permutation.
From V Require Import Prefix.Range Prefix.RangeSpec Prefix.RangeThms.
From V Require Import Prefix.DecTable Prefix.DecTableSpec Prefix.DecTableThms Prefix.DecReadThms Prefix.DecReadBufThms Prefix.EncTableThms Prefix.EncDecThms Prefix.DecCanonThms Prefix.DecGenLink.
From V Require Import Prefix.GenPrefixesThms Prefix.GenLengthsThms Prefix.GenPipelineThms.
From V Require Import Prefix.WriterImpl Prefix.WriterSpec Prefix.WriterThms.
From V Require Import Prefix.ReaderImpl Prefix.ReaderSpec Prefix.ReaderThms.
From V Require Import Base.Prelude Base.Prog Prefix.Code Prefix.Thms Base.ProgThms Flate.Spec Flate.Canon.

(* a bit field written LSB-first is read back unchanged, at any position of
   any stream *)
Theorem bit_field_roundtrip_lsb : forall n v rest pos out len,
  v < 2 ^ N.of_nat n ->
  run (bits_lsbf n) (mkAst (val_bits n v ++ rest) pos out len) =
  Done v (mkAst rest (pos + N.of_nat n) out len).
Proof. exact bit_field_roundtrip. Qed.
Print Assumptions bit_field_roundtrip_lsb.

Theorem bit_list_value_roundtrip : forall l, val_bits (length l) (bits_val l) = l.
Proof. exact val_bits_bits_val. Qed.
Print Assumptions bit_list_value_roundtrip.

(* GeneratePrefixes refuses degenerate input *)
Theorem gen_prefixes_refuses_single_nonzero : forall s l, l <> 0 -> gen_prefixes [(s, l)] = GPInvalid.
Proof. exact gen_prefixes_single. Qed.
Print Assumptions gen_prefixes_refuses_single_nonzero.

Theorem gen_prefixes_refuses_unsorted : forall a b la lb r,
  b <= a -> gen_prefixes ((a, la) :: (b, lb) :: r) = GPInvalid.
Proof. exact gen_prefixes_unsorted. Qed.
Print Assumptions gen_prefixes_refuses_unsorted.

(* finite sweep inside the kernel (bounds stated in Prefix/Thms.v): all count
   vectors over 2..4 symbols with counts 0..3, limits ceil(log2 n)..5 and 27:
   lengths within the limit, complete, monotone in the counts *)
Theorem gen_lengths_sound_small_domain : sweep_ok = true.
Proof. exact gen_lengths_small_sweep. Qed.
Print Assumptions gen_lengths_sound_small_domain.

(* RFC 1951 3.2.2, for EVERY length assignment with Kraft sum <= 1: the canonical codes fit
   their lengths and no code word is a prefix of another *)
Theorem canonical_codes_fit : forall lens s l c,
  lens_pos lens -> kraft_ok lens -> In (s, l, c) (canonical lens) -> c < 2 ^ l.
Proof. exact canonical_fits. Qed.
Print Assumptions canonical_codes_fit.

Theorem canonical_code_is_prefix_free : forall lens s1 l1 c1 s2 l2 c2,
  lens_pos lens -> kraft_ok lens -> NoDup (map fst lens) ->
  In (s1, l1, c1) (canonical lens) -> In (s2, l2, c2) (canonical lens) ->
  (s1, l1, c1) <> (s2, l2, c2) ->
  s1 <> s2 /\ ~ prefix_of (msb_bits (N.to_nat l1) c1) (msb_bits (N.to_nat l2) c2).
Proof. exact canonical_prefix_free. Qed.
Print Assumptions canonical_code_is_prefix_free.

(* The implementation-level model of prefix.Reader (64-bit buffer, wide loads with
   look-ahead bits, Peek/Discard bookkeeping, Flush, raw Read after repair D5; validated
   against the real Reader over scripted sources on every run) REFINES the abstract bit
   stream: for every data, both bit orders, every script of the source's freedoms (how much
   more than asked it buffers, how much a raw Read returns) and every sequence of ReadBits
   (<= 57 bits) / ReadPads / raw Read / Flush: every value is the value of the next bits of
   the stream, BitsRead is the abstract position, a raw Read returns the bytes at the
   aligned position, and after a Flush the source has been advanced over exactly the bytes
   that hold the bits read (no over-consumption). Same for a ReadByte-only source. *)
Theorem bit_reader_refines_bit_stream_buffered : reader_refines_buffered.
Proof. exact reader_refines_buffered_holds. Qed.
Print Assumptions bit_reader_refines_bit_stream_buffered.

Theorem bit_reader_refines_bit_stream_bytereader : reader_refines_bytereader.
Proof. exact reader_refines_bytereader_holds. Qed.
Print Assumptions bit_reader_refines_bit_stream_bytereader.

(* The implementation-level model of prefix.Writer (64-bit bit buffer, the 512-byte staging
   buffer with `cntBuf -= cnt` after a short write, PushBits' wide 8-byte store, the per-byte
   bit reversal for big-endian order, Flush, raw Write, Try* variants; validated against the
   real Writer over scripted sinks on every run) REFINES the abstract bit list. *)
(* (c) Writer then Reader, both at the implementation level: any history of WriteBits /
   WriteSymbol / WritePads / raw Write ending in WritePads; Flush is read back value for
   value by the Reader model, both bit orders, both source paths, every source script *)
Theorem bit_io_roundtrip_implementation_level : writer_reader_roundtrip.
Proof. exact writer_reader_roundtrip_holds. Qed.
Print Assumptions bit_io_roundtrip_implementation_level.

(* GenerateLengths, for EVERY frequency table: counts ascending (as the Go code demands), at
   least two distinct symbols, a limit that can hold the alphabet (n <= 2^maxBits; necessary:
   gl_correct_capacity), any counts - including sums that wrap the uint32 node weights:
   the result is never a panic and never Invalid; it lists the symbols in input order, every
   length is in 1..maxBits, the Kraft sum is exactly one (complete code), and lengths are
   non-increasing along the (ascending) input: [gl_correct]. The length-limiting phase
   (treeRotate on a uint32 histogram with transient wrap-around) is covered. *)
Theorem gen_lengths_sound_for_every_frequency_table : forall maxBits codes,
  (2 <= length codes)%nat ->
  StronglySorted N.le (map fst codes) ->
  NoDup (map snd codes) ->
  N.of_nat (length codes) <= 2 ^ maxBits ->
  N.of_nat (length codes) < 2 ^ 32 ->
  exists lens, gen_lengths maxBits codes = GLOk lens /\ gl_correct maxBits codes lens.
Proof. exact gen_lengths_correct. Qed.
Print Assumptions gen_lengths_sound_for_every_frequency_table.

(* no longer code for a more frequent symbol *)
Theorem gen_lengths_monotone : forall maxBits codes lens,
  StronglySorted N.le (map fst codes) -> gl_correct maxBits codes lens ->
  forall i j ci cj li lj,
    nth_error (map fst codes) i = Some ci -> nth_error (map fst codes) j = Some cj ->
    nth_error (map snd lens) i = Some li -> nth_error (map snd lens) j = Some lj ->
    ci < cj -> lj <= li.
Proof. exact gl_correct_monotone. Qed.
Print Assumptions gen_lengths_monotone.

(* GeneratePrefixes accepts exactly the sorted, non-zero, complete length assignments ... *)
Theorem gen_prefixes_accepts_exactly_complete_codes : forall codes,
  (2 <= length codes)%nat ->
  ((exists out, gen_prefixes codes = GPOk out) <->
   (strictly_increasing codes None = true /\ lens_pos codes /\ complete codes = true)).
Proof. exact gen_prefixes_ok_iff. Qed.
Print Assumptions gen_prefixes_accepts_exactly_complete_codes.

(* ... and what it returns is the canonical code of RFC 1951 3.2.2 (bit-reversed into reading
   order), prefix-free and complete in reading order: [valid_code] *)
Theorem gen_prefixes_yields_the_canonical_code : forall codes out,
  (2 <= length codes)%nat -> gen_prefixes codes = GPOk out -> valid_code out.
Proof. exact gen_prefixes_valid. Qed.
Print Assumptions gen_prefixes_yields_the_canonical_code.

(* the encoder pipeline: the lengths GenerateLengths produces, sorted by symbol, are accepted
   by GeneratePrefixes, with every length within the limit *)
Theorem gen_lengths_output_is_accepted_by_gen_prefixes : forall maxBits codes,
  (2 <= length codes)%nat ->
  StronglySorted N.le (map fst codes) -> NoDup (map snd codes) ->
  N.of_nat (length codes) <= 2 ^ maxBits -> N.of_nat (length codes) < 2 ^ 32 ->
  exists lens, gen_lengths maxBits codes = GLOk lens /\ gl_correct maxBits codes lens /\
    forall sorted, Permutation lens sorted -> StronglySorted N.lt (map fst sorted) ->
      exists out, gen_prefixes sorted = GPOk out /\ valid_code out /\ map fst out = sorted /\
                  forall e, In e out -> 1 <= e_len e <= maxBits.
Proof. exact gen_lengths_then_prefixes. Qed.
Print Assumptions gen_lengths_output_is_accepted_by_gen_prefixes.

(* THE TWO-LEVEL DECODER TABLE, implementation level (decoder.go Init: chunks / links arrays
   recycled from earlier use with ARBITRARY stale contents, first-level table of min(maxLen, 9)
   bits, link tables for longer codes; the lookup is one body of ReadSymbol's loop; model run
   against the real tables and ReadSymbol on every run, WDECTAB). For every valid code
   (complete and prefix-free in reading order, lengths <= 31) and any stale contents: Init does
   not panic and the lookup of any bit-buffer value whose low bits are a code word returns
   exactly that code's (symbol, length), through the chunk table or through a link table *)
Theorem decoder_table_lookup_is_the_code : forall L codes oldC oldL, L <= 31 -> dec_valid L codes ->
  exists d, dec_init oldC oldL codes = IOk d /\ tables_ok codes d /\
    forall b c, In c codes -> matches c b ->
      dec_lookup d b = Some (c_sym c mod 2 ^ 27, c_len c).
Proof. exact dec_table_correct. Qed.
Print Assumptions decoder_table_lookup_is_the_code.

(* ... and the tables do not depend on what the recycled arrays held before (a complete code
   overwrites every entry): Reset / reuse of a Decoder is invisible *)
Theorem decoder_table_independent_of_stale_arrays : forall L codes oldC oldL oldC' oldL',
  L <= 31 -> dec_valid L codes ->
  exists d d',
    dec_init oldC oldL codes = IOk d /\ dec_init oldC' oldL' codes = IOk d' /\
    d_chunkMask d = d_chunkMask d' /\ d_linkMask d = d_linkMask d' /\
    d_chunkBits d = d_chunkBits d' /\ d_minBits d = d_minBits d' /\ d_numSyms d = d_numSyms d' /\
    d_nlinks d = d_nlinks d' /\ d_linkLen d = d_linkLen d' /\
    (forall i, arr_get (d_chunks d) i = arr_get (d_chunks d') i) /\
    (forall x, arr_get (d_flat d) x = arr_get (d_flat d') x).
Proof. exact dec_init_independent. Qed.
Print Assumptions decoder_table_independent_of_stale_arrays.

(* ReadSymbol over the implementation-level bit reader, ReadByte source: for zero-minimal codes
   (all canonical codes are) it returns the symbol of the code word at the read position,
   consumes exactly its bits, and has pulled from the source exactly the bytes that hold them -
   never a byte beyond the code word *)
Theorem read_symbol_is_byte_exact_on_bytereader : forall big data,
  (forall b, In b data -> b < 256) ->
  forall L codes, L <= 31 -> dec_valid L codes ->
  forall d, tables_ok codes d ->
  forall R p c, zero_min codes ->
    ReaderThms.Inv big data R p -> ZA data p -> In c codes -> matches c (window big data R) ->
    (R + N.to_nat (c_len c) <= 8 * length data)%nat ->
    exists p', dt_read_symbol d p = (RSym (c_sym c mod 2 ^ 27), p') /\
      ReaderThms.Inv big data (R + N.to_nat (c_len c)) p' /\ ZA data p' /\
      bits_read p' = Z.of_nat (R + N.to_nat (c_len c)) /\
      s_pos (p_src p') = ((R + N.to_nat (c_len c) + 7) / 8)%nat.
Proof. exact read_symbol_bytereader. Qed.
Print Assumptions read_symbol_is_byte_exact_on_bytereader.

(* Encoder table + Writer lookup, then Decoder table + ReadSymbol: every symbol of a valid code
   written with its code word is read back, at any stream position, both bit orders *)
Theorem symbol_written_with_encoder_is_read_by_decoder : forall codes,
  dec_valid 27 codes -> syms_sorted codes -> (forall c, In c codes -> c_sym c < 2 ^ 27) ->
  forall big data, (forall b, In b data -> b < 256) ->
  forall oldC oldL R p c, In c codes -> ReaderThms.Inv big data R p ->
    (R + N.to_nat (max_bits codes) <= 8 * length data)%nat ->
    exists e d v nb, enc_init codes = IOk e /\ dec_init oldC oldL codes = IOk d /\
      enc_lookup e (c_sym c) = Some (v, nb) /\
      (firstn (N.to_nat nb) (skipn R (ReaderSpec.stream_bits big data)) = val_bits (N.to_nat nb) v ->
       exists p', dt_read_symbol d p = (RSym (c_sym c), p') /\ bits_read p' = Z.of_nat (R + N.to_nat nb)).
Proof. exact enc_dec_stream. Qed.
Print Assumptions symbol_written_with_encoder_is_read_by_decoder.

(* what GeneratePrefixes returns is a valid, zero-minimal code for these tables *)
Theorem gen_prefixes_output_fits_the_decoder_table : gen_prefixes_valid_statement.
Proof. exact gen_prefixes_table_valid. Qed.
Print Assumptions gen_prefixes_output_fits_the_decoder_table.

(* OFFSETS AS (RANGE SYMBOL, EXTRA BITS) - RangeEncoder at implementation level (1024-entry
   lookup table, linear walk beyond it, uint32/uint wrap-around; model run against the real
   code on every run, WRANGE): for every range set checkValid accepts (overlaps included) and
   every offset of its domain, Encode terminates, does not panic and returns the last range
   that starts at or before the offset; that range holds the offset and the extra bits hold
   the remainder ... *)
Theorem range_encoder_returns_the_range_holding_the_offset : forall rcs re off,
  rcs_wf rcs -> N.of_nat (length rcs) <= 2 ^ 32 -> re_init rcs = RgOk re ->
  in_domain rcs off ->
  exists s, re_encode re off = RgOk (N.of_nat s) /\
            last_le rcs off s /\ holds rcs s off /\
            rlen rcs s < 32 /\ off - rbase rcs s < 2 ^ rlen rcs s.
Proof. exact re_encode_domain. Qed.
Print Assumptions range_encoder_returns_the_range_holding_the_offset.

(* ... and WriteOffset followed by ReadOffset returns the offset *)
Theorem offset_written_is_offset_read : forall rcs re off,
  rcs_wf rcs -> N.of_nat (length rcs) <= 2 ^ 32 -> re_init rcs = RgOk re ->
  in_domain rcs off ->
  exists s v n,
    write_offset re off = RgOk (N.of_nat s, v, n) /\
    last_le rcs off s /\ n = rlen rcs s /\ n < 32 /\ v = off - rbase rcs s /\ v < 2 ^ n /\
    range_decode rcs s v = off /\
    forall extra_of, extra_of n = v -> read_offset rcs (N.of_nat s) extra_of = RgOk off.
Proof. exact write_read_offset. Qed.
Print Assumptions offset_written_is_offset_read.
