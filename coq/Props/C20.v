(* C20 — Huffman code construction and bit I/O. Models: Prefix/Code.v
   (GenerateLengths with any limit, GeneratePrefixes), bit fields as bit lists. *)
From V Require Import Prefix.ReaderImpl Prefix.ReaderSpec Prefix.ReaderThms.
From V Require Import Base.Prelude Base.Prog Prefix.Code Prefix.Thms Base.ProgThms Flate.Spec Flate.Canon.

(* a bit field written LSB-first is read back unchanged, at any position of
   any stream *)
Theorem bit_field_roundtrip_lsb : forall n v rest pos out len,
  v < 2 ^ N.of_nat n ->
  run (bits_lsbf n) (mkAst (val_bits n v ++ rest) pos out len) =
  Done v (mkAst rest (pos + N.of_nat n) out len).
Proof. exact bit_field_roundtrip. Qed.
Print Assumptions bit_field_roundtrip_lsb.

Theorem bit_list_value_roundtrip : forall l, val_bits (length l) (bits_val l) = l.
Proof. exact val_bits_bits_val. Qed.
Print Assumptions bit_list_value_roundtrip.

(* GeneratePrefixes refuses degenerate input *)
Theorem gen_prefixes_refuses_single_nonzero : forall s l, l <> 0 -> gen_prefixes [(s, l)] = GPInvalid.
Proof. exact gen_prefixes_single. Qed.
Print Assumptions gen_prefixes_refuses_single_nonzero.

Theorem gen_prefixes_refuses_unsorted : forall a b la lb r,
  b <= a -> gen_prefixes ((a, la) :: (b, lb) :: r) = GPInvalid.
Proof. exact gen_prefixes_unsorted. Qed.
Print Assumptions gen_prefixes_refuses_unsorted.

(* finite sweep inside the kernel (bounds stated in Prefix/Thms.v): all count
   vectors over 2..4 symbols with counts 0..3, limits ceil(log2 n)..5 and 27:
   lengths within the limit, complete, monotone in the counts *)
Theorem gen_lengths_sound_small_domain : sweep_ok = true.
Proof. exact gen_lengths_small_sweep. Qed.
Print Assumptions gen_lengths_sound_small_domain.

(* RFC 1951 3.2.2, for EVERY length assignment with Kraft sum <= 1: the canonical codes fit
   their lengths and no code word is a prefix of another *)
Theorem canonical_codes_fit : forall lens s l c,
  lens_pos lens -> kraft_ok lens -> In (s, l, c) (canonical lens) -> c < 2 ^ l.
Proof. exact canonical_fits. Qed.
Print Assumptions canonical_codes_fit.

Theorem canonical_code_is_prefix_free : forall lens s1 l1 c1 s2 l2 c2,
  lens_pos lens -> kraft_ok lens -> NoDup (map fst lens) ->
  In (s1, l1, c1) (canonical lens) -> In (s2, l2, c2) (canonical lens) ->
  (s1, l1, c1) <> (s2, l2, c2) ->
  s1 <> s2 /\ ~ prefix_of (msb_bits (N.to_nat l1) c1) (msb_bits (N.to_nat l2) c2).
Proof. exact canonical_prefix_free. Qed.
Print Assumptions canonical_code_is_prefix_free.

(* The implementation-level model of prefix.Reader (64-bit buffer, wide loads with
   look-ahead bits, Peek/Discard bookkeeping, Flush, raw Read after repair D5; validated
   against the real Reader over scripted sources on every run) REFINES the abstract bit
   stream: for every data, both bit orders, every script of the source's freedoms (how much
   more than asked it buffers, how much a raw Read returns) and every sequence of ReadBits
   (<= 57 bits) / ReadPads / raw Read / Flush: every value is the value of the next bits of
   the stream, BitsRead is the abstract position, a raw Read returns the bytes at the
   aligned position, and after a Flush the source has been advanced over exactly the bytes
   that hold the bits read (no over-consumption). Same for a ReadByte-only source. *)
Theorem bit_reader_refines_bit_stream_buffered : reader_refines_buffered.
Proof. exact reader_refines_buffered_holds. Qed.
Print Assumptions bit_reader_refines_bit_stream_buffered.

Theorem bit_reader_refines_bit_stream_bytereader : reader_refines_bytereader.
Proof. exact reader_refines_bytereader_holds. Qed.
Print Assumptions bit_reader_refines_bit_stream_bytereader.
