(* C20 — Huffman code construction and bit I/O. Models: Prefix/Code.v
   (GenerateLengths with any limit, GeneratePrefixes), bit fields as bit lists. *)
From Coq Require Import Sorting.Sorted Sorting.Permutation.
From V Require Import Prefix.GenPrefixesThms Prefix.GenLengthsThms Prefix.GenPipelineThms.
From V Require Import Prefix.WriterImpl Prefix.WriterSpec Prefix.WriterThms.
From V Require Import Prefix.ReaderImpl Prefix.ReaderSpec Prefix.ReaderThms.
From V Require Import Base.Prelude Base.Prog Prefix.Code Prefix.Thms Base.ProgThms Flate.Spec Flate.Canon.

(* a bit field written LSB-first is read back unchanged, at any position of
   any stream *)
Theorem bit_field_roundtrip_lsb : forall n v rest pos out len,
  v < 2 ^ N.of_nat n ->
  run (bits_lsbf n) (mkAst (val_bits n v ++ rest) pos out len) =
  Done v (mkAst rest (pos + N.of_nat n) out len).
Proof. exact bit_field_roundtrip. Qed.
Print Assumptions bit_field_roundtrip_lsb.

Theorem bit_list_value_roundtrip : forall l, val_bits (length l) (bits_val l) = l.
Proof. exact val_bits_bits_val. Qed.
Print Assumptions bit_list_value_roundtrip.

(* GeneratePrefixes refuses degenerate input *)
Theorem gen_prefixes_refuses_single_nonzero : forall s l, l <> 0 -> gen_prefixes [(s, l)] = GPInvalid.
Proof. exact gen_prefixes_single. Qed.
Print Assumptions gen_prefixes_refuses_single_nonzero.

Theorem gen_prefixes_refuses_unsorted : forall a b la lb r,
  b <= a -> gen_prefixes ((a, la) :: (b, lb) :: r) = GPInvalid.
Proof. exact gen_prefixes_unsorted. Qed.
Print Assumptions gen_prefixes_refuses_unsorted.

(* finite sweep inside the kernel (bounds stated in Prefix/Thms.v): all count
   vectors over 2..4 symbols with counts 0..3, limits ceil(log2 n)..5 and 27:
   lengths within the limit, complete, monotone in the counts *)
Theorem gen_lengths_sound_small_domain : sweep_ok = true.
Proof. exact gen_lengths_small_sweep. Qed.
Print Assumptions gen_lengths_sound_small_domain.

(* RFC 1951 3.2.2, for EVERY length assignment with Kraft sum <= 1: the canonical codes fit
   their lengths and no code word is a prefix of another *)
Theorem canonical_codes_fit : forall lens s l c,
  lens_pos lens -> kraft_ok lens -> In (s, l, c) (canonical lens) -> c < 2 ^ l.
Proof. exact canonical_fits. Qed.
Print Assumptions canonical_codes_fit.

Theorem canonical_code_is_prefix_free : forall lens s1 l1 c1 s2 l2 c2,
  lens_pos lens -> kraft_ok lens -> NoDup (map fst lens) ->
  In (s1, l1, c1) (canonical lens) -> In (s2, l2, c2) (canonical lens) ->
  (s1, l1, c1) <> (s2, l2, c2) ->
  s1 <> s2 /\ ~ prefix_of (msb_bits (N.to_nat l1) c1) (msb_bits (N.to_nat l2) c2).
Proof. exact canonical_prefix_free. Qed.
Print Assumptions canonical_code_is_prefix_free.

(* The implementation-level model of prefix.Reader (64-bit buffer, wide loads with
   look-ahead bits, Peek/Discard bookkeeping, Flush, raw Read after repair D5; validated
   against the real Reader over scripted sources on every run) REFINES the abstract bit
   stream: for every data, both bit orders, every script of the source's freedoms (how much
   more than asked it buffers, how much a raw Read returns) and every sequence of ReadBits
   (<= 57 bits) / ReadPads / raw Read / Flush: every value is the value of the next bits of
   the stream, BitsRead is the abstract position, a raw Read returns the bytes at the
   aligned position, and after a Flush the source has been advanced over exactly the bytes
   that hold the bits read (no over-consumption). Same for a ReadByte-only source. *)
Theorem bit_reader_refines_bit_stream_buffered : reader_refines_buffered.
Proof. exact reader_refines_buffered_holds. Qed.
Print Assumptions bit_reader_refines_bit_stream_buffered.

Theorem bit_reader_refines_bit_stream_bytereader : reader_refines_bytereader.
Proof. exact reader_refines_bytereader_holds. Qed.
Print Assumptions bit_reader_refines_bit_stream_bytereader.

(* The implementation-level model of prefix.Writer (64-bit bit buffer, the 512-byte staging
   buffer with `cntBuf -= cnt` after a short write, PushBits' wide 8-byte store, the per-byte
   bit reversal for big-endian order, Flush, raw Write, Try* variants; validated against the
   real Writer over scripted sinks on every run) REFINES the abstract bit list. *)
(* (c) Writer then Reader, both at the implementation level: any history of WriteBits /
   WriteSymbol / WritePads / raw Write ending in WritePads; Flush is read back value for
   value by the Reader model, both bit orders, both source paths, every source script *)
Theorem bit_io_roundtrip_implementation_level : writer_reader_roundtrip.
Proof. exact writer_reader_roundtrip_holds. Qed.
Print Assumptions bit_io_roundtrip_implementation_level.

(* GenerateLengths, for EVERY frequency table: counts ascending (as the Go code demands), at
   least two distinct symbols, a limit that can hold the alphabet (n <= 2^maxBits; necessary:
   gl_correct_capacity), any counts - including sums that wrap the uint32 node weights:
   the result is never a panic and never Invalid; it lists the symbols in input order, every
   length is in 1..maxBits, the Kraft sum is exactly one (complete code), and lengths are
   non-increasing along the (ascending) input: [gl_correct]. The length-limiting phase
   (treeRotate on a uint32 histogram with transient wrap-around) is covered. *)
Theorem gen_lengths_sound_for_every_frequency_table : forall maxBits codes,
  (2 <= length codes)%nat ->
  StronglySorted N.le (map fst codes) ->
  NoDup (map snd codes) ->
  N.of_nat (length codes) <= 2 ^ maxBits ->
  N.of_nat (length codes) < 2 ^ 32 ->
  exists lens, gen_lengths maxBits codes = GLOk lens /\ gl_correct maxBits codes lens.
Proof. exact gen_lengths_correct. Qed.
Print Assumptions gen_lengths_sound_for_every_frequency_table.

(* no longer code for a more frequent symbol *)
Theorem gen_lengths_monotone : forall maxBits codes lens,
  StronglySorted N.le (map fst codes) -> gl_correct maxBits codes lens ->
  forall i j ci cj li lj,
    nth_error (map fst codes) i = Some ci -> nth_error (map fst codes) j = Some cj ->
    nth_error (map snd lens) i = Some li -> nth_error (map snd lens) j = Some lj ->
    ci < cj -> lj <= li.
Proof. exact gl_correct_monotone. Qed.
Print Assumptions gen_lengths_monotone.

(* GeneratePrefixes accepts exactly the sorted, non-zero, complete length assignments ... *)
Theorem gen_prefixes_accepts_exactly_complete_codes : forall codes,
  (2 <= length codes)%nat ->
  ((exists out, gen_prefixes codes = GPOk out) <->
   (strictly_increasing codes None = true /\ lens_pos codes /\ complete codes = true)).
Proof. exact gen_prefixes_ok_iff. Qed.
Print Assumptions gen_prefixes_accepts_exactly_complete_codes.

(* ... and what it returns is the canonical code of RFC 1951 3.2.2 (bit-reversed into reading
   order), prefix-free and complete in reading order: [valid_code] *)
Theorem gen_prefixes_yields_the_canonical_code : forall codes out,
  (2 <= length codes)%nat -> gen_prefixes codes = GPOk out -> valid_code out.
Proof. exact gen_prefixes_valid. Qed.
Print Assumptions gen_prefixes_yields_the_canonical_code.

(* the encoder pipeline: the lengths GenerateLengths produces, sorted by symbol, are accepted
   by GeneratePrefixes, with every length within the limit *)
Theorem gen_lengths_output_is_accepted_by_gen_prefixes : forall maxBits codes,
  (2 <= length codes)%nat ->
  StronglySorted N.le (map fst codes) -> NoDup (map snd codes) ->
  N.of_nat (length codes) <= 2 ^ maxBits -> N.of_nat (length codes) < 2 ^ 32 ->
  exists lens, gen_lengths maxBits codes = GLOk lens /\ gl_correct maxBits codes lens /\
    forall sorted, Permutation lens sorted -> StronglySorted N.lt (map fst sorted) ->
      exists out, gen_prefixes sorted = GPOk out /\ valid_code out /\ map fst out = sorted /\
                  forall e, In e out -> 1 <= e_len e <= maxBits.
Proof. exact gen_lengths_then_prefixes. Qed.
Print Assumptions gen_lengths_output_is_accepted_by_gen_prefixes.
