(* C06 — every XFLATE stream is a plain DEFLATE stream with the same content.
   The DEFLATE decoder is Flate.Spec.inflate (RFC 1951 model). *)
From V Require Import Base.Prelude Base.Prog Base.ProgThms Meta.Model Flate.Spec Flate.Thms
  XFlate.Index XFlate.Writer XFlate.Thms XFlate.Witness.

(* the RFC 1951 model decodes the real Writer's output to the original,
   consuming it to the last byte *)
Theorem xflate_witness_is_deflate :
  inflate w_stream = mkIR None w_plain (N.of_nat (length w_stream)).
Proof. vm_compute. reflexivity. Qed.
Print Assumptions xflate_witness_is_deflate.

(* a closed writer never adds to the stream *)
Theorem xw_closed_is_inert : forall deflate s o,
  w_err s = Some EClosed ->
  snd (wstep deflate s o) = s /\
  match o with
  | WClose => snd (fst (wstep deflate s o)) = None
  | _ => snd (fst (wstep deflate s o)) = Some EClosed
  end.
Proof. exact closed_writer_inert. Qed.
Print Assumptions xw_closed_is_inert.

(* and what a DEFLATE decoder makes of a stream does not depend on anything
   that follows it *)
Theorem deflate_verdict_is_local : forall d input trailer,
  res_err (inflate_d d input) <> Some EUEOF ->
  res_err (inflate_d d (input ++ trailer)) = res_err (inflate_d d input) /\
  res_out (inflate_d d (input ++ trailer)) = res_out (inflate_d d input) /\
  res_pos (inflate_d d (input ++ trailer)) = res_pos (inflate_d d input).
Proof. exact inflate_trailing. Qed.
Print Assumptions deflate_verdict_is_local.
