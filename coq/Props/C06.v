(* C06 — every XFLATE stream is a plain DEFLATE stream with the same content.
   The DEFLATE decoder is Flate.Spec.inflate (RFC 1951 model). *)
From V Require Import XFlate.RoundTripAll.
From V Require Import XFlate.Reader XFlate.RoundTripStmt Flate.Depth Flate.Compose Meta.Deflate Meta.DeflateStream.
From V Require Import Base.Prelude Base.Prog Base.ProgThms Meta.Model Flate.Spec Flate.Thms
  XFlate.Index XFlate.Writer XFlate.Thms XFlate.Witness.

(* the RFC 1951 model decodes the real Writer's output to the original,
   consuming it to the last byte *)
Theorem xflate_witness_is_deflate :
  inflate w_stream = mkIR None w_plain (N.of_nat (length w_stream)).
Proof. vm_compute. reflexivity. Qed.
Print Assumptions xflate_witness_is_deflate.

(* a closed writer never adds to the stream *)
Theorem xw_closed_is_inert : forall deflate s o,
  w_err s = Some EClosed ->
  snd (wstep deflate s o) = s /\
  match o with
  | WClose => snd (fst (wstep deflate s o)) = None
  | _ => snd (fst (wstep deflate s o)) = Some EClosed
  end.
Proof. exact closed_writer_inert. Qed.
Print Assumptions xw_closed_is_inert.

(* and what a DEFLATE decoder makes of a stream does not depend on anything
   that follows it *)
Theorem deflate_verdict_is_local : forall d input trailer,
  res_err (inflate_d d input) <> Some EUEOF ->
  res_err (inflate_d d (input ++ trailer)) = res_err (inflate_d d input) /\
  res_out (inflate_d d (input ++ trailer)) = res_out (inflate_d d input) /\
  res_pos (inflate_d d (input ++ trailer)) = res_pos (inflate_d d input).
Proof. exact inflate_trailing. Qed.
Print Assumptions deflate_verdict_is_local.

(* ---- composition: why a concatenation of chunks, index blocks and a footer is ONE stream ---- *)
(* [nonfinal_blocks c = Some d]: c is, for the RFC 1951 model, a sequence of complete blocks
   none of which carries the final bit, ending exactly at its last byte, with output d
   (XFlate/RoundTripStmt.v; this is the contract on compress/flate output after a Flush,
   re-checked on every chunk of every run). Such sequences compose ... *)
Theorem deflate_nonfinal_block_sequences_compose : scan_app_stmt.
Proof. exact scan_app. Qed.
Print Assumptions deflate_nonfinal_block_sequences_compose.

(* ... and followed by a complete stream (then anything) the whole decodes to the
   concatenation and ends exactly after that stream *)
Theorem deflate_nonfinal_blocks_then_stream : scan_then_stream_stmt.
Proof. exact scan_then_stream. Qed.
Print Assumptions deflate_nonfinal_blocks_then_stream.

(* every index block the Writer emits (any payload) is such a sequence with NO output, and
   the footer (FinalStream) is a complete stream with no output: the only final bit of an
   XFLATE stream is the footer's *)
Theorem xflate_index_blocks_are_empty_nonfinal_deflate : meta_nonfinal_blocks_stmt.
Proof. exact meta_nonfinal_blocks. Qed.
Print Assumptions xflate_index_blocks_are_empty_nonfinal_deflate.

Theorem xflate_footer_is_the_final_empty_deflate_block : meta_footer_chunk_stmt.
Proof. exact meta_footer_chunk. Qed.
Print Assumptions xflate_footer_is_the_final_empty_deflate_block.

(* THE PROPERTY, for every history: under contract K1, whatever the Writer has handed to its
   destination after a successful Close - any configuration, any Write / Flush schedule - is ONE
   complete DEFLATE stream for the RFC 1951 model: it decodes to exactly the data written and is
   consumed to its last byte (the only final bit is the footer's). No size bound. *)
Theorem xflate_output_is_a_deflate_stream_with_the_same_content : xflate_is_deflate_stmt.
Proof. exact xflate_is_deflate. Qed.
Print Assumptions xflate_output_is_a_deflate_stream_with_the_same_content.
