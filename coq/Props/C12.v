(* C12 — flushed data survives truncation; truncated output is never misread. *)
From V Require Import Bzip2.Common Bzip2.SpecR Bzip2.SpecW Bzip2.Cut.
From V Require Import Flate.Spec XFlate.Reader XFlate.RoundTripStmt XFlate.RoundTripAll XFlate.FlushPoints.
From V Require Import XFlate.Index XFlate.Writer XFlate.Mono.
From V Require Import Base.Prelude Base.Prog Base.ProgThms Flate.Spec Flate.Thms Bzip2.Common Bzip2.SpecR Bzip2.SpecW Bzip2.Thms XFlate.Witness.

(* a DEFLATE decoder given any cut of a stream it would accept delivers a
   prefix of the full output and fails with UnexpectedEOF: never wrong data,
   never success. Applies to every xflate.Writer output (C06: such outputs
   are accepted DEFLATE streams). *)
Theorem cut_deflate_never_misread : forall d input cut rest,
  input = cut ++ rest ->
  res_err (inflate_d d input) <> Some EUEOF ->
  8 * N.of_nat (length cut) < res_pos (inflate_d d input) ->
  res_err (inflate_d d cut) = Some EUEOF /\
  prefix_of (res_out (inflate_d d cut)) (res_out (inflate_d d input)).
Proof. exact inflate_truncated. Qed.
Print Assumptions cut_deflate_never_misread.

(* more input never changes bytes already delivered (what a flush point
   makes available stays available) *)
Theorem delivered_before_cut_is_stable : forall (p : prog unit) s t,
  eof_free p -> res_err (run p s) = Some EUEOF ->
  exists o, a_out (res_state (run p (ext s t))) = o ++ a_out (res_state (run p s)).
Proof. intros p s t. exact (run_extend_ueof p s t). Qed.
Print Assumptions delivered_before_cut_is_stable.

(* instances on real writer output: every cut of the xflate witness stream
   yields UnexpectedEOF and a prefix (checked for all 115 cut positions) *)
Theorem xflate_witness_all_cuts :
  forallb (fun k =>
    let r := inflate (firstn k w_stream) in
    match ir_err r with
    | Some EUEOF => list_eqb N.eqb (ir_out r) (firstn (length (ir_out r)) w_plain)
    | _ => false
    end) (seq 0 (length w_stream)) = true.
Proof. vm_compute. reflexivity. Qed.
Print Assumptions xflate_witness_all_cuts.

Theorem bzip2_cut_is_ueof_witness :
  bz_err (bzip2_decode (firstn 20 (bzip2_encode 1 [65;66]))) = Some EUEOF.
Proof. exact bz_cut_is_ueof. Qed.
Print Assumptions bzip2_cut_is_ueof_witness.

(* xflate.Writer only appends: for every compressor, state and call sequence, what the
   underlying writer held after a prefix of the calls is a prefix of what it holds later *)
Theorem xflate_output_at_any_moment_is_a_cut_of_the_final_output : forall deflate ops1 ops2 s,
  exists extra,
    w_sink (snd (wrun deflate s (ops1 ++ ops2))) = w_sink (snd (wrun deflate s ops1)) ++ extra.
Proof. exact sink_at_any_moment_is_a_cut. Qed.
Print Assumptions xflate_output_at_any_moment_is_a_cut_of_the_final_output.

(* THE PROPERTY, for every history (under contract K1 on the compressor).
   TRUNCATED OUTPUT IS NEVER MISREAD: every proper cut of the bytes a successfully closed Writer
   produced - any configuration, any Write / Flush schedule - makes the DEFLATE decoder model end
   in UnexpectedEOF having delivered a prefix of the data written: never success, never a
   wrong byte *)
Theorem xflate_cut_never_misread : forall deflate, K1 deflate ->
  forall lvl chunk idx s0 ops obs s,
    new_writer lvl chunk idx = inr s0 ->
    wrun deflate s0 (ops ++ [WClose]) = (obs, s) ->
    Forall (fun ob => snd ob = None \/ snd ob = Some EInvalid) obs ->
    snd (last obs (0, None)) = None ->
    (forall b, In b (wops_data ops) -> b < 256) ->
    forall k, (k < length (w_sink s))%nat ->
      ir_err (inflate (firstn k (w_sink s))) = Some EUEOF /\
      prefix_of (ir_out (inflate (firstn k (w_sink s)))) (wops_data ops).
Proof. exact cut_never_misread. Qed.
Print Assumptions xflate_cut_never_misread.

(* FLUSHED DATA SURVIVES TRUNCATION: right after a Flush (any of the three modes) that reported
   success, with p bytes handed out, (a) those p bytes decode to EXACTLY the data written before
   the Flush (then UnexpectedEOF, all p bytes consumed), (b) followed by anything they still
   deliver at least that data, (c) whatever is called afterwards - failing calls included - the
   first p bytes never change and every cut at or behind p delivers at least that data *)
Theorem xflate_flushed_data_survives_truncation : forall deflate, K1 deflate ->
  forall lvl chunk idx s0 ops1 m obs1 s1,
    new_writer lvl chunk idx = inr s0 ->
    wrun deflate s0 (ops1 ++ [WFlush m]) = (obs1, s1) ->
    Forall (fun ob => snd ob = None \/ snd ob = Some EInvalid) obs1 ->
    snd (last obs1 (0, None)) = None ->
    (forall b, In b (wops_data ops1) -> b < 256) ->
    let p := length (w_sink s1) in
    inflate (w_sink s1) = mkIR (Some EUEOF) (wops_data ops1) (N.of_nat p) /\
    (forall t, prefix_of (wops_data ops1) (ir_out (inflate (w_sink s1 ++ t)))) /\
    (forall ops2,
       let s2 := snd (wrun deflate s0 (ops1 ++ [WFlush m] ++ ops2)) in
       firstn p (w_sink s2) = w_sink s1 /\
       inflate (firstn p (w_sink s2)) = mkIR (Some EUEOF) (wops_data ops1) (N.of_nat p) /\
       forall k, (p <= k)%nat ->
         prefix_of (wops_data ops1) (ir_out (inflate (firstn k (w_sink s2))))).
Proof. exact flush_point_recoverable. Qed.
Print Assumptions xflate_flushed_data_survives_truncation.

(* bzip2: every proper non-empty prefix of a Writer-produced stream, any level, any data, fails
   with exactly UnexpectedEOF having delivered a prefix of the data *)
Theorem bzip2_cut_output_never_misread : forall level data k,
  1 <= level <= 9 -> (forall b, In b data -> b < 256) ->
  (0 < k < length (bzip2_encode level data))%nat ->
  bz_err (bzip2_decode (firstn k (bzip2_encode level data))) = Some EUEOF /\
  prefix_of (bz_out (bzip2_decode (firstn k (bzip2_encode level data)))) data /\
  bz_used (bzip2_decode (firstn k (bzip2_encode level data))) = N.of_nat k.
Proof. exact bzip2_cut_is_ueof. Qed.
Print Assumptions bzip2_cut_output_never_misread.
