(* C13 — writers surface every sink failure. Model: Life/Writers.v, the
   error-latch discipline of bzip2.Writer / xflate.Writer / meta.Writer over
   a sink with an arbitrary fault plan; what a call emits is a parameter. *)
From V Require Import Prefix.ReaderImpl Prefix.ReaderSpec Prefix.WriterImpl Prefix.WriterSpec Prefix.WriterThms.
From V Require Import XFlate.Index XFlate.Writer XFlate.Mono.
From V Require Import Base.Prelude Life.Writers.

(* once the sink has failed every call fails and changes nothing *)
Theorem writer_fault_sticky : forall w c,
  winv w -> s_fired (l_sink w) = true ->
  exists e, snd (fst (wcall_step true w c)) = Some e /\ snd (wcall_step true w c) = w.
Proof. exact fault_surfaced_and_sticky. Qed.
Print Assumptions writer_fault_sticky.

(* the call during which the sink fails reports the failure *)
Theorem writer_fault_surfaced : forall w c,
  winv w -> s_fired (l_sink w) = false ->
  s_fired (l_sink (snd (wcall_step true w c))) = true ->
  snd (fst (wcall_step true w c)) = Some sink_err.
Proof. exact fault_reported_by_failing_call. Qed.
Print Assumptions writer_fault_surfaced.

(* Close returns nil only if the sink never failed *)
Theorem close_never_false_success_thm : forall w c,
  winv w -> c_kind c = KClose ->
  snd (fst (wcall_step true w c)) = None ->
  s_fired (l_sink (snd (wcall_step true w c))) = false.
Proof. exact close_never_false_success. Qed.
Print Assumptions close_never_false_success_thm.

(* the invariant holds initially and after every history of calls *)
Theorem writer_invariant_reachable : forall pl cs, winv (snd (wcalls true (lw_init pl) cs)).
Proof. intros pl cs. exact (calls_inv (lw_init pl) cs (init_inv pl)). Qed.
Print Assumptions writer_invariant_reachable.

(* OutputOffset = bytes accepted by the sink; InputOffset = bytes reported accepted *)
Theorem writer_output_offset : forall w cs,
  winv w -> l_out (snd (wcalls true w cs)) = s_len (l_sink (snd (wcalls true w cs))).
Proof. exact output_offset_is_sink_length. Qed.
Print Assumptions writer_output_offset.

Theorem writer_input_offset : forall g w cs,
  l_in (snd (wcalls g w cs)) = l_in w + sum_accepted (fst (wcalls g w cs)).
Proof. exact input_offset_is_accepted. Qed.
Print Assumptions writer_input_offset.

(* the pre-repair bzip2.Writer.Close (no guard on the latch) is refuted *)
Theorem bzip2_close_prefix_refuted :
  map snd (fst (wcalls false (lw_init d6_plan) d6_calls)) = [None; Some sink_err; None] /\
  s_fired (l_sink (snd (wcalls false (lw_init d6_plan) d6_calls))) = true.
Proof. exact C13_D6_refuted. Qed.
Print Assumptions bzip2_close_prefix_refuted.

(* xflate.Writer only appends: for every compressor, state and call sequence, what the
   underlying writer held after a prefix of the calls is a prefix of what it holds later *)
Theorem xflate_sink_before_is_prefix_of_sink_after : forall deflate ops1 ops2 s,
  exists extra,
    w_sink (snd (wrun deflate s (ops1 ++ ops2))) = w_sink (snd (wrun deflate s ops1)) ++ extra.
Proof. exact sink_at_any_moment_is_a_cut. Qed.
Print Assumptions xflate_sink_before_is_prefix_of_sink_after.

(* The implementation-level model of prefix.Writer (64-bit bit buffer, the 512-byte staging
   buffer with `cntBuf -= cnt` after a short write, PushBits' wide 8-byte store, the per-byte
   bit reversal for big-endian order, Flush, raw Write, Try* variants; validated against the
   real Writer over scripted sinks on every run) REFINES the abstract bit list. *)
(* (a) a sink that never fails: every observation is the specification's, BitsWritten is the
   number of bits written, after Flush the sink holds exactly the packed stream and at most
   7 bits are withheld, no run-time panic, for fields up to 57 bits (64 when aligned) *)
Theorem bit_writer_refines_bit_list : writer_refines_faultfree.
Proof. exact writer_refines_faultfree_holds. Qed.
Print Assumptions bit_writer_refines_bit_list.

(* (b) ANY sink (errors with short counts, once or for ever), any history, no precondition:
   Offset is always the number of bytes the sink accepted ... *)
Theorem bit_writer_offset_counts_accepted_bytes : offset_counts_accepted.
Proof. exact offset_counts_accepted_holds. Qed.
Print Assumptions bit_writer_offset_counts_accepted_bytes.

(* ... a sink error is the outcome of the operation during which it happened (returned by
   Flush / Write, raised by WriteBits / WriteSymbol), never swallowed ... *)
Theorem bit_writer_never_swallows_a_sink_error : sink_error_never_swallowed.
Proof. exact sink_error_never_swallowed_holds. Qed.
Print Assumptions bit_writer_never_swallows_a_sink_error.

(* ... and up to and including the first failing operation the sink holds a PREFIX of the
   packed stream (what it would have received without the failure) *)
Theorem bit_writer_sink_is_prefix_until_first_failure : writer_refines_until_failure.
Proof. exact writer_refines_until_failure_holds. Qed.
Print Assumptions bit_writer_sink_is_prefix_until_first_failure.

(* what does NOT hold, and why every Writer above must latch the first error: after a short
   write the staging buffer is not compacted, so a second Flush reports success while the
   sink holds 01 02 03 01 02 03 04 instead of 01..07 *)
Theorem bit_writer_alone_can_report_false_success_after_short_write :
  let '(obs, p) := bwrun (winit [SFail 3 9] SAccept false)
                         [BWBits 0x07060504030201 56; BWFlush; BWFlush] in
  map obs_err obs = [None; Some (ESrc 9); None] /\
  (exists vw, nth 2 obs (OWPads (view p)) = OWFlush 7 None vw) /\
  w_offset p = 7%Z /\ bits_written p = 56%Z /\
  wsink_data (bw_sink p) = [1; 2; 3; 1; 2; 3; 4] /\
  pack false (val_bits 56 0x07060504030201) = [1; 2; 3; 4; 5; 6; 7].
Proof. exact false_success_after_short_write. Qed.
Print Assumptions bit_writer_alone_can_report_false_success_after_short_write.

(* ------------------------------------------------------------------------------------------ *)
(* bzip2.Writer at implementation level (Bzip2/WriterImpl.v: the real call structure of
   writer.go OVER the implementation-level bit writer Prefix/WriterImpl.v and a scripted sink;
   validated per call against the real Writer, check WBZW), for EVERY history of Write / Close /
   Reset and EVERY sink script (which calls fail, with which short counts).                     *)
From V Require Import Prefix.WriterFields Prefix.WriterFieldsThms Bzip2.SpecW Bzip2.WriterImpl
  Bzip2.WriterImplSpec Bzip2.WriterImplThms.

(* no call ends in a run-time panic; after EVERY call OutputOffset = bytes the sink in use has
   accepted, InputOffset = sum of the counts Write returned since the last Reset *)
Theorem bzip2_writer_offsets_and_no_panic : forall level, 1 <= level -> forall ops st,
  Bzip2.WriterImplThms.Reach level st ->
  let '(obs, st') := zrun st ops in
  Bzip2.WriterImplThms.Reach level st' /\ length obs = length ops /\
  Forall (fun ob => o_ret ob <> ZRPanic /\
                    o_out ob = Z.of_nat (length (wsink_data (o_sink ob)))) obs /\
  in_ok (z_in st) ops obs.
Proof. exact zrun_offsets. Qed.
Print Assumptions bzip2_writer_offsets_and_no_panic.

(* the latch: ANY state whose err is a failure answers every Write / Close with it, makes no
   sink call and changes nothing *)
Theorem bzip2_writer_latch : forall st o e, z_err st = Some e -> e <> EClosed -> no_reset o ->
  zstep st o = (match o with ZWrite _ => ZRWrite 0 (Some e) | _ => ZRClose (Some e) end, st).
Proof. exact zstep_latched. Qed.
Print Assumptions bzip2_writer_latch.

Theorem bzip2_writer_error_sets_latch : forall level, 1 <= level -> forall st o e,
  Bzip2.WriterImplThms.Reach level st -> no_reset o ->
  ret_err (fst (zstep st o)) = Some e -> e <> EClosed -> z_err (snd (zstep st o)) = Some e.
Proof. exact error_sets_latch. Qed.
Print Assumptions bzip2_writer_error_sets_latch.

(* the call during which the sink fails returns the error of the first failed sink call (at
   most two more sink calls follow it, inside that call); otherwise nil *)
Theorem bzip2_writer_sink_error_reported : forall level, 1 <= level -> forall st o,
  Bzip2.WriterImplThms.Reach level st -> no_reset o -> z_err st = None ->
  exists l', calls (zsink st) l' (zsink (snd (zstep st o))) /\
             StepRep (fst (zstep st o)) (snd (zstep st o)) l'.
Proof. exact sink_error_reported. Qed.
Print Assumptions bzip2_writer_sink_error_reported.

(* Close = nil only if the sink never failed, and then the sink holds bzip2_encode of the data *)
Theorem bzip2_writer_closed_stream : forall level, 1 <= level -> forall script rest ds tail,
  Forall no_reset tail ->
  let s0 := new_sink script rest in
  let st' := snd (zrun (znew level s0) (map ZWrite ds ++ ZClose :: tail)) in
  z_err st' = Some EClosed ->
  wsink_data (zsink st') = bzip2_encode level (concat ds) /\
  exists l, calls s0 l (zsink st') /\ Forall beh_accepts l.
Proof. exact closed_stream_is_bzip2_encode. Qed.
Print Assumptions bzip2_writer_closed_stream.

Theorem bzip2_writer_close_nil_closes : forall level, 1 <= level -> forall st,
  Bzip2.WriterImplThms.Reach level st ->
  fst (zstep st ZClose) = ZRClose None -> z_err (snd (zstep st ZClose)) = Some EClosed.
Proof. exact close_nil_closes. Qed.
Print Assumptions bzip2_writer_close_nil_closes.

(* the bytes accepted up to and including the first failed sink call are a prefix of the
   output of the same history over a sink that never fails (NOT the bytes after it: see
   Bzip2/WriterImplExamples.v bytes_after_the_failure_are_not_a_continuation) *)
Theorem bzip2_writer_prefix_at_failure : forall level, 1 <= level -> forall script rest ops,
  Forall no_reset ops ->
  let s0 := new_sink script rest in
  let st' := snd (zrun (znew level s0) ops) in
  let good := wsink_data (zsink (snd (zrun (znew level (new_sink [] SAccept)) ops))) in
  (forall t, z_err st' = Some (ESrc t) ->
     exists l1 k l2,
       calls s0 (l1 ++ SFail k t :: l2) (zsink st') /\ Forall beh_accepts l1 /\ (length l2 <= 2)%nat /\
       prefix_of (accepted_upto (zsink st') (S (length l1))) good) /\
  (z_err st' = None \/ z_err st' = Some EClosed ->
     wsink_data (zsink st') = good /\
     exists l, calls s0 l (zsink st') /\ Forall beh_accepts l).
Proof. exact prefix_at_failure. Qed.
Print Assumptions bzip2_writer_prefix_at_failure.

(* Reset on ANY Writer value behaves as NewWriter *)
Theorem bzip2_writer_reset_as_new : forall st script rest ops,
  zrun (zreset st (new_sink script rest)) ops = zrun (znew (z_level st) (new_sink script rest)) ops.
Proof. exact reset_behaves_as_new. Qed.
Print Assumptions bzip2_writer_reset_as_new.

(* ------------------------------------------------------------------------------------------ *)
(* meta.Writer at implementation level (Meta/WriterImpl.v over the implementation-level bit
   writer and a scripted sink; validated per call against the real Writer, check WMETAW), for
   EVERY history of Write / Close(FinalMode) / Reset and EVERY sink script.                     *)
From V Require Meta.Model Meta.WriterImpl Meta.WriterImplSpec Meta.WriterImplBits Meta.WriterImplThms.

Module MetaWriterC13.
Import Meta.Model Meta.WriterImpl Meta.WriterImplSpec Meta.WriterImplBits Meta.WriterImplThms.

(* no run-time panic, no "block too large", only nil / errClosed / the sink's error are ever
   returned; OutputOffset = bytes the sink accepted, NumBlocks = successful sink calls,
   InputOffset = sum of the counts Write returned since the last Reset: after EVERY call *)
Theorem meta_writer_offsets_and_no_panic : forall script rest ops,
  let obs := mrun_new script rest ops in
  length obs = length ops /\ obs_ok (new_sink script rest) 0 ops obs.
Proof. exact mrun_new_offsets. Qed.

Theorem meta_writer_latch : forall st o e, m_err st = Some e -> e <> EClosed -> no_reset o ->
  mstep st o = (match o with MWrite _ => MRWrite 0 (Some e) | _ => MRClose (Some e) end, st).
Proof. exact mstep_latched. Qed.

Theorem meta_writer_error_sets_latch : forall st o e, Reach st -> no_reset o ->
  ret_err (fst (mstep st o)) = Some e -> e <> EClosed -> m_err (snd (mstep st o)) = Some e.
Proof. exact error_sets_latch. Qed.

(* the call during which the sink call fails returns that error; it is the last sink call *)
Theorem meta_writer_sink_error_reported : forall st o, Reach st -> no_reset o -> m_err st = None ->
  exists l', calls (m_sink st) l' (m_sink (snd (mstep st o))) /\
             StepRep (fst (mstep st o)) (snd (mstep st o)) l' /\
             m_in (snd (mstep st o)) = (m_in st + Z.of_nat (ret_n (fst (mstep st o))))%Z.
Proof. exact sink_error_reported. Qed.

(* Close = nil only by closing; a closed stream is meta_encode of everything Write accepted *)
Theorem meta_writer_close_nil_closes : forall st mode, Reach st ->
  fst (mstep st (MClose mode)) = MRClose None -> m_err (snd (mstep st (MClose mode))) = Some EClosed.
Proof. exact close_nil_closes. Qed.

Theorem meta_writer_closed_stream : forall script rest pre ds mode tail,
  fresh_prefix pre -> Forall no_reset tail ->
  let s0 := new_sink script rest in
  let st' := snd (mrun (mnew s0) (pre ++ map MWrite ds ++ MClose mode :: tail)) in
  m_err st' = Some EClosed ->
  meta_encode (concat ds) mode = Some (wsink_data (m_sink st')) /\
  m_in st' = Z.of_nat (length (concat ds)) /\
  m_nblocks st' = Z.of_nat (length (writer_blocks (concat ds) [])) /\
  exists l', calls (last_sink s0 pre) l' (m_sink st') /\ Forall beh_accepts l'.
Proof. exact closed_stream_is_meta_encode. Qed.

(* the WHOLE sink contents are always a prefix of the fault-free output of the same history *)
Theorem meta_writer_prefix_always : forall script rest ops,
  let s0 := new_sink script rest in
  let st' := snd (mrun (mnew s0) ops) in
  let good := wsink_data (m_sink (snd (mrun (mnew (new_sink [] SAccept)) (map ff_op ops)))) in
  prefix_of (wsink_data (m_sink st')) good /\
  (m_err st' = None \/ m_err st' = Some EClosed ->
     wsink_data (m_sink st') = good /\
     exists l, calls (last_sink s0 ops) l (m_sink st') /\ Forall beh_accepts l) /\
  (forall t, m_err st' = Some (ESrc t) ->
     exists l1 k, calls (last_sink s0 ops) (l1 ++ [SFail k t]) (m_sink st') /\ Forall beh_accepts l1).
Proof. exact prefix_always. Qed.

(* Reset on ANY Writer value behaves as NewWriter (the states differ at most in the temporary
   bit writer, which encodeBlock re-initialises) *)
Theorem meta_writer_reset_as_new : forall st script rest ops,
  let s := new_sink script rest in
  fst (mrun (mreset st s) ops) = fst (mrun (mnew s) ops) /\
  exists q, snd (mrun (mreset st s) ops) = with_bw (snd (mrun (mnew s) ops)) q.
Proof. exact reset_behaves_as_new. Qed.
End MetaWriterC13.
Print Assumptions MetaWriterC13.meta_writer_offsets_and_no_panic.
Print Assumptions MetaWriterC13.meta_writer_latch.
Print Assumptions MetaWriterC13.meta_writer_error_sets_latch.
Print Assumptions MetaWriterC13.meta_writer_sink_error_reported.
Print Assumptions MetaWriterC13.meta_writer_close_nil_closes.
Print Assumptions MetaWriterC13.meta_writer_closed_stream.
Print Assumptions MetaWriterC13.meta_writer_prefix_always.
Print Assumptions MetaWriterC13.meta_writer_reset_as_new.
