(* C13 — writers surface every sink failure. Model: Life/Writers.v, the
   error-latch discipline of bzip2.Writer / xflate.Writer / meta.Writer over
   a sink with an arbitrary fault plan; what a call emits is a parameter. *)
From V Require Import Prefix.ReaderImpl Prefix.ReaderSpec Prefix.WriterImpl Prefix.WriterSpec Prefix.WriterThms.
From V Require Import XFlate.Index XFlate.Writer XFlate.Mono.
From V Require Import Base.Prelude Life.Writers.

(* once the sink has failed every call fails and changes nothing *)
Theorem writer_fault_sticky : forall w c,
  winv w -> s_fired (l_sink w) = true ->
  exists e, snd (fst (wcall_step true w c)) = Some e /\ snd (wcall_step true w c) = w.
Proof. exact fault_surfaced_and_sticky. Qed.
Print Assumptions writer_fault_sticky.

(* the call during which the sink fails reports the failure *)
Theorem writer_fault_surfaced : forall w c,
  winv w -> s_fired (l_sink w) = false ->
  s_fired (l_sink (snd (wcall_step true w c))) = true ->
  snd (fst (wcall_step true w c)) = Some sink_err.
Proof. exact fault_reported_by_failing_call. Qed.
Print Assumptions writer_fault_surfaced.

(* Close returns nil only if the sink never failed *)
Theorem close_never_false_success_thm : forall w c,
  winv w -> c_kind c = KClose ->
  snd (fst (wcall_step true w c)) = None ->
  s_fired (l_sink (snd (wcall_step true w c))) = false.
Proof. exact close_never_false_success. Qed.
Print Assumptions close_never_false_success_thm.

(* the invariant holds initially and after every history of calls *)
Theorem writer_invariant_reachable : forall pl cs, winv (snd (wcalls true (lw_init pl) cs)).
Proof. intros pl cs. exact (calls_inv (lw_init pl) cs (init_inv pl)). Qed.
Print Assumptions writer_invariant_reachable.

(* OutputOffset = bytes accepted by the sink; InputOffset = bytes reported accepted *)
Theorem writer_output_offset : forall w cs,
  winv w -> l_out (snd (wcalls true w cs)) = s_len (l_sink (snd (wcalls true w cs))).
Proof. exact output_offset_is_sink_length. Qed.
Print Assumptions writer_output_offset.

Theorem writer_input_offset : forall g w cs,
  l_in (snd (wcalls g w cs)) = l_in w + sum_accepted (fst (wcalls g w cs)).
Proof. exact input_offset_is_accepted. Qed.
Print Assumptions writer_input_offset.

(* the pre-repair bzip2.Writer.Close (no guard on the latch) is refuted *)
Theorem bzip2_close_prefix_refuted :
  map snd (fst (wcalls false (lw_init d6_plan) d6_calls)) = [None; Some sink_err; None] /\
  s_fired (l_sink (snd (wcalls false (lw_init d6_plan) d6_calls))) = true.
Proof. exact C13_D6_refuted. Qed.
Print Assumptions bzip2_close_prefix_refuted.

(* xflate.Writer only appends: for every compressor, state and call sequence, what the
   underlying writer held after a prefix of the calls is a prefix of what it holds later *)
Theorem xflate_sink_before_is_prefix_of_sink_after : forall deflate ops1 ops2 s,
  exists extra,
    w_sink (snd (wrun deflate s (ops1 ++ ops2))) = w_sink (snd (wrun deflate s ops1)) ++ extra.
Proof. exact sink_at_any_moment_is_a_cut. Qed.
Print Assumptions xflate_sink_before_is_prefix_of_sink_after.

(* The implementation-level model of prefix.Writer (64-bit bit buffer, the 512-byte staging
   buffer with `cntBuf -= cnt` after a short write, PushBits' wide 8-byte store, the per-byte
   bit reversal for big-endian order, Flush, raw Write, Try* variants; validated against the
   real Writer over scripted sinks on every run) REFINES the abstract bit list. *)
(* (a) a sink that never fails: every observation is the specification's, BitsWritten is the
   number of bits written, after Flush the sink holds exactly the packed stream and at most
   7 bits are withheld, no run-time panic, for fields up to 57 bits (64 when aligned) *)
Theorem bit_writer_refines_bit_list : writer_refines_faultfree.
Proof. exact writer_refines_faultfree_holds. Qed.
Print Assumptions bit_writer_refines_bit_list.

(* (b) ANY sink (errors with short counts, once or for ever), any history, no precondition:
   Offset is always the number of bytes the sink accepted ... *)
Theorem bit_writer_offset_counts_accepted_bytes : offset_counts_accepted.
Proof. exact offset_counts_accepted_holds. Qed.
Print Assumptions bit_writer_offset_counts_accepted_bytes.

(* ... a sink error is the outcome of the operation during which it happened (returned by
   Flush / Write, raised by WriteBits / WriteSymbol), never swallowed ... *)
Theorem bit_writer_never_swallows_a_sink_error : sink_error_never_swallowed.
Proof. exact sink_error_never_swallowed_holds. Qed.
Print Assumptions bit_writer_never_swallows_a_sink_error.

(* ... and up to and including the first failing operation the sink holds a PREFIX of the
   packed stream (what it would have received without the failure) *)
Theorem bit_writer_sink_is_prefix_until_first_failure : writer_refines_until_failure.
Proof. exact writer_refines_until_failure_holds. Qed.
Print Assumptions bit_writer_sink_is_prefix_until_first_failure.

(* what does NOT hold, and why every Writer above must latch the first error: after a short
   write the staging buffer is not compacted, so a second Flush reports success while the
   sink holds 01 02 03 01 02 03 04 instead of 01..07 *)
Theorem bit_writer_alone_can_report_false_success_after_short_write :
  let '(obs, p) := bwrun (winit [SFail 3 9] SAccept false)
                         [BWBits 0x07060504030201 56; BWFlush; BWFlush] in
  map obs_err obs = [None; Some (ESrc 9); None] /\
  (exists vw, nth 2 obs (OWPads (view p)) = OWFlush 7 None vw) /\
  w_offset p = 7%Z /\ bits_written p = 56%Z /\
  wsink_data (bw_sink p) = [1; 2; 3; 1; 2; 3; 4] /\
  pack false (val_bits 56 0x07060504030201) = [1; 2; 3; 4; 5; 6; 7].
Proof. exact false_success_after_short_write. Qed.
Print Assumptions bit_writer_alone_can_report_false_success_after_short_write.
