(* C13 — writers surface every sink failure. Model: Life/Writers.v, the
   error-latch discipline of bzip2.Writer / xflate.Writer / meta.Writer over
   a sink with an arbitrary fault plan; what a call emits is a parameter. *)
From V Require Import XFlate.Index XFlate.Writer XFlate.Mono.
From V Require Import Base.Prelude Life.Writers.

(* once the sink has failed every call fails and changes nothing *)
Theorem writer_fault_sticky : forall w c,
  winv w -> s_fired (l_sink w) = true ->
  exists e, snd (fst (wcall_step true w c)) = Some e /\ snd (wcall_step true w c) = w.
Proof. exact fault_surfaced_and_sticky. Qed.
Print Assumptions writer_fault_sticky.

(* the call during which the sink fails reports the failure *)
Theorem writer_fault_surfaced : forall w c,
  winv w -> s_fired (l_sink w) = false ->
  s_fired (l_sink (snd (wcall_step true w c))) = true ->
  snd (fst (wcall_step true w c)) = Some sink_err.
Proof. exact fault_reported_by_failing_call. Qed.
Print Assumptions writer_fault_surfaced.

(* Close returns nil only if the sink never failed *)
Theorem close_never_false_success_thm : forall w c,
  winv w -> c_kind c = KClose ->
  snd (fst (wcall_step true w c)) = None ->
  s_fired (l_sink (snd (wcall_step true w c))) = false.
Proof. exact close_never_false_success. Qed.
Print Assumptions close_never_false_success_thm.

(* the invariant holds initially and after every history of calls *)
Theorem writer_invariant_reachable : forall pl cs, winv (snd (wcalls true (lw_init pl) cs)).
Proof. intros pl cs. exact (calls_inv (lw_init pl) cs (init_inv pl)). Qed.
Print Assumptions writer_invariant_reachable.

(* OutputOffset = bytes accepted by the sink; InputOffset = bytes reported accepted *)
Theorem writer_output_offset : forall w cs,
  winv w -> l_out (snd (wcalls true w cs)) = s_len (l_sink (snd (wcalls true w cs))).
Proof. exact output_offset_is_sink_length. Qed.
Print Assumptions writer_output_offset.

Theorem writer_input_offset : forall g w cs,
  l_in (snd (wcalls g w cs)) = l_in w + sum_accepted (fst (wcalls g w cs)).
Proof. exact input_offset_is_accepted. Qed.
Print Assumptions writer_input_offset.

(* the pre-repair bzip2.Writer.Close (no guard on the latch) is refuted *)
Theorem bzip2_close_prefix_refuted :
  map snd (fst (wcalls false (lw_init d6_plan) d6_calls)) = [None; Some sink_err; None] /\
  s_fired (l_sink (snd (wcalls false (lw_init d6_plan) d6_calls))) = true.
Proof. exact C13_D6_refuted. Qed.
Print Assumptions bzip2_close_prefix_refuted.

(* xflate.Writer only appends: for every compressor, state and call sequence, what the
   underlying writer held after a prefix of the calls is a prefix of what it holds later *)
Theorem xflate_sink_before_is_prefix_of_sink_after : forall deflate ops1 ops2 s,
  exists extra,
    w_sink (snd (wrun deflate s (ops1 ++ ops2))) = w_sink (snd (wrun deflate s ops1)) ++ extra.
Proof. exact sink_at_any_moment_is_a_cut. Qed.
Print Assumptions xflate_sink_before_is_prefix_of_sink_after.
