(* C14 — Reset makes a used Reader or Writer indistinguishable from a new one. *)
From V Require Import Prefix.ReaderImpl Window.Dict Flate.Impl Flate.ImplRel Flate.ImplThms Flate.ImplExamples.
From V Require Import Window.Dict Window.DictSpec Window.DictThms.
From V Require Import Base.Prelude Life.Reset Life.Writers.

(* the repaired Reset carries nothing that can influence the next stream *)
Theorem reset_equiv_fresh : forall r s, reset r s = fresh s.
Proof. exact reset_is_fresh. Qed.
Print Assumptions reset_equiv_fresh.

Theorem reset_history_independent : forall dec r1 r2 s,
  future dec (reset r1 s) = future dec (reset r2 s).
Proof. exact reset_future_independent. Qed.
Print Assumptions reset_history_independent.

(* the pre-repair bzip2.Reader.Reset (run-length stage carried over) leaks
   the pending bytes of the abandoned block into the next stream *)
Theorem bzip2_reset_prefix_refuted : forall dec r s,
  pending r <> [] ->
  fst (future dec (reset_bzip2_prefix r s)) <> fst (future dec (fresh s)).
Proof. exact C14_D4_refuted. Qed.
Print Assumptions bzip2_reset_prefix_refuted.

(* a Writer is re-created by Reset from its configuration only: in the latch
   model the state after Reset is [lw_init], whatever happened before *)
Theorem writer_reset_is_init : forall pl cs,
  winv (snd (wcalls true (lw_init pl) cs)).
Proof. intros pl cs. exact (calls_inv (lw_init pl) cs (init_inv pl)). Qed.
Print Assumptions writer_reset_is_init.

(* Reset and the recycled window (flate.Reader.Reset keeps the history buffer): whatever the
   previous stream left in the buffer and whatever its capacity, decoding any command stream
   whose distances stay inside its own output delivers exactly the LZ77 decoding - the same
   bytes as with a fresh buffer. (Outside that protocol the stale bytes DO leak: stale_leak;
   it is the Reader's distance check that keeps streams apart.) *)
Theorem flate_window_reset_equals_fresh : forall size0 size rec0 pre st0 fin cs,
  size_ok size0 -> dd_init size0 rec0 = Ok st0 -> proto st0 pre -> snd (dd_run st0 pre) = fin ->
  size_ok size -> (1 <= d_cap fin)%Z -> cmds_ok size [] cs ->
  exists st1 st', dd_init size (Some (d_arr fin)) = Ok st1 /\
                  drive st1 cs [] = Ok (lz_decode cs, st').
Proof. exact reset_equals_fresh. Qed.
Print Assumptions flate_window_reset_equals_fresh.

(* flate.Reader.Reset at implementation level: the refinement to the RFC 1951 model holds from
   [fl_reset] of ANY earlier state (whatever the recycled window buffer and decoder tables
   contain) exactly as from a new Reader - [start_state] covers both: a Reset Reader decodes the
   next stream as a fresh one does *)
Theorem flate_reset_reader_decodes_like_a_new_one :
  forall data bf fills reads st0 sched obs fin,
    bytes_lt256 data -> start_state data bf fills reads st0 -> fl_run st0 sched = (obs, fin) ->
    Flate.Spec.ir_err (Flate.Spec.inflate data) = None ->
    forall e, run_err obs = Some e ->
      e = EEOF /\ concat_bytes obs = Flate.Spec.ir_out (Flate.Spec.inflate data) /\
      f_inOff fin = Z.of_N (Flate.Spec.ir_used (Flate.Spec.inflate data)) /\
      s_pos (p_src (f_rd fin)) = N.to_nat (Flate.Spec.ir_used (Flate.Spec.inflate data)) /\
      f_outOff fin = zlen (concat_bytes obs).
Proof. exact flate_impl_refines_rfc1951_valid. Qed.
Print Assumptions flate_reset_reader_decodes_like_a_new_one.
