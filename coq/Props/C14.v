(* C14 — Reset makes a used Reader or Writer indistinguishable from a new one. *)
From V Require Import Flate.Impl Flate.ImplLife Flate.ImplLifeWin Flate.ImplLifeSim Flate.ImplLifeThms.
From V Require Import Prefix.ReaderImpl Window.Dict Flate.Impl Flate.ImplRel Flate.ImplThms Flate.ImplExamples.
From V Require Import Window.Dict Window.DictSpec Window.DictThms.
From V Require Import Base.Prelude Life.Reset Life.Writers.

(* the repaired Reset carries nothing that can influence the next stream *)
Theorem reset_equiv_fresh : forall r s, reset r s = fresh s.
Proof. exact reset_is_fresh. Qed.
Print Assumptions reset_equiv_fresh.

Theorem reset_history_independent : forall dec r1 r2 s,
  future dec (reset r1 s) = future dec (reset r2 s).
Proof. exact reset_future_independent. Qed.
Print Assumptions reset_history_independent.

(* the pre-repair bzip2.Reader.Reset (run-length stage carried over) leaks
   the pending bytes of the abandoned block into the next stream *)
Theorem bzip2_reset_prefix_refuted : forall dec r s,
  pending r <> [] ->
  fst (future dec (reset_bzip2_prefix r s)) <> fst (future dec (fresh s)).
Proof. exact C14_D4_refuted. Qed.
Print Assumptions bzip2_reset_prefix_refuted.

(* a Writer is re-created by Reset from its configuration only: in the latch
   model the state after Reset is [lw_init], whatever happened before *)
Theorem writer_reset_is_init : forall pl cs,
  winv (snd (wcalls true (lw_init pl) cs)).
Proof. intros pl cs. exact (calls_inv (lw_init pl) cs (init_inv pl)). Qed.
Print Assumptions writer_reset_is_init.

(* Reset and the recycled window (flate.Reader.Reset keeps the history buffer): whatever the
   previous stream left in the buffer and whatever its capacity, decoding any command stream
   whose distances stay inside its own output delivers exactly the LZ77 decoding - the same
   bytes as with a fresh buffer. (Outside that protocol the stale bytes DO leak: stale_leak;
   it is the Reader's distance check that keeps streams apart.) *)
Theorem flate_window_reset_equals_fresh : forall size0 size rec0 pre st0 fin cs,
  size_ok size0 -> dd_init size0 rec0 = Ok st0 -> proto st0 pre -> snd (dd_run st0 pre) = fin ->
  size_ok size -> (1 <= d_cap fin)%Z -> cmds_ok size [] cs ->
  exists st1 st', dd_init size (Some (d_arr fin)) = Ok st1 /\
                  drive st1 cs [] = Ok (lz_decode cs, st').
Proof. exact reset_equals_fresh. Qed.
Print Assumptions flate_window_reset_equals_fresh.

(* flate.Reader.Reset at implementation level: the refinement to the RFC 1951 model holds from
   [fl_reset] of ANY earlier state (whatever the recycled window buffer and decoder tables
   contain) exactly as from a new Reader - [start_state] covers both: a Reset Reader decodes the
   next stream as a fresh one does *)
Theorem flate_reset_reader_decodes_like_a_new_one :
  forall data bf fills reads st0 sched obs fin,
    bytes_lt256 data -> start_state data bf fills reads st0 -> fl_run st0 sched = (obs, fin) ->
    Flate.Spec.ir_err (Flate.Spec.inflate data) = None ->
    forall e, run_err obs = Some e ->
      e = EEOF /\ concat_bytes obs = Flate.Spec.ir_out (Flate.Spec.inflate data) /\
      f_inOff fin = Z.of_N (Flate.Spec.ir_used (Flate.Spec.inflate data)) /\
      s_pos (p_src (f_rd fin)) = N.to_nat (Flate.Spec.ir_used (Flate.Spec.inflate data)) /\
      f_outOff fin = zlen (concat_bytes obs).
Proof. exact flate_impl_refines_rfc1951_valid. Qed.
Print Assumptions flate_reset_reader_decodes_like_a_new_one.

(* flate.Reader at implementation level (Flate/ImplLife.v, per-call correspondence WFLLIFE): for
   EVERY state - mid-block, failed, closed, after io.EOF; decoder tables, window contents and
   scratch storage arbitrary - Reset followed by any history of Reads, Closes and further Resets
   is observed call by call (bytes, errors, offsets, source position) exactly like a NEW Reader
   whose window buffer has the capacity of the old one: the capacity is the only thing that
   survives *)
Theorem flate_reader_reset_as_new : forall st arr data bf fills reads,
  zlen arr = zlen (d_arr (f_dict st)) ->
  exists s1 s2, fl_reset st data bf fills reads = Ok s1 /\ fl_new_with arr data bf fills reads = Ok s2 /\
    forall ops, fst (fl_ops s1 ops) = fst (fl_ops s2 ops).
Proof. exact fl_reset_as_new. Qed.
Print Assumptions flate_reader_reset_as_new.

Theorem flate_reader_reset_as_newreader_when_capacity_initial : forall st data bf fills reads,
  zlen (d_arr (f_dict st)) = initSize ->
  exists s1 s2, fl_reset st data bf fills reads = Ok s1 /\ fl_new data bf fills reads = Ok s2 /\
    forall ops, fst (fl_ops s1 ops) = fst (fl_ops s2 ops).
Proof. exact fl_reset_as_new_fresh. Qed.
Print Assumptions flate_reader_reset_as_newreader_when_capacity_initial.

(* the capacities a Reader can reach: 4096, 16384, 32768 *)
Theorem flate_reader_reachable_capacity : forall st, reachable st -> Cap3 (zlen (d_arr (f_dict st))).
Proof. exact reachable_capacity. Qed.
Print Assumptions flate_reader_reachable_capacity.

(* at the level of whole streams the capacity does not show either: a Reader reset from ANY state
   and a new Reader deliver the same bytes and end with the same error, whatever the source scripts
   and Read schedules (Peek-capable sources: every input; both source kinds: every valid input) *)
Theorem flate_reader_reset_same_stream_buffered :
  forall st data fills reads fills' reads' s1 s2 sched1 sched2 obs1 obs2 fin1 fin2 e1 e2,
  bytes_lt256 data -> d_arr (f_dict st) <> [] ->
  fl_reset st data true fills reads = Ok s1 -> fl_new data true fills' reads' = Ok s2 ->
  fl_run s1 sched1 = (obs1, fin1) -> fl_run s2 sched2 = (obs2, fin2) ->
  run_err obs1 = Some e1 -> run_err obs2 = Some e2 ->
  concat_bytes obs1 = concat_bytes obs2 /\ e1 = e2.
Proof. exact fl_reset_same_stream_buffered. Qed.
Print Assumptions flate_reader_reset_same_stream_buffered.

Theorem flate_reader_reset_same_stream_valid :
  forall st data bf fills reads fills' reads' s1 s2 sched1 sched2 obs1 obs2 fin1 fin2 e1 e2,
  bytes_lt256 data -> d_arr (f_dict st) <> [] ->
  Flate.Spec.ir_err (Flate.Spec.inflate data) = None ->
  fl_reset st data bf fills reads = Ok s1 -> fl_new data bf fills' reads' = Ok s2 ->
  fl_run s1 sched1 = (obs1, fin1) -> fl_run s2 sched2 = (obs2, fin2) ->
  run_err obs1 = Some e1 -> run_err obs2 = Some e2 ->
  concat_bytes obs1 = concat_bytes obs2 /\ e1 = EEOF /\ e2 = EEOF /\
  f_inOff fin1 = f_inOff fin2 /\ s_pos (p_src (f_rd fin1)) = s_pos (p_src (f_rd fin2)).
Proof. exact fl_reset_same_stream_valid. Qed.
Print Assumptions flate_reader_reset_same_stream_valid.

(* call by call, Reset is NOT NewReader when the window buffer has grown: how many bytes one Read
   returns differs (a legal short-read difference; witness: 4096+1065 against 5161) *)
Theorem flate_reader_reset_keeps_capacity_refuted : ~ fl_reset_as_newreader_statement.
Proof. exact fl_reset_as_newreader_refuted. Qed.
Print Assumptions flate_reader_reset_keeps_capacity_refuted.

(* bzip2.Reader.Reset at implementation level (Bzip2/Impl.v, WBZIMPL): from ANY state with its six
   Decoder objects - which every reachable state has - the Reader after Reset refines libbzip2
   exactly as a new one does, for every input, source script and Read schedule *)
From V Require Bzip2.Impl Bzip2.ImplThms Bzip2.ImplReset.
Module BzReset.
Import Bzip2.Common Bzip2.SpecR Bzip2.Impl Bzip2.ImplThms Bzip2.ImplReset.
Theorem bzip2_reader_reset_refines_libbzip2 :
  forall (st0 : bzst) (data : list byte) (buffered : bool) (fills reads : list nat) (sched : list nat)
         (obs : list bzobs) (fin : bzst) (pre : list bzobs) (o : bzobs) (e : err),
    length (z_trees st0) = 6%nat ->
    (forall b, In b data -> b < 256) ->
    bz_run (bz_reset st0 data buffered fills reads) sched = (obs, fin) ->
    obs = pre ++ [o] -> bo_err o = Some e ->
    let spec := bzip2_decode data in
    e <> EPanic /\ e <> EFuel /\
    match bz_err spec with
    | None => e = EEOF /\ obs_out obs = bz_out spec /\ bo_inOff o = Z.of_N (bz_used spec)
    | Some es => e <> EEOF /\ prefix_of (obs_out obs) (bz_out spec) /\
                 ((e = es /\ obs_out obs = bz_out spec) \/ e = EUEOF)
    end.
Proof. exact bzip2_reset_refines_libbzip2. Qed.
Print Assumptions bzip2_reader_reset_refines_libbzip2.

Theorem bzip2_reader_reachable_has_six_decoders : forall st,
  reachable st -> length (z_trees st) = 6%nat.
Proof. exact reachable_six. Qed.
Print Assumptions bzip2_reader_reachable_has_six_decoders.
End BzReset.

From V Require Meta.ReaderImpl Meta.ReaderImplSim Meta.ReaderImplThms.
Module MetaReaderImplF.
Import Base.Prelude Base.Prog Flate.Impl Flate.ImplRel Meta.Model Meta.Stream Meta.ReaderImpl Meta.ReaderImplSim Meta.ReaderImplThms.
(* meta.Reader.Reset at implementation level: from ANY state Reset gives the state of NewReader *)
Theorem meta_reader_reset_is_new : forall st data bf fills reads,
  mr_reset st data bf fills reads = mr_new data bf fills reads /\
  forall ops, mr_run (mr_reset st data bf fills reads) ops = mr_run (mr_new data bf fills reads) ops.
Proof. exact meta_reader_reset_as_new. Qed.
Print Assumptions meta_reader_reset_is_new.
End MetaReaderImplF.

(* bzip2.Reader LIFECYCLE at implementation level (Bzip2/ImplLife.v: Close, the latch, Reset; histories of
   Read/Close/Reset over scripted sources compared PER CALL with the real Reader: WBZLIFE) *)
From V Require Import Base.Prelude Prefix.ReaderImpl Prefix.DecTable.
From V Require Bzip2.Impl Bzip2.ImplLife Bzip2.ImplLifeLatch Bzip2.ImplLifeSim Bzip2.ImplLifeInv Bzip2.ImplLifeThms.
Module BzLife.
Import Bzip2.Impl Bzip2.ImplLife Bzip2.ImplLifeLatch Bzip2.ImplLifeSim Bzip2.ImplLifeInv Bzip2.ImplLifeThms.
(* ---- C14 *)
Theorem bzip2_reader_reset_as_new : forall st data bf fills reads ops,
  length (z_trees st) = 6%nat ->
  fst (bz_ops (bz_reset st data bf fills reads) ops) = fst (bz_ops (bz_new data bf fills reads) ops) /\
  Bzip2.ImplLifeSim.W0 (snd (bz_ops (bz_reset st data bf fills reads) ops))
                       (snd (bz_ops (bz_new data bf fills reads) ops)).
Proof. exact bz_reset_as_new. Qed.
Print Assumptions bzip2_reader_reset_as_new.

Theorem bzip2_reader_recycled_storage_unobservable : forall s1 s2 ops,
  Bzip2.ImplLifeSim.W0 s1 s2 -> fst (bz_ops s1 ops) = fst (bz_ops s2 ops).
Proof. exact bz_recycled_storage_unobservable. Qed.
Print Assumptions bzip2_reader_recycled_storage_unobservable.
End BzLife.

(* ---- xflate: Reset of a Writer / Reader (XFlate/WriterReset.v, ReaderReset.v, ResetThms.v; WXFRESET) ---- *)
From V Require XFlate.Writer XFlate.Reader XFlate.WriterReset XFlate.ReaderReset XFlate.ResetThms.
Module XFlateReset.
Import Base.Prelude XFlate.Index XFlate.Writer XFlate.Reader XFlate.WriterReset XFlate.ReaderReset XFlate.ResetThms.

(* xflate.Writer.Reset: for EVERY state holding the configuration of a Writer made by NewWriter(conf),
   Reset gives the state of NewWriter(conf) on the new sink; all later calls (further Resets included)
   return, count and write alike - whatever the external compressor does *)
Theorem xflate_writer_reset_as_new : forall deflate (s : xw) lvl chunk idx pre0 s0 pre,
  new_writer_go pre0 lvl chunk idx = inr s0 -> same_cfg s s0 ->
  exists s1, new_writer_go pre lvl chunk idx = inr s1 /\ ws_reset (WLive s) pre = WLive s1 /\
             w_equiv deflate (ws_reset (WLive s) pre) (WLive s1).
Proof. exact xw_reset_as_new. Qed.
Print Assumptions xflate_writer_reset_as_new.

Theorem xflate_writer_histories_split_at_reset : forall deflate lvl chunk idx pre0 s0 hist pre ops,
  new_writer_go pre0 lvl chunk idx = inr s0 ->
  exists s1, new_writer_go pre lvl chunk idx = inr s1 /\
    fst (ws_run deflate (WLive s0) (hist ++ WsReset pre :: ops)) =
    fst (ws_run deflate (WLive s0) hist) ++ ((0, None), (0, 0, pre)) :: fst (ws_run deflate (WLive s1) ops).
Proof. exact xw_reset_as_new_history. Qed.
Print Assumptions xflate_writer_histories_split_at_reset.

(* the regression "Writer.Reset keeps the back size of the previous stream's last index" *)
Theorem xflate_writer_reset_keeping_backsize_refuted : ~ xw_reset_keepback_statement.
Proof. exact xw_reset_keepback_refuted. Qed.
Print Assumptions xflate_writer_reset_keeping_backsize_refuted.

(* xflate.Reader.Reset: for EVERY state, Reset(src) and any later history = NewReader(src) and the same
   history: errors, positions, bytes, and the log of accesses to the source after every call *)
Theorem xflate_reader_reset_as_new : forall (st : xrS) src ops,
  fst (rs_run st (RsReset src :: ops)) = fst (rs_run (RZero false) (RsReset src :: ops)).
Proof. exact xr_reset_as_new. Qed.
Print Assumptions xflate_reader_reset_as_new.

(* the states themselves are equal when the new source opens ... *)
Theorem xflate_reader_reset_state_when_open_succeeds : forall st src s,
  open_reader src = inr s -> rs_reset st src = RLive s.
Proof. exact xr_reset_success_state. Qed.
Print Assumptions xflate_reader_reset_state_when_open_succeeds.

(* ... and not in general: a failed open leaves the recycled decompressor with the offsets of the
   abandoned chunk (unobservable: the latched error answers every call) *)
Theorem xflate_reader_reset_equal_state_refuted : ~ xr_reset_equal_state_statement.
Proof. exact xr_reset_equal_state_refuted. Qed.
Print Assumptions xflate_reader_reset_equal_state_refuted.
End XFlateReset.
