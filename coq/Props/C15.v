(* C15 — whatever xflate.Reader accepts, a DEFLATE decoder reads identically.
   FALSE on the current design (defect D7, known finding): a data chunk may
   contain a block with the final bit whose stored length swallows the end
   block the Reader appends. *)
From V Require Import Meta.Accept XFlate.AcceptDeflate.
From V Require Import Base.Prelude Base.Prog Meta.Model Flate.Spec XFlate.Index XFlate.Reader XFlate.C15.

(* stream built by the harness (real meta.Writer for index and footer):
   chunk = FINAL stored block, LEN = 9 = 4 payload bytes (00 00 ff ff) + 5 *)
Definition d7_stream : list byte :=
  [1;9;0;246;255;0;0;255;255;36;128;134;5;128;68;178;201;142;140;200;136;140;200;40;237;157;40;74;250;127;180;247;222;11;252;5;192;134;5;0;32;33;171;68;33;123;164;254;191;172;189;119;249].

(* the Reader model accepts it and serves 9 bytes; the RFC 1951 model stops
   at the final bit inside the chunk: different consumption, not the whole
   string *)
Theorem C15_refuted :
  c15_class d7_stream = 2 /\
  accepted_content d7_stream = Some [0;0;255;255;1;0;0;255;255] /\
  ir_used (inflate d7_stream) <> N.of_nat (length d7_stream).
Proof. vm_compute. repeat split; try reflexivity; discriminate. Qed.
Print Assumptions C15_refuted.

(* the full statement, kept visible *)
Definition C15_statement : Prop :=
  forall s d, accepted_content s = Some d ->
    inflate s = mkIR None d (N.of_nat (length s)).

Theorem C15_statement_is_false : ~ C15_statement.
Proof.
  intros H. specialize (H d7_stream [0;0;255;255;1;0;0;255;255]).
  assert (Ha : accepted_content d7_stream = Some [0;0;255;255;1;0;0;255;255]) by (vm_compute; reflexivity).
  specialize (H Ha).
  assert (Hu : ir_used (inflate d7_stream) = N.of_nat (length d7_stream)) by (rewrite H; reflexivity).
  revert Hu. vm_compute. discriminate.
Qed.
Print Assumptions C15_statement_is_false.

(* THE PART OF THE PROPERTY THAT HOLDS, for EVERY byte string: if the Reader model accepts a
   stream (open + sequential read to io.EOF) and NO data chunk, as delimited by the accepted
   index, contains a DEFLATE block with the final bit ([c15_class s = 1]: the classification
   the check applies to every accepted stream; class 2 is the known finding D7), then the plain
   DEFLATE decoder model reads exactly the same content and consumes the stream to its last
   byte. So the known finding is the ONLY way the property fails. (Premise: the stream is
   shorter than 2^63 bytes - the int64 offsets of the index walk.) Ingredients: the CONVERSE
   for meta blocks (whatever the meta decoder accepts is an empty DEFLATE block, Meta/Accept.v),
   the layout an accepted footer/index chain forces (records tile the stream from 0 to its end),
   a block can never end inside the appended end block and be followed by a clean end
   (endblock_tail), and DEFLATE composition. *)
Theorem xflate_accept_implies_deflate_unless_final_bit_in_chunk : forall s d,
  (forall b, In b s -> b < 256) ->
  (Z.of_nat (length s) < 2 ^ 63)%Z ->
  c15_class s = 1 -> accepted_content s = Some d ->
  inflate s = mkIR None d (N.of_nat (length s)).
Proof. exact xflate_accept_implies_deflate_partial. Qed.
Print Assumptions xflate_accept_implies_deflate_unless_final_bit_in_chunk.
