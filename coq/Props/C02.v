(* C02 — brotli.Reader is exactly RFC 7932. The RFC 7932 decoder is the
   Gallina program Brotli.Spec.brotli_prog, for every static dictionary
   [dict_byte]; brotli.Reader is tied to it by correspondence on every run
   and both are compared with libbrotli. *)
From V Require Import Prefix.ReaderImpl Prefix.DecTable Prefix.DecTableSpec Brotli.BitReaderImpl Brotli.BitReaderSpec Brotli.BitReaderThms.
From V Require Import Window.Dict Window.DictSpec Window.DictThms Window.DictBr Window.DictBrSpec Window.DictBrThms.
From V Require Import Base.Prelude Base.Prog Base.ProgThms Brotli.Tables Brotli.Spec Brotli.Thms Brotli.Safe Brotli.Fuel.

(* the decoder looks at its source only bit by bit, in order *)
Theorem brotli_decoder_is_local : forall dict inbits, eof_free (brotli_prog dict inbits).
Proof. exact brotli_eof_free. Qed.
Print Assumptions brotli_decoder_is_local.

(* verdict, output and consumed length do not depend on what follows *)
Theorem brotli_trailing_bytes_ignored : forall dict inbits input trailer,
  res_err (brotli_d dict inbits input) <> Some EUEOF ->
  res_err (brotli_d dict inbits (input ++ trailer)) = res_err (brotli_d dict inbits input) /\
  res_out (brotli_d dict inbits (input ++ trailer)) = res_out (brotli_d dict inbits input) /\
  res_pos (brotli_d dict inbits (input ++ trailer)) = res_pos (brotli_d dict inbits input).
Proof. exact brotli_trailing. Qed.
Print Assumptions brotli_trailing_bytes_ignored.

(* never a wrong byte on a cut stream: exactly UnexpectedEOF, output a prefix *)
Theorem brotli_cut_never_misread : forall dict inbits input cut rest,
  input = cut ++ rest ->
  res_err (brotli_d dict inbits input) <> Some EUEOF ->
  8 * N.of_nat (length cut) < res_pos (brotli_d dict inbits input) ->
  res_err (brotli_d dict inbits cut) = Some EUEOF /\
  prefix_of (res_out (brotli_d dict inbits cut)) (res_out (brotli_d dict inbits input)).
Proof. exact brotli_truncated. Qed.
Print Assumptions brotli_cut_never_misread.

(* the tables written from the RFC formulas equal the implementation's *)
Theorem brotli_rfc_tables_eq_impl :
  ins_ranges = go_ins_ranges /\ cpy_ranges = go_cpy_ranges /\ blk_ranges = go_blk_ranges /\
  clen_order = go_clen_order /\ dict_offsets = go_dict_offsets.
Proof.
  exact (conj ins_ranges_go (conj cpy_ranges_go (conj blk_ranges_go (conj clen_order_go dict_offsets_go)))).
Qed.
Print Assumptions brotli_rfc_tables_eq_impl.

(* TOTALITY of the RFC 7932 decoder model, for every static dictionary and every input:
   success, UnexpectedEOF or Corrupted - never a panic (window copy out of range), never an
   exhausted loop budget. The command loop needs a real argument: a command may consume no
   input bit at all, progress then lies in the bytes it produces, and a dictionary word can
   be empty only for transforms that a zero-bit distance cannot reach (invariant: the last
   distances never exceed max 16 (min window bytes_produced)). *)
Theorem brotli_decoder_total : forall dict input,
  match br_err (brotli_decode dict input) with
  | None => True
  | Some e => e = EUEOF \/ e = ECorrupted
  end.
Proof. exact brotli_decode_total. Qed.
Print Assumptions brotli_decoder_total.

(* the brotli sliding window (brotli/dict_decoder.go: zeroed on Init, LastBytes; model run
   against the real one on scripted histories on every run) refines the LZ77 specification for
   every window size >= 2, every recycled buffer and every protocol-respecting history *)
Theorem brotli_window_refines_lz77 : forall size recycled ops st0,
  bsize_ok size -> recycled_ok recycled -> br_init size recycled = Ok st0 -> br_proto st0 ops ->
  exists obs st' s', br_run st0 ops = (map Ok obs, st') /\
                     bsp_run (wsp_init size) ops (map Ok obs) = Some s' /\ Inv st' s'.
Proof. exact br_refines. Qed.
Print Assumptions brotli_window_refines_lz77.

(* brotli's OWN bit reader (bit_reader.go; model Brotli/BitReaderImpl.v over a modelled
   bufio.Reader, run against the real bitReader on every run: WBRBITS) refines the abstract
   LSB-first bit stream for every data, every underlying-reader script, every buffer size
   >= 16 and every history of ReadBits / FeedBits (<= 57 bits) / TryReadBits / ReadPads / raw
   Read / FlushOffset; after FlushOffset the source has been advanced over exactly the bytes
   holding the bits read. Same on the ReadByte path (histories without explicit FeedBits). *)
Theorem brotli_bit_reader_refines_bit_stream_bufio : bitreader_refines_bufio.
Proof. exact bitreader_refines_bufio_holds. Qed.
Print Assumptions brotli_bit_reader_refines_bit_stream_bufio.

Theorem brotli_bit_reader_refines_bit_stream_bytereader : bitreader_refines_bytereader.
Proof. exact bitreader_refines_bytereader_holds. Qed.
Print Assumptions brotli_bit_reader_refines_bit_stream_bytereader.

(* brotli.Reader ITSELF at implementation level (Brotli/Impl.v: the full Reader state, Read, the four
   steps, ReadPrefixCode, the label machine of readCommands with its three suspension states, the static
   dictionary copy with transforms, Reset/Close; compared with the real Reader PER Read CALL - bytes, error
   class, both offsets, a dump of the internal state - on both source paths: WBRIMPL). The statements are
   those of the named lemmas (Brotli/ImplTop.v, ImplCmd.v, ImplPfx.v, ImplCodeX.v; listed in
   Brotli/ImplThms.v), taken over verbatim:
   - one STEP of the Reader, from a state related to a configuration of the RFC 7932 decoder of
     Brotli/Spec.v, keeps that decoder's future: it ends with io.EOF exactly when the RFC decoder accepts,
     fails exactly when it fails, the output only grows, and there is never a run-time panic;
   - one call of readCommands, entered at the start or resumed in any suspension state, likewise;
   - readPrefixCodes as a whole and ReadPrefixCode read the same bits as the RFC model and build decoders
     for the same codes from ANY recycled storage.
   OPEN (kept as a Definition, not claimed): the assembly over whole histories of Read calls
   (brotli_impl_refines_rfc7932_statement) and the sufficiency of the model's loop budgets. *)
From V Require Brotli.Impl Brotli.ImplTop Brotli.ImplCmd Brotli.ImplPfx Brotli.ImplCodeX Brotli.ImplThms.
Theorem brotli_reader_step_keeps_the_rfc_decoders_future :
  ltac:(let t := type of Brotli.ImplTop.run_step_ok in exact t).
Proof. exact Brotli.ImplTop.run_step_ok. Qed.
Print Assumptions brotli_reader_step_keeps_the_rfc_decoders_future.

Theorem brotli_reader_read_commands_refines :
  ltac:(let t := type of Brotli.ImplCmd.read_commands_ok in exact t).
Proof. exact Brotli.ImplCmd.read_commands_ok. Qed.
Print Assumptions brotli_reader_read_commands_refines.

Theorem brotli_reader_read_prefix_codes_refines :
  ltac:(let t := type of Brotli.ImplPfx.read_prefix_codes_refines in exact t).
Proof. exact Brotli.ImplPfx.read_prefix_codes_refines. Qed.
Print Assumptions brotli_reader_read_prefix_codes_refines.

Theorem brotli_reader_read_prefix_code_refines :
  ltac:(let t := type of Brotli.ImplCodeX.read_prefix_code_refines in exact t).
Proof. exact Brotli.ImplCodeX.read_prefix_code_refines. Qed.
Print Assumptions brotli_reader_read_prefix_code_refines.
