(* C01 — flate.Reader is exactly RFC 1951. The RFC 1951 decoder is the
   Gallina [inflate_prog]; it is what the correspondence check ties
   flate.Reader to, on every run, and what compress/flate and zlib are
   compared with. Theorems here: the decoder's verdict and output are a
   function of the bits it consumed only. *)
From V Require Import Prefix.Code Prefix.GenPrefixesThms Prefix.DecTable Prefix.DecTableSpec Prefix.DecTableThms Prefix.DecCanonThms.
From V Require Import Window.Dict Window.DictSpec Window.DictThms.
From V Require Import Base.DepthThms Flate.Depth XFlate.Reader XFlate.RoundTripStmt Flate.Compose.
From V Require Import Base.Prelude Base.Prog Base.ProgThms Flate.Spec Flate.Thms Flate.Safe Flate.Fuel Flate.Canon Flate.CanonLink Base.FuelThms.

(* the decoder cannot look at its source except bit by bit, in order *)
Theorem flate_decoder_is_local : forall d, eof_free (inflate_prog d).
Proof. exact inflate_eof_free. Qed.
Print Assumptions flate_decoder_is_local.

(* acceptance / rejection, the delivered bytes and the consumed length do
   not depend on what follows the stream *)
Theorem flate_trailing_bytes_ignored : forall d input trailer,
  res_err (inflate_d d input) <> Some EUEOF ->
  res_err (inflate_d d (input ++ trailer)) = res_err (inflate_d d input) /\
  res_out (inflate_d d (input ++ trailer)) = res_out (inflate_d d input) /\
  res_pos (inflate_d d (input ++ trailer)) = res_pos (inflate_d d input).
Proof. exact inflate_trailing. Qed.
Print Assumptions flate_trailing_bytes_ignored.

(* never a wrong byte on a cut stream: exactly EUEOF, output a prefix *)
Theorem flate_cut_never_misread : forall d input cut rest,
  input = cut ++ rest ->
  res_err (inflate_d d input) <> Some EUEOF ->
  8 * N.of_nat (length cut) < res_pos (inflate_d d input) ->
  res_err (inflate_d d cut) = Some EUEOF /\
  prefix_of (res_out (inflate_d d cut)) (res_out (inflate_d d input)).
Proof. exact inflate_truncated. Qed.
Print Assumptions flate_cut_never_misread.

(* TOTALITY of the RFC 1951 decoder model: on EVERY input the decoder, with the loop budget
   [inflate] itself chooses, ends in success, UnexpectedEOF or Corrupted - never in a panic
   (window copy out of range), never with its loop budget exhausted (every continuing loop
   iteration consumes an input bit; complete codes have no zero length, so no decoding tree
   is a bare leaf), never with Invalid/Internal. *)
Theorem flate_decoder_total : forall input,
  match ir_err (inflate input) with
  | None => True
  | Some e => e = EUEOF \/ e = ECorrupted
  end.
Proof. exact inflate_total. Qed.
Print Assumptions flate_decoder_total.

(* every tree the decoder accepts decodes exactly the canonical code of RFC 1951 3.2.2:
   each symbol's code word, followed by anything, is decoded to that symbol, consuming
   exactly the word ... *)
Theorem flate_tree_decodes_canonical_code : forall lens fake t s l c rest pos out len,
  (2 <= length lens)%nat -> NoDup (map fst lens) ->
  build_tree lens fake = Some t ->
  In (s, l, c) (canonical lens) ->
  c < 2 ^ l /\
  run (sym_tree t) (mkAst (msb_bits (N.to_nat l) c ++ rest) pos out len)
  = Done (Some s) (mkAst rest (pos + l) out len).
Proof. exact decoder_tree_decodes_canonical_code. Qed.
Print Assumptions flate_tree_decodes_canonical_code.

(* ... and is complete: every long enough bit string decodes to a symbol of the code *)
Theorem flate_tree_is_complete : forall lens fake t bits pos out len,
  (2 <= length lens)%nat -> NoDup (map fst lens) ->
  build_tree lens fake = Some t ->
  (N.to_nat (max_len lens) <= length bits)%nat ->
  exists s rest,
    run (sym_tree t) (mkAst bits pos out len)
    = Done (Some s) (mkAst rest (pos + N.of_nat (length bits - length rest)) out len) /\
    In s (map fst lens).
Proof. exact decoder_tree_is_complete. Qed.
Print Assumptions flate_tree_is_complete.

(* the length lists a dynamic block header yields have pairwise different symbols (the
   NoDup hypothesis above is met by what the header parser produces) *)
Theorem flate_header_lists_have_distinct_symbols : forall tree maxSyms numLit,
  post (fun lens =>
          NoDup (map fst (filter (fun sl => fst sl <? numLit) lens)) /\
          NoDup (map fst (map (fun sl => (fst sl - numLit, snd sl))
                              (filter (fun sl => negb (fst sl <? numLit)) lens))))
       (loop 10 (clen_body tree maxSyms) (mkClst 0 0 [])).
Proof. exact header_lists_nodup. Qed.
Print Assumptions flate_header_lists_have_distinct_symbols.

(* the loop budget is irrelevant: any budget at least the one [inflate] chooses gives the
   same run (a budget can only be exhausted, never change a verdict) *)
Theorem flate_decoder_budget_irrelevant : forall input d,
  (depth_for (length input) <= d)%nat ->
  run (inflate_prog d) (ast_init (bytes_to_bits input)) =
  run (inflate_prog (depth_for (length input))) (ast_init (bytes_to_bits input)).
Proof. exact inflate_any_depth. Qed.
Print Assumptions flate_decoder_budget_irrelevant.

(* history independence: what a stream decodes to on its own (success, UnexpectedEOF) it
   decodes to on top of ANY older output, at any byte-aligned position - a back-reference
   that stays inside the stream's own output never sees the older bytes *)
Theorem flate_decoding_independent_of_older_history : forall depth bits pos0 out0 r,
  pos0 mod 8 = 0 ->
  run (inflate_prog depth) (ast_init bits) = r -> hgood r ->
  run (inflate_prog depth) (mkAst bits pos0 out0 (N.of_nat (length out0))) =
  shift_result pos0 out0 r.
Proof. exact inflate_prog_history. Qed.
Print Assumptions flate_decoding_independent_of_older_history.

(* THE SLIDING WINDOW, implementation level (flate/dict_decoder.go: lazily grown buffer
   4096 -> x4 -> size, wrap-around, the two phases of WriteCopy, TryWriteCopy; model run against
   the real dictDecoder on scripted histories on every run): for every window size, every
   recycled buffer (any contents, any capacity) and every history that follows the caller
   protocol of reader.go, no panic and every observation - copy counts, flushed bytes, HistSize,
   AvailSize - is the abstract LZ77 specification's *)
Theorem flate_window_refines_lz77 : forall size recycled ops st0,
  size_ok size -> dd_init size recycled = Ok st0 -> proto st0 ops ->
  exists obs st' s', dd_run st0 ops = (map Ok obs, st') /\
                     wsp_run (wsp_init size) ops (map Ok obs) = Some s' /\ Inv st' s'.
Proof. exact dict_refines. Qed.
Print Assumptions flate_window_refines_lz77.

(* TABLE DECODING = CANONICAL CODE: for every complete length assignment (what the block header
   parser accepts) the two-level table built by prefix.Decoder.Init from the bit-reversed RFC 1951
   canonical codes - whatever the recycled arrays held - decodes every canonical code word,
   followed by any bits, to its symbol and length *)
Theorem flate_decoder_tables_decode_the_canonical_code : forall lens L oldC oldL,
  lens_pos lens -> complete lens = true -> (2 <= length lens)%nat -> max_len lens <= L -> L <= 31 ->
  exists d, dec_init oldC oldL (canon_codes lens) = IOk d /\ tables_ok (canon_codes lens) d /\
    forall s l c rest, In (s, l, c) (canonical lens) ->
      dec_lookup d (reverse_bits c l + 2 ^ l * rest) = Some (s mod 2 ^ 27, l).
Proof. exact canon_table_decodes. Qed.
Print Assumptions flate_decoder_tables_decode_the_canonical_code.
