(* C01 — flate.Reader is exactly RFC 1951. The RFC 1951 decoder is the
   Gallina [inflate_prog]; it is what the correspondence check ties
   flate.Reader to, on every run, and what compress/flate and zlib are
   compared with. Theorems here: the decoder's verdict and output are a
   function of the bits it consumed only. *)
From V Require Import Prefix.ReaderImpl Window.Dict Flate.Impl Flate.ImplRel Flate.ImplThms Flate.ImplExamples.
From V Require Import Prefix.Code Prefix.GenPrefixesThms Prefix.DecTable Prefix.DecTableSpec Prefix.DecTableThms Prefix.DecCanonThms.
From V Require Import Window.Dict Window.DictSpec Window.DictThms.
From V Require Import Base.DepthThms Flate.Depth XFlate.Reader XFlate.RoundTripStmt Flate.Compose.
From V Require Import Base.Prelude Base.Prog Base.ProgThms Flate.Spec Flate.Thms Flate.Safe Flate.Fuel Flate.Canon Flate.CanonLink Base.FuelThms.

(* the decoder cannot look at its source except bit by bit, in order *)
Theorem flate_decoder_is_local : forall d, eof_free (inflate_prog d).
Proof. exact inflate_eof_free. Qed.
Print Assumptions flate_decoder_is_local.

(* acceptance / rejection, the delivered bytes and the consumed length do
   not depend on what follows the stream *)
Theorem flate_trailing_bytes_ignored : forall d input trailer,
  res_err (inflate_d d input) <> Some EUEOF ->
  res_err (inflate_d d (input ++ trailer)) = res_err (inflate_d d input) /\
  res_out (inflate_d d (input ++ trailer)) = res_out (inflate_d d input) /\
  res_pos (inflate_d d (input ++ trailer)) = res_pos (inflate_d d input).
Proof. exact inflate_trailing. Qed.
Print Assumptions flate_trailing_bytes_ignored.

(* never a wrong byte on a cut stream: exactly EUEOF, output a prefix *)
Theorem flate_cut_never_misread : forall d input cut rest,
  input = cut ++ rest ->
  res_err (inflate_d d input) <> Some EUEOF ->
  8 * N.of_nat (length cut) < res_pos (inflate_d d input) ->
  res_err (inflate_d d cut) = Some EUEOF /\
  prefix_of (res_out (inflate_d d cut)) (res_out (inflate_d d input)).
Proof. exact inflate_truncated. Qed.
Print Assumptions flate_cut_never_misread.

(* TOTALITY of the RFC 1951 decoder model: on EVERY input the decoder, with the loop budget
   [inflate] itself chooses, ends in success, UnexpectedEOF or Corrupted - never in a panic
   (window copy out of range), never with its loop budget exhausted (every continuing loop
   iteration consumes an input bit; complete codes have no zero length, so no decoding tree
   is a bare leaf), never with Invalid/Internal. *)
Theorem flate_decoder_total : forall input,
  match ir_err (inflate input) with
  | None => True
  | Some e => e = EUEOF \/ e = ECorrupted
  end.
Proof. exact inflate_total. Qed.
Print Assumptions flate_decoder_total.

(* every tree the decoder accepts decodes exactly the canonical code of RFC 1951 3.2.2:
   each symbol's code word, followed by anything, is decoded to that symbol, consuming
   exactly the word ... *)
Theorem flate_tree_decodes_canonical_code : forall lens fake t s l c rest pos out len,
  (2 <= length lens)%nat -> NoDup (map fst lens) ->
  build_tree lens fake = Some t ->
  In (s, l, c) (canonical lens) ->
  c < 2 ^ l /\
  run (sym_tree t) (mkAst (msb_bits (N.to_nat l) c ++ rest) pos out len)
  = Done (Some s) (mkAst rest (pos + l) out len).
Proof. exact decoder_tree_decodes_canonical_code. Qed.
Print Assumptions flate_tree_decodes_canonical_code.

(* ... and is complete: every long enough bit string decodes to a symbol of the code *)
Theorem flate_tree_is_complete : forall lens fake t bits pos out len,
  (2 <= length lens)%nat -> NoDup (map fst lens) ->
  build_tree lens fake = Some t ->
  (N.to_nat (max_len lens) <= length bits)%nat ->
  exists s rest,
    run (sym_tree t) (mkAst bits pos out len)
    = Done (Some s) (mkAst rest (pos + N.of_nat (length bits - length rest)) out len) /\
    In s (map fst lens).
Proof. exact decoder_tree_is_complete. Qed.
Print Assumptions flate_tree_is_complete.

(* the length lists a dynamic block header yields have pairwise different symbols (the
   NoDup hypothesis above is met by what the header parser produces) *)
Theorem flate_header_lists_have_distinct_symbols : forall tree maxSyms numLit,
  post (fun lens =>
          NoDup (map fst (filter (fun sl => fst sl <? numLit) lens)) /\
          NoDup (map fst (map (fun sl => (fst sl - numLit, snd sl))
                              (filter (fun sl => negb (fst sl <? numLit)) lens))))
       (loop 10 (clen_body tree maxSyms) (mkClst 0 0 [])).
Proof. exact header_lists_nodup. Qed.
Print Assumptions flate_header_lists_have_distinct_symbols.

(* the loop budget is irrelevant: any budget at least the one [inflate] chooses gives the
   same run (a budget can only be exhausted, never change a verdict) *)
Theorem flate_decoder_budget_irrelevant : forall input d,
  (depth_for (length input) <= d)%nat ->
  run (inflate_prog d) (ast_init (bytes_to_bits input)) =
  run (inflate_prog (depth_for (length input))) (ast_init (bytes_to_bits input)).
Proof. exact inflate_any_depth. Qed.
Print Assumptions flate_decoder_budget_irrelevant.

(* history independence: what a stream decodes to on its own (success, UnexpectedEOF) it
   decodes to on top of ANY older output, at any byte-aligned position - a back-reference
   that stays inside the stream's own output never sees the older bytes *)
Theorem flate_decoding_independent_of_older_history : forall depth bits pos0 out0 r,
  pos0 mod 8 = 0 ->
  run (inflate_prog depth) (ast_init bits) = r -> hgood r ->
  run (inflate_prog depth) (mkAst bits pos0 out0 (N.of_nat (length out0))) =
  shift_result pos0 out0 r.
Proof. exact inflate_prog_history. Qed.
Print Assumptions flate_decoding_independent_of_older_history.

(* THE SLIDING WINDOW, implementation level (flate/dict_decoder.go: lazily grown buffer
   4096 -> x4 -> size, wrap-around, the two phases of WriteCopy, TryWriteCopy; model run against
   the real dictDecoder on scripted histories on every run): for every window size, every
   recycled buffer (any contents, any capacity) and every history that follows the caller
   protocol of reader.go, no panic and every observation - copy counts, flushed bytes, HistSize,
   AvailSize - is the abstract LZ77 specification's *)
Theorem flate_window_refines_lz77 : forall size recycled ops st0,
  size_ok size -> dd_init size recycled = Ok st0 -> proto st0 ops ->
  exists obs st' s', dd_run st0 ops = (map Ok obs, st') /\
                     wsp_run (wsp_init size) ops (map Ok obs) = Some s' /\ Inv st' s'.
Proof. exact dict_refines. Qed.
Print Assumptions flate_window_refines_lz77.

(* TABLE DECODING = CANONICAL CODE: for every complete length assignment (what the block header
   parser accepts) the two-level table built by prefix.Decoder.Init from the bit-reversed RFC 1951
   canonical codes - whatever the recycled arrays held - decodes every canonical code word,
   followed by any bits, to its symbol and length *)
Theorem flate_decoder_tables_decode_the_canonical_code : forall lens L oldC oldL,
  lens_pos lens -> complete lens = true -> (2 <= length lens)%nat -> max_len lens <= L -> L <= 31 ->
  exists d, dec_init oldC oldL (canon_codes lens) = IOk d /\ tables_ok (canon_codes lens) d /\
    forall s l c rest, In (s, l, c) (canonical lens) ->
      dec_lookup d (reverse_bits c l + 2 ^ l * rest) = Some (s mod 2 ^ 27, l).
Proof. exact canon_table_decodes. Qed.
Print Assumptions flate_decoder_tables_decode_the_canonical_code.

(* THE PROPERTY AT IMPLEMENTATION LEVEL. [Flate/Impl.v] is a model of flate.Reader itself - the
   Read loop with toRead and the error latch, readBlockHeader / readRawData / readBlock
   (resumable) / finishBlock, ReadPrefixCodes with the code-length-code compaction, the
   degenerate single-code rule and the MinBits adjustment, the Try* fast paths - composed of
   the bit reader model, the decoder-table model and the window model, and run against the
   real Reader PER Read CALL (bytes, error, InputOffset, OutputOffset, source position) on
   every run (WFLIMPL). For EVERY input, every script of a Peek-capable source, a fresh Reader
   or one Reset after ANY earlier use (recycled window and tables), and EVERY schedule of Read
   buffer sizes: the bytes delivered are a prefix of the RFC 1951 model's output at every
   moment, no call panics, and when an error is returned the output IS the RFC model's, the
   error is io.EOF exactly when the RFC model accepts and otherwise the RFC model's class, and
   on success InputOffset and the source position are exactly the stream's length *)
Theorem flate_reader_refines_rfc1951_on_buffered_sources :
  forall data fills reads st0 sched obs fin,
  bytes_lt256 data -> start_state data true fills reads st0 -> fl_run st0 sched = (obs, fin) ->
  let res := Flate.Spec.inflate data in
  let out := concat_bytes obs in
  prefix_of out (Flate.Spec.ir_out res) /\
  Forall (fun o => fo_err o <> Some EPanic /\ fo_err o <> Some EFuel) obs /\
  f_outOff fin = zlen out /\
  (forall e, run_err obs = Some e ->
     out = Flate.Spec.ir_out res /\
     (e = EEOF <-> Flate.Spec.ir_err res = None) /\
     (forall x, Flate.Spec.ir_err res = Some x -> e = x) /\
     (Flate.Spec.ir_err res = None ->
        f_inOff fin = Z.of_N (Flate.Spec.ir_used res) /\
        s_pos (p_src (f_rd fin)) = N.to_nat (Flate.Spec.ir_used res))).
Proof. exact flate_impl_refines_buffered. Qed.
Print Assumptions flate_reader_refines_rfc1951_on_buffered_sources.

(* on EVERY source kind a stream the RFC model accepts is decoded to exactly its output, ends in
   io.EOF, and the source is advanced by exactly the stream's bytes (no over-consumption) *)
Theorem flate_reader_decodes_every_valid_stream_exactly :
  forall data bf fills reads st0 sched obs fin,
    bytes_lt256 data -> start_state data bf fills reads st0 -> fl_run st0 sched = (obs, fin) ->
    Flate.Spec.ir_err (Flate.Spec.inflate data) = None ->
    forall e, run_err obs = Some e ->
      e = EEOF /\ concat_bytes obs = Flate.Spec.ir_out (Flate.Spec.inflate data) /\
      f_inOff fin = Z.of_N (Flate.Spec.ir_used (Flate.Spec.inflate data)) /\
      s_pos (p_src (f_rd fin)) = N.to_nat (Flate.Spec.ir_used (Flate.Spec.inflate data)) /\
      f_outOff fin = zlen (concat_bytes obs).
Proof. exact flate_impl_refines_rfc1951_valid. Qed.
Print Assumptions flate_reader_decodes_every_valid_stream_exactly.

(* on a ReadByte-only source: never a wrong byte, success exactly as the RFC model; on an
   invalid stream the class is the RFC model's OR UnexpectedEOF after a prefix - the known
   finding D10, which is exactly the gap between this theorem and the one above ... *)
Theorem flate_reader_on_bytereader_sources :
  forall data fills reads st0 sched obs fin,
  bytes_lt256 data -> start_state data false fills reads st0 -> fl_run st0 sched = (obs, fin) ->
  let res := Flate.Spec.inflate data in
  let out := concat_bytes obs in
  prefix_of out (Flate.Spec.ir_out res) /\
  Forall (fun o => fo_err o <> Some EPanic /\ fo_err o <> Some EFuel) obs /\
  f_outOff fin = zlen out /\
  (forall e, run_err obs = Some e ->
     (e = EEOF <-> Flate.Spec.ir_err res = None) /\
     (Flate.Spec.ir_err res = None ->
        out = Flate.Spec.ir_out res /\ f_inOff fin = Z.of_N (Flate.Spec.ir_used res) /\
        s_pos (p_src (f_rd fin)) = N.to_nat (Flate.Spec.ir_used res)) /\
     (forall x, Flate.Spec.ir_err res = Some x ->
        (e = x /\ out = Flate.Spec.ir_out res) \/ e = EUEOF)).
Proof. exact flate_impl_refines_bytereader. Qed.
Print Assumptions flate_reader_on_bytereader_sources.
