(* C01 — flate.Reader is exactly RFC 1951. The RFC 1951 decoder is the
   Gallina [inflate_prog]; it is what the correspondence check ties
   flate.Reader to, on every run, and what compress/flate and zlib are
   compared with. Theorems here: the decoder's verdict and output are a
   function of the bits it consumed only. *)
From V Require Import Base.Prelude Base.Prog Base.ProgThms Flate.Spec Flate.Thms.

(* the decoder cannot look at its source except bit by bit, in order *)
Theorem flate_decoder_is_local : forall d, eof_free (inflate_prog d).
Proof. exact inflate_eof_free. Qed.
Print Assumptions flate_decoder_is_local.

(* acceptance / rejection, the delivered bytes and the consumed length do
   not depend on what follows the stream *)
Theorem flate_trailing_bytes_ignored : forall d input trailer,
  res_err (inflate_d d input) <> Some EUEOF ->
  res_err (inflate_d d (input ++ trailer)) = res_err (inflate_d d input) /\
  res_out (inflate_d d (input ++ trailer)) = res_out (inflate_d d input) /\
  res_pos (inflate_d d (input ++ trailer)) = res_pos (inflate_d d input).
Proof. exact inflate_trailing. Qed.
Print Assumptions flate_trailing_bytes_ignored.

(* never a wrong byte on a cut stream: exactly EUEOF, output a prefix *)
Theorem flate_cut_never_misread : forall d input cut rest,
  input = cut ++ rest ->
  res_err (inflate_d d input) <> Some EUEOF ->
  8 * N.of_nat (length cut) < res_pos (inflate_d d input) ->
  res_err (inflate_d d cut) = Some EUEOF /\
  prefix_of (res_out (inflate_d d cut)) (res_out (inflate_d d input)).
Proof. exact inflate_truncated. Qed.
Print Assumptions flate_cut_never_misread.
