(* C16 — meta encoding. Property theorems only; proofs live in Meta/Thms.v. *)
From V Require Import Meta.Accept.
From V Require Import Flate.Spec XFlate.Reader XFlate.RoundTripStmt Meta.Stream Meta.Search Meta.Deflate Meta.DeflateStream.
From V Require Import Base.Prelude Base.Prog Meta.Model Meta.Thms.
From V Require Import Meta.RoundTrip.

(* payloads of up to 22 bytes always fit one block *)
Theorem meta_22_fits : forall buf final,
  (length buf <= 22)%nat -> encode_block buf final <> None.
Proof. exact meta_22_fits_lemma. Qed.
Print Assumptions meta_22_fits.

(* ... and 22 is tight *)
Theorem meta_23_tight : exists buf, length buf = 23%nat /\ encode_block buf FinalNil = None.
Proof. exact meta_23_may_not_fit. Qed.
Print Assumptions meta_23_tight.

(* the emitted blocks depend only on the concatenated payload, not on how it
   was split over Write calls *)
Theorem meta_split_independent : forall parts : list (list byte),
  fold_left wwrite parts ([], []) = wwrite ([], []) (concat parts).
Proof. exact meta_writer_split_independent. Qed.
Print Assumptions meta_split_independent.

(* the Writer never hands encodeBlock a buffer that does not fit *)
Theorem meta_writer_buffer_fits : forall buf b,
  buf_fits buf -> (length buf <= 31)%nat -> fits_with buf b = true -> buf_fits (buf ++ [b]).
Proof. exact fits_with_sound. Qed.
Print Assumptions meta_writer_buffer_fits.

(* LOSSLESS, for EVERY payload and final mode: whatever block the encoder produces, the
   decoder - started at any byte-aligned position of any stream - returns exactly the
   payload and the mode and stops exactly at the end of the block. The heart of the proof
   is the decoder's rolling 8-bit window never becoming zero on encoder output (a zero run
   emits at most three one-bit zero symbols before a prefixed symbol). *)
Theorem meta_block_decodes_to_payload_and_mode : forall buf final bits,
  (forall b, In b buf -> b < 256) ->
  encode_block_bits buf final = Some bits ->
  forall rest pos out len,
    pos mod 8 = 0 ->
    run decode_block (mkAst (bits ++ rest) pos out len)
    = Done (BBlock buf final) (mkAst rest (pos + N.of_nat (length bits)) out len).
Proof. exact meta_block_roundtrip. Qed.
Print Assumptions meta_block_decodes_to_payload_and_mode.

(* SIZE-BOUNDED and byte-aligned: every block is 12 to 64 bytes *)
Theorem meta_block_is_12_to_64_bytes : forall buf final bits,
  (forall b, In b buf -> b < 256) ->
  encode_block_bits buf final = Some bits ->
  (12 * 8 <= length bits <= 64 * 8)%nat.
Proof. exact meta_block_size. Qed.
Print Assumptions meta_block_is_12_to_64_bytes.

Theorem meta_block_is_whole_bytes : forall buf final bits,
  (forall b, In b buf -> b < 256) ->
  encode_block_bits buf final = Some bits ->
  N.of_nat (length bits) mod 8 = 0.
Proof. exact meta_block_length_aligned. Qed.
Print Assumptions meta_block_is_whole_bytes.

(* LOSSLESS for whole payloads: the Writer never fails on a byte payload (it never hands
   encodeBlock a buffer that does not fit) ... *)
Theorem meta_writer_never_fails : meta_encode_total_stmt.
Proof. exact meta_encode_total. Qed.
Print Assumptions meta_writer_never_fails.

(* ... and the Reader over the Writer's output - all blocks of a payload of ANY length,
   followed by anything when the last block carries a final mode - returns exactly the
   payload, the mode, the number of blocks and the bytes consumed. (The premise on the
   encoded length is the decoder MODEL's loop budget of 2^40 blocks; the Go loop has none.) *)
Theorem meta_stream_decodes_to_payload_and_mode : meta_stream_roundtrip_stmt.
Proof. exact meta_stream_roundtrip. Qed.
Print Assumptions meta_stream_decodes_to_payload_and_mode.

(* a payload of up to 22 bytes is ONE block (what the XFLATE footer relies on) *)
Theorem meta_small_payload_is_one_block : meta_small_single_block_stmt.
Proof. exact meta_small_single_block. Qed.
Print Assumptions meta_small_payload_is_one_block.

(* BACKWARD COMPATIBLE: for EVERY payload and mode, the RFC 1951 decoder model reads a meta
   block - at any position, after any history, followed by anything - as ONE dynamic-Huffman
   block that produces no output and ends exactly at the end of the block, with the final
   bit set iff the mode is FinalStream *)
Theorem meta_block_is_an_empty_deflate_block : meta_block_is_empty_deflate_stmt.
Proof. exact meta_block_is_empty_deflate. Qed.
Print Assumptions meta_block_is_an_empty_deflate_block.

(* whole payloads: with FinalNil / FinalMeta a sequence of complete non-final blocks without
   output; with FinalStream a complete DEFLATE stream without output, whatever follows *)
Theorem meta_payload_is_nonfinal_empty_deflate_blocks : meta_nonfinal_blocks_stmt.
Proof. exact meta_nonfinal_blocks. Qed.
Print Assumptions meta_payload_is_nonfinal_empty_deflate_blocks.

Theorem meta_final_stream_payload_is_a_complete_empty_deflate_stream : meta_footer_chunk_stmt.
Proof. exact meta_footer_chunk. Qed.
Print Assumptions meta_final_stream_payload_is_a_complete_empty_deflate_stream.

(* SELF-LOCATING: in any byte string that ends with one encoded block, ReverseSearch returns
   exactly the start of that block - the magic matches at the block's first byte and at NO
   later offset inside it (header zero runs, symbol body, trailer and the zero extension past
   the end all considered), for every payload and mode *)
Theorem meta_reverse_search_finds_the_trailing_block : reverse_search_finds_block_stmt.
Proof. exact reverse_search_finds_block. Qed.
Print Assumptions meta_reverse_search_finds_the_trailing_block.

(* THE CONVERSE: whatever the meta decoder ACCEPTS - not only what the encoder writes - is, for
   the RFC 1951 decoder model, an empty block ending at the same bit, final iff FinalStream,
   at any position and after any history *)
Theorem meta_accepted_block_is_an_empty_deflate_block :
  forall depth bits pos out len buf final s',
    run decode_block (mkAst bits pos out len) = Done (BBlock buf final) s' ->
    a_out s' = out /\ a_len s' = len /\ a_pos s' mod 8 = 0 /\
    (exists c, bits = c ++ a_in s' /\ c <> [] /\ a_pos s' = pos + N.of_nat (length c)) /\
    forall out2 len2,
      run (one_block depth) (mkAst bits pos out2 len2) =
      Done (fmode_eqb final FinalStream) (mkAst (a_in s') (a_pos s') out2 len2).
Proof. exact meta_accept_block_is_empty_deflate. Qed.
Print Assumptions meta_accepted_block_is_an_empty_deflate_block.

From V Require Meta.ReaderImpl Meta.ReaderImplSim Meta.ReaderImplThms.
Module MetaReaderImplA.
Import Base.Prelude Base.Prog Flate.Impl Flate.ImplRel Meta.Model Meta.Stream Meta.ReaderImpl Meta.ReaderImplSim Meta.ReaderImplThms.
(* meta.Reader ITSELF at implementation level (Meta/ReaderImpl.v: Read loop, decodeBlock over the
   bit-reader model on both source kinds, the temporary bit writer, errors.Recover and the deferred
   Flush, FinalMode, the counters; compared with the real Reader PER CALL: WMETAR) refines the
   decoder of Meta/Model.v for every input, source kind and script and every schedule of Read
   sizes: delivered bytes = the specification's output (also when it fails), io.EOF exactly when it
   accepts, otherwise ITS error class - the classes never differ on any source kind -, FinalMode
   and NumBlocks are the specification's, and InputOffset = source position = the end of the final
   block: nothing beyond it is consumed *)
Theorem meta_reader_implementation_refines_model : forall data bf fills reads sched obs fin,
  bytes_lt256 data -> N.of_nat (length data) < 2 ^ 42 ->
  rd_run (mr_new data bf fills reads) sched = (obs, fin) ->
  let res := meta_decode data in
  prefix_of (delivered obs) (mr_payload res) /\
  forall e, run_err obs = Some e ->
    delivered obs = mr_payload res /\
    (e = EEOF <-> mr_err res = None) /\
    (forall x, mr_err res = Some x -> e = x) /\
    (mr_err res = None ->
       m_FinalMode fin = mr_final res /\ m_nblocks fin = Z.of_N (mr_blocks res) /\
       m_inOff fin = Z.of_N (mr_used res) /\ src_pos fin = N.to_nat (mr_used res)).
Proof. exact meta_reader_refines_meta_decode. Qed.
Print Assumptions meta_reader_implementation_refines_model.
End MetaReaderImplA.
