(* C16 — meta encoding. Property theorems only; proofs live in Meta/Thms.v. *)
From V Require Import Base.Prelude Base.Prog Meta.Model Meta.Thms.

(* payloads of up to 22 bytes always fit one block *)
Theorem meta_22_fits : forall buf final,
  (length buf <= 22)%nat -> encode_block buf final <> None.
Proof. exact meta_22_fits_lemma. Qed.
Print Assumptions meta_22_fits.

(* ... and 22 is tight *)
Theorem meta_23_tight : exists buf, length buf = 23%nat /\ encode_block buf FinalNil = None.
Proof. exact meta_23_may_not_fit. Qed.
Print Assumptions meta_23_tight.

(* the emitted blocks depend only on the concatenated payload, not on how it
   was split over Write calls *)
Theorem meta_split_independent : forall parts : list (list byte),
  fold_left wwrite parts ([], []) = wwrite ([], []) (concat parts).
Proof. exact meta_writer_split_independent. Qed.
Print Assumptions meta_split_independent.

(* the Writer never hands encodeBlock a buffer that does not fit *)
Theorem meta_writer_buffer_fits : forall buf b,
  buf_fits buf -> (length buf <= 31)%nat -> fits_with buf b = true -> buf_fits (buf ++ [b]).
Proof. exact fits_with_sound. Qed.
Print Assumptions meta_writer_buffer_fits.
