(* C10 — the decoded stream does not depend on the Read sizes. Model:
   Life/ReadLoop.v, the Read wrapper over ANY decoder program (flate, brotli,
   bzip2 and meta decoders are such programs), with [Inv] holding for the
   freshly opened reader. *)
From V Require Import Prefix.ReaderImpl Window.Dict Flate.Impl Flate.ImplRel Flate.ImplThms Flate.ImplExamples.
From V Require Import Prefix.ReaderImpl Prefix.ReaderSpec Prefix.ReaderThms.
From V Require Import XFlate.Index XFlate.Reader XFlate.Refine XFlate.Sequential.
From V Require Import Base.Prelude Base.Prog Life.ReadLoop.

(* every Read keeps the reader consistent with the one-shot decode *)
Theorem read_keeps_invariant : forall wrap v p0 s0 r n,
  Inv wrap p0 s0 r -> Inv wrap p0 s0 (snd (read wrap v r n)).
Proof. exact read_inv. Qed.
Print Assumptions read_keeps_invariant.

Theorem fresh_reader_invariant : forall wrap p0 s0, a_out s0 = [] -> Inv wrap p0 s0 (rd_init p0 s0).
Proof. exact inv_init. Qed.
Print Assumptions fresh_reader_invariant.

(* whatever the schedule (zero-length buffers anywhere), the bytes delivered
   so far are a prefix of the one-shot output and OutputOffset counts them *)
Theorem delivered_prefix_any_schedule : forall wrap p0 s0 r,
  Inv wrap p0 s0 r ->
  N.of_nat (length (delivered r)) = outoff r /\ prefix_of (delivered r) (total_out p0 s0).
Proof. exact delivered_is_prefix. Qed.
Print Assumptions delivered_prefix_any_schedule.

(* a schedule that ends with an error report has delivered exactly the
   one-shot output and reports the one-shot outcome: identical for all
   schedules *)
Theorem read_schedule_independent : forall wrap v p0 s0 r sched n,
  Inv wrap p0 s0 r ->
  let '(obs, r1) := reads wrap v r sched in
  let '((c, e), r2) := read wrap v r1 n in
  forall x, e = Some x ->
    x = total_err wrap p0 s0 /\
    delivered r ++ concat (map fst obs) ++ c = total_out p0 s0.
Proof. exact reads_complete. Qed.
Print Assumptions read_schedule_independent.

(* zero-length reads lose nothing *)
Theorem zero_length_read_loses_nothing : forall wrap v p0 s0 r,
  Inv wrap p0 s0 r ->
  let '((c, e), r') := read wrap v r 0 in c = [] /\ delivered r' = delivered r.
Proof. exact read_zero_loses_nothing. Qed.
Print Assumptions zero_length_read_loses_nothing.

(* xflate.Reader: on an honest stream (hypothesis of C07's theorem), sequential reading with
   ANY sequence of buffer lengths (zero included) delivers in total the prefix of the content
   of the total length asked *)
Theorem xflate_sequential_reads_any_buffer_sizes : forall data content s1 ns,
  open_reader data = inr s1 ->
  honest data (r_recs s1) content ->
  XFlate.Sequential.delivered (fst (XFlate.Reader.rrun s1 (map RRead ns))) =
  firstn (Z.to_nat (XFlate.Sequential.total ns)) content.
Proof. exact xflate_sequential_reads_any_schedule. Qed.
Print Assumptions xflate_sequential_reads_any_buffer_sizes.

(* The implementation-level model of prefix.Reader (64-bit buffer, wide loads with
   look-ahead bits, Peek/Discard bookkeeping, Flush, raw Read after repair D5; validated
   against the real Reader over scripted sources on every run) REFINES the abstract bit
   stream: for every data, both bit orders, every script of the source's freedoms (how much
   more than asked it buffers, how much a raw Read returns) and every sequence of ReadBits
   (<= 57 bits) / ReadPads / raw Read / Flush: every value is the value of the next bits of
   the stream, BitsRead is the abstract position, a raw Read returns the bytes at the
   aligned position, and after a Flush the source has been advanced over exactly the bytes
   that hold the bits read (no over-consumption). Same for a ReadByte-only source. *)
Theorem bit_reader_independent_of_source_script_buffered : reader_refines_buffered.
Proof. exact reader_refines_buffered_holds. Qed.
Print Assumptions bit_reader_independent_of_source_script_buffered.

Theorem bit_reader_independent_of_source_script_bytereader : reader_refines_bytereader.
Proof. exact reader_refines_bytereader_holds. Qed.
Print Assumptions bit_reader_independent_of_source_script_bytereader.

(* flate.Reader at implementation level (model Flate/Impl.v, tied per Read call to the code):
   for EVERY input, EVERY schedule of Read buffer sizes (zero lengths included), every source
   script and both source kinds, the delivered bytes are a prefix of ONE fixed byte string (the
   RFC 1951 output) and, when an error is returned, the whole of it on Peek-capable sources:
   independent of schedule and fragmentation. The class is the RFC model's on every
   Peek-capable source ... *)
Theorem flate_reader_independent_of_schedule_and_source_script :
  forall data fills reads st0 sched obs fin,
  bytes_lt256 data -> start_state data true fills reads st0 -> fl_run st0 sched = (obs, fin) ->
  let res := Flate.Spec.inflate data in
  let out := concat_bytes obs in
  prefix_of out (Flate.Spec.ir_out res) /\
  Forall (fun o => fo_err o <> Some EPanic /\ fo_err o <> Some EFuel) obs /\
  f_outOff fin = zlen out /\
  (forall e, run_err obs = Some e ->
     out = Flate.Spec.ir_out res /\
     (e = EEOF <-> Flate.Spec.ir_err res = None) /\
     (forall x, Flate.Spec.ir_err res = Some x -> e = x) /\
     (Flate.Spec.ir_err res = None ->
        f_inOff fin = Z.of_N (Flate.Spec.ir_used res) /\
        s_pos (p_src (f_rd fin)) = N.to_nat (Flate.Spec.ir_used res))).
Proof. exact flate_impl_refines_buffered. Qed.
Print Assumptions flate_reader_independent_of_schedule_and_source_script.

(* ... and the statement WITHOUT an exception for ReadByte-only sources is FALSE of the model
   of the Go code - refuted inside Coq by running model and RFC decoder on the 140-byte
   witness of known finding D10 (class UnexpectedEOF versus Corrupted) *)
Theorem flate_class_depends_on_source_kind_D10 : ~ flate_impl_refines_rfc1951_statement.
Proof. exact flate_impl_refines_rfc1951_refuted. Qed.
Print Assumptions flate_class_depends_on_source_kind_D10.

(* KNOWN FINDING D11 inside Coq: the implementation-level model of bzip2.Reader (Bzip2/Impl.v,
   per-call correspondence WBZIMPL) on the 32-byte witness: libbzip2 (the port) reports a data
   error, and so does the Reader over a source that has everything buffered; over a ReadByte-only
   source the Reader reports io.ErrUnexpectedEOF - the error class depends on the source kind *)
From V Require Bzip2.Impl Bzip2.ImplExamples.
Module D11.
Import Bzip2.Common Bzip2.SpecR Bzip2.Impl Bzip2.ImplExamples.
Theorem bzip2_class_depends_on_source_kind_D11 :
  bz_err (bzip2_decode ex_over_request) = Some ECorrupted /\
  map (fun o => (bo_bytes o, bo_err o))
      (fst (bz_run (bz_new ex_over_request true [100%nat; 100%nat; 100%nat] []) [4096]%nat))
    = [([], Some ECorrupted)] /\
  map (fun o => (bo_bytes o, bo_err o))
      (fst (bz_run (bz_new ex_over_request false [] []) [4096]%nat))
    = [([], Some EUEOF)].
Proof.
  exact (conj ex_over_request_spec (conj ex_over_request_buffered ex_over_request_bytereader)).
Qed.
Print Assumptions bzip2_class_depends_on_source_kind_D11.
End D11.

From V Require Meta.ReaderImpl Meta.ReaderImplSim Meta.ReaderImplThms.
Module MetaReaderImplB.
Import Base.Prelude Base.Prog Flate.Impl Flate.ImplRel Meta.Model Meta.Stream Meta.ReaderImpl Meta.ReaderImplSim Meta.ReaderImplThms.
(* meta.Reader at implementation level: the delivered bytes and the final error class depend
   neither on the Read sizes nor on the source (kind, script) *)
Theorem meta_reader_is_schedule_independent :
  forall data bf1 fills1 reads1 sched1 obs1 fin1 bf2 fills2 reads2 sched2 obs2 fin2,
  bytes_lt256 data ->
  rd_run (mr_new data bf1 fills1 reads1) sched1 = (obs1, fin1) ->
  rd_run (mr_new data bf2 fills2 reads2) sched2 = (obs2, fin2) ->
  (prefix_of (delivered obs1) (delivered obs2) \/ prefix_of (delivered obs2) (delivered obs1) \/
   exists o, prefix_of (delivered obs1) o /\ prefix_of (delivered obs2) o) /\
  forall e1 e2, run_err obs1 = Some e1 -> run_err obs2 = Some e2 ->
    delivered obs1 = delivered obs2 /\ e1 = e2 /\
    (e1 = EEOF -> m_FinalMode fin1 = m_FinalMode fin2 /\ m_nblocks fin1 = m_nblocks fin2 /\
                  m_inOff fin1 = m_inOff fin2 /\ src_pos fin1 = src_pos fin2).
Proof. exact meta_reader_schedule_independent. Qed.
Print Assumptions meta_reader_is_schedule_independent.
End MetaReaderImplB.
