(* C04 — bzip2.Writer output. The encoder model Bzip2.SpecW.bzip2_encode
   reproduces bzip2.Writer byte for byte (checked on every run); it is a
   function of (level, data) only, so in the model split independence holds
   by construction; what is proved here are round trips through the two
   models on concrete inputs. *)
From V Require Import Base.Prelude Base.Prog Bzip2.Common Bzip2.SpecR Bzip2.SpecW Bzip2.Thms Bzip2.Rle1.

Theorem bzip2_roundtrip_witness_text :
  bzip2_decode (bzip2_encode 1 hello) = mkBZ None hello (N.of_nat (length (bzip2_encode 1 hello))).
Proof. exact bz_roundtrip_hello. Qed.
Print Assumptions bzip2_roundtrip_witness_text.

Theorem bzip2_roundtrip_witness_empty : bzip2_decode (bzip2_encode 9 []) = mkBZ None [] 14.
Proof. exact bz_roundtrip_empty. Qed.
Print Assumptions bzip2_roundtrip_witness_empty.

Theorem bzip2_roundtrip_witness_runs :
  let d := repeat 7 300 ++ [1;2;3] ++ repeat 9 5 in
  bz_out (bzip2_decode (bzip2_encode 3 d)) = d /\ bz_err (bzip2_decode (bzip2_encode 3 d)) = None.
Proof. exact bz_roundtrip_runs. Qed.
Print Assumptions bzip2_roundtrip_witness_runs.

(* Stage 1 for EVERY input and EVERY block size L >= 1: the block that the Writer's
   run-length stage (with its block-full rules) stores is expanded by the Reader's stage to
   exactly the input bytes consumed; both CRC registers agree; the block fits; a non-empty
   input makes progress; the decoder never ends in the rejected "four equal bytes, no count"
   state. *)
Theorem bzip2_rle1_block_roundtrip : forall L data block crc rest,
  1 <= L ->
  rle1_fill L data [] 0 0 0 crc_init = (block, crc, rest) ->
  exists consumed,
    data = consumed ++ rest /\
    (data <> [] -> consumed <> []) /\
    N.of_nat (length block) <= L /\
    crc = fold_left crc_step consumed crc_init /\
    forall s, run (rle1_emit block 0 0 crc_init) s = Done crc (push_out s consumed).
Proof. exact rle1_block_roundtrip. Qed.
Print Assumptions bzip2_rle1_block_roundtrip.

(* the Writer's block loop is a fold of the later stages over [rle1_blocks] ... *)
Theorem bzip2_block_loop_is_fold : forall L fuel data combined acc,
  encode_blocks fuel L data combined acc =
  fold_left (fun st bc => (crc_combine (fst st) (crc_final (snd bc)),
                           encode_block (fst bc) (crc_final (snd bc)) (snd st)))
            (rle1_blocks fuel L data) (combined, acc).
Proof. exact encode_blocks_fold. Qed.
Print Assumptions bzip2_block_loop_is_fold.

(* ... and those blocks, expanded, concatenate to the whole input (nothing lost, duplicated
   or reordered at block boundaries, for every input and block size) *)
Theorem bzip2_rle1_blocks_cover_input : forall L, 1 <= L -> forall fuel data,
  (length data < fuel)%nat ->
  concat (map (fun bc => expand_out (fst bc)) (rle1_blocks fuel L data)) = data /\
  Forall (fun bc => N.of_nat (length (fst bc)) <= L /\
                    snd (fst (expand (fst bc) 0 0)) <> 4 /\
                    snd bc = fold_left crc_step (expand_out (fst bc)) crc_init)
         (rle1_blocks fuel L data).
Proof. exact rle1_blocks_cover. Qed.
Print Assumptions bzip2_rle1_blocks_cover_input.
