(* C04 — bzip2.Writer output. The encoder model Bzip2.SpecW.bzip2_encode
   reproduces bzip2.Writer byte for byte (checked on every run); it is a
   function of (level, data) only, so in the model split independence holds
   by construction; what is proved here are round trips through the two
   models on concrete inputs. *)
From V Require Import Prefix.Code Prefix.GenPrefixesThms Prefix.GenLengthsThms Bzip2.LengthsThms Bzip2.LengthsOfCounts.
From V Require Import Base.Prelude Base.Prog Bzip2.Common Bzip2.SpecR Bzip2.SpecW Bzip2.Thms Bzip2.Rle1 Bzip2.MtfRle2.
From V Require Import Bzip2.SortLemmas Bzip2.Bwt.

Theorem bzip2_roundtrip_witness_text :
  bzip2_decode (bzip2_encode 1 hello) = mkBZ None hello (N.of_nat (length (bzip2_encode 1 hello))).
Proof. exact bz_roundtrip_hello. Qed.
Print Assumptions bzip2_roundtrip_witness_text.

Theorem bzip2_roundtrip_witness_empty : bzip2_decode (bzip2_encode 9 []) = mkBZ None [] 14.
Proof. exact bz_roundtrip_empty. Qed.
Print Assumptions bzip2_roundtrip_witness_empty.

Theorem bzip2_roundtrip_witness_runs :
  let d := repeat 7 300 ++ [1;2;3] ++ repeat 9 5 in
  bz_out (bzip2_decode (bzip2_encode 3 d)) = d /\ bz_err (bzip2_decode (bzip2_encode 3 d)) = None.
Proof. exact bz_roundtrip_runs. Qed.
Print Assumptions bzip2_roundtrip_witness_runs.

(* Stage 1 for EVERY input and EVERY block size L >= 1: the block that the Writer's
   run-length stage (with its block-full rules) stores is expanded by the Reader's stage to
   exactly the input bytes consumed; both CRC registers agree; the block fits; a non-empty
   input makes progress; the decoder never ends in the rejected "four equal bytes, no count"
   state. *)
Theorem bzip2_rle1_block_roundtrip : forall L data block crc rest,
  1 <= L ->
  rle1_fill L data [] 0 0 0 crc_init = (block, crc, rest) ->
  exists consumed,
    data = consumed ++ rest /\
    (data <> [] -> consumed <> []) /\
    N.of_nat (length block) <= L /\
    crc = fold_left crc_step consumed crc_init /\
    forall s, run (rle1_emit block 0 0 crc_init) s = Done crc (push_out s consumed).
Proof. exact rle1_block_roundtrip. Qed.
Print Assumptions bzip2_rle1_block_roundtrip.

(* the Writer's block loop is a fold of the later stages over [rle1_blocks] ... *)
Theorem bzip2_block_loop_is_fold : forall L fuel data combined acc,
  encode_blocks fuel L data combined acc =
  fold_left (fun st bc => (crc_combine (fst st) (crc_final (snd bc)),
                           encode_block (fst bc) (crc_final (snd bc)) (snd st)))
            (rle1_blocks fuel L data) (combined, acc).
Proof. exact encode_blocks_fold. Qed.
Print Assumptions bzip2_block_loop_is_fold.

(* ... and those blocks, expanded, concatenate to the whole input (nothing lost, duplicated
   or reordered at block boundaries, for every input and block size) *)
Theorem bzip2_rle1_blocks_cover_input : forall L, 1 <= L -> forall fuel data,
  (length data < fuel)%nat ->
  concat (map (fun bc => expand_out (fst bc)) (rle1_blocks fuel L data)) = data /\
  Forall (fun bc => N.of_nat (length (fst bc)) <= L /\
                    snd (fst (expand (fst bc) 0 0)) <> 4 /\
                    snd bc = fold_left crc_step (expand_out (fst bc)) crc_init)
         (rle1_blocks fuel L data).
Proof. exact rle1_blocks_cover. Qed.
Print Assumptions bzip2_rle1_blocks_cover_input.

(* Stage 3 for EVERY input: the Reader's MTF / zero-run-length decoder inverts the Writer's
   encoder - for every list of values, every dictionary containing them and every block
   limit; the side condition is exact (4194303 equal bytes are refused); every symbol fits
   the alphabet. *)
Theorem bzip2_mtf_rle2_roundtrip : forall vals dict maxn,
  (forall v, In v vals -> In v dict) ->
  N.of_nat (length vals) <= maxn ->
  N.of_nat (length vals) + 1 < 4194304 ->
  mtf_rle2_decode (mtf_rle2_encode vals dict 0 []) dict maxn 1 0 0 [] =
  Some (N.of_nat (length vals), rev vals).
Proof. exact mtf_rle2_roundtrip. Qed.
Print Assumptions bzip2_mtf_rle2_roundtrip.

Theorem bzip2_mtf_rle2_symbols_fit : forall vals dict,
  (forall v, In v vals -> In v dict) ->
  Forall (fun s => s <= N.of_nat (length dict)) (mtf_rle2_encode vals dict 0 []).
Proof. exact mtf_rle2_syms_le. Qed.
Print Assumptions bzip2_mtf_rle2_symbols_fit.

(* with the dictionary the Writer really uses for a block *)
Theorem bzip2_mtf_rle2_roundtrip_for_block_dictionary : forall block bwt maxn,
  bytes_ok block ->
  (forall v, In v bwt -> In v block) ->
  N.of_nat (length bwt) <= maxn -> maxn <= 900000 ->
  let dict := block_dict block in
  mtf_rle2_decode (mtf_rle2_encode bwt dict 0 []) dict maxn 1 0 0 [] =
    Some (N.of_nat (length bwt), rev bwt) /\
  Forall (fun s => s <= N.of_nat (length dict)) (mtf_rle2_encode bwt dict 0 []) /\
  (length dict <= 256)%nat.
Proof. exact mtf_rle2_roundtrip_encode_block. Qed.
Print Assumptions bzip2_mtf_rle2_roundtrip_for_block_dictionary.

(* Stage 2 for EVERY block: the Reader's inverse Burrows-Wheeler transform (counting sort of
   the positions by byte, then the pointer walk from the origin pointer) inverts the Writer's
   transform (rotations sorted, equal rotations by decreasing start - a suffix array of the
   doubled block), periodic blocks included. The bound is the model's own: its merge sort
   runs 64 doubling passes, the format never exceeds 900000 bytes per block. *)
Theorem bzip2_bwt_roundtrip : forall block : list byte,
  block <> [] -> (forall b, In b block -> b < 256) ->
  N.of_nat (length block) <= 2 ^ 64 ->
  let '(out, ptr) := bwt_encode block in
  length out = length block /\ ptr < len_n block /\
  bwt_decode out (len_n block) ptr = block.
Proof. exact bwt_roundtrip. Qed.
Print Assumptions bzip2_bwt_roundtrip.

(* Stages 2 and 3 chained, as encode_block / decode_block use them: BWT, MTF and zero-run
   coding, decoded back to the block for every block the format allows *)
Theorem bzip2_bwt_mtf_rle2_roundtrip : forall (block : list byte) (maxn : N),
  block <> [] -> bytes_ok block -> len_n block <= maxn -> maxn <= 900000 ->
  let '(out, ptr) := bwt_encode block in
  let dict := block_dict block in
  exists nblock tt_rev,
    mtf_rle2_decode (mtf_rle2_encode out dict 0 []) dict maxn 1 0 0 [] = Some (nblock, tt_rev) /\
    (ptr <? nblock) = true /\
    bwt_decode (fast_rev tt_rev) nblock ptr = block.
Proof. exact bwt_mtf_roundtrip. Qed.
Print Assumptions bzip2_bwt_mtf_rle2_roundtrip.

(* Stage 4, the code tables: for EVERY table of symbol counts (2 .. 2^20 symbols; bzip2 has
   at most 258) the lengths the Writer model assigns are within 1..20 - also when the optimal
   Huffman code would be deeper - form a complete code, and GeneratePrefixes accepts them
   with a valid canonical code *)
Theorem bzip2_code_lengths_are_complete_and_at_most_20_bits : forall cnts,
  (2 <= length cnts)%nat -> N.of_nat (length cnts) <= 2 ^ 20 ->
  let n := N.of_nat (length cnts) in
  let ls := lengths_of_counts cnts in
  length ls = length cnts /\
  (forall l, In l ls -> 1 <= l <= 20) /\
  lsumN (fun l => 2 ^ (20 - l)) ls = 2 ^ 20 /\
  exists out, gen_prefixes (combine (iota n) ls) = GPOk out /\ valid_code out /\
              map fst out = combine (iota n) ls.
Proof. exact lengths_of_counts_correct. Qed.
Print Assumptions bzip2_code_lengths_are_complete_and_at_most_20_bits.

(* ---- the whole round trip (Bzip2/BitIO, HuffSels, HuffLens, Huffman, StreamBits,
   BlockRoundTrip, StreamRoundTrip) -------------------------------------------------------- *)
From V Require Import Bzip2.BitIO Bzip2.Huffman Bzip2.BlockRoundTrip Bzip2.StreamRoundTrip.

(* Stage 4, the key lemma: libbzip2's limit/base/perm decoding tables decode the canonical
   code the Writer assigns, for every length vector with lengths in 1..20 and Kraft sum <= 1
   (completeness is not needed), at any position of any stream *)
Theorem bzip2_decoding_tables_invert_canonical_code : forall lens s,
  lens_ok lens -> s < N.of_nat (length lens) ->
  reads (read_symbol (mk_table lens)) (code_bits lens s) s.
Proof. exact read_symbol_correct. Qed.
Print Assumptions bzip2_decoding_tables_invert_canonical_code.

(* Stage 5, one block: what encode_block writes after the block magic is read back by
   decode_block, which returns the stored CRC, consumes exactly these bits and outputs the
   RLE1 expansion *)
Theorem bzip2_block_roundtrip : forall depth level block crcreg consumed,
  (5 <= depth)%nat -> 1 <= level <= 9 ->
  block <> [] -> bytes_ok block -> N.of_nat (length block) <= level * blockSize ->
  crcreg < 2 ^ 32 ->
  (forall s, run (rle1_emit block 0 0 crc_init) s = Done crcreg (push_out s consumed)) ->
  forall rest pos out len,
    run (decode_block depth level) (mkAst (block_bits block (crc_final crcreg) ++ rest) pos out len) =
    Done (crc_final crcreg)
         (push_out (mkAst rest (pos + N.of_nat (length (block_bits block (crc_final crcreg)))) out len)
                   consumed).
Proof. exact decode_block_correct. Qed.
Print Assumptions bzip2_block_roundtrip.

(* C04: bzip2.Writer is lossless.  For EVERY input and every level 1..9 - no size bound -
   the decoder model accepts the encoder model's output, returns the input and consumes
   every byte of the encoding *)
Theorem bzip2_writer_is_lossless : forall level data,
  1 <= level <= 9 -> (forall b, In b data -> b < 256) ->
  bz_err (bzip2_decode (bzip2_encode level data)) = None /\
  bz_out (bzip2_decode (bzip2_encode level data)) = data /\
  bz_used (bzip2_decode (bzip2_encode level data)) = N.of_nat (length (bzip2_encode level data)).
Proof. exact bzip2_roundtrip. Qed.
Print Assumptions bzip2_writer_is_lossless.

(* multi-stream: any non-empty sequence of encodings, concatenated, decodes to the
   concatenation of the inputs *)
Theorem bzip2_concatenated_streams_roundtrip : forall inputs,
  inputs <> [] -> inputs_ok inputs ->
  bzip2_decode (encode_all inputs) =
  mkBZ None (concat (map snd inputs)) (N.of_nat (length (encode_all inputs))).
Proof. exact bzip2_roundtrip_multi. Qed.
Print Assumptions bzip2_concatenated_streams_roundtrip.
