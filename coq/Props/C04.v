(* C04 — bzip2.Writer output. The encoder model Bzip2.SpecW.bzip2_encode
   reproduces bzip2.Writer byte for byte (checked on every run); it is a
   function of (level, data) only, so in the model split independence holds
   by construction; what is proved here are round trips through the two
   models on concrete inputs. *)
From V Require Import Base.Prelude Base.Prog Bzip2.Common Bzip2.SpecR Bzip2.SpecW Bzip2.Thms.

Theorem bzip2_roundtrip_witness_text :
  bzip2_decode (bzip2_encode 1 hello) = mkBZ None hello (N.of_nat (length (bzip2_encode 1 hello))).
Proof. exact bz_roundtrip_hello. Qed.
Print Assumptions bzip2_roundtrip_witness_text.

Theorem bzip2_roundtrip_witness_empty : bzip2_decode (bzip2_encode 9 []) = mkBZ None [] 14.
Proof. exact bz_roundtrip_empty. Qed.
Print Assumptions bzip2_roundtrip_witness_empty.

Theorem bzip2_roundtrip_witness_runs :
  let d := repeat 7 300 ++ [1;2;3] ++ repeat 9 5 in
  bz_out (bzip2_decode (bzip2_encode 3 d)) = d /\ bz_err (bzip2_decode (bzip2_encode 3 d)) = None.
Proof. exact bz_roundtrip_runs. Qed.
Print Assumptions bzip2_roundtrip_witness_runs.
