(* C08 — decoders are total: no panic, no hang, bounded memory. What is
   proved concerns the logic of the models (DESIGN.md: the Go allocator, GC
   and wall time are measured by the harness, not proved). *)
From V Require Import XFlate.Total XFlate.OpenLocality.
From V Require Import Window.Dict Window.DictSpec Window.DictThms Window.DictBr Window.DictBrSpec Window.DictBrThms.
From V Require Import Base.Prelude Base.Prog Flate.Spec Flate.Safe Brotli.Spec Brotli.Safe XFlate.Index XFlate.Reader XFlate.Thms Life.ReadLoop Flate.Safe Flate.Fuel Brotli.Fuel Bzip2.Common Bzip2.SpecR Bzip2.Safe.

(* the index record loop appends at most |payload|/2 records, whatever
   record count the index declares (repair D3) *)
Theorem xflate_index_records_bounded : forall n buf chunks rest,
  read_chunks (S (length buf)) n buf [] = Some (chunks, rest) ->
  (2 * length chunks <= length buf)%nat.
Proof. exact index_records_bounded_by_payload. Qed.
Print Assumptions xflate_index_records_bounded.

(* the pre-repair loop produced as many records as declared, from nothing *)
Theorem xflate_index_prefix_unbounded : forall n buf, length (read_chunks_prefix n buf []) = n.
Proof. exact C08_D3_refuted. Qed.
Print Assumptions xflate_index_prefix_unbounded.

(* every VLI read consumes at least one byte of the payload *)
Theorem vli_read_makes_progress : forall buf v rest,
  read_vli buf = Some (v, rest) -> (length rest < length buf)%nat.
Proof. exact read_vli_shrinks. Qed.
Print Assumptions vli_read_makes_progress.

(* a Read never returns more than the buffer holds, for every decoder
   program and schedule *)
Theorem read_respects_buffer : forall wrap v p0 s0 r n,
  Inv wrap p0 s0 r ->
  let '((c, e), r') := read wrap v r n in
  delivered r' = delivered r ++ c /\ (length c <= n)%nat.
Proof. exact read_appends. Qed.
Print Assumptions read_respects_buffer.

(* the DEFLATE decoder model, for every input and loop budget: it never reaches
   EPanic (a window copy out of range) and fails only with UnexpectedEOF,
   Corrupted or the exhausted loop budget *)
Theorem flate_decoder_never_panics : forall d input,
  match res_err (run (inflate_prog d) (ast_init (bytes_to_bits input))) with
  | Some e => e = EUEOF \/ e = ECorrupted \/ e = EFuel
  | None => True
  end.
Proof. exact inflate_never_panics. Qed.
Print Assumptions flate_decoder_never_panics.

(* the Brotli decoder model, for every static dictionary and every input *)
Theorem brotli_decoder_never_panics : forall dict input,
  br_err (brotli_decode dict input) <> Some EPanic.
Proof. exact brotli_never_panics. Qed.
Print Assumptions brotli_decoder_never_panics.

Theorem brotli_decoder_error_classes : forall dict input,
  match br_err (brotli_decode dict input) with
  | None => True
  | Some e => e = EUEOF \/ e = ECorrupted \/ e = EFuel
  end.
Proof. exact brotli_only_expected_errors. Qed.
Print Assumptions brotli_decoder_error_classes.

(* TOTALITY of the RFC 1951 decoder model: on EVERY input the decoder, with the loop budget
   [inflate] itself chooses, ends in success, UnexpectedEOF or Corrupted - never in a panic
   (window copy out of range), never with its loop budget exhausted (every continuing loop
   iteration consumes an input bit; complete codes have no zero length, so no decoding tree
   is a bare leaf), never with Invalid/Internal. *)
Theorem flate_decoder_terminates_without_panic : forall input,
  match ir_err (inflate input) with
  | None => True
  | Some e => e = EUEOF \/ e = ECorrupted
  end.
Proof. exact inflate_total. Qed.
Print Assumptions flate_decoder_terminates_without_panic.

(* TOTALITY of the RFC 7932 decoder model, for every static dictionary and every input:
   success, UnexpectedEOF or Corrupted - never a panic (window copy out of range), never an
   exhausted loop budget. The command loop needs a real argument: a command may consume no
   input bit at all, progress then lies in the bytes it produces, and a dictionary word can
   be empty only for transforms that a zero-bit distance cannot reach (invariant: the last
   distances never exceed max 16 (min window bytes_produced)). *)
Theorem brotli_decoder_terminates_without_panic : forall dict input,
  match br_err (brotli_decode dict input) with
  | None => True
  | Some e => e = EUEOF \/ e = ECorrupted
  end.
Proof. exact brotli_decode_total. Qed.
Print Assumptions brotli_decoder_terminates_without_panic.

(* TOTALITY of the bzip2 decoder model (libbzip2 port): on every input success,
   UnexpectedEOF, Corrupted or Deprecated (bzip1 header, block randomisation) *)
Theorem bzip2_decoder_terminates : forall input,
  match bz_err (bzip2_decode input) with
  | None => True
  | Some e => e = EUEOF \/ e = ECorrupted \/ e = EDeprecated
  end.
Proof. exact bzip2_decode_total. Qed.
Print Assumptions bzip2_decoder_terminates.

(* memory of the sliding window: the buffer never exceeds max(recycled capacity (4096 when
   none), min(window size, 4 x bytes produced)) - a short stream never allocates the full
   window, whatever window size the stream header declares; flate and brotli windows *)
Theorem flate_window_memory_bounded_by_output : forall size recycled ops st0 obs st',
  size_ok size -> dd_init size recycled = Ok st0 -> proto st0 ops -> no_reinit ops ->
  dd_run st0 ops = (map Ok obs, st') ->
  exists s', wsp_run (wsp_init size) ops (map Ok obs) = Some s' /\
    let c0 := match recycled with None => initSize | Some a => zlen a end in
    let total := zlen (s_out s') in
    (d_cap st' <= Z.max c0 (Z.min size (4 * total)) /\
     d_len st' <= Z.max (Z.min c0 size) (Z.min size (4 * total)))%Z.
Proof. exact dict_memory. Qed.
Print Assumptions flate_window_memory_bounded_by_output.

Theorem brotli_window_memory_bounded_by_output : forall size recycled ops st0 obs st',
  bsize_ok size -> recycled_ok recycled -> br_init size recycled = Ok st0 ->
  br_proto st0 ops -> br_no_reinit ops -> br_run st0 ops = (map Ok obs, st') ->
  exists s', bsp_run (wsp_init size) ops (map Ok obs) = Some s' /\
    let c0 := match recycled with None => initSize | Some a => zlen a end in
    let total := zlen (s_out s') in
    (d_cap st' <= Z.max c0 (Z.min size (4 * total)) /\
     d_len st' <= Z.max (Z.min c0 size) (Z.min size (4 * total)))%Z.
Proof. exact br_memory. Qed.
Print Assumptions brotli_window_memory_bounded_by_output.

(* THE XFLATE READER ON HOSTILE INPUT (no honesty assumption): opening ANY byte string ends in
   a Reader or in Corrupted / UnexpectedEOF - never a panic, never an exhausted loop budget
   (the backward index walk strictly descends by at least 4 bytes per index) ... *)
Theorem xflate_open_is_total : forall data, (flen data < 2 ^ 42)%N ->
  match open_reader data with inl e => e = ECorrupted \/ e = EUEOF | inr _ => True end.
Proof. exact open_reader_total. Qed.
Print Assumptions xflate_open_is_total.

(* ... and on every stream it opened, every history of Seek / Read / Close ends each call in a
   documented class; the Read loop's budget suffices whatever the index claims (the decoded
   table is always sorted because AppendRecord refuses overflow) *)
Theorem xflate_reader_is_total : forall data s1 ops,
  open_reader data = inr s1 -> Forall obs_ok (fst (rrun s1 ops)).
Proof. exact reader_total. Qed.
Print Assumptions xflate_reader_is_total.
