(* C07 — xflate.Reader is a faithful ReadSeeker. Model: XFlate/Reader.v
   (the code after repairs D1, D2). *)
From V Require Import Base.Prelude XFlate.Index XFlate.Reader XFlate.Thms XFlate.Witness.

(* a zero-length Read returns at once, delivers nothing, changes nothing *)
Theorem xr_read_zero_prompt : forall s, read s 0 = (([], r_err s), s).
Proof. exact read_zero. Qed.
Print Assumptions xr_read_zero_prompt.

(* refused seeks leave the reader exactly as it was *)
Theorem xr_seek_bad_whence_unchanged : forall s off wh,
  r_err s = None \/ r_err s = Some EEOF ->
  (wh <> 0 /\ wh <> 1 /\ wh <> 2)%Z ->
  seek s off wh = ((0%Z, Some EInvalid), s).
Proof. exact seek_bad_whence. Qed.
Print Assumptions xr_seek_bad_whence_unchanged.

Theorem xr_seek_negative_unchanged : forall s off,
  r_err s = None \/ r_err s = Some EEOF -> (off < 0)%Z ->
  seek s off 0 = ((0%Z, Some EInvalid), s).
Proof. exact seek_negative. Qed.
Print Assumptions xr_seek_negative_unchanged.

(* errors are sticky for Read; non-EOF errors also for Seek *)
Theorem xr_read_error_sticky : forall s n e, r_err s = Some e -> read s n = (([], Some e), s).
Proof. exact read_sticky. Qed.
Print Assumptions xr_read_error_sticky.

Theorem xr_seek_error_sticky : forall fixed s off wh e,
  r_err s = Some e -> e <> EEOF -> seek_gen fixed s off wh = ((0%Z, Some e), s).
Proof. exact seek_sticky. Qed.
Print Assumptions xr_seek_error_sticky.

(* the model exhibits defect D1 on the pre-repair Seek and not on the repaired one *)
Theorem xr_D1_prefix_refuted :
  run_with seek_prefix = Some [100; 101; 102] /\ [100; 101; 102] <> firstn 3 (skipn 5 w_plain).
Proof. exact C07_D1_refuted. Qed.
Print Assumptions xr_D1_prefix_refuted.

Theorem xr_D1_repaired : run_with seek = Some [102; 103; 104].
Proof. exact D1_fixed. Qed.
Print Assumptions xr_D1_repaired.
