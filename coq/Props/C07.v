(* C07 — xflate.Reader is a faithful ReadSeeker. Model: XFlate/Reader.v
   (the code after repairs D1, D2). *)
From V Require Import Base.Prelude XFlate.Index XFlate.Search XFlate.Reader XFlate.Thms XFlate.Witness XFlate.Refine XFlate.RefineCheck.

(* a zero-length Read returns at once, delivers nothing, changes nothing *)
Theorem xr_read_zero_prompt : forall s, read s 0 = (([], r_err s), s).
Proof. exact read_zero. Qed.
Print Assumptions xr_read_zero_prompt.

(* refused seeks leave the reader exactly as it was *)
Theorem xr_seek_bad_whence_unchanged : forall s off wh,
  r_err s = None \/ r_err s = Some EEOF ->
  (wh <> 0 /\ wh <> 1 /\ wh <> 2)%Z ->
  seek s off wh = ((0%Z, Some EInvalid), s).
Proof. exact seek_bad_whence. Qed.
Print Assumptions xr_seek_bad_whence_unchanged.

Theorem xr_seek_negative_unchanged : forall s off,
  r_err s = None \/ r_err s = Some EEOF -> (off < 0)%Z ->
  seek s off 0 = ((0%Z, Some EInvalid), s).
Proof. exact seek_negative. Qed.
Print Assumptions xr_seek_negative_unchanged.

(* errors are sticky for Read; non-EOF errors also for Seek *)
Theorem xr_read_error_sticky : forall s n e, r_err s = Some e -> read s n = (([], Some e), s).
Proof. exact read_sticky. Qed.
Print Assumptions xr_read_error_sticky.

Theorem xr_seek_error_sticky : forall fixed s off wh e,
  r_err s = Some e -> e <> EEOF -> seek_gen fixed s off wh = ((0%Z, Some e), s).
Proof. exact seek_sticky. Qed.
Print Assumptions xr_seek_error_sticky.

(* the model exhibits defect D1 on the pre-repair Seek and not on the repaired one *)
Theorem xr_D1_prefix_refuted :
  run_with seek_prefix = Some [100; 101; 102] /\ [100; 101; 102] <> firstn 3 (skipn 5 w_plain).
Proof. exact C07_D1_refuted. Qed.
Print Assumptions xr_D1_prefix_refuted.

Theorem xr_D1_repaired : run_with seek = Some [102; 103; 104].
Proof. exact D1_fixed. Qed.
Print Assumptions xr_D1_repaired.

(* THE PROPERTY, over all histories. For every byte string the Reader opens and whose
   record table is honest for [content] - sorted, and each delimited chunk decompresses,
   through the Reader's own chunk decoder, to its slice of [content] with matching sizes and
   sync marker (a decidable statement, [honestb]) - EVERY sequence of Seek (any offset, any
   whence, valid or not), Read (any length, zero included) and Close calls produces exactly
   the observations of a ReadSeeker over [content]: [sp_run] is that specification (position,
   sticky io.EOF exactly at the end, EInvalid with the position unchanged for refused seeks,
   everything refused after Close). *)
Theorem xr_refines_readseeker_all_histories : forall data content s1,
  open_reader data = inr s1 ->
  honest data (r_recs s1) content ->
  forall ops, fst (rrun s1 ops) = fst (sp_run content (mkSp 0 None) ops).
Proof. exact xflate_reader_refines_readseeker. Qed.
Print Assumptions xr_refines_readseeker_all_histories.

(* the same with the hypothesis as a computation; the harness evaluates [honest_stream]
   (extracted) on every stream the real Writer produced for this check *)
Theorem xr_refines_readseeker_decidable : forall data content,
  honest_stream data content = true ->
  exists s1, open_reader data = inr s1 /\
    forall ops, fst (rrun s1 ops) = fst (sp_run content (mkSp 0 None) ops).
Proof. exact honest_stream_refines. Qed.
Print Assumptions xr_refines_readseeker_decidable.

(* the hypothesis is satisfiable: the three-chunk witness stream written by the real Writer *)
Theorem xr_refinement_not_vacuous : honest_stream w_stream w_plain = true.
Proof. exact w_stream_honest. Qed.
Print Assumptions xr_refinement_not_vacuous.

(* Seek uses index.Search; the binary search as written returns the number of records
   that start at or before the target, on every sorted table *)
Theorem index_search_correct : forall T pos,
  sorted_ro T ->
  let ri := search T pos in
  (0 <= ri <= zlen T)%Z /\
  (ri = 0%Z \/ (RO T (ri - 1) <= pos)%Z) /\
  (ri = zlen T \/ (pos < RO T ri)%Z).
Proof. exact search_spec. Qed.
Print Assumptions index_search_correct.
