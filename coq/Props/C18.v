(* C18 — lifecycle: closed means closed. *)
From V Require Import Base.Prelude Base.Prog XFlate.Index XFlate.Writer XFlate.Reader XFlate.Thms Life.Writers Life.ReadLoop.

(* a successfully closed Writer emits nothing more and refuses Write/Flush;
   Close stays nil (xflate.Writer model, any compressor) *)
Theorem closed_xflate_writer_inert : forall deflate s o,
  w_err s = Some EClosed ->
  snd (wstep deflate s o) = s /\
  match o with
  | WClose => snd (fst (wstep deflate s o)) = None
  | _ => snd (fst (wstep deflate s o)) = Some EClosed
  end.
Proof. exact closed_writer_inert. Qed.
Print Assumptions closed_xflate_writer_inert.

(* the same for the latch discipline shared by bzip2/xflate/meta Writers *)
Theorem closed_writer_inert_generic : forall g w c,
  l_err w = Some EClosed ->
  snd (wcall_step g w c) = w /\
  snd (fst (wcall_step g w c)) = match c_kind c with KClose => None | _ => Some EClosed end.
Proof. exact closed_is_inert. Qed.
Print Assumptions closed_writer_inert_generic.

(* Readers: Close is idempotent, a closed reader refuses Read and Seek *)
Theorem xflate_reader_close_idempotent : forall s e1 s1,
  XFlate.Reader.close s = (e1, s1) -> e1 = None -> XFlate.Reader.close s1 = (None, s1).
Proof. exact close_idem. Qed.
Print Assumptions xflate_reader_close_idempotent.

Theorem xflate_closed_reader_refuses : forall s n off wh,
  r_err s = Some EClosed ->
  XFlate.Reader.read s n = (([], Some EClosed), s) /\ seek s off wh = ((0%Z, Some EClosed), s).
Proof. exact closed_reader_refuses. Qed.
Print Assumptions xflate_closed_reader_refuses.

Theorem stream_reader_close_contract : forall wrap v closed_err r,
  toRead r = [] ->
  match rerr r with
  | Some e =>
    if err_eqb e (wrap EEOF) || err_eqb e closed_err
    then fst (ReadLoop.close wrap closed_err r) = None /\
         forall n, ReadLoop.read wrap v (snd (ReadLoop.close wrap closed_err r)) n
                   = (([], Some closed_err), snd (ReadLoop.close wrap closed_err r))
    else fst (ReadLoop.close wrap closed_err r) = Some e /\ snd (ReadLoop.close wrap closed_err r) = r
  | None => True
  end.
Proof. exact close_contract. Qed.
Print Assumptions stream_reader_close_contract.
