(* C18 — lifecycle: closed means closed. *)
From V Require Import Base.Prelude Base.Prog XFlate.Index XFlate.Writer XFlate.Reader XFlate.Thms Life.Writers Life.ReadLoop.

(* a successfully closed Writer emits nothing more and refuses Write/Flush;
   Close stays nil (xflate.Writer model, any compressor) *)
Theorem closed_xflate_writer_inert : forall deflate s o,
  w_err s = Some EClosed ->
  snd (wstep deflate s o) = s /\
  match o with
  | WClose => snd (fst (wstep deflate s o)) = None
  | _ => snd (fst (wstep deflate s o)) = Some EClosed
  end.
Proof. exact closed_writer_inert. Qed.
Print Assumptions closed_xflate_writer_inert.

(* the same for the latch discipline shared by bzip2/xflate/meta Writers *)
Theorem closed_writer_inert_generic : forall g w c,
  l_err w = Some EClosed ->
  snd (wcall_step g w c) = w /\
  snd (fst (wcall_step g w c)) = match c_kind c with KClose => None | _ => Some EClosed end.
Proof. exact closed_is_inert. Qed.
Print Assumptions closed_writer_inert_generic.

(* Readers: Close is idempotent, a closed reader refuses Read and Seek *)
Theorem xflate_reader_close_idempotent : forall s e1 s1,
  XFlate.Reader.close s = (e1, s1) -> e1 = None -> XFlate.Reader.close s1 = (None, s1).
Proof. exact close_idem. Qed.
Print Assumptions xflate_reader_close_idempotent.

Theorem xflate_closed_reader_refuses : forall s n off wh,
  r_err s = Some EClosed ->
  XFlate.Reader.read s n = (([], Some EClosed), s) /\ seek s off wh = ((0%Z, Some EClosed), s).
Proof. exact closed_reader_refuses. Qed.
Print Assumptions xflate_closed_reader_refuses.

Theorem stream_reader_close_contract : forall wrap v closed_err r,
  toRead r = [] ->
  match rerr r with
  | Some e =>
    if err_eqb e (wrap EEOF) || err_eqb e closed_err
    then fst (ReadLoop.close wrap closed_err r) = None /\
         forall n, ReadLoop.read wrap v (snd (ReadLoop.close wrap closed_err r)) n
                   = (([], Some closed_err), snd (ReadLoop.close wrap closed_err r))
    else fst (ReadLoop.close wrap closed_err r) = Some e /\ snd (ReadLoop.close wrap closed_err r) = r
  | None => True
  end.
Proof. exact close_contract. Qed.
Print Assumptions stream_reader_close_contract.

From V Require Import Flate.Impl Flate.ImplLife Flate.ImplLifeWin Flate.ImplLifeSim Flate.ImplLifeThms.
(* flate.Reader at implementation level (Flate/ImplLife.v, per-call correspondence WFLLIFE).
   Close, from ANY state, touches neither the source nor the offsets nor the window and drops the
   pending output *)
Theorem flate_reader_close_frame : forall st,
  let st1 := snd (fl_close st) in
  f_rd st1 = f_rd st /\ f_inOff st1 = f_inOff st /\ f_outOff st1 = f_outOff st /\
  f_dict st1 = f_dict st /\ f_toRead st1 = [] /\
  (f_err st = None -> fl_close st = (None, set_toRead st [])).
Proof. exact fl_close_frame. Qed.
Print Assumptions flate_reader_close_frame.

(* closed means closed: after Close on a Reader whose error is latched (io.EOF, a decoding or
   source error, or already closed; output still pending or not) every later Read returns no byte
   and the closed error (resp. that error), every later Close nil (resp. that error), in any
   order and number, and the state never changes again *)
Theorem flate_reader_closed_is_inert : forall st e,
  f_err st = Some e ->
  let st1 := snd (fl_close st) in
  let e' := closed_class e in
  fst (fl_close st) = close_ret e /\
  st1 = set_err (set_toRead st []) (Some e') /\
  (f_rd st1 = f_rd st /\ f_inOff st1 = f_inOff st /\ f_outOff st1 = f_outOff st) /\
  forall ops, Forall no_reset ops ->
    fl_ops st1 ops =
    (map (fun o => match o with
                   | FRead _ => lobs_of LkRead [] (Some e') st1
                   | _ => lobs_of LkClose [] (close_ret e') st1
                   end) ops, st1).
Proof. exact fl_closed_inert. Qed.
Print Assumptions flate_reader_closed_is_inert.

(* what the code does NOT do (outside the property, which speaks of Close after io.EOF): a Close in
   the middle of a healthy stream closes nothing - it drops the pending output, returns nil, and
   the next Read goes on decoding (witness: 434 of 560 bytes lost) *)
Theorem flate_reader_close_midstream_closes_nothing : ~ fl_closed_inert_any_state_statement.
Proof. exact fl_closed_inert_any_state_refuted. Qed.
Print Assumptions flate_reader_close_midstream_closes_nothing.

From V Require Meta.ReaderImpl Meta.ReaderImplSim Meta.ReaderImplThms.
Module MetaReaderImplE.
Import Base.Prelude Base.Prog Flate.Impl Flate.ImplRel Meta.Model Meta.Stream Meta.ReaderImpl Meta.ReaderImplSim Meta.ReaderImplThms.
(* meta.Reader at implementation level, from ANY state: the first error is returned by every later
   Read with no bytes and nothing changes; after a successful Close every Read returns the closed
   error; Close is idempotent, touches neither source nor counters, and succeeds exactly when no
   error other than io.EOF is latched *)
Theorem meta_reader_closed_means_closed :
  (forall st n bs e st', mr_read st n = ((bs, Some e), st') ->
     forall n', mr_read st' n' = (([], Some e), st')) /\
  (forall st st', mr_close st = (None, st') ->
     forall n, mr_read st' n = (([], Some EClosed), st')) /\
  (forall st, mr_close (snd (mr_close st)) = mr_close st) /\
  (forall st, m_br (snd (mr_close st)) = m_br st /\ m_inOff (snd (mr_close st)) = m_inOff st /\
              m_outOff (snd (mr_close st)) = m_outOff st /\ m_nblocks (snd (mr_close st)) = m_nblocks st /\
              m_buf (snd (mr_close st)) = m_buf st) /\
  (forall st, match m_err st with
              | None | Some EEOF => mr_close st = (None, snd (mr_close st)) /\
                                    m_FinalMode (snd (mr_close st)) = m_final st /\
                                    m_err (snd (mr_close st)) = Some EClosed
              | Some EClosed => mr_close st = (None, st)
              | Some e => mr_close st = (Some e, st)
              end).
Proof. exact meta_reader_sticky_closed. Qed.
Print Assumptions meta_reader_closed_means_closed.
End MetaReaderImplE.

(* bzip2.Reader LIFECYCLE at implementation level (Bzip2/ImplLife.v: Close, the latch, Reset; histories of
   Read/Close/Reset over scripted sources compared PER CALL with the real Reader: WBZLIFE) *)
From V Require Import Base.Prelude Prefix.ReaderImpl Prefix.DecTable.
From V Require Bzip2.Impl Bzip2.ImplLife Bzip2.ImplLifeLatch Bzip2.ImplLifeSim Bzip2.ImplLifeInv Bzip2.ImplLifeThms.
Module BzLife.
Import Bzip2.Impl Bzip2.ImplLife Bzip2.ImplLifeLatch Bzip2.ImplLifeSim Bzip2.ImplLifeInv Bzip2.ImplLifeThms.
(* ---- C18 *)
Theorem bzip2_reader_close_frame : forall st,
  let st1 := snd (bz_close st) in
  z_rd st1 = z_rd st /\ z_inOff st1 = z_inOff st /\ z_outOff st1 = z_outOff st /\
  z_level st1 = z_level st /\ z_hdrftr st1 = z_hdrftr st /\ z_blkCRC st1 = z_blkCRC st /\
  z_endCRC st1 = z_endCRC st /\ z_crc st1 = z_crc st /\ z_trees st1 = z_trees st /\
  (z_err st = None -> bz_close st = (None, st)) /\
  (forall e, z_err st = Some e -> is_done e = false -> bz_close st = (Some e, st)) /\
  (forall e, z_err st = Some e -> is_done e = true ->
     bz_close st = (None, Bzip2.Impl.set_err (set_rle st (rle_init [])) (Some EClosed))).
Proof. exact bz_close_frame. Qed.
Print Assumptions bzip2_reader_close_frame.

Theorem bzip2_reader_closed_is_inert : forall st e,
  z_err st = Some e -> (is_done e = true \/ stuck (z_rle st)) ->
  let st1 := snd (bz_close st) in
  let e' := Bzip2.ImplLifeLatch.closed_class e in
  fst (bz_close st) = Bzip2.ImplLifeLatch.close_ret e /\ latched st1 e' /\
  (z_rd st1 = z_rd st /\ z_inOff st1 = z_inOff st /\ z_outOff st1 = z_outOff st) /\
  forall ops, Forall Bzip2.ImplLifeThms.no_reset ops ->
    bz_ops st1 ops =
    (map (fun o => match o with
                   | BRead _ => bzlobs_of BkRead [] (Some e') st1
                   | _ => bzlobs_of BkClose [] (Bzip2.ImplLifeLatch.close_ret e') st1
                   end) ops, st1).
Proof. exact bz_closed_inert. Qed.
Print Assumptions bzip2_reader_closed_is_inert.

Theorem bzip2_reader_close_midstream_closes_nothing : ~ bz_close_closes_statement.
Proof. exact bz_close_closes_refuted. Qed.
Print Assumptions bzip2_reader_close_midstream_closes_nothing.

End BzLife.
