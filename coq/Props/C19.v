(* C19 — independent instances do not interfere (the logical half; data
   races under the Go memory model are outside any Gallina model and are
   looked for by the race detector and a digest of every package-level table). *)
From V Require Import Base.Prelude Life.Shared.

Theorem instances_do_not_interfere :
  forall (T SA SB OpA OpB ObA ObB : Type)
         (stepA : T -> SA -> OpA -> ObA * SA) (stepB : T -> SB -> OpB -> ObB * SB)
         t sa sb sched,
  run2 T SA SB OpA OpB ObA ObB stepA stepB t sa sb sched =
  (fst (runA T SA OpA ObA stepA t sa (projA OpA OpB sched)),
   fst (runB T SB OpB ObB stepB t sb (projB OpA OpB sched)),
   snd (runA T SA OpA ObA stepA t sa (projA OpA OpB sched)),
   snd (runB T SB OpB ObB stepB t sb (projB OpA OpB sched))).
Proof. exact instances_commute. Qed.
Print Assumptions instances_do_not_interfere.

Theorem interleaving_irrelevant :
  forall (T SA SB OpA OpB ObA ObB : Type)
         (stepA : T -> SA -> OpA -> ObA * SA) (stepB : T -> SB -> OpB -> ObB * SB)
         t sa sb s1 s2,
  projA OpA OpB s1 = projA OpA OpB s2 -> projB OpA OpB s1 = projB OpA OpB s2 ->
  run2 T SA SB OpA OpB ObA ObB stepA stepB t sa sb s1 =
  run2 T SA SB OpA OpB ObA ObB stepA stepB t sa sb s2.
Proof. exact schedule_irrelevant. Qed.
Print Assumptions interleaving_irrelevant.
