(* C11 — no over-consumption; exact counters. *)
From V Require Import Prefix.ReaderImpl Window.Dict Flate.Impl Flate.ImplRel Flate.ImplThms Flate.ImplExamples.
From V Require Import Prefix.ReaderImpl Prefix.ReaderSpec Prefix.ReaderThms.
From V Require Import Base.Prelude Base.Prog Base.ProgThms Flate.Spec Flate.Thms Life.ReadLoop.

(* whatever follows a DEFLATE stream is never inspected: verdict, output and
   consumed length are those of the stream alone *)
Theorem flate_no_overconsumption : forall d input trailer,
  res_err (inflate_d d input) <> Some EUEOF ->
  res_err (inflate_d d (input ++ trailer)) = res_err (inflate_d d input) /\
  res_out (inflate_d d (input ++ trailer)) = res_out (inflate_d d input) /\
  res_pos (inflate_d d (input ++ trailer)) = res_pos (inflate_d d input).
Proof. exact inflate_trailing. Qed.
Print Assumptions flate_no_overconsumption.

(* the same for every decoder program that never asks whether the source is
   exhausted *)
Theorem decoder_no_overconsumption : forall (tobits : byte -> list bool) (p : prog unit) input trailer,
  eof_free p ->
  res_err (decode tobits p input) <> Some EUEOF ->
  res_err (decode tobits p (input ++ trailer)) = res_err (decode tobits p input) /\
  res_out (decode tobits p (input ++ trailer)) = res_out (decode tobits p input) /\
  res_pos (decode tobits p (input ++ trailer)) = res_pos (decode tobits p input).
Proof. intros tobits p. exact (decode_trailing tobits p). Qed.
Print Assumptions decoder_no_overconsumption.

(* OutputOffset equals the bytes delivered so far, after every Read *)
Theorem output_offset_exact : forall wrap v p0 s0 r n,
  Inv wrap p0 s0 r ->
  let r' := snd (read wrap v r n) in
  N.of_nat (length (delivered r')) = outoff r'.
Proof.
  intros wrap v p0 s0 r n H.
  exact (proj1 (delivered_is_prefix wrap p0 s0 _ (read_inv wrap v p0 s0 r n H))).
Qed.
Print Assumptions output_offset_exact.

(* the source position never runs ahead of what the decoder consumed: bits
   consumed are a prefix of the source *)
Theorem consumption_is_prefix : forall (p : prog unit) s,
  exists o c, a_out (res_state (run p s)) = o ++ a_out s /\
              a_in s = c ++ a_in (res_state (run p s)) /\
              a_pos (res_state (run p s)) = a_pos s + N.of_nat (length c).
Proof. intros p s. exact (run_mono p s). Qed.
Print Assumptions consumption_is_prefix.

(* The implementation-level model of prefix.Reader (64-bit buffer, wide loads with
   look-ahead bits, Peek/Discard bookkeeping, Flush, raw Read after repair D5; validated
   against the real Reader over scripted sources on every run) REFINES the abstract bit
   stream: for every data, both bit orders, every script of the source's freedoms (how much
   more than asked it buffers, how much a raw Read returns) and every sequence of ReadBits
   (<= 57 bits) / ReadPads / raw Read / Flush: every value is the value of the next bits of
   the stream, BitsRead is the abstract position, a raw Read returns the bytes at the
   aligned position, and after a Flush the source has been advanced over exactly the bytes
   that hold the bits read (no over-consumption). Same for a ReadByte-only source. *)
Theorem bit_reader_consumes_exactly_buffered : reader_refines_buffered.
Proof. exact reader_refines_buffered_holds. Qed.
Print Assumptions bit_reader_consumes_exactly_buffered.

Theorem bit_reader_consumes_exactly_bytereader : reader_refines_bytereader.
Proof. exact reader_refines_bytereader_holds. Qed.
Print Assumptions bit_reader_consumes_exactly_bytereader.

(* flate.Reader at implementation level: on BOTH source kinds, every script and every Read
   schedule, a valid stream ends in io.EOF with InputOffset = the stream's length and the source
   advanced by exactly that many bytes - nothing after the stream is consumed - and
   OutputOffset = the bytes delivered *)
Theorem flate_reader_consumes_exactly_the_stream :
  forall data bf fills reads st0 sched obs fin,
    bytes_lt256 data -> start_state data bf fills reads st0 -> fl_run st0 sched = (obs, fin) ->
    Flate.Spec.ir_err (Flate.Spec.inflate data) = None ->
    forall e, run_err obs = Some e ->
      e = EEOF /\ concat_bytes obs = Flate.Spec.ir_out (Flate.Spec.inflate data) /\
      f_inOff fin = Z.of_N (Flate.Spec.ir_used (Flate.Spec.inflate data)) /\
      s_pos (p_src (f_rd fin)) = N.to_nat (Flate.Spec.ir_used (Flate.Spec.inflate data)) /\
      f_outOff fin = zlen (concat_bytes obs).
Proof. exact flate_impl_refines_rfc1951_valid. Qed.
Print Assumptions flate_reader_consumes_exactly_the_stream.

From V Require Meta.ReaderImpl Meta.ReaderImplSim Meta.ReaderImplThms.
Module MetaReaderImplC.
Import Base.Prelude Base.Prog Flate.Impl Flate.ImplRel Meta.Model Meta.Stream Meta.ReaderImpl Meta.ReaderImplSim Meta.ReaderImplThms.
(* meta.Reader at implementation level, after EVERY call: OutputOffset = bytes delivered,
   InputOffset = the bytes taken from the source (never more), NumBlocks = blocks decoded *)
Theorem meta_reader_counters_are_exact : forall data bf fills reads sched obs fin,
  bytes_lt256 data -> rd_run (mr_new data bf fills reads) sched = (obs, fin) ->
  m_outOff fin = Z.of_nat (length (delivered obs)) /\
  m_inOff fin = Z.of_nat (src_pos fin) /\
  exists nb R f, m_nblocks fin = Z.of_N nb /\ spec_at data nb R (delivered obs ++ m_buf fin) f /\
    (run_err obs = None \/ run_err obs = Some EEOF -> src_pos fin = ((R + 7) / 8)%nat).
Proof. exact meta_reader_offsets. Qed.
Print Assumptions meta_reader_counters_are_exact.
(* meta.Reader ITSELF at implementation level (Meta/ReaderImpl.v: Read loop, decodeBlock over the
   bit-reader model on both source kinds, the temporary bit writer, errors.Recover and the deferred
   Flush, FinalMode, the counters; compared with the real Reader PER CALL: WMETAR) refines the
   decoder of Meta/Model.v for every input, source kind and script and every schedule of Read
   sizes: delivered bytes = the specification's output (also when it fails), io.EOF exactly when it
   accepts, otherwise ITS error class - the classes never differ on any source kind -, FinalMode
   and NumBlocks are the specification's, and InputOffset = source position = the end of the final
   block: nothing beyond it is consumed *)
Theorem meta_reader_consumes_exactly_the_stream : forall data bf fills reads sched obs fin,
  bytes_lt256 data -> N.of_nat (length data) < 2 ^ 42 ->
  rd_run (mr_new data bf fills reads) sched = (obs, fin) ->
  let res := meta_decode data in
  prefix_of (delivered obs) (mr_payload res) /\
  forall e, run_err obs = Some e ->
    delivered obs = mr_payload res /\
    (e = EEOF <-> mr_err res = None) /\
    (forall x, mr_err res = Some x -> e = x) /\
    (mr_err res = None ->
       m_FinalMode fin = mr_final res /\ m_nblocks fin = Z.of_N (mr_blocks res) /\
       m_inOff fin = Z.of_N (mr_used res) /\ src_pos fin = N.to_nat (mr_used res)).
Proof. exact meta_reader_refines_meta_decode. Qed.
Print Assumptions meta_reader_consumes_exactly_the_stream.
End MetaReaderImplC.
