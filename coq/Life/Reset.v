(* Reset of the Readers and Writers, at the level of the fields the Go code
   carries over. A Reader is modelled by what determines its future output:
   the bytes still pending delivery from the current block/window
   ([pending]), the latched error and the source it will continue to decode
   ([rest], decoded by an arbitrary function [dec]). Reset must make the
   pair equal to that of a new Reader. The pre-repair bzip2.Reader.Reset kept
   the run-length stage (the pending bytes of the old block): refuted. *)
From V Require Import Base.Prelude.

Section Reset.
  Variable dec : list byte -> list byte * option err.   (* one-shot decode of a source *)

  Record rstate := mkRS {
    pending : list byte;        (* decoded, not yet delivered (rle.buf[idx:], toRead, mr.buf) *)
    latched : option err;
    src : list byte;            (* what is left of the source *)
    offs : N * N                (* InputOffset, OutputOffset *)
  }.

  Definition fresh (s : list byte) : rstate := mkRS [] None s (0, 0).

  (* everything a caller can still observe: bytes then the final error *)
  Definition future (r : rstate) : list byte * option err :=
    match latched r with
    | Some e => (pending r, Some e)
    | None => let '(o, e) := dec (src r) in (pending r ++ o, e)
    end.

  (* Reset as repaired: nothing logical is carried over *)
  Definition reset (r : rstate) (s : list byte) : rstate := mkRS [] None s (0, 0).

  (* bzip2.Reader.Reset before the repair: `rle: zr.rle` carried over *)
  Definition reset_bzip2_prefix (r : rstate) (s : list byte) : rstate :=
    mkRS (pending r) None s (0, 0).

  Theorem reset_is_fresh r s : reset r s = fresh s.
  Proof. reflexivity. Qed.

  Theorem reset_future_independent r1 r2 s : future (reset r1 s) = future (reset r2 s).
  Proof. reflexivity. Qed.

  (* the pre-repair Reset leaks the old block *)
  Theorem C14_D4_refuted r s :
    pending r <> [] -> fst (future (reset_bzip2_prefix r s)) <> fst (future (fresh s)).
  Proof.
    intros Hp. unfold future, reset_bzip2_prefix, fresh. cbn [latched pending src].
    destruct (dec s) as [o e]. cbn [fst app].
    intros H. apply Hp.
    assert (Hl : length (pending r ++ o) = length o) by (rewrite H; reflexivity).
    rewrite app_length in Hl.
    destruct (pending r); [reflexivity | cbn in Hl; lia].
  Qed.
End Reset.
