(* The Read wrappers instantiated for the decoders modelled so far. *)
From V Require Import Base.Prelude Base.Prog Base.ProgThms Flate.Spec Flate.Thms Meta.Model Life.ReadLoop.

(* flate/common.go errWrap(err, errors.Corrupted): Invalid becomes Corrupted *)
Definition wrap_flate (e : err) : err :=
  match e with EInvalid => ECorrupted | _ => e end.

Definition flate_reader (d : nat) (input : list byte) : rd :=
  rd_init (inflate_prog d) (ast_init (bytes_to_bits input)).

Definition flate_read := read wrap_flate VFlate.
Definition flate_close := close wrap_flate EClosed.

(* a complete run of Reads with a schedule *)
Definition flate_reads := reads wrap_flate VFlate.

Example flate_reads_example :
  map fst (fst (flate_reads (flate_reader 8 [75;76;132;1;0]) [3; 0; 4; 100; 1]%nat))
  = [[97;97;97]; []; [97;97;97;97]; [97;97;97]; []].
Proof. vm_compute. reflexivity. Qed.

Example flate_reads_example_err :
  map snd (fst (flate_reads (flate_reader 8 [75;76;132;1;0]) [3; 0; 4; 100; 1]%nat))
  = [None; None; None; Some EEOF; Some EEOF].
Proof. vm_compute. reflexivity. Qed.
